(* Correctness of the graph-ordering loop of Tensor.backward (model: Engine/Dfs.v).

   For every arena [g] with [wf g], every [root < length g] and every initial [present0]:

     dfs_terminates / dfs_fuel_enough  the stated fuel suffices and more fuel changes nothing;
     dfs_iter_eq_rec                   the explicit-stack loop yields the order of the recursive visit;
     dfs_postorder                     that order is a post-order of the graph reachable from root;
     dfs_zero_calls (+ corollaries)    which tensors receive zero_(), which buffers exist afterwards;
     dfs_visits_linear                 the loop runs exactly sum_{n in ord} (1 + #children n) iterations;
     dfs_set_independent               the result does not depend on the visited-set implementation.

   Proof architecture: Proofs/DfsAux.v describes the effect of consuming a list of child entries by
   an inductive big-step relation [bkids], shows that the loop realises it ([bkids_sim]) and proves
   every property by induction on [bkids].  Here the pieces are assembled for the initial state.    *)
From Coq Require Import List Bool Arith Lia.
Import ListNotations.
From SG Require Import Engine.Graph Engine.Dfs.
From SG Require Export Proofs.DfsAux Proofs.DfsSet.

(* ------------------------------------------------------------------------------------------- *)
(** * The run from the initial state                                                            *)

Definition binit (root : nat) (p0 : list nat) : bst := mkB [root] [] p0 [] 0.

Lemma dinit_emb g root p0 :
  dinit g root p0 = emb [(root, children (getn g root))] (binit root p0).
Proof. reflexivity. Qed.

(* the loop, started on [root], performs [S (bcnt b2)] iterations and stops in [pop root b2] *)
Lemma dfs_run g root p0 b2 :
  bkids g (children (getn g root)) (binit root p0) b2 ->
  forall f, S (bcnt b2) <= f ->
    drun_count g f (dinit g root p0) 0 = Some (emb [] (pop root b2), S (bcnt b2)).
Proof.
  intros Hk f Hf.
  destruct (bkids_sim g _ _ _ Hk root [] []) as (k & Hit & Hc).
  rewrite app_nil_r in Hit. cbn [binit bcnt Nat.add] in Hc.
  assert (Hit' : diter g (k + 1) (dinit g root p0) = Some (emb [] (pop root b2))).
  { rewrite dinit_emb. rewrite (diter_add g k 1 _ _ Hit). cbn [diter]. rewrite dstep_pop. reflexivity. }
  rewrite (diter_drun_count g _ _ _ Hit' (dstep_done g _) f 0) by lia.
  f_equal. f_equal. lia.
Qed.

(* what the invariant says at the end: [L = root :: bord b2] is the order, most recent first *)
Lemma top_spec g root p0 b2 : wf g ->
  bkids g (children (getn g root)) (binit root p0) b2 ->
  NoDup (root :: bord b2) /\ closed g (root :: bord b2) /\
  (forall x, In x (root :: bord b2) -> reachable g root x).
Proof.
  intros Hwf Hk.
  assert (HI : Inv g root (binit root p0)).
  { unfold Inv, binit. cbn [bord bvis]. repeat split.
    - constructor.
    - apply closed_nil.
    - intros x [].
    - intros x [<-|[]] _. lia. }
  destruct (bkids_spec g Hwf _ _ _ Hk root (wf_children g Hwf root) HI)
    as ((ND & CL & _ & _) & Hin & new & E & Hnew & _ & _).
  cbn [binit bord] in E. rewrite app_nil_r in E. subst new.
  repeat split.
  - constructor; [|exact ND]. intros Hx. destruct (Hnew root Hx) as (Hlt & _). lia.
  - apply closed_cons; assumption.
  - intros x [<-|Hx]; [constructor|].
    destruct (Hnew x Hx) as (_ & c & Hc & Hr). eapply reach_step; eauto.
Qed.

Lemma top_fuel g root p0 b2 : wf g -> root < length g ->
  bkids g (children (getn g root)) (binit root p0) b2 ->
  S (bcnt b2) = cost g (root :: bord b2) /\ S (bcnt b2) < dfs_fuel g.
Proof.
  intros Hwf Hroot Hk.
  assert (Hc : S (bcnt b2) = cost g (root :: bord b2)).
  { pose proof (bkids_count g _ _ _ Hk) as H. cbn [binit bcnt bord] in H.
    unfold cost in *. cbn [map]. rewrite list_sum_cons. unfold weight at 1.
    change (list_sum (map (weight g) [])) with 0 in H. lia. }
  split; [exact Hc|]. rewrite Hc, dfs_fuel_cost.
  destruct (top_spec g root p0 b2 Hwf Hk) as (ND & _ & Hr).
  assert (Hle : cost g (root :: bord b2) <= cost g (seq 0 (length g))).
  { apply list_sum_incl; [exact ND|]. intros x Hx. apply in_seq.
    specialize (Hr x Hx). apply (reachable_le g Hwf) in Hr. lia. }
  lia.
Qed.

(* every run with enough fuel, described through [bkids] *)
Lemma dfs_char g root p0 : wf g -> root < length g ->
  exists b2, bkids g (children (getn g root)) (binit root p0) b2 /\
    S (bcnt b2) < dfs_fuel g /\
    forall f, S (bcnt b2) <= f ->
      drun_count g f (dinit g root p0) 0 = Some (emb [] (pop root b2), S (bcnt b2)) /\
      dfs g root p0 f = Some (rev (root :: bord b2), rev (bzlog b2), bpres b2).
Proof.
  intros Hwf Hroot.
  destruct (bkids_total g Hwf (children (getn g root)) (binit root p0)) as (b2 & Hk).
  exists b2. split; [exact Hk|].
  destruct (top_fuel g root p0 b2 Hwf Hroot Hk) as (_ & Hlt). split; [exact Hlt|].
  intros f Hf. pose proof (dfs_run g root p0 b2 Hk f Hf) as Hrun. split; [exact Hrun|].
  unfold dfs. rewrite <- (drun_count_drun g f _ 0), Hrun. reflexivity.
Qed.

(* ------------------------------------------------------------------------------------------- *)
(** * 1. Termination                                                                             *)

Theorem dfs_terminates g root present0 : wf g -> root < length g ->
  exists r, dfs g root present0 (dfs_fuel g) = Some r.
Proof.
  intros Hwf Hroot. destruct (dfs_char g root present0 Hwf Hroot) as (b2 & _ & Hlt & H).
  destruct (H (dfs_fuel g)) as (_ & E); [lia|]. eexists. exact E.
Qed.

Theorem dfs_fuel_enough g root present0 : wf g -> root < length g ->
  forall f, dfs_fuel g <= f -> dfs g root present0 f = dfs g root present0 (dfs_fuel g).
Proof.
  intros Hwf Hroot f Hf. destruct (dfs_char g root present0 Hwf Hroot) as (b2 & _ & Hlt & H).
  destruct (H (dfs_fuel g)) as (_ & E1); [lia|]. destruct (H f) as (_ & E2); [lia|].
  rewrite E1, E2. reflexivity.
Qed.

(* ------------------------------------------------------------------------------------------- *)
(** * 2. The loop computes the order of the recursive visit                                     *)

Theorem dfs_iter_eq_rec g root present0 ord z p : wf g -> root < length g ->
  dfs g root present0 (dfs_fuel g) = Some (ord, z, p) -> ord = dfs_rec g root.
Proof.
  intros Hwf Hroot Hd. destruct (dfs_char g root present0 Hwf Hroot) as (b2 & Hk & Hlt & H).
  destruct (H (dfs_fuel g)) as (_ & E); [lia|]. rewrite E in Hd. inversion Hd; subst ord z p.
  unfold dfs_rec. cbn [visit mem existsb].
  assert (Hc : forall c, In c (children (getn g root)) -> c < length g).
  { intros c Hc. apply (wf_children g Hwf) in Hc. lia. }
  pose proof (bkids_visit g Hwf _ _ _ Hk (length g) Hc) as Hv.
  cbn [binit bvis bord] in Hv. rewrite Hv. reflexivity.
Qed.

(* ------------------------------------------------------------------------------------------- *)
(** * 3. The order is a post-order of the reachable graph                                        *)

Lemma postorder_of_closed g root L : NoDup (root :: L) -> closed g (root :: L) ->
  (forall x, In x (root :: L) -> reachable g root x) ->
  is_postorder g root (rev (root :: L)).
Proof.
  intros ND CL Hr. unfold is_postorder. split; [|split; [|split]].
  - apply NoDup_rev. exact ND.
  - exists (rev L). reflexivity.
  - intros n. split.
    + intros Hn. apply in_rev in Hn. now apply Hr.
    + intros Hn. apply -> in_rev. apply (closed_reachable g _ CL root n Hn). left. reflexivity.
  - intros n c Hn Hc. apply in_rev in Hn.
    destruct (in_split _ _ Hn) as (l1 & l2 & E).
    pose proof (CL l1 n l2 E c Hc) as Hc2.
    destruct (in_split _ _ Hc2) as (l3 & l4 & E2). subst l2.
    exists (rev l4), (rev l3), (rev l1). rewrite E.
    rewrite rev_app_distr. cbn [rev]. rewrite rev_app_distr. cbn [rev].
    rewrite <- !app_assoc. reflexivity.
Qed.

Theorem dfs_postorder g root present0 ord z p : wf g -> root < length g ->
  dfs g root present0 (dfs_fuel g) = Some (ord, z, p) -> is_postorder g root ord.
Proof.
  intros Hwf Hroot Hd. destruct (dfs_char g root present0 Hwf Hroot) as (b2 & Hk & Hlt & H).
  destruct (H (dfs_fuel g)) as (_ & E); [lia|]. rewrite E in Hd. inversion Hd; subst ord z p.
  destruct (top_spec g root present0 b2 Hwf Hk) as (ND & CL & Hr).
  now apply postorder_of_closed.
Qed.

(* ------------------------------------------------------------------------------------------- *)
(** * 4. The zero_() calls and the buffers present afterwards                                   *)

(* [c] is reachable from [root] by a path of length >= 1 *)
Definition descendant (g : arena) (root c : nat) : Prop :=
  exists n, reachable g root n /\ In c (children (getn g n)).

Lemma reachable_last g a b : reachable g a b -> a = b \/ descendant g a b.
Proof.
  intros H. induction H as [n|n c m Hc Hr IH]; [left; reflexivity|]. right.
  destruct IH as [->|(k & Hk & Hm)].
  - exists n. split; [constructor|exact Hc].
  - exists k. split; [eapply reach_step; eauto|exact Hm].
Qed.

Lemma descendant_iff g root c : wf g ->
  descendant g root c <-> (c <> root /\ reachable g root c).
Proof.
  intros Hwf. split.
  - intros (n & Hn & Hc). split.
    + pose proof (reachable_le g Hwf _ _ Hn). apply (wf_children g Hwf) in Hc. lia.
    + eapply reachable_trans; [exact Hn|]. eapply reach_step; [exact Hc|constructor].
  - intros (Hne & Hr). destruct (reachable_last g _ _ Hr) as [E|Hd]; [congruence|exact Hd].
Qed.

Theorem dfs_zero_calls g root present0 ord z p : wf g -> root < length g ->
  dfs g root present0 (dfs_fuel g) = Some (ord, z, p) ->
  (forall c, In c z <->
     descendant g root c /\ req (getn g c) = true /\
     (~ In c present0 \/ is_leaf (getn g c) = false)) /\
  (forall c, In c p <-> In c present0 \/ In c z).
Proof.
  intros Hwf Hroot Hd. destruct (dfs_char g root present0 Hwf Hroot) as (b2 & Hk & Hlt & H).
  destruct (H (dfs_fuel g)) as (_ & E); [lia|]. rewrite E in Hd. inversion Hd; subst ord z p.
  destruct (top_spec g root present0 b2 Hwf Hk) as (ND & CL & Hr).
  assert (HP : PresInv present0 (binit root present0)).
  { intros x. cbn [binit bpres bzlog In]. tauto. }
  destruct (bkids_zlog g present0 _ _ _ Hk HP) as (HP2 & new & En & Hz).
  cbn [binit bord bzlog] in En, Hz. rewrite app_nil_r in En. subst new.
  assert (Hdesc : forall c, In c (children (getn g root)) \/ kidsof g (bord b2) c <-> descendant g root c).
  { intros c. rewrite <- kidsof_cons. unfold kidsof, descendant. split.
    - intros (m & Hm & Hc). exists m. split; [now apply Hr|exact Hc].
    - intros (m & Hm & Hc). exists m. split; [|exact Hc].
      apply (closed_reachable g _ CL root m Hm). left. reflexivity. }
  split.
  - intros c. rewrite <- in_rev, Hz, Hdesc. unfold zcond. cbn [In]. tauto.
  - intros c. rewrite <- in_rev. apply HP2.
Qed.

(* the form used by the sweep proofs: membership in terms of "proper descendant of root" *)
Theorem dfs_zero_char g root present0 ord z p : wf g -> root < length g ->
  dfs g root present0 (dfs_fuel g) = Some (ord, z, p) ->
  forall c, In c z <->
    (c <> root /\ reachable g root c /\ req (getn g c) = true /\
     (mem c present0 = false \/ is_leaf (getn g c) = false)).
Proof.
  intros Hwf Hroot Hd c.
  destruct (dfs_zero_calls g root present0 ord z p Hwf Hroot Hd) as (Hz & _).
  rewrite Hz, (descendant_iff g root c Hwf), mem_notIn. tauto.
Qed.

(* termination, order and zero_() calls in one statement (the hypothesis taken by the sweep proofs) *)
Theorem dfs_total_spec : forall g root present0, wf g -> root < length g ->
  exists ord z p, dfs g root present0 (dfs_fuel g) = Some (ord, z, p) /\ is_postorder g root ord /\
    (forall c, In c z <-> (c <> root /\ reachable g root c /\ req (getn g c) = true /\
                           (mem c present0 = false \/ is_leaf (getn g c) = false))).
Proof.
  intros g root present0 Hwf Hroot.
  destruct (dfs_terminates g root present0 Hwf Hroot) as ([[ord z] p] & E).
  exists ord, z, p. split; [exact E|]. split.
  - exact (dfs_postorder g root present0 ord z p Hwf Hroot E).
  - exact (dfs_zero_char g root present0 ord z p Hwf Hroot E).
Qed.

(* nothing outside the graph below root is ever zeroed (and root itself is not zeroed by the loop) *)
Corollary dfs_zero_reachable g root present0 ord z p : wf g -> root < length g ->
  dfs g root present0 (dfs_fuel g) = Some (ord, z, p) ->
  forall c, In c z -> In c ord /\ c <> root /\ reachable g root c /\ req (getn g c) = true.
Proof.
  intros Hwf Hroot Hd c Hc.
  apply (dfs_zero_char g root present0 ord z p Hwf Hroot Hd) in Hc.
  destruct Hc as (Hne & Hr & Hq & _).
  destruct (dfs_postorder g root present0 ord z p Hwf Hroot Hd) as (_ & _ & Hin & _).
  repeat split; auto. now apply Hin.
Qed.

(* after the loop every ordered node except root that requires grad has a gradient buffer *)
Corollary dfs_grad_present g root present0 ord z p : wf g -> root < length g ->
  dfs g root present0 (dfs_fuel g) = Some (ord, z, p) ->
  forall c, In c ord -> c <> root -> req (getn g c) = true -> In c p.
Proof.
  intros Hwf Hroot Hd c Hc Hne Hq.
  destruct (dfs_zero_calls g root present0 ord z p Hwf Hroot Hd) as (_ & Hp).
  pose proof (dfs_zero_char g root present0 ord z p Hwf Hroot Hd c) as Hz.
  destruct (dfs_postorder g root present0 ord z p Hwf Hroot Hd) as (_ & _ & Hin & _).
  apply Hin in Hc. apply Hp.
  destruct (mem c present0) eqn:Hm.
  - left. now apply mem_In.
  - right. apply Hz. auto.
Qed.

(* a leaf is zeroed at most once per traversal, and never if its buffer already existed (its
   accumulated gradient survives); interior nodes may be zeroed once per incoming child entry *)
Theorem dfs_zero_leaf_once g root present0 ord z p : wf g -> root < length g ->
  dfs g root present0 (dfs_fuel g) = Some (ord, z, p) ->
  forall c, is_leaf (getn g c) = true ->
    count_occ Nat.eq_dec z c <= 1 /\ (In c present0 -> ~ In c z).
Proof.
  intros Hwf Hroot Hd c Hl. split.
  - destruct (dfs_char g root present0 Hwf Hroot) as (b2 & Hk & Hlt & H).
    destruct (H (dfs_fuel g)) as (_ & E); [lia|]. rewrite E in Hd. inversion Hd; subst ord z p.
    rewrite count_occ_rev.
    apply (bkids_leaf_once g c Hl _ _ _ Hk).
    + intros y [].
    + cbn [binit bzlog count_occ]. lia.
  - intros Hp Hz. apply (dfs_zero_calls g root present0 ord z p Hwf Hroot Hd) in Hz.
    destruct Hz as (_ & _ & [Hn|Hn]); [contradiction|congruence].
Qed.

(* ------------------------------------------------------------------------------------------- *)
(** * 5. Cost: every reachable node once, every child entry once                                 *)

(* [drun_count] (Proofs/DfsAux.v) is [drun] with an iteration counter: [drun_count_drun] *)
Theorem dfs_count_same_result g fuel s k :
  option_map fst (drun_count g fuel s k) = drun g fuel s.
Proof. apply drun_count_drun. Qed.

Theorem dfs_visits_linear g root present0 s k : wf g -> root < length g ->
  drun_count g (dfs_fuel g) (dinit g root present0) 0 = Some (s, k) ->
  k = list_sum (map (fun n => 1 + length (children (getn g n))) (rev (rord s))) /\
  k < dfs_fuel g.
Proof.
  intros Hwf Hroot Hd. destruct (dfs_char g root present0 Hwf Hroot) as (b2 & Hk & Hlt & H).
  destruct (H (dfs_fuel g)) as (E & _); [lia|]. rewrite E in Hd. inversion Hd; subst s k.
  split; [|exact Hlt].
  destruct (top_fuel g root present0 b2 Hwf Hroot Hk) as (Hc & _). rewrite Hc.
  change (rord (emb [] (pop root b2))) with (root :: bord b2).
  unfold cost. rewrite map_rev, list_sum_rev. reflexivity.
Qed.

(* the same, phrased on the result of [dfs]: there is a run of exactly that many iterations *)
Corollary dfs_visits_linear_ord g root present0 ord z p : wf g -> root < length g ->
  dfs g root present0 (dfs_fuel g) = Some (ord, z, p) ->
  exists s, drun_count g (dfs_fuel g) (dinit g root present0) 0
            = Some (s, list_sum (map (fun n => 1 + length (children (getn g n))) ord)) /\
            ord = rev (rord s).
Proof.
  intros Hwf Hroot Hd. destruct (dfs_char g root present0 Hwf Hroot) as (b2 & Hk & Hlt & H).
  destruct (H (dfs_fuel g)) as (E & E2); [lia|]. rewrite E2 in Hd. inversion Hd; subst ord z p.
  exists (emb [] (pop root b2)). split; [|reflexivity].
  rewrite E. f_equal. f_equal.
  destruct (top_fuel g root present0 b2 Hwf Hroot Hk) as (Hc & _). rewrite Hc.
  change (rev (bord b2) ++ [root]) with (rev (root :: bord b2)).
  unfold cost. rewrite map_rev, list_sum_rev. reflexivity.
Qed.

(* ------------------------------------------------------------------------------------------- *)
(** * 6. Independence of the visited-set implementation                                          *)

Theorem dfs_set_independent
  (VS : Type) (empty : VS) (add : nat -> VS -> VS) (memb : nat -> VS -> bool) :
  (forall x y s, memb x (add y s) = (x =? y) || memb x s) ->
  (forall x, memb x empty = false) ->
  forall g root present0 fuel,
    gdfs VS empty add memb g root present0 fuel = dfs g root present0 fuel.
Proof. intros H1 H2 g root p0 fuel. now apply gdfs_eq_dfs. Qed.

(* ------------------------------------------------------------------------------------------- *)
(** * The boolean well-formedness test is sound (so the examples below satisfy [wf])            *)

Lemma wfb_from_sound : forall g n, wfb_from n g = true ->
  forall i, i < length g -> Forall (fun c => c < n + i) (children (nth i g dummy_node)).
Proof.
  induction g as [|nd g IH]; intros n H i Hi; cbn [length] in Hi; [lia|].
  cbn [wfb_from] in H. apply andb_true_iff in H. destruct H as (H1 & H2).
  destruct i as [|i]; cbn [nth].
  - rewrite Nat.add_0_r. apply Forall_forall. intros c Hc.
    rewrite forallb_forall in H1. apply Nat.ltb_lt. now apply H1.
  - replace (n + S i) with (S n + i) by lia. apply IH; [exact H2|lia].
Qed.

Lemma wfb_sound g : wfb g = true -> wf g.
Proof. intros H n Hn. exact (wfb_from_sound g 0 H n Hn). Qed.

(* ------------------------------------------------------------------------------------------- *)
(** * Examples (evaluated)                                                                       *)

Definition leafn : node := mkNode [] true false false.              (* a parameter              *)
Definition constn : node := mkNode [] false false false.            (* requires_grad = False    *)
Definition opn (cs : list nat) : node := mkNode cs true true false. (* result of a tracked op   *)

(* diamond:  a ; b = f(a) ; c = h(a) ; d = b*c *)
Definition g_diamond : arena := [leafn; opn [0]; opn [0]; opn [1; 2]].

Example ex_diamond_wf : wfb g_diamond = true.
Proof. vm_compute. reflexivity. Qed.

Example ex_diamond :
  dfs g_diamond 3 [] (dfs_fuel g_diamond) = Some ([0; 1; 2; 3], [1; 0; 2], [2; 0; 1]).
Proof. vm_compute. reflexivity. Qed.

(* the shared leaf already has a buffer (second backward): it is not zeroed, it accumulates *)
Example ex_diamond_present :
  dfs g_diamond 3 [0] (dfs_fuel g_diamond) = Some ([0; 1; 2; 3], [1; 2], [2; 1; 0]).
Proof. vm_compute. reflexivity. Qed.

Example ex_diamond_rec : dfs_rec g_diamond 3 = [0; 1; 2; 3].
Proof. vm_compute. reflexivity. Qed.

Example ex_diamond_count :
  option_map snd (drun_count g_diamond (dfs_fuel g_diamond) (dinit g_diamond 3 []) 0) = Some 8.
Proof. vm_compute. reflexivity. Qed.

(* a node used twice by one op:  x ; y = x*x *)
Definition g_square : arena := [leafn; opn [0; 0]].

Example ex_square :
  dfs g_square 1 [] (dfs_fuel g_square) = Some ([0; 1], [0], [0]).
Proof. vm_compute. reflexivity. Qed.

(* ... and an interior node used twice:  x ; y = f(x) ; w = y*y.  y (not a leaf) is zeroed at both
   of its entries, before any gradient has been accumulated *)
Definition g_square2 : arena := [leafn; opn [0]; opn [1; 1]].

Example ex_square2 :
  dfs g_square2 2 [] (dfs_fuel g_square2) = Some ([0; 1; 2], [1; 0; 1], [0; 1]).
Proof. vm_compute. reflexivity. Qed.

(* multi-output op (unbind):  x ; c (constant) ; o1,o2,o3 = unbind(x) ; s = o1*c ; t = stack(s,o2,o3,o1).
   Every output has the single operand x; the constant is a child entry but is never zeroed *)
Definition g_multi : arena :=
  [leafn; constn; opn [0]; opn [0]; opn [0]; opn [2; 1]; opn [5; 3; 4; 2]].

Example ex_multi_wf : wfb g_multi = true.
Proof. vm_compute. reflexivity. Qed.

Example ex_multi :
  dfs g_multi 6 [] (dfs_fuel g_multi)
  = Some ([0; 2; 1; 5; 3; 4; 6], [5; 2; 0; 3; 4; 2], [4; 3; 0; 2; 5]).
Proof. vm_compute. reflexivity. Qed.

Example ex_multi_postorder : is_postorder g_multi 6 [0; 2; 1; 5; 3; 4; 6].
Proof.
  exact (dfs_postorder g_multi 6 [] _ _ _ (wfb_sound _ ex_multi_wf) (le_n _ : 6 < 7) ex_multi).
Qed.

(* the visited set as a characteristic function / as a decreasing list gives the same answer *)
Example ex_multi_fs :
  gdfs (nat -> bool) fs_empty fs_add fs_memb g_multi 6 [] (dfs_fuel g_multi)
  = dfs g_multi 6 [] (dfs_fuel g_multi).
Proof. vm_compute. reflexivity. Qed.

Example ex_multi_sl :
  gdfs (list nat) [] sl_add mem g_multi 6 [] (dfs_fuel g_multi)
  = dfs g_multi 6 [] (dfs_fuel g_multi).
Proof. exact (dfs_set_independent _ [] sl_add mem sl_memb_add (fun _ => eq_refl) _ _ _ _). Qed.

(* ------------------------------------------------------------------------------------------- *)
Goal True. idtac "ASSUMPTIONS dfs_terminates". Abort.
Print Assumptions dfs_terminates.
Goal True. idtac "ASSUMPTIONS dfs_fuel_enough". Abort.
Print Assumptions dfs_fuel_enough.
Goal True. idtac "ASSUMPTIONS dfs_iter_eq_rec". Abort.
Print Assumptions dfs_iter_eq_rec.
Goal True. idtac "ASSUMPTIONS dfs_postorder". Abort.
Print Assumptions dfs_postorder.
Goal True. idtac "ASSUMPTIONS dfs_zero_calls". Abort.
Print Assumptions dfs_zero_calls.
Goal True. idtac "ASSUMPTIONS dfs_zero_char". Abort.
Print Assumptions dfs_zero_char.
Goal True. idtac "ASSUMPTIONS dfs_total_spec". Abort.
Print Assumptions dfs_total_spec.
Goal True. idtac "ASSUMPTIONS dfs_zero_reachable". Abort.
Print Assumptions dfs_zero_reachable.
Goal True. idtac "ASSUMPTIONS dfs_grad_present". Abort.
Print Assumptions dfs_grad_present.
Goal True. idtac "ASSUMPTIONS dfs_zero_leaf_once". Abort.
Print Assumptions dfs_zero_leaf_once.
Goal True. idtac "ASSUMPTIONS dfs_count_same_result". Abort.
Print Assumptions dfs_count_same_result.
Goal True. idtac "ASSUMPTIONS dfs_visits_linear". Abort.
Print Assumptions dfs_visits_linear.
Goal True. idtac "ASSUMPTIONS dfs_visits_linear_ord". Abort.
Print Assumptions dfs_visits_linear_ord.
Goal True. idtac "ASSUMPTIONS dfs_set_independent". Abort.
Print Assumptions dfs_set_independent.
Goal True. idtac "ASSUMPTIONS wfb_sound". Abort.
Print Assumptions wfb_sound.
