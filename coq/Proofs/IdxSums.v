(* Finite sums over multi-index enumerations, list surgery facts (insert_at / remove_at / set_at), and
   boolean equality on multi-indices.  Shared by the E2 proofs.                                    *)
From Coq Require Import List Arith Lia Bool Permutation.
Import ListNotations.
From SG Require Import Base.Sums Base.Cmp NumPy.Index NumPy.Tensor NumPy.Gather NumPy.TensorFn.

(* ---------- idx_eqb ---------- *)
Lemma idx_eqb_spec : forall a b, idx_eqb a b = true <-> a = b.
Proof.
  unfold idx_eqb. induction a as [|x a IH]; destruct b as [|y b]; simpl; split; intros E; try congruence; auto.
  - apply andb_true_iff in E as [E1 E2]. apply Nat.eqb_eq in E1. apply IH in E2. congruence.
  - inversion E; subst. rewrite Nat.eqb_refl. simpl. apply IH. reflexivity.
Qed.
Lemma idx_eqb_refl a : idx_eqb a a = true.
Proof. apply idx_eqb_spec. reflexivity. Qed.
Lemma idx_eqb_cons x a y b : idx_eqb (x :: a) (y :: b) = (x =? y) && idx_eqb a b.
Proof. reflexivity. Qed.
Lemma shape_eqb_spec : forall a b, shape_eqb a b = true <-> a = b.
Proof. exact idx_eqb_spec. Qed.

(* ---------- in-range indices ---------- *)
Lemma in_idxs_length sh i : In i (idxs sh) -> length i = length sh.
Proof. intros Hi. apply in_idxs in Hi. induction Hi; simpl; auto. Qed.
Lemma in_idxs_cons d r k t : In (k :: t) (idxs (d :: r)) <-> k < d /\ In t (idxs r).
Proof.
  rewrite !in_idxs. split.
  - intros F. inversion F; subst. split; auto.
  - intros [Hk F]. constructor; auto.
Qed.
Lemma in_idxs_nil i : In i (idxs []) <-> i = [].
Proof. simpl. split. intros [E|[]]; auto. intros ->. auto. Qed.
Lemma in_idxs_app s1 s2 p q : In p (idxs s1) -> In q (idxs s2) -> In (p ++ q) (idxs (s1 ++ s2)).
Proof. rewrite !in_idxs. intros. apply Forall2_app; auto. Qed.
Lemma in_idxs_nth sh i n : In i (idxs sh) -> n < length sh -> nth n i 0 < nth n sh 0.
Proof.
  rewrite in_idxs. intros F. revert n. induction F; simpl; intros n Hn. lia.
  destruct n; auto. apply IHF. lia.
Qed.

Section S.
Context {A:Type} `{ScalarLaws A}.

(* ---------- isum structure ---------- *)
Lemma isum_nil {I} (f:I->A) : isum [] f = s0.
Proof. reflexivity. Qed.
Lemma isum_cons {I} a (l:list I) (f:I->A) : isum (a :: l) f = sadd (f a) (isum l f).
Proof. reflexivity. Qed.
Lemma isum_single {I} a (f:I->A) : isum [a] f = f a.
Proof. unfold isum. simpl. apply sadd_0_r. Qed.
Lemma isum_app {I} (l l':list I) (f:I->A) : isum (l ++ l') f = sadd (isum l f) (isum l' f).
Proof. unfold isum. rewrite map_app. apply lsum_app. Qed.
Lemma isum_map {I J} (h:I->J) (l:list I) (f:J->A) : isum (map h l) f = isum l (fun i => f (h i)).
Proof. unfold isum. now rewrite map_map. Qed.
Lemma isum_flat_map {I J} (h:I->list J) (l:list I) (f:J->A) :
  isum (flat_map h l) f = isum l (fun i => isum (h i) f).
Proof.
  induction l as [|a l IH]; simpl. reflexivity.
  rewrite isum_app, IH. reflexivity.
Qed.
Lemma isum_seq_shift a n (f:nat->A) : isum (seq a n) f = isum (seq 0 n) (fun k => f (a + k)).
Proof.
  revert a f. induction n as [|n IH]; intros a f; simpl. reflexivity.
  rewrite !isum_cons. rewrite Nat.add_0_r. f_equal.
  rewrite (IH (S a) f), (IH 1 (fun k => f (a + k))). apply isum_ext. intros k _. f_equal. lia.
Qed.
Lemma isum_seq_split a b (f:nat->A) :
  isum (seq 0 (a + b)) f = sadd (isum (seq 0 a) f) (isum (seq 0 b) (fun k => f (a + k))).
Proof. rewrite seq_app, isum_app. f_equal. simpl. apply isum_seq_shift. Qed.

(* an indicator that does not depend on the summation variable *)
Lemma isum_if_const {I} (l:list I) (c:bool) (f:I->A) :
  isum l (fun i => if c then f i else s0) = if c then isum l f else s0.
Proof. destruct c. reflexivity. apply isum_zero. Qed.

(* picking with Nat.eqb over seq *)
Lemma isum_seq_pick d k (f:nat->A) : k < d -> isum (seq 0 d) (fun k' => if k' =? k then f k' else s0) = f k.
Proof.
  intros Hk.
  transitivity (isum (seq 0 d) (fun k' => if Nat.eqb k k' then f k' else s0)).
  { apply isum_ext. intros k' _. rewrite Nat.eqb_sym. reflexivity. }
  apply (isum_pick Nat.eqb Nat.eqb_eq). apply seq_NoDup. apply in_seq. lia.
Qed.

(* ---------- sums over idxs ---------- *)
Lemma isum_idxs_nil (F:idx->A) : isum (idxs []) F = F [].
Proof. simpl. apply isum_single. Qed.
Lemma isum_idxs_cons d r (F:idx->A) :
  isum (idxs (d :: r)) F = isum (seq 0 d) (fun k => isum (idxs r) (fun t => F (k :: t))).
Proof.
  simpl. rewrite isum_flat_map. apply isum_ext. intros k _. apply isum_map.
Qed.
Lemma isum_idxs_app s1 s2 (F:idx->A) :
  isum (idxs (s1 ++ s2)) F = isum (idxs s1) (fun p => isum (idxs s2) (fun q => F (p ++ q))).
Proof.
  revert F. induction s1 as [|d r IH]; intros F.
  - rewrite isum_idxs_nil. reflexivity.
  - change ((d :: r) ++ s2) with (d :: (r ++ s2)). rewrite !isum_idxs_cons.
    apply isum_ext. intros k _. rewrite IH. reflexivity.
Qed.
End S.

(* ---------- list surgery ---------- *)
Lemma remove_insert {X} n (x:X) l : n <= length l -> remove_at n (insert_at n x l) = l.
Proof.
  revert l. induction n as [|n IH]; intros l Hn; simpl. reflexivity.
  destruct l as [|a l]; simpl in *. lia. f_equal. apply IH. lia.
Qed.
Lemma insert_remove {X} n (l:list X) d : n < length l -> insert_at n (nth n l d) (remove_at n l) = l.
Proof.
  revert l. induction n as [|n IH]; intros l Hn; destruct l as [|a l]; simpl in *; try lia. reflexivity.
  f_equal. apply IH. lia.
Qed.
Lemma nth_insert {X} n (x:X) l d : n <= length l -> nth n (insert_at n x l) d = x.
Proof.
  revert l. induction n as [|n IH]; intros l Hn; simpl. reflexivity.
  destruct l as [|a l]; simpl in *. lia. apply IH. lia.
Qed.
Lemma length_insert {X} n (x:X) l : n <= length l -> length (insert_at n x l) = S (length l).
Proof.
  revert l. induction n as [|n IH]; intros l Hn; simpl. reflexivity.
  destruct l as [|a l]; simpl in *. lia. f_equal. apply IH. lia.
Qed.
Lemma length_remove {X} n (l:list X) : n < length l -> length (remove_at n l) = length l - 1.
Proof.
  revert l. induction n as [|n IH]; intros l Hn; destruct l as [|a l]; simpl in *; try lia.
  rewrite IH by lia. lia.
Qed.
Lemma length_set_at {X} n (x:X) l : length (set_at n x l) = length l.
Proof. revert l. induction n; intros [|a l]; simpl; auto. Qed.
Lemma nth_set_at_eq {X} n (x:X) l d : n < length l -> nth n (set_at n x l) d = x.
Proof. revert l. induction n as [|n IH]; intros [|a l] Hn; simpl in *; try lia; auto. apply IH. lia. Qed.
Lemma set_at_insert {X} n (x y:X) l : n <= length l -> set_at n y (insert_at n x l) = insert_at n y l.
Proof.
  revert l. induction n as [|n IH]; intros l Hn; simpl. reflexivity.
  destruct l as [|a l]; simpl in *. lia. f_equal. apply IH. lia.
Qed.
Lemma set_at_nth {X} n (l:list X) d : set_at n (nth n l d) l = l.
Proof. revert l. induction n as [|n IH]; intros [|a l]; simpl; auto. f_equal. apply IH. Qed.
Lemma set_at_as_insert {X} n (x:X) l : n < length l -> set_at n x l = insert_at n x (remove_at n l).
Proof.
  revert l. induction n as [|n IH]; intros [|a l] Hn; simpl in *; try lia. reflexivity. f_equal. apply IH. lia.
Qed.

Lemma in_idxs_insert sh n k p :
  n < length sh -> k < nth n sh 0 -> In p (idxs (remove_at n sh)) -> In (insert_at n k p) (idxs sh).
Proof.
  rewrite !in_idxs. revert sh p. induction n as [|n IH]; intros sh p Hn Hk F; destruct sh as [|d r]; simpl in *; try lia.
  - constructor; auto.
  - inversion F; subst. constructor; auto. apply IH; auto. lia.
Qed.
Lemma in_idxs_remove sh n i :
  n < length sh -> In i (idxs sh) -> In (remove_at n i) (idxs (remove_at n sh)).
Proof.
  rewrite !in_idxs. revert sh i. induction n as [|n IH]; intros sh i Hn F; destruct sh as [|d r]; simpl in *; try lia;
    inversion F; subst; simpl; auto.
  constructor; auto. apply IH; auto. lia.
Qed.

Section S2.
Context {A:Type} `{ScalarLaws A}.
(* a sum over all positions = sum over the positions with axis n removed, of the sum along axis n *)
Lemma isum_idxs_axis n sh (F:idx->A) :
  n < length sh ->
  isum (idxs sh) F = isum (idxs (remove_at n sh)) (fun p => isum (seq 0 (nth n sh 0)) (fun k => F (insert_at n k p))).
Proof.
  revert sh F. induction n as [|n IH]; intros sh F Hn; destruct sh as [|d r]; simpl in Hn; try lia.
  - cbn [remove_at nth]. rewrite isum_idxs_cons. rewrite isum_exchange. reflexivity.
  - cbn [remove_at nth]. rewrite !isum_idxs_cons. apply isum_ext. intros k _.
    rewrite (IH r) by lia. reflexivity.
Qed.
End S2.
