(* unbroadcast (cpu_ops.py:8-17) is the scatter (adjoint) of the broadcast index map, for every rank and
   every broadcasting pattern; consequences for add / mul.                                           *)
From Coq Require Import List Arith Lia Bool Permutation.
Import ListNotations.
From SG Require Import Base.Sums Base.ScalarExt Base.Cmp NumPy.Index NumPy.Tensor NumPy.Gather NumPy.TensorFn NumPy.Broadcast
  Proofs.IdxSums.

Lemma nth_S_tl {X} i (l:list X) d : nth (S i) l d = nth i (tl l) d.
Proof. destruct l; simpl; auto. destruct i; auto. Qed.
Lemma tl_set_at_S {X} i (x:X) l : tl (set_at (S i) x l) = set_at i x (tl l).
Proof. destruct l; simpl; auto. destruct i; auto. Qed.

Section P.
Context {A:Type} `{ScalarLaws A}.

Lemma tscatter_unfold so (phi:idx->idx) (g:idx->A) i :
  tscatter so (fun j => Some (phi j)) g i = isum (idxs so) (fun j => if idx_eqb (phi j) i then g j else s0).
Proof. reflexivity. Qed.

(* ---------- shapes of the loop ---------- *)
Fixpoint shape_loop (n i:nat) (s sh:shape) : shape :=
  match n with
  | 0 => s
  | S n' => shape_loop n' (S i) (if nth i s 0 =? nth i sh 0 then s else set_at i 1 s) sh
  end.
Lemma unb_loop_shape n : forall i (t:tensor A) sh, tshape (unb_loop n i t sh) = shape_loop n i (tshape t) sh.
Proof.
  induction n as [|n IH]; intros i t sh; simpl. reflexivity.
  rewrite IH. destruct (nth i (tshape t) 0 =? nth i sh 0); reflexivity.
Qed.
Lemma shape_loop_S n : forall i d s e sh, shape_loop n (S i) (d :: s) (e :: sh) = d :: shape_loop n i s sh.
Proof.
  induction n as [|n IH]; intros i d s e sh; simpl. reflexivity.
  destruct (nth i s 0 =? nth i sh 0); simpl; apply IH.
Qed.
Lemma shape_loop_aligned : forall s sg, bcompat s sg = true -> shape_loop (length s) 0 sg s = s.
Proof.
  induction s as [|ds s IH]; intros [|dg sg] Hc; simpl in Hc; try discriminate. reflexivity.
  apply andb_true_iff in Hc as [Hd Hc]. cbn [length shape_loop nth].
  destruct (dg =? ds) eqn:E.
  - apply Nat.eqb_eq in E. subst. rewrite shape_loop_S, IH; auto.
  - cbn [set_at]. rewrite shape_loop_S, IH; auto. f_equal.
    apply orb_true_iff in Hd as [Hd|Hd]; apply Nat.eqb_eq in Hd; auto.
    subst. rewrite Nat.eqb_refl in E. discriminate.
Qed.

(* ---------- extensionality and slicing of the loop ---------- *)
Lemma unb_loop_ext n : forall i (t u:tensor A) sh,
  tshape t = tshape u -> (forall j, tat t j = tat u j) ->
  forall j, tat (unb_loop n i t sh) j = tat (unb_loop n i u sh) j.
Proof.
  induction n as [|n IH]; intros i t u sh Hs He j; simpl. apply He.
  rewrite <- Hs. destruct (nth i (tshape t) 0 =? nth i sh 0).
  - apply IH; auto.
  - apply IH. simpl. now rewrite Hs.
    intros j'. simpl. rewrite <- Hs. apply isum_ext. intros k _. apply He.
Qed.

Definition slice (t:tensor A) (k:nat) : tensor A := mkT (tl (tshape t)) (fun j => tat t (k :: j)).

Lemma loop_slice n : forall i (t:tensor A) d sh k j,
  tat (unb_loop n (S i) t (d :: sh)) (k :: j) = tat (unb_loop n i (slice t k) sh) j.
Proof.
  induction n as [|n IH]; intros i t d sh k j. reflexivity.
  cbn [unb_loop]. rewrite nth_S_tl. cbn [nth tshape slice].
  destruct (nth i (tl (tshape t)) 0 =? nth i sh 0).
  - apply IH.
  - rewrite IH. apply unb_loop_ext.
    + simpl. apply tl_set_at_S.
    + intros j'. simpl. rewrite nth_S_tl. reflexivity.
Qed.

(* ---------- the loop on aligned shapes is the scatter of the aligned broadcast map ---------- *)
Lemma unb_loop_aligned : forall s sg (t:tensor A),
  bcompat s sg = true -> tshape t = sg ->
  forall i, In i (idxs s) ->
    tat (unb_loop (length s) 0 t s) i = tscatter sg (fun j => Some (bm_al s j)) (tat t) i.
Proof.
  induction s as [|ds s IH]; intros [|dg sg] t Hc Ht i Hi; simpl in Hc; try discriminate.
  - apply in_idxs_nil in Hi. subst. rewrite tscatter_unfold, isum_idxs_nil. reflexivity.
  - apply andb_true_iff in Hc as [Hd Hc].
    destruct i as [|k i']. { apply in_idxs_length in Hi. discriminate. }
    apply in_idxs_cons in Hi as [Hk Hi'].
    rewrite tscatter_unfold, isum_idxs_cons.
    cbn [length unb_loop nth]. rewrite Ht. cbn [nth].
    destruct (dg =? ds) eqn:E.
    + apply Nat.eqb_eq in E. subst dg.
      rewrite loop_slice, (IH sg (slice t k)); auto. 2:{ simpl. now rewrite Ht. }
      rewrite tscatter_unfold. cbn [slice tat].
      destruct (ds =? 1) eqn:E1.
      * apply Nat.eqb_eq in E1. subst ds. assert (k = 0) by lia. subst k.
        cbn [seq]. rewrite isum_single. apply isum_ext. intros j' _.
        cbn [bm_al]. rewrite idx_eqb_cons. reflexivity.
      * transitivity (isum (seq 0 ds) (fun k' => if k' =? k
            then isum (idxs sg) (fun j' => if idx_eqb (bm_al s j') i' then tat t (k' :: j') else s0) else s0)).
        { symmetry. exact (isum_seq_pick ds k (fun k' => isum (idxs sg) (fun j' => if idx_eqb (bm_al s j') i' then tat t (k' :: j') else s0)) Hk). }
        apply isum_ext. intros k' _. cbn [bm_al]. rewrite E1.
        destruct (k' =? k) eqn:Ek.
        -- apply isum_ext. intros j' _. rewrite idx_eqb_cons, Ek. reflexivity.
        -- symmetry. transitivity (isum (idxs sg) (fun _ : idx => @s0 A _)). 2: apply isum_zero.
           apply isum_ext. intros j' _. rewrite idx_eqb_cons, Ek. reflexivity.
    + assert (ds = 1).
      { apply orb_true_iff in Hd as [Hd|Hd]; apply Nat.eqb_eq in Hd; auto. subst. rewrite Nat.eqb_refl in E. discriminate. }
      subst ds. assert (k = 0) by lia. subst k.
      rewrite loop_slice, (IH sg (slice (sum_axis_keep 0 t) 0)); auto. 2:{ simpl. now rewrite Ht. }
      rewrite tscatter_unfold. cbn [slice tat sum_axis_keep]. rewrite Ht. cbn [nth set_at].
      rewrite isum_exchange. apply isum_ext. intros j' _.
      cbn [bm_al]. cbn [Nat.eqb].
      transitivity (isum (seq 0 dg) (fun k' => if idx_eqb (bm_al s j') i' then tat t (k' :: j') else s0)).
      { symmetry. apply isum_if_const. }
      apply isum_ext. intros k' _. rewrite idx_eqb_cons. reflexivity.
Qed.

(* ---------- leading sums ---------- *)
Lemma lead_sums_spec m : forall (t:tensor A), m <= length (tshape t) ->
  tshape (lead_sums m t) = skipn m (tshape t) /\
  forall i, tat (lead_sums m t) i = isum (idxs (firstn m (tshape t))) (fun p => tat t (p ++ i)).
Proof.
  induction m as [|m IH]; intros t Hm.
  - split. reflexivity. intros i. cbn [firstn lead_sums]. rewrite isum_idxs_nil. reflexivity.
  - destruct (tshape t) as [|d r] eqn:Et. { simpl in Hm. lia. }
    simpl in Hm. cbn [lead_sums].
    destruct (IH (sum_axis0 t)) as [Hs Ha]. { simpl. rewrite Et. simpl. lia. }
    split. { rewrite Hs. simpl. rewrite Et. reflexivity. }
    intros i. rewrite Ha. cbn [sum_axis0 tshape tat]. rewrite Et. cbn [tl hd firstn].
    rewrite isum_idxs_cons. rewrite isum_exchange. apply isum_ext. intros k _. reflexivity.
Qed.

Lemma scatter_split s1 s2 s_op (g:idx->A) i :
  tscatter (s1 ++ s2) (fun j => Some (bm_al s_op (skipn (length s1) j))) g i =
  isum (idxs s2) (fun q => if idx_eqb (bm_al s_op q) i then isum (idxs s1) (fun p => g (p ++ q)) else s0).
Proof.
  rewrite tscatter_unfold, isum_idxs_app, isum_exchange. apply isum_ext. intros q _.
  rewrite <- isum_if_const. apply isum_ext. intros p Hp.
  apply in_idxs_length in Hp. rewrite <- Hp.
  rewrite skipn_app, skipn_all, Nat.sub_diag. reflexivity.
Qed.

Lemma scatter_split' s_out s_op m (g:idx->A) i : m <= length s_out ->
  tscatter s_out (fun j => Some (bm_al s_op (skipn m j))) g i =
  isum (idxs (skipn m s_out)) (fun q => if idx_eqb (bm_al s_op q) i then isum (idxs (firstn m s_out)) (fun p => g (p ++ q)) else s0).
Proof.
  intros Hm. pose proof (scatter_split (firstn m s_out) (skipn m s_out) s_op g i) as P.
  rewrite firstn_skipn, firstn_length, Nat.min_l in P by exact Hm. exact P.
Qed.

Lemma broadcastable_spec s_op s_out : broadcastable s_op s_out = true ->
  length s_op <= length s_out /\ bcompat s_op (skipn (length s_out - length s_op) s_out) = true.
Proof. unfold broadcastable. intros E. apply andb_true_iff in E as [E1 E2]. apply Nat.leb_le in E1. auto. Qed.

(* ================= the main theorem ================= *)
Theorem unbroadcast_is_scatter_proof s_op s_out (g:tensor A) :
  broadcastable s_op s_out = true -> tshape g = s_out ->
  exists r, unbroadcast g s_op = Some r /\ tshape r = s_op /\
    forall i, In i (idxs s_op) -> tat r i = tscatter s_out (bcast_map s_op s_out) (tat g) i.
Proof.
  intros Hb Hg. apply broadcastable_spec in Hb as [Hl Hc].
  unfold unbroadcast. rewrite Hg.
  assert (E: (length s_out <? length s_op) = false) by (apply Nat.ltb_ge; exact Hl). rewrite E.
  set (m := length s_out - length s_op) in *.
  destruct (lead_sums_spec m g) as [Hs Ha]. { rewrite Hg. lia. }
  rewrite Hg in Hs, Ha.
  eexists. split. reflexivity. split.
  - rewrite unb_loop_shape, Hs. apply shape_loop_aligned. exact Hc.
  - intros i Hi. rewrite (unb_loop_aligned s_op (skipn m s_out)); auto.
    unfold bcast_map, bcast_idx. fold m.
    rewrite scatter_split' by lia.
    rewrite tscatter_unfold. apply isum_ext. intros q _.
    destruct (idx_eqb (bm_al s_op q) i); auto.
Qed.

Theorem unbroadcast_shape_proof s_op s_out (g:tensor A) :
  broadcastable s_op s_out = true -> tshape g = s_out ->
  exists r, unbroadcast g s_op = Some r /\ tshape r = s_op.
Proof.
  intros Hb Hg. destruct (unbroadcast_is_scatter_proof s_op s_out g Hb Hg) as (r & E & Hs & _). eauto.
Qed.
End P.
