(* concat / stack / unbind: forward maps are gathers, the backward kernels are their adjoints; the
   identities stack = concat of unsqueezed and unbind o stack = id.                                 *)
From Coq Require Import List Arith ZArith Lia Bool Permutation.
Import ListNotations.
From SG Require Import Base.Sums Base.ScalarExt Base.Cmp NumPy.Index NumPy.Tensor NumPy.Gather NumPy.TensorFn NumPy.Broadcast NumPy.Concat
  Proofs.IdxSums Proofs.BcastProofs Proofs.ArithProofs Proofs.ReduceProofs.

Lemma nth_insert_at {X} n (x:X) l d : n <= length l -> nth n (insert_at n x l) d = x.
Proof. apply nth_insert. Qed.
Lemma remove_set_at {X} n (x:X) l : remove_at n (set_at n x l) = remove_at n l.
Proof. revert l. induction n as [|n IH]; intros [|a l]; simpl; auto. f_equal. apply IH. Qed.
Lemma remove_at_length_le {X} n (l:list X) : n < length l -> n <= length (remove_at n l).
Proof. intros Hn. rewrite length_remove by auto. lia. Qed.
Lemma nth_remove_other_shape ax (s t:shape) : eq_except ax s t = true -> remove_at ax s = remove_at ax t /\ length s = length t.
Proof. unfold eq_except. intros E. apply andb_true_iff in E as [E1 E2]. apply shape_eqb_spec in E1. apply Nat.eqb_eq in E2. auto. Qed.
Lemma set_at_remove_eq {X} n (x:X) l : remove_at n (set_at n x l) = remove_at n l.
Proof. apply remove_set_at. Qed.
Lemma in_idxs_set_at sh n k i : n < length sh -> k < nth n sh 0 -> In i (idxs sh) -> In (set_at n k i) (idxs sh).
Proof.
  intros Hn Hk Hi. pose proof (in_idxs_length _ _ Hi) as L.
  rewrite set_at_as_insert by lia. apply in_idxs_insert; auto. now apply in_idxs_remove.
Qed.

Lemma nth_map_seq {X} (f:nat->X) off n k d : k < n -> nth k (map f (seq off n)) d = f (off + k).
Proof.
  intros Hk. rewrite (nth_indep _ d (f 0)) by (rewrite map_length, seq_length; exact Hk).
  rewrite map_nth. rewrite seq_nth by exact Hk. reflexivity.
Qed.

Definition sumd (ax:nat) {A} (xs:list (tensor A)) : nat := fold_right Nat.add 0 (map (fun x => nth ax (tshape x) 0) xs).

(* consecutive (start, stop) pairs of the operands along the axis *)
Fixpoint pairs (off:nat) (dims:list nat) : list (nat*nat) :=
  match dims with [] => [] | d :: r => (off, off + d) :: pairs (off + d) r end.
Lemma bounds_pairs : forall r d prev,
  bounds prev (cumsum prev (removelast (d :: r))) (prev + fold_right Nat.add 0 (d :: r)) = pairs prev (d :: r).
Proof.
  induction r as [|e r IH]; intros d prev.
  - simpl. now rewrite Nat.add_0_r.
  - change (removelast (d :: e :: r)) with (d :: removelast (e :: r)). cbn [cumsum bounds].
    change (pairs prev (d :: e :: r)) with ((prev, prev + d) :: pairs (prev + d) (e :: r)).
    f_equal. rewrite <- IH. f_equal. cbn [fold_right]. lia.
Qed.

Section P.
Context {A:Type} `{ScalarLaws A}.

(* ---------- the sum along the concatenation axis splits into the operands' sections ---------- *)
Fixpoint cat_rhs (ax:nat) (xs:list (tensor A)) (off:nat) (gam:nat->A) (p:idx) : A :=
  match xs with
  | [] => s0
  | x :: r => sadd (isum (seq 0 (nth ax (tshape x) 0)) (fun u => smul (gam (off + u)) (tat x (insert_at ax u p))))
                   (cat_rhs ax r (off + nth ax (tshape x) 0) gam p)
  end.
Lemma cat_sum ax p : ax <= length p -> forall xs off (gam:nat->A),
  isum (seq 0 (sumd ax xs)) (fun kk => smul (gam (off + kk)) (cat_at ax xs kk (insert_at ax (off + kk) p))) = cat_rhs ax xs off gam p.
Proof.
  intros Hp. induction xs as [|x r IH]; intros off gam. reflexivity.
  unfold sumd. cbn [map fold_right cat_rhs]. fold (sumd ax r). set (d := nth ax (tshape x) 0).
  rewrite isum_seq_split. f_equal.
  - apply isum_ext. intros u Hu. apply in_seq in Hu. cbn [cat_at]. fold d.
    replace (u <? d) with true by (symmetry; apply Nat.ltb_lt; lia). now rewrite set_at_insert.
  - rewrite <- IH. apply isum_ext. intros u _. cbn [cat_at]. fold d.
    replace (d + u <? d) with false by (symmetry; apply Nat.ltb_ge; lia).
    replace (d + u - d) with u by lia. now rewrite Nat.add_assoc.
Qed.

(* what the wrapper hands to np.split, and what np.split returns *)
Definition split_piece (g:tensor A) (ax:nat) (se:nat*nat) : tensor A :=
  mkT (set_at ax (snd se - fst se) (tshape g)) (fun i => tat g (set_at ax (fst se + nth ax i 0) i)).

Lemma pairs_le : forall dims off se, In se (pairs off dims) -> fst se <= snd se /\ snd se <= off + fold_right Nat.add 0 dims.
Proof.
  induction dims as [|d r IH]; intros off se Hin; simpl in Hin. destruct Hin.
  destruct Hin as [<-|Hin]; simpl. lia. apply IH in Hin. lia.
Qed.

Lemma concat_backward_spec (xs:list (tensor A)) dim (o g:tensor A) :
  concat_forward xs dim = Some o -> tshape g = tshape o ->
  exists ax x0, hd_error xs = Some x0 /\ norm_axis (rank x0) dim = Some ax /\
    concat_backward g xs dim = Some (map (split_piece g ax) (pairs 0 (map (fun x => nth ax (tshape x) 0) xs))).
Proof.
  intros Eo Hg. unfold concat_forward in Eo. destruct xs as [|x0 r]; [discriminate|].
  destruct (rank x0 =? 0) eqn:E0; [discriminate|].
  destruct (norm_axis (rank x0) dim) as [ax|] eqn:Eax; [|discriminate]. cbn [obind] in Eo.
  destruct (forallb _ _) eqn:Ef; [|discriminate]. injection Eo as <-.
  exists ax, x0. split. reflexivity. split. exact Eax.
  unfold concat_backward. rewrite Eax. cbn [obind]. unfold np_split.
  assert (Hr: rank g = rank x0). { unfold rank. rewrite Hg. cbn [tshape]. apply length_set_at. }
  rewrite Hr, Eax. cbn [obind]. f_equal.
  assert (Hn: nth ax (tshape g) 0 = fold_right Nat.add 0 (map (fun x => nth ax (tshape x) 0) (x0 :: r))).
  { rewrite Hg. cbn [tshape]. apply nth_set_at_eq. apply norm_axis_lt in Eax. exact Eax. }
  rewrite Hn. unfold concat_sections. set (dims := map _ (x0 :: r)).
  assert (Ed: exists d r', dims = d :: r') by (unfold dims; simpl; eauto). destruct Ed as (d & r' & Ed). rewrite Ed.
  pose proof (bounds_pairs r' d 0) as Bp. cbn [Nat.add] in Bp. rewrite Bp.
  apply map_ext_in. intros se Hin. apply pairs_le in Hin. unfold split_piece. cbn [Nat.add] in Hin.
  rewrite !Nat.min_l by lia. reflexivity.
Qed.

Context `{!ScalarMulLaws A}.

Fixpoint dots (gs xs:list (tensor A)) : A :=
  match gs, xs with
  | g :: gr, x :: xr => sadd (dot (idxs (tshape x)) (tat g) (tat x)) (dots gr xr)
  | _, _ => s0
  end.

Lemma dots_pieces (g:tensor A) ax base : forall (xs:list (tensor A)) off,
  ax <= length base ->
  (forall x, In x xs -> remove_at ax (tshape x) = base /\ ax < length (tshape x)) ->
  dots (map (split_piece g ax) (pairs off (map (fun x => nth ax (tshape x) 0) xs))) xs =
  isum (idxs base) (fun p => cat_rhs ax xs off (fun v => tat g (insert_at ax v p)) p).
Proof.
  induction xs as [|x r IH]; intros off Hb Hx.
  - simpl. symmetry. apply isum_zero.
  - cbn [map pairs dots cat_rhs]. rewrite isum_add. f_equal.
    + destruct (Hx x (or_introl eq_refl)) as [Hbase Hax].
      unfold dot. rewrite (isum_idxs_axis ax (tshape x)) by auto. rewrite Hbase.
      apply isum_ext. intros p Hp. apply isum_ext. intros u _.
      cbn [split_piece tat fst]. pose proof (in_idxs_length _ _ Hp) as Lp.
      rewrite nth_insert by lia. rewrite set_at_insert by lia. reflexivity.
    + apply IH; auto. intros y Hy. apply Hx. right; auto.
Qed.

Lemma set_at_set_at {X} n (x y:X) l : set_at n x (set_at n y l) = set_at n x l.
Proof. revert l. induction n as [|n IH]; intros [|a l]; simpl; auto. f_equal. apply IH. Qed.

Lemma piece_shapes (g:tensor A) ax base s0 N :
  tshape g = set_at ax N s0 -> remove_at ax s0 = base -> ax < length s0 ->
  forall (ys:list (tensor A)) off, (forall y, In y ys -> remove_at ax (tshape y) = base /\ ax < length (tshape y)) ->
  Forall2 (fun gk xk => tshape gk = tshape xk) (map (split_piece g ax) (pairs off (map (fun x => nth ax (tshape x) 0) ys))) ys.
Proof.
  intros Hg Hb Hax. induction ys as [|y ys IH]; intros off Hy; simpl. constructor. constructor.
  - destruct (Hy y (or_introl eq_refl)) as [E1 E2]. unfold split_piece. cbn [tshape fst snd].
    replace (off + nth ax (tshape y) 0 - off) with (nth ax (tshape y) 0) by lia.
    rewrite Hg, set_at_set_at. rewrite set_at_as_insert by exact Hax. rewrite Hb, <- E1. apply insert_remove. exact E2.
  - apply IH. intros z Hz. apply Hy. right; auto.
Qed.

Theorem concat_vjp_proof (xs:list (tensor A)) dim (o g:tensor A) :
  concat_forward xs dim = Some o -> tshape g = tshape o ->
  exists gs, concat_backward g xs dim = Some gs /\ Forall2 (fun gk xk => tshape gk = tshape xk) gs xs /\
    dot (idxs (tshape o)) (tat g) (tat o) = dots gs xs.
Proof.
  intros Eo Hg. destruct (concat_backward_spec xs dim o g Eo Hg) as (ax & x0 & Hx0 & Eax & Eb).
  eexists. split. exact Eb.
  unfold concat_forward in Eo. destruct xs as [|x0' r]; [discriminate|]. injection Hx0 as ->.
  destruct (rank x0 =? 0) eqn:E0; [discriminate|]. rewrite Eax in Eo. cbn [obind] in Eo.
  destruct (forallb _ _) eqn:Ef; [|discriminate]. injection Eo as <-. cbn [tshape tat] in *.
  pose proof (norm_axis_lt _ _ _ Eax) as Hax. unfold rank in Hax.
  rewrite forallb_forall in Ef.
  set (base := remove_at ax (tshape x0)).
  assert (Hx: forall x, In x (x0 :: r) -> remove_at ax (tshape x) = base /\ ax < length (tshape x)).
  { intros x Hin. apply Ef in Hin. apply nth_remove_other_shape in Hin as [E1 E2]. split. exact E1. lia. }
  assert (Hb: ax <= length base). { unfold base. apply remove_at_length_le. exact Hax. }
  split.
  - apply (piece_shapes g ax base (tshape x0) _ Hg eq_refl Hax (x0 :: r) 0 Hx).
  - rewrite (dots_pieces g ax base (x0 :: r) 0 Hb Hx).
    unfold dot. rewrite (isum_idxs_axis ax) by (rewrite length_set_at; exact Hax).
    rewrite set_at_remove_eq. fold base. rewrite nth_set_at_eq by exact Hax.
    apply isum_ext. intros p Hp. pose proof (in_idxs_length _ _ Hp) as Lp.
    rewrite <- (cat_sum ax p) by lia. apply isum_ext. intros kk _. cbn [Nat.add]. rewrite nth_insert by lia. reflexivity.
Qed.

(* ================= stack ================= *)
Lemma stack_forward_spec (xs:list (tensor A)) dim (o:tensor A) :
  stack_forward xs dim = Some o ->
  exists x0 r ax, xs = x0 :: r /\ norm_axis (S (rank x0)) dim = Some ax /\ (forall x, In x xs -> tshape x = tshape x0) /\
    o = mkT (insert_at ax (length xs) (tshape x0)) (fun j => tat (nth (nth ax j 0) xs (zeros [])) (remove_at ax j)).
Proof.
  unfold stack_forward. destruct xs as [|x0 r]; [discriminate|].
  destruct (norm_axis (S (rank x0)) dim) as [ax|] eqn:Eax; [|discriminate]. cbn [obind].
  destruct (forallb _ _) eqn:Ef; [|discriminate]. intros [= <-].
  exists x0, r, ax. repeat split; auto. intros x Hx. rewrite forallb_forall in Ef. apply Ef in Hx. now apply shape_eqb_spec in Hx.
Qed.

Lemma stack_sum s0 (gam:nat->idx->A) d : forall (xs:list (tensor A)) off, (forall x, In x xs -> tshape x = s0) ->
  dots (map (fun k => mkT s0 (gam k)) (seq off (length xs))) xs =
  isum (idxs s0) (fun p => isum (seq 0 (length xs)) (fun kk => smul (gam (off + kk) p) (tat (nth kk xs d) p))).
Proof.
  induction xs as [|x r IH]; intros off Hx.
  - simpl. symmetry. apply isum_zero.
  - cbn [length seq map dots]. rewrite (IH (S off)) by (intros y Hy; apply Hx; right; auto).
    rewrite (Hx x (or_introl eq_refl)). unfold dot. rewrite <- isum_add. apply isum_ext. intros p _.
    rewrite isum_cons. rewrite Nat.add_0_r. cbn [nth tat]. f_equal.
    rewrite (isum_seq_shift 1). apply isum_ext. intros kk _. cbn [Nat.add nth]. now rewrite Nat.add_succ_r.
Qed.

Theorem stack_vjp_proof (xs:list (tensor A)) dim (o g:tensor A) :
  stack_forward xs dim = Some o -> tshape g = tshape o ->
  exists gs, stack_backward g dim = Some gs /\ Forall2 (fun gk xk => tshape gk = tshape xk) gs xs /\
    dot (idxs (tshape o)) (tat g) (tat o) = dots gs xs.
Proof.
  intros Eo Hg. destruct (stack_forward_spec xs dim o Eo) as (x0 & r & ax & Exs & Eax & Hsh & ->). cbn [tshape tat] in *.
  pose proof (norm_axis_lt _ _ _ Eax) as Hax. unfold rank in Hax. assert (Hax': ax <= length (tshape x0)) by lia.
  unfold stack_backward, unbind_forward. unfold rank. rewrite Hg, length_insert by auto. fold (rank x0). rewrite Eax. cbn [obind].
  rewrite remove_insert, nth_insert by auto.
  eexists. split. reflexivity. split.
  - clear Hg. assert (G: forall (ys:list (tensor A)) off, (forall y, In y ys -> tshape y = tshape x0) ->
      Forall2 (fun gk xk => tshape gk = tshape xk) (map (fun k => mkT (tshape x0) (fun i => tat g (insert_at ax k i))) (seq off (length ys))) ys).
    { induction ys as [|y ys IH]; intros off Hy; simpl; constructor. cbn [tshape]. symmetry. apply Hy. left; auto.
      apply IH. intros z Hz. apply Hy. right; auto. }
    apply G. exact Hsh.
  - rewrite (stack_sum (tshape x0) (fun k i => tat g (insert_at ax k i)) (zeros [])) by exact Hsh.
    unfold dot. rewrite (isum_idxs_axis ax) by (rewrite length_insert by auto; lia).
    rewrite remove_insert, nth_insert by auto. apply isum_ext. intros p Hp. pose proof (in_idxs_length _ _ Hp) as Lp.
    apply isum_ext. intros kk _. cbn [Nat.add]. rewrite nth_insert, remove_insert by lia. reflexivity.
Qed.

(* ================= unbind ================= *)
Lemma unbind_code_axis n dim ax : norm_axis n dim = Some ax ->
  Z.to_nat (if (dim <? 0)%Z then (Z.of_nat n + dim)%Z else dim) = ax.
Proof. intros E. rewrite (norm_axis_code _ _ _ E). apply Nat2Z.id. Qed.

Theorem unbind_vjp_proof (x:tensor A) dim ax :
  norm_axis (rank x) dim = Some ax ->
  exists outs, unbind_forward x dim = Some outs /\ length outs = nth ax (tshape x) 0 /\
    (forall k, k < length outs -> tshape (nth k outs (zeros [])) = remove_at ax (tshape x)) /\
    (* each output's backward is the adjoint of that output *)
    (forall k (gk:tensor A), k < length outs -> tshape gk = remove_at ax (tshape x) ->
       dot (idxs (remove_at ax (tshape x))) (tat gk) (tat (nth k outs (zeros []))) =
       dot (idxs (tshape x)) (tat (unbind_backward gk (tshape x) dim k)) (tat x)) /\
    (* the sum over the outputs is the full scatter: the stack of the upstream gradients *)
    (forall (G:nat -> tensor A) i, In i (idxs (tshape x)) ->
       isum (seq 0 (length outs)) (fun k => tat (unbind_backward (G k) (tshape x) dim k) i) = tat (G (nth ax i 0)) (remove_at ax i)).
Proof.
  intros Eax. pose proof (norm_axis_lt _ _ _ Eax) as Hax. unfold rank in *.
  unfold unbind_forward. unfold rank. rewrite Eax. cbn [obind]. eexists. split. reflexivity.
  rewrite map_length, seq_length. split. reflexivity. split.
  - intros k Hk. rewrite nth_map_seq by exact Hk. reflexivity.
  - split.
    + intros k gk Hk Hgk.
      rewrite nth_map_seq by exact Hk. cbn [Nat.add tat].
      unfold unbind_backward, dot. cbn [tat]. rewrite (unbind_code_axis _ _ _ Eax).
      rewrite (isum_idxs_axis ax (tshape x)) by exact Hax. apply isum_ext. intros p Hp. pose proof (in_idxs_length _ _ Hp) as Lp.
      rewrite length_remove in Lp by exact Hax.
      transitivity (isum (seq 0 (nth ax (tshape x) 0)) (fun u => if u =? k then smul (tat gk p) (tat x (insert_at ax u p)) else s0)).
      { symmetry. exact (isum_seq_pick _ k (fun u => smul (tat gk p) (tat x (insert_at ax u p))) Hk). }
      apply isum_ext. intros u _. rewrite nth_insert, remove_insert by lia.
      destruct (u =? k); auto. now rewrite smul_0_l.
    + intros G i Hi. pose proof (in_idxs_nth _ _ ax Hi Hax) as Hk.
      transitivity (isum (seq 0 (nth ax (tshape x) 0)) (fun k => if k =? nth ax i 0 then tat (G k) (remove_at ax i) else s0)).
      * apply isum_ext. intros k _. unfold unbind_backward. cbn [tat]. rewrite (unbind_code_axis _ _ _ Eax).
        rewrite Nat.eqb_sym. reflexivity.
      * exact (isum_seq_pick _ (nth ax i 0) (fun k => tat (G k) (remove_at ax i)) Hk).
Qed.

(* ================= identities ================= *)
Lemma sum_ones {X} (l:list X) : fold_right Nat.add 0 (map (fun _ => 1) l) = length l.
Proof. induction l; simpl; auto. Qed.

Lemma cat_at_unsq ax : forall (xs:list (tensor A)) k j, (forall x, In x xs -> ax <= length (tshape x)) -> k < length xs ->
  cat_at ax (map (unsqueeze1 ax) xs) k j = tat (nth k xs (zeros [])) (remove_at ax j).
Proof.
  induction xs as [|x r IH]; intros k j Hx Hk; simpl in Hk. lia.
  cbn [map cat_at unsqueeze1 tshape tat]. rewrite nth_insert by (apply Hx; left; auto).
  destruct k as [|k].
  - cbn [Nat.ltb Nat.leb nth]. now rewrite remove_set_at.
  - replace (S k <? 1) with false by reflexivity. replace (S k - 1) with k by lia. cbn [nth].
    apply IH. intros y Hy. apply Hx. right; auto. lia.
Qed.

Theorem stack_is_concat_proof (xs:list (tensor A)) dim (o:tensor A) :
  stack_forward xs dim = Some o ->
  exists x0 ax c, hd_error xs = Some x0 /\ norm_axis (S (rank x0)) dim = Some ax /\
    concat_forward (map (unsqueeze1 ax) xs) dim = Some c /\ teq o c.
Proof.
  intros Eo. destruct (stack_forward_spec xs dim o Eo) as (x0 & r & ax & Exs & Eax & Hsh & ->).
  pose proof (norm_axis_lt _ _ _ Eax) as Hax. unfold rank in Hax. assert (Hax': ax <= length (tshape x0)) by lia.
  exists x0, ax. subst xs. cbn [hd_error].
  assert (Ef: forallb (fun x => eq_except ax (tshape x) (insert_at ax 1 (tshape x0))) (map (unsqueeze1 ax) (x0 :: r)) = true).
  { apply forallb_forall. intros y Hy. apply in_map_iff in Hy as (x & <- & Hx). cbn [unsqueeze1 tshape]. rewrite (Hsh x Hx).
    unfold eq_except. rewrite Nat.eqb_refl. apply andb_true_iff. split; auto. apply shape_eqb_spec. reflexivity. }
  assert (Ec: concat_forward (map (unsqueeze1 ax) (x0 :: r)) dim =
     Some (mkT (set_at ax (fold_right Nat.add 0 (map (fun x => nth ax (tshape x) 0) (map (unsqueeze1 ax) (x0 :: r)))) (insert_at ax 1 (tshape x0)))
               (fun j => cat_at ax (map (unsqueeze1 ax) (x0 :: r)) (nth ax j 0) j))).
  { unfold concat_forward. change (map (unsqueeze1 ax) (x0 :: r)) with (unsqueeze1 ax x0 :: map (unsqueeze1 ax) r) at 1.
    cbv beta iota. unfold rank at 1 2. cbn [unsqueeze1 tshape]. rewrite length_insert by exact Hax'. cbn [Nat.eqb].
    fold (rank x0). rewrite Eax. cbn [obind].
    change (unsqueeze1 ax x0 :: map (unsqueeze1 ax) r) with (map (unsqueeze1 ax) (x0 :: r)). rewrite Ef. reflexivity. }
  eexists. split. reflexivity. split. exact Eax. split. exact Ec. split.
  - cbn [tshape]. rewrite set_at_insert by exact Hax'. f_equal. rewrite map_map.
    rewrite (map_ext_in _ (fun _ => 1)). now rewrite sum_ones.
    intros x Hx. cbn [unsqueeze1 tshape]. apply nth_insert. rewrite (Hsh x Hx). exact Hax'.
  - intros j Hj. cbn [tshape tat] in *.
    rewrite cat_at_unsq. reflexivity.
    + intros x Hx. rewrite (Hsh x Hx). exact Hax'.
    + pose proof (in_idxs_nth _ _ ax Hj) as Hn. rewrite length_insert, nth_insert in Hn by exact Hax'. apply Hn. lia.
Qed.

Theorem unbind_inverts_stack_proof (xs:list (tensor A)) dim (o:tensor A) :
  stack_forward xs dim = Some o ->
  exists outs, unbind_forward o dim = Some outs /\ Forall2 teq outs xs.
Proof.
  intros Eo. destruct (stack_forward_spec xs dim o Eo) as (x0 & r & ax & Exs & Eax & Hsh & ->).
  pose proof (norm_axis_lt _ _ _ Eax) as Hax. unfold rank in Hax. assert (Hax': ax <= length (tshape x0)) by lia.
  unfold unbind_forward. unfold rank. cbn [tshape tat]. rewrite length_insert by exact Hax'. fold (rank x0). rewrite Eax. cbn [obind].
  rewrite nth_insert, remove_insert by exact Hax'. eexists. split. reflexivity.
  assert (G: forall (ys:list (tensor A)) off, (forall y, In y ys -> tshape y = tshape x0) ->
    (forall k, k < length ys -> nth (off + k) xs (zeros []) = nth k ys (zeros [])) ->
    Forall2 teq (map (fun k => mkT (tshape x0) (fun i => tat (nth (nth ax (insert_at ax k i) 0) xs (zeros [])) (remove_at ax (insert_at ax k i)))) (seq off (length ys))) ys).
  { induction ys as [|y ys IH]; intros off Hy Hn; simpl; constructor.
    - split. cbn [tshape]. symmetry. apply Hy. left; auto.
      intros i Hi. cbn [tshape tat] in *. pose proof (in_idxs_length _ _ Hi) as Li.
      rewrite nth_insert, remove_insert by lia. specialize (Hn 0). rewrite Nat.add_0_r in Hn. rewrite Hn by (simpl; lia). reflexivity.
    - apply IH. intros z Hz. apply Hy. right; auto.
      intros k Hk. specialize (Hn (S k)). rewrite Nat.add_succ_r in Hn. simpl in Hn. apply Hn. simpl. lia. }
  apply G. exact Hsh. intros k _. reflexivity.
Qed.
End P.
