From Coq Require Import List Bool Arith Lia.
Import ListNotations.
From SG Require Import State.Contexts.

(* ---- facts about [upd] ---- *)
Lemma upd_length {A} n (f : A -> A) l : length (upd n f l) = length l.
Proof. revert n; induction l as [|x l IH]; intros [|n]; simpl; auto. Qed.

Lemma nth_error_upd_same {A} n (f : A -> A) l :
  nth_error (upd n f l) n = option_map f (nth_error l n).
Proof. revert n; induction l as [|x l IH]; intros [|n]; simpl; auto. Qed.

Lemma nth_error_upd_other {A} n m (f : A -> A) l :
  n <> m -> nth_error (upd n f l) m = nth_error l m.
Proof.
  revert n m; induction l as [|x l IH]; intros [|n] [|m] H; simpl; auto; try congruence.
Qed.

Lemma upd_app {A} n (f : A -> A) l e :
  n < length l -> upd n f (l ++ e) = upd n f l ++ e.
Proof.
  revert n; induction l as [|x l IH]; intros [|n] H; simpl in *; try lia; auto.
  f_equal. apply IH. lia.
Qed.

Lemma upd_upd {A} n (f g : A -> A) l : upd n g (upd n f l) = upd n (fun x => g (f x)) l.
Proof. revert n; induction l as [|x l IH]; intros [|n]; simpl; auto. f_equal; auto. Qed.

Lemma upd_id {A} n (f : A -> A) l :
  (forall x, nth_error l n = Some x -> f x = x) -> upd n f l = l.
Proof.
  revert n; induction l as [|x l IH]; intros [|n] H; simpl in *; auto.
  - f_equal. apply H. reflexivity.
  - f_equal. apply IH. exact H.
Qed.

Lemma nth_error_some_lt {A} (l : list A) n x : nth_error l n = Some x -> n < length l.
Proof. intro H. apply nth_error_Some. congruence. Qed.

(* ---- run over concatenation ---- *)
Lemma run_app s a b :
  run s (a ++ b) = match run s a with None => None | Some s2 => run s2 b end.
Proof.
  revert s; induction a as [|e a IH]; intro s; simpl; auto.
  destruct (step s e); auto.
Qed.

Lemma run_cons s e t :
  run s (e :: t) = match step s e with None => None | Some s2 => run s2 t end.
Proof. reflexivity. Qed.

Lemma step_enter s o :
  step s (Enter o) =
  match nth_error (objs s) o with
  | None => None
  | Some ob =>
      Some (set_flag (okind ob) (entered_value (okind ob))
             (set_objs (upd o (fun ob0 => {| okind := okind ob0; saved := flag (okind ob) s :: saved ob0 |}) (objs s)) s))
  end.
Proof. reflexivity. Qed.

Lemma step_exit s o exc :
  step s (Exit o exc) =
  match nth_error (objs s) o with
  | None => None
  | Some ob =>
      match saved ob with
      | [] => None
      | b :: rest =>
          Some (set_flag (okind ob) b (set_objs (upd o (fun ob0 => {| okind := okind ob0; saved := rest |}) (objs s)) s))
      end
  end.
Proof. reflexivity. Qed.

(* ---- well-bracketed event sequences ----
   [New]s may occur anywhere; every Enter o is closed by an Exit of the same object, blocks nest.
   The same object may be re-entered while it is active (with o: with o: ...). *)
Inductive wb : list ev -> Prop :=
| wb_nil : wb []
| wb_new k rest : wb rest -> wb (New k :: rest)
| wb_block o exc body rest : wb body -> wb rest -> wb (Enter o :: body ++ Exit o exc :: rest)
| wb_call rest : wb rest -> wb (Call :: rest).

Definition fresh (ob : obj) : Prop := saved ob = [].

Definition same_modes (s s' : st) : Prop := gmode s' = gmode s /\ rmode s' = rmode s.

(* Running a well-bracketed sequence leaves both mode flags and every existing object's saved stack
   as they were; only new (never active) objects are appended. *)
Lemma wb_preserves t :
  wb t -> forall s s', run s t = Some s' ->
  same_modes s s' /\ exists extra, objs s' = objs s ++ extra /\ Forall fresh extra.
Proof.
  induction 1 as [|k rest Hrest IHrest|o exc body rest Hbody IHbody Hrest IHrest|rest Hrest IHrest]; intros s s' Hrun.
  - simpl in Hrun. inversion Hrun; subst. split; [split; reflexivity|].
    exists []. rewrite app_nil_r. split; auto.
  - simpl in Hrun.
    destruct (IHrest _ _ Hrun) as [[Hg Hr] [extra [Hobjs Hfresh]]].
    simpl in Hg, Hr, Hobjs.
    split; [split; assumption|].
    exists ({| okind := k; saved := [] |} :: extra). split.
    + rewrite Hobjs, <- app_assoc. reflexivity.
    + constructor; [reflexivity|assumption].
  - rewrite run_cons, step_enter in Hrun.
    destruct (nth_error (objs s) o) as [ob|] eqn:Hob; [|discriminate].
    set (k := okind ob) in *.
    set (s1 := set_flag k (entered_value k)
                 (set_objs (upd o (fun ob0 => {| okind := okind ob0; saved := flag k s :: saved ob0 |}) (objs s)) s)) in *.
    rewrite run_app in Hrun.
    destruct (run s1 body) as [s2|] eqn:Hbodyrun; [|discriminate].
    destruct (IHbody _ _ Hbodyrun) as [[Hg2 Hr2] [extra1 [Hobjs2 Hfresh1]]].
    rewrite run_cons, step_exit in Hrun.
    assert (Ho : o < length (objs s)) by (eapply nth_error_some_lt; eauto).
    assert (Hobjs1 : objs s1 = upd o (fun ob0 => {| okind := okind ob0; saved := flag k s :: saved ob0 |}) (objs s)).
    { unfold s1, set_flag, set_objs. destruct k; reflexivity. }
    assert (Hnth2 : nth_error (objs s2) o = Some {| okind := okind ob; saved := flag k s :: saved ob |}).
    { rewrite Hobjs2, Hobjs1. rewrite nth_error_app1 by (rewrite upd_length; exact Ho).
      rewrite nth_error_upd_same, Hob. reflexivity. }
    rewrite Hnth2 in Hrun. cbn [saved okind] in Hrun.
    fold k in Hrun.
    set (s3 := set_flag k (flag k s)
                 (set_objs (upd o (fun ob0 => {| okind := okind ob0; saved := saved ob |}) (objs s2)) s2)) in *.
    destruct (IHrest _ _ Hrun) as [[Hg' Hr'] [extra2 [Hobjs' Hfresh2]]].
    assert (Hobjs3 : objs s3 = objs s ++ extra1).
    { unfold s3. transitivity (upd o (fun ob0 => {| okind := okind ob0; saved := saved ob |}) (objs s2)).
      { unfold set_flag, set_objs. destruct k; reflexivity. }
      rewrite Hobjs2, Hobjs1.
      rewrite upd_app by (rewrite upd_length; exact Ho).
      rewrite upd_upd. f_equal.
      apply upd_id. intros x Hx. rewrite Hob in Hx. inversion Hx; subst. destruct x; reflexivity. }
    assert (Hflags3 : gmode s3 = gmode s /\ rmode s3 = rmode s).
    { unfold s3, s1 in *. unfold set_flag, set_objs, flag in *. destruct k; simpl in *; split; congruence. }
    destruct Hflags3 as [Hg3 Hr3].
    split; [split; congruence|].
    exists (extra1 ++ extra2). split.
    + rewrite Hobjs', Hobjs3, app_assoc. reflexivity.
    + apply Forall_app. split; assumption.
  - simpl in Hrun. exact (IHrest _ _ Hrun).
Qed.

(* The property as stated for one block: the mode after the Exit equals the mode before the matching Enter. *)
Lemma block_restores s o exc body s' :
  wb body -> run s (Enter o :: body ++ [Exit o exc]) = Some s' -> same_modes s s'.
Proof.
  intros Hb Hrun.
  apply (wb_preserves (Enter o :: body ++ Exit o exc :: [])); [constructor; [assumption|constructor]|assumption].
Qed.

(* Inside the block (right after Enter) the flag has the entered value, whatever the history. *)
Lemma enter_sets s o s1 ob :
  nth_error (objs s) o = Some ob -> step s (Enter o) = Some s1 ->
  flag (okind ob) s1 = entered_value (okind ob).
Proof.
  intros Hob Hs. simpl in Hs. rewrite Hob in Hs. inversion Hs; subst.
  unfold set_flag, set_objs, flag. destruct (okind ob); reflexivity.
Qed.

(* ---- no run-time failure: every well-bracketed sequence whose object references exist executes ---- *)
Fixpoint refs_ok (n : nat) (t : list ev) : bool :=
  match t with
  | [] => true
  | New _ :: t' => refs_ok (S n) t'
  | Enter o :: t' => (o <? n) && refs_ok n t'
  | Exit o _ :: t' => (o <? n) && refs_ok n t'
  | Call :: t' => refs_ok n t'
  end.

Lemma refs_ok_app n a b :
  refs_ok n (a ++ b) = refs_ok n a && refs_ok (n + length (filter (fun e => match e with New _ => true | _ => false end) a)) b.
Proof.
  revert n; induction a as [|e a IH]; intro n; simpl.
  - rewrite Nat.add_0_r. reflexivity.
  - destruct e; simpl; rewrite IH; simpl.
    + f_equal. f_equal. lia.
    + rewrite andb_assoc. reflexivity.
    + rewrite andb_assoc. reflexivity.
    + reflexivity.
Qed.

Lemma run_length_objs t : forall s s', run s t = Some s' ->
  length (objs s') = length (objs s) + length (filter (fun e => match e with New _ => true | _ => false end) t).
Proof.
  induction t as [|e t IH]; intros s s' H; simpl in *.
  - inversion H; subst. lia.
  - destruct (step s e) as [s1|] eqn:Hs; [|discriminate].
    specialize (IH _ _ H). rewrite IH.
    destruct e; simpl in *.
    + inversion Hs; subst. simpl. rewrite app_length. simpl. lia.
    + destruct (nth_error (objs s) o); [|discriminate]. inversion Hs; subst.
      assert (length (objs (set_flag (okind o0) (entered_value (okind o0))
                (set_objs (upd o (fun ob => {| okind := okind ob; saved := flag (okind o0) s :: saved ob |}) (objs s)) s))) = length (objs s)).
      { unfold set_flag, set_objs. destruct (okind o0); simpl; apply upd_length. }
      lia.
    + destruct (nth_error (objs s) o) as [ob|]; [|discriminate].
      destruct (saved ob) as [|b r]; [discriminate|]. inversion Hs; subst.
      assert (length (objs (set_flag (okind ob) b
                (set_objs (upd o (fun ob0 => {| okind := okind ob0; saved := r |}) (objs s)) s))) = length (objs s)).
      { unfold set_flag, set_objs. destruct (okind ob); simpl; apply upd_length. }
      lia.
    + inversion Hs; subst. lia.
Qed.

Lemma wb_total t :
  wb t -> forall s, refs_ok (length (objs s)) t = true -> exists s', run s t = Some s'.
Proof.
  induction 1 as [|k rest Hrest IHrest|o exc body rest Hbody IHbody Hrest IHrest|rest Hrest IHrest]; intros s Hok.
  - exists s. reflexivity.
  - simpl in *. apply IHrest. simpl. rewrite app_length. simpl. rewrite Nat.add_1_r. exact Hok.
  - simpl in Hok. apply andb_true_iff in Hok. destruct Hok as [Ho Hok].
    apply Nat.ltb_lt in Ho.
    rewrite refs_ok_app in Hok. apply andb_true_iff in Hok. destruct Hok as [Hokb Hokr].
    simpl in Hokr. apply andb_true_iff in Hokr. destruct Hokr as [_ Hokr].
    rewrite run_cons, step_enter.
    destruct (nth_error (objs s) o) as [ob|] eqn:Hob; [|apply nth_error_None in Hob; lia].
    set (k := okind ob).
    set (s1 := set_flag k (entered_value k)
                 (set_objs (upd o (fun ob0 => {| okind := okind ob0; saved := flag k s :: saved ob0 |}) (objs s)) s)).
    assert (Hobjs1 : objs s1 = upd o (fun ob0 => {| okind := okind ob0; saved := flag k s :: saved ob0 |}) (objs s)).
    { unfold s1, set_flag, set_objs. destruct k; reflexivity. }
    assert (Hlen1 : length (objs s1) = length (objs s)) by (rewrite Hobjs1; apply upd_length).
    destruct (IHbody s1) as [s2 Hrun2]; [rewrite Hlen1; exact Hokb|].
    rewrite run_app, Hrun2.
    destruct (wb_preserves _ Hbody _ _ Hrun2) as [_ [extra1 [Hobjs2 _]]].
    rewrite run_cons, step_exit.
    assert (Hnth2 : nth_error (objs s2) o = Some {| okind := okind ob; saved := flag k s :: saved ob |}).
    { rewrite Hobjs2, Hobjs1. rewrite nth_error_app1 by (rewrite upd_length; exact Ho).
      rewrite nth_error_upd_same, Hob. reflexivity. }
    rewrite Hnth2. cbn [saved okind].
    apply IHrest.
    pose proof (run_length_objs _ _ _ Hrun2) as Hl2.
    match goal with |- refs_ok (length (objs ?s3)) rest = true =>
      assert (Hl3 : length (objs s3) = length (objs s2)) end.
    { unfold set_flag, set_objs. destruct (okind ob); simpl; apply upd_length. }
    rewrite Hl3, Hl2, Hlen1. exact Hokr.
  - simpl in *. apply IHrest. exact Hok.
Qed.

(* ---- flag resolution facts ---- *)
Lemma create_requires_iff requested gm is_float r :
  create requested gm is_float = Ok r -> r = requested && gm.
Proof. unfold create. destruct requested, gm, is_float; simpl; intro H; inversion H; reflexivity. Qed.

Lemma create_float_only requested gm :
  create requested gm false = Raises <-> (requested && gm = true).
Proof. unfold create. destruct requested, gm; simpl; split; intro H; try reflexivity; try discriminate. Qed.

Lemma op_result_iff operands gm r :
  op_result operands gm true = Ok r ->
  (r = true <-> gm = true /\ exists b, In b operands /\ b = true).
Proof.
  unfold op_result. intro H. apply create_requires_iff in H. subst r.
  rewrite andb_true_iff, existsb_exists. split.
  - intros [[b [Hin Hb]] Hg]. split; [assumption|exists b; auto].
  - intros [Hg [b [Hin Hb]]]. split; [exists b; auto|assumption].
Qed.

Lemma set_requires_float_only req has_fn value :
  set_requires req has_fn false value = Ok true -> False.
Proof. unfold set_requires. destruct req, has_fn, value; simpl; discriminate. Qed.

Lemma set_requires_nonleaf value is_float :
  set_requires true true is_float value = Raises.
Proof. reflexivity. Qed.
