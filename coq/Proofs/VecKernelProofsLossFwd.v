(* Forward-only facts about the generated loss kernels (values): used by C09 and C14. *)
From Coq Require Import Reals Lra Lia Arith List Bool.
From Coquelicot Require Import Coquelicot.
From SG Require Import Analysis.Vector Gen.GenVecKernels Proofs.VecKernelProofs.
Import ListNotations.
Open Scope R_scope.

(* ------------------------------------------------------------------ cross-entropy *)
Lemma cross_entropy_math n x y : (1 <= n)%nat -> cross_entropy_loss_forward n x y = ln (expsum n x) - x y.
Proof.
  intros Hn. unfold cross_entropy_loss_forward, nll_loss_forward. cbv zeta.
  rewrite log_softmax_math by exact Hn. ring.
Qed.

(* ------------------------------------------------------------------ C14: fused = composition *)
Lemma cross_entropy_is_nll_log_softmax_proof : forall n x y,
  cross_entropy_out n x y = nll_loss_out n (log_softmax_out n x) y.
Proof. reflexivity. Qed.

Lemma log_softmax_is_log_of_softmax_proof : forall n x j, (1 <= n)%nat ->
  log_softmax_out n x j = ln (softmax_out n x j).
Proof.
  intros n x j Hn. unfold log_softmax_out, softmax_out. cbv zeta.
  rewrite softmax_math, log_softmax_math by exact Hn.
  pose proof (expsum_pos n x Hn) as HS.
  unfold Rdiv. rewrite ln_mult; [|apply exp_pos|apply Rinv_0_lt_compat; exact HS].
  rewrite ln_exp, ln_Rinv by exact HS. ring.
Qed.

(* the library's log op computes ln(. + epsilon) *)
Lemma epsilon_pos : 0 < epsilon.
Proof. unfold epsilon. lra. Qed.

Lemma ln_eps_bound_proof : forall p e, 0 < p -> 0 <= e -> 0 <= ln (p + e) - ln p <= e / p.
Proof.
  intros p e Hp He.
  assert (Hq : p + e = p * (1 + e / p)) by (field; lra).
  assert (H0 : 0 <= e / p) by (apply Rmult_le_pos; [exact He|left; apply Rinv_0_lt_compat; exact Hp]).
  rewrite Hq, ln_mult by lra.
  destruct H0 as [H0|H0].
  - assert (Hne : e / p <> 0) by lra. pose proof (exp_ineq1 (e / p) Hne) as Hx.
    assert (ln (1 + e / p) < e / p).
    { rewrite <- (ln_exp (e / p)) at 2. apply ln_increasing; lra. }
    assert (0 < ln (1 + e / p)) by (rewrite <- ln_1; apply ln_increasing; lra).
    lra.
  - rewrite <- H0, Rplus_0_r, ln_1. lra.
Qed.

Lemma log_of_softmax_eps_bound_proof : forall n x j, (1 <= n)%nat ->
  0 <= log_forward (softmax_out n x j) - log_softmax_out n x j <= epsilon / softmax_out n x j.
Proof.
  intros n x j Hn. rewrite log_softmax_is_log_of_softmax_proof by exact Hn.
  unfold log_forward. apply ln_eps_bound_proof; [|left; apply epsilon_pos].
  unfold softmax_out. cbv zeta. rewrite softmax_math by exact Hn.
  apply Rdiv_lt_0_compat; [apply exp_pos|apply expsum_pos; exact Hn].
Qed.
