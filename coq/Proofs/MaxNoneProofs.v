(* max / min over all elements (dim=None): np.argmax of the flattened array + np.unravel_index. *)
From Coq Require Import List Arith ZArith Lia Bool Permutation.
Import ListNotations.
From SG Require Import Base.Sums Base.ScalarExt Base.Cmp NumPy.Index NumPy.Tensor NumPy.Gather NumPy.TensorFn NumPy.Broadcast NumPy.Reduce
  Proofs.IdxSums Proofs.BcastProofs Proofs.ArithProofs Proofs.ReduceProofs Proofs.MaxProofs.

(* ---------- ravel is the position in the row-major enumeration ---------- *)
Lemma length_idxs : forall sh, length (idxs sh) = size sh.
Proof.
  induction sh as [|d r IH]; simpl. reflexivity.
  assert (G: forall l, length (flat_map (fun i => map (cons i) (idxs r)) l) = length l * size r).
  { induction l as [|a l IHl]. reflexivity. cbn [flat_map length]. rewrite app_length, map_length, IHl.
    change (@length (list nat) (idxs r)) with (@length idx (idxs r)). rewrite IH. lia. }
  now rewrite G, seq_length.
Qed.
Lemma ravel_lt : forall sh i, In i (idxs sh) -> ravel sh i < size sh.
Proof.
  induction sh as [|d r IH]; intros i Hi.
  - apply in_idxs_nil in Hi. subst. simpl. lia.
  - destruct i as [|k t]. { apply in_idxs_length in Hi. discriminate. }
    apply in_idxs_cons in Hi as [Hk Ht]. specialize (IH t Ht). cbn [ravel size fold_right]. fold (size r). nia.
Qed.
Lemma flat_map_blocks {X} (f:nat->list X) L : (forall k, length (f k) = L) ->
  forall d off k p, k < d -> p < L -> nth_error (flat_map f (seq off d)) (k * L + p) = nth_error (f (off + k)) p.
Proof.
  intros HL. induction d as [|d IH]; intros off k p Hk Hp. lia.
  cbn [seq flat_map]. destruct k as [|k].
  - rewrite Nat.add_0_r. cbn [Nat.mul Nat.add]. apply nth_error_app1. now rewrite HL.
  - rewrite nth_error_app2 by (rewrite HL; nia). rewrite HL.
    replace (S k * L + p - L) with (k * L + p) by nia. rewrite IH by lia. f_equal. f_equal. lia.
Qed.
Lemma ravel_nth : forall sh i, In i (idxs sh) -> nth_error (idxs sh) (ravel sh i) = Some i.
Proof.
  induction sh as [|d r IH]; intros i Hi.
  - apply in_idxs_nil in Hi. subst. reflexivity.
  - destruct i as [|k t]. { apply in_idxs_length in Hi. discriminate. }
    apply in_idxs_cons in Hi as [Hk Ht]. cbn [ravel idxs].
    rewrite (flat_map_blocks (fun i => map (cons i) (idxs r)) (size r)).
    + cbn [Nat.add]. rewrite nth_error_map. unfold idx in *. rewrite (IH t Ht). reflexivity.
    + intros k'. now rewrite map_length, length_idxs.
    + exact Hk.
    + now apply ravel_lt.
Qed.
Lemma ravel_pos_eqb sh K i : K < size sh -> In i (idxs sh) ->
  (ravel sh i =? K) = idx_eqb (nth K (idxs sh) []) i.
Proof.
  intros HK Hi. pose proof (ravel_nth sh i Hi) as E. pose proof (ravel_lt sh i Hi) as L.
  destruct (ravel sh i =? K) eqn:E1.
  - apply Nat.eqb_eq in E1. subst K. symmetry. apply idx_eqb_spec. now apply nth_error_nth.
  - symmetry. destruct (idx_eqb (nth K (idxs sh) []) i) eqn:E2; auto. apply idx_eqb_spec in E2.
    assert (E3: nth_error (idxs sh) K = Some i). { rewrite <- E2. apply nth_error_nth'. now rewrite length_idxs. }
    pose proof (nodup_idxs sh) as ND. rewrite NoDup_nth_error in ND.
    assert (ravel sh i = K). { apply ND. now rewrite length_idxs. congruence. }
    apply Nat.eqb_neq in E1. contradiction.
Qed.

Lemma fibre_all : forall sh keep j, fibre (repeat true (length sh)) sh keep j = idxs sh.
Proof.
  induction sh as [|d r IH]; intros keep j. reflexivity.
  cbn [length repeat fibre idxs]. apply flat_map_ext. intros k. now rewrite IH.
Qed.
Lemma red_shape_all_keep : forall sh, red_shape (repeat true (length sh)) sh true = repeat 1 (length sh).
Proof. induction sh; simpl; auto. f_equal. auto. Qed.

Section P.
Context {A:Type} `{ScalarLaws A}.
Variable le : A -> A -> bool.

Lemma ext_mask_none (a:tensor A) : size (tshape a) <> 0 ->
  ext_mask le a AxNone = Some (fun i => ravel (tshape a) i =? argbest le (to_list a)).
Proof. intros Hs. unfold ext_mask. destruct (size (tshape a) =? 0) eqn:E. apply Nat.eqb_eq in E. congruence. reflexivity. Qed.

Lemma to_list_length (a:tensor A) : length (to_list a) = size (tshape a).
Proof. unfold to_list. now rewrite map_length, length_idxs. Qed.
Lemma argbest_flat_lt (a:tensor A) : size (tshape a) <> 0 -> argbest le (to_list a) < size (tshape a).
Proof.
  intros Hs. rewrite <- to_list_length. apply argbest_lt. intro E. apply (f_equal (@length A)) in E.
  rewrite to_list_length in E. simpl in E. congruence.
Qed.

Theorem ext_vjp_none (g a:tensor A) keep :
  size (tshape a) <> 0 ->
  tshape g = red_shape (repeat true (rank a)) (tshape a) keep ->
  exists mk r, ext_mask le a AxNone = Some mk /\ ext_backward le g a AxNone keep = Some r /\ tshape r = tshape a /\
    (forall i, In i (idxs (tshape a)) -> tat r i = if mk i then tat g (proj (repeat true (rank a)) keep i) else s0) /\
    forall a' mk', tshape a' = tshape a -> ext_mask le a' AxNone = Some mk' ->
      (forall i, In i (idxs (tshape a)) -> mk' i = mk i) ->
      exists o, ext_forward le a' AxNone keep = Some o /\ tshape o = tshape g /\
        dot (idxs (tshape o)) (tat g) (tat o) = dot (idxs (tshape a)) (tat r) (tat a').
Proof.
  intros Hs Hg. unfold rank in *. set (sa := tshape a) in *. set (m := repeat true (length sa)) in *.
  assert (Hm: length m = length sa) by (unfold m; apply repeat_length).
  assert (Hax: strict_axes (length sa) AxNone = Some (seq 0 (length sa))) by reflexivity.
  assert (Hmm: mask_of (length sa) (seq 0 (length sa)) = m) by apply mask_of_all.
  rewrite <- Hmm in Hg.
  destruct (sum_backward_is_gather g sa AxNone keep _ Hax Hg) as (sr & Esr & Hsr & Vsr). rewrite Hmm in *.
  (* the broadcast of g against the operand *)
  unfold sum_backward in Esr. cbn [bw_expand obind] in Esr. unfold badd, bop in Esr. cbn [zeros tshape tat] in Esr.
  destruct (broadcast_shapes sa (tshape g)) as [so|] eqn:Eb; [|discriminate]. injection Esr as <-. cbn [tshape tat] in *. subst so.
  assert (Eb': broadcast_shapes (tshape g) sa = Some sa).
  { apply broadcast_shapes_absorb_l. apply broadcast_shapes_sound in Eb. tauto. }
  assert (Vg: forall i, In i (idxs sa) -> tat g (bcast_idx (tshape g) sa i) = tat g (proj m keep i)).
  { intros i Hi. rewrite <- Vsr by exact Hi. symmetry. apply sadd_0_l. }
  exists (fun i => ravel sa i =? argbest le (to_list a)).
  assert (Er: ext_backward le g a AxNone keep = Some (mkT sa (fun j =>
     if ravel sa (bcast_idx sa sa j) =? argbest le (to_list a) then tat g (bcast_idx (tshape g) sa j) else s0))).
  { unfold ext_backward. rewrite (ext_mask_none a Hs). cbn [obind bw_expand]. fold sa. rewrite Eb'. reflexivity. }
  eexists. split. apply ext_mask_none; exact Hs. split. exact Er. split. reflexivity. split.
  { intros i Hi. cbn [tat]. rewrite (bcast_idx_id sa i Hi), Vg by exact Hi. reflexivity. }
  intros a' mk' Ha' Emk' Hsame.
  assert (Hs': size (tshape a') <> 0) by now rewrite Ha'.
  rewrite (ext_mask_none a' Hs') in Emk'. injection Emk' as <-. rewrite Ha' in Hsame. fold sa in Hsame.
  unfold ext_forward. unfold rank. rewrite Ha'. fold sa. cbn [np_reduce_axes]. rewrite Hmm.
  assert (Hf: fibre_size m sa = size sa).
  { unfold m. clear. induction sa; simpl; auto. }
  rewrite Hf. destruct (size sa =? 0) eqn:E0. apply Nat.eqb_eq in E0. congruence.
  eexists. split. reflexivity. split. { cbn [tshape]. now rewrite Hg. }
  cbn [tshape tat]. unfold dot. rewrite (isum_by_fibres m sa keep) by auto. apply isum_ext. intros j Hj.
  set (K := argbest le (to_list a)) in *. set (K' := argbest le (to_list a')) in *.
  assert (HK': K' < size sa). { unfold K'. rewrite <- Ha'. apply argbest_flat_lt. exact Hs'. }
  set (i' := nth K' (idxs sa) []).
  assert (Hi': In i' (idxs sa)). { apply nth_In. now rewrite length_idxs. }
  assert (EK: K = K').
  { specialize (Hsame i' Hi'). rewrite !ravel_pos_eqb in Hsame by (auto; unfold K; apply argbest_flat_lt; exact Hs).
    fold i' in Hsame. rewrite idx_eqb_refl in Hsame. symmetry in Hsame. apply idx_eqb_spec in Hsame.
    pose proof (nodup_idxs sa) as ND. rewrite NoDup_nth_error in ND. apply ND.
    rewrite length_idxs. unfold K. apply argbest_flat_lt. exact Hs.
    rewrite (@nth_error_nth' _ (idxs sa) K []) by (rewrite length_idxs; unfold K; apply argbest_flat_lt; exact Hs).
    rewrite (@nth_error_nth' _ (idxs sa) K' []) by (rewrite length_idxs; exact HK'). now f_equal. }
  assert (Efib: fibre m sa keep j = idxs sa) by (unfold m; apply fibre_all).
  assert (Ev: best_of le (map (tat a') (idxs sa)) = tat a' i').
  { unfold best_of. assert (E: map (tat a') (idxs sa) = to_list a') by (unfold to_list; now rewrite Ha'). rewrite E at 1. fold K'.
    rewrite (nth_indep _ s0 (tat a' [])) by (rewrite map_length, length_idxs; exact HK'). now rewrite map_nth. }
  transitivity (isum (fibre m sa keep j) (fun i => if idx_eqb i' i then smul (tat g j) (tat a' i) else s0)).
  { rewrite Efib, Ev. symmetry.
    exact (isum_pick idx_eqb idx_eqb_spec (idxs sa) i' (fun i => smul (tat g j) (tat a' i)) (nodup_idxs sa) Hi'). }
  rewrite !(fibre_sum_is_scatter m sa keep j) by auto.
  apply isum_ext. intros i Hi. destruct (idx_eqb (proj m keep i) j) eqn:Ep; auto. apply idx_eqb_spec in Ep.
  rewrite (bcast_idx_id sa i Hi), Vg by exact Hi. rewrite ravel_pos_eqb by (auto; rewrite EK; exact HK').
  rewrite EK. fold i'. destruct (idx_eqb i' i). now rewrite Ep. now rewrite smul_0_l.
Qed.
End P.
