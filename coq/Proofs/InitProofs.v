(* Proofs for C15: the expressions the generated initialisers hand to the fillers are the documented ones. *)
From Coq Require Import List Bool ZArith Lia Reals String.
Import ListNotations.
From SG Require Import State.InitBase State.InitSpec Gen.GenInit.
Local Open Scope R_scope.

Ltac rsolve_n n :=
  lazymatch n with
  | O => fail
  | S ?m => solve [ reflexivity | ring | (progress f_equal; rsolve_n m) ]
  end.
Ltac rsolve := rsolve_n 12%nat.

(* ---- fans ---- *)
Lemma fans_match shape : fan_in_and_fan_out shape = spec_fans shape.
Proof.
  unfold fan_in_and_fan_out, spec_fans.
  destruct shape as [|s0 [|s1 rest]]; try reflexivity.
  cbv zeta.
  destruct (Z.ltb_spec (Z.of_nat (List.length (s0 :: s1 :: rest))) 2) as [H|H]; [cbn [List.length] in H; lia|].
  destruct rest as [|s2 rest].
  - reflexivity.
  - destruct (Z.ltb_spec 2 (Z.of_nat (List.length (s0 :: s1 :: s2 :: rest)))) as [H2|H2]; [|cbn [List.length] in H2; lia].
    reflexivity.
Qed.

Lemma fans_rank shape : (exists f, spec_fans shape = Some f) <-> (2 <= List.length shape)%nat.
Proof.
  destruct shape as [|s0 [|s1 rest]]; cbn; split; intros H; try lia; try (destruct H; discriminate); eauto.
Qed.

(* ---- gain table ---- *)
Lemma gain_table_none n : calculate_gain (nonlin_name n) PNone = Some (spec_gain n None).
Proof. destruct n; cbn; rsolve. Qed.

Lemma gain_table_num n x : calculate_gain (nonlin_name n) (PNum x) = Some (spec_gain n (Some x)).
Proof. destruct n; cbn; rsolve. Qed.

Lemma gain_table_bad n : calculate_gain (nonlin_name n) PBad = match n with NLeakyRelu => None | _ => Some (spec_gain n None) end.
Proof. destruct n; cbn; rsolve. Qed.

Lemma gain_unknown s p : (forall n, s <> nonlin_name n) -> calculate_gain s p = None.
Proof.
  intros H. unfold calculate_gain. cbn [existsb].
  repeat match goal with
  | |- context [String.eqb s ?x] =>
      let E := fresh in destruct (String.eqb_spec s x) as [E|E];
      [exfalso; first [apply (H NLinear); exact E | apply (H NConv1d); exact E | apply (H NConv2d); exact E | apply (H NSigmoid); exact E
                      | apply (H NTanh); exact E | apply (H NRelu); exact E | apply (H NLeakyRelu); exact E | apply (H NSelu); exact E] |]
  end.
  reflexivity.
Qed.

(* ---- xavier ---- *)
Lemma xavier_uniform_ok shape gain fi fo : spec_fans shape = Some (fi, fo) ->
  xavier_uniform_call shape gain =
  Some (Uniform (- xavier_uniform_bound gain (IZR fi) (IZR fo)) (xavier_uniform_bound gain (IZR fi) (IZR fo))).
Proof.
  intros H. unfold xavier_uniform_call, xavier_uniform_bound. rewrite fans_match, H. cbv zeta. rewrite plus_IZR. rsolve.
Qed.

Lemma xavier_normal_ok shape gain fi fo : spec_fans shape = Some (fi, fo) ->
  xavier_normal_call shape gain = Some (Normal 0 (xavier_normal_sd gain (IZR fi) (IZR fo))).
Proof.
  intros H. unfold xavier_normal_call, xavier_normal_sd. rewrite fans_match, H. cbv zeta. rewrite plus_IZR. rsolve.
Qed.

Lemma scaled_rank_error shape gain a m n : spec_fans shape = None ->
  xavier_uniform_call shape gain = None /\ xavier_normal_call shape gain = None /\
  kaiming_uniform_call shape a m n = None /\ kaiming_normal_call shape a m n = None.
Proof.
  intros H. unfold xavier_uniform_call, xavier_normal_call, kaiming_uniform_call, kaiming_normal_call.
  rewrite fans_match, H. auto.
Qed.

(* ---- kaiming ---- *)
Lemma index_of_mode m : index_of (mode_name m) ["fan_in"; "fan_out"]%string = Some (match m with FanIn => O | FanOut => 1%nat end).
Proof. destruct m; reflexivity. Qed.

Lemma pick2_mode f m : pick2 f (match m with FanIn => O | FanOut => 1%nat end) = mode_fan m f.
Proof. destruct m; reflexivity. Qed.

Lemma kaiming_uniform_ok shape a m n f : spec_fans shape = Some f ->
  kaiming_uniform_call shape a (mode_name m) (nonlin_name n) =
  let b := kaiming_uniform_bound (spec_gain n (Some a)) (IZR (mode_fan m f)) in Some (Uniform (- b) b).
Proof.
  intros H. unfold kaiming_uniform_call, kaiming_uniform_bound. rewrite fans_match, H. cbv zeta.
  rewrite index_of_mode, gain_table_num, pick2_mode. rsolve.
Qed.

Lemma kaiming_normal_ok shape a m n f : spec_fans shape = Some f ->
  kaiming_normal_call shape a (mode_name m) (nonlin_name n) =
  Some (Normal 0 (kaiming_normal_sd (spec_gain n (Some a)) (IZR (mode_fan m f)))).
Proof.
  intros H. unfold kaiming_normal_call, kaiming_normal_sd. rewrite fans_match, H. cbv zeta.
  rewrite index_of_mode, gain_table_num, pick2_mode. do 2 f_equal. unfold Rdiv. ring.
Qed.

Lemma kaiming_bad_mode shape a s n : s <> "fan_in"%string -> s <> "fan_out"%string ->
  kaiming_uniform_call shape a s n = None /\ kaiming_normal_call shape a s n = None.
Proof.
  intros H1 H2. unfold kaiming_uniform_call, kaiming_normal_call.
  destruct (fan_in_and_fan_out shape); auto. cbn [index_of].
  destruct (String.eqb_spec s "fan_in"); [contradiction|]. destruct (String.eqb_spec s "fan_out"); [contradiction|]. auto.
Qed.

(* ---- layers ---- *)
Definition layer_calls (fi : Z) (has_bias : bool) : list (ltarget * fill_call) :=
  let b := layer_bound (IZR fi) in
  (LWeight, Uniform (- b) b) :: (if has_bias then [(LBias, Uniform (- b) b)] else []).

Lemma layer_reset_ok shape has_bias fi fo : spec_fans shape = Some (fi, fo) -> (0 < fi)%Z ->
  linear_reset_calls shape has_bias = Some (layer_calls fi has_bias) /\
  conv1d_reset_calls shape has_bias = Some (layer_calls fi has_bias) /\
  conv2d_reset_calls shape has_bias = Some (layer_calls fi has_bias).
Proof.
  intros H Hp. unfold linear_reset_calls, conv1d_reset_calls, conv2d_reset_calls, layer_calls, layer_bound.
  rewrite fans_match, H. cbv zeta.
  destruct (Z.ltb_spec 0 fi) as [_|C]; [|lia].
  destruct has_bias; cbn [app]; repeat split; rsolve.
Qed.

(* ---- plain fillers ---- *)
Lemma fill_identity : forall name e, In (name, e) plain_effects ->
  fe_assigns e = ["data"%string] /\ fe_astype e = "tensor.dtype"%string /\ fe_returns e = "tensor"%string /\
  In "tensor.shape"%string (fe_args e).
Proof.
  intros name e Hin. unfold plain_effects in Hin. cbn in Hin.
  repeat (destruct Hin as [Hin|Hin]; [inversion Hin; subst; cbn; repeat split; auto 6|]). contradiction.
Qed.

Lemma fill_names : map fst plain_effects = ["uniform_"; "normal_"; "constant_"; "ones_"; "zeros_"]%string.
Proof. reflexivity. Qed.

Lemma fill_arguments :
  fe_source uniform_effect = "np.random.uniform"%string /\ fe_args uniform_effect = ["a"; "b"; "tensor.shape"]%string /\
  fe_source normal_effect = "np.random.normal"%string /\ fe_args normal_effect = ["mean"; "std"; "tensor.shape"]%string /\
  fe_source constant_effect = "np.full"%string /\ fe_args constant_effect = ["tensor.shape"; "val"]%string /\
  fe_source ones_effect = "np.ones"%string /\ fe_source zeros_effect = "np.zeros"%string.
Proof. repeat split; reflexivity. Qed.
