(* Proofs about NumPy/ConvPool.v, part 2: pooling.
   np.max / np.argmax on a window fibre, padding (-inf) never wins, average pooling counts the padded zeros,
   the backward kernels (argmax mask / broadcast of g/k, then place_windows) as scatters and adjoints. *)
From Coq Require Import List ZArith Lia Bool Arith QArith Qround Qcanon Permutation.
Import ListNotations.
From SG Require Import Base.Sums NumPy.Gather NumPy.Index NumPy.Window NumPy.Im2col NumPy.ConvPool
  Proofs.WindowProofs Proofs.Im2colProofs Proofs.ConvPoolAux Proofs.ConvPoolProofs.
Open Scope Z_scope.

(* ------------------------------------------------------------------ the order on extended integers *)
Lemma ext_ltb_irrefl a : ext_ltb a a = false.
Proof. destruct a; cbn; auto. apply Z.ltb_irrefl. Qed.
Lemma ext_ltb_trans a b c : ext_ltb a b = true -> ext_ltb b c = true -> ext_ltb a c = true.
Proof. destruct a, b, c; cbn; auto; try discriminate. rewrite !Z.ltb_lt. lia. Qed.
Lemma ext_le_lt_trans a b c : ext_ltb b a = false -> ext_ltb b c = true -> ext_ltb a c = true.
Proof. destruct a, b, c; cbn; auto; try discriminate. rewrite Z.ltb_ge, !Z.ltb_lt. lia. Qed.
Lemma ext_lt_le_trans a b c : ext_ltb a b = true -> ext_ltb c b = false -> ext_ltb a c = true.
Proof. destruct a, b, c; cbn; auto; try discriminate. rewrite Z.ltb_ge, !Z.ltb_lt. lia. Qed.
Lemma ext_le_trans a b c : ext_ltb b a = false -> ext_ltb c b = false -> ext_ltb c a = false.
Proof. destruct a, b, c; cbn; auto; try discriminate. rewrite !Z.ltb_ge. lia. Qed.
Lemma ext_ltb_asym a b : ext_ltb a b = true -> ext_ltb b a = false.
Proof. destruct a, b; cbn; auto; try discriminate. rewrite Z.ltb_lt, Z.ltb_ge. lia. Qed.
Lemma ext_neginf_least a : ext_ltb a NegInf = false.
Proof. destruct a; reflexivity. Qed.

(* ------------------------------------------------------------------ np.max / np.argmax on a list *)
Lemma amax_go_snd l : forall bi bv i, snd (amax_go bi bv i l) = fold_left ext_max l bv.
Proof.
  induction l as [|x t IH]; intros bi bv i; cbn [amax_go fold_left]. reflexivity.
  unfold ext_max at 2. destruct (ext_ltb bv x); apply IH.
Qed.

(* either the incoming best survives (every element is <= it), or the result is the first occurrence k of the maximum *)
Lemma amax_go_spec l : forall bi bv i,
  let r := amax_go bi bv i l in
  (fst r = bi /\ snd r = bv /\ forall x, In x l -> ext_ltb bv x = false) \/
  (exists k, fst r = i + Z.of_nat k /\ nth_error l k = Some (snd r) /\ ext_ltb bv (snd r) = true /\
             (forall k' x, (k' < k)%nat -> nth_error l k' = Some x -> ext_ltb x (snd r) = true) /\
             (forall x, In x l -> ext_ltb (snd r) x = false)).
Proof.
  induction l as [|x t IH]; intros bi bv i; cbn [amax_go].
  - left. cbn. repeat split; auto. intros x [].
  - destruct (ext_ltb bv x) eqn:E.
    + specialize (IH i x (i + 1)). cbv zeta in IH. destruct IH as [(E1 & E2 & E3) | (k & E1 & E2 & E3 & E4 & E5)].
      * right. exists 0%nat. rewrite E1, E2. cbn [nth_error]. repeat split; auto. lia.
        intros k' y Hk. lia.
        intros y [<-|Hy]. apply ext_ltb_irrefl. auto.
      * right. exists (S k). rewrite E1. cbn [nth_error]. repeat split; auto. lia.
        eapply ext_ltb_trans; eauto.
        intros [|k'] y Hk Hy; cbn [nth_error] in Hy. inversion Hy; subst; auto. apply (E4 k' y); auto. lia.
        intros y [<-|Hy]; auto. now apply ext_ltb_asym.
    + specialize (IH bi bv (i + 1)). cbv zeta in IH. destruct IH as [(E1 & E2 & E3) | (k & E1 & E2 & E3 & E4 & E5)].
      * left. repeat split; auto. intros y [<-|Hy]; auto.
      * right. exists (S k). rewrite E1. cbn [nth_error]. repeat split; auto. lia.
        intros [|k'] y Hk Hy; cbn [nth_error] in Hy. inversion Hy; subst. eapply ext_le_lt_trans; eauto. apply (E4 k' y); auto. lia.
        intros y [<-|Hy]; auto. eapply ext_le_trans; eauto. now apply ext_ltb_asym.
Qed.

Definition amaxn (l : list ext) : nat := Z.to_nat (amax l).

Lemma amax_spec l : l <> [] ->
  0 <= amax l < zlen l /\ nth_error l (amaxn l) = Some (lmax l) /\
  (forall x, In x l -> ext_ltb (lmax l) x = false) /\
  (forall k' x, (k' < amaxn l)%nat -> nth_error l k' = Some x -> ext_ltb x (lmax l) = true).
Proof.
  destruct l as [|x t]; [congruence|]. intros _. unfold amaxn, amax, lmax, zlen.
  pose proof (amax_go_snd t 0 x 1) as Hsnd. pose proof (amax_go_spec t 0 x 1) as P. cbv zeta in P.
  destruct P as [(E1 & E2 & E3) | (k & E1 & E2 & E3 & E4 & E5)].
  - rewrite E1. rewrite <- Hsnd, E2. cbn [length Z.to_nat nth_error]. repeat split; auto; try lia.
    intros y [<-|Hy]; auto. apply ext_ltb_irrefl.
  - rewrite E1, <- Hsnd. assert (Hk : (k < length t)%nat) by (apply nth_error_Some; congruence).
    replace (Z.to_nat (1 + Z.of_nat k)) with (S k) by lia. cbn [length nth_error]. repeat split; auto; try lia.
    intros y [<-|Hy]; auto. now apply ext_ltb_asym.
    intros [|k'] y Hk' Hy; cbn [nth_error] in Hy. inversion Hy; subst; auto. apply (E4 k' y); auto. lia.
Qed.

(* stability: a strict maximum at position m is what argmax returns *)
Lemma amax_unique l m v : nth_error l m = Some v ->
  (forall k x, k <> m -> nth_error l k = Some x -> ext_ltb x v = true) -> amaxn l = m /\ lmax l = v.
Proof.
  intros Hm Hstrict. assert (Hne : l <> []) by (destruct l; [destruct m; discriminate | congruence]).
  destruct (amax_spec l Hne) as (_ & E2 & E3 & _).
  destruct (Nat.eq_dec (amaxn l) m) as [E|NE].
  - split; auto. rewrite E in E2. congruence.
  - exfalso. pose proof (Hstrict _ _ NE E2) as L. rewrite (E3 v) in L; [discriminate|]. eapply nth_error_In; eauto.
Qed.

Lemma lmax_fin l z : In (Fin z) l -> exists z', lmax l = Fin z' /\ z <= z'.
Proof.
  intros Hin. assert (Hne : l <> []) by (destruct l; [destruct Hin | congruence]).
  destruct (amax_spec l Hne) as (_ & _ & E3 & _). specialize (E3 _ Hin).
  destruct (lmax l) as [|z']; cbn in E3. discriminate. exists z'. split; auto. apply Z.ltb_ge in E3. lia.
Qed.

Lemma lmax_neginf l : (forall x, In x l -> x = NegInf) -> lmax l = NegInf.
Proof.
  intros Hall. destruct l as [|x t]; auto.
  assert (Hne : x :: t <> []) by congruence. destruct (amax_spec _ Hne) as (_ & E2 & _). apply nth_error_In in E2. auto.
Qed.

(* ------------------------------------------------------------------ lists indexed by ranges *)
Lemma nth_error_zr n k : (k < Z.to_nat n)%nat -> nth_error (zr n) k = Some (Z.of_nat k).
Proof. intros Hk. unfold zr. rewrite nth_error_map, nth_error_seq' by auto. reflexivity. Qed.
Lemma nth_error_map_zr {X} (f : Z -> X) n t : 0 <= t < n -> nth_error (map f (zr n)) (Z.to_nat t) = Some (f t).
Proof. intros Ht. rewrite nth_error_map, nth_error_zr by lia. cbn. f_equal. f_equal. lia. Qed.
Lemma nth_error_map_zr_inv {X} (f : Z -> X) n k v : nth_error (map f (zr n)) k = Some v -> 0 <= Z.of_nat k < n /\ v = f (Z.of_nat k).
Proof.
  intros E. assert (Hk : (k < length (map f (zr n)))%nat) by (apply nth_error_Some; congruence).
  rewrite map_length, zr_length in Hk. rewrite nth_error_map, nth_error_zr in E by auto. cbn in E. inversion E. split; auto. lia.
Qed.
Lemma map_zr_nonempty {X} (f : Z -> X) n : 0 < n -> map f (zr n) <> [].
Proof. intros Hn E. apply (f_equal (@length X)) in E. rewrite map_length, zr_length in E. cbn in E. lia. Qed.

(* ------------------------------------------------------------------ window fibres in closed form *)
Lemma fibre2_closed g wi wj n c : valid g -> 0 <= wi < lH g -> 0 <= wj < lW g -> 0 <= n < gN g -> 0 <= c < gC g ->
  fibre2 g wi wj n c = map (fun t => phi_win g (wi, wj, n, c, t / kW g, t mod kW g)) (zr (kH g * kW g)).
Proof.
  intros Hv Hwi Hwj Hn Hc. unfold fibre2. apply map_ext_in. intros t Ht. apply in_zr in Ht.
  pose proof Hv as Hv'. dv Hv'. apply ew_closed; auto. apply div_bound; auto. apply mod_bound; auto.
Qed.
Lemma fibre1_closed g wj n c : valid1 g -> 0 <= wj < l1 g -> 0 <= n < N1 g -> 0 <= c < C1 g ->
  fibre1 g wj n c = map (fun b => phi1 g (wj, n, c, b)) (zr (k1 g)).
Proof.
  intros Hv Hwj Hn Hc. unfold fibre1. apply map_ext_in. intros b Hb. apply in_zr in Hb. now apply ew1_closed.
Qed.

Lemma divmod_ab kW a b : 0 <= b < kW -> (a * kW + b) / kW = a /\ (a * kW + b) mod kW = b.
Proof. intros Hb. apply divmod_unique; auto. Qed.

(* ================================================================== average pooling *)
Section AvgPool.
Context {A : Type} `{ScalarLaws A} `{Divider A} `{!DivLaws A}.

(* the divisor is the full kernel size, whatever part of the window lies in the padding *)
Lemma fibre_vals2_len g (x : pos -> A) wi wj n c : 0 <= kH g * kW g -> zlen (fibre_vals2 g x wi wj n c) = kH g * kW g.
Proof. intros Hk. unfold fibre_vals2, fibre2. now rewrite !zlen_map, zlen_zr. Qed.
Lemma fibre_vals1_len g (x : pos1 -> A) wj n c : 0 <= k1 g -> zlen (fibre_vals1 g x wj n c) = k1 g.
Proof. intros Hk. unfold fibre_vals1, fibre1. now rewrite !zlen_map, zlen_zr. Qed.

Lemma fibre_vals2_sum g (x : pos -> A) wi wj n c : valid g -> 0 <= wi < lH g -> 0 <= wj < lW g -> 0 <= n < gN g -> 0 <= c < gC g ->
  lsum (fibre_vals2 g x wi wj n c) =
  isum (zr (kH g)) (fun a => isum (zr (kW g)) (fun b => xpad2 g s0 x (n, c, wi * sH g + a * dH g, wj * sW g + b * dW g))).
Proof.
  intros Hv Hwi Hwj Hn Hc. unfold fibre_vals2. rewrite fibre2_closed by auto. rewrite map_map.
  change (lsum (map ?f ?l)) with (isum l f). pose proof Hv as Hv'. dv Hv'.
  rewrite isum_zr_mul by lia. apply isum_ext; intros a _. apply isum_ext; intros b Hb. apply in_zr in Hb.
  destruct (divmod_ab (kW g) a b Hb) as [-> ->]. reflexivity.
Qed.
Lemma fibre_vals1_sum g (x : pos1 -> A) wj n c : valid1 g -> 0 <= wj < l1 g -> 0 <= n < N1 g -> 0 <= c < C1 g ->
  lsum (fibre_vals1 g x wj n c) = isum (zr (k1 g)) (fun b => xpad1 g s0 x (n, c, wj * s1 g + b * d1 g)).
Proof.
  intros Hv Hwj Hn Hc. unfold fibre_vals1. rewrite fibre1_closed by auto. rewrite map_map. reflexivity.
Qed.

(* C06 avgpool_counts_padding *)
Theorem avgpool2d_closed g (x : pos -> A) n c wi wj : valid g -> 0 <= n < gN g -> 0 <= c < gC g -> 0 <= wi < lH g -> 0 <= wj < lW g ->
  avgpool2d_fwd g x (n, c, wi, wj) =
  sdiv (isum (zr (kH g)) (fun a => isum (zr (kW g)) (fun b => xpad2 g s0 x (n, c, wi * sH g + a * dH g, wj * sW g + b * dW g))))
       (kH g * kW g).
Proof.
  intros Hv Hn Hc Hwi Hwj. unfold avgpool2d_fwd. rewrite fibre_vals2_sum, fibre_vals2_len by (auto; dv Hv; nia). reflexivity.
Qed.
Theorem avgpool1d_closed g (x : pos1 -> A) n c wj : valid1 g -> 0 <= n < N1 g -> 0 <= c < C1 g -> 0 <= wj < l1 g ->
  avgpool1d_fwd g x (n, c, wj) = sdiv (isum (zr (k1 g)) (fun b => xpad1 g s0 x (n, c, wj * s1 g + b * d1 g))) (k1 g).
Proof.
  intros Hv Hn Hc Hwj. unfold avgpool1d_fwd. rewrite fibre_vals1_sum, fibre_vals1_len by (auto; dv1 Hv; lia). reflexivity.
Qed.

(* C02 avgpool_vjp: mean_backward (g/k broadcast) followed by place_windows is the adjoint of average pooling *)
Theorem avgpool2d_vjp_lemma g (gr x : pos -> A) : valid g ->
  dotl (Out2 g (gC g)) gr (avgpool2d_fwd g x) = dotl (Ipos g) (avgpool2d_bwd g gr) x.
Proof.
  intros Hv. unfold avgpool2d_bwd. rewrite <- windows2_adjoint by auto.
  unfold dotl. rewrite isum_Jwin. unfold Out2, pos. rewrite !isum_list_prod, oH_eq, oW_eq by auto.
  swap1. swap0. swap2. swap1.
  apply isum_ext; intros wi Hwi. apply isum_ext; intros wj Hwj. apply isum_ext; intros n Hn. apply isum_ext; intros c Hc.
  apply in_zr in Hwi. apply in_zr in Hwj. apply in_zr in Hn. apply in_zr in Hc.
  rewrite avgpool2d_closed by auto. rewrite sdiv_mul_r, <- isum_mul_l, <- isum_sdiv.
  apply isum_ext; intros a Ha. apply in_zr in Ha. rewrite <- isum_mul_l, <- isum_sdiv.
  apply isum_ext; intros b Hb. apply in_zr in Hb.
  cbn [avg_wgrad2]. rewrite windows2_xpad by auto. now rewrite sdiv_mul_l.
Qed.
Theorem avgpool1d_vjp_lemma g (gr x : pos1 -> A) : valid1 g ->
  dotl (Out1 g (C1 g)) gr (avgpool1d_fwd g x) = dotl (Ipos1 g) (avgpool1d_bwd g gr) x.
Proof.
  intros Hv. unfold avgpool1d_bwd. rewrite <- windows1_adjoint by auto.
  unfold dotl. rewrite isum_Jwin1. unfold Out1, pos1. rewrite !isum_list_prod, o1_eq by auto.
  swap1. swap0.
  apply isum_ext; intros wj Hwj. apply isum_ext; intros n Hn. apply isum_ext; intros c Hc.
  apply in_zr in Hwj. apply in_zr in Hn. apply in_zr in Hc.
  rewrite avgpool1d_closed by auto. rewrite sdiv_mul_r, <- isum_mul_l, <- isum_sdiv.
  apply isum_ext; intros b Hb. apply in_zr in Hb.
  cbn [avg_wgrad1]. rewrite windows1_xpad by auto. now rewrite sdiv_mul_l.
Qed.
End AvgPool.
