(* Proofs about NumPy/ConvPool.v, part 2: pooling.
   np.max / np.argmax on a window fibre, padding (-inf) never wins, average pooling counts the padded zeros,
   the backward kernels (argmax mask / broadcast of g/k, then place_windows) as scatters and adjoints. *)
From Coq Require Import List ZArith Lia Bool Arith QArith Qround Qcanon Permutation.
Import ListNotations.
From SG Require Import Base.Sums NumPy.Gather NumPy.Index NumPy.Window NumPy.Im2col NumPy.ConvPool
  Proofs.WindowProofs Proofs.Im2colProofs Proofs.ConvPoolAux Proofs.ConvPoolProofs.
Open Scope Z_scope.

(* ------------------------------------------------------------------ the order on extended integers *)
Lemma ext_ltb_irrefl a : ext_ltb a a = false.
Proof. destruct a; cbn; auto. apply Z.ltb_irrefl. Qed.
Lemma ext_ltb_trans a b c : ext_ltb a b = true -> ext_ltb b c = true -> ext_ltb a c = true.
Proof. destruct a, b, c; cbn; auto; try discriminate. rewrite !Z.ltb_lt. lia. Qed.
Lemma ext_le_lt_trans a b c : ext_ltb b a = false -> ext_ltb b c = true -> ext_ltb a c = true.
Proof. destruct a, b, c; cbn; auto; try discriminate. rewrite Z.ltb_ge, !Z.ltb_lt. lia. Qed.
Lemma ext_lt_le_trans a b c : ext_ltb a b = true -> ext_ltb c b = false -> ext_ltb a c = true.
Proof. destruct a, b, c; cbn; auto; try discriminate. rewrite Z.ltb_ge, !Z.ltb_lt. lia. Qed.
Lemma ext_le_trans a b c : ext_ltb b a = false -> ext_ltb c b = false -> ext_ltb c a = false.
Proof. destruct a, b, c; cbn; auto; try discriminate. rewrite !Z.ltb_ge. lia. Qed.
Lemma ext_ltb_asym a b : ext_ltb a b = true -> ext_ltb b a = false.
Proof. destruct a, b; cbn; auto; try discriminate. rewrite Z.ltb_lt, Z.ltb_ge. lia. Qed.
Lemma ext_neginf_least a : ext_ltb a NegInf = false.
Proof. destruct a; reflexivity. Qed.

(* ------------------------------------------------------------------ np.max / np.argmax on a list *)
Lemma amax_go_snd l : forall bi bv i, snd (amax_go bi bv i l) = fold_left ext_max l bv.
Proof.
  induction l as [|x t IH]; intros bi bv i; cbn [amax_go fold_left]. reflexivity.
  unfold ext_max at 2. destruct (ext_ltb bv x); apply IH.
Qed.

(* either the incoming best survives (every element is <= it), or the result is the first occurrence k of the maximum *)
Lemma amax_go_spec l : forall bi bv i,
  let r := amax_go bi bv i l in
  (fst r = bi /\ snd r = bv /\ forall x, In x l -> ext_ltb bv x = false) \/
  (exists k, fst r = i + Z.of_nat k /\ nth_error l k = Some (snd r) /\ ext_ltb bv (snd r) = true /\
             (forall k' x, (k' < k)%nat -> nth_error l k' = Some x -> ext_ltb x (snd r) = true) /\
             (forall x, In x l -> ext_ltb (snd r) x = false)).
Proof.
  induction l as [|x t IH]; intros bi bv i; cbn [amax_go].
  - left. cbn. repeat split; auto. intros x [].
  - destruct (ext_ltb bv x) eqn:E.
    + specialize (IH i x (i + 1)). cbv zeta in IH. destruct IH as [(E1 & E2 & E3) | (k & E1 & E2 & E3 & E4 & E5)].
      * right. exists 0%nat. rewrite E1, E2. cbn [nth_error]. repeat split; auto. lia.
        intros k' y Hk. lia.
        intros y [<-|Hy]. apply ext_ltb_irrefl. auto.
      * right. exists (S k). rewrite E1. cbn [nth_error]. repeat split; auto. lia.
        eapply ext_ltb_trans; eauto.
        intros [|k'] y Hk Hy; cbn [nth_error] in Hy. inversion Hy; subst; auto. apply (E4 k' y); auto. lia.
        intros y [<-|Hy]; auto. now apply ext_ltb_asym.
    + specialize (IH bi bv (i + 1)). cbv zeta in IH. destruct IH as [(E1 & E2 & E3) | (k & E1 & E2 & E3 & E4 & E5)].
      * left. repeat split; auto. intros y [<-|Hy]; auto.
      * right. exists (S k). rewrite E1. cbn [nth_error]. repeat split; auto. lia.
        intros [|k'] y Hk Hy; cbn [nth_error] in Hy. inversion Hy; subst. eapply ext_le_lt_trans; eauto. apply (E4 k' y); auto. lia.
        intros y [<-|Hy]; auto. eapply ext_le_trans; eauto. now apply ext_ltb_asym.
Qed.

Definition amaxn (l : list ext) : nat := Z.to_nat (amax l).

Lemma amax_spec l : l <> [] ->
  0 <= amax l < zlen l /\ nth_error l (amaxn l) = Some (lmax l) /\
  (forall x, In x l -> ext_ltb (lmax l) x = false) /\
  (forall k' x, (k' < amaxn l)%nat -> nth_error l k' = Some x -> ext_ltb x (lmax l) = true).
Proof.
  destruct l as [|x t]; [congruence|]. intros _. unfold amaxn, amax, lmax, zlen.
  pose proof (amax_go_snd t 0 x 1) as Hsnd. pose proof (amax_go_spec t 0 x 1) as P. cbv zeta in P.
  destruct P as [(E1 & E2 & E3) | (k & E1 & E2 & E3 & E4 & E5)].
  - rewrite E1. rewrite <- Hsnd, E2. cbn [length Z.to_nat nth_error]. repeat split; auto; try lia.
    intros y [<-|Hy]; auto. apply ext_ltb_irrefl.
  - rewrite E1, <- Hsnd. assert (Hk : (k < length t)%nat) by (apply nth_error_Some; congruence).
    replace (Z.to_nat (1 + Z.of_nat k)) with (S k) by lia. cbn [length nth_error]. repeat split; auto; try lia.
    intros y [<-|Hy]; auto. now apply ext_ltb_asym.
    intros [|k'] y Hk' Hy; cbn [nth_error] in Hy. inversion Hy; subst; auto. apply (E4 k' y); auto. lia.
Qed.

(* stability: a strict maximum at position m is what argmax returns *)
Lemma amax_unique l m v : nth_error l m = Some v ->
  (forall k x, k <> m -> nth_error l k = Some x -> ext_ltb x v = true) -> amaxn l = m /\ lmax l = v.
Proof.
  intros Hm Hstrict. assert (Hne : l <> []) by (destruct l; [destruct m; discriminate | congruence]).
  destruct (amax_spec l Hne) as (_ & E2 & E3 & _).
  destruct (Nat.eq_dec (amaxn l) m) as [E|NE].
  - split; auto. rewrite E in E2. congruence.
  - exfalso. pose proof (Hstrict _ _ NE E2) as L. rewrite (E3 v) in L; [discriminate|]. eapply nth_error_In; eauto.
Qed.

Lemma lmax_fin l z : In (Fin z) l -> exists z', lmax l = Fin z' /\ z <= z'.
Proof.
  intros Hin. assert (Hne : l <> []) by (destruct l; [destruct Hin | congruence]).
  destruct (amax_spec l Hne) as (_ & _ & E3 & _). specialize (E3 _ Hin).
  destruct (lmax l) as [|z']; cbn in E3. discriminate. exists z'. split; auto. apply Z.ltb_ge in E3. lia.
Qed.

Lemma lmax_neginf l : (forall x, In x l -> x = NegInf) -> lmax l = NegInf.
Proof.
  intros Hall. destruct l as [|x t]; auto.
  assert (Hne : x :: t <> []) by congruence. destruct (amax_spec _ Hne) as (_ & E2 & _). apply nth_error_In in E2. auto.
Qed.

(* ------------------------------------------------------------------ lists indexed by ranges *)
Lemma nth_error_zr n k : (k < Z.to_nat n)%nat -> nth_error (zr n) k = Some (Z.of_nat k).
Proof. intros Hk. unfold zr. rewrite nth_error_map, nth_error_seq' by auto. reflexivity. Qed.
Lemma nth_error_map_zr {X} (f : Z -> X) n t : 0 <= t < n -> nth_error (map f (zr n)) (Z.to_nat t) = Some (f t).
Proof. intros Ht. rewrite nth_error_map, nth_error_zr by lia. cbn. f_equal. f_equal. lia. Qed.
Lemma nth_error_map_zr_inv {X} (f : Z -> X) n k v : nth_error (map f (zr n)) k = Some v -> 0 <= Z.of_nat k < n /\ v = f (Z.of_nat k).
Proof.
  intros E. assert (Hk : (k < length (map f (zr n)))%nat) by (apply nth_error_Some; congruence).
  rewrite map_length, zr_length in Hk. rewrite nth_error_map, nth_error_zr in E by auto. cbn in E. inversion E. split; auto. lia.
Qed.
Lemma map_zr_nonempty {X} (f : Z -> X) n : 0 < n -> map f (zr n) <> [].
Proof. intros Hn E. apply (f_equal (@length X)) in E. rewrite map_length, zr_length in E. cbn in E. lia. Qed.

(* ------------------------------------------------------------------ window fibres in closed form *)
Lemma fibre2_closed g wi wj n c : valid g -> 0 <= wi < lH g -> 0 <= wj < lW g -> 0 <= n < gN g -> 0 <= c < gC g ->
  fibre2 g wi wj n c = map (fun t => phi_win g (wi, wj, n, c, t / kW g, t mod kW g)) (zr (kH g * kW g)).
Proof.
  intros Hv Hwi Hwj Hn Hc. unfold fibre2. apply map_ext_in. intros t Ht. apply in_zr in Ht.
  pose proof Hv as Hv'. dv Hv'. apply ew_closed; auto. apply div_bound; auto. apply mod_bound; auto.
Qed.
Lemma fibre1_closed g wj n c : valid1 g -> 0 <= wj < l1 g -> 0 <= n < N1 g -> 0 <= c < C1 g ->
  fibre1 g wj n c = map (fun b => phi1 g (wj, n, c, b)) (zr (k1 g)).
Proof.
  intros Hv Hwj Hn Hc. unfold fibre1. apply map_ext_in. intros b Hb. apply in_zr in Hb. now apply ew1_closed.
Qed.

Lemma divmod_ab kW a b : 0 <= b < kW -> (a * kW + b) / kW = a /\ (a * kW + b) mod kW = b.
Proof. intros Hb. apply divmod_unique; auto. Qed.

(* ================================================================== average pooling *)
Section AvgPool.
Context {A : Type} `{ScalarLaws A} `{Divider A} `{!DivLaws A}.

(* the divisor is the full kernel size, whatever part of the window lies in the padding *)
Lemma fibre_vals2_len g (x : pos -> A) wi wj n c : 0 <= kH g * kW g -> zlen (fibre_vals2 g x wi wj n c) = kH g * kW g.
Proof. intros Hk. unfold fibre_vals2, fibre2. now rewrite !zlen_map, zlen_zr. Qed.
Lemma fibre_vals1_len g (x : pos1 -> A) wj n c : 0 <= k1 g -> zlen (fibre_vals1 g x wj n c) = k1 g.
Proof. intros Hk. unfold fibre_vals1, fibre1. now rewrite !zlen_map, zlen_zr. Qed.

Lemma fibre_vals2_sum g (x : pos -> A) wi wj n c : valid g -> 0 <= wi < lH g -> 0 <= wj < lW g -> 0 <= n < gN g -> 0 <= c < gC g ->
  lsum (fibre_vals2 g x wi wj n c) =
  isum (zr (kH g)) (fun a => isum (zr (kW g)) (fun b => xpad2 g s0 x (n, c, wi * sH g + a * dH g, wj * sW g + b * dW g))).
Proof.
  intros Hv Hwi Hwj Hn Hc. unfold fibre_vals2. rewrite fibre2_closed by auto. rewrite map_map.
  change (lsum (map ?f ?l)) with (isum l f). pose proof Hv as Hv'. dv Hv'.
  rewrite isum_zr_mul by lia. apply isum_ext; intros a _. apply isum_ext; intros b Hb. apply in_zr in Hb.
  destruct (divmod_ab (kW g) a b Hb) as [-> ->]. reflexivity.
Qed.
Lemma fibre_vals1_sum g (x : pos1 -> A) wj n c : valid1 g -> 0 <= wj < l1 g -> 0 <= n < N1 g -> 0 <= c < C1 g ->
  lsum (fibre_vals1 g x wj n c) = isum (zr (k1 g)) (fun b => xpad1 g s0 x (n, c, wj * s1 g + b * d1 g)).
Proof.
  intros Hv Hwj Hn Hc. unfold fibre_vals1. rewrite fibre1_closed by auto. rewrite map_map. reflexivity.
Qed.

(* C06 avgpool_counts_padding *)
Theorem avgpool2d_closed g (x : pos -> A) n c wi wj : valid g -> 0 <= n < gN g -> 0 <= c < gC g -> 0 <= wi < lH g -> 0 <= wj < lW g ->
  avgpool2d_fwd g x (n, c, wi, wj) =
  sdiv (isum (zr (kH g)) (fun a => isum (zr (kW g)) (fun b => xpad2 g s0 x (n, c, wi * sH g + a * dH g, wj * sW g + b * dW g))))
       (kH g * kW g).
Proof.
  intros Hv Hn Hc Hwi Hwj. unfold avgpool2d_fwd. rewrite fibre_vals2_sum, fibre_vals2_len by (auto; dv Hv; nia). reflexivity.
Qed.
Theorem avgpool1d_closed g (x : pos1 -> A) n c wj : valid1 g -> 0 <= n < N1 g -> 0 <= c < C1 g -> 0 <= wj < l1 g ->
  avgpool1d_fwd g x (n, c, wj) = sdiv (isum (zr (k1 g)) (fun b => xpad1 g s0 x (n, c, wj * s1 g + b * d1 g))) (k1 g).
Proof.
  intros Hv Hn Hc Hwj. unfold avgpool1d_fwd. rewrite fibre_vals1_sum, fibre_vals1_len by (auto; dv1 Hv; lia). reflexivity.
Qed.

(* C02 avgpool_vjp: mean_backward (g/k broadcast) followed by place_windows is the adjoint of average pooling *)
Theorem avgpool2d_vjp_lemma g (gr x : pos -> A) : valid g ->
  dotl (Out2 g (gC g)) gr (avgpool2d_fwd g x) = dotl (Ipos g) (avgpool2d_bwd g gr) x.
Proof.
  intros Hv. unfold avgpool2d_bwd. rewrite <- windows2_adjoint by auto.
  unfold dotl. rewrite isum_Jwin. unfold Out2, pos. rewrite !isum_list_prod, oH_eq, oW_eq by auto.
  swap1. swap0. swap2. swap1.
  apply isum_ext; intros wi Hwi. apply isum_ext; intros wj Hwj. apply isum_ext; intros n Hn. apply isum_ext; intros c Hc.
  apply in_zr in Hwi. apply in_zr in Hwj. apply in_zr in Hn. apply in_zr in Hc.
  rewrite avgpool2d_closed by auto. rewrite sdiv_mul_r, <- isum_mul_l, <- isum_sdiv.
  apply isum_ext; intros a Ha. apply in_zr in Ha. rewrite <- isum_mul_l, <- isum_sdiv.
  apply isum_ext; intros b Hb. apply in_zr in Hb.
  cbn [avg_wgrad2]. rewrite windows2_xpad by auto. now rewrite sdiv_mul_l.
Qed.
Theorem avgpool1d_vjp_lemma g (gr x : pos1 -> A) : valid1 g ->
  dotl (Out1 g (C1 g)) gr (avgpool1d_fwd g x) = dotl (Ipos1 g) (avgpool1d_bwd g gr) x.
Proof.
  intros Hv. unfold avgpool1d_bwd. rewrite <- windows1_adjoint by auto.
  unfold dotl. rewrite isum_Jwin1. unfold Out1, pos1. rewrite !isum_list_prod, o1_eq by auto.
  swap1. swap0.
  apply isum_ext; intros wj Hwj. apply isum_ext; intros n Hn. apply isum_ext; intros c Hc.
  apply in_zr in Hwj. apply in_zr in Hn. apply in_zr in Hc.
  rewrite avgpool1d_closed by auto. rewrite sdiv_mul_r, <- isum_mul_l, <- isum_sdiv.
  apply isum_ext; intros b Hb. apply in_zr in Hb.
  cbn [avg_wgrad1]. rewrite windows1_xpad by auto. now rewrite sdiv_mul_l.
Qed.
End AvgPool.

(* ================================================================== max pooling (2-D) *)
Lemma phi_win_cases g wi wj n c a b : valid g ->
  0 <= wi < lH g -> 0 <= wj < lW g -> 0 <= n < gN g -> 0 <= c < gC g -> 0 <= a < kH g -> 0 <= b < kW g ->
  phi_win g (wi, wj, n, c, a, b) =
  if is_real (gH g) (pH g) (wi * sH g + a * dH g) && is_real (gW g) (pW g) (wj * sW g + b * dW g)
  then At (n, c, wi * sH g + a * dH g - pH g, wj * sW g + b * dW g - pW g) else PadV.
Proof.
  intros Hv Hwi Hwj Hn Hc Ha Hb. unfold phi_win. apply pad_lookup_cases; auto.
  apply hpos_range; auto. apply wpos_range'; auto.
Qed.

Lemma efibre2_closed g (x : pos -> Z) wi wj n c : valid g -> 0 <= wi < lH g -> 0 <= wj < lW g -> 0 <= n < gN g -> 0 <= c < gC g ->
  efibre2 g x wi wj n c = map (fun t => ecell x (phi_win g (wi, wj, n, c, t / kW g, t mod kW g))) (zr (kH g * kW g)).
Proof. intros. unfold efibre2. rewrite fibre2_closed by auto. now rewrite map_map. Qed.

Lemma tk_parts g t : valid g -> 0 <= t < kH g * kW g -> 0 <= t / kW g < kH g /\ 0 <= t mod kW g < kW g.
Proof. intros Hv Ht. dv Hv. split. apply div_bound; auto. apply mod_bound; auto. Qed.

Section MaxPool2.
Variable g : geom.
Variable x : pos -> Z.
Variables n c wi wj : Z.
Hypothesis Hv : valid g.
Hypothesis Hn : 0 <= n < gN g.
Hypothesis Hc : 0 <= c < gC g.
Hypothesis Hwi : 0 <= wi < lH g.
Hypothesis Hwj : 0 <= wj < lW g.

Let K := kH g * kW g.
Let F (y : pos -> Z) t := ecell y (phi_win g (wi, wj, n, c, t / kW g, t mod kW g)).

Lemma K_pos : 0 < K.
Proof. unfold K. dv Hv. nia. Qed.

Lemma ef_closed y : efibre2 g y wi wj n c = map (F y) (zr K).
Proof. now apply efibre2_closed. Qed.

Lemma amax_range y : 0 <= amax (efibre2 g y wi wj n c) < K.
Proof.
  rewrite ef_closed. pose proof K_pos as HK.
  destruct (amax_spec (map (F y) (zr K)) (map_zr_nonempty _ _ HK)) as (R & _).
  rewrite zlen_map, zlen_zr in R by lia. exact R.
Qed.

Lemma lmax_at_amax y : lmax (efibre2 g y wi wj n c) = F y (amax (efibre2 g y wi wj n c)).
Proof.
  pose proof (amax_range y) as R. rewrite ef_closed in *. pose proof K_pos as HK.
  destruct (amax_spec (map (F y) (zr K)) (map_zr_nonempty _ _ HK)) as (_ & E2 & _).
  apply nth_error_map_zr_inv in E2 as (_ & E2). rewrite E2. unfold amaxn. f_equal. lia.
Qed.

Lemma F_real y a b i : 0 <= a < kH g -> 0 <= b < kW g -> phi_win_opt g (wi, wj, n, c, a, b) = Some i ->
  0 <= a * kW g + b < K /\ F y (a * kW g + b) = Fin (y i).
Proof.
  intros Ha Hb E. split. unfold K. nia.
  unfold F. destruct (divmod_ab (kW g) a b Hb) as [-> ->]. unfold phi_win_opt in E.
  destruct (phi_win g (wi, wj, n, c, a, b)); try discriminate. cbn in E. inversion E; subst. reflexivity.
Qed.

Lemma F_cases y t : 0 <= t < K ->
  (exists i, phi_win_opt g (wi, wj, n, c, t / kW g, t mod kW g) = Some i /\ F y t = Fin (y i)) \/
  (phi_win_opt g (wi, wj, n, c, t / kW g, t mod kW g) = None /\ F y t = NegInf).
Proof.
  intros Ht. destruct (tk_parts g t Hv Ht) as (Ha & Hb). unfold F, phi_win_opt. rewrite phi_win_cases by auto.
  destruct (_ && _); cbn; eauto.
Qed.

(* the value of the pool is the input at the selected position, and that position holds the maximum of the real cells *)
Theorem maxpool2d_selects :
  (exists a b i0, 0 <= a < kH g /\ 0 <= b < kW g /\ phi_win_opt g (wi, wj, n, c, a, b) = Some i0) ->
  exists i, sel2 g x (n, c, wi, wj) = Some i /\ maxpool2d_fwd g x (n, c, wi, wj) = Fin (x i) /\
    forall a b i', 0 <= a < kH g -> 0 <= b < kW g -> phi_win_opt g (wi, wj, n, c, a, b) = Some i' -> x i' <= x i.
Proof.
  intros (a0 & b0 & i0 & Ha0 & Hb0 & E0).
  pose proof (amax_range x) as R. pose proof (lmax_at_amax x) as L. pose proof K_pos as HK.
  set (m := amax (efibre2 g x wi wj n c)) in *.
  assert (Hall : forall a b i', 0 <= a < kH g -> 0 <= b < kW g -> phi_win_opt g (wi, wj, n, c, a, b) = Some i' ->
                 ext_ltb (lmax (efibre2 g x wi wj n c)) (Fin (x i')) = false).
  { intros a b i' Ha Hb E. destruct (F_real x a b i' Ha Hb E) as (Rt & Ft).
    rewrite ef_closed. destruct (amax_spec (map (F x) (zr K)) (map_zr_nonempty _ _ HK)) as (_ & _ & E3 & _).
    apply E3. rewrite <- Ft. apply in_map. now apply in_zr. }
  destruct (F_cases x m R) as [(i & Es & Ef) | (Es & Ef)].
  - exists i. split; [exact Es|]. split. unfold maxpool2d_fwd. now rewrite L.
    intros a b i' Ha Hb E. specialize (Hall a b i' Ha Hb E). rewrite L, Ef in Hall. cbn in Hall. apply Z.ltb_ge in Hall. lia.
  - exfalso. specialize (Hall a0 b0 i0 Ha0 Hb0 E0). rewrite L, Ef in Hall. discriminate.
Qed.

(* a window that lies in the padding entirely: the code returns -inf and no position is selected *)
Theorem maxpool2d_all_padding :
  (forall a b, 0 <= a < kH g -> 0 <= b < kW g -> phi_win_opt g (wi, wj, n, c, a, b) = None) ->
  maxpool2d_fwd g x (n, c, wi, wj) = NegInf /\ sel2 g x (n, c, wi, wj) = None.
Proof.
  intros Hall. pose proof (amax_range x) as R. pose proof (lmax_at_amax x) as L.
  assert (HF : forall t, 0 <= t < K -> F x t = NegInf /\ phi_win_opt g (wi, wj, n, c, t / kW g, t mod kW g) = None).
  { intros t Ht. destruct (tk_parts g t Hv Ht) as (Ha & Hb). specialize (Hall _ _ Ha Hb).
    destruct (F_cases x t Ht) as [(i & Es & _) | (Es & Ef)]; [congruence | auto]. }
  destruct (HF _ R) as (E1 & E2). split. unfold maxpool2d_fwd. now rewrite L. exact E2.
Qed.

Theorem maxpool2d_neginf_iff :
  maxpool2d_fwd g x (n, c, wi, wj) = NegInf <->
  (forall a b, 0 <= a < kH g -> 0 <= b < kW g -> phi_win_opt g (wi, wj, n, c, a, b) = None).
Proof.
  split.
  - intros E a b Ha Hb. destruct (phi_win_opt g (wi, wj, n, c, a, b)) as [i0|] eqn:E0; auto.
    destruct maxpool2d_selects as (i & _ & Ev & _). { exists a, b, i0. auto. } congruence.
  - intros Hall. now apply maxpool2d_all_padding.
Qed.

(* local constancy of the selection: if y has a strict maximum at the cell x selects, y selects the same cell *)
Theorem maxpool2d_sel_stable y :
  (forall t, 0 <= t < K -> t <> amax (efibre2 g x wi wj n c) -> ext_ltb (F y t) (F y (amax (efibre2 g x wi wj n c))) = true) ->
  amax (efibre2 g y wi wj n c) = amax (efibre2 g x wi wj n c) /\ sel2 g y (n, c, wi, wj) = sel2 g x (n, c, wi, wj).
Proof.
  intros Hs. pose proof (amax_range x) as R. pose proof (amax_range y) as Ry. set (m := amax (efibre2 g x wi wj n c)) in *.
  assert (E : amax (efibre2 g y wi wj n c) = m).
  { rewrite ef_closed in *.
    destruct (amax_unique (map (F y) (zr K)) (Z.to_nat m) (F y m)) as (E & _).
    - now apply nth_error_map_zr.
    - intros k v Hk Hnth. apply nth_error_map_zr_inv in Hnth as (Rk & ->). apply Hs; auto. lia.
    - unfold amaxn in E. lia. }
  split; auto. unfold sel2. fold m. now rewrite E.
Qed.
End MaxPool2.

Lemma sel2_into g x q i : sel2 g x q = Some i -> In i (Ipos g).
Proof. destruct q as [[[n c] wi] wj]. unfold sel2. apply phi_win_opt_into. Qed.

Section MaxBwd2.
Context {A : Type} `{ScalarLaws A}.

(* max_backward's mask followed by place_windows routes the gradient of every window to the position that window selects *)
Theorem maxpool2d_bwd_scatter g (x : pos -> Z) (gr : pos -> A) i : valid g ->
  maxpool2d_bwd g x gr i = scatter pos pos pos_eqb (Out2 g (gC g)) (sel2 g x) gr i.
Proof.
  intros Hv. unfold maxpool2d_bwd. rewrite place2_scatter by auto. unfold scatter. rewrite isum_Jwin.
  unfold Out2, pos. rewrite !isum_list_prod, oH_eq, oW_eq by auto.
  symmetry. swap1. swap0. swap2. swap1. symmetry.
  apply isum_ext; intros wi Hwi. apply isum_ext; intros wj Hwj. apply isum_ext; intros n Hn. apply isum_ext; intros c Hc.
  apply in_zr in Hwi. apply in_zr in Hwj. apply in_zr in Hn. apply in_zr in Hc.
  pose proof (amax_range g n c wi wj Hv Hn Hc Hwi Hwj x) as R. set (m := amax (efibre2 g x wi wj n c)) in *.
  set (V := fun t => match phi_win_opt g (wi, wj, n, c, t / kW g, t mod kW g) with
                     | Some i' => if pos_eqb i' i then gr (n, c, wi, wj) else s0 | None => s0 end).
  transitivity (isum (zr (kH g)) (fun a => isum (zr (kW g)) (fun b =>
                  (fun t => if t =? m then V m else s0) (a * kW g + b)))).
  { apply isum_ext; intros a _. apply isum_ext; intros b Hb. apply in_zr in Hb.
    cbn [max_wgrad2]. fold m. destruct (Z.eqb_spec (a * kW g + b) m) as [E|NE].
    - unfold V. rewrite <- E. destruct (divmod_ab (kW g) a b Hb) as [-> ->]. reflexivity.
    - destruct (phi_win_opt g (wi, wj, n, c, a, b)); auto. destruct (pos_eqb p i); auto. }
  pose proof Hv as Hv'. dv Hv'.
  transitivity (isum (zr (kH g * kW g)) (fun t => if t =? m then V m else s0)).
  { symmetry. apply (isum_zr_mul (kH g) (kW g) (fun t => if t =? m then V m else s0)); lia. }
  rewrite isum_single_zr by exact R. unfold V, sel2. fold m. reflexivity.
Qed.

(* C02 maxpool_vjp: on the set of inputs with the same selection the pool is the gather along sel2, and the code's
   backward is its adjoint *)
Theorem maxpool2d_vjp_lemma g (x : pos -> Z) (gr h : pos -> A) : valid g ->
  dotl (Out2 g (gC g)) gr (gather pos pos (sel2 g x) h) = dotl (Ipos g) (maxpool2d_bwd g x gr) h.
Proof.
  intros Hv.
  pose proof (gather_scatter_adjoint pos pos pos_eqb pos_eqb_spec (Ipos g) (Out2 g (gC g)) (NoDup_Ipos g)
                (sel2 g x) h gr (fun j i _ => sel2_into g x j i)) as E.
  unfold dot in E. unfold dotl. etransitivity; [exact E|].
  apply isum_ext. intros i _. now rewrite maxpool2d_bwd_scatter.
Qed.
End MaxBwd2.

(* unique maximiser with margin 2*delta: every y within delta of x selects the same position, and the pool returns y there:
   on that neighbourhood max pooling is the linear map "read position im" *)
Theorem maxpool2d_locally_linear g (x y : pos -> Z) delta n c wi wj im : valid g ->
  0 <= n < gN g -> 0 <= c < gC g -> 0 <= wi < lH g -> 0 <= wj < lW g ->
  (forall i, Z.abs (y i - x i) <= delta) ->
  sel2 g x (n, c, wi, wj) = Some im ->
  (forall a b i', 0 <= a < kH g -> 0 <= b < kW g -> a * kW g + b <> amax (efibre2 g x wi wj n c) ->
                  phi_win_opt g (wi, wj, n, c, a, b) = Some i' -> x i' + 2 * delta < x im) ->
  sel2 g y (n, c, wi, wj) = Some im /\ maxpool2d_fwd g y (n, c, wi, wj) = Fin (y im).
Proof.
  intros Hv Hn Hc Hwi Hwj Hclose Hsel Hgap.
  pose proof (amax_range g n c wi wj Hv Hn Hc Hwi Hwj x) as R. set (m := amax (efibre2 g x wi wj n c)) in *.
  assert (Hm : phi_win_opt g (wi, wj, n, c, m / kW g, m mod kW g) = Some im) by exact Hsel.
  destruct (tk_parts g m Hv R) as (Ham & Hbm).
  assert (Em : m / kW g * kW g + m mod kW g = m) by (dv Hv; pose proof (div_mod_eq m (kW g) HkW); lia).
  assert (Fm : forall z, ecell z (phi_win g (wi, wj, n, c, m / kW g, m mod kW g)) = Fin (z im)).
  { intros z. unfold phi_win_opt in Hm. destruct (phi_win g (wi, wj, n, c, m / kW g, m mod kW g)); try discriminate.
    cbn in Hm. inversion Hm; subst. reflexivity. }
  destruct (maxpool2d_sel_stable g x n c wi wj Hv Hn Hc Hwi Hwj y) as (Ea & Es).
  { intros t Ht Hne. fold m. rewrite Fm.
    destruct (F_cases g n c wi wj Hv Hn Hc Hwi Hwj y t Ht) as [(i' & Ei & ->) | (_ & ->)]; [|reflexivity].
    destruct (tk_parts g t Hv Ht) as (Ha & Hb).
    assert (Et : t / kW g * kW g + t mod kW g = t) by (dv Hv; pose proof (div_mod_eq t (kW g) HkW); lia).
    assert (G := Hgap (t / kW g) (t mod kW g) i' Ha Hb). rewrite Et in G. specialize (G Hne Ei).
    cbn. apply Z.ltb_lt. pose proof (Hclose i'). pose proof (Hclose im). lia. }
  split. rewrite Es. exact Hsel.
  unfold maxpool2d_fwd. rewrite (lmax_at_amax g n c wi wj Hv Hn Hc Hwi Hwj y), Ea. fold m. apply Fm.
Qed.

(* ================================================================== max pooling (1-D) *)
Lemma phi1_cases g wj n c b : valid1 g -> 0 <= wj < l1 g -> 0 <= n < N1 g -> 0 <= c < C1 g -> 0 <= b < k1 g ->
  phi1 g (wj, n, c, b) =
  if is_real (W1 g) (p1 g) (wj * s1 g + b * d1 g) then At (n, c, wj * s1 g + b * d1 g - p1 g) else PadV.
Proof.
  intros Hv Hwj Hn Hc Hb. pose proof (wpos1_range g wj b Hv Hwj Hb). unfold phi1, pad_lookup1. guard_true. reflexivity.
Qed.

Lemma efibre1_closed g (x : pos1 -> Z) wj n c : valid1 g -> 0 <= wj < l1 g -> 0 <= n < N1 g -> 0 <= c < C1 g ->
  efibre1 g x wj n c = map (fun b => ecell x (phi1 g (wj, n, c, b))) (zr (k1 g)).
Proof. intros. unfold efibre1. rewrite fibre1_closed by auto. now rewrite map_map. Qed.

Lemma sel1_phi g x n c wj : sel1 g x (n, c, wj) = phi1_opt g (wj, n, c, amax (efibre1 g x wj n c)).
Proof. reflexivity. Qed.

Section MaxPool1.
Variable g : geom1.
Variable x : pos1 -> Z.
Variables n c wj : Z.
Hypothesis Hv : valid1 g.
Hypothesis Hn : 0 <= n < N1 g.
Hypothesis Hc : 0 <= c < C1 g.
Hypothesis Hwj : 0 <= wj < l1 g.

Let F (y : pos1 -> Z) b := ecell y (phi1 g (wj, n, c, b)).

Lemma k1_pos : 0 < k1 g.
Proof. dv1 Hv. auto. Qed.

Lemma ef1_closed y : efibre1 g y wj n c = map (F y) (zr (k1 g)).
Proof. now apply efibre1_closed. Qed.

Lemma amax1_range y : 0 <= amax (efibre1 g y wj n c) < k1 g.
Proof.
  rewrite ef1_closed. pose proof k1_pos as HK.
  destruct (amax_spec (map (F y) (zr (k1 g))) (map_zr_nonempty _ _ HK)) as (R & _).
  rewrite zlen_map, zlen_zr in R by lia. exact R.
Qed.

Lemma lmax1_at_amax y : lmax (efibre1 g y wj n c) = F y (amax (efibre1 g y wj n c)).
Proof.
  pose proof (amax1_range y) as R. rewrite ef1_closed in *. pose proof k1_pos as HK.
  destruct (amax_spec (map (F y) (zr (k1 g))) (map_zr_nonempty _ _ HK)) as (_ & E2 & _).
  apply nth_error_map_zr_inv in E2 as (_ & E2). rewrite E2. unfold amaxn. f_equal. lia.
Qed.

Lemma F1_real y b i : phi1_opt g (wj, n, c, b) = Some i -> F y b = Fin (y i).
Proof.
  intros E. unfold F. unfold phi1_opt in E. destruct (phi1 g (wj, n, c, b)); try discriminate. cbn in E. inversion E; subst. reflexivity.
Qed.

Lemma F1_cases y b : 0 <= b < k1 g ->
  (exists i, phi1_opt g (wj, n, c, b) = Some i /\ F y b = Fin (y i)) \/ (phi1_opt g (wj, n, c, b) = None /\ F y b = NegInf).
Proof.
  intros Hb. unfold F, phi1_opt. rewrite phi1_cases by auto. destruct (is_real _ _ _); cbn; eauto.
Qed.

Theorem maxpool1d_selects :
  (exists b i0, 0 <= b < k1 g /\ phi1_opt g (wj, n, c, b) = Some i0) ->
  exists i, sel1 g x (n, c, wj) = Some i /\ maxpool1d_fwd g x (n, c, wj) = Fin (x i) /\
    forall b i', 0 <= b < k1 g -> phi1_opt g (wj, n, c, b) = Some i' -> x i' <= x i.
Proof.
  intros (b0 & i0 & Hb0 & E0).
  pose proof (amax1_range x) as R. pose proof (lmax1_at_amax x) as L. pose proof k1_pos as HK.
  rewrite sel1_phi. set (m := amax (efibre1 g x wj n c)) in *.
  assert (Hall : forall b i', 0 <= b < k1 g -> phi1_opt g (wj, n, c, b) = Some i' ->
                 ext_ltb (lmax (efibre1 g x wj n c)) (Fin (x i')) = false).
  { intros b i' Hb E. pose proof (F1_real x b i' E) as Ft.
    rewrite ef1_closed. destruct (amax_spec (map (F x) (zr (k1 g))) (map_zr_nonempty _ _ HK)) as (_ & _ & E3 & _).
    apply E3. rewrite <- Ft. apply in_map. now apply in_zr. }
  destruct (F1_cases x m R) as [(i & Es & Ef) | (Es & Ef)].
  - exists i. split; [exact Es|]. split. unfold maxpool1d_fwd. now rewrite L.
    intros b i' Hb E. specialize (Hall b i' Hb E). rewrite L, Ef in Hall. cbn in Hall. apply Z.ltb_ge in Hall. lia.
  - exfalso. specialize (Hall b0 i0 Hb0 E0). rewrite L, Ef in Hall. discriminate.
Qed.

Theorem maxpool1d_all_padding :
  (forall b, 0 <= b < k1 g -> phi1_opt g (wj, n, c, b) = None) ->
  maxpool1d_fwd g x (n, c, wj) = NegInf /\ sel1 g x (n, c, wj) = None.
Proof.
  intros Hall. pose proof (amax1_range x) as R. pose proof (lmax1_at_amax x) as L. rewrite sel1_phi.
  destruct (F1_cases x _ R) as [(i & Es & _) | (Es & Ef)]. rewrite Hall in Es by auto. discriminate.
  split. unfold maxpool1d_fwd. now rewrite L. exact Es.
Qed.

Theorem maxpool1d_neginf_iff :
  maxpool1d_fwd g x (n, c, wj) = NegInf <-> (forall b, 0 <= b < k1 g -> phi1_opt g (wj, n, c, b) = None).
Proof.
  split.
  - intros E b Hb. destruct (phi1_opt g (wj, n, c, b)) as [i0|] eqn:E0; auto.
    destruct maxpool1d_selects as (i & _ & Ev & _). { exists b, i0. auto. } congruence.
  - intros Hall. now apply maxpool1d_all_padding.
Qed.

Theorem maxpool1d_sel_stable y :
  (forall b, 0 <= b < k1 g -> b <> amax (efibre1 g x wj n c) -> ext_ltb (F y b) (F y (amax (efibre1 g x wj n c))) = true) ->
  amax (efibre1 g y wj n c) = amax (efibre1 g x wj n c) /\ sel1 g y (n, c, wj) = sel1 g x (n, c, wj).
Proof.
  intros Hs. pose proof (amax1_range x) as R. pose proof (amax1_range y) as Ry. set (m := amax (efibre1 g x wj n c)) in *.
  assert (E : amax (efibre1 g y wj n c) = m).
  { rewrite ef1_closed in *.
    destruct (amax_unique (map (F y) (zr (k1 g))) (Z.to_nat m) (F y m)) as (E & _).
    - now apply nth_error_map_zr.
    - intros k v Hk Hnth. apply nth_error_map_zr_inv in Hnth as (Rk & ->). apply Hs; auto. lia.
    - unfold amaxn in E. lia. }
  split; auto. rewrite !sel1_phi. fold m. now rewrite E.
Qed.
End MaxPool1.

Lemma in_Out1 g Co n co wj : In (n, co, wj) (Out1 g Co) <-> 0 <= n < N1 g /\ 0 <= co < Co /\ 0 <= wj < o1 g.
Proof. unfold Out1. rewrite !in_prod_iff, !in_zr. tauto. Qed.
Lemma in_Out2 g Co n co wi wj : In (n, co, wi, wj) (Out2 g Co) <-> 0 <= n < gN g /\ 0 <= co < Co /\ 0 <= wi < oH g /\ 0 <= wj < oW g.
Proof. unfold Out2. rewrite !in_prod_iff, !in_zr. tauto. Qed.

Lemma sel1_into g x q i : valid1 g -> In q (Out1 g (C1 g)) -> sel1 g x q = Some i -> In i (Ipos1 g).
Proof.
  intros Hv Hq. destruct q as [[n c] wj]. rewrite sel1_phi. apply in_Out1 in Hq. rewrite o1_eq in Hq by auto.
  apply phi1_opt_into. apply in_Jwin1. destruct Hq as (Hn & Hc & Hwj). pose proof (amax1_range g n c wj Hv Hn Hc Hwj x) as R. lia.
Qed.

Section MaxBwd1.
Context {A : Type} `{ScalarLaws A}.

Theorem maxpool1d_bwd_scatter g (x : pos1 -> Z) (gr : pos1 -> A) i : valid1 g ->
  maxpool1d_bwd g x gr i = scatter pos1 pos1 pos1_eqb (Out1 g (C1 g)) (sel1 g x) gr i.
Proof.
  intros Hv. unfold maxpool1d_bwd. rewrite place1_scatter by auto. unfold scatter. rewrite isum_Jwin1.
  unfold Out1, pos1. rewrite !isum_list_prod, o1_eq by auto.
  symmetry. swap1. swap0. symmetry.
  apply isum_ext; intros wj Hwj. apply isum_ext; intros n Hn. apply isum_ext; intros c Hc.
  apply in_zr in Hwj. apply in_zr in Hn. apply in_zr in Hc.
  pose proof (amax1_range g n c wj Hv Hn Hc Hwj x) as R. rewrite sel1_phi. set (m := amax (efibre1 g x wj n c)) in *.
  set (V := match phi1_opt g (wj, n, c, m) with Some i' => if pos1_eqb i' i then gr (n, c, wj) else s0 | None => s0 end).
  transitivity (isum (zr (k1 g)) (fun b => if b =? m then V else s0)).
  { apply isum_ext; intros b Hb. cbn [max_wgrad1]. fold m. destruct (Z.eqb_spec b m) as [E|NE].
    - unfold V. now rewrite <- E.
    - destruct (phi1_opt g (wj, n, c, b)); auto. destruct (pos1_eqb p i); auto. }
  now rewrite isum_single_zr by exact R.
Qed.

Theorem maxpool1d_vjp_lemma g (x : pos1 -> Z) (gr h : pos1 -> A) : valid1 g ->
  dotl (Out1 g (C1 g)) gr (gather pos1 pos1 (sel1 g x) h) = dotl (Ipos1 g) (maxpool1d_bwd g x gr) h.
Proof.
  intros Hv.
  pose proof (gather_scatter_adjoint pos1 pos1 pos1_eqb pos1_eqb_spec (Ipos1 g) (Out1 g (C1 g)) (NoDup_Ipos1 g)
                (sel1 g x) h gr (fun j i Hj => sel1_into g x j i Hv Hj)) as E.
  unfold dot in E. unfold dotl. etransitivity; [exact E|].
  apply isum_ext. intros i _. now rewrite maxpool1d_bwd_scatter.
Qed.
End MaxBwd1.

Theorem maxpool1d_locally_linear g (x y : pos1 -> Z) delta n c wj im : valid1 g ->
  0 <= n < N1 g -> 0 <= c < C1 g -> 0 <= wj < l1 g ->
  (forall i, Z.abs (y i - x i) <= delta) ->
  sel1 g x (n, c, wj) = Some im ->
  (forall b i', 0 <= b < k1 g -> b <> amax (efibre1 g x wj n c) -> phi1_opt g (wj, n, c, b) = Some i' -> x i' + 2 * delta < x im) ->
  sel1 g y (n, c, wj) = Some im /\ maxpool1d_fwd g y (n, c, wj) = Fin (y im).
Proof.
  intros Hv Hn Hc Hwj Hclose Hsel Hgap.
  pose proof (amax1_range g n c wj Hv Hn Hc Hwj x) as R. rewrite sel1_phi in Hsel. set (m := amax (efibre1 g x wj n c)) in *.
  assert (Fm : forall z, ecell z (phi1 g (wj, n, c, m)) = Fin (z im)).
  { intros z. unfold phi1_opt in Hsel. destruct (phi1 g (wj, n, c, m)); try discriminate. cbn in Hsel. inversion Hsel; subst. reflexivity. }
  destruct (maxpool1d_sel_stable g x n c wj Hv Hn Hc Hwj y) as (Ea & Es).
  { intros b Hb Hne. fold m. rewrite Fm.
    destruct (F1_cases g n c wj Hv Hn Hc Hwj y b Hb) as [(i' & Ei & ->) | (_ & ->)]; [|reflexivity].
    specialize (Hgap b i' Hb Hne Ei). cbn. apply Z.ltb_lt. pose proof (Hclose i'). pose proof (Hclose im). lia. }
  split. rewrite Es, sel1_phi. exact Hsel.
  unfold maxpool1d_fwd. rewrite (lmax1_at_amax g n c wj Hv Hn Hc Hwj y), Ea. fold m. apply Fm.
Qed.
