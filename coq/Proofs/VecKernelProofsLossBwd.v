(* The backward kernels of nll / cross-entropy are the exact VJPs; fused backward = composed backwards. *)
From Coq Require Import Reals Lra Lia Arith List Bool.
From Coquelicot Require Import Coquelicot.
From SG Require Import Analysis.Vector Gen.GenVecKernels Proofs.VecKernelProofs Proofs.VecKernelProofsLossFwd.
Import ListNotations.
Open Scope R_scope.

(* ------------------------------------------------------------------ nll VJP (one row; the output is one number) *)
Lemma nll_vjp_proof : forall n x (y : nat) (g : R) i, (i < n)%nat -> (y < n)%nat ->
  is_derive (fun t => g * nll_loss_out n (vpert x i t) y) 0 (nll_loss_grad_y_pred n x y g i).
Proof.
  intros n x y g i Hi Hy.
  unfold nll_loss_out, nll_loss_grad_y_pred, nll_loss_forward, nll_loss_backward, vpert. cbv zeta.
  rewrite (Nat.eqb_sym i y).
  destruct (Nat.eqb y i); auto_derive; auto; ring.
Qed.

Lemma cross_entropy_vjp_proof : forall n x (y : nat) (g : R) i, (1 <= n)%nat -> (i < n)%nat -> (y < n)%nat ->
  is_derive (fun t => g * cross_entropy_out n (vpert x i t) y) 0 (cross_entropy_grad_y_pred n x y g i).
Proof.
  intros n x y g i Hn Hi Hy.
  pose proof (expsum_pos n x Hn) as HS.
  set (S := expsum n x) in *.
  apply (is_derive_ext
    (fun t => g * (ln (S + exp (x i) * (exp t - 1)) - (x y + (if Nat.eqb y i then t else 0))))).
  { intros t. unfold cross_entropy_out. cbv zeta. rewrite cross_entropy_math by exact Hn.
    rewrite expsum_vpert by exact Hi. fold S. unfold vpert.
    destruct (Nat.eqb y i); [reflexivity|rewrite Rplus_0_r; reflexivity]. }
  unfold cross_entropy_grad_y_pred, cross_entropy_loss_backward. cbv zeta.
  rewrite softmax_math by exact Hn. fold S.
  rewrite (Nat.eqb_sym i y).
  destruct (Nat.eqb y i) eqn:E.
  - auto_derive.
    + rewrite exp_0. lra.
    + rewrite exp_0. field. lra.
  - auto_derive.
    + rewrite exp_0. lra.
    + rewrite exp_0. field. lra.
Qed.

(* gradient side: the fused backward equals the chained backwards of nll and log_softmax *)
Lemma cross_entropy_backward_is_composition_proof : forall n x y g i, (1 <= n)%nat -> (y < n)%nat -> (i < n)%nat ->
  cross_entropy_grad_y_pred n x y g i =
  log_softmax_grad_x n x (nll_loss_grad_y_pred n (log_softmax_out n x) y g) i.
Proof.
  intros n x y g i Hn Hy Hi.
  pose proof (expsum_pos n x Hn) as HS.
  unfold cross_entropy_grad_y_pred, cross_entropy_loss_backward, log_softmax_grad_x, log_softmax_backward,
    nll_loss_grad_y_pred, nll_loss_backward, log_softmax_out. cbv zeta.
  rewrite (vsum_ext n _ (fun j => if Nat.eqb j y then (fun _ => g * (- 1)) j else 0)).
  2:{ intros j _. destruct (Nat.eqb j y); ring. }
  rewrite vsum_onehot by exact Hy.
  rewrite softmax_math, log_softmax_math by exact Hn.
  fold (expsum n x). rewrite exp_minus_ln by exact HS.
  destruct (Nat.eqb i y); field; lra.
Qed.
