(* The VJP identities of the view ops instantiated at the real numbers. *)
From Coq Require Import List Reals.
Import ListNotations.
From SG Require Import Base.Sums NumPy.Gather NumPy.Index NumPy.Tensor NumPy.ViewsAux.

#[global] Instance ScalarR : Scalar R := {| s0 := 0%R; sadd := Rplus; smul := Rmult |}.
#[global] Instance ScalarLawsR : ScalarLaws R.
Proof. constructor; intros; cbn; ring. Qed.

Theorem vjp_identity_over_R (op : gather_op) b :
  vjp_identity op b ->
  forall x g : idx -> R, tdot (g_out op) g (tgather (g_phi op) x) = tdot (g_in op) (b R ScalarR g) x.
Proof. intros V x g. apply (V R ScalarR ScalarLawsR). Qed.
