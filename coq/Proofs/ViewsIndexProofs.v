(* __getitem__ / slice: the backward (np.add.at) is the scatter of the forward map, the forward map lands
   in the bounds of the operand for every index expression of the modelled fragment, slices select what the
   Python language reference says, and iteration over the first dimension yields the rows.               *)
From Coq Require Import List Arith ZArith Lia Bool Permutation.
Import ListNotations.
From SG Require Import Base.Sums Base.Cmp NumPy.Gather NumPy.Index NumPy.Tensor NumPy.ViewsAux NumPy.Views NumPy.Indexing NumPy.Spec.
From SG Require Import Proofs.ViewsAuxProofs Proofs.ViewsReshapeProofs Proofs.ViewsPermProofs Proofs.ViewsUnfoldProofs.

(* ------------------------------------------------------------------ backward = scatter, for every index expression *)
Section IndexBackward.
Context {A : Type} `{ScalarLaws A}.

Lemma add_at_scatter (op : gather_op) (g : idx -> A) i :
  add_at (g_phi op) (idxs (g_out op)) g i = tscatter op g i.
Proof. unfold add_at. rewrite fold_add_at. now rewrite sadd_0_l. Qed.

Theorem index_bwd_is_scatter sh items op (g : idx -> A) :
  fwd_index sh items = Some op ->
  exists b, bwd_index sh items g = Some b /\ forall i, b i = tscatter op g i.
Proof.
  intros F. unfold bwd_index. rewrite F. eexists. split. reflexivity. intros i. apply add_at_scatter.
Qed.
End IndexBackward.

(* ------------------------------------------------------------------ slice.indices *)
Lemma adjust_bound_pos n v : (0 <= n)%Z -> (0 <= adjust_bound n false v <= n)%Z.
Proof.
  intros Hn. unfold adjust_bound.
  destruct (Z.ltb_spec v 0). destruct (Z.ltb_spec (v + n) 0); lia.
  destruct (Z.leb_spec n v); lia.
Qed.

Lemma adjust_bound_neg n v : (0 <= n)%Z -> (-1 <= adjust_bound n true v <= n - 1)%Z.
Proof.
  intros Hn. unfold adjust_bound.
  destruct (Z.ltb_spec v 0). destruct (Z.ltb_spec (v + n) 0); lia.
  destruct (Z.leb_spec n v); lia.
Qed.

Lemma slice_indices_bounds d a b c st sp len :
  slice_indices d a b c = Some (st, sp, len) ->
  sp <> 0%Z /\ forall m, m < len -> (0 <= st + Z.of_nat m * sp < Z.of_nat d)%Z.
Proof.
  unfold slice_indices.
  set (step := match c with None => 1%Z | Some s => s end).
  destruct (Z.eqb_spec step 0) as [|Hs]; try discriminate.
  set (nz := Z.of_nat d). assert (Hn : (0 <= nz)%Z) by (unfold nz; lia).
  set (neg := (step <? 0)%Z).
  set (start := match a with None => if neg then (nz - 1)%Z else 0%Z | Some v => adjust_bound nz neg v end).
  set (stop := match b with None => if neg then (-1)%Z else nz | Some v => adjust_bound nz neg v end).
  intros E. inversion E as [[E1 E2 E3]]. clear E. split. now subst.
  intros m Hm. subst st sp len. unfold neg in *.
  destruct (Z.ltb_spec step 0) as [Hneg|Hpos].
  - assert (S1 : (-1 <= start <= nz - 1)%Z).
    { unfold start. destruct a. apply adjust_bound_neg; auto. lia. }
    assert (S2 : (-1 <= stop <= nz - 1)%Z).
    { unfold stop. destruct b. apply adjust_bound_neg; auto. lia. }
    destruct (Z.ltb_spec stop start) as [Hlt|]; [|simpl in Hm; lia].
    assert (D : (0 <= (start - stop - 1) / - step)%Z) by (apply Z.div_pos; lia).
    assert (M : (Z.of_nat m <= (start - stop - 1) / - step)%Z) by lia.
    pose proof (Z.mul_div_le (start - stop - 1) (- step) ltac:(lia)) as Q.
    nia.
  - assert (S1 : (0 <= start <= nz)%Z).
    { unfold start. destruct a. apply adjust_bound_pos; auto. lia. }
    assert (S2 : (0 <= stop <= nz)%Z).
    { unfold stop. destruct b. apply adjust_bound_pos; auto. lia. }
    destruct (Z.ltb_spec start stop) as [Hlt|]; [|simpl in Hm; lia].
    assert (D : (0 <= (stop - start - 1) / step)%Z) by (apply Z.div_pos; lia).
    assert (M : (Z.of_nat m <= (stop - start - 1) / step)%Z) by lia.
    pose proof (Z.mul_div_le (stop - start - 1) step ltac:(lia)) as Q.
    nia.
Qed.

(* ------------------------------------------------------------------ resolved items fit the shape *)
Fixpoint rs_ok (sh : shape) (rs : list ritem) : Prop :=
  match rs with
  | [] => sh = []
  | RNew :: r => rs_ok sh r
  | REll :: r => rs_ok sh r
  | RFix k :: r => match sh with d :: sh' => k < d /\ rs_ok sh' r | [] => False end
  | RSl st sp len :: r =>
      match sh with
      | d :: sh' => (forall m, m < len -> (0 <= st + Z.of_nat m * sp < Z.of_nat d)%Z) /\ rs_ok sh' r
      | [] => False
      end
  | RArr l :: r => match sh with d :: sh' => (forall k, In k l -> k < d) /\ rs_ok sh' r | [] => False end
  end.

Lemma expand_at_consuming fill items :
  length (filter is_ell items) = 1 ->
  length (filter consuming (expand_at fill items)) = length (filter consuming items) + length (filter consuming fill).
Proof.
  induction items as [|it t IH]; simpl; intros E. discriminate.
  destruct it; simpl in *; try (rewrite IH by auto; lia).
  rewrite filter_app, app_length. lia.
Qed.

Lemma resolve_ok : forall items sh rs,
  resolve sh items = Some rs -> length (filter consuming items) = length sh -> rs_ok sh rs.
Proof.
  induction items as [|it t IH]; intros sh rs R L; simpl in *.
  - inversion R; subst. destruct sh; simpl in *; auto; discriminate.
  - destruct it as [z|a b c| | |l]; simpl in *.
    + destruct sh as [|d r]; try discriminate.
      destruct (norm_axis d z) as [k|] eqn:Ek; try discriminate.
      destruct (resolve r t) as [rs'|] eqn:Er; try discriminate. inversion R; subst. simpl. split.
      eapply norm_axis_lt; eauto. apply IH; auto.
    + destruct sh as [|d r]; try discriminate.
      destruct (slice_indices d a b c) as [[[st sp] len]|] eqn:Es; try discriminate.
      destruct (resolve r t) as [rs'|] eqn:Er; try discriminate. inversion R; subst. simpl. split.
      apply (slice_indices_bounds _ _ _ _ _ _ _ Es). apply IH; auto.
    + destruct (resolve sh t) as [rs'|] eqn:Er; try discriminate. inversion R; subst. simpl. apply IH; auto.
    + destruct (resolve sh t) as [rs'|] eqn:Er; try discriminate. inversion R; subst. simpl. apply IH; auto.
    + destruct sh as [|d r]; try discriminate.
      destruct (norm_axes d l) as [ks|] eqn:Ek; try discriminate.
      destruct (resolve r t) as [rs'|] eqn:Er; try discriminate. inversion R; subst. simpl. split.
      apply (norm_axes_spec _ _ _ Ek). apply IH; auto.
Qed.

Lemma expand_consuming n items ex :
  expand n items = Some ex -> length (filter consuming ex) = n.
Proof.
  unfold expand. destruct (Nat.ltb_spec 1 (length (filter is_ell items))); try discriminate.
  destruct (Nat.ltb_spec n (length (filter consuming items))); try discriminate.
  intros E; inversion E; subst; clear E.
  assert (Fl : forall k, length (filter consuming (repeat (ISlice None None None) k)) = k).
  { induction k; simpl; auto. }
  destruct (Nat.eqb_spec (length (filter is_ell items)) 1).
  - rewrite expand_at_consuming by auto. rewrite Fl. lia.
  - rewrite filter_app, app_length, Fl. lia.
Qed.

(* ------------------------------------------------------------------ walk stays in bounds *)
Lemma basic_shape_cons r rs : basic_shape (r :: rs) = out_axes r ++ basic_shape rs.
Proof. reflexivity. Qed.

Lemma walk_in t : forall rs sh j,
  rs_ok sh rs ->
  (forall l, In (RArr l) rs -> (length l = 1 \/ t < length l)) ->
  In j (idxs (basic_shape rs)) ->
  In (walk rs t j) (idxs sh).
Proof.
  induction rs as [|r rs IH]; intros sh j Ok Hl Hj.
  - cbn in Ok. subst. cbn. now left.
  - assert (Hl' : forall l, In (RArr l) rs -> length l = 1 \/ t < length l) by (intros l Hin; apply Hl; now right).
    rewrite basic_shape_cons in Hj.
    destruct r as [k|st sp len| | |l]; cbn [out_axes app rs_ok walk] in *.
    + destruct sh as [|d sh']; try contradiction. destruct Ok as [Hk Ok].
      apply in_idxs. constructor; auto. apply in_idxs. apply IH; auto.
    + destruct sh as [|d sh']; try contradiction. destruct Ok as [Hb Ok].
      apply in_idxs in Hj. inversion Hj as [|a len' j' rest Ha Hj']; subst.
      cbn [hd tl]. apply in_idxs. constructor.
      * specialize (Hb a Ha). lia.
      * apply in_idxs. apply IH; auto. now apply in_idxs.
    + apply in_idxs in Hj. inversion Hj as [|a one j' rest Ha Hj']; subst.
      cbn [tl]. apply IH; auto. now apply in_idxs.
    + apply IH; auto.
    + destruct sh as [|d sh']; try contradiction. destruct Ok as [Hb Ok].
      apply in_idxs. constructor.
      * destruct (Hl l (or_introl eq_refl)) as [E1|E2].
        -- rewrite E1. cbn. apply Hb. apply nth_In. lia.
        -- destruct (Nat.eqb_spec (length l) 1); apply Hb; apply nth_In; lia.
      * apply in_idxs. apply IH; auto.
Qed.

Lemma bcast_len_spec lens B : bcast_len lens = Some B -> forall l, In l lens -> l = 1 \/ l = B.
Proof.
  unfold bcast_len. intros E l Hl. destruct (Nat.eqb_spec l 1) as [|Hne]; auto. right.
  assert (Hin : In l (filter (fun l => negb (l =? 1)) lens)).
  { apply filter_In. split; auto. destruct (Nat.eqb_spec l 1); auto. }
  destruct (filter (fun l => negb (l =? 1)) lens) as [|b t]; try contradiction.
  destruct (forallb (Nat.eqb b) t) eqn:Fa; try discriminate. inversion E; subst.
  destruct Hin as [->|Hin]; auto. rewrite forallb_forall in Fa. specialize (Fa l Hin). apply Nat.eqb_eq in Fa. auto.
Qed.

Lemma arr_lens_in rs l : In (RArr l) rs -> In (length l) (arr_lens rs).
Proof.
  unfold arr_lens. intros Hin. apply in_flat_map. exists (RArr l). split; auto. now left.
Qed.

Lemma axes_before_adv_le rs : axes_before_adv rs <= length (basic_shape rs).
Proof.
  unfold basic_shape. induction rs as [|r rs IH]; simpl; auto.
  rewrite app_length. destruct (is_adv r); lia.
Qed.

(* membership in idxs of a shape with one axis inserted *)
Lemma in_idxs_insert pos B bs j : pos <= length bs ->
  In j (idxs (insert_at pos B bs)) -> nth pos j 0 < B /\ In (remove_at pos j) (idxs bs).
Proof.
  intros Hp Hj. apply in_idxs_nth in Hj as [Lj Bj]. rewrite length_insert_at in * by auto. split.
  - specialize (Bj pos ltac:(lia)). rewrite nth_insert_at in Bj by auto.
    rewrite Nat.ltb_irrefl, Nat.eqb_refl in Bj. auto.
  - apply in_idxs_nth. rewrite length_remove_at by lia. split. lia.
    intros k Hk. rewrite nth_remove_at. destruct (Nat.ltb_spec k pos).
    + specialize (Bj k ltac:(lia)). rewrite nth_insert_at in Bj by auto.
      destruct (Nat.ltb_spec k pos); try lia; auto.
    + specialize (Bj (S k) ltac:(lia)). rewrite nth_insert_at in Bj by auto.
      destruct (Nat.ltb_spec (S k) pos); try lia. destruct (Nat.eqb_spec (S k) pos); try lia.
      replace (S k - 1) with k in Bj by lia. lia.
Qed.

Lemma index_op_maps sh rs op : rs_ok sh rs -> index_op sh rs = Some op -> g_in op = sh /\ maps_into op.
Proof.
  intros Ok. unfold index_op. destruct (existsb is_arr rs) eqn:Ha.
  - destruct (bcast_len (arr_lens rs)) as [B|] eqn:Eb; try discriminate.
    intros E; inversion E; subst; clear E. cbn [g_in]. split; auto.
    set (pos := if contiguous rs then axes_before_adv rs else 0).
    assert (Hp : pos <= length (basic_shape rs)).
    { unfold pos. destruct (contiguous rs). apply axes_before_adv_le. lia. }
    intros j Hj. cbn [g_out g_phi g_in] in *. apply in_idxs_insert in Hj as [Ht Hj']; auto.
    eexists. split. reflexivity. apply walk_in; auto.
    intros l Hl. apply arr_lens_in in Hl. destruct (bcast_len_spec _ _ Eb _ Hl) as [E1|E2]; auto. right. lia.
  - intros E; inversion E; subst; clear E. cbn [g_in]. split; auto.
    intros j Hj. cbn [g_out g_phi g_in] in *. eexists. split. reflexivity. apply walk_in; auto.
    intros l Hl. exfalso.
    assert (X : existsb is_arr rs = true) by (apply existsb_exists; exists (RArr l); auto).
    congruence.
Qed.

Theorem index_maps_into sh items op : fwd_index sh items = Some op -> g_in op = sh /\ maps_into op.
Proof.
  unfold fwd_index. destruct (expand (length sh) items) as [ex|] eqn:Ex; try discriminate.
  destruct (resolve sh ex) as [rs|] eqn:Er; try discriminate.
  apply index_op_maps. apply (resolve_ok ex); auto. now apply expand_consuming in Ex.
Qed.
