(* Composition of the three parts of the engine model: the ordering loop (Proofs/DfsProofs.v, work package
   A1), the reverse sweep (Proofs/SweepProofs.v) and histories (Proofs/HistoryProofs.v).  Here the
   hypothesis [dfs_spec] of the sweep/history theorems is discharged, and the closed-form [expected] is
   unfolded into the readable case analysis used by Props/C03.v, C04.v, C17.v. *)
From Coq Require Import List Bool Arith Lia ZArith Permutation.
Import ListNotations.
From SG Require Import Engine.Graph Engine.Dfs Engine.Sweep Engine.History.
From SG Require Import Proofs.DfsAux Proofs.DfsProofs Proofs.SweepProofs Proofs.HistoryProofs Proofs.RelabelProofs.

Lemma filter_len_le {X} (f : X -> bool) l : length (filter f l) <= length l.
Proof. induction l as [|x l IH]; cbn [filter length]; [lia|]. destruct (f x); cbn [length]; lia. Qed.

Theorem dfs_spec_holds : dfs_spec.
Proof. exact dfs_total_spec. Qed.

(* the buffers after a call, case by case *)
Definition after_call (A : galg) (g : arena) (w : weights A) (mode : bool) (root : nat) (seed : V A)
  (b b' : bufs A) : Prop :=
  (forall v, reachable g root v -> req (getn g v) = true ->
     b' v = if releases g mode root v then None
            else Some (vadd A (leaf_part A g b v) (pathval A g w root v seed))) /\
  (forall v, ~ reachable g root v \/ req (getn g v) = false -> b' v = b v).

Lemma expected_after_call A g w mode root seed b b' : wf g ->
  (forall v, b' v = expected A g w mode root seed b v) -> after_call A g w mode root seed b b'.
Proof.
  intros Hwf H. split.
  - intros v Hr Hq. rewrite H. unfold expected.
    apply (reachb_iff g root v Hwf) in Hr. rewrite Hr, Hq. reflexivity.
  - intros v Hv. rewrite H. unfold expected. destruct Hv as [Hv|Hv].
    + destruct (reachb g root v) eqn:E; [|reflexivity]. apply (reachb_iff g root v Hwf) in E. tauto.
    + rewrite Hv, andb_false_r. reflexivity.
Qed.

(* the ordering loop calls zero_() at most once per iteration, hence at most  sum over reached nodes of (1 + #operands)  times *)
Lemma dstep_zlog g s s' : dstep g s = Some s' -> length (zlog s') <= S (length (zlog s)).
Proof.
  unfold dstep. destruct (stack s) as [|[n cs] rest]; [discriminate|].
  destruct cs as [|c cs].
  - intros H; inversion H; subst; cbn; lia.
  - destruct (mem c (vis s)); intros H; inversion H; subst; cbn [zlog];
      destruct (zeroes g (present s) c); cbn [length]; lia.
Qed.

Lemma drun_count_zlog g : forall fuel s k s' k',
  drun_count g fuel s k = Some (s', k') -> length (zlog s') + k <= length (zlog s) + k'.
Proof.
  induction fuel as [|f IH]; intros s k s' k' H; cbn [drun_count] in H.
  - destruct (dstep g s); [discriminate|]. inversion H; subst; lia.
  - destruct (dstep g s) as [s1|] eqn:E.
    + apply IH in H. apply dstep_zlog in E. lia.
    + inversion H; subst; lia.
Qed.

Theorem zero_calls_linear g root present0 ord z p : wf g -> root < length g ->
  dfs g root present0 (dfs_fuel g) = Some (ord, z, p) ->
  length z <= list_sum (map (fun n => 1 + length (children (getn g n))) ord).
Proof.
  intros Hwf Hroot Hd.
  destruct (dfs_visits_linear_ord g root present0 ord z p Hwf Hroot Hd) as [s [Hc _]].
  pose proof (drun_count_drun g (dfs_fuel g) (dinit g root present0) 0) as Hr. rewrite Hc in Hr. cbn [option_map fst] in Hr.
  unfold dfs in Hd. rewrite <- Hr in Hd. inversion Hd; subst. rewrite rev_length.
  apply drun_count_zlog in Hc. unfold dinit in Hc. cbn [zlog length] in Hc. lia.
Qed.

Section Closed.
Variable A : galg.
Hypothesis Aok : galg_ok A.

Theorem sweep_is_pathsum_any_order g (w : weights A) mode root seed ord z (b : bufs A) :
  wf g -> (forall n, node_ok (getn g n)) -> req (getn g root) = true ->
  is_postorder g root ord ->
  (forall c, In c z <-> (c <> root /\ reachable g root c /\ req (getn g c) = true /\
                         (b c = None \/ is_leaf (getn g c) = false))) ->
  exists b', run_sweep A g w mode root seed ord z b
             = Some (b', filter (fun n => has_fn (getn g n)) (rev ord)) /\
             after_call A g w mode root seed b b'.
Proof.
  intros Hwf Hok Hreq Hpo Hz.
  destruct (run_sweep_expected A Aok g w mode root seed Hwf Hok Hreq ord z b Hpo Hz) as [b' [H1 H2]].
  exists b'. split; [exact H1|]. apply expected_after_call; assumption.
Qed.

Theorem backward_is_pathsum g (w : weights A) mode root seed (b : bufs A) :
  wf g -> (forall n, node_ok (getn g n)) -> root < length g -> req (getn g root) = true ->
  exists b' ord, backward A g w mode root seed b = Some (b', filter (fun n => has_fn (getn g n)) (rev ord)) /\
    is_postorder g root ord /\ after_call A g w mode root seed b b'.
Proof.
  intros Hwf Hok Hroot Hreq.
  destruct (backward_expected A Aok g w mode root seed Hwf Hok Hreq b dfs_spec_holds Hroot) as [b' [ord [H1 [H2 H3]]]].
  exists b', ord. split; [exact H1|]. split; [exact H2|]. apply expected_after_call; assumption.
Qed.

Theorem backward_calls_linear g (w : weights A) mode root seed (b : bufs A) b' log :
  wf g -> (forall n, node_ok (getn g n)) -> root < length g ->
  backward A g w mode root seed b = Some (b', log) ->
  length log = length (filter (fun n => reachb g root n && has_fn (getn g n)) (seq 0 (length g))) /\
  length log <= length g.
Proof.
  intros Hwf Hok Hroot Hb.
  assert (Hreq : req (getn g root) = true).
  { unfold backward in Hb. destruct (req (getn g root)); [reflexivity|discriminate]. }
  destruct (backward_expected A Aok g w mode root seed Hwf Hok Hreq b dfs_spec_holds Hroot) as [b'' [ord [H1 [H2 _]]]].
  rewrite Hb in H1. inversion H1; subst.
  rewrite (calls_count g root Hwf ord Hroot H2). split; [reflexivity|].
  eapply Nat.le_trans; [apply filter_len_le|]. rewrite seq_length. lia.
Qed.

(* renumbering the tensors (another construction order of independent sub-expressions) changes no gradient *)
Theorem relabel_invariant g g' (pi : nat -> nat) (w w' : weights A) mode root seed (b b' b1 b1' : bufs A) l l' :
  wf g -> wf g' -> (forall n, node_ok (getn g n)) -> (forall n, node_ok (getn g' n)) ->
  (forall x y, x < length g -> y < length g -> pi x = pi y -> x = y) ->
  (forall n, n < length g ->
     children (getn g' (pi n)) = map pi (children (getn g n)) /\
     req (getn g' (pi n)) = req (getn g n) /\
     has_fn (getn g' (pi n)) = has_fn (getn g n) /\
     retain (getn g' (pi n)) = retain (getn g n)) ->
  (forall n k, n < length g -> w' (pi n) k = w n k) ->
  (forall n, n < length g -> b' (pi n) = b n) ->
  root < length g ->
  backward A g w mode root seed b = Some (b1, l) ->
  backward A g' w' mode (pi root) seed b' = Some (b1', l') ->
  forall v, v < length g -> b1' (pi v) = b1 v.
Proof.
  intros Hwf Hwf' Hok Hok' Hinj Hnode Hw Hb Hroot H1 H2 v Hv.
  assert (Hreq : req (getn g root) = true).
  { unfold backward in H1. destruct (req (getn g root)); [reflexivity|discriminate]. }
  assert (Hreq' : req (getn g' (pi root)) = true).
  { destruct (Hnode root Hroot) as [_ [Hr _]]. rewrite Hr. exact Hreq. }
  assert (Hroot' : pi root < length g').
  { destruct (lt_dec (pi root) (length g')) as [H|H]; [exact H|]. rewrite getn_overflow in Hreq' by lia. discriminate. }
  destruct (backward_expected A Aok g w mode root seed Hwf Hok Hreq b dfs_spec_holds Hroot) as [c1 [o1 [E1 [_ X1]]]].
  destruct (backward_expected A Aok g' w' mode (pi root) seed Hwf' Hok' Hreq' b' dfs_spec_holds Hroot') as [c2 [o2 [E2 [_ X2]]]].
  rewrite H1 in E1. rewrite H2 in E2. inversion E1; inversion E2; subst.
  rewrite X1, X2. apply (expected_relabel A Aok g g' pi w w' Hwf Hwf' Hinj Hnode Hw); assumption.
Qed.

End Closed.

(* scalar reading: one-element tensors *)
Theorem backward_is_pathsum_Z g (w : nat -> nat -> Z) mode root (seed : Z) (b : nat -> option Z) :
  wf g -> (forall n, node_ok (getn g n)) -> root < length g -> req (getn g root) = true ->
  exists b' log, backward ZAlg g w mode root seed b = Some (b', log) /\
    (forall v, reachable g root v -> req (getn g v) = true ->
       b' v = if releases g mode root v then None
              else Some (leaf_part ZAlg g b v + seed * pathsum g w root v)%Z) /\
    (forall v, ~ reachable g root v \/ req (getn g v) = false -> b' v = b v).
Proof.
  intros Hwf Hok Hroot Hreq.
  destruct (backward_is_pathsum ZAlg ZAlg_ok g w mode root seed b Hwf Hok Hroot Hreq) as [b' [ord [H1 [_ [H2 H3]]]]].
  exists b', (filter (fun n => has_fn (getn g n)) (rev ord)). split; [exact H1|]. split; [|exact H3].
  intros v Hr Hq. rewrite (H2 v Hr Hq). destruct (releases g mode root v); [reflexivity|].
  rewrite pathval_Z. reflexivity.
Qed.
