(* Axis permutations: movedim (np.moveaxis) and transpose (np.swapaxes).
   perm_op sh (map sigma (seq 0 n)) with sigma, tau mutually inverse on [0,n) reads out[j] = in[i] with
   i[a] = j[tau a]; its inverse is perm_op out (map tau (seq 0 n)).  For moveaxis sigma = mv s d and the
   key law is  mv d s (mv s d k) = k  for every pair s,d;  for swapaxes sigma = sw a b is an involution. *)
From Coq Require Import List Arith ZArith Lia Bool Permutation.
Import ListNotations.
From SG Require Import Base.Sums Base.Cmp NumPy.Gather NumPy.Index NumPy.Tensor NumPy.ViewsAux NumPy.Views NumPy.Spec.
From SG Require Import Proofs.ViewsAuxProofs Proofs.ViewsReshapeProofs.

(* mv s d / sw a b (NumPy/Spec.v): out axis k of moveaxis(s -> d) / swapaxes(a, b) is in axis mv s d k / sw a b k *)

Ltac casesb :=
  repeat match goal with
  | |- context[?a <? ?b] => destruct (Nat.ltb_spec a b)
  | |- context[?a =? ?b] => destruct (Nat.eqb_spec a b)
  | H : context[?a <? ?b] |- _ => destruct (Nat.ltb_spec a b)
  | H : context[?a =? ?b] |- _ => destruct (Nat.eqb_spec a b)
  end.

Lemma mv_lt n s d k : s < n -> d < n -> k < n -> mv s d k < n.
Proof. unfold mv. intros. casesb; lia. Qed.

(* the key law of movedim: moving the axis back is the inverse, whatever s and d *)
Lemma mv_mv n s d k : s < n -> d < n -> k < n -> mv d s (mv s d k) = k.
Proof. unfold mv. intros. casesb; lia. Qed.

Lemma sw_lt n a b k : a < n -> b < n -> k < n -> sw a b k < n.
Proof. unfold sw. intros. casesb; lia. Qed.
Lemma sw_sw a b k : sw a b (sw a b k) = k.
Proof. unfold sw. casesb; lia. Qed.
Lemma sw_comm a b k : sw a b k = sw b a k.
Proof. unfold sw. casesb; lia. Qed.

(* adjacent move = swap *)
Lemma mv_adjacent s d k : (s = S d \/ d = S s) -> mv s d k = sw s d k.
Proof. unfold mv, sw. intros. casesb; lia. Qed.

(* ------------------------------------------------------------------ pos_of on an enumerated permutation *)
Lemma pos_of_map_seq (sigma : nat -> nat) m : forall b k0,
  b <= k0 < b + m ->
  (forall k, b <= k < b + m -> sigma k = sigma k0 -> k = k0) ->
  pos_of (sigma k0) (map sigma (seq b m)) = k0 - b.
Proof.
  induction m as [|m IH]; intros b k0 Hk Inj. lia.
  simpl. destruct (Nat.eqb_spec (sigma k0) (sigma b)) as [E|E].
  - assert (b = k0) by (apply Inj; auto; lia). lia.
  - assert (b <> k0) by (intro; subst; auto).
    rewrite IH; try lia. intros k Hk' E'. apply Inj; auto. lia.
Qed.

Section Perm.
Variables (n : nat) (sigma tau : nat -> nat).
Hypothesis sigma_lt : forall k, k < n -> sigma k < n.
Hypothesis tau_lt : forall a, a < n -> tau a < n.
Hypothesis tau_sigma : forall k, k < n -> tau (sigma k) = k.
Hypothesis sigma_tau : forall a, a < n -> sigma (tau a) = a.

Lemma pos_of_perm a : a < n -> pos_of a (map sigma (seq 0 n)) = tau a.
Proof.
  intros Ha. rewrite <- (sigma_tau a Ha) at 1. rewrite pos_of_map_seq. lia.
  - specialize (tau_lt a Ha). lia.
  - intros k Hk E. rewrite <- (tau_sigma k) by lia. rewrite E. rewrite sigma_tau; auto.
Qed.

Variable sh : shape.
Hypothesis sh_len : length sh = n.

Let op := perm_op sh (map sigma (seq 0 n)).

Lemma perm_op_out : g_out op = map (fun k => nth (sigma k) sh 0) (seq 0 n).
Proof. unfold op, perm_op; cbn [g_out]. now rewrite map_map. Qed.

Lemma perm_op_out_nth k : k < n -> nth k (g_out op) 0 = nth (sigma k) sh 0.
Proof. intros Hk. rewrite perm_op_out. now rewrite nth_map_seq. Qed.

Lemma perm_op_out_len : length (g_out op) = n.
Proof. rewrite perm_op_out. now rewrite map_length, seq_length. Qed.

Lemma perm_op_phi j : g_phi op j = Some (map (fun a => nth (tau a) j 0) (seq 0 n)).
Proof.
  unfold op, perm_op; cbn [g_phi]. rewrite sh_len. f_equal. apply map_ext_in.
  intros a Ha. apply in_seq in Ha. rewrite pos_of_perm by lia. reflexivity.
Qed.

Lemma perm_op_maps j : In j (idxs (g_out op)) ->
  In (map (fun a => nth (tau a) j 0) (seq 0 n)) (idxs sh).
Proof.
  intros Hj. apply in_idxs_nth in Hj as [Lj Bj]. rewrite perm_op_out_len in *.
  apply in_idxs_nth. rewrite map_length, seq_length, sh_len. split; auto.
  intros a Ha. rewrite nth_map_seq by auto.
  specialize (Bj (tau a) (tau_lt a Ha)). rewrite perm_op_out_nth in Bj by auto. now rewrite sigma_tau in Bj.
Qed.

Lemma perm_op_permutes : permutes op sigma.
Proof.
  unfold permutes. change (g_in op) with sh. rewrite sh_len. split; [apply perm_op_out_len|]. split.
  - intros k Hk. split; auto. now apply perm_op_out_nth.
  - intros j Hj. eexists. split. apply perm_op_phi. split. now apply perm_op_maps.
    intros k Hk. rewrite nth_map_seq by auto. now rewrite tau_sigma.
Qed.
End Perm.

(* the two permutation ops are inverse to each other *)
Lemma perm_ops_half n sigma tau sh :
  (forall k, k < n -> sigma k < n) -> (forall a, a < n -> tau a < n) ->
  (forall k, k < n -> tau (sigma k) = k) -> (forall a, a < n -> sigma (tau a) = a) ->
  length sh = n ->
  let op := perm_op sh (map sigma (seq 0 n)) in
  let bop := perm_op (g_out op) (map tau (seq 0 n)) in
  g_out bop = sh /\
  forall j, In j (idxs (g_out op)) ->
    exists i, g_phi op j = Some i /\ In i (idxs sh) /\ g_phi bop i = Some j.
Proof.
  intros S T TS ST L op bop.
  assert (Lo : length (g_out op) = n) by (apply perm_op_out_len).
  split.
  - unfold bop. rewrite (perm_op_out n tau).
    transitivity (map (fun a => nth a sh 0) (seq 0 n)).
    + apply map_ext_in. intros a Ha. apply in_seq in Ha. unfold op. rewrite (perm_op_out_nth n sigma) by (apply T; lia).
      now rewrite ST by lia.
    + rewrite <- L. apply map_nth_seq.
  - intros j Hj. eexists. split. apply (perm_op_phi n sigma tau); auto. split. apply (perm_op_maps n sigma tau); auto.
    unfold bop. rewrite (perm_op_phi n tau sigma) by auto. f_equal.
    apply in_idxs_length in Hj. rewrite Lo in Hj.
    transitivity (map (fun k => nth k j 0) (seq 0 n)).
    + apply map_ext_in. intros k Hk. apply in_seq in Hk. rewrite nth_map_seq by (apply S; lia). now rewrite TS by lia.
    + rewrite <- Hj. apply map_nth_seq.
Qed.

Lemma perm_ops_inverse n sigma tau sh :
  (forall k, k < n -> sigma k < n) -> (forall a, a < n -> tau a < n) ->
  (forall k, k < n -> tau (sigma k) = k) -> (forall a, a < n -> sigma (tau a) = a) ->
  length sh = n ->
  let op := perm_op sh (map sigma (seq 0 n)) in
  inverse_ops op (perm_op (g_out op) (map tau (seq 0 n))).
Proof.
  intros S T TS ST L op.
  destruct (perm_ops_half n sigma tau sh S T TS ST L) as [Eo Hf]. fold op in Eo, Hf.
  assert (Lo : length (g_out op) = n) by (apply perm_op_out_len).
  destruct (perm_ops_half n tau sigma (g_out op) T S ST TS Lo) as [Eo' Hb].
  unfold inverse_ops. cbn [g_in perm_op]. split; auto. split; auto. split; auto.
  (* the op rebuilt from bop's output shape is op itself *)
  intros i Hi. fold op in Hb. rewrite Eo in Hb. destruct (Hb i Hi) as (j & E1 & Hj & E2).
  exists j. repeat split; auto.
Qed.

(* ------------------------------------------------------------------ np.moveaxis *)
Lemma filter_neq_all s l : (forall a, In a l -> a <> s) -> filter (fun a => negb (a =? s)) l = l.
Proof.
  induction l as [|x l IH]; intros F; simpl; auto.
  destruct (Nat.eqb_spec x s) as [E|E]. exfalso. apply (F x); simpl; auto.
  simpl. f_equal. apply IH. intros a Ha. apply F. now right.
Qed.

Lemma filter_neq_seq s : forall m b, b <= s < b + m ->
  filter (fun a => negb (a =? s)) (seq b m) = seq b (s - b) ++ seq (S s) (b + m - S s).
Proof.
  induction m as [|m IH]; intros b Hb. lia.
  cbn [seq filter]. destruct (Nat.eqb_spec b s) as [->|Hne]; cbn [negb].
  - rewrite Nat.sub_diag. cbn [seq app]. replace (s + S m - S s) with m by lia.
    apply filter_neq_all. intros a Ha. apply in_seq in Ha. lia.
  - rewrite IH by lia. replace (s - b) with (S (s - S b)) by lia. cbn [seq app].
    replace (S b + m - S s) with (b + S m - S s) by lia. reflexivity.
Qed.

Lemma moveaxis_order n s d : s < n -> d < n ->
  insert_at d s (filter (fun a => negb (a =? s)) (seq 0 n)) = map (mv s d) (seq 0 n).
Proof.
  intros Hs Hd. rewrite filter_neq_seq by lia. rewrite Nat.sub_0_r. simpl.
  assert (Len : length (seq 0 s ++ seq (S s) (n - S s)) = n - 1) by (rewrite app_length, !seq_length; lia).
  apply (nth_ext _ _ 0 0).
  - rewrite length_insert_at by lia. rewrite Len, map_length, seq_length. lia.
  - intros k Hk. rewrite length_insert_at in Hk by lia. rewrite Len in Hk.
    rewrite nth_insert_at by lia. rewrite nth_map_seq by lia. unfold mv.
    assert (G : forall k', k' < n - 1 -> nth k' (seq 0 s ++ seq (S s) (n - S s)) 0 = if k' <? s then k' else S k').
    { intros k' Hk'. destruct (Nat.ltb_spec k' s).
      - rewrite app_nth1 by (rewrite seq_length; lia). rewrite seq_nth; lia.
      - rewrite app_nth2 by (rewrite seq_length; lia). rewrite seq_length. rewrite seq_nth; lia. }
    destruct (Nat.eqb_spec k d); [subst; now rewrite Nat.ltb_irrefl|].
    destruct (Nat.ltb_spec k d); cbn zeta; apply G; lia.
Qed.

Lemma np_moveaxis_some sh s d op :
  np_moveaxis sh s d = Some op ->
  exists s' d', norm_axis (length sh) s = Some s' /\ norm_axis (length sh) d = Some d' /\
    s' < length sh /\ d' < length sh /\ op = perm_op sh (map (mv s' d') (seq 0 (length sh))).
Proof.
  unfold np_moveaxis. destruct (norm_axis (length sh) s) as [s'|] eqn:Es; try discriminate.
  destruct (norm_axis (length sh) d) as [d'|] eqn:Ed; try discriminate.
  intros E; inversion E; subst. exists s', d'.
  pose proof (norm_axis_lt _ _ _ Es). pose proof (norm_axis_lt _ _ _ Ed).
  repeat split; auto. now rewrite moveaxis_order.
Qed.

Lemma np_moveaxis_is_some sh s d s' d' :
  norm_axis (length sh) s = Some s' -> norm_axis (length sh) d = Some d' ->
  np_moveaxis sh s d = Some (perm_op sh (map (mv s' d') (seq 0 (length sh)))).
Proof.
  intros Es Ed. unfold np_moveaxis. rewrite Es, Ed.
  pose proof (norm_axis_lt _ _ _ Es). pose proof (norm_axis_lt _ _ _ Ed). now rewrite moveaxis_order.
Qed.

Theorem movedim_inverse sh s d op :
  fwd_movedim sh s d = Some op ->
  g_in op = sh /\ exists bop, bwd_movedim (g_out op) s d = Some bop /\ inverse_ops op bop.
Proof.
  unfold fwd_movedim, bwd_movedim. intros F.
  apply np_moveaxis_some in F as (s' & d' & Es & Ed & Hs & Hd & ->). split; auto.
  set (n := length sh) in *. set (op := perm_op sh (map (mv s' d') (seq 0 n))).
  assert (Lo : length (g_out op) = n) by (apply perm_op_out_len).
  exists (perm_op (g_out op) (map (mv d' s') (seq 0 n))). split.
  - rewrite <- Lo. apply np_moveaxis_is_some; now rewrite Lo.
  - apply perm_ops_inverse; auto; intros; try apply mv_lt; try apply (mv_mv n); auto.
Qed.

(* ------------------------------------------------------------------ np.swapaxes *)
Lemma np_swapaxes_some sh a b op :
  np_swapaxes sh a b = Some op ->
  exists a' b', norm_axis (length sh) a = Some a' /\ norm_axis (length sh) b = Some b' /\
    a' < length sh /\ b' < length sh /\ op = perm_op sh (map (sw a' b') (seq 0 (length sh))).
Proof.
  unfold np_swapaxes. destruct (norm_axis (length sh) a) as [a'|] eqn:Ea; try discriminate.
  destruct (norm_axis (length sh) b) as [b'|] eqn:Eb; try discriminate.
  intros E; inversion E; subst. exists a', b'.
  pose proof (norm_axis_lt _ _ _ Ea). pose proof (norm_axis_lt _ _ _ Eb). repeat split; auto.
Qed.

Theorem transpose_inverse sh a b op :
  fwd_transpose sh a b = Some op ->
  g_in op = sh /\ exists bop, bwd_transpose (g_out op) a b = Some bop /\ inverse_ops op bop.
Proof.
  unfold fwd_transpose, bwd_transpose. intros F.
  apply np_swapaxes_some in F as (a' & b' & Ea & Eb & Ha & Hb & ->). split; auto.
  set (n := length sh) in *. set (op := perm_op sh (map (sw a' b') (seq 0 n))).
  assert (Lo : length (g_out op) = n) by (apply perm_op_out_len).
  exists (perm_op (g_out op) (map (sw a' b') (seq 0 n))). split.
  - unfold np_swapaxes. rewrite Lo. fold n in Ea, Eb. now rewrite Ea, Eb.
  - apply perm_ops_inverse; auto; intros; try apply sw_lt; try apply sw_sw; auto.
Qed.
