(* C03, "independent of the order in which independent branches were built": renumbering the tensors of a recorded
   graph (the same ops applied in another creation order, so that every tensor gets another arena index but the
   same operands, flags and local derivatives) does not change any gradient.  [pi] maps old indices to new ones. *)
From Coq Require Import List Bool Arith Lia.
Import ListNotations.
From SG Require Import Engine.Graph Engine.Dfs Engine.Sweep Proofs.SweepProofs.

Lemma indexed_map {X Y} (f : X -> Y) (l : list X) :
  indexed (map f l) = map (fun kc => (fst kc, f (snd kc))) (indexed l).
Proof.
  unfold indexed. rewrite map_length. generalize 0 as s.
  induction l as [|x l IH]; intros s; cbn [length seq combine map]; [reflexivity|].
  rewrite IH. reflexivity.
Qed.

Section Relabel.
Variable A : galg.
Hypothesis Aok : galg_ok A.
Variables g g' : arena.
Variable pi : nat -> nat.
Variables w w' : weights A.
Hypothesis Hwf : wf g.
Hypothesis Hwf' : wf g'.
Hypothesis Hpi_inj : forall a b, a < length g -> b < length g -> pi a = pi b -> a = b.
Hypothesis Hnode : forall n, n < length g ->
  children (getn g' (pi n)) = map pi (children (getn g n)) /\
  req (getn g' (pi n)) = req (getn g n) /\
  has_fn (getn g' (pi n)) = has_fn (getn g n) /\
  retain (getn g' (pi n)) = retain (getn g n).
Hypothesis Hw : forall n k, n < length g -> w' (pi n) k = w n k.

Lemma pi_eqb a b : a < length g -> b < length g -> (pi a =? pi b) = (a =? b).
Proof.
  intros Ha Hb. destruct (a =? b) eqn:E.
  - apply Nat.eqb_eq in E. subst. apply Nat.eqb_refl.
  - apply Nat.eqb_neq. intros H. apply Nat.eqb_neq in E. apply E. apply Hpi_inj; assumption.
Qed.

Lemma PV_relabel : forall r, r < length g -> forall v s, v < length g ->
  PV A g' w' (pi r) (pi v) s = PV A g w r v s.
Proof.
  induction r as [r IH] using lt_wf_ind. intros Hr v s Hv.
  rewrite (PV_unfold A g' w' Hwf'), (PV_unfold A g w Hwf).
  destruct (Hnode r Hr) as [Hc [_ [Hf _]]].
  rewrite (pi_eqb r v Hr Hv), Hf. f_equal.
  destruct (has_fn (getn g r)); [|reflexivity].
  rewrite Hc, indexed_map, map_map. apply vsum_map_ext. intros kc Hkc. cbn [fst snd].
  apply in_indexed_snd in Hkc. pose proof (children_lt g r (snd kc) Hwf Hkc) as Hlt.
  assert (Hcl : snd kc < length g) by lia.
  destruct (Hnode (snd kc) Hcl) as [_ [Hrq _]]. rewrite Hrq.
  destruct (req (getn g (snd kc))); [|reflexivity].
  rewrite (Hw r (fst kc) Hr). apply IH; assumption.
Qed.

Lemma reach_relabel_fwd : forall r v, reachable g r v -> r < length g -> reachable g' (pi r) (pi v).
Proof.
  intros r v H. induction H as [n|n c m Hc Hr IH]; intros Hn; [constructor|].
  destruct (Hnode n Hn) as [Hch _].
  apply (reach_step g' (pi n) (pi c)).
  - rewrite Hch. apply in_map. exact Hc.
  - apply IH. apply (children_lt g n c Hwf) in Hc. lia.
Qed.

Lemma reach_relabel_bwd : forall x y, reachable g' x y -> forall r, r < length g -> x = pi r ->
  exists v, y = pi v /\ v < length g /\ reachable g r v.
Proof.
  intros x y H. induction H as [n|n c m Hc Hr IH]; intros r Hlt Hx.
  - exists r. split; [exact Hx|]. split; [exact Hlt|constructor].
  - subst n. destruct (Hnode r Hlt) as [Hch _]. rewrite Hch in Hc. apply in_map_iff in Hc.
    destruct Hc as [c0 [Hc0 Hin]]. pose proof (children_lt g r c0 Hwf Hin) as Hlt0.
    destruct (IH c0 ltac:(lia) (eq_sym Hc0)) as [v [Hy [Hv Hre]]].
    exists v. split; [exact Hy|]. split; [exact Hv|]. econstructor; eauto.
Qed.

Lemma reachb_relabel r v : r < length g -> v < length g -> reachb g' (pi r) (pi v) = reachb g r v.
Proof.
  intros Hr Hv. destruct (reachb g r v) eqn:E.
  - apply (reachb_iff g r v Hwf) in E. apply (reachb_iff g' _ _ Hwf'). apply reach_relabel_fwd; assumption.
  - destruct (reachb g' (pi r) (pi v)) eqn:E'; [|reflexivity].
    apply (reachb_iff g' _ _ Hwf') in E'.
    destruct (reach_relabel_bwd _ _ E' r Hr eq_refl) as [v0 [Hy [Hv0 Hre]]].
    apply Hpi_inj in Hy; [|assumption|assumption]. subst v0.
    apply (reachb_iff g r v Hwf) in Hre. congruence.
Qed.

(* the closed form of backward is invariant *)
Theorem expected_relabel mode root seed (b b' : bufs A) v :
  root < length g -> v < length g ->
  (forall n, n < length g -> b' (pi n) = b n) ->
  expected A g' w' mode (pi root) seed b' (pi v) = expected A g w mode root seed b v.
Proof.
  intros Hroot Hv Hb. unfold expected.
  rewrite (reachb_relabel root v Hroot Hv).
  destruct (Hnode v Hv) as [_ [Hrq [Hf Hrt]]]. rewrite Hrq.
  destruct (reachb g root v && req (getn g v)); [|apply Hb; exact Hv].
  unfold releases, is_leaf. rewrite (pi_eqb v root Hv Hroot), Hrq, Hf, Hrt.
  destruct (negb (v =? root) && negb (negb (req (getn g v)) || negb (has_fn (getn g v))) && negb (retain (getn g v)) && negb mode);
    [reflexivity|].
  f_equal. f_equal.
  - unfold leaf_part, is_leaf. rewrite Hrq, Hf, (Hb v Hv). reflexivity.
  - rewrite !(pathval_PV A Aok). apply PV_relabel; assumption.
Qed.

End Relabel.
