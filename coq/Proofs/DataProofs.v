(* Proofs about the model State/Data.v (property C18). *)
From Coq Require Import List Bool Arith ZArith QArith Qround Lia Permutation Sorted.
Import ListNotations.
From SG Require Import State.Data.
Local Open Scope nat_scope.

(* ------------------------------------------------------------------ list facts missing from Coq 8.16 *)
Lemma nth_error_firstn_lt {A} (l : list A) k j : j < k -> nth_error (firstn k l) j = nth_error l j.
Proof.
  revert k j; induction l as [|x l IH]; intros [|k] [|j] H; simpl; auto; try lia.
  apply IH. lia.
Qed.

Lemma nth_error_skipn_add {A} (l : list A) k j : nth_error (skipn k l) j = nth_error l (k + j).
Proof.
  revert l; induction k as [|k IH]; intros [|x l]; simpl; auto.
  destruct j; reflexivity.
Qed.

Lemma skipn_skipn' {A} (l : list A) a b : skipn a (skipn b l) = skipn (b + a) l.
Proof.
  revert l; induction b as [|b IH]; intro l; simpl; [reflexivity|].
  destruct l; [destruct a; reflexivity|]. apply IH.
Qed.

Lemma NoDup_app_disjoint {A} (a b : list A) : NoDup (a ++ b) -> forall x, In x a -> In x b -> False.
Proof.
  induction a as [|h a IH]; simpl; intros Hnd x Ha Hb; [contradiction|].
  inversion Hnd as [|? ? Hnotin Hnd']; subst.
  destruct Ha as [->|Ha].
  - apply Hnotin. apply in_or_app. right. exact Hb.
  - exact (IH Hnd' x Ha Hb).
Qed.

Lemma NoDup_app_l {A} (a b : list A) : NoDup (a ++ b) -> NoDup a.
Proof.
  induction a as [|h a IH]; simpl; intro H; [constructor|].
  inversion H as [|? ? Hn Hd]; subst. constructor.
  - intro Hin. apply Hn. apply in_or_app. left. exact Hin.
  - apply IH. exact Hd.
Qed.

Lemma NoDup_app_r {A} (a b : list A) : NoDup (a ++ b) -> NoDup b.
Proof.
  induction a as [|h a IH]; simpl; intro H; [exact H|].
  inversion H; subst. apply IH. assumption.
Qed.

(* ------------------------------------------------------------------ the floor rule on rationals *)
Lemma floor_size_spec (f : Q) (n : nat) :
  (inject_Z (floor_size f n) <= f * inject_Z (Z.of_nat n))%Q /\
  (f * inject_Z (Z.of_nat n) < inject_Z (floor_size f n + 1))%Q.
Proof. unfold floor_size. split; [apply Qfloor_le | apply Qlt_floor]. Qed.

Lemma floor_size_range (f : Q) (n : nat) :
  (0 <= f)%Q -> (f <= 1)%Q -> (0 <= floor_size f n <= Z.of_nat n)%Z.
Proof.
  intros H0 H1. unfold floor_size.
  assert (Hn : (0 <= inject_Z (Z.of_nat n))%Q).
  { change 0%Q with (inject_Z 0). rewrite <- Zle_Qle. lia. }
  split.
  - change 0%Z with (Qfloor (inject_Z 0)). apply Qfloor_resp_le.
    change (inject_Z 0) with 0%Q. apply Qmult_le_0_compat; assumption.
  - rewrite <- (Qfloor_Z (Z.of_nat n)) at 2. apply Qfloor_resp_le.
    rewrite <- (Qmult_1_l (inject_Z (Z.of_nat n))) at 2.
    apply Qmult_le_compat_r; assumption.
Qed.

Lemma floor_size_0 n : floor_size 0 n = 0%Z.
Proof. unfold floor_size. rewrite Qmult_0_l. reflexivity. Qed.

Lemma floor_size_1 n : floor_size 1 n = Z.of_nat n.
Proof. unfold floor_size. rewrite Qmult_1_l. apply Qfloor_Z. Qed.

(* ------------------------------------------------------------------ pick *)
Lemma pick_app {A} (X : list A) a b :
  pick X (a ++ b) = match pick X a, pick X b with
                    | Some ra, Some rb => Some (ra ++ rb)
                    | _, _ => None
                    end.
Proof.
  induction a as [|i a IH]; simpl.
  - destruct (pick X b); reflexivity.
  - rewrite IH. destruct (nth_error X i); [|reflexivity].
    destruct (pick X a); [|reflexivity]. destruct (pick X b); reflexivity.
Qed.

Lemma pick_in_range {A} (X : list A) idx :
  (forall i, In i idx -> i < length X) -> exists r, pick X idx = Some r.
Proof.
  induction idx as [|i idx IH]; simpl; intro H; [eauto|].
  destruct (nth_error X i) eqn:E.
  - destruct IH as [r ->]; [intros; apply H; auto|]. eauto.
  - apply nth_error_None in E. specialize (H i (or_introl eq_refl)). lia.
Qed.

Lemma pick_some_inv {A} (X : list A) idx r :
  pick X idx = Some r ->
  length r = length idx /\
  forall j, j < length idx -> exists i, nth_error idx j = Some i /\ nth_error r j = nth_error X i /\ i < length X.
Proof.
  revert r; induction idx as [|i idx IH]; simpl; intros r H.
  - inversion H; subst. split; [reflexivity|]. intros j Hj; lia.
  - destruct (nth_error X i) eqn:E; [|discriminate].
    destruct (pick X idx) as [r'|] eqn:E'; [|discriminate].
    inversion H; subst. destruct (IH r' eq_refl) as [Hl Hn]. split; [simpl; lia|].
    intros [|j] Hj; simpl.
    + exists i. repeat split; auto. apply nth_error_Some. congruence.
    + apply Hn. lia.
Qed.

Lemma pick_map {A} (X : list A) (d : A) idx r :
  pick X idx = Some r -> r = map (fun i => nth i X d) idx.
Proof.
  revert r; induction idx as [|i idx IH]; simpl; intros r H.
  - inversion H; reflexivity.
  - destruct (nth_error X i) eqn:E; [|discriminate].
    destruct (pick X idx) as [r'|] eqn:E'; [|discriminate].
    inversion H; subst. f_equal; [|apply IH; reflexivity].
    symmetry. apply nth_error_nth. exact E.
Qed.

Lemma map_nth_seq {A} (X : list A) (d : A) : map (fun i => nth i X d) (seq 0 (length X)) = X.
Proof.
  induction X as [|x X IH]; simpl; [reflexivity|].
  f_equal. rewrite <- seq_shift, map_map. exact IH.
Qed.

Lemma pick_seq_all {A} (X : list A) : pick X (seq 0 (length X)) = Some X.
Proof.
  destruct (pick_in_range X (seq 0 (length X))) as [r Hr].
  { intros i Hi. apply in_seq in Hi. lia. }
  rewrite Hr. f_equal.
  destruct X as [|d X']; [simpl in Hr; inversion Hr; reflexivity|].
  rewrite (pick_map _ d _ _ Hr). apply map_nth_seq.
Qed.

Lemma pick_perm {A} (X : list A) idx :
  Permutation idx (seq 0 (length X)) -> exists r, pick X idx = Some r /\ Permutation r X.
Proof.
  intro HP.
  destruct (pick_in_range X idx) as [r Hr].
  { intros i Hi. apply (Permutation_in _ HP) in Hi. apply in_seq in Hi. lia. }
  exists r. split; [exact Hr|].
  destruct X as [|d X'].
  - simpl in HP. apply Permutation_sym, Permutation_nil in HP. subst. simpl in Hr. inversion Hr. constructor.
  - rewrite (pick_map _ d _ _ Hr).
    eapply Permutation_trans; [apply Permutation_map; exact HP|].
    rewrite map_nth_seq. apply Permutation_refl.
Qed.

Lemma nth_error_combine {A B} (X : list A) (y : list B) i :
  nth_error (combine X y) i =
  match nth_error X i, nth_error y i with Some a, Some b => Some (a, b) | _, _ => None end.
Proof.
  revert y i; induction X as [|x X IH]; intros [|b y] [|i]; simpl; auto.
  - destruct (nth_error X i); reflexivity.
Qed.

Lemma pick_combine {A B} (X : list A) (y : list B) idx a b :
  pick X idx = Some a -> pick y idx = Some b -> pick (combine X y) idx = Some (combine a b).
Proof.
  revert a b; induction idx as [|i idx IH]; simpl; intros a b Ha Hb.
  - inversion Ha; inversion Hb; reflexivity.
  - rewrite nth_error_combine.
    destruct (nth_error X i); [|discriminate]. destruct (nth_error y i); [|discriminate].
    destruct (pick X idx) as [ra|]; [|discriminate]. destruct (pick y idx) as [rb|]; [|discriminate].
    rewrite (IH ra rb eq_refl eq_refl). inversion Ha; inversion Hb; reflexivity.
Qed.

Lemma pick_firstn_seq {A} (X : list A) k : pick X (firstn k (seq 0 (length X))) = Some (firstn k X).
Proof.
  pose proof (pick_seq_all X) as H.
  rewrite <- (firstn_skipn k (seq 0 (length X))) in H. rewrite pick_app in H.
  destruct (pick X (firstn k (seq 0 (length X)))) as [ra|] eqn:Ea; [|discriminate].
  destruct (pick X (skipn k (seq 0 (length X)))) as [rb|] eqn:Eb; [|discriminate].
  injection H as H1. f_equal.
  destruct (pick_some_inv _ _ _ Ea) as [La _].
  rewrite <- H1. rewrite firstn_app.
  rewrite La, firstn_length, seq_length.
  destruct (Nat.le_gt_cases k (length X)) as [Hk|Hk].
  - rewrite Nat.min_l by exact Hk.
    rewrite firstn_all2 by (rewrite La, firstn_length, seq_length; lia).
    replace (k - k) with 0 by lia. simpl. rewrite app_nil_r. reflexivity.
  - rewrite Nat.min_r by lia.
    rewrite firstn_all2 by (rewrite La, firstn_length, seq_length; lia).
    rewrite skipn_all2 in Eb by (rewrite seq_length; lia). simpl in Eb. inversion Eb; subst.
    simpl. rewrite firstn_nil. rewrite app_nil_r. reflexivity.
Qed.

Lemma pick_skipn_seq {A} (X : list A) k : pick X (skipn k (seq 0 (length X))) = Some (skipn k X).
Proof.
  pose proof (pick_seq_all X) as H.
  rewrite <- (firstn_skipn k (seq 0 (length X))) in H. rewrite pick_app in H.
  rewrite pick_firstn_seq in H.
  destruct (pick X (skipn k (seq 0 (length X)))) as [rb|] eqn:Eb; [|discriminate].
  injection H as H1. f_equal.
  rewrite <- (firstn_skipn k X) in H1 at 2.
  apply app_inv_head in H1. exact H1.
Qed.

(* ------------------------------------------------------------------ split_indices *)
Definition val_list (va : option (list nat)) : list nat := match va with Some v => v | None => [] end.

Lemma split_indices_concat idx kt kv :
  let '(tr, te, va) := split_indices idx kt kv in te ++ val_list va ++ tr = idx.
Proof.
  unfold split_indices. destruct kv as [kv|]; simpl.
  - rewrite (firstn_skipn kv (skipn kt idx)). apply firstn_skipn.
  - apply firstn_skipn.
Qed.

Lemma split_indices_sizes idx kt kv :
  kt <= length idx -> (forall k, kv = Some k -> k <= length idx - kt) ->
  let '(tr, te, va) := split_indices idx kt kv in
  length te = kt /\
  (match kv, va with Some k, Some v => length v = k | None, None => True | _, _ => False end) /\
  length tr = length idx - kt - (match kv with Some k => k | None => 0 end).
Proof.
  intros Hkt Hkv. unfold split_indices. destruct kv as [kv|].
  - specialize (Hkv kv eq_refl).
    rewrite firstn_length, firstn_length, !skipn_length. repeat split; lia.
  - rewrite firstn_length, skipn_length. repeat split; lia.
Qed.

(* every sample index lies in exactly one of the three index lists *)
Theorem split_indices_partition n idx kt kv :
  Permutation idx (seq 0 n) ->
  let '(tr, te, va) := split_indices idx kt kv in
  Permutation (te ++ val_list va ++ tr) (seq 0 n) /\
  NoDup (te ++ val_list va ++ tr) /\
  (forall i, In i te -> ~ In i (val_list va) /\ ~ In i tr) /\
  (forall i, In i (val_list va) -> ~ In i tr) /\
  (forall i, i < n -> In i te \/ In i (val_list va) \/ In i tr).
Proof.
  intro HP. pose proof (split_indices_concat idx kt kv) as Hc.
  destruct (split_indices idx kt kv) as [[tr te] va].
  assert (Hnd : NoDup (te ++ val_list va ++ tr)).
  { rewrite Hc. apply (Permutation_NoDup (Permutation_sym HP)). apply seq_NoDup. }
  split; [rewrite Hc; exact HP|]. split; [exact Hnd|]. split; [|split].
  - intros i Hi. split; intro Hj; apply (NoDup_app_disjoint _ _ Hnd i Hi); apply in_or_app; auto.
  - intros i Hi Hj. apply NoDup_app_r in Hnd. exact (NoDup_app_disjoint _ _ Hnd i Hi Hj).
  - intros i Hi. assert (Hin : In i (te ++ val_list va ++ tr)).
    { rewrite Hc. apply (Permutation_in _ (Permutation_sym HP)). apply in_seq. lia. }
    apply in_app_or in Hin. destruct Hin as [H|H]; [auto|].
    apply in_app_or in H. tauto.
Qed.

(* ------------------------------------------------------------------ split_dataset *)
Definition pairs {A B} (d : list A * list B) : list (A * B) := combine (fst d) (snd d).
Definition val_pairs {A B} (v : option (list A * list B)) : list (A * B) :=
  match v with Some d => pairs d | None => [] end.

Definition valid_perm (n : nat) (perm : option (list nat)) : Prop :=
  match perm with None => True | Some p => Permutation p (seq 0 n) end.

Lemma indices_perm n perm : valid_perm n perm -> Permutation (indices n perm) (seq 0 n).
Proof. destruct perm; simpl; auto. Qed.

Lemma pick2_some {A B} (X : list A) (y : list B) idx :
  length y = length X -> (forall i, In i idx -> i < length X) ->
  exists a b, pick X idx = Some a /\ pick y idx = Some b /\ pick2 X y idx = Some (a, b) /\
              length a = length idx /\ length b = length idx.
Proof.
  intros Hl Hr.
  destruct (pick_in_range X idx Hr) as [a Ha].
  destruct (pick_in_range y idx) as [b Hb]; [rewrite Hl; exact Hr|].
  exists a, b. unfold pick2. rewrite Ha, Hb. repeat split; auto.
  - apply (pick_some_inv _ _ _ Ha).
  - apply (pick_some_inv _ _ _ Hb).
Qed.

(* The main statement about split_dataset: it does not raise, the three sets have the given sizes,
   each set consists of the X- and y-entries at the SAME index list (pairing), and the multiset of
   (sample,label) pairs over the three sets is the multiset of the input pairs (every sample in exactly
   one set, none lost, none duplicated). *)
Theorem split_dataset_partition {A B} (X : list A) (y : list B) kt kv perm :
  length y = length X -> valid_perm (length X) perm ->
  kt <= length X -> (forall k, kv = Some k -> k <= length X - kt) ->
  exists r tr te va,
    split_dataset X y kt kv perm = Some r /\
    split_indices (indices (length X) perm) kt kv = (tr, te, va) /\
    pick2 X y tr = Some (s_train r) /\ pick2 X y te = Some (s_test r) /\
    (match va, s_val r with
     | Some v, Some d => pick2 X y v = Some d
     | None, None => kv = None
     | _, _ => False end) /\
    length (fst (s_test r)) = kt /\ length (snd (s_test r)) = kt /\
    (match kv, s_val r with
     | Some k, Some d => length (fst d) = k /\ length (snd d) = k
     | None, None => True | _, _ => False end) /\
    length (fst (s_train r)) = length X - kt - (match kv with Some k => k | None => 0 end) /\
    length (snd (s_train r)) = length (fst (s_train r)) /\
    Permutation (pairs (s_test r) ++ val_pairs (s_val r) ++ pairs (s_train r)) (combine X y).
Proof.
  intros Hl Hp Hkt Hkv.
  pose proof (indices_perm _ _ Hp) as HP.
  pose proof (split_indices_concat (indices (length X) perm) kt kv) as Hc.
  pose proof (split_indices_sizes (indices (length X) perm) kt kv) as Hs.
  rewrite (Permutation_length HP), seq_length in Hs. specialize (Hs Hkt Hkv).
  unfold split_dataset.
  destruct (split_indices (indices (length X) perm) kt kv) as [[tr te] va] eqn:E.
  assert (Hrange : forall i, In i (te ++ val_list va ++ tr) -> i < length X).
  { intros i Hi. rewrite Hc in Hi. apply (Permutation_in _ HP) in Hi. apply in_seq in Hi. lia. }
  destruct (pick2_some X y tr Hl) as (atr & btr & Ptr & Qtr & Rtr & Ltr & Mtr).
  { intros i Hi. apply Hrange. apply in_or_app. right. apply in_or_app. right. exact Hi. }
  destruct (pick2_some X y te Hl) as (ate & bte & Pte & Qte & Rte & Lte & Mte).
  { intros i Hi. apply Hrange. apply in_or_app. left. exact Hi. }
  destruct (pick2_some X y (val_list va) Hl) as (ava & bva & Pva & Qva & Rva & Lva & Mva).
  { intros i Hi. apply Hrange. apply in_or_app. right. apply in_or_app. left. exact Hi. }
  (* the pairs, as one pick over the whole index list *)
  assert (Hall : Permutation (combine ate bte ++ combine ava bva ++ combine atr btr) (combine X y)).
  { destruct (pick_perm (combine X y) (indices (length X) perm)) as [r [Hr HPr]].
    { rewrite combine_length, Hl, Nat.min_id. exact HP. }
    rewrite <- Hc in Hr. rewrite !pick_app in Hr.
    rewrite (pick_combine _ _ _ _ _ Pte Qte), (pick_combine _ _ _ _ _ Pva Qva), (pick_combine _ _ _ _ _ Ptr Qtr) in Hr.
    injection Hr as <-. exact HPr. }
  rewrite Rtr, Rte.
  destruct Hs as (Hs1 & Hs2 & Hs3).
  destruct va as [v|]; simpl val_list in *.
  - rewrite Rva. destruct kv as [k|]; [|contradiction].
    eexists _, tr, te, (Some v). split; [reflexivity|]. simpl.
    repeat split; auto; try lia.
  - destruct kv as [k|]; [contradiction|].
    simpl in Pva, Qva. injection Pva as <-. injection Qva as <-.
    eexists _, tr, te, None. split; [reflexivity|]. simpl.
    repeat split; auto; try lia.
Qed.

(* pairing, element-wise: position j of a set's samples and of its labels come from the same input index *)
Theorem pick2_aligned {A B} (X : list A) (y : list B) idx a b :
  pick2 X y idx = Some (a, b) ->
  length a = length idx /\ length b = length idx /\
  forall j, j < length idx ->
    exists i, nth_error idx j = Some i /\ i < length X /\ i < length y /\
              nth_error a j = nth_error X i /\ nth_error b j = nth_error y i.
Proof.
  unfold pick2. intro H.
  destruct (pick X idx) as [a'|] eqn:Ea; [|discriminate].
  destruct (pick y idx) as [b'|] eqn:Eb; [|discriminate].
  injection H as <- <-.
  destruct (pick_some_inv _ _ _ Ea) as [La Na]. destruct (pick_some_inv _ _ _ Eb) as [Lb Nb].
  repeat split; auto. intros j Hj.
  destruct (Na j Hj) as (i & Hi & Hai & Hli). destruct (Nb j Hj) as (i' & Hi' & Hbi & Hli').
  rewrite Hi in Hi'. injection Hi' as <-.
  exists i. repeat split; auto.
Qed.

(* shuffle off: original order, test = the first kt samples, validation the next kv, train the rest *)
Theorem split_noshuffle_order {A B} (X : list A) (y : list B) kt kv :
  length y = length X ->
  split_dataset X y kt kv None =
  Some {| s_train := (skipn (match kv with Some k => k | None => 0 end) (skipn kt X),
                      skipn (match kv with Some k => k | None => 0 end) (skipn kt y));
          s_test := (firstn kt X, firstn kt y);
          s_val := match kv with
                   | Some k => Some (firstn k (skipn kt X), firstn k (skipn kt y))
                   | None => None end |}.
Proof.
  intro Hl. unfold split_dataset, split_indices, indices, pick2.
  assert (Hs : forall {T} (Z : list T) a b, length Z = length X ->
             pick Z (skipn a (skipn b (seq 0 (length X)))) = Some (skipn a (skipn b Z))).
  { intros T Z a b HZ. rewrite <- HZ. rewrite !skipn_skipn'. apply pick_skipn_seq. }
  assert (Hf : forall {T} (Z : list T) a b, length Z = length X ->
             pick Z (firstn a (skipn b (seq 0 (length X)))) = Some (firstn a (skipn b Z))).
  { intros T Z a b HZ. rewrite <- HZ.
    pose proof (pick_skipn_seq Z b) as H.
    rewrite <- (firstn_skipn a (skipn b (seq 0 (length Z)))) in H. rewrite pick_app in H.
    destruct (pick Z (firstn a (skipn b (seq 0 (length Z))))) as [ra|] eqn:Ea; [|discriminate].
    destruct (pick Z (skipn a (skipn b (seq 0 (length Z))))) as [rb|] eqn:Eb; [|discriminate].
    injection H as H1. f_equal.
    rewrite skipn_skipn' in Eb. rewrite pick_skipn_seq in Eb. injection Eb as <-.
    rewrite <- (firstn_skipn a (skipn b Z)) in H1. rewrite skipn_skipn' in H1.
    apply app_inv_tail in H1. exact H1. }
  assert (Ht : forall {T} (Z : list T) a, length Z = length X ->
             pick Z (firstn a (seq 0 (length X))) = Some (firstn a Z)).
  { intros T Z a HZ. rewrite <- HZ. apply pick_firstn_seq. }
  destruct kv as [k|].
  - rewrite (Hs _ X k kt eq_refl), (Hs _ y k kt Hl).
    rewrite (Ht _ X kt eq_refl), (Ht _ y kt Hl).
    rewrite (Hf _ X k kt eq_refl), (Hf _ y k kt Hl). reflexivity.
  - change (skipn kt (seq 0 (length X))) with (skipn 0 (skipn kt (seq 0 (length X)))).
    rewrite (Hs _ X 0 kt eq_refl), (Hs _ y 0 kt Hl).
    rewrite (Ht _ X kt eq_refl), (Ht _ y kt Hl).
    reflexivity.
Qed.

(* ------------------------------------------------------------------ DataLoader *)
Lemma firstn_add {A} (l : list A) a b : firstn (a + b) l = firstn a l ++ firstn b (skipn a l).
Proof.
  revert l; induction a as [|a IH]; intro l; simpl; [reflexivity|].
  destruct l as [|x l]; [rewrite firstn_nil; reflexivity|]. simpl. f_equal. apply IH.
Qed.

Lemma nth_error_seq' a n i : i < n -> nth_error (seq a n) i = Some (a + i).
Proof.
  revert a i; induction n as [|n IH]; intros a [|i] H; simpl; try lia.
  - f_equal. lia.
  - rewrite IH by lia. f_equal. lia.
Qed.

Lemma nth_error_map' {A B} (f : A -> B) l i : nth_error (map f l) i = option_map f (nth_error l i).
Proof. revert i; induction l; intros [|i]; simpl; auto. Qed.

Section LoaderProofs.
  Context {A B : Type}.
  Implicit Types L : loader A B.

  Lemma slice_window {T} (l : list T) i b : slice l (i * b) (i * b + b) = window l i b.
  Proof. unfold slice, window. f_equal. lia. Qed.

  Lemma raw_batch_window L i :
    raw_batch L i = (window (LX L) i (bsize L), window (Ly L) i (bsize L)).
  Proof. unfold raw_batch. rewrite !slice_window. reflexivity. Qed.

  Lemma div_mul_le n b : b <> 0 -> (n / b) * b <= n.
  Proof. intro Hb. rewrite Nat.mul_comm. apply Nat.mul_div_le. exact Hb. Qed.

  Lemma window_length {T} (l : list T) i b : b <> 0 -> i < length l / b -> length (window l i b) = b.
  Proof.
    intros Hb Hi. unfold window. rewrite firstn_length, skipn_length.
    pose proof (div_mul_le (length l) b Hb) as H.
    assert ((i + 1) * b <= (length l / b) * b) by (apply Nat.mul_le_mono_r; lia). lia.
  Qed.

  Lemma window_nth {T} (l : list T) i b j : j < b -> nth_error (window l i b) j = nth_error l (i * b + j).
  Proof. intro Hj. unfold window. rewrite nth_error_firstn_lt by exact Hj. apply nth_error_skipn_add. Qed.

  Lemma windows_concat {T} (l : list T) b k :
    concat (map (fun i => window l i b) (seq 0 k)) = firstn (k * b) l.
  Proof.
    induction k as [|k IH]; [reflexivity|].
    rewrite seq_S, map_app, concat_app, IH. simpl. rewrite app_nil_r.
    replace (b + k * b) with (k * b + b) by lia. rewrite firstn_add. reflexivity.
  Qed.

  Definition tr_log L (ids : list nat) : list (batch A B) :=
    match transform L with None => [] | Some _ => map (raw_batch L) ids end.

  Lemma getitem_spec L i s :
    getitem L i s = (apply_tr L (raw_batch L i), {| cursor := cursor s; tlog := tlog s ++ tr_log L [i] |}).
  Proof.
    unfold getitem, apply_tr, tr_log. destruct (transform L); simpl; [reflexivity|].
    rewrite app_nil_r. destruct s; reflexivity.
  Qed.

  Lemma llen_pos L : bsize L <> 0 -> llen L = Some (length (Ly L) / bsize L).
  Proof. unfold llen. destruct (bsize L); [contradiction|reflexivity]. Qed.

  Lemma lstep_next L s h :
    bsize L <> 0 ->
    lstep L s (Next h) =
    if cursor s <? length (Ly L) / bsize L
    then (OBatch (apply_tr L (raw_batch L (cursor s))),
          {| cursor := S (cursor s); tlog := tlog s ++ tr_log L [cursor s] |})
    else (OStop, s).
  Proof.
    intro Hb. unfold lstep. rewrite (llen_pos L Hb).
    destruct (cursor s <? length (Ly L) / bsize L); [|reflexivity].
    rewrite getitem_spec. reflexivity.
  Qed.

  Lemma tr_log_app L a b : tr_log L (a ++ b) = tr_log L a ++ tr_log L b.
  Proof. unfold tr_log. destruct (transform L); [apply map_app|reflexivity]. Qed.

  Lemma drain_spec L :
    bsize L <> 0 ->
    forall fuel c t, c <= length (Ly L) / bsize L -> length (Ly L) / bsize L - c < fuel ->
      drain L fuel {| cursor := c; tlog := t |} =
      (Some (map (fun i => apply_tr L (raw_batch L i)) (seq c (length (Ly L) / bsize L - c))),
       {| cursor := length (Ly L) / bsize L;
          tlog := t ++ tr_log L (seq c (length (Ly L) / bsize L - c)) |}).
  Proof.
    intro Hb. set (n := length (Ly L) / bsize L).
    induction fuel as [|fuel IH]; intros c t Hc Hf; [lia|].
    cbn [drain]. rewrite (lstep_next L _ 0 Hb). cbn [cursor tlog]. fold n.
    destruct (c <? n) eqn:E.
    - apply Nat.ltb_lt in E. rewrite IH by lia.
      replace (n - c) with (S (n - S c)) by lia. cbn [seq map option_map].
      rewrite <- app_assoc. f_equal. f_equal. f_equal.
      rewrite <- tr_log_app. reflexivity.
    - apply Nat.ltb_ge in E. replace c with n by lia. rewrite Nat.sub_diag. simpl.
      unfold tr_log. destruct (transform L); simpl; rewrite app_nil_r; reflexivity.
  Qed.

  Lemma spec_batches_raw L :
    spec_batches L = map (fun i => apply_tr L (raw_batch L i)) (seq 0 (length (Ly L) / bsize L)).
  Proof. unfold spec_batches. apply map_ext. intro i. rewrite raw_batch_window. reflexivity. Qed.

  (* a complete `for` loop from ANY state yields exactly the floor(n/b) specified batches, in order;
     the transform is called once per batch, in order, on the raw batch (and never when it is None) *)
  Theorem for_loop_spec L s :
    bsize L <> 0 ->
    for_loop L s =
    (Some (spec_batches L),
     {| cursor := length (Ly L) / bsize L;
        tlog := tlog s ++ tr_log L (seq 0 (length (Ly L) / bsize L)) |}).
  Proof.
    intro Hb. unfold for_loop. cbn [lstep].
    pose proof (Nat.div_le_upper_bound (length (Ly L)) (bsize L) (length (Ly L)) Hb) as Hle.
    assert (Hq : length (Ly L) / bsize L <= length (Ly L)).
    { apply Hle. destruct (bsize L); [contradiction|]. simpl. lia. }
    rewrite (drain_spec L Hb) by lia.
    rewrite Nat.sub_0_r, spec_batches_raw. reflexivity.
  Qed.

  Theorem loader_reiterable L s (h : list lev) :
    bsize L <> 0 -> fst (for_loop L (snd (lrun L s h))) = Some (spec_batches L).
  Proof. intro Hb. rewrite for_loop_spec by exact Hb. reflexivity. Qed.

  (* in particular: an iteration abandoned after j batches, followed by a fresh one *)
  Corollary loader_abandoned_then_fresh L s j :
    bsize L <> 0 ->
    fst (for_loop L (snd (lrun L s (Iter :: repeat (Next 0) j)))) = Some (spec_batches L).
  Proof. apply loader_reiterable. Qed.

  (* the iterator handles are all the loader itself: outputs depend on the event stream only *)
  Definition forget (e : lev) : lev := match e with Next _ => Next 0 | e' => e' end.

  Theorem handles_share_cursor L s (h : list lev) : lrun L s (map forget h) = lrun L s h.
  Proof.
    revert s; induction h as [|e h IH]; intro s; [reflexivity|].
    cbn [map lrun]. assert (E : lstep L s (forget e) = lstep L s e) by (destruct e; reflexivity).
    rewrite E. destruct (lstep L s e) as [o s1]. rewrite IH. reflexivity.
  Qed.

  (* two interleaved iterations: after the inner loop completes, the outer iteration (which had consumed
     j batches) is exhausted as well — `for a in L: for b in L: ...` runs the outer body once *)
  Theorem interleaved_outer_exhausted L s j :
    bsize L <> 0 ->
    let s1 := snd (lrun L s (Iter :: repeat (Next 0) j)) in
    let s2 := snd (for_loop L s1) in
    fst (lstep L s2 (Next 0)) = OStop.
  Proof.
    intros Hb s1 s2. subst s2. rewrite for_loop_spec by exact Hb. cbn [snd].
    rewrite lstep_next by exact Hb. cbn [cursor]. rewrite Nat.ltb_irrefl. reflexivity.
  Qed.

  (* shape of the batches when no transform is given *)
  Theorem loader_batches L :
    bsize L <> 0 -> transform L = None -> length (LX L) = length (Ly L) ->
    let n := length (Ly L) in let b := bsize L in
    llen L = Some (n / b) /\
    length (spec_batches L) = n / b /\
    (forall i, i < n / b ->
       exists xb yb, nth_error (spec_batches L) i = Some (xb, yb) /\
         length xb = b /\ length yb = b /\
         forall j, j < b -> nth_error xb j = nth_error (LX L) (i * b + j) /\
                            nth_error yb j = nth_error (Ly L) (i * b + j) /\
                            i * b + j < n) /\
    concat (map fst (spec_batches L)) = firstn ((n / b) * b) (LX L) /\
    concat (map snd (spec_batches L)) = firstn ((n / b) * b) (Ly L) /\
    (n / b) * b <= n /\ n < (n / b) * b + b.
  Proof.
    intros Hb Ht Hl n b. subst n b.
    split; [apply llen_pos; exact Hb|].
    unfold spec_batches, apply_tr. rewrite Ht.
    split; [rewrite map_length, seq_length; reflexivity|].
    split; [|split; [|split]].
    - intros i Hi. eexists _, _. split.
      + rewrite nth_error_map', nth_error_seq' by exact Hi. reflexivity.
      + split; [apply window_length; [exact Hb|rewrite Hl; exact Hi]|].
        split; [apply window_length; [exact Hb|exact Hi]|].
        intros j Hj. split; [apply window_nth; exact Hj|]. split; [apply window_nth; exact Hj|].
        pose proof (div_mul_le (length (Ly L)) (bsize L) Hb).
        assert ((i + 1) * bsize L <= (length (Ly L) / bsize L) * bsize L) by (apply Nat.mul_le_mono_r; lia).
        lia.
    - rewrite map_map. cbn [fst]. apply windows_concat.
    - rewrite map_map. cbn [snd]. apply windows_concat.
    - split; [apply div_mul_le; exact Hb|].
      pose proof (Nat.div_mod (length (Ly L)) (bsize L) Hb).
      pose proof (Nat.mod_upper_bound (length (Ly L)) (bsize L) Hb). lia.
  Qed.

  (* with a transform f: batch i is f applied (once) to the raw window *)
  Theorem loader_transform L f i :
    transform L = Some f -> i < length (Ly L) / bsize L ->
    nth_error (spec_batches L) i = Some (f (window (LX L) i (bsize L), window (Ly L) i (bsize L))).
  Proof.
    intros Ht Hi. unfold spec_batches, apply_tr. rewrite Ht.
    rewrite nth_error_map', nth_error_seq' by exact Hi. reflexivity.
  Qed.

  Theorem loader_transform_log L s f :
    bsize L <> 0 -> transform L = Some f ->
    tlog (snd (for_loop L s)) =
    tlog s ++ map (fun i => (window (LX L) i (bsize L), window (Ly L) i (bsize L)))
                  (seq 0 (length (Ly L) / bsize L)).
  Proof.
    intros Hb Ht. rewrite for_loop_spec by exact Hb. cbn [snd tlog]. unfold tr_log. rewrite Ht.
    f_equal. apply map_ext. intro i. apply raw_batch_window.
  Qed.

  Theorem loader_no_transform_log L s :
    bsize L <> 0 -> transform L = None -> tlog (snd (for_loop L s)) = tlog s.
  Proof.
    intros Hb Ht. rewrite for_loop_spec by exact Hb. cbn [snd tlog]. unfold tr_log. rewrite Ht.
    apply app_nil_r.
  Qed.
End LoaderProofs.

(* ------------------------------------------------------------------ one_hot_encode *)
Local Open Scope Z_scope.

Lemma insert_uniq_In x l z : In z (insert_uniq x l) <-> z = x \/ In z l.
Proof.
  induction l as [|h t IH]; simpl.
  - intuition.
  - destruct (x <? h) eqn:E1; [simpl; intuition|].
    destruct (x =? h) eqn:E2.
    + apply Z.eqb_eq in E2. subst. simpl. intuition.
    + simpl. rewrite IH. intuition.
Qed.

Lemma insert_uniq_sorted x l : StronglySorted Z.lt l -> StronglySorted Z.lt (insert_uniq x l).
Proof.
  induction l as [|h t IH]; simpl; intro Hs.
  - constructor; constructor.
  - inversion Hs as [|? ? Ht Hall]; subst.
    destruct (x <? h) eqn:E1.
    + apply Z.ltb_lt in E1. constructor; [exact Hs|].
      constructor; [exact E1|]. rewrite Forall_forall in *. intros z Hz. specialize (Hall z Hz). lia.
    + destruct (x =? h) eqn:E2; [exact Hs|].
      apply Z.ltb_ge in E1. apply Z.eqb_neq in E2.
      constructor; [apply IH; exact Ht|].
      rewrite Forall_forall in *. intros z Hz. apply insert_uniq_In in Hz.
      destruct Hz as [->|Hz]; [lia|auto].
Qed.

Theorem uniques_In y z : In z (uniques y) <-> In z y.
Proof.
  induction y as [|a y IH]; simpl; [tauto|].
  rewrite insert_uniq_In, IH. intuition.
Qed.

Theorem uniques_sorted y : StronglySorted Z.lt (uniques y).
Proof. induction y; simpl; [constructor|apply insert_uniq_sorted; assumption]. Qed.

Lemma sorted_lt_NoDup l : StronglySorted Z.lt l -> NoDup l.
Proof.
  induction l as [|h t IH]; intro Hs; [constructor|].
  inversion Hs as [|? ? Ht Hall]; subst. constructor; [|auto].
  intro Hin. rewrite Forall_forall in Hall. specialize (Hall h Hin). lia.
Qed.

(* [uniques y] is THE strictly increasing list of the labels of y *)
Theorem sorted_lt_unique l1 l2 :
  StronglySorted Z.lt l1 -> StronglySorted Z.lt l2 -> (forall z, In z l1 <-> In z l2) -> l1 = l2.
Proof.
  revert l2; induction l1 as [|a l1 IH]; intros [|b l2] H1 H2 Hin.
  - reflexivity.
  - exfalso. apply (proj2 (Hin b)). left; reflexivity.
  - exfalso. apply (proj1 (Hin a)). left; reflexivity.
  - inversion H1 as [|? ? S1 A1]; inversion H2 as [|? ? S2 A2]; subst.
    rewrite Forall_forall in A1, A2.
    assert (a = b).
    { destruct (proj1 (Hin a) (or_introl eq_refl)) as [E|E]; [auto|].
      destruct (proj2 (Hin b) (or_introl eq_refl)) as [E'|E']; [auto|].
      specialize (A1 _ E'). specialize (A2 _ E). lia. }
    subst b. f_equal. apply IH; auto.
    intro z. split; intro Hz.
    + destruct (proj1 (Hin z) (or_intror Hz)) as [E|E]; [|exact E].
      subst z. specialize (A1 _ Hz). lia.
    + destruct (proj2 (Hin z) (or_intror Hz)) as [E|E]; [|exact E].
      subst z. specialize (A2 _ Hz). lia.
Qed.

Lemma index_of_In x l :
  In x l -> exists k, index_of x l = Some k /\ nth_error l k = Some x /\ (k < length l)%nat.
Proof.
  induction l as [|h t IH]; simpl; intro H; [contradiction|].
  destruct (x =? h) eqn:E.
  - apply Z.eqb_eq in E. subst. exists 0%nat. repeat split; auto. lia.
  - destruct H as [H|H]; [subst; rewrite Z.eqb_refl in E; discriminate|].
    destruct (IH H) as (k & Hk & Hn & Hl). exists (S k). rewrite Hk. repeat split; auto. lia.
Qed.

Lemma index_of_None x l : index_of x l = None -> ~ In x l.
Proof.
  induction l as [|h t IH]; simpl; intros H Hin; [exact Hin|].
  destruct (x =? h) eqn:E; [discriminate|].
  destruct (index_of x t); [discriminate|].
  destruct Hin as [->|Hin]; [rewrite Z.eqb_refl in E; discriminate|]. exact (IH eq_refl Hin).
Qed.

Local Open Scope nat_scope.

Lemma unit_row_length k i : length (unit_row k i) = k.
Proof. revert i; induction k as [|k IH]; intros [|i]; simpl; auto. rewrite repeat_length. reflexivity. Qed.

Lemma nth_error_repeat' {T} (a : T) n i : i < n -> nth_error (repeat a n) i = Some a.
Proof. revert i; induction n as [|n IH]; intros [|i] H; simpl; try lia; auto. apply IH. lia. Qed.

(* the row is the unit vector at position i: 1 there, 0 elsewhere *)
Lemma unit_row_nth k i j :
  i < k -> j < k -> nth_error (unit_row k i) j = Some (if j =? i then 1 else 0).
Proof.
  revert i j; induction k as [|k IH]; intros [|i] [|j] Hi Hj; simpl; try lia; auto.
  - apply nth_error_repeat'. lia.
  - apply IH; lia.
Qed.

Lemma count_occ_repeat_0 n : count_occ Nat.eq_dec (repeat 0 n) 1 = 0.
Proof. induction n; simpl; auto. Qed.

Lemma unit_row_one_1 k i : i < k -> count_occ Nat.eq_dec (unit_row k i) 1 = 1.
Proof.
  revert i; induction k as [|k IH]; intros [|i] Hi; simpl; try lia.
  - rewrite count_occ_repeat_0. reflexivity.
  - apply IH. lia.
Qed.

Lemma collect_map_some {T U} (f : T -> option U) l :
  (forall x, In x l -> exists u, f x = Some u) ->
  exists r, collect (map f l) = Some r /\ length r = length l /\
            forall i x, nth_error l i = Some x -> exists u, f x = Some u /\ nth_error r i = Some u.
Proof.
  induction l as [|a l IH]; simpl; intro H.
  - exists []. repeat split; auto. intros [|i] x Hx; discriminate.
  - destruct (H a (or_introl eq_refl)) as [u Hu]. rewrite Hu.
    destruct IH as (r & Hr & Hl & Hn); [intros; apply H; auto|].
    rewrite Hr. exists (u :: r). repeat split; simpl; auto.
    intros [|i] x Hx; simpl in *.
    + injection Hx as <-. eauto.
    + apply Hn. exact Hx.
Qed.

(* one_hot_encode never raises; row i is the unit vector at the index of label y_i among the sorted
   distinct labels; its length is the number of distinct labels; it contains exactly one 1 *)
Theorem one_hot_spec y :
  exists rows, one_hot y = Some rows /\ length rows = length y /\
    forall i label, nth_error y i = Some label ->
      exists k, index_of label (uniques y) = Some k /\
                nth_error (uniques y) k = Some label /\ k < length (uniques y) /\
                nth_error rows i = Some (unit_row (length (uniques y)) k) /\
                length (unit_row (length (uniques y)) k) = length (uniques y) /\
                count_occ Nat.eq_dec (unit_row (length (uniques y)) k) 1 = 1 /\
                forall j, j < length (uniques y) ->
                  nth_error (unit_row (length (uniques y)) k) j = Some (if j =? k then 1 else 0).
Proof.
  unfold one_hot.
  destruct (collect_map_some
              (fun label => option_map (unit_row (length (uniques y))) (index_of label (uniques y))) y)
    as (rows & Hr & Hl & Hn).
  { intros x Hx. apply uniques_In in Hx. destruct (index_of_In _ _ Hx) as (k & Hk & _). rewrite Hk. simpl. eauto. }
  exists rows. split; [exact Hr|]. split; [exact Hl|].
  intros i label Hi. destruct (Hn i label Hi) as (u & Hu & Hrow).
  assert (Hin : In label (uniques y)) by (apply uniques_In; eapply nth_error_In; eauto).
  destruct (index_of_In _ _ Hin) as (k & Hk & Hnth & Hlt).
  rewrite Hk in Hu. simpl in Hu. injection Hu as <-.
  exists k. repeat split; auto.
  - apply unit_row_length.
  - apply unit_row_one_1. exact Hlt.
  - intros j Hj. apply unit_row_nth; assumption.
Qed.

(* distinct labels get distinct rows, equal labels equal rows *)
Theorem one_hot_injective y a b ka kb :
  index_of a (uniques y) = Some ka -> index_of b (uniques y) = Some kb ->
  In a y -> In b y ->
  (unit_row (length (uniques y)) ka = unit_row (length (uniques y)) kb <-> a = b).
Proof.
  intros Ha Hb Ia Ib. split.
  - intro E. apply uniques_In in Ia. apply uniques_In in Ib.
    destruct (index_of_In _ _ Ia) as (k1 & H1 & N1 & L1). destruct (index_of_In _ _ Ib) as (k2 & H2 & N2 & L2).
    rewrite Ha in H1. rewrite Hb in H2. injection H1 as <-. injection H2 as <-.
    pose proof (unit_row_nth _ ka ka L1 L1) as P1. rewrite E in P1.
    rewrite (unit_row_nth _ kb ka L2 L1) in P1. rewrite Nat.eqb_refl in P1.
    destruct (ka =? kb) eqn:Q; [|discriminate]. apply Nat.eqb_eq in Q. subst kb.
    rewrite N1 in N2. injection N2; auto.
  - intros ->. rewrite Ha in Hb. injection Hb as ->. reflexivity.
Qed.

(* ------------------------------------------------------------------ label containers *)
Lemma labels_of_column y : labels_of (Column (map (fun x => [x]) y)) = Some y.
Proof.
  unfold labels_of. induction y as [|a y IH]; simpl; [reflexivity|].
  rewrite map_map in *. simpl in *. rewrite IH. reflexivity.
Qed.

(* an (n,1) container is encoded exactly like the (n,) list of its labels; a flat container like itself *)
Theorem one_hot_column y :
  one_hot_c (Column (map (fun x => [x]) y)) = one_hot y /\ one_hot_c (Flat y) = one_hot y.
Proof. unfold one_hot_c. rewrite labels_of_column. split; reflexivity. Qed.

Lemma labels_of_column_inv rows y :
  labels_of (Column rows) = Some y -> rows = map (fun x => [x]) y.
Proof.
  unfold labels_of. revert y; induction rows as [|r rows IH]; intros y H; simpl in H.
  - injection H as <-. reflexivity.
  - destruct r as [|x [|x' r']]; try discriminate.
    destruct (collect (map (fun r => match r with [x0] => Some x0 | _ => None end) rows)) as [t|] eqn:E; [|discriminate].
    simpl in H. injection H as <-. simpl. f_equal. apply IH. reflexivity.
Qed.
