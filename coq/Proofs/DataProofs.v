(* Proofs about the model State/Data.v (property C18). *)
From Coq Require Import List Bool Arith ZArith QArith Qround Lia Permutation Sorted.
Import ListNotations.
From SG Require Import State.Data.
Local Open Scope nat_scope.

(* ------------------------------------------------------------------ list facts missing from Coq 8.16 *)
Lemma nth_error_firstn_lt {A} (l : list A) k j : j < k -> nth_error (firstn k l) j = nth_error l j.
Proof.
  revert k j; induction l as [|x l IH]; intros [|k] [|j] H; simpl; auto; try lia.
  apply IH. lia.
Qed.

Lemma nth_error_skipn_add {A} (l : list A) k j : nth_error (skipn k l) j = nth_error l (k + j).
Proof.
  revert l; induction k as [|k IH]; intros [|x l]; simpl; auto.
  destruct j; reflexivity.
Qed.

Lemma skipn_skipn' {A} (l : list A) a b : skipn a (skipn b l) = skipn (b + a) l.
Proof.
  revert l; induction b as [|b IH]; intro l; simpl; [reflexivity|].
  destruct l; [destruct a; reflexivity|]. apply IH.
Qed.

Lemma NoDup_app_disjoint {A} (a b : list A) : NoDup (a ++ b) -> forall x, In x a -> In x b -> False.
Proof.
  induction a as [|h a IH]; simpl; intros Hnd x Ha Hb; [contradiction|].
  inversion Hnd as [|? ? Hnotin Hnd']; subst.
  destruct Ha as [->|Ha].
  - apply Hnotin. apply in_or_app. right. exact Hb.
  - exact (IH Hnd' x Ha Hb).
Qed.

Lemma NoDup_app_l {A} (a b : list A) : NoDup (a ++ b) -> NoDup a.
Proof.
  induction a as [|h a IH]; simpl; intro H; [constructor|].
  inversion H as [|? ? Hn Hd]; subst. constructor.
  - intro Hin. apply Hn. apply in_or_app. left. exact Hin.
  - apply IH. exact Hd.
Qed.

Lemma NoDup_app_r {A} (a b : list A) : NoDup (a ++ b) -> NoDup b.
Proof.
  induction a as [|h a IH]; simpl; intro H; [exact H|].
  inversion H; subst. apply IH. assumption.
Qed.

(* ------------------------------------------------------------------ the floor rule on rationals *)
Lemma floor_size_spec (f : Q) (n : nat) :
  (inject_Z (floor_size f n) <= f * inject_Z (Z.of_nat n))%Q /\
  (f * inject_Z (Z.of_nat n) < inject_Z (floor_size f n + 1))%Q.
Proof. unfold floor_size. split; [apply Qfloor_le | apply Qlt_floor]. Qed.

Lemma floor_size_range (f : Q) (n : nat) :
  (0 <= f)%Q -> (f <= 1)%Q -> (0 <= floor_size f n <= Z.of_nat n)%Z.
Proof.
  intros H0 H1. unfold floor_size.
  assert (Hn : (0 <= inject_Z (Z.of_nat n))%Q).
  { change 0%Q with (inject_Z 0). rewrite <- Zle_Qle. lia. }
  split.
  - change 0%Z with (Qfloor (inject_Z 0)). apply Qfloor_resp_le.
    change (inject_Z 0) with 0%Q. apply Qmult_le_0_compat; assumption.
  - rewrite <- (Qfloor_Z (Z.of_nat n)) at 2. apply Qfloor_resp_le.
    rewrite <- (Qmult_1_l (inject_Z (Z.of_nat n))) at 2.
    apply Qmult_le_compat_r; assumption.
Qed.

Lemma floor_size_0 n : floor_size 0 n = 0%Z.
Proof. unfold floor_size. rewrite Qmult_0_l. reflexivity. Qed.

Lemma floor_size_1 n : floor_size 1 n = Z.of_nat n.
Proof. unfold floor_size. rewrite Qmult_1_l. apply Qfloor_Z. Qed.

(* ------------------------------------------------------------------ pick *)
Lemma pick_app {A} (X : list A) a b :
  pick X (a ++ b) = match pick X a, pick X b with
                    | Some ra, Some rb => Some (ra ++ rb)
                    | _, _ => None
                    end.
Proof.
  induction a as [|i a IH]; simpl.
  - destruct (pick X b); reflexivity.
  - rewrite IH. destruct (nth_error X i); [|reflexivity].
    destruct (pick X a); [|reflexivity]. destruct (pick X b); reflexivity.
Qed.

Lemma pick_in_range {A} (X : list A) idx :
  (forall i, In i idx -> i < length X) -> exists r, pick X idx = Some r.
Proof.
  induction idx as [|i idx IH]; simpl; intro H; [eauto|].
  destruct (nth_error X i) eqn:E.
  - destruct IH as [r ->]; [intros; apply H; auto|]. eauto.
  - apply nth_error_None in E. specialize (H i (or_introl eq_refl)). lia.
Qed.

Lemma pick_some_inv {A} (X : list A) idx r :
  pick X idx = Some r ->
  length r = length idx /\
  forall j, j < length idx -> exists i, nth_error idx j = Some i /\ nth_error r j = nth_error X i /\ i < length X.
Proof.
  revert r; induction idx as [|i idx IH]; simpl; intros r H.
  - inversion H; subst. split; [reflexivity|]. intros j Hj; lia.
  - destruct (nth_error X i) eqn:E; [|discriminate].
    destruct (pick X idx) as [r'|] eqn:E'; [|discriminate].
    inversion H; subst. destruct (IH r' eq_refl) as [Hl Hn]. split; [simpl; lia|].
    intros [|j] Hj; simpl.
    + exists i. repeat split; auto. apply nth_error_Some. congruence.
    + apply Hn. lia.
Qed.

Lemma pick_map {A} (X : list A) (d : A) idx r :
  pick X idx = Some r -> r = map (fun i => nth i X d) idx.
Proof.
  revert r; induction idx as [|i idx IH]; simpl; intros r H.
  - inversion H; reflexivity.
  - destruct (nth_error X i) eqn:E; [|discriminate].
    destruct (pick X idx) as [r'|] eqn:E'; [|discriminate].
    inversion H; subst. f_equal; [|apply IH; reflexivity].
    symmetry. apply nth_error_nth. exact E.
Qed.

Lemma map_nth_seq {A} (X : list A) (d : A) : map (fun i => nth i X d) (seq 0 (length X)) = X.
Proof.
  induction X as [|x X IH]; simpl; [reflexivity|].
  f_equal. rewrite <- seq_shift, map_map. exact IH.
Qed.

Lemma pick_seq_all {A} (X : list A) : pick X (seq 0 (length X)) = Some X.
Proof.
  destruct (pick_in_range X (seq 0 (length X))) as [r Hr].
  { intros i Hi. apply in_seq in Hi. lia. }
  rewrite Hr. f_equal.
  destruct X as [|d X']; [simpl in Hr; inversion Hr; reflexivity|].
  rewrite (pick_map _ d _ _ Hr). apply map_nth_seq.
Qed.

Lemma pick_perm {A} (X : list A) idx :
  Permutation idx (seq 0 (length X)) -> exists r, pick X idx = Some r /\ Permutation r X.
Proof.
  intro HP.
  destruct (pick_in_range X idx) as [r Hr].
  { intros i Hi. apply (Permutation_in _ HP) in Hi. apply in_seq in Hi. lia. }
  exists r. split; [exact Hr|].
  destruct X as [|d X'].
  - simpl in HP. apply Permutation_sym, Permutation_nil in HP. subst. simpl in Hr. inversion Hr. constructor.
  - rewrite (pick_map _ d _ _ Hr).
    eapply Permutation_trans; [apply Permutation_map; exact HP|].
    rewrite map_nth_seq. apply Permutation_refl.
Qed.

Lemma nth_error_combine {A B} (X : list A) (y : list B) i :
  nth_error (combine X y) i =
  match nth_error X i, nth_error y i with Some a, Some b => Some (a, b) | _, _ => None end.
Proof.
  revert y i; induction X as [|x X IH]; intros [|b y] [|i]; simpl; auto.
  - destruct (nth_error X i); reflexivity.
Qed.

Lemma pick_combine {A B} (X : list A) (y : list B) idx a b :
  pick X idx = Some a -> pick y idx = Some b -> pick (combine X y) idx = Some (combine a b).
Proof.
  revert a b; induction idx as [|i idx IH]; simpl; intros a b Ha Hb.
  - inversion Ha; inversion Hb; reflexivity.
  - rewrite nth_error_combine.
    destruct (nth_error X i); [|discriminate]. destruct (nth_error y i); [|discriminate].
    destruct (pick X idx) as [ra|]; [|discriminate]. destruct (pick y idx) as [rb|]; [|discriminate].
    rewrite (IH ra rb eq_refl eq_refl). inversion Ha; inversion Hb; reflexivity.
Qed.

Lemma pick_firstn_seq {A} (X : list A) k : pick X (firstn k (seq 0 (length X))) = Some (firstn k X).
Proof.
  pose proof (pick_seq_all X) as H.
  rewrite <- (firstn_skipn k (seq 0 (length X))) in H. rewrite pick_app in H.
  destruct (pick X (firstn k (seq 0 (length X)))) as [ra|] eqn:Ea; [|discriminate].
  destruct (pick X (skipn k (seq 0 (length X)))) as [rb|] eqn:Eb; [|discriminate].
  injection H as H1. f_equal.
  destruct (pick_some_inv _ _ _ Ea) as [La _].
  rewrite <- H1. rewrite firstn_app.
  rewrite La, firstn_length, seq_length.
  destruct (Nat.le_gt_cases k (length X)) as [Hk|Hk].
  - rewrite Nat.min_l by exact Hk.
    rewrite firstn_all2 by (rewrite La, firstn_length, seq_length; lia).
    replace (k - k) with 0 by lia. simpl. rewrite app_nil_r. reflexivity.
  - rewrite Nat.min_r by lia.
    rewrite firstn_all2 by (rewrite La, firstn_length, seq_length; lia).
    rewrite skipn_all2 in Eb by (rewrite seq_length; lia). simpl in Eb. inversion Eb; subst.
    simpl. rewrite firstn_nil. rewrite app_nil_r. reflexivity.
Qed.

Lemma pick_skipn_seq {A} (X : list A) k : pick X (skipn k (seq 0 (length X))) = Some (skipn k X).
Proof.
  pose proof (pick_seq_all X) as H.
  rewrite <- (firstn_skipn k (seq 0 (length X))) in H. rewrite pick_app in H.
  rewrite pick_firstn_seq in H.
  destruct (pick X (skipn k (seq 0 (length X)))) as [rb|] eqn:Eb; [|discriminate].
  injection H as H1. f_equal.
  rewrite <- (firstn_skipn k X) in H1 at 2.
  apply app_inv_head in H1. exact H1.
Qed.

(* ------------------------------------------------------------------ split_indices *)
Definition val_list (va : option (list nat)) : list nat := match va with Some v => v | None => [] end.

Lemma split_indices_concat idx kt kv :
  let '(tr, te, va) := split_indices idx kt kv in te ++ val_list va ++ tr = idx.
Proof.
  unfold split_indices. destruct kv as [kv|]; simpl.
  - rewrite (firstn_skipn kv (skipn kt idx)). apply firstn_skipn.
  - apply firstn_skipn.
Qed.

Lemma split_indices_sizes idx kt kv :
  kt <= length idx -> (forall k, kv = Some k -> k <= length idx - kt) ->
  let '(tr, te, va) := split_indices idx kt kv in
  length te = kt /\
  (match kv, va with Some k, Some v => length v = k | None, None => True | _, _ => False end) /\
  length tr = length idx - kt - (match kv with Some k => k | None => 0 end).
Proof.
  intros Hkt Hkv. unfold split_indices. destruct kv as [kv|].
  - specialize (Hkv kv eq_refl).
    rewrite firstn_length, firstn_length, !skipn_length. repeat split; lia.
  - rewrite firstn_length, skipn_length. repeat split; lia.
Qed.

(* every sample index lies in exactly one of the three index lists *)
Theorem split_indices_partition n idx kt kv :
  Permutation idx (seq 0 n) ->
  let '(tr, te, va) := split_indices idx kt kv in
  Permutation (te ++ val_list va ++ tr) (seq 0 n) /\
  NoDup (te ++ val_list va ++ tr) /\
  (forall i, In i te -> ~ In i (val_list va) /\ ~ In i tr) /\
  (forall i, In i (val_list va) -> ~ In i tr) /\
  (forall i, i < n -> In i te \/ In i (val_list va) \/ In i tr).
Proof.
  intro HP. pose proof (split_indices_concat idx kt kv) as Hc.
  destruct (split_indices idx kt kv) as [[tr te] va].
  assert (Hnd : NoDup (te ++ val_list va ++ tr)).
  { rewrite Hc. apply (Permutation_NoDup (Permutation_sym HP)). apply seq_NoDup. }
  split; [rewrite Hc; exact HP|]. split; [exact Hnd|]. split; [|split].
  - intros i Hi. split; intro Hj; apply (NoDup_app_disjoint _ _ Hnd i Hi); apply in_or_app; auto.
  - intros i Hi Hj. apply NoDup_app_r in Hnd. exact (NoDup_app_disjoint _ _ Hnd i Hi Hj).
  - intros i Hi. assert (Hin : In i (te ++ val_list va ++ tr)).
    { rewrite Hc. apply (Permutation_in _ (Permutation_sym HP)). apply in_seq. lia. }
    apply in_app_or in Hin. destruct Hin as [H|H]; [auto|].
    apply in_app_or in H. tauto.
Qed.

(* ------------------------------------------------------------------ split_dataset *)
Definition pairs {A B} (d : list A * list B) : list (A * B) := combine (fst d) (snd d).
Definition val_pairs {A B} (v : option (list A * list B)) : list (A * B) :=
  match v with Some d => pairs d | None => [] end.

Definition valid_perm (n : nat) (perm : option (list nat)) : Prop :=
  match perm with None => True | Some p => Permutation p (seq 0 n) end.

Lemma indices_perm n perm : valid_perm n perm -> Permutation (indices n perm) (seq 0 n).
Proof. destruct perm; simpl; auto. Qed.

Lemma pick2_some {A B} (X : list A) (y : list B) idx :
  length y = length X -> (forall i, In i idx -> i < length X) ->
  exists a b, pick X idx = Some a /\ pick y idx = Some b /\ pick2 X y idx = Some (a, b) /\
              length a = length idx /\ length b = length idx.
Proof.
  intros Hl Hr.
  destruct (pick_in_range X idx Hr) as [a Ha].
  destruct (pick_in_range y idx) as [b Hb]; [rewrite Hl; exact Hr|].
  exists a, b. unfold pick2. rewrite Ha, Hb. repeat split; auto.
  - apply (pick_some_inv _ _ _ Ha).
  - apply (pick_some_inv _ _ _ Hb).
Qed.

(* The main statement about split_dataset: it does not raise, the three sets have the given sizes,
   each set consists of the X- and y-entries at the SAME index list (pairing), and the multiset of
   (sample,label) pairs over the three sets is the multiset of the input pairs (every sample in exactly
   one set, none lost, none duplicated). *)
Theorem split_dataset_partition {A B} (X : list A) (y : list B) kt kv perm :
  length y = length X -> valid_perm (length X) perm ->
  kt <= length X -> (forall k, kv = Some k -> k <= length X - kt) ->
  exists r tr te va,
    split_dataset X y kt kv perm = Some r /\
    split_indices (indices (length X) perm) kt kv = (tr, te, va) /\
    pick2 X y tr = Some (s_train r) /\ pick2 X y te = Some (s_test r) /\
    (match va, s_val r with
     | Some v, Some d => pick2 X y v = Some d
     | None, None => kv = None
     | _, _ => False end) /\
    length (fst (s_test r)) = kt /\ length (snd (s_test r)) = kt /\
    (match kv, s_val r with
     | Some k, Some d => length (fst d) = k /\ length (snd d) = k
     | None, None => True | _, _ => False end) /\
    length (fst (s_train r)) = length X - kt - (match kv with Some k => k | None => 0 end) /\
    length (snd (s_train r)) = length (fst (s_train r)) /\
    Permutation (pairs (s_test r) ++ val_pairs (s_val r) ++ pairs (s_train r)) (combine X y).
Proof.
  intros Hl Hp Hkt Hkv.
  pose proof (indices_perm _ _ Hp) as HP.
  pose proof (split_indices_concat (indices (length X) perm) kt kv) as Hc.
  pose proof (split_indices_sizes (indices (length X) perm) kt kv) as Hs.
  rewrite (Permutation_length HP), seq_length in Hs. specialize (Hs Hkt Hkv).
  unfold split_dataset.
  destruct (split_indices (indices (length X) perm) kt kv) as [[tr te] va] eqn:E.
  assert (Hrange : forall i, In i (te ++ val_list va ++ tr) -> i < length X).
  { intros i Hi. rewrite Hc in Hi. apply (Permutation_in _ HP) in Hi. apply in_seq in Hi. lia. }
  destruct (pick2_some X y tr Hl) as (atr & btr & Ptr & Qtr & Rtr & Ltr & Mtr).
  { intros i Hi. apply Hrange. apply in_or_app. right. apply in_or_app. right. exact Hi. }
  destruct (pick2_some X y te Hl) as (ate & bte & Pte & Qte & Rte & Lte & Mte).
  { intros i Hi. apply Hrange. apply in_or_app. left. exact Hi. }
  destruct (pick2_some X y (val_list va) Hl) as (ava & bva & Pva & Qva & Rva & Lva & Mva).
  { intros i Hi. apply Hrange. apply in_or_app. right. apply in_or_app. left. exact Hi. }
  (* the pairs, as one pick over the whole index list *)
  assert (Hall : Permutation (combine ate bte ++ combine ava bva ++ combine atr btr) (combine X y)).
  { destruct (pick_perm (combine X y) (indices (length X) perm)) as [r [Hr HPr]].
    { rewrite combine_length, Hl, Nat.min_id. exact HP. }
    rewrite <- Hc in Hr. rewrite !pick_app in Hr.
    rewrite (pick_combine _ _ _ _ _ Pte Qte), (pick_combine _ _ _ _ _ Pva Qva), (pick_combine _ _ _ _ _ Ptr Qtr) in Hr.
    injection Hr as <-. exact HPr. }
  rewrite Rtr, Rte.
  destruct Hs as (Hs1 & Hs2 & Hs3).
  destruct va as [v|]; simpl val_list in *.
  - rewrite Rva. destruct kv as [k|]; [|contradiction].
    eexists _, tr, te, (Some v). split; [reflexivity|]. simpl.
    repeat split; auto; try lia.
  - destruct kv as [k|]; [contradiction|].
    simpl in Pva, Qva. injection Pva as <-. injection Qva as <-.
    eexists _, tr, te, None. split; [reflexivity|]. simpl.
    repeat split; auto; try lia.
Qed.

(* pairing, element-wise: position j of a set's samples and of its labels come from the same input index *)
Theorem pick2_aligned {A B} (X : list A) (y : list B) idx a b :
  pick2 X y idx = Some (a, b) ->
  length a = length idx /\ length b = length idx /\
  forall j, j < length idx ->
    exists i, nth_error idx j = Some i /\ i < length X /\ i < length y /\
              nth_error a j = nth_error X i /\ nth_error b j = nth_error y i.
Proof.
  unfold pick2. intro H.
  destruct (pick X idx) as [a'|] eqn:Ea; [|discriminate].
  destruct (pick y idx) as [b'|] eqn:Eb; [|discriminate].
  injection H as <- <-.
  destruct (pick_some_inv _ _ _ Ea) as [La Na]. destruct (pick_some_inv _ _ _ Eb) as [Lb Nb].
  repeat split; auto. intros j Hj.
  destruct (Na j Hj) as (i & Hi & Hai & Hli). destruct (Nb j Hj) as (i' & Hi' & Hbi & Hli').
  rewrite Hi in Hi'. injection Hi' as <-.
  exists i. repeat split; auto.
Qed.

(* shuffle off: original order, test = the first kt samples, validation the next kv, train the rest *)
Theorem split_noshuffle_order {A B} (X : list A) (y : list B) kt kv :
  length y = length X ->
  split_dataset X y kt kv None =
  Some {| s_train := (skipn (match kv with Some k => k | None => 0 end) (skipn kt X),
                      skipn (match kv with Some k => k | None => 0 end) (skipn kt y));
          s_test := (firstn kt X, firstn kt y);
          s_val := match kv with
                   | Some k => Some (firstn k (skipn kt X), firstn k (skipn kt y))
                   | None => None end |}.
Proof.
  intro Hl. unfold split_dataset, split_indices, indices, pick2.
  assert (Hs : forall {T} (Z : list T) a b, length Z = length X ->
             pick Z (skipn a (skipn b (seq 0 (length X)))) = Some (skipn a (skipn b Z))).
  { intros T Z a b HZ. rewrite <- HZ. rewrite !skipn_skipn'. apply pick_skipn_seq. }
  assert (Hf : forall {T} (Z : list T) a b, length Z = length X ->
             pick Z (firstn a (skipn b (seq 0 (length X)))) = Some (firstn a (skipn b Z))).
  { intros T Z a b HZ. rewrite <- HZ.
    pose proof (pick_skipn_seq Z b) as H.
    rewrite <- (firstn_skipn a (skipn b (seq 0 (length Z)))) in H. rewrite pick_app in H.
    destruct (pick Z (firstn a (skipn b (seq 0 (length Z))))) as [ra|] eqn:Ea; [|discriminate].
    destruct (pick Z (skipn a (skipn b (seq 0 (length Z))))) as [rb|] eqn:Eb; [|discriminate].
    injection H as H1. f_equal.
    rewrite skipn_skipn' in Eb. rewrite pick_skipn_seq in Eb. injection Eb as <-.
    rewrite <- (firstn_skipn a (skipn b Z)) in H1. rewrite skipn_skipn' in H1.
    apply app_inv_tail in H1. exact H1. }
  assert (Ht : forall {T} (Z : list T) a, length Z = length X ->
             pick Z (firstn a (seq 0 (length X))) = Some (firstn a Z)).
  { intros T Z a HZ. rewrite <- HZ. apply pick_firstn_seq. }
  destruct kv as [k|].
  - rewrite (Hs _ X k kt eq_refl), (Hs _ y k kt Hl).
    rewrite (Ht _ X kt eq_refl), (Ht _ y kt Hl).
    rewrite (Hf _ X k kt eq_refl), (Hf _ y k kt Hl). reflexivity.
  - change (skipn kt (seq 0 (length X))) with (skipn 0 (skipn kt (seq 0 (length X)))).
    rewrite (Hs _ X 0 kt eq_refl), (Hs _ y 0 kt Hl).
    rewrite (Ht _ X kt eq_refl), (Ht _ y kt Hl).
    reflexivity.
Qed.
