(* Proofs about State/Trainer.v (property C20), part 1: the event trace of fit. *)
From Coq Require Import List Bool Arith Lia.
Import ListNotations.
From SG Require Import State.Contexts Proofs.ContextsProofs State.Trainer.

Arguments val_batch : simpl never.
Arguments train_batch : simpl never.

(* ------------------------------------------------------------------ the trace when no loader is empty *)
Definition val_ok (c : cfg) : Prop := match val c with Some nv => 1 <= nv | None => True end.

Definition head_evs (c : cfg) (e : nat) : list ev :=
  [TrainMode; KbarInit e] ++ opt_ev (cb_train c) OnTrainEpochCb ++ [TrainMode].

Definition val_evs (c : cfg) (nv : nat) : list ev :=
  opt_ev (cb_val c) OnValEpochCb ++ [EvalMode; NoGradNew; NoGradEnter] ++
  flat_map (fun _ => val_batch c) (seq 0 nv) ++ opt_ev (has_eval c) (EvalCompute true) ++ [NoGradExit].

Definition tail_evs (c : cfg) : list ev :=
  opt_ev (has_eval c) (EvalCompute false) ++
  match val c with None => [] | Some nv => val_evs c nv end ++ [KbarAdd].

Definition epoch_ok (c : cfg) (e : nat) : list ev :=
  head_evs c e ++ flat_map (train_batch c) (seq 0 (nb c)) ++ tail_evs c.

Lemma epoch_part_ok c e : 1 <= nb c -> val_ok c -> epoch_part c e = (epoch_ok c e, true).
Proof.
  intros Hn Hv. unfold epoch_part, train_part, epoch_ok, head_evs, tail_evs, val_ok in *.
  destruct (Nat.eqb_spec (nb c) 0) as [E|_]; [lia|]. cbn [negb].
  destruct (val c) as [nv|].
  - unfold validate_part, val_evs. destruct (Nat.eqb_spec nv 0) as [E|_]; [lia|].
    f_equal. repeat (rewrite <- ?app_assoc; cbn [app]). reflexivity.
  - f_equal. repeat (rewrite <- ?app_assoc; cbn [app]). reflexivity.
Qed.

Lemma fit_from_ok c : 1 <= nb c -> val_ok c ->
  forall k e, fit_from c e k = (flat_map (epoch_ok c) (seq e k), true).
Proof.
  intros Hn Hv. induction k as [|k IH]; intro e; [reflexivity|].
  cbn [fit_from seq flat_map]. rewrite (epoch_part_ok c e Hn Hv), IH. reflexivity.
Qed.

Lemma fit_ok c epochs : 1 <= nb c -> val_ok c ->
  fit c epochs = (flat_map (epoch_ok c) (seq 0 epochs), true).
Proof. intros. unfold fit. apply fit_from_ok; assumption. Qed.

(* what the model says for an empty train loader: the first epoch raises after the second model.train() *)
Lemma fit_empty_loader c epochs : nb c = 0 -> 1 <= epochs ->
  fit c epochs = ([TrainMode; KbarInit 0] ++ opt_ev (cb_train c) OnTrainEpochCb ++ [TrainMode], false).
Proof.
  intros Hn He. destruct epochs as [|k]; [lia|]. unfold fit. cbn [fit_from].
  unfold epoch_part, train_part. rewrite Hn. cbn. reflexivity.
Qed.

Lemma fit_zero_epochs c : fit c 0 = ([], true).
Proof. reflexivity. Qed.

(* ------------------------------------------------------------------ counting *)
Definition countb (p : ev -> bool) (t : list ev) : nat := length (filter p t).

Lemma countb_app p a b : countb p (a ++ b) = countb p a + countb p b.
Proof. unfold countb. rewrite filter_app, app_length. reflexivity. Qed.

Lemma countb_flat_map {A} p (f : A -> list ev) k l :
  (forall x, countb p (f x) = k) -> countb p (flat_map f l) = length l * k.
Proof.
  intro H. induction l as [|x l IH]; [reflexivity|].
  cbn [flat_map length]. rewrite countb_app, H, IH. lia.
Qed.

Definition is_step (e : ev) : bool := match e with Step => true | _ => false end.
Definition is_zero (e : ev) : bool := match e with ZeroGrad => true | _ => false end.
Definition is_bwd (e : ev) : bool := match e with Backward => true | _ => false end.
Definition is_fwd (e : ev) : bool := match e with Forward => true | _ => false end.

(* p counts exactly one event of each training batch and nothing else *)
Definition train_only (p : ev -> bool) : Prop :=
  (forall c i, countb p (train_batch c i) = 1) /\
  (forall c e, countb p (head_evs c e) = 0) /\ (forall c, countb p (tail_evs c) = 0).

Lemma countb_opt p b e : p e = false -> countb p (opt_ev b e) = 0.
Proof. intro H. destruct b; cbn; [rewrite H|]; reflexivity. Qed.

Lemma countb_val_batches p c nv : countb p (val_batch c) = 0 ->
  countb p (flat_map (fun _ : nat => val_batch c) (seq 0 nv)) = 0.
Proof. intro H. rewrite (countb_flat_map p _ 0); [lia|auto]. Qed.

Ltac count_simple :=
  repeat first [ rewrite countb_app | rewrite countb_opt by reflexivity ]; cbn; try reflexivity.

Lemma train_only_step : train_only is_step.
Proof.
  split; [|split].
  - intros c i. unfold train_batch. count_simple.
  - intros c e. unfold head_evs. count_simple.
  - intros c. unfold tail_evs, val_evs. destruct (val c) as [nv|]; count_simple.
    rewrite countb_val_batches; [reflexivity|]. unfold val_batch. count_simple.
Qed.

Lemma train_only_zero : train_only is_zero.
Proof.
  split; [|split].
  - intros c i. unfold train_batch. count_simple.
  - intros c e. unfold head_evs. count_simple.
  - intros c. unfold tail_evs, val_evs. destruct (val c) as [nv|]; count_simple.
    rewrite countb_val_batches; [reflexivity|]. unfold val_batch. count_simple.
Qed.

Lemma train_only_bwd : train_only is_bwd.
Proof.
  split; [|split].
  - intros c i. unfold train_batch. count_simple.
  - intros c e. unfold head_evs. count_simple.
  - intros c. unfold tail_evs, val_evs. destruct (val c) as [nv|]; count_simple.
    rewrite countb_val_batches; [reflexivity|]. unfold val_batch. count_simple.
Qed.

Lemma count_train_only p c epochs : train_only p -> 1 <= nb c -> val_ok c ->
  countb p (fst (fit c epochs)) = epochs * nb c.
Proof.
  intros (H1 & H2 & H3) Hn Hv. rewrite fit_ok by assumption. cbn [fst].
  rewrite (countb_flat_map p _ (nb c)); [rewrite seq_length; reflexivity|].
  intro e. unfold epoch_ok. rewrite !countb_app, H2, H3.
  rewrite (countb_flat_map p _ 1) by (intro; apply H1). rewrite seq_length. lia.
Qed.

(* forwards: nb training ones per epoch plus nbv validation ones *)
Lemma count_forward c epochs : 1 <= nb c -> val_ok c ->
  countb is_fwd (fst (fit c epochs)) = epochs * (nb c + match val c with Some nv => nv | None => 0 end).
Proof.
  intros Hn Hv. rewrite fit_ok by assumption. cbn [fst].
  rewrite (countb_flat_map is_fwd _ (nb c + match val c with Some nv => nv | None => 0 end)); [rewrite seq_length; reflexivity|].
  intro e. unfold epoch_ok. rewrite !countb_app.
  rewrite (countb_flat_map is_fwd (train_batch c) 1) by (intro; unfold train_batch; count_simple).
  rewrite seq_length. unfold head_evs, tail_evs, val_evs. destruct (val c) as [nv|]; count_simple.
  - rewrite (countb_flat_map is_fwd _ 1) by (intro; unfold val_batch; count_simple).
    rewrite seq_length. lia.
  - lia.
Qed.

(* ------------------------------------------------------------------ the monitor *)
Record cst := { cm : mst; cp2 : option ev; cp1 : option ev }.      (* modes + the two previous events *)

Definition cstep (s : cst) (e : ev) : cst := {| cm := mstep (cm s) e; cp2 := cp1 s; cp1 := Some e |}.
Definition crun (s : cst) (t : list ev) : cst := fold_left cstep t s.

Definition inb (m : mst) : bool := negb (Nat.eqb (mdepth m) 0).      (* inside a no_grad block opened by fit *)
Definition was (p : ev -> bool) (o : option ev) : bool := match o with Some e => p e | None => false end.

Definition allowed_in_block (e : ev) : bool :=
  match e with Forward | Criterion | EvalStep true | EvalCompute true | NoGradExit => true | _ => false end.

Definition outside_ok (s : cst) (e : ev) : bool :=
  let m := cm s in
  match e with
  | Step => was is_zero (cp2 s) && was is_bwd (cp1 s) && mtrain m
  | ZeroGrad | Backward | Forward | Criterion => mtrain m
  | EvalStep v | EvalCompute v => negb v && mtrain m
  | NoGradNew | NoGradEnter => negb (mtrain m)
  | NoGradExit => false
  | _ => true
  end.

Definition ok_at (g0 : bool) (s : cst) (e : ev) : bool :=
  let m := cm s in
  if inb m then negb (mtrain m) && negb (mgrad m) && allowed_in_block e
  else Bool.eqb (mgrad m) g0 && outside_ok s e.

Fixpoint check (g0 : bool) (s : cst) (t : list ev) : bool :=
  match t with [] => true | e :: r => ok_at g0 s e && check g0 (cstep s e) r end.

Lemma crun_app s a b : crun s (a ++ b) = crun (crun s a) b.
Proof. unfold crun. apply fold_left_app. Qed.

Lemma check_app g0 a : forall s b, check g0 s (a ++ b) = check g0 s a && check g0 (crun s a) b.
Proof.
  induction a as [|e a IH]; intros s b; [reflexivity|].
  cbn [app check crun fold_left]. rewrite IH, andb_assoc. reflexivity.
Qed.

Lemma check_at g0 pre : forall s e post, check g0 s (pre ++ e :: post) = true -> ok_at g0 (crun s pre) e = true.
Proof.
  intros s e post H. rewrite check_app in H. apply andb_true_iff in H. destruct H as [_ H].
  cbn [check] in H. apply andb_true_iff in H. tauto.
Qed.

Lemma cm_crun t : forall s, cm (crun s t) = mrun (cm s) t.
Proof. induction t as [|e t IH]; intro s; [reflexivity|]. cbn [crun fold_left mrun]. apply (IH (cstep s e)). Qed.

Lemma crun_last2 pre s a b :
  cp1 s = None ->
  cp2 (crun s pre) = Some a -> cp1 (crun s pre) = Some b -> exists pre', pre = pre' ++ [a; b].
Proof.
  intros H1 Ha Hb. destruct pre as [|x q] using rev_ind; [cbn in Hb; congruence|]. clear IHq.
  rewrite crun_app in Ha, Hb. cbn in Ha, Hb. inversion Hb; subst x.
  destruct q as [|y q'] using rev_ind; [cbn in Ha; congruence|]. clear IHq'.
  rewrite crun_app in Ha. cbn in Ha. inversion Ha; subst y.
  exists q'. rewrite <- app_assoc. reflexivity.
Qed.

(* the states between epochs: gradient mode as at the start, no open block *)
Definition base (g0 : bool) (sv : list bool) (s : cst) : Prop :=
  mgrad (cm s) = g0 /\ msaved (cm s) = sv /\ mdepth (cm s) = 0.

Lemma train_batches_check c g0 sv l : forall s,
  base g0 sv s -> mtrain (cm s) = true ->
  check g0 s (flat_map (train_batch c) l) = true /\
  base g0 sv (crun s (flat_map (train_batch c) l)) /\ mtrain (cm (crun s (flat_map (train_batch c) l))) = true.
Proof.
  induction l as [|i l IH]; intros s Hb Ht; [cbn; auto|].
  cbn [flat_map]. rewrite check_app, crun_app.
  destruct s as [[tr g svd d] p2 p1]. destruct Hb as (Hg & Hs & Hd). cbn in Hg, Hs, Hd, Ht. subst.
  assert (A : check g0 {| cm := {| mtrain := true; mgrad := g0; msaved := sv; mdepth := 0 |}; cp2 := p2; cp1 := p1 |} (train_batch c i) = true).
  { unfold train_batch. destruct (has_eval c); cbn; unfold ok_at; cbn; rewrite eqb_reflx; reflexivity. }
  rewrite A. cbn [andb]. apply IH.
  - unfold train_batch. destruct (has_eval c); cbn; repeat split.
  - unfold train_batch. destruct (has_eval c); reflexivity.
Qed.

Definition in_val (g0 : bool) (sv : list bool) (s : cst) : Prop :=
  mtrain (cm s) = false /\ mgrad (cm s) = false /\ msaved (cm s) = g0 :: sv /\ mdepth (cm s) = 1.

Lemma val_batches_check c g0 sv l : forall s,
  in_val g0 sv s ->
  check g0 s (flat_map (fun _ : nat => val_batch c) l) = true /\
  in_val g0 sv (crun s (flat_map (fun _ : nat => val_batch c) l)).
Proof.
  induction l as [|i l IH]; intros s Hb; [cbn; auto|].
  cbn [flat_map]. rewrite check_app, crun_app.
  destruct s as [[tr g svd d] p2 p1]. destruct Hb as (Ht & Hg & Hs & Hd). cbn in Hg, Hs, Hd, Ht. subst.
  assert (A : check g0 {| cm := {| mtrain := false; mgrad := false; msaved := g0 :: sv; mdepth := 1 |}; cp2 := p2; cp1 := p1 |} (val_batch c) = true).
  { unfold val_batch. destruct (has_eval c); reflexivity. }
  rewrite A. cbn [andb]. apply IH.
  unfold val_batch. destruct (has_eval c); cbn; repeat split.
Qed.

Lemma epoch_check c g0 sv e s :
  base g0 sv s -> check g0 s (epoch_ok c e) = true /\ base g0 sv (crun s (epoch_ok c e)).
Proof.
  intro Hb. unfold epoch_ok. rewrite !check_app, !crun_app.
  destruct s as [[tr g svd d] p2 p1]. destruct Hb as (Hg & Hs & Hd). cbn in Hg, Hs, Hd. subst.
  set (s0 := {| cm := {| mtrain := tr; mgrad := g0; msaved := sv; mdepth := 0 |}; cp2 := p2; cp1 := p1 |}).
  assert (H1 : check g0 s0 (head_evs c e) = true).
  { unfold head_evs, s0. destruct (cb_train c); cbn; unfold ok_at; cbn; rewrite eqb_reflx; reflexivity. }
  assert (B1 : base g0 sv (crun s0 (head_evs c e)) /\ mtrain (cm (crun s0 (head_evs c e))) = true).
  { unfold head_evs, s0. destruct (cb_train c); cbn; repeat split. }
  destruct B1 as [B1 T1].
  destruct (train_batches_check c g0 sv (seq 0 (nb c)) _ B1 T1) as (H2 & B2 & T2).
  rewrite H1, H2. cbn [andb].
  set (s2 := crun (crun s0 (head_evs c e)) (flat_map (train_batch c) (seq 0 (nb c)))) in *.
  destruct s2 as [[tr2 g2 sv2 d2] q2 q1]. destruct B2 as (Hg & Hs & Hd). cbn in Hg, Hs, Hd, T2. subst.
  unfold tail_evs. rewrite !check_app, !crun_app.
  set (s3 := crun {| cm := {| mtrain := true; mgrad := g0; msaved := sv; mdepth := 0 |}; cp2 := q2; cp1 := q1 |}
                  (opt_ev (has_eval c) (EvalCompute false))).
  assert (H3 : check g0 {| cm := {| mtrain := true; mgrad := g0; msaved := sv; mdepth := 0 |}; cp2 := q2; cp1 := q1 |}
                     (opt_ev (has_eval c) (EvalCompute false)) = true).
  { destruct (has_eval c); cbn; unfold ok_at; cbn; rewrite ?eqb_reflx; reflexivity. }
  assert (B3 : base g0 sv s3 /\ mtrain (cm s3) = true).
  { unfold s3. destruct (has_eval c); cbn; repeat split. }
  rewrite H3. cbn [andb]. destruct B3 as [B3 T3].
  destruct s3 as [[tr3 g3 sv3 d3] r2 r1]. destruct B3 as (Hg & Hs & Hd). cbn in Hg, Hs, Hd, T3. subst.
  destruct (val c) as [nv|].
  - unfold val_evs. rewrite !check_app, !crun_app.
    set (s4 := crun {| cm := {| mtrain := true; mgrad := g0; msaved := sv; mdepth := 0 |}; cp2 := r2; cp1 := r1 |}
                    (opt_ev (cb_val c) OnValEpochCb)).
    assert (H4 : check g0 {| cm := {| mtrain := true; mgrad := g0; msaved := sv; mdepth := 0 |}; cp2 := r2; cp1 := r1 |}
                       (opt_ev (cb_val c) OnValEpochCb) = true).
    { destruct (cb_val c); cbn; unfold ok_at; cbn; rewrite ?eqb_reflx; reflexivity. }
    assert (B4 : base g0 sv s4 /\ mtrain (cm s4) = true).
    { unfold s4. destruct (cb_val c); cbn; repeat split. }
    rewrite H4. cbn [andb]. destruct B4 as [B4 T4].
    destruct s4 as [[tr4 g4 sv4 d4] u2 u1]. destruct B4 as (Hg & Hs & Hd). cbn in Hg, Hs, Hd, T4. subst.
    set (s5 := crun {| cm := {| mtrain := true; mgrad := g0; msaved := sv; mdepth := 0 |}; cp2 := u2; cp1 := u1 |}
                    [EvalMode; NoGradNew; NoGradEnter]).
    assert (H5 : check g0 {| cm := {| mtrain := true; mgrad := g0; msaved := sv; mdepth := 0 |}; cp2 := u2; cp1 := u1 |}
                       [EvalMode; NoGradNew; NoGradEnter] = true).
    { cbn; unfold ok_at; cbn; rewrite ?eqb_reflx; reflexivity. }
    assert (B5 : in_val g0 sv s5) by (unfold s5; cbn; repeat split).
    rewrite H5. cbn [andb].
    destruct (val_batches_check c g0 sv (seq 0 nv) s5 B5) as (H6 & B6).
    rewrite H6. cbn [andb].
    set (s6 := crun s5 (flat_map (fun _ : nat => val_batch c) (seq 0 nv))) in *.
    destruct s6 as [[tr6 g6 sv6 d6] w2 w1]. destruct B6 as (Ht & Hg & Hs & Hd). cbn in Ht, Hg, Hs, Hd. subst.
    destruct (has_eval c); cbn; unfold ok_at; cbn; rewrite ?eqb_reflx; repeat split.
  - cbn. unfold ok_at. cbn. rewrite eqb_reflx. repeat split.
Qed.

Lemma epochs_check c g0 sv l : forall s,
  base g0 sv s -> check g0 s (flat_map (epoch_ok c) l) = true /\ base g0 sv (crun s (flat_map (epoch_ok c) l)).
Proof.
  induction l as [|e l IH]; intros s Hb; [cbn; auto|].
  cbn [flat_map]. rewrite check_app, crun_app.
  destruct (epoch_check c g0 sv e s Hb) as [H1 B1]. rewrite H1. cbn [andb]. apply IH. exact B1.
Qed.

Definition start (t0 g0 : bool) (sv : list bool) : cst :=
  {| cm := {| mtrain := t0; mgrad := g0; msaved := sv; mdepth := 0 |}; cp2 := None; cp1 := None |}.
Definition mstart (t0 g0 : bool) (sv : list bool) : mst :=
  {| mtrain := t0; mgrad := g0; msaved := sv; mdepth := 0 |}.

Lemma fit_checked c epochs t0 g0 sv : 1 <= nb c -> val_ok c ->
  check g0 (start t0 g0 sv) (fst (fit c epochs)) = true /\
  base g0 sv (crun (start t0 g0 sv) (fst (fit c epochs))).
Proof.
  intros Hn Hv. rewrite fit_ok by assumption. cbn [fst]. apply epochs_check. repeat split.
Qed.

(* ------------------------------------------------------------------ the clauses, read off the monitor *)
Section Clauses.
  Variables (c : cfg) (epochs : nat) (t0 g0 : bool) (sv : list bool).
  Hypotheses (Hn : 1 <= nb c) (Hv : val_ok c).
  Let tr := fst (fit c epochs).
  Let m0 := mstart t0 g0 sv.

  Lemma at_event pre e post : tr = pre ++ e :: post ->
    ok_at g0 (crun (start t0 g0 sv) pre) e = true /\ cm (crun (start t0 g0 sv) pre) = mrun m0 pre.
  Proof.
    intro E. destruct (fit_checked c epochs t0 g0 sv Hn Hv) as [H _]. fold tr in H. rewrite E in H.
    split; [eapply check_at; exact H|]. rewrite cm_crun. reflexivity.
  Qed.

  (* every optimizer.step() is immediately preceded by zero_grad(); backward(), and happens in training mode,
     outside every no_grad block, with the gradient mode in force when fit was called *)
  Lemma step_clause pre post : tr = pre ++ Step :: post ->
    (exists pre', pre = pre' ++ [ZeroGrad; Backward]) /\
    mtrain (mrun m0 pre) = true /\ mgrad (mrun m0 pre) = g0 /\ mdepth (mrun m0 pre) = 0.
  Proof.
    intro E. destruct (at_event _ _ _ E) as [H Hm]. unfold ok_at in H. rewrite Hm in H.
    unfold inb in H. destruct (Nat.eqb_spec (mdepth (mrun m0 pre)) 0) as [D|D]; cbn [negb] in H.
    - apply andb_true_iff in H. destruct H as [G H]. cbn [outside_ok] in H. rewrite Hm in H.
      apply andb_true_iff in H. destruct H as [H T]. apply andb_true_iff in H. destruct H as [Z B].
      split; [|split; [exact T|split; [apply eqb_prop; exact G|exact D]]].
      destruct (cp2 (crun (start t0 g0 sv) pre)) as [a|] eqn:Ea; [|discriminate].
      destruct (cp1 (crun (start t0 g0 sv) pre)) as [b|] eqn:Eb; [|discriminate].
      destruct a; try discriminate. destruct b; try discriminate.
      eapply crun_last2; eauto; reflexivity.
    - rewrite !andb_true_iff in H. destruct H as [_ H]. discriminate.
  Qed.

  Lemma zero_backward_clause pre e post : tr = pre ++ e :: post -> e = ZeroGrad \/ e = Backward ->
    mtrain (mrun m0 pre) = true /\ mgrad (mrun m0 pre) = g0 /\ mdepth (mrun m0 pre) = 0.
  Proof.
    intros E He. destruct (at_event _ _ _ E) as [H Hm]. unfold ok_at in H. rewrite Hm in H.
    unfold inb in H. destruct (Nat.eqb_spec (mdepth (mrun m0 pre)) 0) as [D|D]; cbn [negb] in H.
    - apply andb_true_iff in H. destruct H as [G H].
      destruct He; subst e; cbn [outside_ok] in H; rewrite Hm in H; (split; [exact H|split; [apply eqb_prop; exact G|exact D]]).
    - rewrite !andb_true_iff in H. destruct H as [_ H]. destruct He; subst e; discriminate.
  Qed.

  (* a forward is either a training one (training mode, outside no_grad, caller's gradient mode) or a
     validation one (eval mode, inside the no_grad block, gradients off) *)
  Lemma forward_clause pre post : tr = pre ++ Forward :: post ->
    (mtrain (mrun m0 pre) = true /\ mdepth (mrun m0 pre) = 0 /\ mgrad (mrun m0 pre) = g0) \/
    (mtrain (mrun m0 pre) = false /\ mdepth (mrun m0 pre) <> 0 /\ mgrad (mrun m0 pre) = false).
  Proof.
    intro E. destruct (at_event _ _ _ E) as [H Hm]. unfold ok_at in H. rewrite Hm in H.
    unfold inb in H. destruct (Nat.eqb_spec (mdepth (mrun m0 pre)) 0) as [D|D]; cbn [negb] in H.
    - left. apply andb_true_iff in H. destruct H as [G H]. cbn [outside_ok] in H. rewrite Hm in H.
      split; [exact H|split; [exact D|apply eqb_prop; exact G]].
    - right. rewrite !andb_true_iff, !negb_true_iff in H. tauto.
  Qed.

  (* inside a no_grad block: eval mode, gradients off, and only forward / criterion / evaluator calls
     (with the 'val' prefix) happen; in particular no zero_grad / backward / step *)
  Lemma inside_block_clause pre e post : tr = pre ++ e :: post -> mdepth (mrun m0 pre) <> 0 ->
    mtrain (mrun m0 pre) = false /\ mgrad (mrun m0 pre) = false /\ allowed_in_block e = true.
  Proof.
    intros E D. destruct (at_event _ _ _ E) as [H Hm]. unfold ok_at in H. rewrite Hm in H.
    unfold inb in H. destruct (Nat.eqb_spec (mdepth (mrun m0 pre)) 0) as [D'|_]; [contradiction|]. cbn [negb] in H.
    rewrite !andb_true_iff, !negb_true_iff in H. tauto.
  Qed.

  (* fit leaves the gradient mode (and the stack of saved modes) as it found them *)
  Lemma grad_restored :
    mgrad (mrun m0 tr) = g0 /\ msaved (mrun m0 tr) = sv /\ mdepth (mrun m0 tr) = 0.
  Proof.
    destruct (fit_checked c epochs t0 g0 sv Hn Hv) as [_ B]. fold tr in B. unfold base in B.
    rewrite cm_crun in B. exact B.
  Qed.
End Clauses.

(* eval mode can only come from a model.eval() that no model.train() followed *)
Lemma eval_after_evalmode pre : forall m, mtrain m = true -> mtrain (mrun m pre) = false ->
  exists a b, pre = a ++ EvalMode :: b /\ Forall (fun e => e <> TrainMode) b.
Proof.
  induction pre as [|x q IH] using rev_ind; intros m Hm H; [cbn in H; congruence|].
  unfold mrun in H. rewrite fold_left_app in H. cbn [fold_left] in H. fold (mrun m q) in H.
  destruct (mtrain (mrun m q)) eqn:Eq.
  - destruct x; cbn in H; try congruence.
    + exists q, []. split; [reflexivity|constructor].
    + destruct (msaved (mrun m q)); cbn in H; congruence.
  - destruct (IH m Hm Eq) as (a & b & E & F). exists a, (b ++ [x]). split.
    + rewrite E, <- app_assoc. reflexivity.
    + apply Forall_app. split; [exact F|]. constructor; [|constructor]. intro X; subst x. cbn in H. discriminate.
Qed.

(* ------------------------------------------------------------------ composition with C07's model *)
(* the no_grad events of a trace as events of State/Contexts.v; [n] = number of context objects so far *)
Fixpoint to_ctx (n : nat) (t : list ev) : list Contexts.ev :=
  match t with
  | [] => []
  | NoGradNew :: r => New KNoGrad :: to_ctx (S n) r
  | NoGradEnter :: r => Enter (pred n) :: to_ctx n r
  | NoGradExit :: r => Exit (pred n) false :: to_ctx n r
  | _ :: r => to_ctx n r
  end.

Definition ctx_free (e : ev) : bool :=
  match e with NoGradNew | NoGradEnter | NoGradExit => false | _ => true end.

Lemma to_ctx_free t : forall n b, forallb ctx_free t = true -> to_ctx n (t ++ b) = to_ctx n b.
Proof.
  induction t as [|e t IH]; intros n b H; [reflexivity|].
  cbn in H. apply andb_true_iff in H. destruct H as [He H]. destruct e; cbn in He; try discriminate; cbn; auto.
Qed.

Lemma forallb_flat_map {A} (p : ev -> bool) (f : A -> list ev) l :
  (forall x, forallb p (f x) = true) -> forallb p (flat_map f l) = true.
Proof. intro H. induction l; cbn; auto. rewrite forallb_app, H, IHl. reflexivity. Qed.

Lemma free_opt b e : ctx_free e = true -> forallb ctx_free (opt_ev b e) = true.
Proof. intro H. destruct b; cbn; [rewrite H|]; reflexivity. Qed.

Lemma to_ctx_epoch c e n rest :
  to_ctx n (epoch_ok c e ++ rest) =
  match val c with
  | Some _ => New KNoGrad :: Enter n :: Exit n false :: to_ctx (S n) rest
  | None => to_ctx n rest
  end.
Proof.
  unfold epoch_ok, head_evs, tail_evs. rewrite <- !app_assoc.
  cbn [app to_ctx]. rewrite (to_ctx_free (opt_ev (cb_train c) OnTrainEpochCb)) by (apply free_opt; reflexivity).
  cbn [app to_ctx].
  rewrite to_ctx_free by (apply forallb_flat_map; intro; unfold train_batch; destruct (has_eval c); reflexivity).
  rewrite to_ctx_free by (apply free_opt; reflexivity).
  destruct (val c) as [nv|].
  - unfold val_evs. rewrite <- !app_assoc.
    rewrite to_ctx_free by (apply free_opt; reflexivity). cbn [app to_ctx pred].
    rewrite to_ctx_free by (apply forallb_flat_map; intro; unfold val_batch; destruct (has_eval c); reflexivity).
    rewrite to_ctx_free by (apply free_opt; reflexivity). cbn [app to_ctx pred]. reflexivity.
  - cbn [app to_ctx]. reflexivity.
Qed.

Lemma to_ctx_epochs_wb c l : forall n, wb (to_ctx n (flat_map (epoch_ok c) l)) /\
  refs_ok n (to_ctx n (flat_map (epoch_ok c) l)) = true.
Proof.
  induction l as [|e l IH]; intro n; [split; [constructor|reflexivity]|].
  cbn [flat_map]. rewrite to_ctx_epoch. destruct (val c).
  - destruct (IH (S n)) as [W R]. split.
    + apply wb_new. apply (wb_block n false [] _); [constructor|exact W].
    + cbn [refs_ok]. assert (H : Nat.ltb n (S n) = true) by (apply Nat.ltb_lt; lia).
      rewrite H. cbn [andb]. exact R.
  - apply IH.
Qed.

(* the no_grad events of fit form a well-bracketed sequence of C07's model: by C07's theorems the run cannot
   fail and leaves both global mode flags (and every saved stack) as they were, whatever the earlier history *)
Lemma fit_ctx_restores c epochs s : 1 <= nb c -> val_ok c ->
  exists s', Contexts.run s (to_ctx (length (objs s)) (fst (fit c epochs))) = Some s' /\
             gmode s' = gmode s /\ rmode s' = rmode s.
Proof.
  intros Hn Hv. rewrite fit_ok by assumption. cbn [fst].
  destruct (to_ctx_epochs_wb c (seq 0 epochs) (length (objs s))) as [W R].
  destruct (wb_total _ W s R) as [s' Hs']. exists s'. split; [exact Hs'|].
  destruct (wb_preserves _ W s s' Hs') as [[G Rm] _]. split; assumption.
Qed.

(* Trainer.test: same discipline *)
Lemma test_checked nbt t0 g0 sv :
  check g0 (start t0 g0 sv) (test_trace nbt) = true /\ base g0 sv (crun (start t0 g0 sv) (test_trace nbt)).
Proof.
  unfold test_trace. rewrite !check_app, !crun_app.
  assert (G : forall n s, in_val g0 sv s -> check g0 s (repeat Forward n) = true /\ in_val g0 sv (crun s (repeat Forward n))).
  { induction n as [|n IH]; intros s H; [cbn; auto|].
    destruct s as [[tr g svd d] p2 p1]. destruct H as (Ht & Hg & Hs & Hd). cbn in Ht, Hg, Hs, Hd. subst.
    cbn [repeat check crun fold_left]. split.
    - apply andb_true_iff. split; [reflexivity|]. apply IH. repeat split.
    - apply IH. repeat split. }
  assert (H1 : check g0 (start t0 g0 sv) [EvalMode; NoGradNew; NoGradEnter] = true).
  { cbn. unfold ok_at. cbn. rewrite eqb_reflx. reflexivity. }
  assert (B1 : in_val g0 sv (crun (start t0 g0 sv) [EvalMode; NoGradNew; NoGradEnter])) by (cbn; repeat split).
  destruct (G nbt _ B1) as [H2 B2]. rewrite H1, H2. cbn [andb].
  set (s2 := crun (crun (start t0 g0 sv) [EvalMode; NoGradNew; NoGradEnter]) (repeat Forward nbt)) in *.
  destruct s2 as [[tr g svd d] p2 p1]. destruct B2 as (Ht & Hg & Hs & Hd). cbn in Ht, Hg, Hs, Hd. subst.
  cbn. repeat split.
Qed.

Lemma test_clause nbt t0 g0 sv pre post : test_trace nbt = pre ++ Forward :: post ->
  mtrain (mrun (mstart t0 g0 sv) pre) = false /\ mgrad (mrun (mstart t0 g0 sv) pre) = false /\
  mdepth (mrun (mstart t0 g0 sv) pre) <> 0.
Proof.
  intro E. destruct (test_checked nbt t0 g0 sv) as [H _]. rewrite E in H.
  pose proof (check_at _ _ _ _ _ H) as A. unfold ok_at in A. rewrite cm_crun in A.
  change (cm (start t0 g0 sv)) with (mstart t0 g0 sv) in A.
  unfold inb in A. destruct (Nat.eqb_spec (mdepth (mrun (mstart t0 g0 sv) pre)) 0) as [D|D]; cbn [negb] in A.
  - (* outside a block a forward needs training mode; but test() starts with model.eval() *)
    exfalso. apply andb_true_iff in A. destruct A as [_ A]. cbn [outside_ok] in A. rewrite cm_crun in A.
    change (cm (start t0 g0 sv)) with (mstart t0 g0 sv) in A.
    (* the prefix begins with EvalMode and contains no TrainMode *)
    unfold test_trace in E.
    destruct pre as [|x pre]; [cbn in E; discriminate|]. cbn in E. inversion E as [[Hx E']]. subst x.
    assert (G : forall t m, mtrain m = false -> Forall (fun e => e <> TrainMode) t -> mtrain (mrun m t) = false).
    { induction t as [|y t IH]; intros m Hm Ht; [exact Hm|]. inversion Ht; subst. cbn [mrun fold_left]. apply (IH (mstep m y)); auto.
      destruct y; cbn; auto; try congruence. destruct (msaved m); cbn; auto. }
    assert (F : Forall (fun e => e <> TrainMode) pre).
    { assert (F0 : Forall (fun e => e <> TrainMode) ([NoGradNew; NoGradEnter] ++ repeat Forward nbt ++ [NoGradExit])).
      { repeat (apply Forall_cons; [discriminate|]). apply Forall_app. split.
        - apply Forall_forall. intros y Hy. apply repeat_spec in Hy. subst. discriminate.
        - repeat constructor. discriminate. }
      cbn [app] in F0. rewrite E' in F0. apply Forall_app in F0. tauto. }
    cbn [mrun fold_left] in A. fold (mrun (mstep (mstart t0 g0 sv) EvalMode) pre) in A.
    rewrite (G pre (mstep (mstart t0 g0 sv) EvalMode) eq_refl F) in A. discriminate.
  - rewrite !andb_true_iff, !negb_true_iff in A. tauto.
Qed.

Lemma test_restores nbt t0 g0 sv :
  mgrad (mrun (mstart t0 g0 sv) (test_trace nbt)) = g0 /\ msaved (mrun (mstart t0 g0 sv) (test_trace nbt)) = sv.
Proof.
  destruct (test_checked nbt t0 g0 sv) as [_ B]. unfold base in B. rewrite cm_crun in B. tauto.
Qed.
