(* Soundness of the analyses of Analysis/Expr.v:
     ival_sound              the interval of an expression contains its value
     exp_args_bounded_sound  the computed bound dominates every value handed to exp
     xeval_no_overflow       if no exp argument exceeds the threshold T, the saturating evaluation is
                             finite and equals the real evaluation *)
From Coq Require Import Reals Lra Lia ZArith QArith Qreals List.
Import ListNotations.
From SG Require Import Analysis.RealOps Analysis.Expr.
Open Scope R_scope.

(* ---- rationals --------------------------------------------------------------------------------------- *)
Lemma Q2R_inject_Z z : Q2R (inject_Z z) = IZR z.
Proof. unfold Q2R, inject_Z. simpl. rewrite Rinv_1. ring. Qed.
Lemma Q2R_make n d : Q2R (n # d) = IZR n / IZR (Zpos d).
Proof. reflexivity. Qed.
Lemma Q2R_0 : Q2R 0 = 0.
Proof. unfold Q2R. simpl. lra. Qed.
Lemma Q2R_1 : Q2R 1 = 1.
Proof. unfold Q2R. simpl. lra. Qed.
Lemma Q2R_m1 : Q2R (-1) = -1.
Proof. unfold Q2R. simpl. lra. Qed.

Lemma qmax_l a b : Q2R a <= Q2R (qmax a b).
Proof.
  unfold qmax. destruct (Qle_bool a b) eqn:E.
  - apply Qle_bool_iff in E. now apply Qle_Rle.
  - lra.
Qed.
Lemma qmax_r a b : Q2R b <= Q2R (qmax a b).
Proof.
  unfold qmax. destruct (Qle_bool a b) eqn:E.
  - lra.
  - assert (~ (a <= b)%Q) by (intros H; apply Qle_bool_iff in H; congruence).
    apply Qnot_le_lt in H. apply Qlt_Rlt in H. lra.
Qed.
Lemma qmin_l a b : Q2R (qmin a b) <= Q2R a.
Proof.
  unfold qmin. destruct (Qle_bool a b) eqn:E.
  - lra.
  - assert (~ (a <= b)%Q) by (intros H; apply Qle_bool_iff in H; congruence).
    apply Qnot_le_lt in H. apply Qlt_Rlt in H. lra.
Qed.
Lemma qmin_r a b : Q2R (qmin a b) <= Q2R b.
Proof.
  unfold qmin. destruct (Qle_bool a b) eqn:E.
  - apply Qle_bool_iff in E. now apply Qle_Rle.
  - lra.
Qed.
Lemma qmax_cases a b : Q2R (qmax a b) = Rmax (Q2R a) (Q2R b).
Proof.
  pose proof (qmax_l a b). pose proof (qmax_r a b).
  unfold qmax in *. destruct (Qle_bool a b); [rewrite Rmax_right|rewrite Rmax_left]; lra.
Qed.
Lemma qmin_cases a b : Q2R (qmin a b) = Rmin (Q2R a) (Q2R b).
Proof.
  pose proof (qmin_l a b). pose proof (qmin_r a b).
  unfold qmin in *. destruct (Qle_bool a b); [rewrite Rmin_left|rewrite Rmin_right]; lra.
Qed.

(* ---- interval operations ------------------------------------------------------------------------------ *)
Ltac itv_simpl := unfold in_itv, ge_lo, le_hi in *; simpl in *.

Lemma in_itop x : in_itv x itop.
Proof. split; exact I. Qed.

Lemma ineg_sound x i : in_itv x i -> in_itv (- x) (ineg i).
Proof.
  destruct i as [[l|] [h|]]; itv_simpl; intros [A B]; split; auto; rewrite ?Q2R_opp; lra.
Qed.
Lemma iadd_sound x y i j : in_itv x i -> in_itv y j -> in_itv (x + y) (iadd i j).
Proof.
  destruct i as [[l|] [h|]]; destruct j as [[l'|] [h'|]]; itv_simpl; intros [A B] [C D]; split; auto;
    rewrite ?Q2R_plus; lra.
Qed.
Lemma imax_sound x y i j : in_itv x i -> in_itv y j -> in_itv (Rmax x y) (imax i j).
Proof.
  pose proof (Rmax_l x y). pose proof (Rmax_r x y).
  destruct i as [[l|] [h|]]; destruct j as [[l'|] [h'|]]; itv_simpl; intros [A B] [C D]; split; auto;
    rewrite ?qmax_cases; try lra;
    try (apply Rmax_lub; [eapply Rle_trans; [|apply Rmax_l]|eapply Rle_trans; [|apply Rmax_r]]; lra);
    try (apply Rmax_case; lra);
    try (unfold Rmax; repeat destruct (Rle_dec _ _); lra).
Qed.
Lemma imin_sound x y i j : in_itv x i -> in_itv y j -> in_itv (Rmin x y) (imin i j).
Proof.
  pose proof (Rmin_l x y). pose proof (Rmin_r x y).
  destruct i as [[l|] [h|]]; destruct j as [[l'|] [h'|]]; itv_simpl; intros [A B] [C D]; split; auto;
    rewrite ?qmin_cases; try lra;
    try (unfold Rmin; repeat destruct (Rle_dec _ _); lra).
Qed.
Lemma ihull_sound_l x i j : in_itv x i -> in_itv x (ihull i j).
Proof.
  destruct i as [[l|] [h|]]; destruct j as [[l'|] [h'|]]; itv_simpl; intros [A B]; split; auto.
  all: try (pose proof (qmin_l l l'); lra).
  all: try (pose proof (qmax_l h h'); lra).
Qed.
Lemma ihull_sound_r x i j : in_itv x j -> in_itv x (ihull i j).
Proof.
  destruct i as [[l|] [h|]]; destruct j as [[l'|] [h'|]]; itv_simpl; intros [A B]; split; auto.
  all: try (pose proof (qmin_r l l'); lra).
  all: try (pose proof (qmax_r h h'); lra).
Qed.
Lemma iabs_sound x i : in_itv x i -> in_itv (Rabs x) (iabs i).
Proof.
  pose proof (Rabs_pos x).
  destruct i as [[l|] [h|]]; itv_simpl; intros [A B]; split; auto; rewrite ?Q2R_0; auto.
  pose proof (qmax_l (- l) h). pose proof (qmax_r (- l) h). rewrite Q2R_opp in *.
  unfold Rabs. destruct (Rcase_abs x); lra.
Qed.

(* ---- the interval of an expression contains its value --------------------------------------------------- *)
Lemma Forall2_nth_itv env benv i :
  Forall2 in_itv env benv -> in_itv (nth i env 0) (nth i benv itop).
Proof.
  intros H. revert i. induction H as [|x b env benv Hx H IH]; intros [|i]; simpl; auto using in_itop.
Qed.

Lemma tanh_bounds x : -1 < tanh x < 1.
Proof.
  unfold tanh, sinh, cosh. assert (0 < exp x) by apply exp_pos. assert (0 < exp (- x)) by apply exp_pos.
  split.
  - apply Rmult_lt_reg_r with ((exp x + exp (- x)) / 2). lra.
    unfold Rdiv at 2. rewrite Rmult_assoc, Rinv_l by lra. lra.
  - apply Rmult_lt_reg_r with ((exp x + exp (- x)) / 2). lra.
    unfold Rdiv at 1. rewrite Rmult_assoc, Rinv_l by lra. lra.
Qed.

Lemma ind_01 c x y : 0 <= cmp_sem c x y <= 1.
Proof.
  destruct c; simpl; unfold ind_gt, ind_ge, ind_lt, ind_le, ind_eq, ind_ne;
    repeat match goal with |- context [if ?d then _ else _] => destruct d end; lra.
Qed.

Theorem ival_sound e : forall env benv, Forall2 in_itv env benv -> in_itv (eval env e) (ival benv e).
Proof.
  induction e as [z|n d|i|a IHa|o a IHa b IHb|a IHa k|a IHa z|c a IHa b IHb|f a IHa|c IHc a IHa b IHb|e1 IH1 e2 IH2];
    intros env benv HB; simpl.
  - split; simpl; rewrite Q2R_inject_Z; lra.
  - split; simpl; rewrite Q2R_make; lra.
  - now apply Forall2_nth_itv.
  - apply ineg_sound. auto.
  - destruct o; simpl; try apply in_itop.
    + apply iadd_sound; auto.
    + unfold Rminus. apply iadd_sound; auto. apply ineg_sound; auto.
    + apply imax_sound; auto.
    + apply imin_sound; auto.
  - apply in_itop.
  - apply in_itop.
  - pose proof (ind_01 c (eval env a) (eval env b)). split; simpl; rewrite ?Q2R_0, ?Q2R_1; lra.
  - destruct f; simpl; try apply in_itop.
    + split; simpl; auto. rewrite Q2R_0. left. apply exp_pos.
    + pose proof (tanh_bounds (eval env a)). split; simpl; rewrite ?Q2R_m1, ?Q2R_1; lra.
    + apply iabs_sound; auto.
  - unfold where_. destruct (Req_EM_T (eval env c) 0).
    + apply ihull_sound_r; auto.
    + apply ihull_sound_l; auto.
  - apply IH2. constructor; auto.
Qed.

(* ---- exp arguments ---------------------------------------------------------------------------------------- *)
Definition ub_ok (a:R) (ub:option Q) : Prop := le_hi a ub.

Lemma Forall2_app_ub l1 l2 u1 u2 : Forall2 ub_ok l1 u1 -> Forall2 ub_ok l2 u2 -> Forall2 ub_ok (l1 ++ l2) (u1 ++ u2).
Proof. intros H1 H2. induction H1; simpl; auto. Qed.

Lemma exp_arg_ubs_sound e : forall env benv, Forall2 in_itv env benv ->
  Forall2 ub_ok (exp_args env e) (exp_arg_ubs benv e).
Proof.
  induction e as [z|n d|i|a IHa|o a IHa b IHb|a IHa k|a IHa z|c a IHa b IHb|f a IHa|c IHc a IHa b IHb|e1 IH1 e2 IH2];
    intros env benv HB; simpl; try constructor; auto using Forall2_app_ub.
  - destruct f; simpl; auto. constructor; auto.
    apply (ival_sound a env benv HB).
  - apply Forall2_app_ub; auto. apply IH2. constructor; auto. now apply ival_sound.
Qed.

Lemma omax_list_sound l u m : Forall2 ub_ok l u -> omax_list u = Some m -> Forall (fun a => a <= Q2R m) l.
Proof.
  intros H. revert m. induction H as [|a ub l u Ha H IH]; intros m Hm; [constructor|].
  destruct u as [|ub' u'].
  - inversion H; subst. simpl in Hm. subst. constructor; auto.
  - change (omax_list (ub :: ub' :: u')) with (o2 qmax ub (omax_list (ub' :: u'))) in Hm.
    destruct ub as [q|]; [|discriminate]. destruct (omax_list (ub' :: u')) as [r|] eqn:E; [|discriminate].
    simpl in Hm. injection Hm as <-.
    constructor.
    + simpl in Ha. pose proof (qmax_l q r). lra.
    + specialize (IH r eq_refl). eapply Forall_impl; [|exact IH].
      intros x Hx. simpl in Hx. pose proof (qmax_r q r). lra.
Qed.

Theorem exp_args_bounded_sound e benv m :
  exp_args_bounded e benv = Some m ->
  forall env, Forall2 in_itv env benv -> Forall (fun a => a <= Q2R m) (exp_args env e).
Proof.
  intros H env HB. eapply omax_list_sound; [|exact H]. now apply exp_arg_ubs_sound.
Qed.

(* ---- saturating evaluation ---------------------------------------------------------------------------------- *)
Theorem xeval_no_overflow T e : forall env,
  Forall (fun a => a <= T) (exp_args env e) -> xeval T (map Fin env) e = Fin (eval env e).
Proof.
  induction e as [z|n d|i|a IHa|o a IHa b IHb|a IHa k|a IHa z|c a IHa b IHb|f a IHa|c IHc a IHa b IHb|e1 IH1 e2 IH2];
    intros env H; simpl in *.
  - reflexivity.
  - reflexivity.
  - change (Fin 0) with (Fin (0:R)). now rewrite (map_nth Fin).
  - now rewrite IHa.
  - apply Forall_app in H. destruct H as [H1 H2]. rewrite IHa, IHb by auto. destruct o; reflexivity.
  - now rewrite IHa.
  - now rewrite IHa.
  - apply Forall_app in H. destruct H as [H1 H2]. now rewrite IHa, IHb by auto.
  - destruct f; simpl in *; try (now rewrite IHa).
    inversion H as [|? ? Hle Hrest]; subst. rewrite IHa by auto. simpl.
    destruct (Rle_dec (eval env a) T); [reflexivity|contradiction].
  - apply Forall_app in H. destruct H as [H1 H]. apply Forall_app in H. destruct H as [H2 H3].
    rewrite IHc, IHa, IHb by auto. simpl. unfold where_. destruct (Req_EM_T (eval env c) 0); reflexivity.
  - apply Forall_app in H. destruct H as [H1 H2]. rewrite IH1 by auto.
    change (Fin (eval env e1) :: map Fin env) with (map Fin (eval env e1 :: env)). now apply IH2.
Qed.

Corollary bounded_exp_args_no_overflow T e benv m :
  exp_args_bounded e benv = Some m -> Q2R m <= T ->
  forall env, Forall2 in_itv env benv -> xeval T (map Fin env) e = Fin (eval env e).
Proof.
  intros Hb Hm env HB. apply xeval_no_overflow.
  eapply Forall_impl; [|eapply exp_args_bounded_sound; eauto]. simpl. intros a Ha. lra.
Qed.
