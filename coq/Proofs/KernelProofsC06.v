(* C06 (scalar part): the GENERATED forward kernels, as the wrappers call them, equal the documented definitions
   for all real inputs; C14 (scalar part): BCE-with-logits versus BCE of sigmoid, values and gradients, with the
   explicit epsilon-dependent bounds.  Builds on KernelProofs2.v (bce_core_eps, bce_dcore_eps, bce_bwd_eps,
   softplus_loss, sigmoid, bce_clamp_active_iff, bce_logits_forward_eq, ...). *)
From Coq Require Import Reals Lra Lia ZArith List.
From Coquelicot Require Import Coquelicot.
From SG Require Import Analysis.RealOps Analysis.Derive Gen.GenKernels Gen.GenKernelUse Proofs.KernelProofs Proofs.KernelProofs2.
Open Scope R_scope.

(* ---- activations ------------------------------------------------------------------------------------------- *)
Lemma relu_forward_def x : wrap_relu_out x = Rmax 0 x.
Proof. reflexivity. Qed.

Lemma leaky_relu_forward_def x s :
  (0 < x -> wrap_leaky_relu_out x s = x) /\ (x <= 0 -> wrap_leaky_relu_out x s = s * x).
Proof. unfold wrap_leaky_relu_out, leaky_relu_forward. split; intros H; now ind_simpl. Qed.

Lemma leaky_relu_forward_max_min x s : wrap_leaky_relu_out x s = Rmax 0 x + s * Rmin 0 x.
Proof.
  destruct (leaky_relu_forward_def x s) as [P N]. destruct (Rlt_dec 0 x) as [H|H].
  - rewrite P by auto. rewrite Rmax_right, Rmin_left by lra. ring.
  - rewrite N by lra. rewrite Rmax_left, Rmin_right by lra. ring.
Qed.

Lemma selu_forward_def x :
  wrap_selu_out x = wrap_selu_scale * (Rmax 0 x + Rmin 0 (wrap_selu_alpha * (exp x - 1))).
Proof. reflexivity. Qed.

Lemma selu_forward_piecewise x :
  (0 <= x -> wrap_selu_out x = wrap_selu_scale * x) /\
  (x <= 0 -> wrap_selu_out x = wrap_selu_scale * wrap_selu_alpha * (exp x - 1)).
Proof.
  pose proof wrap_selu_alpha_pos as Ha. rewrite selu_forward_def. split; intros H.
  - rewrite Rmax_right by lra. rewrite Rmin_left. ring.
    assert (1 <= exp x). { rewrite <- exp_0. destruct H as [H|H]. left. now apply exp_increasing. subst. lra. } nra.
  - rewrite Rmax_left by lra. rewrite Rmin_right. ring.
    assert (exp x <= 1). { rewrite <- exp_0. destruct H as [H|H]. left. now apply exp_increasing. subst. lra. } nra.
Qed.

Lemma tanh_forward_def x : wrap_tanh_out x = tanh x /\ wrap_tanh_out x = (exp x - exp (- x)) / (exp x + exp (- x)).
Proof.
  split. reflexivity. unfold wrap_tanh_out, tanh_forward, tanh, sinh, cosh.
  assert (0 < exp x) by apply exp_pos. assert (0 < exp (- x)) by apply exp_pos. field. lra.
Qed.

Lemma sigmoid_forward_def x : wrap_sigmoid_out x = 1 / (1 + exp (- x)) /\ wrap_sigmoid_out x = sigmoid x.
Proof.
  split. reflexivity. unfold wrap_sigmoid_out, sigmoid_forward, sigmoid.
  assert (0 < exp x) by apply exp_pos. rewrite exp_Ropp. field. lra.
Qed.

Lemma sigmoid_open_unit x : 0 < sigmoid x < 1.
Proof.
  unfold sigmoid. assert (0 < exp x) by apply exp_pos. split.
  - apply Rdiv_lt_0_compat; lra.
  - apply Rmult_lt_reg_r with (1 + exp x). lra. unfold Rdiv. rewrite Rmult_assoc, Rinv_l; lra.
Qed.

(* ---- losses -------------------------------------------------------------------------------------------------- *)
Lemma mse_forward_def p y : wrap_mse_loss_out p y = (p - y) * (p - y).
Proof. unfold wrap_mse_loss_out, mse_loss_forward. cbv zeta. ring. Qed.

Lemma ln_1p_le u : 0 <= u -> ln (1 + u) <= u.
Proof.
  intros [H|H].
  - left. rewrite <- (ln_exp u) at 2. apply ln_increasing. lra. apply exp_ineq1; lra.
  - subst. rewrite Rplus_0_r, ln_1. lra.
Qed.

Lemma ln_shift_bounds p e : 0 < p -> 0 <= e -> 0 <= ln (p + e) - ln p <= e / p.
Proof.
  intros Hp He. replace (p + e) with (p * (1 + e / p)) by (field; lra).
  assert (0 <= e / p) by (apply Rmult_le_pos; [lra|left; now apply Rinv_0_lt_compat]).
  rewrite ln_mult by lra. pose proof (ln_1p_le (e / p) H).
  assert (0 <= ln (1 + e / p)). { rewrite <- ln_1. destruct H as [H|H]. left. apply ln_increasing; lra. rewrite <- H, Rplus_0_r. lra. }
  lra.
Qed.

(* the guarded loss against the unguarded one -(y ln p + (1-y) ln (1-p)) *)
Lemma bce_core_guard_distance eps p y : 0 <= eps -> 0 < p < 1 -> 0 <= y <= 1 ->
  Rabs (bce_core_eps eps p y - bce_core_eps 0 p y) <= eps * (1 / p + 1 / (1 - p)).
Proof.
  intros He Hp Hy. unfold bce_core_eps. rewrite !Rplus_0_r.
  pose proof (ln_shift_bounds p eps (proj1 Hp) He) as [A1 A2].
  assert (Hq: 0 < 1 - p) by lra.
  pose proof (ln_shift_bounds (1 - p) eps Hq He) as [B1 B2].
  assert (P1: 0 < / p) by (apply Rinv_0_lt_compat; lra).
  assert (P2: 0 < / (1 - p)) by (apply Rinv_0_lt_compat; lra).
  unfold Rdiv in *. rewrite !Rmult_1_l.
  set (a := ln (p + eps) - ln p) in *. set (b := ln (1 - p + eps) - ln (1 - p)) in *.
  replace (- (y * ln (p + eps) + (1 - y) * ln (1 - p + eps)) - - (y * ln p + (1 - y) * ln (1 - p)))
    with (- (y * a + (1 - y) * b)) by (unfold a, b; ring).
  assert (0 <= eps * / p) by nra. assert (0 <= eps * / (1 - p)) by nra.
  apply Rabs_le. split; nra.
Qed.

Lemma bce_forward_def p y : 0 < p < 1 -> 0 <= y <= 1 ->
  wrap_binary_cross_entropy_out p y = - (y * ln (p + epsilon) + (1 - y) * ln (1 - p + epsilon)).
Proof.
  intros Hp Hy. rewrite bce_forward_shape. rewrite ind_eq_false, where_false; [reflexivity|].
  intros E. apply bce_clamp_active_iff in E; [lra|apply epsilon_pos|lra|lra].
Qed.

Lemma bce_forward_clamped p y : 0 <= p <= 1 -> 0 <= y <= 1 ->
  ((p = 0 /\ y = 1) \/ (p = 1 /\ y = 0) -> wrap_binary_cross_entropy_out p y = 100) /\
  (~ ((p = 0 /\ y = 1) \/ (p = 1 /\ y = 0)) -> wrap_binary_cross_entropy_out p y = bce_core_eps epsilon p y).
Proof.
  intros Hp Hy. rewrite bce_forward_shape. split; intros H.
  - rewrite ind_eq_true, where_1; [reflexivity|]. apply bce_clamp_active_iff; auto. apply epsilon_pos.
  - rewrite ind_eq_false, where_false; [reflexivity|]. intros E. apply H. apply bce_clamp_active_iff in E; auto. apply epsilon_pos.
Qed.

Lemma bce_forward_guard_distance p y : 0 < p < 1 -> 0 <= y <= 1 ->
  Rabs (wrap_binary_cross_entropy_out p y - - (y * ln p + (1 - y) * ln (1 - p))) <= epsilon * (1 / p + 1 / (1 - p)).
Proof.
  intros Hp Hy. rewrite bce_forward_def by auto.
  pose proof (bce_core_guard_distance epsilon p y (Rlt_le _ _ epsilon_pos) Hp Hy) as H.
  unfold bce_core_eps in H. rewrite !Rplus_0_r in H. exact H.
Qed.

(* bce with logits: softplus form and cross-entropy-of-sigmoid form, exactly (no epsilon) *)
Lemma ln_sigmoid x : ln (sigmoid x) = x - ln (1 + exp x) /\ ln (1 - sigmoid x) = - ln (1 + exp x).
Proof.
  assert (P: 0 < exp x) by apply exp_pos. unfold sigmoid. split.
  - unfold Rdiv. rewrite ln_mult, ln_Rinv, ln_exp; try lra. apply Rinv_0_lt_compat. lra.
  - replace (1 - exp x / (1 + exp x)) with (/ (1 + exp x)) by (field; lra). rewrite ln_Rinv; lra.
Qed.

Lemma bce_logits_forward_def x y :
  wrap_binary_cross_entropy_with_logits_out x y = ln (1 + exp x) - x * y /\
  wrap_binary_cross_entropy_with_logits_out x y = - (y * ln (sigmoid x) + (1 - y) * ln (1 - sigmoid x)).
Proof.
  rewrite bce_logits_forward_eq. unfold softplus_loss. split. reflexivity.
  destruct (ln_sigmoid x) as [-> ->]. ring.
Qed.

(* ---- C14: BCE-with-logits versus BCE o sigmoid ------------------------------------------------------------------- *)
Definition fused_value (x y:R) : R := wrap_binary_cross_entropy_with_logits_out x y.
Definition composed_value (x y:R) : R := wrap_binary_cross_entropy_out (wrap_sigmoid_out x) y.
(* gradients in x for the upstream gradient g: the fused closure, and the chain bce-closure then sigmoid-closure *)
Definition fused_grad (g x y:R) : R := wrap_binary_cross_entropy_with_logits_grad_y_pred g x y.
Definition composed_grad (g x y:R) : R :=
  wrap_sigmoid_grad_x (wrap_binary_cross_entropy_grad_y_pred g (wrap_sigmoid_out x) y) x.

Lemma sigmoid_odds x : 1 / sigmoid x = 1 + exp (- x) /\ 1 / (1 - sigmoid x) = 1 + exp x /\
                       sigmoid x / (1 - sigmoid x) = exp x /\ (1 - sigmoid x) / sigmoid x = exp (- x).
Proof.
  assert (P: 0 < exp x) by apply exp_pos. unfold sigmoid. rewrite exp_Ropp. repeat split; field; lra.
Qed.

Lemma fused_vs_composed_value x y : 0 <= y <= 1 ->
  Rabs (fused_value x y - composed_value x y) <= epsilon * (2 + exp x + exp (- x)).
Proof.
  intros Hy. unfold fused_value, composed_value.
  destruct (sigmoid_forward_def x) as [_ ->]. pose proof (sigmoid_open_unit x) as Hs.
  destruct (bce_logits_forward_def x y) as [_ ->].
  rewrite Rabs_minus_sym.
  eapply Rle_trans. apply bce_forward_guard_distance; auto.
  destruct (sigmoid_odds x) as [-> [-> _]]. apply Req_le. ring.
Qed.

Lemma exp_le_exp_abs x : exp x <= exp (Rabs x) /\ exp (- x) <= exp (Rabs x).
Proof.
  split.
  - destruct (Rle_lt_dec x (Rabs x)) as [[H|H]|H]. left. now apply exp_increasing. rewrite <- H. lra. pose proof (Rle_abs x). lra.
  - pose proof (Rle_abs (- x)) as H. rewrite Rabs_Ropp in H. destruct H as [H|H]. left. now apply exp_increasing. rewrite <- H. lra.
Qed.

Lemma fused_vs_composed_value_abs x y : 0 <= y <= 1 ->
  Rabs (fused_value x y - composed_value x y) <= 2 * epsilon * (1 + exp (Rabs x)).
Proof.
  intros Hy. eapply Rle_trans. now apply fused_vs_composed_value.
  destruct (exp_le_exp_abs x). pose proof epsilon_pos. nra.
Qed.

Lemma composed_grad_identity eps g p y : 0 < eps -> 0 < p < 1 ->
  bce_bwd_eps eps g p y * p * (1 - p) - g * (p - y) = g * (eps * (y - p) * (p / (1 - p + eps) + (1 - p) / (p + eps))).
Proof. intros He Hp. unfold bce_bwd_eps. field. lra. Qed.

Lemma fused_vs_composed_grad g x y : 0 <= y <= 1 ->
  Rabs (composed_grad g x y - fused_grad g x y) <= Rabs g * epsilon * (exp x + exp (- x)).
Proof.
  intros Hy. unfold composed_grad, fused_grad. rewrite bce_logits_backward_eq.
  unfold wrap_sigmoid_grad_x, sigmoid_backward. fold (wrap_sigmoid_out x).
  rewrite bce_backward_shape. destruct (sigmoid_forward_def x) as [_ ->].
  pose proof (sigmoid_open_unit x) as Hs. pose proof epsilon_pos as He.
  set (p := sigmoid x) in *.
  rewrite (composed_grad_identity epsilon g p y He Hs).
  destruct (sigmoid_odds x) as [_ [_ [O1 O2]]]. fold p in O1, O2. rewrite <- O1, <- O2.
  set (K := p / (1 - p + epsilon) + (1 - p) / (p + epsilon)).
  assert (K1: p / (1 - p + epsilon) <= p / (1 - p)).
  { unfold Rdiv. apply Rmult_le_compat_l. lra. apply Rinv_le_contravar; lra. }
  assert (K2: (1 - p) / (p + epsilon) <= (1 - p) / p).
  { unfold Rdiv. apply Rmult_le_compat_l. lra. apply Rinv_le_contravar; lra. }
  assert (K0: 0 <= K).
  { unfold K. apply Rplus_le_le_0_compat; apply Rmult_le_pos; try lra; left; apply Rinv_0_lt_compat; lra. }
  rewrite Rabs_mult.
  set (S := p / (1 - p) + (1 - p) / p).
  assert (KS: K <= S) by (unfold K, S; lra).
  assert (E1: 0 <= epsilon * K) by nra.
  assert (E2: epsilon * K <= epsilon * S) by nra.
  assert (B: Rabs (epsilon * (y - p) * K) <= epsilon * S).
  { replace (epsilon * (y - p) * K) with ((y - p) * (epsilon * K)) by ring.
    assert (-1 <= y - p <= 1) by lra. apply Rabs_le. split; nra. }
  pose proof (Rabs_pos g). fold S. rewrite (Rmult_assoc (Rabs g) epsilon S). now apply Rmult_le_compat_l.
Qed.

Lemma fused_vs_composed_grad_abs g x y : 0 <= y <= 1 ->
  Rabs (composed_grad g x y - fused_grad g x y) <= 2 * Rabs g * epsilon * exp (Rabs x).
Proof.
  intros Hy. eapply Rle_trans. now apply fused_vs_composed_grad.
  destruct (exp_le_exp_abs x). pose proof epsilon_pos. pose proof (Rabs_pos g).
  assert (0 <= Rabs g * epsilon) by nra. nra.
Qed.

(* with a vanishing guard the two sides coincide exactly *)
Lemma fused_equals_composed_without_guard x y :
  fused_value x y = bce_core_eps 0 (sigmoid x) y /\ (forall g, bce_bwd_eps 0 g (sigmoid x) y * sigmoid x * (1 - sigmoid x) = g * (sigmoid x - y)).
Proof.
  split.
  - unfold fused_value. destruct (bce_logits_forward_def x y) as [_ ->]. unfold bce_core_eps. now rewrite !Rplus_0_r.
  - intros g. pose proof (sigmoid_open_unit x). unfold bce_bwd_eps. field. lra.
Qed.

Lemma composition_closed_forms g x y :
  fused_grad g x y = g * (sigmoid x - y) /\
  composed_grad g x y = bce_bwd_eps epsilon g (sigmoid x) y * sigmoid x * (1 - sigmoid x) /\
  fused_value x y = ln (1 + exp x) - x * y.
Proof.
  split; [apply bce_logits_backward_eq|split].
  - unfold composed_grad, wrap_sigmoid_grad_x, sigmoid_backward. fold (wrap_sigmoid_out x).
    rewrite bce_backward_shape. destruct (sigmoid_forward_def x) as [_ ->]. reflexivity.
  - apply bce_logits_forward_def.
Qed.
