(* Lemmas shared by the proofs about the view / indexing ops (work package E1):
   list surgery (nth characterisations), multi-index membership, ravel/unravel, and the
   generic facts about scatter: bijection => backward is a gather, sequential accumulation = scatter,
   the VJP corollary of gather_scatter_adjoint.                                                  *)
From Coq Require Import List Arith ZArith Lia Bool Permutation.
Import ListNotations.
From SG Require Import Base.Sums Base.Cmp NumPy.Gather NumPy.Index NumPy.Tensor NumPy.ViewsAux.

(* ------------------------------------------------------------------ lists *)
Lemma nth_firstn {X} (dx : X) n : forall l k, k < n -> nth k (firstn n l) dx = nth k l dx.
Proof.
  induction n as [|n IH]; intros l k Hk. lia.
  destruct l as [|a l]; simpl. now destruct k.
  destruct k; simpl; auto. apply IH. lia.
Qed.

Lemma nth_skipn {X} (dx : X) n : forall l k, nth k (skipn n l) dx = nth (n + k) l dx.
Proof.
  induction n as [|n IH]; intros l k; simpl; auto.
  destruct l as [|a l]; simpl. now destruct k. apply IH.
Qed.

Lemma nth_remove_at {X} (dx : X) s l k :
  nth k (remove_at s l) dx = if k <? s then nth k l dx else nth (S k) l dx.
Proof.
  unfold remove_at. destruct (Nat.ltb_spec k s).
  - destruct (Nat.le_gt_cases (length l) k).
    + rewrite !nth_overflow; auto. rewrite app_length, firstn_length, skipn_length. lia.
    + rewrite app_nth1. apply nth_firstn; auto. rewrite firstn_length. lia.
  - destruct (Nat.le_gt_cases (length l) s).
    + rewrite firstn_all2 by lia. rewrite skipn_all2 by lia. rewrite app_nil_r.
      rewrite !nth_overflow; auto; lia.
    + rewrite app_nth2; rewrite firstn_length, Nat.min_l by lia; try lia.
      rewrite nth_skipn. f_equal. lia.
Qed.

Lemma nth_insert_at {X} (dx : X) d x l k : d <= length l ->
  nth k (insert_at d x l) dx = if k <? d then nth k l dx else if k =? d then x else nth (k - 1) l dx.
Proof.
  intros Hd. unfold insert_at. destruct (Nat.ltb_spec k d).
  - rewrite app_nth1. apply nth_firstn; auto. rewrite firstn_length. lia.
  - rewrite app_nth2; rewrite firstn_length, Nat.min_l by lia; try lia.
    destruct (Nat.eqb_spec k d). subst. now rewrite Nat.sub_diag.
    destruct (k - d) as [|m] eqn:E. lia. simpl. rewrite nth_skipn. f_equal. lia.
Qed.

Lemma nth_upd_nth {X} (dx : X) d x l k : d < length l ->
  nth k (upd_nth d x l) dx = if k =? d then x else nth k l dx.
Proof.
  intros Hd. unfold upd_nth. destruct (Nat.ltb_spec k d).
  - rewrite app_nth1 by (rewrite firstn_length; lia).
    destruct (Nat.eqb_spec k d); try lia. apply nth_firstn; auto.
  - rewrite app_nth2; rewrite firstn_length, Nat.min_l by lia; try lia.
    destruct (Nat.eqb_spec k d). subst. now rewrite Nat.sub_diag.
    destruct (k - d) as [|m] eqn:E. lia. cbn [nth]. rewrite nth_skipn. f_equal. lia.
Qed.

Lemma length_remove_at {X} s (l : list X) : s < length l -> length (remove_at s l) = length l - 1.
Proof. intros. unfold remove_at. rewrite app_length, firstn_length, skipn_length. lia. Qed.
Lemma length_insert_at {X} d (x : X) l : d <= length l -> length (insert_at d x l) = S (length l).
Proof. intros. unfold insert_at. rewrite app_length, firstn_length. simpl. rewrite skipn_length. lia. Qed.
Lemma length_upd_nth {X} d (x : X) l : d < length l -> length (upd_nth d x l) = length l.
Proof. intros. unfold upd_nth. rewrite app_length, firstn_length. cbn [length]. rewrite skipn_length. lia. Qed.
Lemma length_move {X} (dx : X) s d l : s < length l -> d < length l -> length (move dx s d l) = length l.
Proof. intros. unfold move. rewrite length_insert_at; rewrite length_remove_at; lia. Qed.

Lemma nth_move {X} (dx : X) s d l k : s < length l -> d < length l ->
  nth k (move dx s d l) dx =
    if k =? d then nth s l dx
    else let k' := if k <? d then k else k - 1 in
         if k' <? s then nth k' l dx else nth (S k') l dx.
Proof.
  intros Hs Hd. unfold move. rewrite nth_insert_at by (rewrite length_remove_at; lia).
  destruct (Nat.eqb_spec k d).
  - subst. rewrite Nat.ltb_irrefl. reflexivity.
  - destruct (Nat.ltb_spec k d); cbn zeta; apply nth_remove_at.
Qed.

(* the key law of movedim: moving back undoes the move, for every pair of positions *)
Lemma move_move {X} (dx : X) s d l : s < length l -> d < length l -> move dx d s (move dx s d l) = l.
Proof.
  intros Hs Hd. apply (nth_ext _ _ dx dx).
  - rewrite !length_move; auto; rewrite ?length_move; auto.
  - intros k Hk. rewrite !length_move in Hk by (rewrite ?length_move; auto).
    rewrite nth_move by (rewrite length_move; auto).
    destruct (Nat.eqb_spec k s).
    + subst. rewrite nth_move by auto. now rewrite Nat.eqb_refl.
    + cbn zeta. rewrite !nth_move by auto. cbn zeta.
      repeat match goal with
      | |- context[?a <? ?b] => destruct (Nat.ltb_spec a b)
      | |- context[?a =? ?b] => destruct (Nat.eqb_spec a b)
      end; try lia; f_equal; lia.
Qed.

Lemma map_nth_seq {X} (dx : X) (l : list X) : map (fun k => nth k l dx) (seq 0 (length l)) = l.
Proof.
  apply (nth_ext _ _ dx dx). now rewrite map_length, seq_length.
  intros k Hk. rewrite map_length, seq_length in Hk.
  rewrite (nth_indep _ dx (nth 0 l dx)) by (now rewrite map_length, seq_length).
  rewrite (map_nth (fun k => nth k l dx) (seq 0 (length l)) 0 k). now rewrite seq_nth.
Qed.

Lemma nth_map_seq {X} (dx : X) (f : nat -> X) n k : k < n -> nth k (map f (seq 0 n)) dx = f k.
Proof.
  intros Hk. rewrite (nth_indep _ dx (f 0)) by (now rewrite map_length, seq_length).
  rewrite (map_nth f (seq 0 n) 0 k). now rewrite seq_nth.
Qed.

(* ------------------------------------------------------------------ multi-indices *)
Lemma idx_eqb_spec : forall a b : idx, idx_eqb a b = true <-> a = b.
Proof.
  unfold idx_eqb. induction a as [|x a IH]; destruct b as [|y b]; simpl; split; intros E; try discriminate; auto.
  - apply andb_true_iff in E as [E1 E2]. apply Nat.eqb_eq in E1. apply IH in E2. congruence.
  - inversion E; subst. rewrite Nat.eqb_refl. simpl. now apply IH.
Qed.

Lemma Forall2_lt_nth i sh :
  Forall2 lt i sh <-> length i = length sh /\ forall k, k < length sh -> nth k i 0 < nth k sh 0.
Proof.
  split.
  - induction 1 as [|a d i sh Had F IH]; simpl. split; auto; intros; lia.
    destruct IH as [IL IN]. split. lia. intros [|k] Hk; auto. apply IN. lia.
  - revert sh. induction i as [|a i IH]; intros [|d sh] [HL HN]; simpl in *; try discriminate; constructor.
    + apply (HN 0). lia.
    + apply IH. split. lia. intros k Hk. apply (HN (S k)). lia.
Qed.

Lemma in_idxs_nth i sh :
  In i (idxs sh) <-> length i = length sh /\ forall k, k < length sh -> nth k i 0 < nth k sh 0.
Proof. rewrite in_idxs. apply Forall2_lt_nth. Qed.

Lemma in_idxs_length i sh : In i (idxs sh) -> length i = length sh.
Proof. intros Hi. now apply in_idxs_nth in Hi. Qed.

Lemma Forall2_len {X Y} (R : X -> Y -> Prop) l l' : Forall2 R l l' -> length l = length l'.
Proof. induction 1; simpl; auto. Qed.

Lemma in_idxs_app i1 i2 s1 s2 :
  length i1 = length s1 -> (In (i1 ++ i2) (idxs (s1 ++ s2)) <-> In i1 (idxs s1) /\ In i2 (idxs s2)).
Proof.
  rewrite !in_idxs. revert s1. induction i1 as [|a i1 IH]; intros [|d s1] HL; simpl in *; try discriminate.
  - split. intros F; split; auto. intros [_ F]; auto.
  - split.
    + intros F. inversion F; subst. apply IH in H4; [|lia]. destruct H4. split; auto.
    + intros [F1 F2]. inversion F1; subst. constructor; auto. apply IH; auto.
Qed.

(* ------------------------------------------------------------------ ravel / unravel *)
Lemma size_app s1 s2 : size (s1 ++ s2) = size s1 * size s2.
Proof. unfold size. induction s1; simpl. lia. rewrite IHs1. lia. Qed.

Lemma ravel_lt sh : forall i, In i (idxs sh) -> ravel sh i < size sh.
Proof.
  induction sh as [|d r IH]; intros i Hi; apply in_idxs in Hi; inversion Hi; subst; simpl.
  - unfold size; simpl; lia.
  - fold (size r). assert (ravel r l < size r) by (apply IH; now apply in_idxs).
    change (size (d :: r)) with (d * size r). nia.
Qed.

Lemma unravel_in sh : forall k, k < size sh -> In (unravel sh k) (idxs sh).
Proof.
  induction sh as [|d r IH]; intros k Hk; cbn [unravel].
  - now left.
  - change (size (d :: r)) with (d * size r) in Hk.
    assert (size r <> 0) by (intro E; rewrite E in Hk; lia).
    apply in_idxs. constructor.
    + apply Nat.div_lt_upper_bound; auto. lia.
    + apply in_idxs. apply IH. now apply Nat.mod_upper_bound.
Qed.

Lemma ravel_unravel sh : forall k, k < size sh -> ravel sh (unravel sh k) = k.
Proof.
  induction sh as [|d r IH]; intros k Hk; simpl.
  - unfold size in Hk; simpl in Hk; lia.
  - change (size (d :: r)) with (d * size r) in Hk.
    assert (size r <> 0) by (intro E; rewrite E in Hk; lia).
    rewrite IH by (now apply Nat.mod_upper_bound).
    rewrite (Nat.div_mod k (size r)) at 3 by auto. lia.
Qed.

Lemma unravel_ravel sh : forall i, In i (idxs sh) -> unravel sh (ravel sh i) = i.
Proof.
  induction sh as [|d r IH]; intros i Hi; apply in_idxs in Hi; inversion Hi; subst; simpl; auto.
  fold (size r).
  assert (Hr : ravel r l < size r) by (apply ravel_lt; now apply in_idxs).
  assert (size r <> 0) by lia.
  f_equal.
  - rewrite Nat.div_add_l by auto. rewrite Nat.div_small by auto. lia.
  - rewrite Nat.add_comm, Nat.mod_add by auto. rewrite Nat.mod_small by auto.
    apply IH. now apply in_idxs.
Qed.

Lemma ravel_inj sh i i' : In i (idxs sh) -> In i' (idxs sh) -> ravel sh i = ravel sh i' -> i = i'.
Proof.
  intros Hi Hi' E. assert (E' : unravel sh (ravel sh i) = unravel sh (ravel sh i')) by now rewrite E.
  rewrite !unravel_ravel in E'; auto.
Qed.

Lemma idxs_nonempty_size sh i : In i (idxs sh) -> 0 < size sh.
Proof. intros Hi. apply ravel_lt in Hi. lia. Qed.

(* ------------------------------------------------------------------ scatter *)
Section Scatter.
Context {A : Type} `{ScalarLaws A}.

Lemma tscatter_ext (o1 o2 : gather_op) g i :
  g_out o1 = g_out o2 -> (forall j, In j (idxs (g_out o1)) -> g_phi o1 j = g_phi o2 j) ->
  tscatter o1 g i = tscatter o2 g i.
Proof.
  intros Eo Ep. unfold tscatter, scatter. rewrite <- Eo. apply isum_ext. intros j Hj. now rewrite Ep.
Qed.

(* when the map is invertible on the index sets, the adjoint is the gather along the inverse *)
Lemma tscatter_inverse (op : gather_op) (psi : idx -> idx) g i :
  In (psi i) (idxs (g_out op)) ->
  g_phi op (psi i) = Some i ->
  (forall j, In j (idxs (g_out op)) -> g_phi op j = Some i -> j = psi i) ->
  tscatter op g i = g (psi i).
Proof.
  intros Hin Hphi Huniq. unfold tscatter, scatter.
  transitivity (isum (idxs (g_out op)) (fun j => if idx_eqb (psi i) j then g j else s0)).
  - apply isum_ext. intros j Hj. destruct (g_phi op j) as [i'|] eqn:Ep.
    + destruct (idx_eqb i' i) eqn:E1.
      * apply idx_eqb_spec in E1. subst i'. rewrite (Huniq j Hj Ep).
        assert (E : idx_eqb (psi i) (psi i) = true) by now apply idx_eqb_spec. now rewrite E.
      * destruct (idx_eqb (psi i) j) eqn:E2; auto.
        apply idx_eqb_spec in E2. subst j. rewrite Hphi in Ep. inversion Ep as [E3]. rewrite <- E3 in E1.
        assert (E : idx_eqb i i = true) by now apply idx_eqb_spec. congruence.
    + destruct (idx_eqb (psi i) j) eqn:E2; auto.
      apply idx_eqb_spec in E2. subst j. congruence.
  - apply (isum_pick idx_eqb idx_eqb_spec); auto. apply nodup_idxs.
Qed.

(* a backward that is the gather along bop is the adjoint of op as soon as bop inverts op on the index sets *)
Definition inverse_ops (op bop : gather_op) : Prop :=
  g_in bop = g_out op /\ g_out bop = g_in op /\
  (forall j, In j (idxs (g_out op)) ->
     exists i, g_phi op j = Some i /\ In i (idxs (g_in op)) /\ g_phi bop i = Some j) /\
  (forall i, In i (idxs (g_in op)) ->
     exists j, g_phi bop i = Some j /\ In j (idxs (g_out op)) /\ g_phi op j = Some i).

Lemma inverse_ops_scatter op bop g i :
  inverse_ops op bop -> In i (idxs (g_in op)) -> apply_op bop g i = tscatter op g i.
Proof.
  intros (_ & _ & Hf & Hb) Hi. destruct (Hb i Hi) as (j & Ebj & Hj & Efj).
  unfold apply_op, tgather, gather. rewrite Ebj. symmetry.
  apply (tscatter_inverse op (fun _ => j)); auto.
  intros j' Hj' E'. destruct (Hf j' Hj') as (i' & E1 & _ & E2). rewrite E' in E1. inversion E1; subst. rewrite Ebj in E2. now inversion E2.
Qed.

Lemma inverse_ops_maps_into op bop : inverse_ops op bop -> maps_into op.
Proof. intros (_ & _ & Hf & _) j Hj. destruct (Hf j Hj) as (i & E & Hi & _). eauto. Qed.

Lemma inverse_ops_bijective op bop : inverse_ops op bop -> bijective op.
Proof.
  intros Hinv. split; [now apply (inverse_ops_maps_into op bop)|]. destruct Hinv as (_ & _ & Hf & Hb). split.
  - intros j j' i Hj Hj' E E'. destruct (Hf j Hj) as (i1 & E1 & _ & B1). destruct (Hf j' Hj') as (i2 & E2 & _ & B2).
    rewrite E in E1. rewrite E' in E2. inversion E1; inversion E2; subst. rewrite B1 in B2. now inversion B2.
  - intros i Hi. destruct (Hb i Hi) as (j & _ & Hj & E). eauto.
Qed.

Lemma inverse_ops_sym op bop : inverse_ops op bop -> inverse_ops bop op.
Proof.
  intros (E1 & E2 & Hf & Hb). unfold inverse_ops. rewrite E1, E2. repeat split; auto.
Qed.

(* sequential unbuffered accumulation (np.add.at) computes the scatter *)
Lemma fold_add_at (phi : imap) (g : idx -> A) (outs : list idx) : forall (acc : idx -> A) i,
  fold_left (fun (acc : idx -> A) (j : idx) =>
               fun i => match phi j with
                        | Some i' => if idx_eqb i' i then sadd (acc i) (g j) else acc i
                        | None => acc i
                        end) outs acc i
  = sadd (acc i) (isum outs (fun j => match phi j with Some i' => if idx_eqb i' i then g j else s0 | None => s0 end)).
Proof.
  induction outs as [|j outs IH]; intros acc i; simpl.
  - unfold isum; simpl. now rewrite sadd_0_r.
  - rewrite IH. unfold isum; simpl. fold (isum outs (fun j0 => match phi j0 with Some i' => if idx_eqb i' i then g j0 else s0 | None => s0 end)).
    destruct (phi j) as [i'|]; [destruct (idx_eqb i' i)|].
    + now rewrite sadd_assoc.
    + now rewrite sadd_0_l.
    + now rewrite sadd_0_l.
Qed.

(* the VJP identity <g, gather phi x> = <scatter phi g, x> for every op whose map lands in the input bounds *)
Theorem op_vjp (op : gather_op) (x g : idx -> A) : maps_into op ->
  tdot (g_out op) g (tgather (g_phi op) x) = tdot (g_in op) (tscatter op g) x.
Proof.
  intros M. unfold tdot, tgather, tscatter.
  apply (gather_scatter_adjoint idx idx idx_eqb idx_eqb_spec). apply nodup_idxs.
  intros j i Hj E. destruct (M j Hj) as (i' & E' & Hi). congruence.
Qed.

(* ... restated for a backward function b that agrees with the scatter on the input index set *)
Corollary vjp_of_backward (op : gather_op) (b : (idx -> A) -> idx -> A) (x g : idx -> A) :
  maps_into op -> (forall i, In i (idxs (g_in op)) -> b g i = tscatter op g i) ->
  tdot (g_out op) g (tgather (g_phi op) x) = tdot (g_in op) (b g) x.
Proof.
  intros M Hb. rewrite (op_vjp op x g M). unfold tdot, dot. apply isum_ext. intros i Hi. now rewrite Hb.
Qed.

End Scatter.
