(* The ops that keep the flat (row-major) order: reshape, flatten, squeeze, unsqueeze, clone.
   Core fact: an op that preserves the flat order between shapes of equal size is inverted by the
   reshape back, hence "gradient reshaped to the operand's shape" is its scatter.                  *)
From Coq Require Import List Arith ZArith Lia Bool Permutation.
Import ListNotations.
From SG Require Import Base.Sums Base.Cmp NumPy.Gather NumPy.Index NumPy.Tensor NumPy.ViewsAux NumPy.Views NumPy.Spec.
From SG Require Import Proofs.ViewsAuxProofs.

(* ------------------------------------------------------------------ generic *)
Lemma reshape_op_inverse a b : size a = size b -> inverse_ops (reshape_op a b) (reshape_op b a).
Proof.
  intros E. unfold inverse_ops; cbn [g_in g_out g_phi reshape_op]. repeat split; auto.
  - intros j Hj. exists (unravel a (ravel b j)).
    assert (Hr : ravel b j < size a) by (rewrite E; now apply ravel_lt).
    split; auto. split. now apply unravel_in. rewrite ravel_unravel by auto. now rewrite unravel_ravel.
  - intros i Hi. exists (unravel b (ravel a i)).
    assert (Hr : ravel a i < size b) by (rewrite <- E; now apply ravel_lt).
    split; auto. split. now apply unravel_in. rewrite ravel_unravel by auto. now rewrite unravel_ravel.
Qed.

Lemma op_equiv_sym o1 o2 : op_equiv o1 o2 -> op_equiv o2 o1.
Proof. intros (E1 & E2 & E3). unfold op_equiv. rewrite <- E2. repeat split; auto. intros j Hj. symmetry. auto. Qed.

Lemma op_equiv_refl o : op_equiv o o.
Proof. unfold op_equiv; auto. Qed.

Lemma op_equiv_trans o1 o2 o3 : op_equiv o1 o2 -> op_equiv o2 o3 -> op_equiv o1 o3.
Proof.
  intros (A1 & A2 & A3) (B1 & B2 & B3). unfold op_equiv. repeat split; try congruence.
  intros j Hj. rewrite A3 by auto. apply B3. now rewrite <- A2.
Qed.

Lemma inverse_ops_equiv o1 o2 b1 b2 :
  op_equiv o1 o2 -> op_equiv b1 b2 -> inverse_ops o2 b2 -> inverse_ops o1 b1.
Proof.
  intros (Ei & Eo & Ep) (Fi & Fo & Fp) (I1 & I2 & Hf & Hb).
  unfold inverse_ops. rewrite Ei, Eo, Fi, Fo. repeat split; auto.
  - intros j Hj. destruct (Hf j Hj) as (i & E & Hi & B). exists i. rewrite Ep by (now rewrite Eo).
    repeat split; auto. rewrite Fp; auto. rewrite Fo, I2. auto.
  - intros i Hi. destruct (Hb i Hi) as (j & B & Hj & E). exists j. rewrite Fp by (now rewrite Fo, I2).
    repeat split; auto. rewrite Ep; auto. now rewrite Eo.
Qed.

Lemma order_preserving_equiv_reshape op :
  order_preserving op -> op_equiv op (reshape_op (g_in op) (g_out op)).
Proof.
  intros OP. unfold op_equiv; cbn [g_in g_out g_phi reshape_op]. repeat split; auto.
  intros j Hj. destruct (OP j Hj) as (i & E & Hi & R). rewrite E, <- R. now rewrite unravel_ravel.
Qed.

Lemma reshape_op_order_preserving a b : size a = size b -> order_preserving (reshape_op a b).
Proof.
  intros E j Hj. cbn [g_in g_out g_phi reshape_op] in *. exists (unravel a (ravel b j)).
  assert (Hr : ravel b j < size a) by (rewrite E; now apply ravel_lt).
  split; auto. split. now apply unravel_in. now apply ravel_unravel.
Qed.

(* the packaged consequence used for every order-preserving op *)
Lemma order_preserving_inverse op :
  order_preserving op -> size (g_out op) = size (g_in op) ->
  inverse_ops op (reshape_op (g_out op) (g_in op)).
Proof.
  intros OP E. apply (inverse_ops_equiv _ (reshape_op (g_in op) (g_out op)) _ (reshape_op (g_out op) (g_in op))).
  - now apply order_preserving_equiv_reshape.
  - apply op_equiv_refl.
  - apply reshape_op_inverse. auto.
Qed.

(* ------------------------------------------------------------------ infer_shape *)
Definition negs (t : list Z) : nat := length (filter (fun z => z <? 0)%Z t).
Definition known (t : list Z) : nat := fold_right Nat.mul 1 (map Z.to_nat (filter (fun z => 0 <=? z)%Z t)).
Definition fillq (q : nat) (z : Z) : nat := if (z <? 0)%Z then q else Z.to_nat z.

Lemma size_fillq q t : size (map (fillq q) t) = q ^ negs t * known t.
Proof.
  unfold negs, known, fillq. induction t as [|z t IH]; simpl. reflexivity.
  change (fold_right Nat.mul 1 (map (fun z0 : Z => if (z0 <? 0)%Z then q else Z.to_nat z0) t))
    with (size (map (fun z0 : Z => if (z0 <? 0)%Z then q else Z.to_nat z0) t)).
  rewrite IH. destruct (Z.ltb_spec z 0); destruct (Z.leb_spec 0 z); try lia; simpl; lia.
Qed.

Lemma fillq_nonneg q t : negs t = 0 -> map (fillq q) t = map Z.to_nat t.
Proof.
  unfold negs, fillq. induction t as [|z t IH]; simpl; auto.
  destruct (Z.ltb_spec z 0); simpl; intros E; try discriminate. now rewrite IH.
Qed.

Lemma infer_shape_spec total t out :
  infer_shape total t = Some out ->
  out = map (fillq (total / known t)) t /\ size out = total /\
  (negs t = 0 \/ (negs t = 1 /\ known t <> 0 /\ total mod known t = 0)).
Proof.
  unfold infer_shape. fold (negs t) (known t).
  destruct (negs t) as [|[|k]] eqn:En; try discriminate.
  - destruct (Nat.eqb_spec (known t) total) as [Ek|]; try discriminate. intros E; inversion E; subst out.
    rewrite (fillq_nonneg (total / known t)) by auto. split; auto. split; [|auto].
    rewrite <- (fillq_nonneg 0) by auto. rewrite size_fillq, En. simpl. lia.
  - destruct (Nat.eqb_spec (known t) 0); simpl; try discriminate.
    destruct (Nat.eqb_spec (total mod known t) 0); simpl; try discriminate.
    intros E; inversion E; subst. split; auto. fold (fillq (total / known t)).
    rewrite size_fillq, En. split; [|right; auto].
    simpl. rewrite Nat.mul_1_r. rewrite Nat.mul_comm. symmetry.
    rewrite (Nat.div_mod total (known t)) at 1 by auto. lia.
Qed.

Lemma infer_shape_of_nat total sh : size sh = total -> infer_shape total (map Z.of_nat sh) = Some sh.
Proof.
  intros E. unfold infer_shape.
  assert (F1 : filter (fun z => (z <? 0)%Z) (map Z.of_nat sh) = []).
  { clear. induction sh as [|d r IH]; simpl; auto. destruct (Z.ltb_spec (Z.of_nat d) 0); try lia. auto. }
  assert (F2 : filter (fun z => (0 <=? z)%Z) (map Z.of_nat sh) = map Z.of_nat sh).
  { clear. induction sh as [|d r IH]; simpl; auto. destruct (Z.leb_spec 0 (Z.of_nat d)); try lia. now rewrite IH. }
  rewrite F1, F2. simpl.
  assert (M : map Z.to_nat (map Z.of_nat sh) = sh).
  { clear. induction sh as [|d r IH]; simpl; auto. now rewrite Nat2Z.id, IH. }
  rewrite M. fold (size sh). rewrite E, Nat.eqb_refl. reflexivity.
Qed.

(* ------------------------------------------------------------------ reshape *)
Lemma np_reshape_some sh t op :
  np_reshape sh t = Some op -> exists out, infer_shape (size sh) t = Some out /\ op = reshape_op sh out /\ size out = size sh.
Proof.
  unfold np_reshape. destruct (infer_shape (size sh) t) as [out|] eqn:E; simpl; try discriminate.
  intros X; inversion X; subst. exists out. repeat split; auto. now apply infer_shape_spec in E.
Qed.

Lemma bwd_reshape_some gsh sh : size gsh = size sh -> bwd_reshape gsh sh = Some (reshape_op gsh sh).
Proof. intros E. unfold bwd_reshape, np_reshape. rewrite infer_shape_of_nat; auto. Qed.

Theorem reshape_inverse sh t op :
  fwd_reshape sh t = Some op ->
  g_in op = sh /\ exists bop, bwd_reshape (g_out op) sh = Some bop /\ inverse_ops op bop.
Proof.
  intros F. apply np_reshape_some in F as (out & _ & -> & E). split; auto.
  exists (reshape_op out sh). cbn [g_out reshape_op]. split. now apply bwd_reshape_some.
  apply reshape_op_inverse. auto.
Qed.

(* ------------------------------------------------------------------ flatten *)
Theorem flatten_inverse sh s e op :
  fwd_flatten sh s e = Some op ->
  g_in op = sh /\ exists bop, bwd_flatten (g_out op) sh = Some bop /\ inverse_ops op bop.
Proof.
  unfold fwd_flatten, bwd_flatten. destruct (flatten_target sh s e) as [t|]; try discriminate.
  apply reshape_inverse.
Qed.

(* ------------------------------------------------------------------ clone *)
Lemma id_op_inverse sh : inverse_ops (id_op sh) (id_op sh).
Proof. unfold inverse_ops, id_op; cbn. repeat split; auto; intros j Hj; exists j; auto. Qed.

Theorem clone_inverse sh op :
  fwd_clone sh = Some op ->
  g_in op = sh /\ exists bop, bwd_clone (g_out op) = Some bop /\ inverse_ops op bop.
Proof.
  unfold fwd_clone, bwd_clone. intros E; inversion E; subst. cbn. split; auto.
  exists (id_op sh). split; auto. apply id_op_inverse.
Qed.

(* ------------------------------------------------------------------ masks (squeeze / expand_dims) *)
(* a mask fits a shape for squeezing: same length, masked positions have size 1 *)
Fixpoint sq_fits (mask : list bool) (sh : shape) : Prop :=
  match mask, sh with
  | [], [] => True
  | b :: m, d :: r => (b = true -> d = 1) /\ sq_fits m r
  | _, _ => False
  end.

Lemma size_drop_mask mask : forall sh, sq_fits mask sh -> size (drop_mask mask sh) = size sh.
Proof.
  induction mask as [|b m IH]; intros [|d r] F; simpl in F; try contradiction; auto.
  destruct F as [Fb F]. destruct b; cbn [drop_mask].
  - rewrite IH by auto. rewrite (Fb eq_refl). change (size (1 :: r)) with (1 * size r). lia.
  - change (size (d :: drop_mask m r)) with (d * size (drop_mask m r)).
    change (size (d :: r)) with (d * size r). now rewrite IH.
Qed.

Lemma fill_mask_in mask : forall sh j, sq_fits mask sh -> In j (idxs (drop_mask mask sh)) ->
  In (fill_mask mask 0 j) (idxs sh) /\ ravel sh (fill_mask mask 0 j) = ravel (drop_mask mask sh) j.
Proof.
  induction mask as [|b m IH]; intros [|d r] j F Hj; simpl in F; try contradiction.
  - cbn in *. destruct Hj as [<-|[]]. split; auto.
  - destruct F as [Fb F]. destruct b; cbn [drop_mask fill_mask] in *.
    + destruct (IH r j F Hj) as [I R]. rewrite (Fb eq_refl). split.
      * apply in_idxs. constructor. lia. now apply in_idxs.
      * cbn [ravel]. now rewrite R.
    + apply in_idxs in Hj. inversion Hj as [|a d' t r' Ha Ht]; subst.
      apply in_idxs in Ht. destruct (IH r t F Ht) as [I R]. split.
      * apply in_idxs. constructor; auto. now apply in_idxs.
      * cbn [ravel]. rewrite R. now rewrite size_drop_mask.
Qed.

Lemma squeeze_mask_order_preserving mask sh :
  sq_fits mask sh ->
  order_preserving (mkGather sh (drop_mask mask sh) (fun j => Some (fill_mask mask 0 j))).
Proof.
  intros F j Hj. cbn [g_in g_out g_phi] in *. exists (fill_mask mask 0 j).
  destruct (fill_mask_in mask sh j F Hj). auto.
Qed.

(* expand_dims: inserting 1s *)
Fixpoint count_false (mask : list bool) : nat :=
  match mask with [] => 0 | true :: m => count_false m | false :: m => S (count_false m) end.

Lemma fill_mask_fits mask : forall sh, count_false mask = length sh ->
  sq_fits mask (fill_mask mask 1 sh) /\ drop_mask mask (fill_mask mask 1 sh) = sh.
Proof.
  induction mask as [|b m IH]; intros sh E; simpl in E.
  - destruct sh; try discriminate. cbn. auto.
  - destruct b; cbn [fill_mask].
    + destruct (IH sh E) as [F D]. cbn [sq_fits drop_mask]. auto.
    + destruct sh as [|d r]; try discriminate. injection E as E.
      destruct (IH r E) as [F D]. cbn [sq_fits drop_mask]. split. split; auto. discriminate. now rewrite D.
Qed.

Lemma sq_fits_length mask : forall sh, sq_fits mask sh -> length mask = length sh.
Proof. induction mask as [|b m IH]; intros [|d r] F; simpl in *; try contradiction; auto. destruct F. f_equal. auto. Qed.

Lemma sq_fits_nth mask : forall sh k, sq_fits mask sh -> nth k mask false = true -> nth k sh 0 = 1.
Proof.
  induction mask as [|b m IH]; intros [|d r] k F E; simpl in F; try contradiction.
  - destruct k; discriminate.
  - destruct F as [Fb F]. destruct k; simpl in *; auto.
Qed.

Lemma sq_fits_map (f : nat -> bool) : forall sh a,
  (forall k, k < length sh -> f (a + k) = true -> nth k sh 0 = 1) -> sq_fits (map f (seq a (length sh))) sh.
Proof.
  induction sh as [|d r IH]; intros a Hf; simpl; auto. split.
  - intros E. apply (Hf 0). simpl; lia. now rewrite Nat.add_0_r.
  - apply IH. intros k Hk E. apply (Hf (S k)). simpl; lia. now rewrite Nat.add_succ_r.
Qed.

Lemma memb_In k l : memb k l = true <-> In k l.
Proof.
  unfold memb. rewrite existsb_exists. split.
  - intros (x & Hx & E). apply Nat.eqb_eq in E. now subst.
  - intros Hk. exists k. split; auto. apply Nat.eqb_refl.
Qed.

Lemma nodupb_NoDup l : nodupb l = true <-> NoDup l.
Proof.
  induction l as [|a l IH]; simpl. split; auto. constructor.
  rewrite andb_true_iff, negb_true_iff, IH. split.
  - intros [M N]. constructor; auto. intro Hc. apply memb_In in Hc. congruence.
  - intros N. inversion N; subst. split; auto. destruct (memb a l) eqn:E; auto. apply memb_In in E. contradiction.
Qed.

Lemma norm_axis_lt n z k : norm_axis n z = Some k -> k < n.
Proof.
  unfold norm_axis. destruct ((0 <=? z)%Z && (z <? Z.of_nat n)%Z) eqn:E1.
  - intros X; inversion X; subst. apply andb_true_iff in E1 as [A B]. apply Z.leb_le in A. apply Z.ltb_lt in B. lia.
  - destruct ((z <? 0)%Z && (- Z.of_nat n <=? z)%Z) eqn:E2; try discriminate.
    intros X; inversion X; subst. apply andb_true_iff in E2 as [A B]. apply Z.ltb_lt in A. apply Z.leb_le in B. lia.
Qed.

Lemma norm_axes_spec n : forall l ks, norm_axes n l = Some ks ->
  length ks = length l /\ (forall k, In k ks -> k < n) /\ ks = map (fun z => match norm_axis n z with Some k => k | None => 0 end) l
  /\ (forall z, In z l -> norm_axis n z <> None).
Proof.
  induction l as [|z l IH]; intros ks E; simpl in E.
  - inversion E; subst. repeat split; auto; intros ? [].
  - destruct (norm_axis n z) as [k|] eqn:Ez; try discriminate.
    destruct (norm_axes n l) as [r|] eqn:El; try discriminate. inversion E; subst.
    destruct (IH r eq_refl) as (L & B & M & N). repeat split; simpl; auto.
    + intros k' [<-|Hk]; auto. eapply norm_axis_lt; eauto.
    + rewrite Ez. now f_equal.
    + intros z' [<-|Hz]; auto. congruence.
Qed.

Lemma norm_axes_none n : forall l, norm_axes n l = None <-> exists z, In z l /\ norm_axis n z = None.
Proof.
  induction l as [|z l IH]; simpl.
  - split. discriminate. intros (z & [] & _).
  - destruct (norm_axis n z) as [k|] eqn:Ez.
    + destruct (norm_axes n l) as [r|] eqn:El.
      * split. discriminate. intros (z' & [<-|Hz] & E). congruence.
        destruct IH as [_ IH]. assert (X : Some r = None) by (apply IH; eauto). discriminate.
      * split; auto. intros _. destruct IH as [IH _]. destruct (IH eq_refl) as (z' & Hz & E). eauto.
    + split; auto. intros _. eauto.
Qed.

Lemma count_false_split mask : count_false mask + length (filter (fun b : bool => b) mask) = length mask.
Proof. induction mask as [|[|] m IH]; simpl; lia. Qed.

Lemma count_true_mask_of m ks :
  NoDup ks -> (forall k, In k ks -> k < m) -> length (filter (fun b : bool => b) (mask_of m ks)) = length ks.
Proof.
  intros ND B. unfold mask_of.
  assert (E : forall (f : nat -> bool) l, length (filter (fun b : bool => b) (map f l)) = length (filter f l)).
  { intros f l. induction l as [|a l IH]; simpl; auto. destruct (f a); simpl; auto. }
  rewrite E. apply Permutation_length. apply NoDup_Permutation; auto.
  - apply NoDup_filter. apply seq_NoDup.
  - intros k. rewrite filter_In, in_seq, memb_In. split. intros [_ ?]; auto. intros Hk. split; auto. specialize (B k Hk). lia.
Qed.

Lemma mask_of_length m ks : length (mask_of m ks) = m.
Proof. unfold mask_of. now rewrite map_length, seq_length. Qed.

Lemma mask_of_nth m ks k : k < m -> nth k (mask_of m ks) false = memb k ks.
Proof. intros Hk. unfold mask_of. now rewrite nth_map_seq. Qed.

(* ------------------------------------------------------------------ np.squeeze / np.expand_dims *)
Lemma np_squeeze_some sh axes op :
  np_squeeze sh axes = Some op ->
  exists mask, sq_fits mask sh /\ op = mkGather sh (drop_mask mask sh) (fun j => Some (fill_mask mask 0 j)).
Proof.
  unfold np_squeeze. destruct axes as [l|].
  - destruct (norm_axes (length sh) l) as [ks|] eqn:En; try discriminate.
    destruct (nodupb ks) eqn:Nd; simpl; try discriminate.
    destruct (forallb (fun k => nth k sh 0 =? 1) ks) eqn:Fa; simpl; try discriminate.
    intros E; inversion E; subst. exists (mask_of (length sh) ks). split; auto.
    unfold mask_of. apply sq_fits_map. intros k Hk M. simpl in M. apply memb_In in M.
    rewrite forallb_forall in Fa. specialize (Fa k M). now apply Nat.eqb_eq in Fa.
  - intros E; inversion E; subst. exists (map (fun d => d =? 1) sh). split; auto.
    clear. induction sh as [|d r IH]; simpl; auto. split; auto. intros E. now apply Nat.eqb_eq in E.
Qed.

Lemma np_squeeze_order_preserving sh axes op :
  np_squeeze sh axes = Some op -> g_in op = sh /\ order_preserving op /\ size (g_out op) = size sh.
Proof.
  intros E. apply np_squeeze_some in E as (mask & F & ->). cbn [g_in g_out]. split; auto. split.
  now apply squeeze_mask_order_preserving. now apply size_drop_mask.
Qed.

Lemma id_op_order_preserving sh : order_preserving (id_op sh).
Proof. intros j Hj. exists j. cbn in *. auto. Qed.

Lemma fwd_squeeze_order_preserving sh arg op :
  fwd_squeeze sh arg = Some op -> g_in op = sh /\ order_preserving op /\ size (g_out op) = size sh.
Proof.
  assert (ID : g_in (id_op sh) = sh /\ order_preserving (id_op sh) /\ size (g_out (id_op sh)) = size sh)
    by (repeat split; auto; apply id_op_order_preserving).
  unfold fwd_squeeze. destruct (sq_axes arg) as [l|].
  - destruct (norm_axes (Nat.max (length sh) 1) l) as [ks|]; try discriminate.
    destruct (nodupb ks); cbn [negb]; try discriminate.
    destruct (filter _ ks) as [|k ks'] eqn:Fl. intros E; inversion E; subst; auto. apply np_squeeze_order_preserving.
  - apply np_squeeze_order_preserving.
Qed.

Theorem squeeze_inverse sh arg op :
  fwd_squeeze sh arg = Some op ->
  g_in op = sh /\ exists bop, bwd_squeeze (g_out op) sh = Some bop /\ inverse_ops op bop.
Proof.
  intros F. apply fwd_squeeze_order_preserving in F as (Ei & OP & Es). split; auto.
  exists (reshape_op (g_out op) sh). split. unfold bwd_squeeze. now apply bwd_reshape_some.
  subst sh. apply order_preserving_inverse; auto.
Qed.

Lemma np_expand_dims_some sh l op :
  np_expand_dims sh l = Some op ->
  exists ks, norm_axes (length l + length sh) l = Some ks /\ NoDup ks /\
    let mask := mask_of (length l + length sh) ks in
    op = reshape_op sh (fill_mask mask 1 sh) /\ count_false mask = length sh.
Proof.
  unfold np_expand_dims. destruct (norm_axes (length l + length sh) l) as [ks|] eqn:En; try discriminate.
  destruct (nodupb ks) eqn:Nd; simpl; try discriminate. intros E; inversion E; subst.
  apply nodupb_NoDup in Nd. exists ks. repeat split; auto.
  destruct (norm_axes_spec _ _ _ En) as (L & B & _).
  pose proof (count_false_split (mask_of (length l + length sh) ks)) as S.
  rewrite count_true_mask_of, mask_of_length in S by auto. lia.
Qed.

Theorem unsqueeze_inverse sh arg op :
  fwd_unsqueeze sh arg = Some op ->
  g_in op = sh /\ exists bop, bwd_unsqueeze (g_out op) arg = Some bop /\ inverse_ops op bop.
Proof.
  unfold fwd_unsqueeze, bwd_unsqueeze. set (l := unsq_axes arg). intros F.
  apply np_expand_dims_some in F as (ks & En & ND & -> & Cf). cbn [g_in g_out reshape_op]. split; auto.
  set (m := length l + length sh) in *. set (mask := mask_of m ks) in *. set (out := fill_mask mask 1 sh).
  destruct (fill_mask_fits mask sh Cf) as [Fit Drop]. fold out in Fit, Drop.
  assert (Lo : length out = m). { apply sq_fits_length in Fit. unfold mask in Fit. now rewrite mask_of_length in Fit. }
  destruct (norm_axes_spec _ _ _ En) as (L & B & _).
  assert (Sq : np_squeeze out (Some l) = Some (mkGather out (drop_mask mask out) (fun j => Some (fill_mask mask 0 j)))).
  { unfold np_squeeze. rewrite Lo, En. apply nodupb_NoDup in ND. rewrite ND. simpl.
    assert (Fa : forallb (fun k => nth k out 0 =? 1) ks = true).
    { apply forallb_forall. intros k Hk. apply Nat.eqb_eq. apply (sq_fits_nth mask); auto.
      unfold mask. rewrite mask_of_nth by auto. now apply memb_In. }
    rewrite Fa. reflexivity. }
  eexists. split. exact Sq.
  assert (Es : size out = size sh).
  { transitivity (size (drop_mask mask out)). symmetry; now apply size_drop_mask. now rewrite Drop. }
  apply (inverse_ops_equiv _ (reshape_op sh out) _ (reshape_op out sh)).
  - apply op_equiv_refl.
  - pose proof (squeeze_mask_order_preserving mask out Fit) as OP.
    apply order_preserving_equiv_reshape in OP. cbn [g_in g_out] in OP. rewrite Drop in OP. rewrite Drop. exact OP.
  - apply reshape_op_inverse. auto.
Qed.
