(* C08, consequences of the refinement: what the documented algorithms (State/OptimSpec.v) — and therefore, through
   [sgd_refines] / [adam_refines], the steps GENERATED from synapgrad/optim/optimizers.py — do on concrete histories.
   They serve two purposes: (1) they show the specification is the textbook rule and not a vacuous restatement of the
   code (plain SGD is theta - lr g; Adam's first update moves every element by exactly lr against the sign of its
   gradient, whatever the gradient's magnitude); (2) they are statements about the code model a user relies on. *)
From Coq Require Import List Bool Arith Lia QArith Qreals Reals Lra FunctionalExtensionality.
Import ListNotations.
From SG Require Import State.ArrOps State.ArrOpsR Gen.GenOptim State.Optim State.OptimSpec Proofs.OptimProofs.
Local Open Scope R_scope.

(* ---- plain SGD is gradient descent -------------------------------------------------------------------------- *)
Lemma sgd_plain_update (c : sgd_conf) b theta g :
  Qeq_bool (c_mu c) 0 = true -> Qeq_bool (c_lambda c) 0 = true -> c_maximize c = false ->
  sgd_update c b theta g = (b, fun k => theta k - Q2R (c_lr c) * g k).
Proof. intros Hm Hl Hx. unfold sgd_update. rewrite Hm, Hl, Hx. reflexivity. Qed.

(* n plain steps on a constant accumulated gradient: theta - n lr g (no zero_grad between steps: the same buffer
   is consumed again, as the spec says) *)
Lemma sgd_plain_steps (c : sgd_conf) theta g (n : nat) :
  Qeq_bool (c_mu c) 0 = true -> Qeq_bool (c_lambda c) 0 = true -> c_maximize c = false ->
  map sdata (s_run _ (sgd_update c) [mkSparam theta true true (Some g) None] (repeat Step n)) =
  [fun k => theta k - INR n * (Q2R (c_lr c) * g k)].
Proof.
  intros Hm Hl Hx. revert theta. induction n as [|n IH]; intros theta.
  - cbn. f_equal. extensionality k. lra.
  - cbn [repeat s_run fold_left s_ev map s_step sgiven sreq sacc andb sstate sdata].
    rewrite (sgd_plain_update c None theta g Hm Hl Hx). cbn [fst snd].
    change (fold_left (s_ev _ (sgd_update c)) (repeat Step n) ?l) with (s_run _ (sgd_update c) l (repeat Step n)).
    rewrite IH. f_equal. extensionality k. rewrite S_INR. lra.
Qed.

Lemma sgd_model_plain_steps (h : sgd_hyper) theta g (n : nat) :
  Qeq_bool (sgd_momentum h) 0 = true -> Qeq_bool (sgd_weight_decay h) 0 = true -> sgd_maximize h = false ->
  map data (ps (sgd_model fun_ops h [(theta, true, true)] (Backward [Some g] :: repeat Step n))) =
  [fun k => theta k - INR n * (Q2R (sgd_lr h) * g k)].
Proof.
  intros Hm Hl Hx. rewrite sgd_refines.
  cbn [s_init map s_run fold_left s_ev s_backward s_backward1 sreq sacc sdata sgiven sstate].
  change (fold_left (s_ev _ ?u) (repeat Step n) ?l) with (s_run _ u l (repeat Step n)).
  replace (fun k : nat => 0 + g k) with g by (extensionality k; lra).
  apply (sgd_plain_steps (sgd_conf_of h)); assumption.
Qed.

(* ---- Adam: the first update has magnitude lr in every element ---------------------------------------------- *)
Lemma adam_first_update (c : adam_conf) theta g k :
  Qeq_bool (a_lambda c) 0 = true -> a_maximize c = false -> Q2R (a_eps c) = 0 ->
  Q2R (a_beta1 c) <> 1 -> Q2R (a_beta2 c) < 1 -> g k <> 0 ->
  snd (adam_update c adam_state0 theta g) k = theta k - Q2R (a_lr c) * (g k / Rabs (g k)).
Proof.
  intros Hl Hx He H1 H2 Hg. unfold adam_update, adam_state0, adam_core. rewrite Hl, Hx. cbn [snd].
  rewrite He. rewrite !pow_1.
  replace ((Q2R (a_beta2 c) * 0 + (1 - Q2R (a_beta2 c)) * (g k * g k)) / (1 - Q2R (a_beta2 c))) with (Rsqr (g k))
    by (unfold Rsqr; field; lra).
  rewrite sqrt_Rsqr_abs.
  assert (Ha : Rabs (g k) <> 0) by (apply Rabs_no_R0; exact Hg).
  field. split; [exact Ha|lra].
Qed.

Lemma adam_model_first_step (h : adam_hyper) theta g :
  Qeq_bool (adam_weight_decay h) 0 = true -> adam_maximize h = false -> Q2R (adam_epsilon h) = 0 ->
  Q2R (adam_beta1 h) <> 1 -> Q2R (adam_beta2 h) < 1 -> (forall k, g k <> 0) ->
  map data (ps (adam_model fun_ops h [(theta, true, true)] [Backward [Some g]; Step])) =
  [fun k => theta k - Q2R (adam_lr h) * (g k / Rabs (g k))].
Proof.
  intros Hl Hx He H1 H2 Hg. rewrite adam_refines.
  cbn [s_init map s_run fold_left s_ev s_backward s_backward1 s_step sreq sacc sdata sgiven sstate andb].
  f_equal. extensionality k.
  replace (fun k : nat => 0 + g k) with g by (extensionality j; lra).
  apply (adam_first_update (adam_conf_of h)); auto.
Qed.

(* ---- a step that has nothing to consume is the identity on the whole trajectory ----------------------------- *)
Lemma spec_step_without_gradient {SS} (update : SS -> vec -> vec -> SS * vec) (l : list (vec * bool * bool)) s0 :
  s_run SS update (s_init SS s0 l) [Step] = s_init SS s0 l.
Proof.
  cbn [s_run fold_left s_ev]. unfold s_init. rewrite map_map. apply map_ext. intros [[d r] gv].
  unfold s_step; cbn. destruct (gv && r); reflexivity.
Qed.

(* ---- AdamW: first update = decoupled decay, then a move of magnitude lr ------------------------------------- *)
Lemma adamw_first_update (c : adam_conf) theta g k :
  a_maximize c = false -> Q2R (a_eps c) = 0 ->
  Q2R (a_beta1 c) <> 1 -> Q2R (a_beta2 c) < 1 -> g k <> 0 ->
  snd (adamw_update c adam_state0 theta g) k =
  (theta k - Q2R (a_lr c) * Q2R (a_lambda c) * theta k) - Q2R (a_lr c) * (g k / Rabs (g k)).
Proof.
  intros Hx He H1 H2 Hg. unfold adamw_update, adam_state0, adam_core. rewrite Hx. cbn [snd].
  rewrite He. rewrite !pow_1.
  replace ((Q2R (a_beta2 c) * 0 + (1 - Q2R (a_beta2 c)) * (g k * g k)) / (1 - Q2R (a_beta2 c))) with (Rsqr (g k))
    by (unfold Rsqr; field; lra).
  rewrite sqrt_Rsqr_abs.
  assert (Ha : Rabs (g k) <> 0) by (apply Rabs_no_R0; exact Hg).
  field. split; [exact Ha|lra].
Qed.

Lemma adamw_model_first_step (h : adamw_hyper) theta g :
  adamw_maximize h = false -> Q2R (adamw_epsilon h) = 0 ->
  Q2R (adamw_beta1 h) <> 1 -> Q2R (adamw_beta2 h) < 1 -> (forall k, g k <> 0) ->
  map data (ps (adamw_model fun_ops h [(theta, true, true)] [Backward [Some g]; Step])) =
  [fun k => (theta k - Q2R (adamw_lr h) * Q2R (adamw_weight_decay h) * theta k) - Q2R (adamw_lr h) * (g k / Rabs (g k))].
Proof.
  intros Hx He H1 H2 Hg. rewrite adamw_refines.
  cbn [s_init map s_run fold_left s_ev s_backward s_backward1 s_step sreq sacc sdata sgiven sstate andb].
  f_equal. extensionality k.
  replace (fun k : nat => 0 + g k) with g by (extensionality j; lra).
  apply (adamw_first_update (adamw_conf_of h)); auto.
Qed.
