(* Proofs about the model State/Modules.v (property C12). *)
From Coq Require Import String DecimalString DecimalNat List Bool Arith Lia FinFun.
Import ListNotations.
From SG Require Import State.Modules.
Local Open Scope nat_scope.

(* ================================================================== generic list facts *)
Lemma nth_error_upd_same {A} n (f : A -> A) l : nth_error (upd n f l) n = option_map f (nth_error l n).
Proof. revert n; induction l as [|x l IH]; intros [|n]; simpl; auto. Qed.

Lemma nth_error_upd_other {A} n m (f : A -> A) l : n <> m -> nth_error (upd n f l) m = nth_error l m.
Proof. revert n m; induction l as [|x l IH]; intros [|n] [|m] H; simpl; auto; congruence. Qed.

Lemma upd_length {A} n (f : A -> A) l : length (upd n f l) = length l.
Proof. revert n; induction l as [|x l IH]; intros [|n]; simpl; auto. Qed.

Lemma map_upd_inv {A B} (g : A -> B) n (f : A -> A) l : (forall x, g (f x) = g x) -> map g (upd n f l) = map g l.
Proof. intro H. revert n; induction l as [|x l IH]; intros [|n]; simpl; auto; f_equal; auto. Qed.

Lemma nth_error_map' {A B} (f : A -> B) l i : nth_error (map f l) i = option_map f (nth_error l i).
Proof. revert i; induction l; intros [|i]; simpl; auto. Qed.

Lemma sequence_Forall2 {A B} (f : A -> option B) l ys :
  sequence (map f l) = Some ys <-> Forall2 (fun x y => f x = Some y) l ys.
Proof.
  revert ys; induction l as [|x l IH]; intro ys; simpl.
  - split; intro H; [injection H as <-; constructor|inversion H; reflexivity].
  - destruct (f x) as [y|] eqn:E.
    + destruct (sequence (map f l)) as [r|] eqn:Er; simpl.
      * split; intro H.
        -- injection H as <-. constructor; [exact E|apply IH; reflexivity].
        -- inversion H as [|? y' ? r' Hy Hr]; subst. apply IH in Hr. congruence.
      * split; intro H; [discriminate|]. inversion H as [|? y' ? r' Hy Hr]; subst.
        apply IH in Hr. discriminate.
    + split; intro H; [discriminate|]. inversion H; subst. congruence.
Qed.

Lemma Forall2_exists_l {A B} (R : A -> B -> Prop) l :
  (forall x, In x l -> exists y, R x y) -> exists ys, Forall2 R l ys.
Proof.
  induction l as [|x l IH]; intro H; [exists []; constructor|].
  destruct (H x (or_introl eq_refl)) as [y Hy].
  destruct IH as [ys Hys]; [intros; apply H; right; assumption|].
  exists (y :: ys). constructor; assumption.
Qed.

Lemma Forall2_In_l {A B} (R : A -> B -> Prop) l ys x : Forall2 R l ys -> In x l -> exists y, In y ys /\ R x y.
Proof.
  induction 1 as [|a b l ys Hab H IH]; simpl; intro Hin; [contradiction|].
  destruct Hin as [->|Hin]; [exists b; auto|]. destruct (IH Hin) as [y [Hy HR]]. exists y; auto.
Qed.

Lemma Forall2_In_r {A B} (R : A -> B -> Prop) l ys y : Forall2 R l ys -> In y ys -> exists x, In x l /\ R x y.
Proof.
  induction 1 as [|a b l ys Hab H IH]; simpl; intro Hin; [contradiction|].
  destruct Hin as [->|Hin]; [exists a; auto|]. destruct (IH Hin) as [x [Hx HR]]. exists x; auto.
Qed.

Lemma Forall2_impl_l {A B} (R S : A -> B -> Prop) l ys :
  (forall x y, In x l -> R x y -> S x y) -> Forall2 R l ys -> Forall2 S l ys.
Proof.
  intros H F. induction F as [|a b l ys Hab F IH]; constructor.
  - apply H; [left; reflexivity|exact Hab].
  - apply IH. intros x y Hx. apply H. right. exact Hx.
Qed.

Lemma sequence_map_option_map {A B C} (F : A -> option B) (g : B -> C) l :
  sequence (map (fun c => option_map g (F c)) l) = option_map (map g) (sequence (map F l)).
Proof.
  induction l as [|x l IH]; simpl; [reflexivity|].
  destruct (F x); simpl; [|reflexivity]. rewrite IH. destruct (sequence (map F l)); reflexivity.
Qed.

(* ================================================================== Python dict on association lists *)
Section Dict.
  Context {V : Type}.
  Implicit Types l : list (name * V).

  Lemma assoc_get_set_same k v l : assoc_get k (assoc_set k v l) = Some v.
  Proof.
    induction l as [|[k' v'] l IH]; simpl; [rewrite String.eqb_refl; reflexivity|].
    destruct (String.eqb k k') eqn:E; simpl; rewrite E; auto.
  Qed.

  Lemma assoc_get_set_other k k' v l : k' <> k -> assoc_get k' (assoc_set k v l) = assoc_get k' l.
  Proof.
    intro H. induction l as [|[k2 v2] l IH]; simpl.
    - apply String.eqb_neq in H. rewrite H. reflexivity.
    - destruct (String.eqb k k2) eqn:E; simpl.
      + apply String.eqb_eq in E. subst k2. apply String.eqb_neq in H. rewrite H. reflexivity.
      + rewrite IH. reflexivity.
  Qed.

  Lemma assoc_get_pop_other k k' l : k' <> k -> assoc_get k' (assoc_pop k l) = assoc_get k' l.
  Proof.
    intro H. induction l as [|[k2 v2] l IH]; simpl; [reflexivity|].
    destruct (String.eqb k k2) eqn:E; simpl.
    - apply String.eqb_eq in E. subst k2. apply String.eqb_neq in H. rewrite H. reflexivity.
    - rewrite IH. reflexivity.
  Qed.

  Lemma assoc_get_None k l : assoc_get k l = None <-> ~ In k (map fst l).
  Proof.
    induction l as [|[k2 v2] l IH]; simpl; [tauto|].
    destruct (String.eqb k k2) eqn:E.
    - apply String.eqb_eq in E. subst. split; [discriminate|intro H; exfalso; apply H; auto].
    - apply String.eqb_neq in E. rewrite IH. split; intro H; [intros [H1|H1]; [congruence|auto]|auto].
  Qed.

  Lemma assoc_get_In k v l : assoc_get k l = Some v -> In (k, v) l.
  Proof.
    induction l as [|[k2 v2] l IH]; simpl; [discriminate|].
    destruct (String.eqb k k2) eqn:E; intro H.
    - apply String.eqb_eq in E. injection H as <-. subst. auto.
    - auto.
  Qed.

  Lemma In_assoc_get k v l : NoDup (map fst l) -> In (k, v) l -> assoc_get k l = Some v.
  Proof.
    induction l as [|[k2 v2] l IH]; simpl; intros Hnd Hin; [contradiction|].
    inversion Hnd as [|? ? Hn Hd]; subst.
    destruct Hin as [Hin|Hin].
    - injection Hin as -> ->. rewrite String.eqb_refl. reflexivity.
    - destruct (String.eqb k k2) eqn:E; [|auto].
      apply String.eqb_eq in E. subst. exfalso. apply Hn. apply (in_map fst) in Hin. exact Hin.
  Qed.

  Lemma In_assoc_pop k x l : In x (assoc_pop k l) -> In x l.
  Proof.
    induction l as [|[k2 v2] l IH]; simpl; [auto|].
    destruct (String.eqb k k2); simpl; intuition.
  Qed.

  Lemma In_assoc_set k v x l : In x (assoc_set k v l) -> x = (k, v) \/ In x l.
  Proof.
    induction l as [|[k2 v2] l IH]; simpl; [intuition|].
    destruct (String.eqb k k2) eqn:E; simpl.
    - apply String.eqb_eq in E. subst. intuition.
    - intuition.
  Qed.

  Lemma keys_pop_notin k l : ~ In k (map fst l) -> assoc_pop k l = l.
  Proof.
    induction l as [|[k2 v2] l IH]; simpl; intro H; [reflexivity|].
    destruct (String.eqb k k2) eqn:E.
    - apply String.eqb_eq in E. subst. exfalso. auto.
    - f_equal. apply IH. auto.
  Qed.

  Lemma assoc_get_pop_same k l : NoDup (map fst l) -> assoc_get k (assoc_pop k l) = None.
  Proof.
    induction l as [|[k2 v2] l IH]; simpl; intro H; [reflexivity|].
    inversion H as [|? ? Hn Hd]; subst.
    destruct (String.eqb k k2) eqn:E; simpl.
    - apply String.eqb_eq in E. subst. apply assoc_get_None. exact Hn.
    - rewrite E. auto.
  Qed.

  Lemma keys_set_in k v l : In k (map fst l) -> map fst (assoc_set k v l) = map fst l.
  Proof.
    induction l as [|[k2 v2] l IH]; simpl; intro H; [contradiction|].
    destruct (String.eqb k k2) eqn:E; simpl; [reflexivity|].
    f_equal. apply IH. destruct H as [H|H]; [|exact H].
    apply String.eqb_neq in E. congruence.
  Qed.

  Lemma set_notin_append k v l : ~ In k (map fst l) -> assoc_set k v l = l ++ [(k, v)].
  Proof.
    induction l as [|[k2 v2] l IH]; simpl; intro H; [reflexivity|].
    destruct (String.eqb k k2) eqn:E.
    - apply String.eqb_eq in E. subst. exfalso. auto.
    - f_equal. apply IH. auto.
  Qed.

  (* the registrations of all OTHER names, in order *)
  Definition others (k : name) l := filter (fun kv => negb (String.eqb k (fst kv))) l.

  Lemma others_set k v l : others k (assoc_set k v l) = others k l.
  Proof.
    induction l as [|[k2 v2] l IH]; simpl; [rewrite String.eqb_refl; reflexivity|].
    destruct (String.eqb k k2) eqn:E; simpl; rewrite E; simpl; [reflexivity|]. f_equal. exact IH.
  Qed.

  Lemma others_pop k l : NoDup (map fst l) -> others k (assoc_pop k l) = others k l.
  Proof.
    induction l as [|[k2 v2] l IH]; simpl; intro H; [reflexivity|].
    inversion H as [|? ? Hn Hd]; subst.
    destruct (String.eqb k k2) eqn:E; simpl; [reflexivity|]. rewrite E. simpl. f_equal. auto.
  Qed.

  Lemma keys_pop_subset k l x : In x (map fst (assoc_pop k l)) -> In x (map fst l).
  Proof.
    intro H. apply in_map_iff in H. destruct H as [[a b] [<- H]]. apply In_assoc_pop in H.
    apply (in_map fst) in H. exact H.
  Qed.

  Lemma NoDup_keys_pop k l : NoDup (map fst l) -> NoDup (map fst (assoc_pop k l)).
  Proof.
    induction l as [|[k2 v2] l IH]; simpl; intro H; [constructor|].
    inversion H as [|? ? Hn Hd]; subst.
    destruct (String.eqb k k2); [exact Hd|]. simpl. constructor; [|auto].
    intro Hin. apply Hn. eapply keys_pop_subset. exact Hin.
  Qed.

  Lemma NoDup_keys_set k v l : NoDup (map fst l) -> NoDup (map fst (assoc_set k v l)).
  Proof.
    intro H. destruct (in_dec string_dec k (map fst l)) as [Hin|Hin].
    - rewrite keys_set_in by exact Hin. exact H.
    - rewrite set_notin_append by exact Hin. rewrite map_app. simpl.
      clear -H Hin. induction (map fst l) as [|a t IH]; simpl.
      + constructor; [simpl; tauto|constructor].
      + inversion H as [|? ? Hn Hd]; subst. constructor.
        * intro Hx. apply in_app_or in Hx. destruct Hx as [Hx|[Hx|[]]]; [auto|]. subst. apply Hin. left; reflexivity.
        * apply IH; [exact Hd|]. intro Hx. apply Hin. right. exact Hx.
  Qed.
End Dict.

(* ================================================================== first-occurrence dedupe *)
Notation mem x s := (existsb (Nat.eqb x) s).

Lemma mem_In x s : mem x s = true <-> In x s.
Proof.
  rewrite existsb_exists. split.
  - intros [y [Hy E]]. apply Nat.eqb_eq in E. subst. exact Hy.
  - intro H. exists x. split; [exact H|apply Nat.eqb_refl].
Qed.

Lemma mem_false x s : mem x s = false <-> ~ In x s.
Proof. rewrite <- mem_In. destruct (mem x s); split; congruence. Qed.

Lemma dedupe_acc_cons s x t :
  dedupe_acc s (x :: t) = if mem x s then dedupe_acc s t else x :: dedupe_acc (x :: s) t.
Proof. reflexivity. Qed.

(* only the membership of [seen] matters *)
Lemma dedupe_acc_ext s1 s2 l : (forall x, In x s1 <-> In x s2) -> dedupe_acc s1 l = dedupe_acc s2 l.
Proof.
  revert s1 s2; induction l as [|x t IH]; intros s1 s2 H; [reflexivity|].
  rewrite !dedupe_acc_cons.
  assert (E : mem x s1 = mem x s2).
  { destruct (mem x s1) eqn:E1; symmetry.
    - apply mem_In. apply H. apply mem_In. exact E1.
    - apply mem_false. intro Hx. apply H in Hx. apply mem_In in Hx. congruence. }
  rewrite E. destruct (mem x s2); [apply IH; exact H|].
  f_equal. apply IH. intro y. simpl. rewrite H. tauto.
Qed.

Lemma dedupe_acc_In s l x : In x (dedupe_acc s l) <-> In x l /\ ~ In x s.
Proof.
  revert s; induction l as [|a t IH]; intro s; [simpl; tauto|].
  rewrite dedupe_acc_cons. destruct (mem a s) eqn:E.
  - apply mem_In in E. rewrite IH. simpl. split; [tauto|].
    intros [[->|H] Hn]; [contradiction|tauto].
  - apply mem_false in E. simpl. rewrite IH. simpl. split.
    + intros [->|[H Hn]]; [tauto|tauto].
    + intros [[->|H] Hn]; [tauto|].
      destruct (Nat.eq_dec a x) as [->|Hne]; [tauto|]. right. split; [exact H|]. intros [?|?]; [congruence|tauto].
Qed.

Lemma dedupe_acc_NoDup s l : NoDup (dedupe_acc s l).
Proof.
  revert s; induction l as [|a t IH]; intro s; [constructor|].
  rewrite dedupe_acc_cons. destruct (mem a s); [apply IH|].
  constructor; [|apply IH]. rewrite dedupe_acc_In. simpl. tauto.
Qed.

Lemma dedupe_acc_app s l1 l2 : dedupe_acc s (l1 ++ l2) = dedupe_acc s l1 ++ dedupe_acc (l1 ++ s) l2.
Proof.
  revert s; induction l1 as [|a t IH]; intro s; [reflexivity|].
  simpl app. rewrite !dedupe_acc_cons. destruct (mem a s) eqn:E.
  - rewrite IH. f_equal. apply dedupe_acc_ext. intro x. apply mem_In in E.
    simpl. rewrite !in_app_iff. split; [tauto|]. intros [->|H]; [tauto|exact H].
  - rewrite IH. simpl. f_equal. f_equal. apply dedupe_acc_ext. intro x.
    simpl. rewrite !in_app_iff. simpl. tauto.
Qed.

Lemma dedupe_acc_idem s s' l : (forall x, In x s' -> In x s) -> dedupe_acc s (dedupe_acc s' l) = dedupe_acc s l.
Proof.
  revert s s'; induction l as [|a t IH]; intros s s' H; [reflexivity|].
  rewrite (dedupe_acc_cons s' a t). destruct (mem a s') eqn:E'.
  - apply mem_In in E'. rewrite dedupe_acc_cons.
    assert (E : mem a s = true) by (apply mem_In; auto). rewrite E. apply IH. exact H.
  - rewrite !dedupe_acc_cons. destruct (mem a s) eqn:E.
    + apply IH. apply mem_In in E. intros x [->|Hx]; auto.
    + f_equal. apply IH. intros x [->|Hx]; simpl; auto.
Qed.

Lemma dedupe_In l x : In x (dedupe l) <-> In x l.
Proof. unfold dedupe. rewrite dedupe_acc_In. simpl. tauto. Qed.

Lemma dedupe_NoDup l : NoDup (dedupe l).
Proof. apply dedupe_acc_NoDup. Qed.

Lemma dedupe_acc_concat_dedupe s ls :
  dedupe_acc s (concat (map dedupe ls)) = dedupe_acc s (concat ls).
Proof.
  revert s; induction ls as [|l ls IH]; intro s; [reflexivity|].
  simpl. rewrite !dedupe_acc_app. f_equal.
  - unfold dedupe. apply dedupe_acc_idem. intros x [].
  - rewrite IH. apply dedupe_acc_ext. intro x. rewrite !in_app_iff, dedupe_In. tauto.
Qed.

Lemma dedupe_app_concat_dedupe a ls : dedupe (a ++ concat (map dedupe ls)) = dedupe (a ++ concat ls).
Proof. unfold dedupe at 1 3. rewrite !dedupe_acc_app. f_equal. apply dedupe_acc_concat_dedupe. Qed.

(* [before x y l]: the first occurrence of x in l comes before any occurrence of y *)
Definition before (x y : nat) (l : list nat) : Prop :=
  exists l1 l2, l = l1 ++ x :: l2 /\ ~ In x l1 /\ ~ In y l1.

Lemma before_head x y t : before x y (x :: t).
Proof. exists [], t. simpl. tauto. Qed.

Lemma before_not_head x y t : x <> y -> ~ before x y (y :: t).
Proof.
  intros Hne (l1 & l2 & E & Hx & Hy). destruct l1 as [|a l1]; simpl in E.
  - injection E as E _. congruence.
  - injection E as E _. subst a. apply Hy. left; reflexivity.
Qed.

Lemma before_cons_other a x y t : a <> x -> a <> y -> (before x y (a :: t) <-> before x y t).
Proof.
  intros Hax Hay. split.
  - intros (l1 & l2 & E & Hx & Hy). destruct l1 as [|b l1]; simpl in E.
    + injection E as E _. congruence.
    + injection E as -> E. exists l1, l2. simpl in Hx, Hy. tauto.
  - intros (l1 & l2 & E & Hx & Hy). exists (a :: l1), l2. subst t. simpl. split; [reflexivity|].
    split; intros [?|?]; auto.
Qed.

Lemma dedupe_acc_before s l x y :
  x <> y -> ~ In x s -> ~ In y s -> (before x y (dedupe_acc s l) <-> before x y l).
Proof.
  intros Hne. revert s; induction l as [|a t IH]; intros s Hx Hy; [simpl; tauto|].
  rewrite dedupe_acc_cons. destruct (mem a s) eqn:E.
  - apply mem_In in E. rewrite before_cons_other by congruence. apply IH; assumption.
  - apply mem_false in E.
    destruct (Nat.eq_dec a x) as [->|Hax].
    + split; intros _; apply before_head.
    + destruct (Nat.eq_dec a y) as [->|Hay].
      * split; intro H; exfalso; exact (before_not_head x y _ Hne H).
      * rewrite !before_cons_other by assumption. apply IH; simpl; intros [?|?]; auto.
Qed.

(* first-occurrence order: p precedes q in the deduped list iff p's first occurrence precedes q's in the raw list *)
Lemma dedupe_before l x y : x <> y -> (before x y (dedupe l) <-> before x y l).
Proof. intro H. apply dedupe_acc_before; simpl; auto. Qed.

(* ================================================================== reachability through the registries *)
Definition child (h : heap) (m c : nat) : Prop :=
  exists M, nth_error (mods h) m = Some M /\ In c (map snd (m_subs M)).
Definition owns (h : heap) (m p : nat) : Prop :=
  exists M, nth_error (mods h) m = Some M /\ In p (map snd (m_params M)).

Inductive reach (h : heap) : nat -> nat -> Prop :=
| reach_refl m : m < length (mods h) -> reach h m m
| reach_step m c m' : child h m c -> reach h c m' -> reach h m m'.

(* acyclicity, as a rank that strictly decreases along the submodule relation and is bounded by the number of
   modules (every finite acyclic relation has one: the length of the longest path) *)
Definition acyclic (h : heap) : Prop :=
  exists rank : nat -> nat, (forall m c, child h m c -> rank c < rank m) /\ (forall m, rank m <= length (mods h)).

(* no dangling ids, unique keys: invariant of every heap built by events (wf_run below) *)
Definition wf (h : heap) : Prop :=
  forall m M, nth_error (mods h) m = Some M ->
    NoDup (map fst (m_params M)) /\ NoDup (map fst (m_subs M)) /\
    (forall c, In c (map snd (m_subs M)) -> c < length (mods h)) /\
    (forall p, In p (map snd (m_params M)) -> p < length (pars h)).

Lemma wf_child h m c : wf h -> child h m c -> c < length (mods h).
Proof. intros H (M & HM & Hc). exact (proj1 (proj2 (proj2 (H m M HM))) c Hc). Qed.

Lemma child_valid h m c : child h m c -> m < length (mods h).
Proof. intros (M & HM & _). apply nth_error_Some. congruence. Qed.

Lemma reach_valid_l h m m' : reach h m m' -> m < length (mods h).
Proof. destruct 1; [assumption|eapply child_valid; eauto]. Qed.

(* ---- the un-deduped pre-order traversal *)
Lemma preorder_unfold f h m :
  preorder_f (S f) h m =
  match nth_error (mods h) m with
  | None => None
  | Some M => option_map (fun ls => map snd (m_params M) ++ concat ls)
                         (sequence (map (preorder_f f h) (map snd (m_subs M))))
  end.
Proof. reflexivity. Qed.

Lemma parameters_unfold f h m :
  parameters_f (S f) h m =
  match nth_error (mods h) m with
  | None => None
  | Some M => option_map (fun ls => dedupe (map snd (m_params M) ++ concat ls))
                         (sequence (map (parameters_f f h) (map snd (m_subs M))))
  end.
Proof. reflexivity. Qed.

Lemma preorder_total h rank :
  wf h -> (forall m c, child h m c -> rank c < rank m) ->
  forall fuel m, rank m < fuel -> m < length (mods h) -> exists l, preorder_f fuel h m = Some l.
Proof.
  intros Hwf Hr. induction fuel as [|f IH]; intros m Hm Hv; [lia|].
  rewrite preorder_unfold. destruct (nth_error (mods h) m) as [M|] eqn:EM.
  2:{ apply nth_error_None in EM. lia. }
  destruct (Forall2_exists_l (fun c l => preorder_f f h c = Some l) (map snd (m_subs M))) as [ls Hls].
  { intros c Hc. assert (Hch : child h m c) by (exists M; auto).
    apply IH; [specialize (Hr m c Hch); lia|eapply wf_child; eauto]. }
  apply sequence_Forall2 in Hls. rewrite Hls. simpl. eauto.
Qed.

Lemma preorder_mono f h m l : preorder_f f h m = Some l -> preorder_f (S f) h m = Some l.
Proof.
  revert m l; induction f as [|f IH]; intros m l H; [discriminate|].
  rewrite preorder_unfold in *. destruct (nth_error (mods h) m) as [M|]; [|discriminate].
  destruct (sequence (map (preorder_f f h) (map snd (m_subs M)))) as [ls|] eqn:E; [|discriminate].
  apply sequence_Forall2 in E.
  assert (E' : Forall2 (fun c l => preorder_f (S f) h c = Some l) (map snd (m_subs M)) ls).
  { eapply Forall2_impl_l; [|exact E]. intros c l' _ Hc. apply IH. exact Hc. }
  apply sequence_Forall2 in E'. rewrite E'. exact H.
Qed.

Lemma preorder_fuel_indep f1 f2 h m l : f1 <= f2 -> preorder_f f1 h m = Some l -> preorder_f f2 h m = Some l.
Proof. induction 1 as [|f2 Hle IH]; [auto|]. intro H0. apply preorder_mono. auto. Qed.

(* exactly the parameters owned by a reachable module *)
Lemma preorder_In f h : forall m l, preorder_f f h m = Some l ->
  forall p, In p l <-> exists m', reach h m m' /\ owns h m' p.
Proof.
  induction f as [|f IH]; intros m l H p; [discriminate|].
  rewrite preorder_unfold in H. destruct (nth_error (mods h) m) as [M|] eqn:EM; [|discriminate].
  destruct (sequence (map (preorder_f f h) (map snd (m_subs M)))) as [ls|] eqn:E; [|discriminate].
  apply sequence_Forall2 in E. simpl in H. injection H as <-.
  assert (Hv : m < length (mods h)) by (apply nth_error_Some; congruence).
  rewrite in_app_iff, in_concat. split.
  - intros [Hown|(l' & Hl' & Hp)].
    + exists m. split; [apply reach_refl; exact Hv|exists M; auto].
    + destruct (Forall2_In_r _ _ _ _ E Hl') as (c & Hc & Hpc).
      apply (IH c l' Hpc p) in Hp. destruct Hp as (m' & Hr & Ho).
      exists m'. split; [|exact Ho]. apply reach_step with c; [exists M; auto|exact Hr].
  - intros (m' & Hr & Ho). inversion Hr as [? Hlt|? c ? Hch Hr']; subst.
    + left. destruct Ho as (M' & HM' & Hp). rewrite EM in HM'. injection HM' as <-. exact Hp.
    + right. destruct Hch as (M' & HM' & Hc). rewrite EM in HM'. injection HM' as <-.
      destruct (Forall2_In_l _ _ _ _ E Hc) as (l' & Hl' & Hpc).
      exists l'. split; [exact Hl'|]. apply (IH c l' Hpc p). eauto.
Qed.

(* the pre-order equation: own parameters in registration order, then each submodule's listing in registration order *)
Lemma preorder_equation f h m M ls :
  nth_error (mods h) m = Some M ->
  Forall2 (fun c l => preorder_f f h c = Some l) (map snd (m_subs M)) ls ->
  preorder_f (S f) h m = Some (map snd (m_params M) ++ concat ls).
Proof. intros HM E. rewrite preorder_unfold, HM. apply sequence_Forall2 in E. rewrite E. reflexivity. Qed.

(* parameters() = first-occurrence dedupe of the pre-order listing (the nested dedupes of the recursion collapse) *)
Lemma parameters_dedupe f h : forall m, parameters_f f h m = option_map dedupe (preorder_f f h m).
Proof.
  induction f as [|f IH]; intro m; [reflexivity|].
  rewrite parameters_unfold, preorder_unfold. destruct (nth_error (mods h) m) as [M|]; [|reflexivity].
  rewrite (map_ext _ _ IH). rewrite sequence_map_option_map.
  destruct (sequence (map (preorder_f f h) (map snd (m_subs M)))) as [ls|]; [|reflexivity].
  simpl. f_equal. apply dedupe_app_concat_dedupe.
Qed.

Lemma acyclic_fuel h m : acyclic h ->
  exists rank, (forall m c, child h m c -> rank c < rank m) /\ rank m < fuel_of h.
Proof. intros (rank & Hr & Hb). exists rank. split; [exact Hr|]. unfold fuel_of. specialize (Hb m). lia. Qed.

(* ---- the statement about parameters() *)
Theorem parameters_spec h m :
  wf h -> acyclic h -> m < length (mods h) ->
  exists raw ps,
    preorder h m = Some raw /\ parameters h m = Some ps /\ ps = dedupe raw /\
    NoDup ps /\
    (forall p, In p ps <-> exists m', reach h m m' /\ owns h m' p) /\
    (forall p, In p raw <-> In p ps) /\
    (forall p q, p <> q -> (before p q ps <-> before p q raw)).
Proof.
  intros Hwf Hac Hv. destruct (acyclic_fuel h m Hac) as (rank & Hr & Hb).
  destruct (preorder_total h rank Hwf Hr (fuel_of h) m Hb Hv) as [raw Hraw].
  exists raw, (dedupe raw). unfold preorder, parameters. rewrite parameters_dedupe, Hraw. simpl.
  repeat split; auto.
  - apply dedupe_NoDup.
  - rewrite dedupe_In. apply (preorder_In _ _ _ _ Hraw).
  - rewrite dedupe_In. intro H. apply (preorder_In _ _ _ _ Hraw). exact H.
  - intro H. apply dedupe_In. exact H.
  - intro H. apply dedupe_In. exact H.
  - apply dedupe_before. assumption.
  - apply dedupe_before. assumption.
Qed.

Theorem preorder_is_preorder h m M :
  wf h -> acyclic h -> nth_error (mods h) m = Some M ->
  exists ls, Forall2 (fun c l => preorder h c = Some l) (map snd (m_subs M)) ls /\
             preorder h m = Some (map snd (m_params M) ++ concat ls).
Proof.
  intros Hwf (rank & Hr & Hb) HM.
  destruct (Forall2_exists_l (fun c l => preorder_f (length (mods h)) h c = Some l) (map snd (m_subs M))) as [ls Hls].
  { intros c Hc. assert (Hch : child h m c) by (exists M; auto).
    apply (preorder_total h rank Hwf Hr); [specialize (Hr m c Hch); specialize (Hb m); lia|eapply wf_child; eauto]. }
  exists ls. split.
  - eapply Forall2_impl_l; [|exact Hls]. intros c l _ H. apply preorder_mono. exact H.
  - unfold preorder, fuel_of. apply preorder_equation; assumption.
Qed.

(* ================================================================== num_params *)
Definition size_of (h : heap) (p : nat) : nat :=
  match nth_error (pars h) p with Some P => p_size P | None => 0 end.
Definition trainable (h : heap) (p : nat) : bool :=
  match nth_error (pars h) p with Some P => p_req P | None => false end.
Definition sum_sizes (h : heap) (l : list nat) : nat := fold_right (fun p acc => size_of h p + acc) 0 l.

Lemma triple_eq {A B C} (a a' : A) (b b' : B) (c c' : C) : a = a' -> b = b' -> c = c' -> (a, b, c) = (a', b', c').
Proof. intros; subst; reflexivity. Qed.

Lemma sum_sizes_cons h p l : sum_sizes h (p :: l) = size_of h p + sum_sizes h l.
Proof. reflexivity. Qed.

Lemma count_fold h l a t n :
  fold_left (count_step h) l (a, t, n) =
  (a + sum_sizes h l, t + sum_sizes h (filter (trainable h) l),
   n + sum_sizes h (filter (fun p => negb (trainable h p)) l)).
Proof.
  revert a t n; induction l as [|p l IH]; intros a t n.
  - simpl. apply triple_eq; lia.
  - cbn [fold_left filter].
    assert (E : count_step h (a, t, n) p =
                (a + size_of h p, t + (if trainable h p then size_of h p else 0),
                 n + (if trainable h p then 0 else size_of h p))).
    { unfold count_step, size_of, trainable. destruct (nth_error (pars h) p) as [P|]; [destruct (p_req P)|];
        apply triple_eq; lia. }
    rewrite E, IH. destruct (trainable h p); cbn [negb]; rewrite !sum_sizes_cons;
      apply triple_eq; lia.
Qed.

Lemma sum_sizes_split h l :
  sum_sizes h l = sum_sizes h (filter (trainable h) l) + sum_sizes h (filter (fun p => negb (trainable h p)) l).
Proof.
  induction l as [|p l IH]; [reflexivity|]. cbn [filter]. destruct (trainable h p); cbn [negb]; rewrite !sum_sizes_cons; lia.
Qed.

Theorem num_params_spec h m ps :
  parameters h m = Some ps ->
  num_params h m All = Some (sum_sizes h ps) /\
  num_params h m Trainable = Some (sum_sizes h (filter (trainable h) ps)) /\
  num_params h m NonTrainable = Some (sum_sizes h (filter (fun p => negb (trainable h p)) ps)) /\
  sum_sizes h ps = sum_sizes h (filter (trainable h) ps) + sum_sizes h (filter (fun p => negb (trainable h p)) ps).
Proof.
  intro H. unfold num_params, num_params3. rewrite H. simpl. rewrite count_fold. simpl.
  repeat split. apply sum_sizes_split.
Qed.

(* ================================================================== train / eval *)
Definition shape (M : module) := (m_params M, m_subs M).
Definition training (h : heap) (i : nat) : option bool := option_map m_training (nth_error (mods h) i).

Lemma child_shape h h' m c : map shape (mods h) = map shape (mods h') -> child h m c -> child h' m c.
Proof.
  intros Hs (M & HM & Hc).
  assert (E : nth_error (map shape (mods h')) m = Some (shape M)) by (rewrite <- Hs, nth_error_map', HM; reflexivity).
  rewrite nth_error_map' in E. destruct (nth_error (mods h') m) as [M'|] eqn:EM'; [|discriminate].
  exists M'. split; [exact EM'|]. simpl in E. injection E as E1 E2. unfold shape in *. rewrite E2. exact Hc.
Qed.

Lemma shape_length h h' : map shape (mods h) = map shape (mods h') -> length (mods h) = length (mods h').
Proof. intro H. rewrite <- (map_length shape (mods h)), H. apply map_length. Qed.

Lemma reach_shape h h' m i : map shape (mods h) = map shape (mods h') -> reach h m i -> reach h' m i.
Proof.
  intros Hs Hr. induction Hr as [m Hv|m c m' Hc Hr IH].
  - apply reach_refl. rewrite <- (shape_length _ _ Hs). exact Hv.
  - apply reach_step with c; [eapply child_shape; eauto|exact IH].
Qed.

Lemma set_training_shape h m b : map shape (mods (set_training h m b)) = map shape (mods h).
Proof. unfold set_training, upd_mod. simpl. apply map_upd_inv. reflexivity. Qed.

Definition mode_step (f : nat) (b : bool) (acc : option heap) (c : nat) : option heap :=
  match acc with None => None | Some h' => set_mode_f f b h' c end.

Lemma set_mode_unfold f b h m :
  set_mode_f (S f) b h m =
  match nth_error (mods h) m with
  | None => None
  | Some M => fold_left (mode_step f b) (map snd (m_subs M)) (Some (set_training h m b))
  end.
Proof. reflexivity. Qed.

Lemma fold_mode_none f b cs : fold_left (mode_step f b) cs None = None.
Proof. induction cs; simpl; auto. Qed.

(* what one successful recursive call guarantees *)
Definition mode_post (b : bool) (h : heap) (m : nat) (h' : heap) : Prop :=
  map shape (mods h') = map shape (mods h) /\ pars h' = pars h /\
  (forall i, reach h m i -> training h' i = Some b) /\
  (forall i, training h' i = training h i \/ reach h m i).

Lemma fold_mode_post f b :
  (forall h m h', set_mode_f f b h m = Some h' -> mode_post b h m h') ->
  forall cs h1 h', fold_left (mode_step f b) cs (Some h1) = Some h' ->
    map shape (mods h') = map shape (mods h1) /\ pars h' = pars h1 /\
    (forall c i, In c cs -> reach h1 c i -> training h' i = Some b) /\
    (forall i, training h' i = training h1 i \/ exists c, In c cs /\ reach h1 c i).
Proof.
  intro IHf. induction cs as [|c cs IH]; intros h1 h' H.
  - simpl in H. injection H as <-. repeat split; auto. intros c i [].
  - simpl in H. destruct (set_mode_f f b h1 c) as [h2|] eqn:E2; [|rewrite fold_mode_none in H; discriminate].
    destruct (IHf _ _ _ E2) as (S2 & P2 & R2 & U2).
    destruct (IH _ _ H) as (S3 & P3 & R3 & U3).
    split; [congruence|]. split; [congruence|]. split.
    + intros c0 i [->|Hc0] Hr.
      * destruct (U3 i) as [Hu|(c' & Hc' & Hr')].
        -- rewrite Hu. apply R2. exact Hr.
        -- eapply R3; eauto.
      * apply (R3 c0 i Hc0). eapply reach_shape; [symmetry; exact S2|exact Hr].
    + intro i. destruct (U3 i) as [Hu|(c' & Hc' & Hr')].
      * destruct (U2 i) as [Hu2|Hr2]; [left; congruence|right; exists c; simpl; auto].
      * right. exists c'. split; [simpl; auto|]. eapply reach_shape; [exact S2|exact Hr'].
Qed.

Lemma set_mode_post f b : forall h m h', set_mode_f f b h m = Some h' -> mode_post b h m h'.
Proof.
  induction f as [|f IHf]; intros h m h' H; [discriminate|].
  rewrite set_mode_unfold in H. destruct (nth_error (mods h) m) as [M|] eqn:EM; [|discriminate].
  destruct (fold_mode_post f b IHf _ _ _ H) as (S1 & P1 & R1 & U1).
  pose proof (set_training_shape h m b) as S0.
  assert (Hv : m < length (mods h)) by (apply nth_error_Some; congruence).
  assert (T0 : training (set_training h m b) m = Some b).
  { unfold training, set_training, upd_mod. simpl. rewrite nth_error_upd_same, EM. reflexivity. }
  assert (T1 : forall i, i <> m -> training (set_training h m b) i = training h i).
  { intros i Hi. unfold training, set_training, upd_mod. simpl. rewrite nth_error_upd_other by congruence. reflexivity. }
  assert (Keep : forall i, training (set_training h m b) i = Some b -> training h' i = Some b).
  { intros i Hi. destruct (U1 i) as [Hu|(c & Hc & Hr)]; [congruence|eapply R1; eauto]. }
  unfold mode_post. split; [congruence|]. split; [rewrite P1; reflexivity|]. split.
  - intros i Hr. inversion Hr as [? Hlt|? c ? Hch Hr']; subst.
    + apply Keep. exact T0.
    + destruct Hch as (M' & HM' & Hc). rewrite EM in HM'. injection HM' as <-.
      apply (R1 c i Hc). eapply reach_shape; [symmetry; exact S0|exact Hr'].
  - intro i. destruct (U1 i) as [Hu|(c & Hc & Hr)].
    + destruct (Nat.eq_dec i m) as [->|Hne]; [right; apply reach_refl; exact Hv|].
      left. rewrite Hu. apply T1. exact Hne.
    + right. apply reach_step with c; [exists M; auto|]. eapply reach_shape; [exact S0|exact Hr].
Qed.

Lemma wf_child_shape h h' : map shape (mods h) = map shape (mods h') ->
  (forall m c, child h m c -> c < length (mods h)) -> forall m c, child h' m c -> c < length (mods h').
Proof.
  intros Hs H m c Hc. rewrite <- (shape_length _ _ Hs). apply (H m). eapply child_shape; [symmetry; exact Hs|exact Hc].
Qed.

Lemma set_mode_total b rank : forall f h m,
  (forall m c, child h m c -> c < length (mods h)) ->
  (forall m c, child h m c -> rank c < rank m) ->
  rank m < f -> m < length (mods h) -> exists h', set_mode_f f b h m = Some h'.
Proof.
  induction f as [|f IHf]; intros h m Hcl Hr Hm Hv; [lia|].
  rewrite set_mode_unfold. destruct (nth_error (mods h) m) as [M|] eqn:EM.
  2:{ apply nth_error_None in EM. lia. }
  pose proof (set_training_shape h m b) as S0.
  assert (G : forall cs h1, map shape (mods h1) = map shape (mods h) ->
            (forall c, In c cs -> child h m c) -> exists h', fold_left (mode_step f b) cs (Some h1) = Some h').
  { induction cs as [|c cs IH]; intros h1 S1 Hcs; [simpl; eauto|].
    simpl. assert (Hch : child h m c) by (apply Hcs; left; reflexivity).
    destruct (IHf h1 c) as [h2 E2].
    - eapply wf_child_shape; [symmetry; exact S1|exact Hcl].
    - intros m0 c0 H0. apply Hr. eapply child_shape; [exact S1|exact H0].
    - specialize (Hr m c Hch). lia.
    - rewrite (shape_length _ _ S1). apply (Hcl m c Hch).
    - rewrite E2. apply IH.
      + destruct (set_mode_post _ _ _ _ _ E2) as (S2 & _). congruence.
      + intros c0 H0. apply Hcs. right. exact H0. }
  apply G; [exact S0|]. intros c Hc. exists M. auto.
Qed.

(* train()/eval(): succeeds on an acyclic heap, changes nothing but `training`, sets it on EVERY reachable module
   (shared ones included) and on no other *)
Theorem set_mode_spec h m (b : bool) :
  wf h -> acyclic h -> m < length (mods h) ->
  exists h', step h (if b then Train m else Eval m) = Some h' /\
    map shape (mods h') = map shape (mods h) /\ pars h' = pars h /\
    (forall i, reach h m i -> training h' i = Some b) /\
    (forall i, ~ reach h m i -> training h' i = training h i).
Proof.
  intros Hwf Hac Hv. destruct (acyclic_fuel h m Hac) as (rank & Hr & Hb).
  destruct (set_mode_total b rank (fuel_of h) h m) as [h' E]; auto.
  { intros m0 c0 H0. eapply wf_child; eauto. }
  exists h'. split; [destruct b; exact E|].
  destruct (set_mode_post _ _ _ _ _ E) as (S1 & P1 & R1 & U1).
  repeat split; auto. intros i Hn. destruct (U1 i); [assumption|contradiction].
Qed.

(* ================================================================== zero_grad / freeze / unfreeze *)
Lemma fold_upd_par f l : forall h,
  fold_left (fun h' p => upd_par h' p f) l h =
  {| mods := mods h; pars := fold_left (fun ps p => upd p f ps) l (pars h) |}.
Proof. induction l as [|p l IH]; intro h; simpl; [destruct h; reflexivity|]. rewrite IH. reflexivity. Qed.

Lemma fold_upd_nth {A} (f : A -> A) (Hid : forall x, f (f x) = f x) l : forall ps p,
  (In p l -> nth_error (fold_left (fun ps p => upd p f ps) l ps) p = option_map f (nth_error ps p)) /\
  (~ In p l -> nth_error (fold_left (fun ps p => upd p f ps) l ps) p = nth_error ps p).
Proof.
  induction l as [|q l IH]; intros ps p; simpl; [tauto|].
  destruct (IH (upd q f ps) p) as [I1 I2]. split.
  - intros Hin. destruct (in_dec Nat.eq_dec p l) as [Hl|Hl].
    + rewrite (I1 Hl). destruct (Nat.eq_dec q p) as [->|Hne].
      * rewrite nth_error_upd_same. destruct (nth_error ps p); simpl; [rewrite Hid|]; reflexivity.
      * rewrite nth_error_upd_other by exact Hne. reflexivity.
    + rewrite (I2 Hl). destruct Hin as [->|Hin]; [|contradiction]. apply nth_error_upd_same.
  - intros Hn. rewrite I2 by tauto. apply nth_error_upd_other. intro. subst. tauto.
Qed.

Lemma fold_upd_length {A} (f : A -> A) l : forall ps, length (fold_left (fun ps p => upd p f ps) l ps) = length ps.
Proof. induction l as [|q l IH]; intro ps; simpl; [reflexivity|]. rewrite IH. apply upd_length. Qed.

Theorem for_params_spec h m f ps :
  (forall P, f (f P) = f P) -> parameters h m = Some ps ->
  exists h', for_params h m f = Some h' /\ mods h' = mods h /\ length (pars h') = length (pars h) /\
    forall p, (In p ps -> nth_error (pars h') p = option_map f (nth_error (pars h) p)) /\
              (~ In p ps -> nth_error (pars h') p = nth_error (pars h) p).
Proof.
  intros Hid Hp. unfold for_params. rewrite Hp. simpl. eexists. split; [reflexivity|].
  rewrite fold_upd_par. simpl. split; [reflexivity|]. split; [apply fold_upd_length|].
  intro p. apply fold_upd_nth. exact Hid.
Qed.

Lemma zero_one_idem P : zero_one (zero_one P) = zero_one P.
Proof. destruct P as [s r g]. destruct r; reflexivity. Qed.

Lemma set_req_idem b P : set_req b (set_req b P) = set_req b P.
Proof. reflexivity. Qed.

(* ================================================================== __setattr__ / register_* : replace semantics *)
Definition reg_module (k : name) (c : nat) (M : module) : module :=
  {| m_params := assoc_pop k (m_params M); m_subs := assoc_set k c (m_subs M); m_training := m_training M |}.
Definition reg_param (k : name) (p : nat) (M : module) : module :=
  {| m_params := assoc_set k p (m_params M); m_subs := assoc_pop k (m_subs M); m_training := m_training M |}.
Definition unreg (k : name) (M : module) : module :=
  {| m_params := assoc_pop k (m_params M); m_subs := assoc_pop k (m_subs M); m_training := m_training M |}.

Definition set_value (k : name) (v : value) : module -> module :=
  match v with VModule c => reg_module k c | VParam p => reg_param k p | VOther => unreg k end.

Lemma step_setattr h m k v :
  step h (SetAttr m k v) =
  if valid_mod h m && valid_value h v then Some (upd_mod h m (set_value k v)) else None.
Proof. simpl. destruct (valid_mod h m && valid_value h v); [|reflexivity]. destruct v; reflexivity. Qed.

Lemma valid_mod_lt h m : valid_mod h m = true <-> m < length (mods h).
Proof. unfold valid_mod. apply Nat.ltb_lt. Qed.
Lemma valid_par_lt h p : valid_par h p = true <-> p < length (pars h).
Proof. unfold valid_par. apply Nat.ltb_lt. Qed.

(* after  m.k = v :  k is registered in at most one registry, bound to v iff v is a module / parameter; the
   registrations of every other name (values and relative order) are unchanged; a name that stays in the same
   registry keeps its position, a new one is appended; nothing else in the heap changes *)
Theorem setattr_spec h m k v M :
  wf h -> nth_error (mods h) m = Some M -> valid_value h v = true ->
  exists h' M',
    step h (SetAttr m k v) = Some h' /\ nth_error (mods h') m = Some M' /\
    assoc_get k (m_params M') = (match v with VParam p => Some p | _ => None end) /\
    assoc_get k (m_subs M') = (match v with VModule c => Some c | _ => None end) /\
    (forall k', k' <> k -> assoc_get k' (m_params M') = assoc_get k' (m_params M) /\
                           assoc_get k' (m_subs M') = assoc_get k' (m_subs M)) /\
    others k (m_params M') = others k (m_params M) /\
    others k (m_subs M') = others k (m_subs M) /\
    (match v with
     | VParam _ => In k (map fst (m_params M)) -> map fst (m_params M') = map fst (m_params M)
     | VModule _ => In k (map fst (m_subs M)) -> map fst (m_subs M') = map fst (m_subs M)
     | VOther => True end) /\
    (match v with
     | VParam p => ~ In k (map fst (m_params M)) -> m_params M' = m_params M ++ [(k, p)]
     | VModule c => ~ In k (map fst (m_subs M)) -> m_subs M' = m_subs M ++ [(k, c)]
     | VOther => True end) /\
    m_training M' = m_training M /\
    (forall i, i <> m -> nth_error (mods h') i = nth_error (mods h) i) /\
    length (mods h') = length (mods h) /\ pars h' = pars h.
Proof.
  intros Hwf HM Hv. destruct (Hwf m M HM) as (NDp & NDs & _ & _).
  assert (Hm : valid_mod h m = true) by (apply valid_mod_lt, nth_error_Some; congruence).
  exists (upd_mod h m (set_value k v)), (set_value k v M).
  rewrite step_setattr, Hm, Hv. simpl. split; [reflexivity|].
  split; [rewrite nth_error_upd_same, HM; reflexivity|].
  assert (Rest : (forall i, i <> m -> nth_error (upd m (set_value k v) (mods h)) i = nth_error (mods h) i) /\
                 length (upd m (set_value k v) (mods h)) = length (mods h) /\ pars h = pars h).
  { split; [intros i Hi; apply nth_error_upd_other; congruence|]. split; [apply upd_length|reflexivity]. }
  destruct v as [c|p|]; simpl.
  - repeat split; try apply Rest.
    + apply assoc_get_pop_same; exact NDp.
    + apply assoc_get_set_same.
    + apply assoc_get_pop_other; assumption.
    + apply assoc_get_set_other; assumption.
    + apply others_pop; exact NDp.
    + apply others_set.
    + apply keys_set_in.
    + apply set_notin_append.
  - repeat split; try apply Rest.
    + apply assoc_get_set_same.
    + apply assoc_get_pop_same; exact NDs.
    + apply assoc_get_set_other; assumption.
    + apply assoc_get_pop_other; assumption.
    + apply others_set.
    + apply others_pop; exact NDs.
    + apply keys_set_in.
    + apply set_notin_append.
  - repeat split; try apply Rest.
    + apply assoc_get_pop_same; exact NDp.
    + apply assoc_get_pop_same; exact NDs.
    + apply assoc_get_pop_other; assumption.
    + apply assoc_get_pop_other; assumption.
    + apply others_pop; exact NDp.
    + apply others_pop; exact NDs.
Qed.

(* register_module / register_parameter: same effect as the assignment for a value of the right class, TypeError otherwise *)
Theorem register_spec h m k v :
  step h (RegisterModule m k v) = (match v with VModule _ => step h (SetAttr m k v) | _ => None end) /\
  step h (RegisterParameter m k v) = (match v with VParam _ => step h (SetAttr m k v) | _ => None end).
Proof.
  simpl. destruct (valid_mod h m && valid_value h v); destruct v; auto.
Qed.

(* ================================================================== the invariant wf *)
Lemma wf_init : wf init.
Proof. intros m M H. destruct m; discriminate. Qed.

Lemma wf_upd_mod h m f :
  wf h ->
  (forall M, nth_error (mods h) m = Some M ->
     NoDup (map fst (m_params (f M))) /\ NoDup (map fst (m_subs (f M))) /\
     (forall c, In c (map snd (m_subs (f M))) -> c < length (mods h)) /\
     (forall p, In p (map snd (m_params (f M))) -> p < length (pars h))) ->
  wf (upd_mod h m f).
Proof.
  intros Hwf Hf i Mi Hi. unfold upd_mod in *. simpl in *. rewrite upd_length.
  destruct (Nat.eq_dec m i) as [->|Hne].
  - rewrite nth_error_upd_same in Hi. destruct (nth_error (mods h) i) as [M|] eqn:EM; [|discriminate].
    simpl in Hi. injection Hi as <-. apply Hf. reflexivity.
  - rewrite nth_error_upd_other in Hi by exact Hne. exact (Hwf i Mi Hi).
Qed.

Lemma In_snd_set {V} k (v : V) l x : In x (map snd (assoc_set k v l)) -> x = v \/ In x (map snd l).
Proof.
  intro H. apply in_map_iff in H. destruct H as [[a b] [<- H]]. apply In_assoc_set in H.
  destruct H as [H|H]; [injection H as _ ->; auto|right; apply (in_map snd) in H; exact H].
Qed.

Lemma In_snd_pop {V} k (l : list (name * V)) x : In x (map snd (assoc_pop k l)) -> In x (map snd l).
Proof.
  intro H. apply in_map_iff in H. destruct H as [[a b] [<- H]]. apply In_assoc_pop in H.
  apply (in_map snd) in H. exact H.
Qed.

Lemma wf_set_value h m k v : wf h -> valid_value h v = true -> wf (upd_mod h m (set_value k v)).
Proof.
  intros Hwf Hv. apply wf_upd_mod; [exact Hwf|]. intros M HM. destruct (Hwf m M HM) as (NDp & NDs & Hc & Hp).
  destruct v as [c|p|]; simpl in *.
  - apply valid_mod_lt in Hv. repeat split.
    + apply NoDup_keys_pop; exact NDp.
    + apply NoDup_keys_set; exact NDs.
    + intros x Hx. apply In_snd_set in Hx. destruct Hx as [->|Hx]; auto.
    + intros x Hx. apply In_snd_pop in Hx. auto.
  - apply valid_par_lt in Hv. repeat split.
    + apply NoDup_keys_set; exact NDp.
    + apply NoDup_keys_pop; exact NDs.
    + intros x Hx. apply In_snd_pop in Hx. auto.
    + intros x Hx. apply In_snd_set in Hx. destruct Hx as [->|Hx]; auto.
  - repeat split.
    + apply NoDup_keys_pop; exact NDp.
    + apply NoDup_keys_pop; exact NDs.
    + intros x Hx. apply In_snd_pop in Hx. auto.
    + intros x Hx. apply In_snd_pop in Hx. auto.
Qed.

Lemma wf_new_module h : wf h -> wf (new_module h).
Proof.
  intros Hwf i Mi Hi. unfold new_module in *. simpl in *. rewrite app_length. simpl.
  destruct (Nat.lt_ge_cases i (length (mods h))) as [Hlt|Hge].
  - rewrite nth_error_app1 in Hi by exact Hlt. destruct (Hwf i Mi Hi) as (A & B & C & D).
    repeat split; auto. intros c Hc. specialize (C c Hc). lia.
  - rewrite nth_error_app2 in Hi by exact Hge. destruct (i - length (mods h)) as [|j]; simpl in Hi.
    + injection Hi as <-. simpl. repeat split; try constructor; intros ? [].
    + destruct j; discriminate.
Qed.

Lemma register_module_as_set h m k c : register_module h m k c = upd_mod h m (set_value k (VModule c)).
Proof. reflexivity. Qed.

Lemma wf_new_sequential_fold m items : forall h,
  wf h -> (forall kc, In kc items -> snd kc < length (mods h)) ->
  wf (fold_left (fun h' kc => register_module h' m (fst kc) (snd kc)) items h) /\
  length (mods (fold_left (fun h' kc => register_module h' m (fst kc) (snd kc)) items h)) = length (mods h).
Proof.
  induction items as [|[k c] items IH]; intros h Hwf Hv; [simpl; auto|].
  simpl. assert (Hc : c < length (mods h)) by (apply (Hv (k, c)); left; reflexivity).
  destruct (IH (register_module h m k c)) as [W L].
  - rewrite register_module_as_set. apply wf_set_value; [exact Hwf|]. simpl. apply valid_mod_lt. exact Hc.
  - intros kc Hkc. unfold register_module, upd_mod. simpl. rewrite upd_length. apply Hv. right. exact Hkc.
  - split; [exact W|]. rewrite L. unfold register_module, upd_mod. simpl. apply upd_length.
Qed.

Lemma wf_shape h h' :
  map shape (mods h) = map shape (mods h') -> length (pars h) = length (pars h') -> wf h -> wf h'.
Proof.
  intros Hs Hp Hwf m M' HM'.
  assert (E : nth_error (map shape (mods h)) m = Some (shape M')) by (rewrite Hs, nth_error_map', HM'; reflexivity).
  rewrite nth_error_map' in E. destruct (nth_error (mods h) m) as [M|] eqn:EM; [|discriminate].
  simpl in E. injection E as E1 E2. unfold shape in *. destruct (Hwf m M EM) as (A & B & C & D).
  rewrite <- E1, <- E2, <- (shape_length _ _ Hs), <- Hp. auto.
Qed.

Lemma forallb_valid h l : forallb (valid_mod h) l = true -> forall c, In c l -> c < length (mods h).
Proof. intros H c Hc. rewrite forallb_forall in H. apply valid_mod_lt. auto. Qed.

Lemma wf_for_params h m f h' : wf h -> for_params h m f = Some h' -> wf h'.
Proof.
  intros Hwf H. unfold for_params in H. destruct (parameters h m) as [ps|]; [|discriminate].
  simpl in H. injection H as <-. rewrite fold_upd_par.
  apply (wf_shape h); [reflexivity|simpl; symmetry; apply fold_upd_length|exact Hwf].
Qed.

Lemma wf_set_mode h m b f h' : wf h -> set_mode_f f b h m = Some h' -> wf h'.
Proof.
  intros Hwf H. destruct (set_mode_post _ _ _ _ _ H) as (S1 & P1 & _).
  apply (wf_shape h); [symmetry; exact S1|rewrite P1; reflexivity|exact Hwf].
Qed.

Lemma positional_snd ms : map snd (positional ms) = ms.
Proof.
  unfold positional. assert (H : forall (ks : list name), length ks = length ms -> map snd (combine ks ms) = ms).
  { induction ms as [|c ms IH]; intros [|k ks] Hl; simpl in *; try discriminate; auto. f_equal. apply IH. lia. }
  apply H. rewrite map_length, seq_length. reflexivity.
Qed.

Theorem wf_step h e h' : wf h -> step h e = Some h' -> wf h'.
Proof.
  intros Hwf H. destruct e; cbn [step] in H.
  - injection H as <-. apply wf_new_module. exact Hwf.
  - injection H as <-. intros m M HM. simpl in *. destruct (Hwf m M HM) as (A & B & C & D).
    repeat split; auto. intros p Hp. rewrite app_length. specialize (D p Hp). lia.
  - destruct (valid_mod h m && valid_value h v) eqn:E; [|discriminate]. apply andb_prop in E. destruct E as [_ Ev].
    injection H as <-. pose proof (wf_set_value h m k v Hwf Ev) as W. destruct v; exact W.
  - destruct (valid_mod h m && valid_value h v) eqn:E; [|discriminate]. apply andb_prop in E. destruct E as [_ Ev].
    destruct v; try discriminate. injection H as <-. exact (wf_set_value h m k (VModule m0) Hwf Ev).
  - destruct (valid_mod h m && valid_value h v) eqn:E; [|discriminate]. apply andb_prop in E. destruct E as [_ Ev].
    destruct v; try discriminate. injection H as <-. exact (wf_set_value h m k (VParam p) Hwf Ev).
  - destruct (forallb (valid_mod h) ms) eqn:E; [|discriminate]. injection H as <-.
    apply wf_new_sequential_fold; [apply wf_new_module; exact Hwf|].
    intros kc Hkc. simpl. rewrite app_length. simpl.
    assert (In (snd kc) ms) by (rewrite <- (positional_snd ms); apply in_map; exact Hkc).
    pose proof (forallb_valid h ms E _ H). lia.
  - destruct (forallb (valid_mod h) (map snd items)) eqn:E; [|discriminate]. injection H as <-.
    apply wf_new_sequential_fold; [apply wf_new_module; exact Hwf|].
    intros kc Hkc. simpl. rewrite app_length. simpl.
    pose proof (forallb_valid h _ E _ (in_map snd _ _ Hkc)). lia.
  - eapply wf_set_mode; eauto.
  - eapply wf_set_mode; eauto.
  - eapply wf_for_params; eauto.
  - eapply wf_for_params; eauto.
  - eapply wf_for_params; eauto.
  - destruct (valid_par h p); [|discriminate]. injection H as <-.
    apply (wf_shape h); [reflexivity|simpl; symmetry; apply upd_length|exact Hwf].
  - destruct (valid_par h p); [|discriminate]. injection H as <-.
    apply (wf_shape h); [reflexivity|simpl; symmetry; apply upd_length|exact Hwf].
Qed.

(* every heap built by events satisfies the invariant *)
Theorem wf_run t : forall h h', wf h -> run h t = Some h' -> wf h'.
Proof.
  induction t as [|e t IH]; intros h h' Hwf H; simpl in H; [injection H as <-; exact Hwf|].
  destruct (step h e) as [h1|] eqn:E; [|discriminate]. eapply IH; [eapply wf_step; eauto|exact H].
Qed.

(* ================================================================== Sequential *)
Lemma str_of_nat_inj i j : str_of_nat i = str_of_nat j -> i = j.
Proof.
  unfold str_of_nat. intro H.
  assert (E : Some (Nat.to_uint i) = Some (Nat.to_uint j)).
  { rewrite <- (NilEmpty.usu (Nat.to_uint i)), <- (NilEmpty.usu (Nat.to_uint j)), H. reflexivity. }
  injection E as E. rewrite <- (Unsigned.of_to i), <- (Unsigned.of_to j), E. reflexivity.
Qed.

Lemma positional_keys ms : map fst (positional ms) = map str_of_nat (seq 0 (length ms)).
Proof.
  unfold positional.
  assert (H : forall (ks : list name), length ks = length ms -> map fst (combine ks ms) = ks).
  { induction ms as [|c ms IH]; intros [|k ks] Hl; simpl in *; try discriminate; auto. f_equal. apply IH. lia. }
  apply H. rewrite map_length, seq_length. reflexivity.
Qed.

Lemma positional_keys_NoDup ms : NoDup (map fst (positional ms)).
Proof.
  rewrite positional_keys. apply FinFun.Injective_map_NoDup; [|apply seq_NoDup].
  intros i j. apply str_of_nat_inj.
Qed.

Lemma upd_app_last {A} (f : A -> A) l x : upd (length l) f (l ++ [x]) = l ++ [f x].
Proof. induction l as [|a l IH]; simpl; [reflexivity|]. f_equal. exact IH. Qed.

Lemma NoDup_app_left {A} (a b : list A) : NoDup (a ++ b) -> NoDup a.
Proof.
  induction a as [|h a IH]; simpl; intro H; [constructor|].
  inversion H as [|? ? Hn Hd]; subst. constructor.
  - intro Hin. apply Hn. apply in_or_app. left. exact Hin.
  - apply IH. exact Hd.
Qed.

Lemma NoDup_app_notin {A} (l : list A) x : NoDup (l ++ [x]) -> ~ In x l.
Proof.
  induction l as [|a l IH]; simpl; intro H; [tauto|].
  inversion H as [|? ? Hn Hd]; subst. intros [->|Hx].
  - apply Hn. apply in_or_app. right. left. reflexivity.
  - exact (IH Hd Hx).
Qed.

Lemma new_sequential_fold h items : forall acc,
  NoDup (map fst (acc ++ items)) ->
  fold_left (fun h' kc => register_module h' (length (mods h)) (fst kc) (snd kc)) items
            {| mods := mods h ++ [{| m_params := []; m_subs := acc; m_training := true |}]; pars := pars h |} =
  {| mods := mods h ++ [{| m_params := []; m_subs := acc ++ items; m_training := true |}]; pars := pars h |}.
Proof.
  induction items as [|[k c] items IH]; intros acc Hnd; simpl; [rewrite app_nil_r; reflexivity|].
  unfold register_module at 2. unfold upd_mod. simpl. rewrite upd_app_last. simpl.
  rewrite set_notin_append.
  - rewrite IH; rewrite <- app_assoc; [reflexivity|exact Hnd].
  - change (acc ++ (k, c) :: items) with (acc ++ [(k, c)] ++ items) in Hnd.
    rewrite app_assoc, map_app in Hnd. apply NoDup_app_left in Hnd.
    rewrite map_app in Hnd. simpl in Hnd. apply NoDup_app_notin. exact Hnd.
Qed.

Theorem new_sequential_spec h items :
  NoDup (map fst items) ->
  new_sequential h items =
  {| mods := mods h ++ [{| m_params := []; m_subs := items; m_training := true |}]; pars := pars h |}.
Proof. intro H. unfold new_sequential, new_module. apply (new_sequential_fold h items []). exact H. Qed.

Lemma nth_error_app_last {A} (l : list A) x : nth_error (l ++ [x]) (length l) = Some x.
Proof. rewrite nth_error_app2 by lia. rewrite Nat.sub_diag. reflexivity. Qed.

(* Sequential(m_0, ..., m_{k-1}): a new module whose submodule registry is ("0",m_0), ..., ("k-1",m_{k-1}) in that order;
   forward applies them in that order *)
Theorem sequential_positional h ms :
  forallb (valid_mod h) ms = true ->
  exists h', step h (NewSequential ms) = Some h' /\
    mods h' = mods h ++ [{| m_params := []; m_subs := positional ms; m_training := true |}] /\
    pars h' = pars h /\
    submodules h' (length (mods h)) = Some ms /\
    map fst (positional ms) = map str_of_nat (seq 0 (length ms)) /\
    forall X (call : nat -> X -> X) x,
      seq_forward call h' (length (mods h)) x =
      match ms with [] => None | _ => Some (fold_left (fun acc c => call c acc) ms x) end.
Proof.
  intro Hv. eexists. cbn [step]. rewrite Hv. split; [reflexivity|].
  rewrite new_sequential_spec by apply positional_keys_NoDup. cbn [mods pars].
  split; [reflexivity|]. split; [reflexivity|].
  assert (Hs : submodules {| mods := mods h ++ [{| m_params := []; m_subs := positional ms; m_training := true |}];
                             pars := pars h |} (length (mods h)) = Some ms).
  { unfold submodules. cbn [mods]. rewrite nth_error_app_last. simpl. rewrite positional_snd. reflexivity. }
  split; [exact Hs|]. split; [apply positional_keys|].
  intros X call x. unfold seq_forward. rewrite Hs. destruct ms; reflexivity.
Qed.

(* Sequential(OrderedDict(items)): the given names, in the order of the dict *)
Theorem sequential_dict h items :
  NoDup (map fst items) -> forallb (valid_mod h) (map snd items) = true ->
  exists h', step h (NewSequentialDict items) = Some h' /\
    mods h' = mods h ++ [{| m_params := []; m_subs := items; m_training := true |}] /\
    pars h' = pars h /\
    submodules h' (length (mods h)) = Some (map snd items) /\
    forall X (call : nat -> X -> X) x,
      seq_forward call h' (length (mods h)) x =
      match items with [] => None | _ => Some (fold_left (fun acc c => call c acc) (map snd items) x) end.
Proof.
  intros Hnd Hv. eexists. cbn [step]. rewrite Hv. split; [reflexivity|].
  rewrite new_sequential_spec by exact Hnd. cbn [mods pars].
  split; [reflexivity|]. split; [reflexivity|].
  assert (Hs : submodules {| mods := mods h ++ [{| m_params := []; m_subs := items; m_training := true |}];
                             pars := pars h |} (length (mods h)) = Some (map snd items)).
  { unfold submodules. cbn [mods]. rewrite nth_error_app_last. reflexivity. }
  split; [exact Hs|].
  intros X call x. unfold seq_forward. rewrite Hs. destruct items; reflexivity.
Qed.

(* forward in general (whatever happened to the registry afterwards): a left fold over submodules(), in that order *)
Theorem seq_forward_spec {X} (call : nat -> X -> X) h m x y :
  seq_forward call h m x = Some y ->
  exists cs, submodules h m = Some cs /\ cs <> [] /\ y = fold_left (fun acc c => call c acc) cs x.
Proof.
  unfold seq_forward. destruct (submodules h m) as [[|c cs]|]; try discriminate.
  intro H. injection H as <-. exists (c :: cs). repeat split. discriminate.
Qed.

(* ================================================================== zero_grad / freeze / unfreeze as events *)
Inductive pop := PZero | PFreeze | PUnfreeze.
Definition pop_ev (o : pop) (m : nat) : ev :=
  match o with PZero => ZeroGrad m | PFreeze => Freeze m | PUnfreeze => Unfreeze m end.
Definition pop_fun (o : pop) : param -> param :=
  match o with PZero => zero_one | PFreeze => set_req false | PUnfreeze => set_req true end.

Theorem param_ops_spec h m o :
  wf h -> acyclic h -> m < length (mods h) ->
  exists ps h',
    parameters h m = Some ps /\ step h (pop_ev o m) = Some h' /\
    mods h' = mods h /\ length (pars h') = length (pars h) /\
    forall p, (In p ps -> nth_error (pars h') p = option_map (pop_fun o) (nth_error (pars h) p)) /\
              (~ In p ps -> nth_error (pars h') p = nth_error (pars h) p).
Proof.
  intros Hwf Hac Hv. destruct (parameters_spec h m Hwf Hac Hv) as (raw & ps & _ & Hps & _).
  destruct (for_params_spec h m (pop_fun o) ps) as (h' & Hf & Hm & Hl & Hn); [|exact Hps|].
  { destruct o; simpl; intro P; [apply zero_one_idem|reflexivity|reflexivity]. }
  exists ps, h'. split; [exact Hps|]. split; [destruct o; exact Hf|]. auto.
Qed.

(* ================================================================== acyclic <-> no module reaches itself *)
Definition reach_plus (h : heap) (m m' : nat) : Prop := exists c, child h m c /\ reach h c m'.
Definition no_cycle (h : heap) : Prop := forall m, ~ reach_plus h m m.

Lemma reach_rank h rank : (forall m c, child h m c -> rank c < rank m) -> forall m m', reach h m m' -> rank m' <= rank m.
Proof.
  intros Hr m m' H. induction H as [m Hv|m c m' Hc H IH]; [lia|]. specialize (Hr m c Hc). lia.
Qed.

Lemma acyclic_no_cycle h : acyclic h -> no_cycle h.
Proof.
  intros (rank & Hr & _) m (c & Hc & Hreach).
  pose proof (reach_rank h rank Hr _ _ Hreach). specialize (Hr m c Hc). lia.
Qed.

Fixpoint height_f (fuel : nat) (h : heap) (m : nat) : option nat :=
  match fuel with
  | 0 => None
  | S f => match nth_error (mods h) m with
           | None => None
           | Some M => option_map (fun ks => S (list_max ks)) (sequence (map (height_f f h) (map snd (m_subs M))))
           end
  end.

Inductive chain (h : heap) : list nat -> Prop :=
| chain_one m : m < length (mods h) -> chain h [m]
| chain_cons m c t : child h m c -> chain h (c :: t) -> chain h (m :: c :: t).

Lemma sequence_none {A B} (g : A -> option B) l : sequence (map g l) = None -> exists x, In x l /\ g x = None.
Proof.
  induction l as [|a l IH]; simpl; [discriminate|].
  destruct (g a) eqn:E; [|intros _; exists a; auto].
  destruct (sequence (map g l)); simpl; [discriminate|]. intros _.
  destruct (IH eq_refl) as (x & Hx & Hg). exists x. auto.
Qed.

Lemma height_none_chain h : wf h -> forall f m, m < length (mods h) -> height_f f h m = None ->
  exists p, chain h (m :: p) /\ length p = f.
Proof.
  intro Hwf. induction f as [|f IH]; intros m Hv H.
  - exists []. split; [constructor; exact Hv|reflexivity].
  - simpl in H. destruct (nth_error (mods h) m) as [M|] eqn:EM.
    2:{ apply nth_error_None in EM. lia. }
    destruct (sequence (map (height_f f h) (map snd (m_subs M)))) eqn:E; [discriminate|].
    destruct (sequence_none _ _ E) as (c & Hc & Hn).
    assert (Hch : child h m c) by (exists M; auto).
    destruct (IH c (wf_child _ _ _ Hwf Hch) Hn) as (p & Hp & Hl).
    exists (c :: p). split; [constructor; assumption|simpl; lia].
Qed.

Lemma chain_valid h l : wf h -> chain h l -> forall x, In x l -> x < length (mods h).
Proof.
  intros Hwf H. induction H as [m Hv|m c t Hc H IH]; intros x Hx.
  - destruct Hx as [<-|[]]. exact Hv.
  - destruct Hx as [<-|Hx]; [eapply child_valid; eauto|auto].
Qed.

Lemma chain_tail h a l : l <> [] -> chain h (a :: l) -> chain h l.
Proof.
  intros Hne H. inversion H; subst.
  - exfalso. apply Hne. reflexivity.
  - assumption.
Qed.

Lemma chain_suffix h l1 : forall l2, l2 <> [] -> chain h (l1 ++ l2) -> chain h l2.
Proof.
  induction l1 as [|a l1 IH]; intros l2 Hne H; [exact H|].
  simpl in H. apply IH; [exact Hne|]. apply (chain_tail h a); [|exact H].
  intro E. apply app_eq_nil in E. destruct E as [_ E]. contradiction.
Qed.

Lemma chain_head_valid h m t : chain h (m :: t) -> m < length (mods h).
Proof. inversion 1; subst; [assumption|eapply child_valid; eauto]. Qed.

Lemma chain_reach_plus h l2 : forall x y l3, chain h (x :: l2 ++ y :: l3) -> reach_plus h x y.
Proof.
  induction l2 as [|a l2 IH]; intros x y l3 H; simpl in H.
  - inversion H as [|? ? ? Hc H']; subst. exists y. split; [exact Hc|].
    apply reach_refl. eapply chain_head_valid; eauto.
  - inversion H as [|? ? ? Hc H']; subst. exists a. split; [exact Hc|].
    destruct (IH _ _ _ H') as (c & Hc' & Hr). eapply reach_step; eauto.
Qed.

Lemma not_NoDup_split (l : list nat) : ~ NoDup l -> exists x l1 l2 l3, l = l1 ++ x :: l2 ++ x :: l3.
Proof.
  induction l as [|a t IH]; intro H; [exfalso; apply H; constructor|].
  destruct (in_dec Nat.eq_dec a t) as [Hin|Hnin].
  - apply in_split in Hin. destruct Hin as (l2 & l3 & ->). exists a, [], l2, l3. reflexivity.
  - destruct IH as (x & l1 & l2 & l3 & ->).
    + intro Hnd. apply H. constructor; assumption.
    + exists x, (a :: l1), l2, l3. reflexivity.
Qed.

Lemma height_total h : wf h -> no_cycle h -> forall m, m < length (mods h) ->
  exists k, height_f (length (mods h)) h m = Some k.
Proof.
  intros Hwf Hnc m Hv. destruct (height_f (length (mods h)) h m) as [k|] eqn:E; [eauto|exfalso].
  destruct (height_none_chain h Hwf _ m Hv E) as (p & Hp & Hl).
  assert (Hnd : ~ NoDup (m :: p)).
  { intro Hnd. assert (Hincl : incl (m :: p) (seq 0 (length (mods h)))).
    { intros x Hx. apply in_seq. pose proof (chain_valid h _ Hwf Hp x Hx). lia. }
    pose proof (NoDup_incl_length Hnd Hincl) as Hlen. rewrite seq_length in Hlen. simpl in Hlen. lia. }
  destruct (not_NoDup_split _ Hnd) as (x & l1 & l2 & l3 & Heq).
  rewrite Heq in Hp. apply chain_suffix in Hp; [|discriminate].
  apply (Hnc x). eapply chain_reach_plus. exact Hp.
Qed.

Lemma height_mono h : forall f m k, height_f f h m = Some k -> height_f (S f) h m = Some k.
Proof.
  induction f as [|f IH]; intros m k H; [discriminate|].
  change (height_f (S (S f)) h m) with
    (match nth_error (mods h) m with
     | None => None
     | Some M => option_map (fun ks => S (list_max ks)) (sequence (map (height_f (S f) h) (map snd (m_subs M))))
     end).
  simpl in H. destruct (nth_error (mods h) m) as [M|]; [|discriminate].
  destruct (sequence (map (height_f f h) (map snd (m_subs M)))) as [ks|] eqn:E; [|discriminate].
  apply sequence_Forall2 in E.
  assert (E' : Forall2 (fun c k => height_f (S f) h c = Some k) (map snd (m_subs M)) ks).
  { eapply Forall2_impl_l; [|exact E]. intros c kc _ Hc. apply IH. exact Hc. }
  apply sequence_Forall2 in E'. rewrite E'. exact H.
Qed.

Lemma height_le h : forall f m k, height_f f h m = Some k -> k <= f.
Proof.
  induction f as [|f IH]; intros m k H; [discriminate|].
  simpl in H. destruct (nth_error (mods h) m) as [M|]; [|discriminate].
  destruct (sequence (map (height_f f h) (map snd (m_subs M)))) as [ks|] eqn:E; [|discriminate].
  simpl in H. injection H as <-. apply sequence_Forall2 in E.
  apply le_n_S. apply list_max_le. rewrite Forall_forall. intros kc Hkc.
  destruct (Forall2_In_r _ _ _ _ E Hkc) as (c & _ & Hc). eapply IH; eauto.
Qed.

Lemma height_child h f m k c : height_f (S f) h m = Some k -> child h m c ->
  exists kc, height_f f h c = Some kc /\ kc < k.
Proof.
  intros H (M & HM & Hc). simpl in H. rewrite HM in H.
  destruct (sequence (map (height_f f h) (map snd (m_subs M)))) as [ks|] eqn:E; [|discriminate].
  simpl in H. injection H as <-. apply sequence_Forall2 in E.
  destruct (Forall2_In_l _ _ _ _ E Hc) as (kc & Hkc & Hh). exists kc. split; [exact Hh|].
  apply le_n_S. assert (F : Forall (fun k => k <= list_max ks) ks) by (apply list_max_le; lia).
  rewrite Forall_forall in F. auto.
Qed.

(* the rank hypothesis is exactly "no module reaches itself" on the heaps built by events *)
Theorem no_cycle_acyclic h : wf h -> no_cycle h -> acyclic h.
Proof.
  intros Hwf Hnc.
  exists (fun m => match height_f (length (mods h)) h m with Some k => k | None => 0 end). split.
  - intros m c Hch. pose proof (child_valid _ _ _ Hch) as Hv.
    destruct (height_total h Hwf Hnc m Hv) as [k Hk]. rewrite Hk.
    destruct (length (mods h)) as [|N] eqn:EN; [discriminate|].
    destruct (height_child h N m k c Hk Hch) as (kc & Hkc & Hlt).
    rewrite (height_mono h N c kc Hkc). exact Hlt.
  - intro m. destruct (height_f (length (mods h)) h m) as [k|] eqn:E; [|lia]. eapply height_le; eauto.
Qed.

(* ================================================================== freeze / unfreeze are absolute, not relative to history *)
Lemma parameters_f_mods h h' : mods h = mods h' -> forall f m, parameters_f f h m = parameters_f f h' m.
Proof.
  intro E. induction f as [|f IH]; intro m; [reflexivity|].
  rewrite !parameters_unfold, <- E. destruct (nth_error (mods h) m) as [M|]; [|reflexivity].
  rewrite (map_ext _ _ IH). reflexivity.
Qed.

Lemma parameters_mods h h' m : mods h = mods h' -> parameters h m = parameters h' m.
Proof. intro E. unfold parameters, fuel_of. rewrite <- E. apply parameters_f_mods. exact E. Qed.

Lemma filter_all_true {A} (f : A -> bool) l : (forall x, In x l -> f x = true) -> filter f l = l.
Proof.
  induction l as [|a l IH]; intro H; [reflexivity|]. simpl. rewrite (H a (or_introl eq_refl)).
  f_equal. apply IH. intros x Hx. apply H. right. exact Hx.
Qed.

Lemma filter_all_false {A} (f : A -> bool) l : (forall x, In x l -> f x = false) -> filter f l = [].
Proof.
  induction l as [|a l IH]; intro H; [reflexivity|]. simpl. rewrite (H a (or_introl eq_refl)).
  apply IH. intros x Hx. apply H. right. exact Hx.
Qed.

Lemma sum_sizes_pars h h' l :
  (forall p, option_map p_size (nth_error (pars h') p) = option_map p_size (nth_error (pars h) p)) ->
  sum_sizes h' l = sum_sizes h l.
Proof.
  intro H. induction l as [|p l IH]; [reflexivity|]. rewrite !sum_sizes_cons, IH. f_equal.
  unfold size_of. specialize (H p). destruct (nth_error (pars h') p), (nth_error (pars h) p); simpl in H; congruence.
Qed.

(* After m.freeze() (b = false) / m.unfreeze() (b = true), on ANY cycle-free heap built by events — whatever freezes,
   unfreezes, manual requires_grad flips, attachments or replacements happened before — every parameter owned by a module
   reachable from m has requires_grad = b, and num_params splits accordingly. *)
Theorem freeze_unfreeze_absolute h m (b : bool) :
  wf h -> acyclic h -> m < length (mods h) ->
  exists h' ps,
    step h (if b then Unfreeze m else Freeze m) = Some h' /\ mods h' = mods h /\
    parameters h' m = Some ps /\
    (forall m' p, reach h m m' -> owns h m' p -> option_map p_req (nth_error (pars h') p) = Some b) /\
    num_params h' m All = Some (sum_sizes h ps) /\
    num_params h' m Trainable = Some (if b then sum_sizes h ps else 0) /\
    num_params h' m NonTrainable = Some (if b then 0 else sum_sizes h ps).
Proof.
  intros Hwf Hac Hv.
  destruct (parameters_spec h m Hwf Hac Hv) as (raw & ps0 & _ & Hps0 & _ & _ & Hin & _).
  destruct (param_ops_spec h m (if b then PUnfreeze else PFreeze) Hwf Hac Hv) as (ps & h' & Hps & Hstep & Hm & Hl & Hn).
  rewrite Hps0 in Hps. injection Hps as <-.
  assert (Hfun : pop_fun (if b then PUnfreeze else PFreeze) = set_req b) by (destruct b; reflexivity).
  assert (Hstep' : step h (if b then Unfreeze m else Freeze m) = Some h') by (destruct b; exact Hstep).
  assert (Hreq : forall p, In p ps0 -> option_map p_req (nth_error (pars h') p) = Some b).
  { intros p Hp. rewrite (proj1 (Hn p) Hp), Hfun.
    apply Hin in Hp. destruct Hp as (m' & Hr & (M & HM & Hown)).
    pose proof (proj2 (proj2 (proj2 (Hwf m' M HM))) p Hown) as Hlt.
    destruct (nth_error (pars h) p) as [P|] eqn:EP; [reflexivity|]. apply nth_error_None in EP. lia. }
  assert (Hsize : forall p, option_map p_size (nth_error (pars h') p) = option_map p_size (nth_error (pars h) p)).
  { intro p. destruct (in_dec Nat.eq_dec p ps0) as [Hp|Hp].
    - rewrite (proj1 (Hn p) Hp), Hfun. destruct (nth_error (pars h) p); reflexivity.
    - rewrite (proj2 (Hn p) Hp). reflexivity. }
  assert (Hps' : parameters h' m = Some ps0) by (rewrite <- (parameters_mods h h' m (eq_sym Hm)); exact Hps0).
  assert (Htr : forall p, In p ps0 -> trainable h' p = b).
  { intros p Hp. specialize (Hreq p Hp). unfold trainable. destruct (nth_error (pars h') p); simpl in Hreq; [congruence|discriminate]. }
  exists h', ps0. split; [exact Hstep'|]. split; [exact Hm|]. split; [exact Hps'|]. split.
  { intros m' p Hr Ho. apply Hreq. apply Hin. eauto. }
  destruct (num_params_spec h' m ps0 Hps') as (NA & NT & NN & _).
  rewrite NA, NT, NN, (sum_sizes_pars h h' ps0 Hsize). split; [reflexivity|].
  destruct b.
  - rewrite filter_all_true by exact Htr.
    rewrite filter_all_false by (intros p Hp; rewrite (Htr p Hp); reflexivity).
    rewrite (sum_sizes_pars h h' ps0 Hsize). split; reflexivity.
  - rewrite filter_all_false by exact Htr.
    rewrite filter_all_true by (intros p Hp; rewrite (Htr p Hp); reflexivity).
    rewrite (sum_sizes_pars h h' ps0 Hsize). split; reflexivity.
Qed.
