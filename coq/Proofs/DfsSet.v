(* The graph-ordering loop over an abstract implementation of `visited_nodes` (property C19: the
   result does not depend on how the Python set stores / orders / hashes its elements).

   [gstep]/[grun]/[gdfs] are [dstep]/[drun]/[dfs] of Engine/Dfs.v with the visited set taken from an
   arbitrary type [VS] that is only used through [empty], [add] and [memb] (the source census of C19
   checks that the loop uses the set only through `{self}`, `in` and `.add`).  Whatever the
   implementation, as long as it satisfies the two set equations, the loop produces the same order,
   the same zero_() calls (in the same sequence) and the same buffers as the list-based model.       *)
From Coq Require Import List Bool Arith Lia.
Import ListNotations.
From SG Require Import Engine.Graph Engine.Dfs.

Section SetIndependence.
  Variable VS : Type.
  Variable empty : VS.
  Variable add : nat -> VS -> VS.
  Variable memb : nat -> VS -> bool.
  Hypothesis memb_add : forall x y s, memb x (add y s) = (x =? y) || memb x s.
  Hypothesis memb_empty : forall x, memb x empty = false.

  Record gstate := mkG {
    gstack   : list (nat * list nat);
    gvis     : VS;
    grord    : list nat;
    gpresent : list nat;
    gzlog    : list nat
  }.

  Definition gstep (g : arena) (s : gstate) : option gstate :=
    match gstack s with
    | [] => None
    | (n, []) :: rest =>
        Some (mkG rest (gvis s) (n :: grord s) (gpresent s) (gzlog s))
    | (n, c :: cs) :: rest =>
        let z := zeroes g (gpresent s) c in
        let present' := if z && negb (mem c (gpresent s)) then c :: gpresent s else gpresent s in
        let zlog' := if z then c :: gzlog s else gzlog s in
        if memb c (gvis s)
        then Some (mkG ((n, cs) :: rest) (gvis s) (grord s) present' zlog')
        else Some (mkG ((c, children (getn g c)) :: (n, cs) :: rest) (add c (gvis s)) (grord s)
                       present' zlog')
    end.

  Fixpoint grun (g : arena) (fuel : nat) (s : gstate) : option gstate :=
    match gstep g s with
    | None => Some s
    | Some s' => match fuel with O => None | S f => grun g f s' end
    end.

  Definition ginit (g : arena) (root : nat) (present0 : list nat) : gstate :=
    mkG [(root, children (getn g root))] (add root empty) [] present0 [].

  Definition gdfs (g : arena) (root : nat) (present0 : list nat) (fuel : nat)
    : option (list nat * list nat * list nat) :=
    match grun g fuel (ginit g root present0) with
    | None => None
    | Some s => Some (rev (grord s), rev (gzlog s), gpresent s)
    end.

  (* the two loop states agree on everything observable *)
  Definition srel (s : dstate) (t : gstate) : Prop :=
    stack s = gstack t /\ (forall x, mem x (vis s) = memb x (gvis t)) /\
    rord s = grord t /\ present s = gpresent t /\ zlog s = gzlog t.

  Definition orel (o : option dstate) (o' : option gstate) : Prop :=
    match o, o' with
    | None, None => True
    | Some s, Some t => srel s t
    | _, _ => False
    end.

  Lemma srel_init g root p0 : srel (dinit g root p0) (ginit g root p0).
  Proof.
    unfold srel, dinit, ginit. cbn [stack vis rord present zlog gstack gvis grord gpresent gzlog].
    repeat split. intros x. rewrite memb_add, memb_empty. reflexivity.
  Qed.

  Lemma gstep_sim g s t : srel s t -> orel (dstep g s) (gstep g t).
  Proof.
    intros (Hst & Hv & Hr & Hp & Hz). unfold dstep, gstep. rewrite <- Hst, <- Hr, <- Hp, <- Hz.
    destruct (stack s) as [|[n [|c cs]] rest]; cbn [orel].
    - exact I.
    - unfold srel. cbn [stack vis rord present zlog gstack gvis grord gpresent gzlog].
      repeat split. exact Hv.
    - rewrite <- (Hv c). destruct (mem c (vis s)) eqn:Hm; cbn [orel]; unfold srel;
        cbn [stack vis rord present zlog gstack gvis grord gpresent gzlog]; repeat split.
      + exact Hv.
      + intros x. rewrite memb_add, <- Hv. reflexivity.
  Qed.

  Lemma grun_sim g : forall fuel s t, srel s t -> orel (drun g fuel s) (grun g fuel t).
  Proof.
    induction fuel as [|f IH]; intros s t H; cbn [drun grun]; pose proof (gstep_sim g s t H) as Hs;
      destruct (dstep g s) as [s'|], (gstep g t) as [t'|]; cbn [orel] in Hs; try contradiction;
      cbn [orel]; auto.
  Qed.

  Theorem gdfs_eq_dfs g root present0 fuel :
    gdfs g root present0 fuel = dfs g root present0 fuel.
  Proof.
    unfold gdfs, dfs. pose proof (grun_sim g fuel _ _ (srel_init g root present0)) as H.
    destruct (drun g fuel (dinit g root present0)) as [s|],
             (grun g fuel (ginit g root present0)) as [t|]; cbn [orel] in H; try contradiction.
    - destruct H as (_ & _ & Hr & Hp & Hz). rewrite Hr, Hp, Hz. reflexivity.
    - reflexivity.
  Qed.
End SetIndependence.

(* two implementations of the specification, to show it is satisfiable by something other than the
   list of Engine/Dfs.v: characteristic functions, and duplicate-free lists kept sorted in
   decreasing order (a different iteration order, as with a hash set) *)
Definition fs_empty : nat -> bool := fun _ => false.
Definition fs_add (y : nat) (s : nat -> bool) : nat -> bool := fun x => (x =? y) || s x.
Definition fs_memb (x : nat) (s : nat -> bool) : bool := s x.

Lemma fs_memb_add x y s : fs_memb x (fs_add y s) = (x =? y) || fs_memb x s.
Proof. reflexivity. Qed.
Lemma fs_memb_empty x : fs_memb x fs_empty = false.
Proof. reflexivity. Qed.

Fixpoint sl_add (y : nat) (s : list nat) : list nat :=
  match s with
  | [] => [y]
  | a :: t => if a <? y then y :: s else if a =? y then s else a :: sl_add y t
  end.

Lemma sl_memb_add x y s : mem x (sl_add y s) = (x =? y) || mem x s.
Proof.
  induction s as [|a t IH]; cbn [sl_add].
  - reflexivity.
  - destruct (a <? y); [reflexivity|]. destruct (a =? y) eqn:E.
    + apply Nat.eqb_eq in E. subst a. unfold mem. cbn [existsb].
      destruct (x =? y); reflexivity.
    + unfold mem in *. cbn [existsb]. rewrite IH.
      destruct (x =? a), (x =? y); reflexivity.
Qed.
