(* C01 for the view / indexing ops: statements assembled from the per-op inverse / scatter theorems. *)
From Coq Require Import List Arith ZArith Lia Bool.
Import ListNotations.
From SG Require Import Base.Sums Base.Cmp NumPy.Gather NumPy.Index NumPy.Tensor NumPy.ViewsAux NumPy.Views NumPy.Indexing NumPy.Spec.
From SG Require Import Proofs.ViewsAuxProofs Proofs.ViewsReshapeProofs Proofs.ViewsPermProofs Proofs.ViewsUnfoldProofs Proofs.ViewsIndexProofs.

Lemma inverse_backward_is_scatter op bop : inverse_ops op bop -> backward_is_scatter op bop.
Proof.
  intros I. pose proof I as (E1 & E2 & _). split; auto. split; auto.
  intros A SA LA g i Hi. now apply inverse_ops_scatter.
Qed.

Lemma inverse_vjp op bop : inverse_ops op bop -> vjp_identity op (fun A SA g => apply_op bop g).
Proof.
  intros I A SA LA x g. apply vjp_of_backward. now apply (inverse_ops_maps_into op bop).
  intros i Hi. now apply inverse_ops_scatter.
Qed.

(* ------------------------------------------------------------------ reshape *)
Theorem bwd_reshape_is_scatter sh t op : fwd_reshape sh t = Some op ->
  g_in op = sh /\ exists bop, bwd_reshape (g_out op) sh = Some bop /\ backward_is_scatter op bop.
Proof. intros F. destruct (reshape_inverse _ _ _ F) as (Ei & bop & Eb & I). split; auto. exists bop. split; auto. now apply inverse_backward_is_scatter. Qed.
Theorem reshape_vjp sh t op : fwd_reshape sh t = Some op ->
  exists bop, bwd_reshape (g_out op) sh = Some bop /\ vjp_identity op (fun A SA g => apply_op bop g).
Proof. intros F. destruct (reshape_inverse _ _ _ F) as (Ei & bop & Eb & I). exists bop. split; auto. now apply inverse_vjp. Qed.
Theorem reshape_bijective sh t op : fwd_reshape sh t = Some op -> bijective op.
Proof. intros F. destruct (reshape_inverse _ _ _ F) as (Ei & bop & Eb & I). now apply (inverse_ops_bijective op bop). Qed.

(* ------------------------------------------------------------------ flatten *)
Theorem bwd_flatten_is_scatter sh s e op : fwd_flatten sh s e = Some op ->
  g_in op = sh /\ exists bop, bwd_flatten (g_out op) sh = Some bop /\ backward_is_scatter op bop.
Proof. intros F. destruct (flatten_inverse _ _ _ _ F) as (Ei & bop & Eb & I). split; auto. exists bop. split; auto. now apply inverse_backward_is_scatter. Qed.
Theorem flatten_vjp sh s e op : fwd_flatten sh s e = Some op ->
  exists bop, bwd_flatten (g_out op) sh = Some bop /\ vjp_identity op (fun A SA g => apply_op bop g).
Proof. intros F. destruct (flatten_inverse _ _ _ _ F) as (Ei & bop & Eb & I). exists bop. split; auto. now apply inverse_vjp. Qed.
Theorem flatten_bijective sh s e op : fwd_flatten sh s e = Some op -> bijective op.
Proof. intros F. destruct (flatten_inverse _ _ _ _ F) as (Ei & bop & Eb & I). now apply (inverse_ops_bijective op bop). Qed.

(* ------------------------------------------------------------------ squeeze *)
Theorem bwd_squeeze_is_scatter sh arg op : fwd_squeeze sh arg = Some op ->
  g_in op = sh /\ exists bop, bwd_squeeze (g_out op) sh = Some bop /\ backward_is_scatter op bop.
Proof. intros F. destruct (squeeze_inverse _ _ _ F) as (Ei & bop & Eb & I). split; auto. exists bop. split; auto. now apply inverse_backward_is_scatter. Qed.
Theorem squeeze_vjp sh arg op : fwd_squeeze sh arg = Some op ->
  exists bop, bwd_squeeze (g_out op) sh = Some bop /\ vjp_identity op (fun A SA g => apply_op bop g).
Proof. intros F. destruct (squeeze_inverse _ _ _ F) as (Ei & bop & Eb & I). exists bop. split; auto. now apply inverse_vjp. Qed.
Theorem squeeze_bijective sh arg op : fwd_squeeze sh arg = Some op -> bijective op.
Proof. intros F. destruct (squeeze_inverse _ _ _ F) as (Ei & bop & Eb & I). now apply (inverse_ops_bijective op bop). Qed.

(* ------------------------------------------------------------------ unsqueeze *)
Theorem bwd_unsqueeze_is_scatter sh arg op : fwd_unsqueeze sh arg = Some op ->
  g_in op = sh /\ exists bop, bwd_unsqueeze (g_out op) arg = Some bop /\ backward_is_scatter op bop.
Proof. intros F. destruct (unsqueeze_inverse _ _ _ F) as (Ei & bop & Eb & I). split; auto. exists bop. split; auto. now apply inverse_backward_is_scatter. Qed.
Theorem unsqueeze_vjp sh arg op : fwd_unsqueeze sh arg = Some op ->
  exists bop, bwd_unsqueeze (g_out op) arg = Some bop /\ vjp_identity op (fun A SA g => apply_op bop g).
Proof. intros F. destruct (unsqueeze_inverse _ _ _ F) as (Ei & bop & Eb & I). exists bop. split; auto. now apply inverse_vjp. Qed.
Theorem unsqueeze_bijective sh arg op : fwd_unsqueeze sh arg = Some op -> bijective op.
Proof. intros F. destruct (unsqueeze_inverse _ _ _ F) as (Ei & bop & Eb & I). now apply (inverse_ops_bijective op bop). Qed.

(* ------------------------------------------------------------------ movedim *)
Theorem bwd_movedim_is_scatter sh s d op : fwd_movedim sh s d = Some op ->
  g_in op = sh /\ exists bop, bwd_movedim (g_out op) s d = Some bop /\ backward_is_scatter op bop.
Proof. intros F. destruct (movedim_inverse _ _ _ _ F) as (Ei & bop & Eb & I). split; auto. exists bop. split; auto. now apply inverse_backward_is_scatter. Qed.
Theorem movedim_vjp sh s d op : fwd_movedim sh s d = Some op ->
  exists bop, bwd_movedim (g_out op) s d = Some bop /\ vjp_identity op (fun A SA g => apply_op bop g).
Proof. intros F. destruct (movedim_inverse _ _ _ _ F) as (Ei & bop & Eb & I). exists bop. split; auto. now apply inverse_vjp. Qed.
Theorem movedim_bijective sh s d op : fwd_movedim sh s d = Some op -> bijective op.
Proof. intros F. destruct (movedim_inverse _ _ _ _ F) as (Ei & bop & Eb & I). now apply (inverse_ops_bijective op bop). Qed.

(* ------------------------------------------------------------------ transpose *)
Theorem bwd_transpose_is_scatter sh a b op : fwd_transpose sh a b = Some op ->
  g_in op = sh /\ exists bop, bwd_transpose (g_out op) a b = Some bop /\ backward_is_scatter op bop.
Proof. intros F. destruct (transpose_inverse _ _ _ _ F) as (Ei & bop & Eb & I). split; auto. exists bop. split; auto. now apply inverse_backward_is_scatter. Qed.
Theorem transpose_vjp sh a b op : fwd_transpose sh a b = Some op ->
  exists bop, bwd_transpose (g_out op) a b = Some bop /\ vjp_identity op (fun A SA g => apply_op bop g).
Proof. intros F. destruct (transpose_inverse _ _ _ _ F) as (Ei & bop & Eb & I). exists bop. split; auto. now apply inverse_vjp. Qed.
Theorem transpose_bijective sh a b op : fwd_transpose sh a b = Some op -> bijective op.
Proof. intros F. destruct (transpose_inverse _ _ _ _ F) as (Ei & bop & Eb & I). now apply (inverse_ops_bijective op bop). Qed.

(* ------------------------------------------------------------------ clone *)
Theorem bwd_clone_is_scatter sh op : fwd_clone sh = Some op ->
  g_in op = sh /\ exists bop, bwd_clone (g_out op) = Some bop /\ backward_is_scatter op bop.
Proof. intros F. destruct (clone_inverse _ _ F) as (Ei & bop & Eb & I). split; auto. exists bop. split; auto. now apply inverse_backward_is_scatter. Qed.
Theorem clone_vjp sh op : fwd_clone sh = Some op ->
  exists bop, bwd_clone (g_out op) = Some bop /\ vjp_identity op (fun A SA g => apply_op bop g).
Proof. intros F. destruct (clone_inverse _ _ F) as (Ei & bop & Eb & I). exists bop. split; auto. now apply inverse_vjp. Qed.
Theorem clone_bijective sh op : fwd_clone sh = Some op -> bijective op.
Proof. intros F. destruct (clone_inverse _ _ F) as (Ei & bop & Eb & I). now apply (inverse_ops_bijective op bop). Qed.

(* ------------------------------------------------------------------ unfold_dim *)
Theorem bwd_unfold_dim_is_scatter sh dimension size step op d sz st :
  fwd_unfold_dim sh dimension size step = Some op ->
  unfold_args sh dimension size step = Some (d, sz, st) ->
  g_in op = sh /\
  forall (A : Type) (SA : Scalar A) (LA : ScalarLaws A) (g : idx -> A),
    exists b, bwd_unfold_dim (g_out op) sh d sz st g = Some b /\
              forall i, In i (idxs sh) -> b i = tscatter op g i.
Proof.
  intros F Ua. split.
  - destruct (fwd_unfold_closed _ _ _ _ _ F) as (? & ? & ? & ? & ? & ? & _ & _ & _ & _ & _ & _ & Ei & _). exact Ei.
  - intros A SA LA g. now apply (unfold_bwd_is_scatter sh dimension size step).
Qed.

Theorem unfold_dim_vjp sh dimension size step op d sz st :
  fwd_unfold_dim sh dimension size step = Some op ->
  unfold_args sh dimension size step = Some (d, sz, st) ->
  forall (A : Type) (SA : Scalar A) (LA : ScalarLaws A) (x g : idx -> A),
    exists b, bwd_unfold_dim (g_out op) sh d sz st g = Some b /\
              tdot (g_out op) g (tgather (g_phi op) x) = tdot sh b x.
Proof.
  intros F Ua A SA LA x g. destruct (unfold_bwd_is_scatter sh dimension size step op d sz st g F Ua) as (b & Eb & Hb).
  exists b. split; auto.
  assert (Ei : g_in op = sh).
  { destruct (fwd_unfold_closed _ _ _ _ _ F) as (? & ? & ? & ? & ? & ? & _ & _ & _ & _ & _ & _ & Ei & _). exact Ei. }
  rewrite <- Ei. apply (vjp_of_backward op (fun _ => b)). now apply (unfold_maps_into sh dimension size step).
  intros i Hi. apply Hb. now rewrite <- Ei.
Qed.

(* ------------------------------------------------------------------ __getitem__ *)
Theorem bwd_index_is_scatter sh items op :
  fwd_index sh items = Some op ->
  g_in op = sh /\
  forall (A : Type) (SA : Scalar A) (LA : ScalarLaws A) (g : idx -> A),
    exists b, bwd_index sh items g = Some b /\ forall i, b i = tscatter op g i.
Proof.
  intros F. split. now apply (index_maps_into sh items). intros A SA LA g. now apply index_bwd_is_scatter.
Qed.

Theorem index_vjp sh items op :
  fwd_index sh items = Some op ->
  forall (A : Type) (SA : Scalar A) (LA : ScalarLaws A) (x g : idx -> A),
    exists b, bwd_index sh items g = Some b /\
              tdot (g_out op) g (tgather (g_phi op) x) = tdot sh b x.
Proof.
  intros F A SA LA x g. destruct (index_bwd_is_scatter sh items op g F) as (b & Eb & Hb).
  destruct (index_maps_into sh items op F) as [Ei M].
  exists b. split; auto. rewrite <- Ei. apply (vjp_of_backward op (fun _ => b)); auto.
Qed.
