(* Real-number counterparts of the NumPy scalar operations used by the elementwise kernels of
   synapgrad/cpu_ops.py.  The generated file Gen/GenKernels.v is stated over these.

   - comparisons used as 0/1 masks:   ind_gt a b  <->  (a > b)   etc.
   - np.where(c, a, b) on a 0/1 mask: where_ c a b
   - a ** n with a run-time exponent: gpow a n   (total; agrees with NumPy on the real domain:
       integer-valued n  -> powerRZ a n   (every a; a <> 0 needed by NumPy when n < 0)
       otherwise         -> Rpower a n    (NumPy: a > 0; a < 0 gives NaN, outside the model)
   - np.maximum / np.minimum / np.abs are Rmax / Rmin / Rabs of the standard library.
   Definitions and elementary facts only; no property-level proofs here. *)
From Coq Require Import Reals Lra Lia ZArith.
Open Scope R_scope.

(* ---- 0/1 masks ---------------------------------------------------------------------- *)
Definition ind_gt (a b:R) : R := if Rlt_dec b a then 1 else 0.      (* a >  b *)
Definition ind_ge (a b:R) : R := if Rle_dec b a then 1 else 0.      (* a >= b *)
Definition ind_lt (a b:R) : R := if Rlt_dec a b then 1 else 0.      (* a <  b *)
Definition ind_le (a b:R) : R := if Rle_dec a b then 1 else 0.      (* a <= b *)
Definition ind_eq (a b:R) : R := if Req_EM_T a b then 1 else 0.     (* a == b *)
Definition ind_ne (a b:R) : R := if Req_EM_T a b then 0 else 1.     (* a != b *)
(* np.where(c, a, b): c is a mask (non-zero = true) *)
Definition where_ (c a b:R) : R := if Req_EM_T c 0 then b else a.

Lemma ind_gt_true a b : b < a -> ind_gt a b = 1.
Proof. intros H. unfold ind_gt. destruct (Rlt_dec b a); [reflexivity|contradiction]. Qed.
Lemma ind_gt_false a b : a <= b -> ind_gt a b = 0.
Proof. intros H. unfold ind_gt. destruct (Rlt_dec b a); [lra|reflexivity]. Qed.
Lemma ind_ge_true a b : b <= a -> ind_ge a b = 1.
Proof. intros H. unfold ind_ge. destruct (Rle_dec b a); [reflexivity|contradiction]. Qed.
Lemma ind_ge_false a b : a < b -> ind_ge a b = 0.
Proof. intros H. unfold ind_ge. destruct (Rle_dec b a); [lra|reflexivity]. Qed.
Lemma ind_lt_true a b : a < b -> ind_lt a b = 1.
Proof. intros H. unfold ind_lt. destruct (Rlt_dec a b); [reflexivity|contradiction]. Qed.
Lemma ind_lt_false a b : b <= a -> ind_lt a b = 0.
Proof. intros H. unfold ind_lt. destruct (Rlt_dec a b); [lra|reflexivity]. Qed.
Lemma ind_le_true a b : a <= b -> ind_le a b = 1.
Proof. intros H. unfold ind_le. destruct (Rle_dec a b); [reflexivity|contradiction]. Qed.
Lemma ind_le_false a b : b < a -> ind_le a b = 0.
Proof. intros H. unfold ind_le. destruct (Rle_dec a b); [lra|reflexivity]. Qed.
Lemma ind_eq_true a b : a = b -> ind_eq a b = 1.
Proof. intros H. unfold ind_eq. destruct (Req_EM_T a b); [reflexivity|contradiction]. Qed.
Lemma ind_eq_false a b : a <> b -> ind_eq a b = 0.
Proof. intros H. unfold ind_eq. destruct (Req_EM_T a b); [contradiction|reflexivity]. Qed.
Lemma where_true c a b : c <> 0 -> where_ c a b = a.
Proof. intros H. unfold where_. destruct (Req_EM_T c 0); [contradiction|reflexivity]. Qed.
Lemma where_false a b : where_ 0 a b = b.
Proof. unfold where_. destruct (Req_EM_T 0 0); [reflexivity|congruence]. Qed.
Lemma where_1 a b : where_ 1 a b = a.
Proof. apply where_true; lra. Qed.

(* ---- integer-valued reals -------------------------------------------------------------- *)
Lemma up_IZR z : up (IZR z) = (z + 1)%Z.
Proof.
  symmetry. apply up_tech with (r := IZR z). lra. apply IZR_lt. lia.
Qed.

(* {z | n = IZR z} + {n is not an integer}, constructively from [up] and decidable equality on R *)
Definition int_dec (n:R) : {z:Z | n = IZR z} + {forall z:Z, n <> IZR z}.
Proof.
  destruct (Req_EM_T n (IZR (up n - 1))) as [E|NE].
  - left. exists (up n - 1)%Z. exact E.
  - right. intros z Hz. apply NE. rewrite Hz at 2. rewrite up_IZR.
    replace (z + 1 - 1)%Z with z by lia. exact Hz.
Defined.

Definition is_int (n:R) : Prop := exists z:Z, n = IZR z.

(* ---- a ** n ---------------------------------------------------------------------------------- *)
Definition gpow (a n:R) : R :=
  match int_dec n with
  | inleft (exist _ z _) => powerRZ a z
  | inright _ => Rpower a n
  end.

Lemma gpow_int a z : gpow a (IZR z) = powerRZ a z.
Proof.
  unfold gpow. destruct (int_dec (IZR z)) as [[z' E]|NE].
  - apply eq_IZR in E. now subst.
  - exfalso. now apply (NE z).
Qed.

Lemma gpow_nonint a n : (forall z, n <> IZR z) -> gpow a n = Rpower a n.
Proof.
  intros H. unfold gpow. destruct (int_dec n) as [[z E]|NE]; [|reflexivity].
  exfalso. now apply (H z).
Qed.

Lemma gpow_nat a (k:nat) : gpow a (INR k) = a ^ k.
Proof. rewrite INR_IZR_INZ, gpow_int. apply eq_sym, pow_powerRZ. Qed.

Lemma gpow_m1 a : gpow a (-1) = / a.
Proof. change (-1) with (IZR (-1)). rewrite gpow_int. simpl. now rewrite Rmult_1_r. Qed.

(* for a positive base the two branches agree, so n ** x is exp (x ln n) for every real x *)
Lemma gpow_pos a n : 0 < a -> gpow a n = Rpower a n.
Proof.
  intros Ha. unfold gpow. destruct (int_dec n) as [[z E]|NE]; [|reflexivity].
  subst. now apply powerRZ_Rpower.
Qed.

(* ---- Rmax / Rmin / Rabs on a known side -------------------------------------------------- *)
Lemma Rmax_0_pos a : 0 <= a -> Rmax 0 a = a.
Proof. intros. now apply Rmax_right. Qed.
Lemma Rmax_0_neg a : a <= 0 -> Rmax 0 a = 0.
Proof. intros. now apply Rmax_left. Qed.
Lemma Rmin_0_pos a : 0 <= a -> Rmin 0 a = 0.
Proof. intros. now apply Rmin_left. Qed.
Lemma Rmin_0_neg a : a <= 0 -> Rmin 0 a = a.
Proof. intros. now apply Rmin_right. Qed.

(* ---- saturating ("overflow-aware") extended reals -------------------------------------------
   A coarse model of IEEE arithmetic in which the only rounding event is the overflow of exp:
   exp x = +inf as soon as x > T (T = 88 is below ln FLT_MAX for float32, see KernelProofsC09.v),
   every other operation is exact on finite operands and follows the IEEE rules on infinities
   (inf - finite = inf, c * inf = +-inf for c <> 0, 0 * inf = NaN, c / inf = 0, min/max with inf).
   Overflow of +,-,* on finite operands and all rounding are NOT modelled. *)
Inductive xr : Type := Fin (r:R) | PInf | NInf | XNaN.

Definition xopp (a:xr) : xr :=
  match a with Fin x => Fin (- x) | PInf => NInf | NInf => PInf | XNaN => XNaN end.
Definition xadd (a b:xr) : xr :=
  match a, b with
  | Fin x, Fin y => Fin (x + y)
  | XNaN, _ | _, XNaN => XNaN
  | PInf, NInf | NInf, PInf => XNaN
  | PInf, _ | _, PInf => PInf
  | NInf, _ | _, NInf => NInf
  end.
Definition xsub (a b:xr) : xr := xadd a (xopp b).
Definition xsign_mul (pos:bool) (r:R) : xr :=       (* (+-inf) * finite r *)
  if Req_EM_T r 0 then XNaN else
  if Rlt_dec 0 r then (if pos then PInf else NInf) else (if pos then NInf else PInf).
Definition xmul (a b:xr) : xr :=
  match a, b with
  | Fin x, Fin y => Fin (x * y)
  | XNaN, _ | _, XNaN => XNaN
  | PInf, Fin y => xsign_mul true y | Fin y, PInf => xsign_mul true y
  | NInf, Fin y => xsign_mul false y | Fin y, NInf => xsign_mul false y
  | PInf, PInf | NInf, NInf => PInf
  | PInf, NInf | NInf, PInf => NInf
  end.
Definition xdiv (a b:xr) : xr :=
  match a, b with
  | Fin x, Fin y => Fin (x / y)
  | XNaN, _ | _, XNaN => XNaN
  | Fin _, PInf | Fin _, NInf => Fin 0
  | PInf, Fin y => xsign_mul true (/ y) | NInf, Fin y => xsign_mul false (/ y)
  | _, _ => XNaN
  end.
Definition xmax (a b:xr) : xr :=
  match a, b with
  | Fin x, Fin y => Fin (Rmax x y)
  | XNaN, _ | _, XNaN => XNaN
  | PInf, _ | _, PInf => PInf
  | NInf, c | c, NInf => c
  end.
Definition xmin (a b:xr) : xr :=
  match a, b with
  | Fin x, Fin y => Fin (Rmin x y)
  | XNaN, _ | _, XNaN => XNaN
  | NInf, _ | _, NInf => NInf
  | PInf, c | c, PInf => c
  end.
Definition xabs (a:xr) : xr :=
  match a with Fin x => Fin (Rabs x) | PInf | NInf => PInf | XNaN => XNaN end.
(* exp with overflow threshold T *)
Definition xexp (T:R) (a:xr) : xr :=
  match a with
  | Fin x => if Rle_dec x T then Fin (exp x) else PInf
  | PInf => PInf | NInf => Fin 0 | XNaN => XNaN
  end.
Definition xfin1 (f:R->R) (a:xr) : xr :=            (* functions applied to finite values only *)
  match a with Fin x => Fin (f x) | _ => XNaN end.
Definition xtanh (a:xr) : xr :=
  match a with Fin x => Fin (tanh x) | PInf => Fin 1 | NInf => Fin (-1) | XNaN => XNaN end.
Definition xln (a:xr) : xr :=
  match a with Fin x => Fin (ln x) | PInf => PInf | _ => XNaN end.
Definition xsqrt (a:xr) : xr :=
  match a with Fin x => Fin (sqrt x) | PInf => PInf | _ => XNaN end.
Definition xcmp (f:R->R->R) (a b:xr) : xr :=         (* comparisons: only finite operands modelled *)
  match a, b with Fin x, Fin y => Fin (f x y) | _, _ => XNaN end.
Definition xwhere (c a b:xr) : xr :=
  match c with Fin x => if Req_EM_T x 0 then b else a | _ => XNaN end.
Definition xpow (a b:xr) : xr :=
  match a, b with Fin x, Fin y => Fin (gpow x y) | _, _ => XNaN end.
