(* Small library around Coquelicot's is_derive for the kernel proofs: derivatives on one side of a
   kink (is_derive_ext_loc), integer and real powers (gpow), composition of backward maps, and the
   lifting of an elementwise map to finite vectors (diagonal Jacobian). *)
From Coq Require Import Reals Lra Lia ZArith List.
From Coquelicot Require Import Coquelicot.
From SG Require Import Analysis.RealOps.
Import ListNotations.
Open Scope R_scope.

(* ---- masks: decide every 0/1 indicator whose comparison lra can settle, then the np.where on it --------- *)
Ltac ind_simpl :=
  repeat match goal with
  | |- context [ind_gt ?a ?b] => first [rewrite (ind_gt_true a b) by lra | rewrite (ind_gt_false a b) by lra]
  | |- context [ind_ge ?a ?b] => first [rewrite (ind_ge_true a b) by lra | rewrite (ind_ge_false a b) by lra]
  | |- context [ind_lt ?a ?b] => first [rewrite (ind_lt_true a b) by lra | rewrite (ind_lt_false a b) by lra]
  | |- context [ind_le ?a ?b] => first [rewrite (ind_le_true a b) by lra | rewrite (ind_le_false a b) by lra]
  | |- context [where_ 1 ?a ?b] => rewrite (where_1 a b)
  | |- context [where_ 0 ?a ?b] => rewrite (where_false a b)
  end.

(* ---- locality ------------------------------------------------------------------------------------ *)
Lemma locally_pos (a:R) (P:R->Prop) : 0 < a -> (forall y, 0 < y -> P y) -> locally a P.
Proof.
  intros Ha HP. exists (mkposreal a Ha). intros y Hy. apply HP.
  unfold ball in Hy; simpl in Hy. unfold AbsRing_ball, abs, minus, plus, opp in Hy; simpl in Hy.
  apply Rabs_def2 in Hy. lra.
Qed.

Lemma locally_neg (a:R) (P:R->Prop) : a < 0 -> (forall y, y < 0 -> P y) -> locally a P.
Proof.
  intros Ha HP. assert (Hp: 0 < - a) by lra. exists (mkposreal (-a) Hp). intros y Hy. apply HP.
  unfold ball in Hy; simpl in Hy. unfold AbsRing_ball, abs, minus, plus, opp in Hy; simpl in Hy.
  apply Rabs_def2 in Hy. lra.
Qed.

Lemma locally_ne0 (a:R) (P:R->Prop) : a <> 0 -> (forall y, y <> 0 -> P y) -> locally a P.
Proof.
  intros Ha HP. destruct (Rlt_dec 0 a).
  - apply locally_pos; auto. intros y Hy. apply HP. lra.
  - apply locally_neg. lra. intros y Hy. apply HP. lra.
Qed.

Lemma is_derive_on_pos (f g:R->R) a d :
  0 < a -> (forall y, 0 < y -> g y = f y) -> is_derive g a d -> is_derive f a d.
Proof. intros Ha E D. apply (is_derive_ext_loc g); auto. now apply locally_pos. Qed.

Lemma is_derive_on_neg (f g:R->R) a d :
  a < 0 -> (forall y, y < 0 -> g y = f y) -> is_derive g a d -> is_derive f a d.
Proof. intros Ha E D. apply (is_derive_ext_loc g); auto. now apply locally_neg. Qed.

(* ---- powers ---------------------------------------------------------------------------------------- *)
Lemma is_derive_pow_nat (n:nat) a : is_derive (fun x => x ^ n) a (INR n * a ^ pred n).
Proof. auto_derive. auto. ring. Qed.

Lemma is_derive_powerRZ (z:Z) a :
  ((1 <= z)%Z \/ a <> 0) -> is_derive (fun x => powerRZ x z) a (IZR z * powerRZ a (z - 1)).
Proof.
  intros H. destruct z as [|p|p].
  - simpl. auto_derive. auto. ring.
  - simpl powerRZ at 1.
    replace (IZR (Z.pos p) * powerRZ a (Z.pos p - 1)) with (INR (Pos.to_nat p) * a ^ pred (Pos.to_nat p)).
    apply is_derive_pow_nat.
    rewrite INR_IZR_INZ, positive_nat_Z. f_equal.
    rewrite pow_powerRZ. f_equal. lia.
  - assert (Ha: a <> 0) by (destruct H as [H|H]; [lia|exact H]).
    simpl powerRZ at 1.
    set (n := Pos.to_nat p).
    assert (Hn: (0 < n)%nat) by apply Pos2Nat.is_pos.
    replace (IZR (Z.neg p) * powerRZ a (Z.neg p - 1)) with (- (INR n * a ^ pred n) / (a ^ n) ^ 2).
    + auto_derive. now apply pow_nonzero. field. now apply pow_nonzero.
    + replace (Z.neg p - 1)%Z with (- Z.of_nat (S n))%Z by (unfold n; lia).
      rewrite powerRZ_neg', <- pow_powerRZ.
      replace (IZR (Z.neg p)) with (- INR n) by (unfold n; rewrite INR_IZR_INZ, positive_nat_Z; now rewrite <- opp_IZR).
      destruct n as [|m]; [lia|]. simpl pred. simpl pow. field. split; [now apply pow_nonzero|exact Ha].
Qed.

Lemma is_derive_Rpower_base (n a:R) :
  0 < a -> is_derive (fun x => Rpower x n) a (n * Rpower a (n - 1)).
Proof.
  intros Ha. unfold Rpower. auto_derive. auto.
  replace ((n - 1) * ln a) with (n * ln a + - ln a) by ring.
  rewrite exp_plus, exp_Ropp, exp_ln by auto. field. lra.
Qed.

Lemma is_derive_Rpower_exponent (n a:R) :
  0 < n -> is_derive (fun x => Rpower n x) a (Rpower n a * ln n).
Proof. intros Hn. unfold Rpower. auto_derive. auto. ring. Qed.

(* a ** n, n fixed, as a function of a *)
Lemma is_derive_gpow_base_int (z:Z) a :
  ((1 <= z)%Z \/ a <> 0) -> is_derive (fun x => gpow x (IZR z)) a (IZR z * gpow a (IZR z - 1)).
Proof.
  intros H. rewrite <- minus_IZR, gpow_int.
  apply (is_derive_ext (fun x => powerRZ x z)). intros t. now rewrite gpow_int.
  now apply is_derive_powerRZ.
Qed.

Lemma nonint_minus_1 n : (forall z, n <> IZR z) -> forall z, n - 1 <> IZR z.
Proof. intros H z E. apply (H (z + 1)%Z). rewrite plus_IZR. lra. Qed.

Lemma is_derive_gpow_base_real n a :
  (forall z, n <> IZR z) -> 0 < a -> is_derive (fun x => gpow x n) a (n * gpow a (n - 1)).
Proof.
  intros Hn Ha. rewrite (gpow_nonint a (n - 1)) by now apply nonint_minus_1.
  apply (is_derive_ext (fun x => Rpower x n)). intros t. now rewrite gpow_nonint.
  now apply is_derive_Rpower_base.
Qed.

(* n ** a, n > 0 fixed, as a function of a *)
Lemma is_derive_gpow_exponent n a :
  0 < n -> is_derive (fun x => gpow n x) a (gpow n a * ln n).
Proof.
  intros Hn. rewrite gpow_pos by auto.
  apply (is_derive_ext (fun x => Rpower n x)). intros t. now rewrite gpow_pos.
  now apply is_derive_Rpower_exponent.
Qed.

(* ---- composition of backward maps (the chain rule in the form the engine applies it) -------------
   f has backward bf (i.e. f'(x) = bf 1 and bf is linear in the upstream gradient), h has backward bh at
   f x; then the backward of h o f is bf o bh. *)
Lemma vjp_comp (f h:R->R) (bf bh:R->R) x :
  (forall g, bf g = g * bf 1) ->
  is_derive f x (bf 1) -> is_derive h (f x) (bh 1) ->
  is_derive (fun t => h (f t)) x (bf (bh 1)).
Proof.
  intros L Df Dh. rewrite L.
  replace (bh 1 * bf 1) with (scal (bf 1) (bh 1)) by (unfold scal; simpl; unfold mult; simpl; ring).
  exact (is_derive_comp h f x (bh 1) (bf 1) Dh Df).
Qed.

(* ---- elementwise maps on finite vectors: diagonal Jacobian ---------------------------------------
   Vectors are lists of reals.  dot g y = sum_i g_i y_i.  If f is differentiable at every entry x_i
   with derivative d_i, then for every direction v and every upstream gradient g
       d/dt <g, map f (x + t v)> at t = 0   =   <[g_i * d_i]_i , v>,
   i.e. the VJP of the elementwise map is the entrywise product g_i * f'(x_i). *)
Fixpoint dot (g y:list R) : R :=
  match g, y with
  | a :: g', b :: y' => a * b + dot g' y'
  | _, _ => 0
  end.
Definition axpy (t:R) (v x:list R) : list R := map (fun p => fst p + t * snd p) (combine x v).
Definition zipmul (g d:list R) : list R := map (fun p => fst p * snd p) (combine g d).

Lemma elementwise_vjp (f:R->R) :
  forall (x d g v:list R),
    length d = length x -> length g = length x -> length v = length x ->
    Forall2 (fun xi di => is_derive f xi di) x d ->
    is_derive (fun t => dot g (map f (axpy t v x))) 0 (dot (zipmul g d) v).
Proof.
  induction x as [|x0 x IH]; intros d g v Ld Lg Lv HD.
  - destruct d; [|discriminate]. destruct g; [|discriminate]. destruct v; [|discriminate].
    simpl. apply (is_derive_ext (fun _ => 0)). reflexivity. apply @is_derive_const.
  - destruct d as [|d0 d]; [discriminate|]. destruct g as [|g0 g]; [discriminate|]. destruct v as [|v0 v]; [discriminate|].
    inversion HD as [|? ? ? ? H0 HT]; subst.
    simpl in Ld, Lg, Lv. injection Ld as Ld. injection Lg as Lg. injection Lv as Lv.
    specialize (IH d g v Ld Lg Lv HT).
    unfold axpy, zipmul in *. simpl.
    apply (is_derive_plus (fun t => g0 * f (x0 + t * v0)) _ 0 (g0 * d0 * v0)); [|exact IH].
    assert (E: x0 = x0 + 0 * v0) by ring.
    rewrite E in H0.
    replace (g0 * d0 * v0) with (g0 * (v0 * d0)) by ring.
    apply (is_derive_scal (fun t => f (x0 + t * v0)) 0 g0 (v0 * d0)).
    replace (v0 * d0) with (scal v0 d0) by (unfold scal; simpl; unfold mult; simpl; ring).
    apply (is_derive_comp f (fun t => x0 + t * v0)); [exact H0|].
    auto_derive. auto. ring.
Qed.
