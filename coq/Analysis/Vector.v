(* Finite real vectors as functions [nat -> R] with an explicit length: the target of the
   reduction-carrying kernel translator (lib/py2coq/gen_veckernels.py).  One "fibre" of an N-D
   array along the reduced axis (softmax family), one row (nll / cross-entropy), or all the
   entries of one channel (batch-norm) is such a vector.

   vsum n x  = x 0 + ... + x (n-1)        (a.sum(axis, keepdims=True) on the fibre)
   vmax n x  = max of x 0 .. x (n-1)      (a.max(axis, keepdims=True));   n >= 1
   vmean n x = vsum n x / n               (a.mean(axis))
   vvar n x  = vmean n ((x - vmean n x)^2)  (a.var(axis), NumPy's default ddof=0, biased)
   vpert x i t = x + t * e_i              (used to state partial derivatives)            *)
From Coq Require Import Reals Lra Lia Arith Bool.
From Coquelicot Require Import Coquelicot.
Open Scope R_scope.

Definition vec := nat -> R.

Fixpoint vsum (n : nat) (x : vec) : R :=
  match n with O => 0 | S k => vsum k x + x k end.

Fixpoint vmax (n : nat) (x : vec) : R :=
  match n with
  | O => 0
  | S k => match k with O => x O | S _ => Rmax (vmax k x) (x k) end
  end.

Definition vmean (n : nat) (x : vec) : R := vsum n x / INR n.
Definition vvar (n : nat) (x : vec) : R := vmean n (fun i => (x i - vmean n x) ^ 2).

Definition vpert (x : vec) (i : nat) (t : R) : vec :=
  fun j => if Nat.eqb j i then x j + t else x j.

(* Python's float ** float on a positive base *)
Definition rpow (a b : R) : R := Rpower a b.

(* ------------------------------------------------------------------ vsum *)
Lemma vsum_ext n x y : (forall i, (i < n)%nat -> x i = y i) -> vsum n x = vsum n y.
Proof.
  induction n as [|n IH]; intros H; simpl; [reflexivity|].
  rewrite IH, (H n); auto.
Qed.

Lemma vsum_sum_n n x : vsum (S n) x = sum_n x n.
Proof.
  induction n as [|n IH].
  - simpl. rewrite sum_O. lra.
  - rewrite sum_Sn. rewrite <- IH. simpl. reflexivity.
Qed.

Lemma vsum_plus n x y : vsum n (fun i => x i + y i) = vsum n x + vsum n y.
Proof. induction n as [|n IH]; simpl; [lra|rewrite IH; lra]. Qed.

Lemma vsum_minus n x y : vsum n (fun i => x i - y i) = vsum n x - vsum n y.
Proof. induction n as [|n IH]; simpl; [lra|rewrite IH; lra]. Qed.

Lemma vsum_opp n x : vsum n (fun i => - x i) = - vsum n x.
Proof. induction n as [|n IH]; simpl; [lra|rewrite IH; lra]. Qed.

Lemma vsum_scal_l n c x : vsum n (fun i => c * x i) = c * vsum n x.
Proof. induction n as [|n IH]; simpl; [lra|rewrite IH; lra]. Qed.

Lemma vsum_scal_r n c x : vsum n (fun i => x i * c) = vsum n x * c.
Proof. induction n as [|n IH]; simpl; [lra|rewrite IH; lra]. Qed.

Lemma vsum_div_r n c x : vsum n (fun i => x i / c) = vsum n x / c.
Proof. unfold Rdiv. apply vsum_scal_r. Qed.

Lemma vsum_const n c : vsum n (fun _ => c) = INR n * c.
Proof.
  induction n as [|n IH]; [simpl; lra|].
  rewrite S_INR. simpl vsum. rewrite IH. lra.
Qed.

Lemma vsum_zero n : vsum n (fun _ => 0) = 0.
Proof. rewrite vsum_const. lra. Qed.

Lemma vsum_onehot n i a : (i < n)%nat ->
  vsum n (fun j => if Nat.eqb j i then a j else 0) = a i.
Proof.
  induction n as [|n IH]; intros Hi; [lia|].
  simpl. destruct (Nat.eqb n i) eqn:E.
  - apply Nat.eqb_eq in E. subst i.
    rewrite (vsum_ext n _ (fun _ => 0)).
    + rewrite vsum_zero. lra.
    + intros j Hj. destruct (Nat.eqb j n) eqn:E'; [apply Nat.eqb_eq in E'; lia|reflexivity].
  - apply Nat.eqb_neq in E. rewrite IH by lia. lra.
Qed.

Lemma vsum_le n x y : (forall i, (i < n)%nat -> x i <= y i) -> vsum n x <= vsum n y.
Proof.
  induction n as [|n IH]; intros H; simpl; [lra|].
  assert (vsum n x <= vsum n y) by (apply IH; auto). assert (x n <= y n) by auto. lra.
Qed.

Lemma vsum_nonneg n x : (forall i, (i < n)%nat -> 0 <= x i) -> 0 <= vsum n x.
Proof. intros H. rewrite <- (vsum_zero n). apply vsum_le. exact H. Qed.

Lemma vsum_pos n x : (1 <= n)%nat -> (forall i, (i < n)%nat -> 0 < x i) -> 0 < vsum n x.
Proof.
  intros Hn H. destruct n as [|n]; [lia|]. simpl.
  assert (0 <= vsum n x) by (apply vsum_nonneg; intros; left; apply H; lia).
  assert (0 < x n) by (apply H; lia). lra.
Qed.

Lemma vsum_ge_term n x i : (i < n)%nat -> (forall j, (j < n)%nat -> 0 <= x j) -> x i <= vsum n x.
Proof.
  intros Hi H. rewrite <- (vsum_onehot n i x Hi). apply vsum_le.
  intros j Hj. destruct (Nat.eqb j i); [lra|auto].
Qed.

Lemma vsum_abs_le n x B : (forall i, (i < n)%nat -> Rabs (x i) <= B) -> Rabs (vsum n x) <= INR n * B.
Proof.
  induction n as [|n IH]; intros H.
  - simpl. rewrite Rabs_R0. lra.
  - rewrite S_INR. simpl vsum.
    eapply Rle_trans; [apply Rabs_triang|].
    assert (Rabs (vsum n x) <= INR n * B) by (apply IH; auto).
    assert (Rabs (x n) <= B) by auto. lra.
Qed.

(* sum over the perturbed vector *)
Lemma vsum_vpert n x i t : (i < n)%nat -> vsum n (vpert x i t) = vsum n x + t.
Proof.
  intros Hi.
  rewrite (vsum_ext n _ (fun j => x j + (if Nat.eqb j i then (fun _ => t) j else 0))).
  - rewrite vsum_plus, vsum_onehot by exact Hi. reflexivity.
  - intros j _. unfold vpert. destruct (Nat.eqb j i); lra.
Qed.

Lemma vpert_0 x i j : vpert x i 0 j = x j.
Proof. unfold vpert. destruct (Nat.eqb j i); lra. Qed.

(* ------------------------------------------------------------------ vmax *)
Lemma vmax_S n x : vmax (S (S n)) x = Rmax (vmax (S n) x) (x (S n)).
Proof. reflexivity. Qed.

Lemma vmax_ge n x i : (i < n)%nat -> x i <= vmax n x.
Proof.
  induction n as [|n IH]; intros Hi; [lia|].
  destruct n as [|n].
  - assert (i = O) by lia. subst. simpl. lra.
  - rewrite vmax_S. destruct (Nat.eq_dec i (S n)) as [->|Hne].
    + apply Rmax_r.
    + eapply Rle_trans; [apply IH; lia|apply Rmax_l].
Qed.

Lemma vmax_attained n x : (1 <= n)%nat -> exists i, (i < n)%nat /\ vmax n x = x i.
Proof.
  induction n as [|n IH]; intros Hn; [lia|].
  destruct n as [|n].
  - exists O. split; [lia|reflexivity].
  - rewrite vmax_S. destruct IH as [i [Hi Hm]]; [lia|].
    destruct (Rle_dec (vmax (S n) x) (x (S n))) as [Hle|Hgt].
    + exists (S n). split; [lia|]. apply Rmax_right. exact Hle.
    + exists i. split; [lia|]. rewrite Rmax_left by lra. exact Hm.
Qed.

Lemma vmax_abs_le n x B : (1 <= n)%nat -> (forall i, (i < n)%nat -> Rabs (x i) <= B) -> Rabs (vmax n x) <= B.
Proof.
  intros Hn H. destruct (vmax_attained n x Hn) as [i [Hi ->]]. auto.
Qed.

(* ------------------------------------------------------------------ derivatives *)
Lemma is_derive_vsum n (f : nat -> R -> R) (d : vec) t :
  (forall i, (i < n)%nat -> is_derive (f i) t (d i)) ->
  is_derive (fun u => vsum n (fun i => f i u)) t (vsum n d).
Proof.
  induction n as [|n IH]; intros H; simpl.
  - apply (is_derive_const (K:=R_AbsRing) (V:=R_NormedModule) 0 t).
  - apply (is_derive_plus (K:=R_AbsRing) (V:=R_NormedModule)); [apply IH; auto|apply H; lia].
Qed.

Lemma is_derive_vpert x i j :
  is_derive (fun t => vpert x i t j) 0 (if Nat.eqb j i then 1 else 0).
Proof.
  unfold vpert. destruct (Nat.eqb j i); auto_derive; auto; ring.
Qed.

(* mean / variance basics *)
Lemma vmean_vpert n x i t : (i < n)%nat -> vmean n (vpert x i t) = vmean n x + t / INR n.
Proof.
  intros Hi. unfold vmean. rewrite vsum_vpert by exact Hi.
  assert (INR n <> 0) by (apply not_0_INR; lia). field. assumption.
Qed.

Lemma vsum_centered n x : (1 <= n)%nat -> vsum n (fun i => x i - vmean n x) = 0.
Proof.
  intros Hn. rewrite vsum_minus, vsum_const. unfold vmean.
  assert (INR n <> 0) by (apply not_0_INR; lia). field. assumption.
Qed.

Lemma vvar_nonneg n x : 0 <= vvar n x.
Proof.
  unfold vvar, vmean at 1.
  destruct n as [|n].
  - simpl. unfold Rdiv. rewrite Rmult_0_l. lra.
  - apply Rmult_le_pos.
    + apply vsum_nonneg. intros i _. apply pow2_ge_0.
    + left. apply Rinv_0_lt_compat. apply lt_0_INR. lia.
Qed.
