(* Deep embedding of the scalar kernels (Gen/GenExprs.v is stated over this), its real semantics
   [eval], the list of values that reach np.exp during an evaluation [exp_args], an interval-style
   static bound on those values [exp_args_bounded], and the saturating semantics [xeval].
   Definitions only; soundness proofs are in Proofs/ExprProofs.v. *)
From Coq Require Import Reals List ZArith QArith Qreals.
Import ListNotations.
From SG Require Import Analysis.RealOps.
Open Scope R_scope.

Inductive cmpop := CGt | CGe | CLt | CLe | CEq | CNe.
Inductive fn1 := FExp | FLn | FSqrt | FTanh | FAbs.
Inductive bop := BAdd | BSub | BMul | BDiv | BMax | BMin | BPow.

Inductive expr : Type :=
| EInt (z:Z)                      (* integer literal *)
| ERat (n:Z) (d:positive)         (* decimal literal n/d, module constants are inlined as such *)
| EVar (i:nat)                    (* de Bruijn index into the environment (head = innermost let) *)
| ENeg (a:expr)
| EBin (o:bop) (a b:expr)
| EPowN (a:expr) (k:nat)          (* a ** k, literal k >= 0 *)
| EPowZ (a:expr) (z:Z)            (* a ** z, literal z < 0 *)
| ECmp (c:cmpop) (a b:expr)       (* 0/1 mask *)
| EFn (f:fn1) (a:expr)
| EWhere (c a b:expr)
| ELet (e1 e2:expr).

Definition bop_sem (o:bop) : R -> R -> R :=
  match o with BAdd => Rplus | BSub => Rminus | BMul => Rmult | BDiv => Rdiv
             | BMax => Rmax | BMin => Rmin | BPow => gpow end.
Definition cmp_sem (c:cmpop) : R -> R -> R :=
  match c with CGt => ind_gt | CGe => ind_ge | CLt => ind_lt | CLe => ind_le | CEq => ind_eq | CNe => ind_ne end.
Definition fn_sem (f:fn1) : R -> R :=
  match f with FExp => exp | FLn => ln | FSqrt => sqrt | FTanh => tanh | FAbs => Rabs end.

Fixpoint eval (env:list R) (e:expr) : R :=
  match e with
  | EInt z => IZR z
  | ERat n d => IZR n / IZR (Zpos d)
  | EVar i => nth i env 0
  | ENeg a => - eval env a
  | EBin o a b => bop_sem o (eval env a) (eval env b)
  | EPowN a k => eval env a ^ k
  | EPowZ a z => powerRZ (eval env a) z
  | ECmp c a b => cmp_sem c (eval env a) (eval env b)
  | EFn f a => fn_sem f (eval env a)
  | EWhere c a b => where_ (eval env c) (eval env a) (eval env b)
  | ELet e1 e2 => eval (eval env e1 :: env) e2
  end.

(* every variable index is below the environment length (so the default of [nth] is never used) *)
Fixpoint wf (n:nat) (e:expr) : bool :=
  match e with
  | EInt _ | ERat _ _ => true
  | EVar i => Nat.ltb i n
  | ENeg a | EPowN a _ | EPowZ a _ | EFn _ a => wf n a
  | EBin _ a b | ECmp _ a b => wf n a && wf n b
  | EWhere c a b => wf n c && wf n a && wf n b
  | ELet e1 e2 => wf n e1 && wf (S n) e2
  end.

(* the values handed to np.exp while evaluating e (np.where evaluates both branches for every
   element, so both branches count whatever the condition is) *)
Fixpoint exp_args (env:list R) (e:expr) : list R :=
  match e with
  | EInt _ | ERat _ _ | EVar _ => []
  | EFn FExp a => eval env a :: exp_args env a
  | EFn _ a | ENeg a | EPowN a _ | EPowZ a _ => exp_args env a
  | EBin _ a b | ECmp _ a b => exp_args env a ++ exp_args env b
  | EWhere c a b => exp_args env c ++ exp_args env a ++ exp_args env b
  | ELet e1 e2 => exp_args env e1 ++ exp_args (eval env e1 :: env) e2
  end.

(* ---- intervals with rational or infinite end points ------------------------------------------ *)
Definition itv := (option Q * option Q)%type.        (* (lo, hi); None = unbounded on that side *)
Definition itop : itv := (None, None).
Definition ipt (q:Q) : itv := (Some q, Some q).
Definition le_hi (x:R) (h:option Q) : Prop := match h with Some q => x <= Q2R q | None => True end.
Definition ge_lo (x:R) (l:option Q) : Prop := match l with Some q => Q2R q <= x | None => True end.
Definition in_itv (x:R) (i:itv) : Prop := ge_lo x (fst i) /\ le_hi x (snd i).

Definition qmax (a b:Q) : Q := if Qle_bool a b then b else a.
Definition qmin (a b:Q) : Q := if Qle_bool a b then a else b.
Definition o2 (f:Q->Q->Q) (a b:option Q) : option Q :=
  match a, b with Some x, Some y => Some (f x y) | _, _ => None end.
Definition oeither (f:Q->Q->Q) (a b:option Q) : option Q :=   (* one side suffices *)
  match a, b with Some x, Some y => Some (f x y) | Some x, None => Some x | None, Some y => Some y | None, None => None end.
Definition oopp (a:option Q) : option Q := match a with Some x => Some (Qopp x) | None => None end.

Definition ineg (i:itv) : itv := (oopp (snd i), oopp (fst i)).
Definition iadd (i j:itv) : itv := (o2 Qplus (fst i) (fst j), o2 Qplus (snd i) (snd j)).
Definition imax (i j:itv) : itv := (oeither qmax (fst i) (fst j), o2 qmax (snd i) (snd j)).
Definition imin (i j:itv) : itv := (o2 qmin (fst i) (fst j), oeither qmin (snd i) (snd j)).
Definition ihull (i j:itv) : itv := (o2 qmin (fst i) (fst j), o2 qmax (snd i) (snd j)).
Definition iabs (i:itv) : itv := (Some 0%Q, o2 qmax (oopp (fst i)) (snd i)).

Fixpoint ival (benv:list itv) (e:expr) : itv :=
  match e with
  | EInt z => ipt (inject_Z z)
  | ERat n d => ipt (n # d)
  | EVar i => nth i benv itop
  | ENeg a => ineg (ival benv a)
  | EBin BAdd a b => iadd (ival benv a) (ival benv b)
  | EBin BSub a b => iadd (ival benv a) (ineg (ival benv b))
  | EBin BMax a b => imax (ival benv a) (ival benv b)
  | EBin BMin a b => imin (ival benv a) (ival benv b)
  | EBin _ _ _ => itop
  | EPowN _ _ | EPowZ _ _ => itop
  | ECmp _ _ _ => (Some 0%Q, Some 1%Q)
  | EFn FAbs a => iabs (ival benv a)
  | EFn FTanh _ => (Some (-1)%Q, Some 1%Q)
  | EFn FExp _ => (Some 0%Q, None)
  | EFn _ _ => itop
  | EWhere _ a b => ihull (ival benv a) (ival benv b)
  | ELet e1 e2 => ival (ival benv e1 :: benv) e2
  end.

(* upper bounds of the exp arguments, position by position as in [exp_args] *)
Fixpoint exp_arg_ubs (benv:list itv) (e:expr) : list (option Q) :=
  match e with
  | EInt _ | ERat _ _ | EVar _ => []
  | EFn FExp a => snd (ival benv a) :: exp_arg_ubs benv a
  | EFn _ a | ENeg a | EPowN a _ | EPowZ a _ => exp_arg_ubs benv a
  | EBin _ a b | ECmp _ a b => exp_arg_ubs benv a ++ exp_arg_ubs benv b
  | EWhere c a b => exp_arg_ubs benv c ++ exp_arg_ubs benv a ++ exp_arg_ubs benv b
  | ELet e1 e2 => exp_arg_ubs benv e1 ++ exp_arg_ubs (ival benv e1 :: benv) e2
  end.

Fixpoint omax_list (l:list (option Q)) : option Q :=
  match l with
  | [] => None
  | [x] => x
  | x :: r => o2 qmax x (omax_list r)
  end.

(* Some m: e contains at least one exp and every exp argument is <= m whenever the variables lie in
   benv.  None: no exp at all, or some argument could not be bounded. *)
Definition exp_args_bounded (e:expr) (benv:list itv) : option Q := omax_list (exp_arg_ubs benv e).

(* ---- saturating semantics (see RealOps.v) ------------------------------------------------------ *)
Definition xbop (o:bop) : xr -> xr -> xr :=
  match o with BAdd => xadd | BSub => xsub | BMul => xmul | BDiv => xdiv
             | BMax => xmax | BMin => xmin | BPow => xpow end.
Definition xfn (T:R) (f:fn1) : xr -> xr :=
  match f with FExp => xexp T | FLn => xln | FSqrt => xsqrt | FTanh => xtanh | FAbs => xabs end.

Fixpoint xeval (T:R) (env:list xr) (e:expr) : xr :=
  match e with
  | EInt z => Fin (IZR z)
  | ERat n d => Fin (IZR n / IZR (Zpos d))
  | EVar i => nth i env (Fin 0)
  | ENeg a => xopp (xeval T env a)
  | EBin o a b => xbop o (xeval T env a) (xeval T env b)
  | EPowN a k => xfin1 (fun x => x ^ k) (xeval T env a)
  | EPowZ a z => xfin1 (fun x => powerRZ x z) (xeval T env a)
  | ECmp c a b => xcmp (cmp_sem c) (xeval T env a) (xeval T env b)
  | EFn f a => xfn T f (xeval T env a)
  | EWhere c a b => xwhere (xeval T env c) (xeval T env a) (xeval T env b)
  | ELet e1 e2 => xeval T (xeval T env e1 :: env) e2
  end.
