(* C10 (shape part) for broadcasting arithmetic, reductions, bilinear ops and the concatenation family: every
   gradient handed back by a backward kernel has exactly the shape of the operand it belongs to, whatever the
   other operands' shapes; accumulating it into the zeros_like(data) buffer neither raises nor broadcasts.
   (The dtype part of C10 for these ops is judged on the implementation by checks/ops_algebra.py: part_c10.)   *)
From Coq Require Import List Arith ZArith Bool.
Import ListNotations.
From SG Require Import Base.Sums Base.ScalarExt NumPy.Index NumPy.Tensor NumPy.TensorFn
  NumPy.Broadcast NumPy.Reduce NumPy.Matmul NumPy.Concat
  Proofs.BcastProofs Proofs.ArithProofs Proofs.ReduceProofs Proofs.MatmulProofs Proofs.ConcatProofs Proofs.AlgebraExtra.

Section C10.
Context {A:Type} `{ScalarLaws A} `{!ScalarMulLaws A}.

Theorem unbroadcast_shape : forall s_op s_out (g:tensor A),
  broadcastable s_op s_out = true -> tshape g = s_out ->
  exists r, unbroadcast g s_op = Some r /\ tshape r = s_op.
Proof. exact unbroadcast_shape_proof. Qed.

Theorem add_grad_shapes : forall sa sb so (g:tensor A), broadcast_shapes sa sb = Some so -> tshape g = so ->
  exists ga gb, add_backward g sa sb = Some (ga, gb) /\ tshape ga = sa /\ tshape gb = sb.
Proof. intros sa sb so g E Hg. destruct (add_vjp_proof sa sb so g E Hg) as (ga & gb & E1 & E2 & E3 & _). eauto. Qed.
Theorem mul_grad_shapes : forall sa sb so (g a b:tensor A),
  broadcast_shapes sa sb = Some so -> tshape g = so -> tshape a = sa -> tshape b = sb ->
  exists ga gb, mul_backward g a b = Some (ga, gb) /\ tshape ga = sa /\ tshape gb = sb.
Proof. intros sa sb so g a b E Hg Ha Hb. destruct (mul_vjp_proof sa sb so g a b E Hg Ha Hb) as (ga & gb & E1 & E2 & E3 & _). eauto. Qed.
Theorem matmul_grad_shapes : forall ba bb bo n k m (g a b:tensor A),
  broadcast_shapes ba bb = Some bo -> tshape a = ba ++ [n; k] -> tshape b = bb ++ [k; m] -> tshape g = bo ++ [n; m] ->
  exists ga gb, matmul_backward g a b = Some (ga, gb) /\ tshape ga = tshape a /\ tshape gb = tshape b.
Proof. intros ba bb bo n k m g a b E Ha Hb Hg. destruct (matmul_vjp_proof ba bb bo n k m g a b E Ha Hb Hg) as (ga & gb & E1 & E2 & E3 & _). eauto. Qed.
Theorem addmm_grad_shapes : forall sa bb bc bo n k m so (g a b c:tensor A),
  broadcast_shapes bb bc = Some bo -> broadcast_shapes sa (bo ++ [n; m]) = Some so ->
  tshape a = sa -> tshape b = bb ++ [n; k] -> tshape c = bc ++ [k; m] -> tshape g = so ->
  exists ga gb gc, addmm_backward g a b c = Some (ga, gb, gc) /\
    tshape ga = tshape a /\ tshape gb = tshape b /\ tshape gc = tshape c.
Proof.
  intros sa bb bc bo n k m so g a b c E1 E2 Ha Hb Hc Hg.
  destruct (addmm_vjp_proof sa bb bc bo n k m so g a b c E1 E2 Ha Hb Hc Hg) as (ga & gb & gc & E & S1 & S2 & S3 & _).
  exists ga, gb, gc. auto.
Qed.
Theorem sum_grad_shape : forall (g:tensor A) sa ax keep ks,
  np_reduce_axes true (length sa) ax = Some ks -> tshape g = red_shape (mask_of (length sa) ks) sa keep ->
  exists r, sum_backward g sa ax keep = Some r /\ tshape r = sa.
Proof. intros g sa ax keep ks E Hg. destruct (sum_backward_is_gather g sa ax keep ks E Hg) as (r & E1 & E2 & _). eauto. Qed.
Theorem concat_grad_shapes : forall (xs:list (tensor A)) dim (o g:tensor A),
  concat_forward xs dim = Some o -> tshape g = tshape o ->
  exists gs, concat_backward g xs dim = Some gs /\ Forall2 (fun gk xk => tshape gk = tshape xk) gs xs.
Proof. intros xs dim o g E Hg. destruct (concat_vjp_proof xs dim o g E Hg) as (gs & E1 & E2 & _). eauto. Qed.
Theorem stack_grad_shapes : forall (xs:list (tensor A)) dim (o g:tensor A),
  stack_forward xs dim = Some o -> tshape g = tshape o ->
  exists gs, stack_backward g dim = Some gs /\ Forall2 (fun gk xk => tshape gk = tshape xk) gs xs.
Proof. intros xs dim o g E Hg. destruct (stack_vjp_proof xs dim o g E Hg) as (gs & E1 & E2 & _). eauto. Qed.
Theorem unbind_grad_shape : forall (g:tensor A) sa dim k, tshape (unbind_backward g sa dim k) = sa.
Proof. reflexivity. Qed.

(* x._grad += kernel result: the buffer keeps its shape; a result of exactly the buffer's shape is added elementwise *)
Theorem accumulate_keeps_shape : forall (buf g r:tensor A), accumulate buf g = Some r -> tshape r = tshape buf.
Proof. exact accumulate_shape_proof. Qed.
Theorem accumulate_exact : forall (buf g:tensor A), tshape g = tshape buf ->
  exists r, accumulate buf g = Some r /\ tshape r = tshape buf /\
    forall i, In i (idxs (tshape buf)) -> tat r i = sadd (tat buf i) (tat g i).
Proof. exact accumulate_exact_proof. Qed.
End C10.

Section C10_mean.
Context {A:Type} `{ScalarLaws A} `{!ScalarDiv A} `{!ScalarDivLaws A}.
Theorem mean_grad_shape : forall (a g:tensor A) ax keep ks,
  strict_axes (rank a) ax = Some ks -> tshape g = red_shape (mask_of (rank a) ks) (tshape a) keep ->
  exists r, mean_backward g (tshape a) ax keep = Some r /\ tshape r = tshape a.
Proof. intros a g ax keep ks E Hg. destruct (mean_vjp_proof a g ax keep ks E Hg) as (o & r & _ & _ & E1 & E2 & _). eauto. Qed.
End C10_mean.

Goal True. idtac "ASSUMPTIONS unbroadcast_shape". Abort.
Print Assumptions unbroadcast_shape.
Goal True. idtac "ASSUMPTIONS add_grad_shapes". Abort.
Print Assumptions add_grad_shapes.
Goal True. idtac "ASSUMPTIONS mul_grad_shapes". Abort.
Print Assumptions mul_grad_shapes.
Goal True. idtac "ASSUMPTIONS matmul_grad_shapes". Abort.
Print Assumptions matmul_grad_shapes.
Goal True. idtac "ASSUMPTIONS addmm_grad_shapes". Abort.
Print Assumptions addmm_grad_shapes.
Goal True. idtac "ASSUMPTIONS sum_grad_shape". Abort.
Print Assumptions sum_grad_shape.
Goal True. idtac "ASSUMPTIONS concat_grad_shapes". Abort.
Print Assumptions concat_grad_shapes.
Goal True. idtac "ASSUMPTIONS stack_grad_shapes". Abort.
Print Assumptions stack_grad_shapes.
Goal True. idtac "ASSUMPTIONS unbind_grad_shape". Abort.
Print Assumptions unbind_grad_shape.
Goal True. idtac "ASSUMPTIONS accumulate_keeps_shape". Abort.
Print Assumptions accumulate_keeps_shape.
Goal True. idtac "ASSUMPTIONS accumulate_exact". Abort.
Print Assumptions accumulate_exact.
Goal True. idtac "ASSUMPTIONS mean_grad_shape". Abort.
Print Assumptions mean_grad_shape.

(* the hypothesis [broadcastable] matters: for a non-broadcastable pair the loop returns a wrong shape silently *)
Example ex_unbroadcast_not_broadcastable :
  broadcastable [2;2] [2;3] = false /\
  option_map (@tshape Z) (unbroadcast (of_list [2;3] [1;2;3;4;5;6]%Z) [2;2]) = Some [2;1].
Proof. split; reflexivity. Qed.
Example ex_unbroadcast_shapes : broadcastable [] [2;3] = true /\ broadcastable [3] [2;3] = true /\ broadcastable [2;1] [2;3] = true.
Proof. repeat split; reflexivity. Qed.
