(* C01, max / min over the reals: where every reduced group has a unique extremal element the argmax table is locally
   constant, so the forward is differentiable and the code's backward (Props/C01_algebra.v: max_vjp / min_vjp, the adjoint
   on the inputs sharing the argmax table) is the vector-Jacobian product in the analytic sense.  Coquelicot [is_derive];
   axioms: the standard real-number ones only (see Print Assumptions).  Only statements.                                 *)
From Coq Require Import List Arith ZArith Bool Reals Lia Lra.
From Coquelicot Require Import Coquelicot.
Import ListNotations.
From SG Require Import Base.Sums Base.ScalarExt NumPy.Index NumPy.Tensor NumPy.Gather NumPy.TensorFn NumPy.Broadcast NumPy.Reduce
  Proofs.MaxProofs Proofs.MaxRealProofs.
Local Open Scope R_scope.

(* ---- one fibre x : nat -> R of length n with its maximum (minimum) attained only at m: the derivative of the value
        computed for that fibre, in every direction v, is the component of v the mask selects ---- *)
Theorem vmaxR_is_derivable : forall n (x v:nat -> R) m, (m < n)%nat -> (forall j, (j < n)%nat -> j <> m -> x j < x m) ->
  is_derive (fun t => vmaxR n (fun j => x j + t * v j)) 0 (v m).
Proof. exact vmaxR_derive. Qed.
Theorem vminR_is_derivable : forall n (x v:nat -> R) m, (m < n)%nat -> (forall j, (j < n)%nat -> j <> m -> x m < x j) ->
  is_derive (fun t => vminR n (fun j => x j + t * v j)) 0 (v m).
Proof. exact vminR_derive. Qed.
(* vmaxR (the model's value of a fibre: best_of with np.argmax's tie rule) is the maximum of the fibre *)
Theorem vmaxR_is_the_maximum : forall n (x:nat -> R), (0 < n)%nat ->
  (forall j, (j < n)%nat -> x j <= vmaxR n x) /\ exists j, (j < n)%nat /\ vmaxR n x = x j.
Proof. exact vmaxR_is_max. Qed.

(* ---- a whole tensor, every dim form the forward accepts (None | int | tuple, 0-d): if every group of positions
        reduced together has a strict unique maximum (minimum), then for every direction d and upstream gradient g
        d/dt <g, max(a + t d)> at t = 0  equals  <max_backward g a, d> ---- *)
Theorem max_vjp_analytic : forall (g a d:tensor R) ax keep ks,
  np_reduce_axes true (rank a) ax = Some ks -> fibre_size (mask_of (rank a) ks) (tshape a) <> 0%nat ->
  tshape g = red_shape (mask_of (rank a) ks) (tshape a) keep -> tshape d = tshape a ->
  (forall i, In i (idxs (tshape a)) -> exists K, strict_max_at (map (tat a) (colof (mask_of (rank a) ks) (tshape a) i)) K) ->
  exists r, max_backward g a ax keep = Some r /\ tshape r = tshape a /\
    is_derive (fun t => match max_forward (tadd_scaled a d t) ax keep with
                        | Some o => dot (idxs (tshape o)) (tat g) (tat o) | None => 0 end)
              0 (dot (idxs (tshape a)) (tat r) (tat d)).
Proof. exact max_vjp_analytic_proof. Qed.
Theorem min_vjp_analytic : forall (g a d:tensor R) ax keep ks,
  np_reduce_axes true (rank a) ax = Some ks -> fibre_size (mask_of (rank a) ks) (tshape a) <> 0%nat ->
  tshape g = red_shape (mask_of (rank a) ks) (tshape a) keep -> tshape d = tshape a ->
  (forall i, In i (idxs (tshape a)) -> exists K, strict_min_at (map (tat a) (colof (mask_of (rank a) ks) (tshape a) i)) K) ->
  exists r, min_backward g a ax keep = Some r /\ tshape r = tshape a /\
    is_derive (fun t => match min_forward (tadd_scaled a d t) ax keep with
                        | Some o => dot (idxs (tshape o)) (tat g) (tat o) | None => 0 end)
              0 (dot (idxs (tshape a)) (tat r) (tat d)).
Proof. exact min_vjp_analytic_proof. Qed.
(* the neighbourhood: the argmax of a fibre with a strict unique maximum does not move under small perturbations *)
Theorem argmax_is_locally_constant : forall (l w:list R) m, length w = length l -> strict_max_at l m ->
  exists d, 0 < d /\ forall t, Rabs t < d -> argbest sleb (perturb l w t) = m.
Proof. exact argmax_stable. Qed.

Goal True. idtac "ASSUMPTIONS vmaxR_is_derivable". Abort.
Print Assumptions vmaxR_is_derivable.
Goal True. idtac "ASSUMPTIONS vminR_is_derivable". Abort.
Print Assumptions vminR_is_derivable.
Goal True. idtac "ASSUMPTIONS vmaxR_is_the_maximum". Abort.
Print Assumptions vmaxR_is_the_maximum.
Goal True. idtac "ASSUMPTIONS max_vjp_analytic". Abort.
Print Assumptions max_vjp_analytic.
Goal True. idtac "ASSUMPTIONS min_vjp_analytic". Abort.
Print Assumptions min_vjp_analytic.
Goal True. idtac "ASSUMPTIONS argmax_is_locally_constant". Abort.
Print Assumptions argmax_is_locally_constant.

(* the hypothesis is satisfiable, and fails exactly at ties *)
Example ex_strict_max : strict_max_at [1; 3; 2] 1.
Proof. split. simpl. auto. intros [|[|[|p]]] Hp Hn; simpl in *; try lia; try lra; congruence. Qed.
