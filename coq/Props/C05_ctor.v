(* C05 (constructors part): shape-argument forms accepted by empty/ones/zeros/rand/randn, arange, eye. *)
From Coq Require Import List ZArith Bool.
Import ListNotations.
From SG Require Import NumPy.Ctor Proofs.CtorProofs.

(* the constructors accept exactly the documented argument forms (sizes as varargs or one list/tuple,
   all non-negative) and produce exactly the documented shape: any number of dimensions *)
Theorem ctor_shape_args_match_spec : forall args, norm_shape_args args = spec_shape_args args.
Proof. exact norm_shape_args_spec. Qed.
Goal True. idtac "ASSUMPTIONS ctor_shape_args_match_spec". Abort.
Print Assumptions ctor_shape_args_match_spec.

(* rand/randn: same forms, except that a 0-d result is rejected (raises), never answered differently *)
Theorem ctor_rand_shape_args :
  forall args, norm_shape_args_rand args = match spec_shape_args args with Some [] => None | r => r end.
Proof. intro args. unfold norm_shape_args_rand. rewrite norm_shape_args_spec. reflexivity. Qed.
Goal True. idtac "ASSUMPTIONS ctor_rand_shape_args". Abort.
Print Assumptions ctor_rand_shape_args.

(* arange(start, stop, step>0) has exactly the elements start + k*step below stop *)
Theorem arange_elements :
  forall start stop step n, (0 < step)%Z -> arange_len start stop step = Some n ->
  forall k, (0 <= k)%Z -> ((k < n)%Z <-> (arange_nth start step k < stop)%Z).
Proof. exact arange_len_pos. Qed.
Goal True. idtac "ASSUMPTIONS arange_elements". Abort.
Print Assumptions arange_elements.

Example ctor_examples :
  norm_shape_args [SInt 2; SInt 3] = Some [2;3]%Z /\ norm_shape_args [SSeq [2;3]%Z] = Some [2;3]%Z /\
  norm_shape_args [] = Some [] /\ norm_shape_args [SInt 2; SSeq [3]%Z] = None /\ arange_len 1 10 3 = Some 3%Z.
Proof. repeat split; reflexivity. Qed.
