(* C14, conv / pool part — the fused kernels equal the compositions their documentation equates them with:
   convolution = unfold followed by a matrix product, pooling = window extraction followed by max / mean; values and gradients.
   Only statements; model NumPy/ConvPool.v, proofs Proofs/ConvPoolProofs.v, Proofs/ConvPoolFused.v.
   Gradients: two ways of computing the same function have the same VJP; for the identities below this is also shown directly
   on the backward kernels (the composition's backward, written out, equals the fused kernel's backward pointwise). *)
From Coq Require Import List ZArith Bool Lia QArith Qcanon.
Import ListNotations.
From SG Require Import Base.Sums NumPy.Gather NumPy.Window NumPy.Im2col NumPy.ConvPool NumPy.ConvPoolRun
  Proofs.WindowProofs Proofs.Im2colProofs Proofs.ConvPoolAux Proofs.ConvPoolProofs Proofs.ConvPoolPooling Proofs.ConvPoolFused.
Open Scope Z_scope.

(* conv2d(x, w, b)[n] = w.reshape(C_out, -1) @ unfold(x)[n] + b, reshaped to the output grid:
   out[n,co,i,j] = b[co] + sum_r wflat[co,r] * unfold(x)[n, r, i*lW + j],  wflat[co, ci*kH*kW + a*kW + b] = w[co,ci,a,b]
   (the channel-major kernel layout of unfold is the layout of w.reshape) *)
Theorem conv_is_unfold_matmul :
  forall (A : Type) (SA : Scalar A) (LA : ScalarLaws A) (CA : CommLaws A) g (w : pos -> A) bias (x : pos -> A) n co wi wj, valid g ->
    0 <= n < gN g -> 0 <= wi < lH g -> 0 <= wj < lW g ->
    conv2d_fwd g w bias x (n, co, wi, wj) =
    with_bias bias co (isum (zr (nR g)) (fun r =>
      smul (w (co, r / (kH g * kW g), (r / kW g) mod kH g, r mod kW g)) (unfold_fwd g s0 x (n, r, wi * lW g + wj)))).
Proof. intros. now apply conv_is_unfold_matmul_lemma. Qed.
Goal True. idtac "ASSUMPTIONS conv_is_unfold_matmul". Abort.
Print Assumptions conv_is_unfold_matmul.

(* gradients of the composition: dU = wflat^T @ g reaches unfold's output, unfold's backward (col2im_fast) maps it to x;
   dWflat = g @ unfold(x)^T summed over the batch.  They are the fused kernel's x- and weight-gradient. *)
Theorem conv_unfold_gradients_coincide :
  forall (A : Type) (SA : Scalar A) (LA : ScalarLaws A) (CA : CommLaws A) g Co (gr w x : pos -> A), valid g ->
    (forall i, unfold_bwd g (dU_of g Co gr w) i = conv2d_bwd_x g Co gr w i) /\
    (forall co c a b, 0 <= c < gC g -> 0 <= a < kH g -> 0 <= b < kW g ->
       dWflat_of g gr x co ((c * kH g + a) * kW g + b) = conv2d_bwd_w g gr (windows2 g s0 x) (co, c, a, b)).
Proof. intros. split. intros; now apply conv_unfold_grad_x. intros; now apply conv_unfold_grad_w. Qed.
Goal True. idtac "ASSUMPTIONS conv_unfold_gradients_coincide". Abort.
Print Assumptions conv_unfold_gradients_coincide.

(* max pooling = window extraction followed by max over the window axis: on the strided view of extract_windows (pad value -inf)
   and on F.unfold(x, pad_value=-inf) viewed as (N, C, kH*kW, L) *)
Theorem pool_is_windows_then_reduce :
  forall g (x : pos -> Z) n c wi wj,
    maxpool2d_fwd g x (n, c, wi, wj) = lmax (map (fun t => ecell x (ew g wi wj n c (t / kW g) (t mod kW g))) (zr (kH g * kW g))) /\
    (valid g -> 0 <= n < gN g -> 0 <= c < gC g -> 0 <= wi < lH g -> 0 <= wj < lW g ->
     maxpool2d_fwd g x (n, c, wi, wj) =
     lmax (map (fun t => ecell x (fast_unf g (n, c * (kH g * kW g) + t, wi * lW g + wj))) (zr (kH g * kW g)))).
Proof. intros. split. apply maxpool2d_is_windows_max. intros; now apply maxpool2d_is_unfold_max. Qed.
Goal True. idtac "ASSUMPTIONS pool_is_windows_then_reduce". Abort.
Print Assumptions pool_is_windows_then_reduce.

(* average pooling = mean over the window axis of the extracted windows / of unfold(x) viewed as (N, C, kH*kW, L), and the
   composition's backward (g/(kH*kW) broadcast over the kernel axis, then unfold's backward) is the fused backward *)
Theorem avgpool_is_windows_then_mean :
  forall (A : Type) (SA : Scalar A) (LA : ScalarLaws A) (DA : Divider A) (DL : DivLaws A) g (x gr : pos -> A) n c wi wj,
    avgpool2d_fwd g x (n, c, wi, wj) =
      sdiv (isum (zr (kH g * kW g)) (fun t => windows2 g s0 x (wi, wj, n, c, t / kW g, t mod kW g))) (zlen (zr (kH g * kW g))) /\
    (valid g -> 0 <= n < gN g -> 0 <= c < gC g -> 0 <= wi < lH g -> 0 <= wj < lW g ->
     avgpool2d_fwd g x (n, c, wi, wj) =
       sdiv (isum (zr (kH g * kW g)) (fun t => unfold_fwd g s0 x (n, c * (kH g * kW g) + t, wi * lW g + wj))) (kH g * kW g)) /\
    (valid g -> forall i, unfold_bwd g (avg_dU g gr) i = avgpool2d_bwd g gr i).
Proof.
  intros. split; [|split].
  - apply avgpool2d_is_windows_mean.
  - intros; now apply avgpool2d_is_unfold_mean.
  - intros; now apply avgpool_unfold_grad.
Qed.
Goal True. idtac "ASSUMPTIONS avgpool_is_windows_then_mean". Abort.
Print Assumptions avgpool_is_windows_then_mean.

Theorem pool_is_windows_then_reduce_1d :
  forall (A : Type) (SA : Scalar A) (LA : ScalarLaws A) (DA : Divider A) g (x : pos1 -> Z) (xa : pos1 -> A) n c wj,
    maxpool1d_fwd g x (n, c, wj) = lmax (map (fun b => ecell x (ew1 g wj n c b)) (zr (k1 g))) /\
    avgpool1d_fwd g xa (n, c, wj) = sdiv (isum (zr (k1 g)) (fun b => windows1 g s0 xa (wj, n, c, b))) (zlen (zr (k1 g))).
Proof. intros. split. apply maxpool1d_is_windows_max. apply avgpool1d_is_windows_mean. Qed.
Goal True. idtac "ASSUMPTIONS pool_is_windows_then_reduce_1d". Abort.
Print Assumptions pool_is_windows_then_reduce_1d.

(* ---------------------------------------------------------------- non-vacuity *)
Definition g_ex : geom := {| gN := 1; gC := 2; gH := 3; gW := 4; kH := 2; kW := 2; sH := 1; sW := 2; pH := 1; pW := 0; dH := 1; dW := 2 |}.
Example g_ex_valid : valid g_ex /\ lH g_ex = 4 /\ lW g_ex = 1 /\ nR g_ex = 8.
Proof. unfold valid. cbn. repeat split; try lia; vm_compute; congruence. Qed.
Example conv_unfold_ex :
  let x := [1; 5; 2; 0;  3; 3; 9; 1;  4; 8; 6; 7;   0; 1; 0; 1;  2; 2; 2; 2;  -1; -2; -3; -4] in
  let w := [1; -2; 3; 1;  0; 1; 1; 0] in
  run_conv2d g_ex 1 x w (Some [5]) = run_conv_via_unfold g_ex 1 x w (Some [5]) /\ run_conv2d g_ex 1 x w (Some [5]) <> [5; 5; 5; 5].
Proof. vm_compute. split. reflexivity. discriminate. Qed.
