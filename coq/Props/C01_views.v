(* C01 (views part, work package E1) - backward of every shape-changing / view / indexing op is the exact VJP.
   Only statements; proofs live in Proofs/Views*Proofs.v.  Models: NumPy/Views.v, NumPy/Indexing.v.

   Reading guide.  fwd_<op> sh args = Some op: the real call is accepted and computes out[j] = x[g_phi op j].
   bwd_<op> ...: the transcription of the *_backward kernel.  For kernels that re-arrange the gradient
   (reshape / moveaxis / swapaxes / squeeze of grad) the backward is a gather_op bop applied to grad;
   backward_is_scatter op bop says: grad has the result's shape, the produced array has the operand's shape
   (so `x._grad += a_grad` neither broadcasts nor raises) and equals  scatter (g_phi op) g  at every operand
   position, for upstream gradients g over ANY commutative semiring (all g, not only all-ones).
   vjp_identity: <g, op x> = <backward g, x> (through gather_scatter_adjoint).  bijective: g_phi op is a
   bijection between the index sets (includes maps_into: every read is in bounds).
   All theorems quantify over every rank, shape and argument value.                                     *)
From Coq Require Import List Bool Arith ZArith Reals.
Import ListNotations.
From SG Require Import Base.Sums Base.Cmp NumPy.Gather NumPy.Index NumPy.Tensor NumPy.ViewsAux NumPy.Views NumPy.Indexing NumPy.Spec.
From SG Require Import Proofs.ViewsAuxProofs Proofs.ViewsReshapeProofs Proofs.ViewsPermProofs Proofs.ViewsUnfoldProofs
                       Proofs.ViewsIndexProofs Proofs.ViewsC01Proofs Proofs.ViewsRealProofs.

(* the algebraic core: for an in-bounds gather, scatter is the adjoint (any commutative semiring) *)
Theorem views_gather_vjp :
  forall (A : Type) (SA : Scalar A) (LA : ScalarLaws A) (op : gather_op) (x g : idx -> A),
    maps_into op ->
    tdot (g_out op) g (tgather (g_phi op) x) = tdot (g_in op) (tscatter op g) x.
Proof. exact (fun A SA LA => @op_vjp A SA LA). Qed.
Goal True. idtac "ASSUMPTIONS views_gather_vjp". Abort.
Print Assumptions views_gather_vjp.

(* ... hence over the reals *)
Theorem views_vjp_over_R :
  forall (op : gather_op) b, vjp_identity op b ->
    forall x g : idx -> R, tdot (g_out op) g (tgather (g_phi op) x) = tdot (g_in op) (b R ScalarR g) x.
Proof. exact vjp_identity_over_R. Qed.
Goal True. idtac "ASSUMPTIONS views_vjp_over_R". Abort.
Print Assumptions views_vjp_over_R.

(* ---- reshape *)
Theorem bwd_reshape_is_scatter :
  forall sh t op, fwd_reshape sh t = Some op ->
    g_in op = sh /\ exists bop, bwd_reshape (g_out op) sh = Some bop /\ backward_is_scatter op bop.
Proof. exact bwd_reshape_is_scatter. Qed.
Goal True. idtac "ASSUMPTIONS bwd_reshape_is_scatter". Abort.
Print Assumptions bwd_reshape_is_scatter.

Theorem reshape_vjp :
  forall sh t op, fwd_reshape sh t = Some op ->
    exists bop, bwd_reshape (g_out op) sh = Some bop /\ vjp_identity op (fun A SA g => apply_op bop g).
Proof. exact reshape_vjp. Qed.
Goal True. idtac "ASSUMPTIONS reshape_vjp". Abort.
Print Assumptions reshape_vjp.

Theorem reshape_bijective :
  forall sh t op, fwd_reshape sh t = Some op -> bijective op.
Proof. exact reshape_bijective. Qed.
Goal True. idtac "ASSUMPTIONS reshape_bijective". Abort.
Print Assumptions reshape_bijective.

(* ---- flatten *)
Theorem bwd_flatten_is_scatter :
  forall sh s e op, fwd_flatten sh s e = Some op ->
    g_in op = sh /\ exists bop, bwd_flatten (g_out op) sh = Some bop /\ backward_is_scatter op bop.
Proof. exact bwd_flatten_is_scatter. Qed.
Goal True. idtac "ASSUMPTIONS bwd_flatten_is_scatter". Abort.
Print Assumptions bwd_flatten_is_scatter.

Theorem flatten_vjp :
  forall sh s e op, fwd_flatten sh s e = Some op ->
    exists bop, bwd_flatten (g_out op) sh = Some bop /\ vjp_identity op (fun A SA g => apply_op bop g).
Proof. exact flatten_vjp. Qed.
Goal True. idtac "ASSUMPTIONS flatten_vjp". Abort.
Print Assumptions flatten_vjp.

Theorem flatten_bijective :
  forall sh s e op, fwd_flatten sh s e = Some op -> bijective op.
Proof. exact flatten_bijective. Qed.
Goal True. idtac "ASSUMPTIONS flatten_bijective". Abort.
Print Assumptions flatten_bijective.

(* ---- squeeze *)
Theorem bwd_squeeze_is_scatter :
  forall sh arg op, fwd_squeeze sh arg = Some op ->
    g_in op = sh /\ exists bop, bwd_squeeze (g_out op) sh = Some bop /\ backward_is_scatter op bop.
Proof. exact bwd_squeeze_is_scatter. Qed.
Goal True. idtac "ASSUMPTIONS bwd_squeeze_is_scatter". Abort.
Print Assumptions bwd_squeeze_is_scatter.

Theorem squeeze_vjp :
  forall sh arg op, fwd_squeeze sh arg = Some op ->
    exists bop, bwd_squeeze (g_out op) sh = Some bop /\ vjp_identity op (fun A SA g => apply_op bop g).
Proof. exact squeeze_vjp. Qed.
Goal True. idtac "ASSUMPTIONS squeeze_vjp". Abort.
Print Assumptions squeeze_vjp.

Theorem squeeze_bijective :
  forall sh arg op, fwd_squeeze sh arg = Some op -> bijective op.
Proof. exact squeeze_bijective. Qed.
Goal True. idtac "ASSUMPTIONS squeeze_bijective". Abort.
Print Assumptions squeeze_bijective.

(* ---- unsqueeze *)
Theorem bwd_unsqueeze_is_scatter :
  forall sh arg op, fwd_unsqueeze sh arg = Some op ->
    g_in op = sh /\ exists bop, bwd_unsqueeze (g_out op) arg = Some bop /\ backward_is_scatter op bop.
Proof. exact bwd_unsqueeze_is_scatter. Qed.
Goal True. idtac "ASSUMPTIONS bwd_unsqueeze_is_scatter". Abort.
Print Assumptions bwd_unsqueeze_is_scatter.

Theorem unsqueeze_vjp :
  forall sh arg op, fwd_unsqueeze sh arg = Some op ->
    exists bop, bwd_unsqueeze (g_out op) arg = Some bop /\ vjp_identity op (fun A SA g => apply_op bop g).
Proof. exact unsqueeze_vjp. Qed.
Goal True. idtac "ASSUMPTIONS unsqueeze_vjp". Abort.
Print Assumptions unsqueeze_vjp.

Theorem unsqueeze_bijective :
  forall sh arg op, fwd_unsqueeze sh arg = Some op -> bijective op.
Proof. exact unsqueeze_bijective. Qed.
Goal True. idtac "ASSUMPTIONS unsqueeze_bijective". Abort.
Print Assumptions unsqueeze_bijective.

(* ---- movedim *)
Theorem bwd_movedim_is_scatter :
  forall sh s d op, fwd_movedim sh s d = Some op ->
    g_in op = sh /\ exists bop, bwd_movedim (g_out op) s d = Some bop /\ backward_is_scatter op bop.
Proof. exact bwd_movedim_is_scatter. Qed.
Goal True. idtac "ASSUMPTIONS bwd_movedim_is_scatter". Abort.
Print Assumptions bwd_movedim_is_scatter.

Theorem movedim_vjp :
  forall sh s d op, fwd_movedim sh s d = Some op ->
    exists bop, bwd_movedim (g_out op) s d = Some bop /\ vjp_identity op (fun A SA g => apply_op bop g).
Proof. exact movedim_vjp. Qed.
Goal True. idtac "ASSUMPTIONS movedim_vjp". Abort.
Print Assumptions movedim_vjp.

Theorem movedim_bijective :
  forall sh s d op, fwd_movedim sh s d = Some op -> bijective op.
Proof. exact movedim_bijective. Qed.
Goal True. idtac "ASSUMPTIONS movedim_bijective". Abort.
Print Assumptions movedim_bijective.

(* ---- transpose *)
Theorem bwd_transpose_is_scatter :
  forall sh a b op, fwd_transpose sh a b = Some op ->
    g_in op = sh /\ exists bop, bwd_transpose (g_out op) a b = Some bop /\ backward_is_scatter op bop.
Proof. exact bwd_transpose_is_scatter. Qed.
Goal True. idtac "ASSUMPTIONS bwd_transpose_is_scatter". Abort.
Print Assumptions bwd_transpose_is_scatter.

Theorem transpose_vjp :
  forall sh a b op, fwd_transpose sh a b = Some op ->
    exists bop, bwd_transpose (g_out op) a b = Some bop /\ vjp_identity op (fun A SA g => apply_op bop g).
Proof. exact transpose_vjp. Qed.
Goal True. idtac "ASSUMPTIONS transpose_vjp". Abort.
Print Assumptions transpose_vjp.

Theorem transpose_bijective :
  forall sh a b op, fwd_transpose sh a b = Some op -> bijective op.
Proof. exact transpose_bijective. Qed.
Goal True. idtac "ASSUMPTIONS transpose_bijective". Abort.
Print Assumptions transpose_bijective.

(* ---- clone *)
Theorem bwd_clone_is_scatter :
  forall sh op, fwd_clone sh = Some op ->
    g_in op = sh /\ exists bop, bwd_clone (g_out op) = Some bop /\ backward_is_scatter op bop.
Proof. exact bwd_clone_is_scatter. Qed.
Goal True. idtac "ASSUMPTIONS bwd_clone_is_scatter". Abort.
Print Assumptions bwd_clone_is_scatter.

Theorem clone_vjp :
  forall sh op, fwd_clone sh = Some op ->
    exists bop, bwd_clone (g_out op) = Some bop /\ vjp_identity op (fun A SA g => apply_op bop g).
Proof. exact clone_vjp. Qed.
Goal True. idtac "ASSUMPTIONS clone_vjp". Abort.
Print Assumptions clone_vjp.

Theorem clone_bijective :
  forall sh op, fwd_clone sh = Some op -> bijective op.
Proof. exact clone_bijective. Qed.
Goal True. idtac "ASSUMPTIONS clone_bijective". Abort.
Print Assumptions clone_bijective.

(* the key law of movedim: out axis k of moveaxis(s->d) is in axis mv s d k; moving back is the inverse for EVERY pair (s,d) *)
Theorem movedim_move_back :
  forall n s d k, s < n -> d < n -> k < n -> mv d s (mv s d k) = k.
Proof. exact mv_mv. Qed.
Goal True. idtac "ASSUMPTIONS movedim_move_back". Abort.
Print Assumptions movedim_move_back.

(* the same on lists (shapes, multi-indices): move d s inverts move s d *)
Theorem movedim_move_back_list :
  forall (X : Type) (dx : X) s d (l : list X), s < length l -> d < length l -> move dx d s (move dx s d l) = l.
Proof. exact @move_move. Qed.
Goal True. idtac "ASSUMPTIONS movedim_move_back_list". Abort.
Print Assumptions movedim_move_back_list.

(* swapaxes is an involution *)
Theorem transpose_involution :
  forall a b k, sw a b (sw a b k) = k.
Proof. exact sw_sw. Qed.
Goal True. idtac "ASSUMPTIONS transpose_involution". Abort.
Print Assumptions transpose_involution.

(* ---- unfold_dim: the loop over windows (a_grad[..., i*step : i*step+size] += moveaxis(grad[..., i, ...], -1, dimension)) computes the scatter *)
Theorem bwd_unfold_dim_is_scatter :
  forall sh dimension size step op d sz st,
    fwd_unfold_dim sh dimension size step = Some op ->
    unfold_args sh dimension size step = Some (d, sz, st) ->
    g_in op = sh /\
    forall (A : Type) (SA : Scalar A) (LA : ScalarLaws A) (g : idx -> A),
      exists b, bwd_unfold_dim (g_out op) sh d sz st g = Some b /\
                forall i, In i (idxs sh) -> b i = tscatter op g i.
Proof. exact bwd_unfold_dim_is_scatter. Qed.
Goal True. idtac "ASSUMPTIONS bwd_unfold_dim_is_scatter". Abort.
Print Assumptions bwd_unfold_dim_is_scatter.

Theorem unfold_dim_vjp :
  forall sh dimension size step op d sz st,
    fwd_unfold_dim sh dimension size step = Some op ->
    unfold_args sh dimension size step = Some (d, sz, st) ->
    forall (A : Type) (SA : Scalar A) (LA : ScalarLaws A) (x g : idx -> A),
      exists b, bwd_unfold_dim (g_out op) sh d sz st g = Some b /\
                tdot (g_out op) g (tgather (g_phi op) x) = tdot sh b x.
Proof. exact unfold_dim_vjp. Qed.
Goal True. idtac "ASSUMPTIONS unfold_dim_vjp". Abort.
Print Assumptions unfold_dim_vjp.

Theorem unfold_dim_maps_into :
  forall sh dimension size step op, fwd_unfold_dim sh dimension size step = Some op -> maps_into op.
Proof. exact unfold_maps_into. Qed.
Goal True. idtac "ASSUMPTIONS unfold_dim_maps_into". Abort.
Print Assumptions unfold_dim_maps_into.

(* ---- __getitem__ (ints, slices, newaxis, Ellipsis, integer arrays with repeats): np.add.at accumulates = scatter *)
Theorem bwd_index_is_scatter :
  forall sh items op,
    fwd_index sh items = Some op ->
    g_in op = sh /\
    forall (A : Type) (SA : Scalar A) (LA : ScalarLaws A) (g : idx -> A),
      exists b, bwd_index sh items g = Some b /\ forall i, b i = tscatter op g i.
Proof. exact bwd_index_is_scatter. Qed.
Goal True. idtac "ASSUMPTIONS bwd_index_is_scatter". Abort.
Print Assumptions bwd_index_is_scatter.

Theorem index_vjp :
  forall sh items op,
    fwd_index sh items = Some op ->
    forall (A : Type) (SA : Scalar A) (LA : ScalarLaws A) (x g : idx -> A),
      exists b, bwd_index sh items g = Some b /\
                tdot (g_out op) g (tgather (g_phi op) x) = tdot sh b x.
Proof. exact index_vjp. Qed.
Goal True. idtac "ASSUMPTIONS index_vjp". Abort.
Print Assumptions index_vjp.

Theorem index_maps_into :
  forall sh items op, fwd_index sh items = Some op -> g_in op = sh /\ maps_into op.
Proof. exact index_maps_into. Qed.
Goal True. idtac "ASSUMPTIONS index_maps_into". Abort.
Print Assumptions index_maps_into.

(* ---- non-vacuity: accepted instances with non-trivial maps ------------------------------------------- *)
Example movedim_example :
  option_map (fun op => (g_out op, probe op)) (fwd_movedim [2;3;4] 0 2)
  = Some ([3;4;2], map Some [0;12;1;13;2;14;3;15;4;16;5;17;6;18;7;19;8;20;9;21;10;22;11;23]).
Proof. vm_compute. reflexivity. Qed.

(* the input that failed before fix 598e77a: x(2,3,4).movedim(0,2), gradient g = 1 + arange(24) *)
Example movedim_backward_example :
  match fwd_movedim [2;3;4] 0 2 with
  | Some op => match bwd_movedim (g_out op) 0 2 with
               | Some bop => Some (g_out bop, to_list (g_out bop) (apply_op bop (of_list (g_out op) (map Z.of_nat (seq 1 24)))))
               | None => None end
  | None => None end
  = Some ([2;3;4], [1;3;5;7;9;11;13;15;17;19;21;23;2;4;6;8;10;12;14;16;18;20;22;24]%Z).
Proof. vm_compute. reflexivity. Qed.

(* repeated integer indices accumulate: x(5)[[0,0,2]], g = [1,2,3]  ->  [3,0,3,0,0] *)
Example index_repeat_example :
  option_map (fun b => to_list [5] b) (bwd_index [5] [IArr [0;0;2]%Z] (of_list [3] [1;2;3]%Z)) = Some [3;0;3;0;0]%Z.
Proof. vm_compute. reflexivity. Qed.

(* overlapping windows: x(5).unfold(0, 3, 1), g = 1..9 -> [1, 2+4, 3+5+7, 6+8, 9] *)
Example unfold_overlap_example :
  match fwd_unfold_dim [5] 0 3 1 with
  | Some op => option_map (fun b => (g_out op, to_list [5] b)) (bwd_unfold_dim (g_out op) [5] 0 3 1 (of_list (g_out op) (map Z.of_nat (seq 1 9))))
  | None => None end
  = Some ([3;3], [1;6;15;14;9]%Z).
Proof. vm_compute. reflexivity. Qed.
