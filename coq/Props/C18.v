(* C18 — dataset split, batching and one-hot encoding lose or misalign no sample.
   Only statements; the model is State/Data.v (tied to synapgrad/nn/utils/data.py by the correspondence of
   checks/c18.py), proofs are in Proofs/DataProofs.v.  Every theorem is followed by Print Assumptions. *)
From Coq Require Import List Bool Arith ZArith QArith Qround Permutation Sorted.
Import ListNotations.
From SG Require Import State.Data Proofs.DataProofs Proofs.DataFloat Gen.GenDataSigs.
From Coq Require String.
From Coq Require Reals.
Local Open Scope nat_scope.

(* ---- split_dataset ------------------------------------------------------------------------------- *)

(* The floor rule, on exact rationals: for a fraction in [0,1] the size is between 0 and n (so the slices
   indices[:k], indices[k:] are ordinary prefixes/suffixes).  The code evaluates the product in binary64;
   the check passes the number computed that way (see notes/C18.md). *)
Theorem split_floor_rule_range :
  forall (f : Q) (n : nat), (0 <= f)%Q -> (f <= 1)%Q ->
    (0 <= floor_size f n <= Z.of_nat n)%Z /\
    (inject_Z (floor_size f n) <= f * inject_Z (Z.of_nat n))%Q /\
    (f * inject_Z (Z.of_nat n) < inject_Z (floor_size f n + 1))%Q.
Proof. intros f n H0 H1. split; [apply floor_size_range; assumption|apply floor_size_spec]. Qed.
Goal True. idtac "ASSUMPTIONS split_floor_rule_range". Abort.
Print Assumptions split_floor_rule_range.

(* The same range for the rule as the code evaluates it: the product is rounded to binary64 (nearest even) before the
   floor; q is the real value of the float test_split, n < 2^53 converts exactly.  (Flocq; uses the axioms of Reals.) *)
Theorem split_float_floor_rule_range :
  forall (q : Rdefinitions.R) (n : Z),
    (Rdefinitions.Rle (Rdefinitions.IZR 0) q /\ Rdefinitions.Rle q (Rdefinitions.IZR 1)) -> (0 <= n < 2 ^ 53)%Z ->
    (0 <= Flocq.Core.Raux.Zfloor (b64_round (Rdefinitions.Rmult q (Rdefinitions.IZR n))) <= n)%Z.
Proof. exact float_floor_rule_range. Qed.
Goal True. idtac "ASSUMPTIONS split_float_floor_rule_range". Abort.
Print Assumptions split_float_floor_rule_range.

(* all n, all sizes, all permutations: the three index lists partition 0..n-1 *)
Theorem split_indices_partition :
  forall n idx kt kv, Permutation idx (seq 0 n) ->
  let '(tr, te, va) := split_indices idx kt kv in
  Permutation (te ++ val_list va ++ tr) (seq 0 n) /\
  NoDup (te ++ val_list va ++ tr) /\
  (forall i, In i te -> ~ In i (val_list va) /\ ~ In i tr) /\
  (forall i, In i (val_list va) -> ~ In i tr) /\
  (forall i, i < n -> In i te \/ In i (val_list va) \/ In i tr).
Proof. exact DataProofs.split_indices_partition. Qed.
Goal True. idtac "ASSUMPTIONS split_indices_partition". Abort.
Print Assumptions split_indices_partition.

(* split_dataset: never raises; sizes kt, kv, n-kt-kv; each set is X and y picked at the SAME index list;
   the multiset of (sample,label) pairs of the three sets is the multiset of input pairs *)
Theorem split_partitions :
  forall (A B : Type) (X : list A) (y : list B) kt kv perm,
  length y = length X -> valid_perm (length X) perm ->
  kt <= length X -> (forall k, kv = Some k -> k <= length X - kt) ->
  exists r tr te va,
    split_dataset X y kt kv perm = Some r /\
    split_indices (indices (length X) perm) kt kv = (tr, te, va) /\
    pick2 X y tr = Some (s_train r) /\ pick2 X y te = Some (s_test r) /\
    (match va, s_val r with
     | Some v, Some d => pick2 X y v = Some d
     | None, None => kv = None
     | _, _ => False end) /\
    length (fst (s_test r)) = kt /\ length (snd (s_test r)) = kt /\
    (match kv, s_val r with
     | Some k, Some d => length (fst d) = k /\ length (snd d) = k
     | None, None => True | _, _ => False end) /\
    length (fst (s_train r)) = length X - kt - (match kv with Some k => k | None => 0 end) /\
    length (snd (s_train r)) = length (fst (s_train r)) /\
    Permutation (pairs (s_test r) ++ val_pairs (s_val r) ++ pairs (s_train r)) (combine X y).
Proof. intros A B. exact (@split_dataset_partition A B). Qed.
Goal True. idtac "ASSUMPTIONS split_partitions". Abort.
Print Assumptions split_partitions.

(* features and labels stay paired: entry j of a set's samples and of its labels come from one input index *)
Theorem split_pairing :
  forall (A B : Type) (X : list A) (y : list B) idx a b,
  pick2 X y idx = Some (a, b) ->
  length a = length idx /\ length b = length idx /\
  forall j, j < length idx ->
    exists i, nth_error idx j = Some i /\ i < length X /\ i < length y /\
              nth_error a j = nth_error X i /\ nth_error b j = nth_error y i.
Proof. intros A B. exact (@pick2_aligned A B). Qed.
Goal True. idtac "ASSUMPTIONS split_pairing". Abort.
Print Assumptions split_pairing.

(* shuffle off: the original order is preserved *)
Theorem split_order_without_shuffle :
  forall (A B : Type) (X : list A) (y : list B) kt kv,
  length y = length X ->
  split_dataset X y kt kv None =
  Some {| s_train := (skipn (match kv with Some k => k | None => 0 end) (skipn kt X),
                      skipn (match kv with Some k => k | None => 0 end) (skipn kt y));
          s_test := (firstn kt X, firstn kt y);
          s_val := match kv with
                   | Some k => Some (firstn k (skipn kt X), firstn k (skipn kt y))
                   | None => None end |}.
Proof. intros A B. exact (@split_noshuffle_order A B). Qed.
Goal True. idtac "ASSUMPTIONS split_order_without_shuffle". Abort.
Print Assumptions split_order_without_shuffle.

(* every falsy form of the shuffle argument (False, np.bool_(False), 0) is the no-shuffle branch, whatever the generator
   would have produced; every truthy form uses the permutation *)
Theorem split_shuffle_argument_forms :
  forall (A B : Type) (X : list A) (y : list B) kt kv perm,
  split_dataset_a X y kt kv (SBool false) perm = split_dataset X y kt kv None /\
  split_dataset_a X y kt kv (SNpBool false) perm = split_dataset X y kt kv None /\
  split_dataset_a X y kt kv (SInt 0) perm = split_dataset X y kt kv None /\
  split_dataset_a X y kt kv (SBool true) perm = split_dataset X y kt kv (Some perm) /\
  split_dataset_a X y kt kv (SNpBool true) perm = split_dataset X y kt kv (Some perm) /\
  (forall z, z <> 0%Z -> split_dataset_a X y kt kv (SInt z) perm = split_dataset X y kt kv (Some perm)).
Proof.
  intros. unfold split_dataset_a. simpl. repeat split.
  intros z Hz. destruct (Z.eqb_spec z 0); [contradiction|reflexivity].
Qed.
Goal True. idtac "ASSUMPTIONS split_shuffle_argument_forms". Abort.
Print Assumptions split_shuffle_argument_forms.

(* non-vacuity: n = 7, shuffled, test 2, validation 2 *)
Example split_example_run :
  split_dataset [10;11;12;13;14;15;16]%Z [0;1;0;1;2;2;1]%Z 2 (Some 2) (Some [3;0;6;2;5;1;4]) =
  Some {| s_train := ([15;11;14], [2;1;2])%Z; s_test := ([13;10], [1;0])%Z; s_val := Some ([16;12], [1;0])%Z |}.
Proof. vm_compute. reflexivity. Qed.

Example split_example_perm : valid_perm 7 (Some [3;0;6;2;5;1;4]).
Proof.
  simpl. apply NoDup_Permutation_bis.
  - repeat constructor; simpl; intuition discriminate.
  - simpl. auto.
  - intros x Hx. simpl in *. intuition.
Qed.

(* ---- DataLoader ------------------------------------------------------------------------------------ *)

(* len = floor(n/b); floor(n/b) batches; batch i = the elements [i*b, i*b+b) of X and of y (aligned), each of
   exactly b elements; consecutive and disjoint (their concatenation is the prefix of length floor(n/b)*b);
   the n mod b trailing samples are dropped *)
Theorem loader_batches :
  forall (A B : Type) (L : loader A B),
  bsize L <> 0 -> transform L = None -> length (LX L) = length (Ly L) ->
  let n := length (Ly L) in let b := bsize L in
  llen L = Some (n / b) /\
  length (spec_batches L) = n / b /\
  (forall i, i < n / b ->
     exists xb yb, nth_error (spec_batches L) i = Some (xb, yb) /\
       length xb = b /\ length yb = b /\
       forall j, j < b -> nth_error xb j = nth_error (LX L) (i * b + j) /\
                          nth_error yb j = nth_error (Ly L) (i * b + j) /\
                          i * b + j < n) /\
  concat (map fst (spec_batches L)) = firstn ((n / b) * b) (LX L) /\
  concat (map snd (spec_batches L)) = firstn ((n / b) * b) (Ly L) /\
  (n / b) * b <= n /\ n < (n / b) * b + b.
Proof. intros A B. exact (@DataProofs.loader_batches A B). Qed.
Goal True. idtac "ASSUMPTIONS loader_batches". Abort.
Print Assumptions loader_batches.

(* a `for` loop over the loader started in ANY state (cursor anywhere) yields exactly those batches and
   leaves the cursor at floor(n/b); the transform log grows by one raw batch per batch *)
Theorem loader_for_loop :
  forall (A B : Type) (L : loader A B) (s : lstate A B),
  bsize L <> 0 ->
  for_loop L s =
  (Some (spec_batches L),
   {| cursor := length (Ly L) / bsize L;
      tlog := tlog s ++ tr_log L (seq 0 (length (Ly L) / bsize L)) |}).
Proof. intros A B. exact (@for_loop_spec A B). Qed.
Goal True. idtac "ASSUMPTIONS loader_for_loop". Abort.
Print Assumptions loader_for_loop.

(* re-iterable from the start after ANY event history (complete loops, abandoned loops, len(), indexing) *)
Theorem loader_reiterable :
  forall (A B : Type) (L : loader A B) (s : lstate A B) (h : list lev),
  bsize L <> 0 -> fst (for_loop L (snd (lrun L s h))) = Some (spec_batches L).
Proof. intros A B. exact (@DataProofs.loader_reiterable A B). Qed.
Goal True. idtac "ASSUMPTIONS loader_reiterable". Abort.
Print Assumptions loader_reiterable.

Theorem loader_abandoned_then_fresh :
  forall (A B : Type) (L : loader A B) (s : lstate A B) j,
  bsize L <> 0 ->
  fst (for_loop L (snd (lrun L s (Iter :: repeat (Next 0) j)))) = Some (spec_batches L).
Proof. intros A B. exact (@DataProofs.loader_abandoned_then_fresh A B). Qed.
Goal True. idtac "ASSUMPTIONS loader_abandoned_then_fresh". Abort.
Print Assumptions loader_abandoned_then_fresh.

(* Outside the property's wording, recorded: iterators obtained from one loader are the loader itself and
   share its cursor.  (1) which handle a next() goes through is irrelevant; (2) after an inner complete loop
   the outer iteration is exhausted too:  for a in L: for b in L: ...  runs the outer body once. *)
Theorem loader_handles_share_cursor :
  forall (A B : Type) (L : loader A B) (s : lstate A B) (h : list lev),
  lrun L s (map forget h) = lrun L s h.
Proof. intros A B. exact (@handles_share_cursor A B). Qed.
Goal True. idtac "ASSUMPTIONS loader_handles_share_cursor". Abort.
Print Assumptions loader_handles_share_cursor.

Theorem loader_interleaved_outer_exhausted :
  forall (A B : Type) (L : loader A B) (s : lstate A B) j,
  bsize L <> 0 ->
  let s1 := snd (lrun L s (Iter :: repeat (Next 0) j)) in
  let s2 := snd (for_loop L s1) in
  fst (lstep L s2 (Next 0)) = OStop.
Proof. intros A B. exact (@interleaved_outer_exhausted A B). Qed.
Goal True. idtac "ASSUMPTIONS loader_interleaved_outer_exhausted". Abort.
Print Assumptions loader_interleaved_outer_exhausted.

(* transform: batch i is the transform applied to the raw window; over a loop it is called exactly once per
   batch, in order; with transform=None the batch is returned unchanged and nothing is called *)
Theorem loader_transform_applied :
  forall (A B : Type) (L : loader A B) f i,
  transform L = Some f -> i < length (Ly L) / bsize L ->
  nth_error (spec_batches L) i = Some (f (window (LX L) i (bsize L), window (Ly L) i (bsize L))).
Proof. intros A B. exact (@loader_transform A B). Qed.
Goal True. idtac "ASSUMPTIONS loader_transform_applied". Abort.
Print Assumptions loader_transform_applied.

Theorem loader_transform_once :
  forall (A B : Type) (L : loader A B) (s : lstate A B),
  bsize L <> 0 ->
  (forall f, transform L = Some f ->
     tlog (snd (for_loop L s)) =
     tlog s ++ map (fun i => (window (LX L) i (bsize L), window (Ly L) i (bsize L)))
                   (seq 0 (length (Ly L) / bsize L))) /\
  (transform L = None -> tlog (snd (for_loop L s)) = tlog s).
Proof.
  intros A B L s Hb. split.
  - intros f Hf. exact (loader_transform_log L s f Hb Hf).
  - exact (loader_no_transform_log L s Hb).
Qed.
Goal True. idtac "ASSUMPTIONS loader_transform_once". Abort.
Print Assumptions loader_transform_once.

Example loader_example :
  let L := {| LX := [10;11;12;13;14;15;16]%Z; Ly := [0;1;2;3;4;5;6]%Z; bsize := 3; transform := None |} in
  fst (for_loop L (snd (lrun L linit [Iter; Next 0; Iter; Next 1; Next 0]))) =
  Some [([10;11;12], [0;1;2]); ([13;14;15], [3;4;5])]%Z.
Proof. vm_compute. reflexivity. Qed.

(* ---- one_hot_encode -------------------------------------------------------------------------------- *)

(* uniques = the strictly increasing list of the distinct labels (and the only such list) *)
Theorem one_hot_uniques :
  forall y, StronglySorted Z.lt (uniques y) /\ NoDup (uniques y) /\ (forall z, In z (uniques y) <-> In z y) /\
    forall l, StronglySorted Z.lt l -> (forall z, In z l <-> In z y) -> l = uniques y.
Proof.
  intro y. split; [apply uniques_sorted|]. split; [apply sorted_lt_NoDup, uniques_sorted|].
  split; [apply uniques_In|].
  intros l Hs Hin. apply sorted_lt_unique; [exact Hs|apply uniques_sorted|].
  intro z. rewrite Hin. symmetry. apply uniques_In.
Qed.
Goal True. idtac "ASSUMPTIONS one_hot_uniques". Abort.
Print Assumptions one_hot_uniques.

Theorem one_hot_unit_vectors :
  forall y, exists rows, one_hot y = Some rows /\ length rows = length y /\
    forall i label, nth_error y i = Some label ->
      exists k, index_of label (uniques y) = Some k /\
                nth_error (uniques y) k = Some label /\ k < length (uniques y) /\
                nth_error rows i = Some (unit_row (length (uniques y)) k) /\
                length (unit_row (length (uniques y)) k) = length (uniques y) /\
                count_occ Nat.eq_dec (unit_row (length (uniques y)) k) 1 = 1 /\
                forall j, j < length (uniques y) ->
                  nth_error (unit_row (length (uniques y)) k) j = Some (if j =? k then 1 else 0).
Proof. exact one_hot_spec. Qed.
Goal True. idtac "ASSUMPTIONS one_hot_unit_vectors". Abort.
Print Assumptions one_hot_unit_vectors.

(* label containers of shape (n,) and (n,1) (column ndarray / nested list, read row by row) denote the same n labels
   and are encoded identically, so the two theorems above apply to all of them; a container is of the (n,1) form only
   if it is the column of some label list *)
Theorem one_hot_label_containers :
  forall y, one_hot_c (Column (map (fun x => [x]) y)) = one_hot y /\ one_hot_c (Flat y) = one_hot y.
Proof. exact one_hot_column. Qed.
Goal True. idtac "ASSUMPTIONS one_hot_label_containers". Abort.
Print Assumptions one_hot_label_containers.

Theorem one_hot_column_reading :
  forall rows y, labels_of (Column rows) = Some y -> rows = map (fun x => [x]) y.
Proof. exact labels_of_column_inv. Qed.
Goal True. idtac "ASSUMPTIONS one_hot_column_reading". Abort.
Print Assumptions one_hot_column_reading.

Theorem one_hot_rows_distinguish_labels :
  forall y a b ka kb,
  index_of a (uniques y) = Some ka -> index_of b (uniques y) = Some kb -> In a y -> In b y ->
  (unit_row (length (uniques y)) ka = unit_row (length (uniques y)) kb <-> a = b).
Proof. exact one_hot_injective. Qed.
Goal True. idtac "ASSUMPTIONS one_hot_rows_distinguish_labels". Abort.
Print Assumptions one_hot_rows_distinguish_labels.

Example one_hot_column_example :
  one_hot_c (Column [[3]; [-1]; [3]; [7]]%Z) = Some [[0;1;0]; [1;0;0]; [0;1;0]; [0;0;1]] /\
  one_hot_c (Column [[3]; [-1; 3]]%Z) = None.
Proof. vm_compute. split; reflexivity. Qed.

Example one_hot_example :
  one_hot [3; -1; 3; 7; -1]%Z = Some [[0;1;0]; [1;0;0]; [0;1;0]; [0;0;1]; [1;0;0]].
Proof. vm_compute. reflexivity. Qed.

(* ---- the public entry points are the documented ones ---------------------------------------------------
   Generated from data.py on every run (lib/py2coq/gen_sigs.py -> Gen/GenDataSigs.v): parameter names, ORDER (a positional
   call binds by position: DataLoader(X, y, batch_size, transform)), defaults, and the attributes that make up a DataLoader's
   state (the model's loader record + cursor).  A changed signature or a new state attribute breaks this obligation. *)
Import String.
Local Open Scope string_scope.
Theorem data_signatures_documented :
  data_signatures =
 [
  ("split_dataset", [("X", "pos", ""); ("y", "pos", ""); ("test_split", "pos", "0.2"); ("val_split", "pos", "None"); ("shuffle", "pos", "False")]);
  ("one_hot_encode", [("y", "pos", "")]);
  ("DataLoaderCallback.__call__", [("self", "pos", ""); ("data_loader", "pos", ""); ("X_batch", "pos", ""); ("y_batch", "pos", "")]);
  ("DataLoader.__init__", [("self", "pos", ""); ("X", "pos", ""); ("y", "pos", ""); ("batch_size", "pos", ""); ("transform", "pos", "None")]);
  ("DataLoader.__len__", [("self", "pos", "")]);
  ("DataLoader.__iter__", [("self", "pos", "")]);
  ("DataLoader.__next__", [("self", "pos", "")]);
  ("DataLoader.__getitem__", [("self", "pos", ""); ("idx", "pos", "")])
 ]
  /\ data_state =
 [
  ("DataLoaderCallback", []);
  ("DataLoader", ["X"; "y"; "batach_size"; "step"; "transform"])
 ].
Proof. split; reflexivity. Qed.
Goal True. idtac "ASSUMPTIONS data_signatures_documented". Abort.
Print Assumptions data_signatures_documented.
