(* C14 (views part, work package E1) - flatten = reshape, movedim between adjacent dims = transpose.
   Equalities of the gather_ops of the models (shape and index map), forward and backward.            *)
From Coq Require Import List Bool Arith ZArith.
Import ListNotations.
From SG Require Import Base.Sums Base.Cmp NumPy.Gather NumPy.Index NumPy.Tensor NumPy.ViewsAux NumPy.Views NumPy.Indexing NumPy.Spec.
From SG Require Import Proofs.ViewsAuxProofs Proofs.ViewsReshapeProofs Proofs.ViewsPermProofs Proofs.ViewsUnfoldProofs
                       Proofs.ViewsIndexProofs Proofs.ViewsSpecProofs Proofs.ViewsIndexSpecProofs.

(* x.flatten(s,e) is x.reshape(result shape): the same gather_op; the backward kernels are the same function (grad.reshape(x.shape)) *)
Theorem flatten_is_reshape :
  forall (sh : shape) (s e : Z) (op : gather_op),
         fwd_flatten sh s e = Some op ->
         fwd_reshape sh (map Z.of_nat (g_out op)) = Some op /\
         (forall gsh : shape, bwd_flatten gsh sh = bwd_reshape gsh sh).
Proof. exact flatten_is_reshape. Qed.
Goal True. idtac "ASSUMPTIONS flatten_is_reshape". Abort.
Print Assumptions flatten_is_reshape.

(* ... and the result shape is the spec's prefix ++ [product] ++ suffix (0-d: (1,)) *)
Theorem flatten_is_reshape_to_spec_shape :
  forall (sh : shape) (s e : Z) (s' e' : nat) (op : gather_op),
         fwd_flatten sh s e = Some op ->
         wrap_dim (length sh) s = Some s' ->
         wrap_dim (length sh) e = Some e' ->
         fwd_reshape sh (map Z.of_nat (spec_flatten_shape sh s' e')) = Some op.
Proof. exact flatten_is_reshape_to_spec_shape. Qed.
Goal True. idtac "ASSUMPTIONS flatten_is_reshape_to_spec_shape". Abort.
Print Assumptions flatten_is_reshape_to_spec_shape.

(* |s - d| = 1 (after normalisation): movedim(s,d) and transpose(s,d) are the same gather_op, and so are their backward kernels (moveaxis(g,d,s) = swapaxes(g,s,d)) *)
Theorem movedim_adjacent_is_transpose :
  forall (sh : list nat) (s d : Z) (s' d' : nat),
         norm_axis (length sh) s = Some s' ->
         norm_axis (length sh) d = Some d' ->
         s' = S d' \/ d' = S s' ->
         fwd_movedim sh s d = fwd_transpose sh s d /\
         (forall gsh : list nat,
          length gsh = length sh -> bwd_movedim gsh s d = bwd_transpose gsh s d).
Proof. exact movedim_adjacent_is_transpose. Qed.
Goal True. idtac "ASSUMPTIONS movedim_adjacent_is_transpose". Abort.
Print Assumptions movedim_adjacent_is_transpose.

(* the underlying fact on axis maps *)
Theorem mv_adjacent :
  forall s d k : nat, s = S d \/ d = S s -> mv s d k = sw s d k.
Proof. exact mv_adjacent. Qed.
Goal True. idtac "ASSUMPTIONS mv_adjacent". Abort.
Print Assumptions mv_adjacent.


Example movedim_adjacent_example :
  fwd_movedim [2;3;4] (-1) 1 = fwd_transpose [2;3;4] (-1) 1 /\
  option_map g_out (fwd_movedim [2;3;4] (-1) 1) = Some [2;4;3].
Proof.
  split. apply (movedim_adjacent_is_transpose [2;3;4] (-1) 1 2 1); auto. vm_compute. reflexivity.
Qed.
