(* C09 -- stability-critical ops stay finite and accurate for large-magnitude inputs (PARTIAL: mechanism level).
   This file assembles the property-level statements.  The scalar kernels (sigmoid, tanh, selu,
   bce-with-logits) are covered by Props/C09_scalar.v, restated here in summary form; the vector part
   (softmax / log_softmax / cross-entropy: max-shift, log-sum-exp) belongs to work package F2
   (Props/C09_vector.v, checks/kernels_vector.py) and is added to the check when present.
   What the model cannot carry and is NOT claimed: float32/float64 rounding, accuracy of NumPy's
   exp/log/tanh.  "agree to single-precision accuracy" is sampled by the mpmath oracle only. *)
From Coq Require Import Reals ZArith QArith Qreals Lia Lra List.
From SG Require Import Analysis.RealOps Analysis.Expr Gen.GenKernels Gen.GenExprs Proofs.ExprProofs Proofs.KernelProofsC09.
From SG Require Props.C09_scalar.
Import ListNotations.
Open Scope R_scope.

(* selu backward and both bce-with-logits kernels: for every real input no exp argument is positive, hence (saturating model, any threshold T >= 0) the results are finite and equal to the real-number values *)
Theorem c09_no_overflow_kernels :
  forall T g x y alpha scale, 0 <= T ->
    xeval T [Fin scale; Fin alpha; Fin x; Fin g] selu_backward_expr = Fin (selu_backward g x alpha scale) /\
    xeval T [Fin y; Fin x] bce_with_logits_loss_forward_expr = Fin (bce_with_logits_loss_forward x y) /\
    xeval T [Fin y; Fin x; Fin g] bce_with_logits_loss_backward_expr = Fin (bce_with_logits_loss_backward g x y).
Proof. exact (fun T g x y alpha scale HT => conj (selu_backward_saturating T g x alpha scale HT) (bce_logits_saturating T g x y HT)). Qed.
Goal True. idtac "ASSUMPTIONS c09_no_overflow_kernels". Abort.
Print Assumptions c09_no_overflow_kernels.

(* sigmoid forward and selu forward DO hand arguments up to the input magnitude to exp; in the saturating model the overflow is harmless: selu forward returns the exact real value, sigmoid returns 0 within exp(-T) of the real value *)
Theorem c09_benign_overflow_kernels :
  forall T a alpha scale, 0 <= T -> 0 < alpha ->
    xeval T [Fin scale; Fin alpha; Fin a] selu_forward_expr = Fin (selu_forward a alpha scale) /\
    (- a <= T -> xeval T [Fin a] sigmoid_forward_expr = Fin (sigmoid_forward a)) /\
    (T < - a -> xeval T [Fin a] sigmoid_forward_expr = Fin 0 /\ Rabs (0 - sigmoid_forward a) <= exp (- T)).
Proof. exact (fun T a alpha scale HT Hal => conj (C09_scalar.selu_forward_overflow_is_benign T a alpha scale HT Hal) (conj (sigmoid_saturating_regular T a) (sigmoid_saturating_overflow T a))). Qed.
Goal True. idtac "ASSUMPTIONS c09_benign_overflow_kernels". Abort.
Print Assumptions c09_benign_overflow_kernels.

(* real-number ranges: sigmoid in (0,1), tanh in (-1,1) with gradient factor in (0,1] *)
Theorem c09_ranges :
  forall a, 0 < sigmoid_forward a < 1 /\ -1 < tanh_forward a < 1 /\ 0 < tanh_backward 1 (tanh_forward a) <= 1.
Proof. exact (fun a => conj (sigmoid_range a) (conj (proj1 (tanh_bounded_lemma a)) (proj1 (proj2 (tanh_bounded_lemma a))))). Qed.
Goal True. idtac "ASSUMPTIONS c09_ranges". Abort.
Print Assumptions c09_ranges.

(* the threshold: exp 88 < FLT_MAX < exp 89 *)
Theorem c09_float32_threshold :
  exp 88 < FLT_MAX /\ FLT_MAX < exp 89.
Proof. exact (conj exp_88_lt_FLT_MAX FLT_MAX_lt_exp_89). Qed.
Goal True. idtac "ASSUMPTIONS c09_float32_threshold". Abort.
Print Assumptions c09_float32_threshold.

