(* C07 (release rule): after backward, leaves keep their gradient, intermediate results other than the root
   release theirs unless marked with retain_grad or computed under retain_grads.
   Corollaries of the engine theorem backward_is_pathsum (Proofs/EngineCompose.v). *)
From Coq Require Import List Bool Arith ZArith.
Import ListNotations.
From SG Require Import Engine.Graph Engine.Dfs Engine.Sweep Engine.History.
From SG Require Import Proofs.SweepProofs Proofs.EngineCompose.

Lemma release_rule_lemma :
  forall (A : galg), galg_ok A ->
  forall g (w : weights A) mode root seed (b : bufs A),
    wf g -> (forall n, node_ok (getn g n)) -> root < length g -> req (getn g root) = true ->
    exists b' log, backward A g w mode root seed b = Some (b', log) /\
      forall v, reachable g root v -> req (getn g v) = true ->
        (* leaves, the root, retained tensors and everything under retain_grads keep a buffer ... *)
        ((is_leaf (getn g v) = true \/ v = root \/ retain (getn g v) = true \/ mode = true) -> b' v <> None) /\
        (* ... every other reachable intermediate has released it *)
        (is_leaf (getn g v) = false -> v <> root -> retain (getn g v) = false -> mode = false -> b' v = None).
Proof.
  intros A HA g w mode root seed b Hwf Hok Hroot Hreq.
  destruct (backward_is_pathsum A HA g w mode root seed b Hwf Hok Hroot Hreq)
    as [b' [ord [Hb [_ [Hreach _]]]]].
  exists b'. eexists. split; [exact Hb|].
  intros v Hv Hrv. specialize (Hreach v Hv Hrv).
  unfold releases in Hreach. split.
  - intros Hkeep.
    assert (Hrel : negb (v =? root) && negb (is_leaf (getn g v)) && negb (retain (getn g v)) && negb mode = false).
    { destruct Hkeep as [Hl|[Hr|[Hret|Hm]]].
      - rewrite Hl. simpl. rewrite andb_false_r. reflexivity.
      - subst v. rewrite Nat.eqb_refl. reflexivity.
      - rewrite Hret. simpl. rewrite andb_false_r. reflexivity.
      - rewrite Hm. simpl. rewrite andb_false_r. reflexivity. }
    rewrite Hrel in Hreach. rewrite Hreach. discriminate.
  - intros Hl Hne Hret Hm.
    assert (Hrel : negb (v =? root) && negb (is_leaf (getn g v)) && negb (retain (getn g v)) && negb mode = true).
    { apply Nat.eqb_neq in Hne. rewrite Hne, Hl, Hret, Hm. reflexivity. }
    rewrite Hrel in Hreach. exact Hreach.
Qed.

Theorem release_rule :
  forall (A : galg), galg_ok A ->
  forall g (w : weights A) mode root seed (b : bufs A),
    wf g -> (forall n, node_ok (getn g n)) -> root < length g -> req (getn g root) = true ->
    exists b' log, backward A g w mode root seed b = Some (b', log) /\
      forall v, reachable g root v -> req (getn g v) = true ->
        ((is_leaf (getn g v) = true \/ v = root \/ retain (getn g v) = true \/ mode = true) -> b' v <> None) /\
        (is_leaf (getn g v) = false -> v <> root -> retain (getn g v) = false -> mode = false -> b' v = None).
Proof. exact release_rule_lemma. Qed.
Goal True. idtac "ASSUMPTIONS release_rule". Abort.
Print Assumptions release_rule.
