(* C15 — weight initialisers fill tensors with the documented distribution, in place.
   Only statements; proofs live in Proofs/InitProofs.v.  Each theorem is followed by Print Assumptions.

   [calculate_gain], [fan_in_and_fan_out], [xavier_uniform_call] ... [conv2d_reset_calls] and the effect summaries are
   GENERATED from synapgrad/nn/init.py and synapgrad/nn/layers.py (Gen/GenInit.v): they are the exact expressions the
   code hands to uniform_(tensor, low, high) / normal_(tensor, mean, std), as real-valued terms.  The right-hand sides
   are the documented formulas (State/InitSpec.v).  Shapes are arbitrary lists of integers; "rank >= 2" is
   [spec_fans shape = Some _]; gains, slopes are arbitrary reals.
   NOT covered here (outside the model): that NumPy's generators produce U(low, high) / N(mean, std^2) samples —
   sampled by checks/c15.py (thorough tier). *)
From Coq Require Import List Bool ZArith Reals String.
Import ListNotations.
From SG Require Import State.InitBase State.InitSpec Gen.GenInit Proofs.InitProofs.
Local Open Scope R_scope.

(* fan_in / fan_out are PyTorch's, for every shape (and the computation is refused exactly below rank 2) *)
Theorem fans_match_pytorch : forall shape, fan_in_and_fan_out shape = spec_fans shape.
Proof. exact fans_match. Qed.
Goal True. idtac "ASSUMPTIONS fans_match_pytorch". Abort.
Print Assumptions fans_match_pytorch.

(* PyTorch's gain table, including the handling of the slope parameter of leaky_relu; unknown names are refused *)
Theorem gain_table :
  (forall n, calculate_gain (nonlin_name n) PNone = Some (spec_gain n None)) /\
  (forall n x, calculate_gain (nonlin_name n) (PNum x) = Some (spec_gain n (Some x))) /\
  (forall n, calculate_gain (nonlin_name n) PBad = match n with NLeakyRelu => None | _ => Some (spec_gain n None) end) /\
  (forall s p, (forall n, s <> nonlin_name n) -> calculate_gain s p = None).
Proof. repeat split; [exact gain_table_none | exact gain_table_num | exact gain_table_bad | exact gain_unknown]. Qed.
Goal True. idtac "ASSUMPTIONS gain_table". Abort.
Print Assumptions gain_table.

(* xavier_uniform_: U(-a, a) with a = gain * sqrt(6 / (fan_in + fan_out)); the lower bound is the negated upper bound *)
Theorem xavier_uniform_bounds : forall shape gain fi fo, spec_fans shape = Some (fi, fo) ->
  xavier_uniform_call shape gain =
  Some (Uniform (- xavier_uniform_bound gain (IZR fi) (IZR fo)) (xavier_uniform_bound gain (IZR fi) (IZR fo))).
Proof. exact xavier_uniform_ok. Qed.
Goal True. idtac "ASSUMPTIONS xavier_uniform_bounds". Abort.
Print Assumptions xavier_uniform_bounds.

(* xavier_normal_: N(0, std^2) with std = gain * sqrt(2 / (fan_in + fan_out)) handed over as the standard deviation *)
Theorem xavier_normal_std : forall shape gain fi fo, spec_fans shape = Some (fi, fo) ->
  xavier_normal_call shape gain = Some (Normal 0 (xavier_normal_sd gain (IZR fi) (IZR fo))).
Proof. exact xavier_normal_ok. Qed.
Goal True. idtac "ASSUMPTIONS xavier_normal_std". Abort.
Print Assumptions xavier_normal_std.

(* kaiming_uniform_: U(-b, b), b = gain * sqrt(3 / fan), gain = gain(nonlinearity, a), fan selected by mode *)
Theorem kaiming_uniform_bounds : forall shape a m n f, spec_fans shape = Some f ->
  kaiming_uniform_call shape a (mode_name m) (nonlin_name n) =
  let b := kaiming_uniform_bound (spec_gain n (Some a)) (IZR (mode_fan m f)) in Some (Uniform (- b) b).
Proof. exact kaiming_uniform_ok. Qed.
Goal True. idtac "ASSUMPTIONS kaiming_uniform_bounds". Abort.
Print Assumptions kaiming_uniform_bounds.

(* kaiming_normal_: N(0, std^2), std = gain / sqrt(fan) *)
Theorem kaiming_normal_std : forall shape a m n f, spec_fans shape = Some f ->
  kaiming_normal_call shape a (mode_name m) (nonlin_name n) =
  Some (Normal 0 (kaiming_normal_sd (spec_gain n (Some a)) (IZR (mode_fan m f)))).
Proof. exact kaiming_normal_ok. Qed.
Goal True. idtac "ASSUMPTIONS kaiming_normal_std". Abort.
Print Assumptions kaiming_normal_std.

(* below rank 2 and for an unknown mode the scaled initialisers raise *)
Theorem scaled_initialisers_reject : 
  (forall shape gain a m n, spec_fans shape = None ->
     xavier_uniform_call shape gain = None /\ xavier_normal_call shape gain = None /\
     kaiming_uniform_call shape a m n = None /\ kaiming_normal_call shape a m n = None) /\
  (forall shape a s n, s <> "fan_in"%string -> s <> "fan_out"%string ->
     kaiming_uniform_call shape a s n = None /\ kaiming_normal_call shape a s n = None).
Proof. split; [exact scaled_rank_error | exact kaiming_bad_mode]. Qed.
Goal True. idtac "ASSUMPTIONS scaled_initialisers_reject". Abort.
Print Assumptions scaled_initialisers_reject.

(* Linear / Conv1d / Conv2d.reset_parameters: weight and (if present) bias from U(-1/sqrt(fan_in), 1/sqrt(fan_in)),
   fan_in that of the weight *)
Theorem layer_reset_bounds : forall shape has_bias fi fo, spec_fans shape = Some (fi, fo) -> (0 < fi)%Z ->
  linear_reset_calls shape has_bias = Some (layer_calls fi has_bias) /\
  conv1d_reset_calls shape has_bias = Some (layer_calls fi has_bias) /\
  conv2d_reset_calls shape has_bias = Some (layer_calls fi has_bias).
Proof. exact layer_reset_ok. Qed.
Goal True. idtac "ASSUMPTIONS layer_reset_bounds". Abort.
Print Assumptions layer_reset_bounds.

(* the five plain fillers: the only effect is `tensor.data = <new array of tensor.shape>.astype(tensor.dtype)`, the
   same tensor object is returned (so identity, shape, dtype and every other attribute, e.g. requires_grad, are kept);
   uniform_/normal_ pass their (a, b) / (mean, std) to NumPy in that order.  Finite facts, by computation. *)
Theorem fill_keeps_identity :
  map fst plain_effects = ["uniform_"; "normal_"; "constant_"; "ones_"; "zeros_"]%string /\
  (forall name e, In (name, e) plain_effects ->
     fe_assigns e = ["data"%string] /\ fe_astype e = "tensor.dtype"%string /\ fe_returns e = "tensor"%string /\
     In "tensor.shape"%string (fe_args e)) /\
  (fe_source uniform_effect = "np.random.uniform"%string /\ fe_args uniform_effect = ["a"; "b"; "tensor.shape"]%string /\
   fe_source normal_effect = "np.random.normal"%string /\ fe_args normal_effect = ["mean"; "std"; "tensor.shape"]%string /\
   fe_source constant_effect = "np.full"%string /\ fe_args constant_effect = ["tensor.shape"; "val"]%string /\
   fe_source ones_effect = "np.ones"%string /\ fe_source zeros_effect = "np.zeros"%string).
Proof. split; [exact fill_names | split; [exact fill_identity | exact fill_arguments]]. Qed.
Goal True. idtac "ASSUMPTIONS fill_keeps_identity". Abort.
Print Assumptions fill_keeps_identity.

(* ---- the hypotheses are satisfiable: a Conv2d weight (8, 3, 5, 5): fan_in = 75, fan_out = 200 ---- *)
Example fans_example : spec_fans [8; 3; 5; 5]%Z = Some (75, 200)%Z.
Proof. reflexivity. Qed.
Example xavier_example : forall gain,
  xavier_uniform_call [8; 3; 5; 5]%Z gain = Some (Uniform (- (gain * sqrt (6 / (75 + 200)))) (gain * sqrt (6 / (75 + 200)))).
Proof. intros gain. rewrite (xavier_uniform_bounds _ _ _ _ fans_example). reflexivity. Qed.
Example conv_example : conv2d_reset_calls [8; 3; 5; 5]%Z true =
  Some [(LWeight, Uniform (- (1 / sqrt 75)) (1 / sqrt 75)); (LBias, Uniform (- (1 / sqrt 75)) (1 / sqrt 75))].
Proof. apply (layer_reset_bounds _ true _ _ fans_example). reflexivity. Qed.
