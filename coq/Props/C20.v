(* C20 — Trainer.fit performs one optimisation step per batch in the right mode.
   Only statements; proofs live in Proofs/TrainerProofs.v (trace) and Proofs/TrainerHistoryProofs.v (history,
   Evaluator).  Model: State/Trainer.v.  All trace theorems are for every number of epochs (>= 0), every train
   loader with nb >= 1 batches and every validation loader with nbv >= 1 batches ([val_ok]); what the model says
   for empty loaders is stated separately (the real code raises UnboundLocalError on `i`). *)
From Coq Require Import List Bool Arith ZArith QArith String.
Import ListNotations.
From SG Require Import State.Contexts State.ModeTree State.Trainer Proofs.TrainerProofs Proofs.TrainerHistoryProofs Proofs.TrainerTreeProofs Proofs.TrainerAbortProofs.

Notation llen := List.length.

(* ---- number of updates ------------------------------------------------------------------------------ *)
Theorem steps_count :
  forall c epochs, (1 <= nb c)%nat -> val_ok c ->
    snd (fit c epochs) = true /\ countb is_step (fst (fit c epochs)) = (epochs * nb c)%nat.
Proof.
  intros c epochs Hn Hv. split; [rewrite fit_ok by assumption; reflexivity|].
  apply count_train_only; auto using train_only_step.
Qed.
Goal True. idtac "ASSUMPTIONS steps_count". Abort.
Print Assumptions steps_count.

(* as many zero_grad() and backward() calls as steps, and nb + nbv forwards per epoch *)
Theorem zero_backward_forward_counts :
  forall c epochs, (1 <= nb c)%nat -> val_ok c ->
    countb is_zero (fst (fit c epochs)) = (epochs * nb c)%nat /\
    countb is_bwd (fst (fit c epochs)) = (epochs * nb c)%nat /\
    countb is_fwd (fst (fit c epochs)) = (epochs * (nb c + match val c with Some nv => nv | None => 0 end))%nat.
Proof.
  intros c epochs Hn Hv. split; [|split].
  - apply count_train_only; auto using train_only_zero.
  - apply count_train_only; auto using train_only_bwd.
  - apply count_forward; assumption.
Qed.
Goal True. idtac "ASSUMPTIONS zero_backward_forward_counts". Abort.
Print Assumptions zero_backward_forward_counts.

(* ---- order and mode of every step --------------------------------------------------------------------- *)
(* [mrun (mstart t0 g0 sv) pre] = (model.training, gradient mode, saved modes, no_grad depth) after the prefix,
   for any model.training t0 and gradient mode g0 in force when fit is called. *)
Theorem step_follows_zero_backward_in_train_mode :
  forall c epochs t0 g0 sv pre post, (1 <= nb c)%nat -> val_ok c ->
    fst (fit c epochs) = pre ++ Step :: post ->
    (exists pre', pre = pre' ++ [ZeroGrad; Backward]) /\
    mtrain (mrun (mstart t0 g0 sv) pre) = true /\
    mgrad (mrun (mstart t0 g0 sv) pre) = g0 /\ mdepth (mrun (mstart t0 g0 sv) pre) = 0%nat.
Proof. intros c epochs t0 g0 sv pre post Hn Hv. apply step_clause; assumption. Qed.
Goal True. idtac "ASSUMPTIONS step_follows_zero_backward_in_train_mode". Abort.
Print Assumptions step_follows_zero_backward_in_train_mode.

Theorem zero_grad_and_backward_in_train_mode :
  forall c epochs t0 g0 sv pre e post, (1 <= nb c)%nat -> val_ok c ->
    fst (fit c epochs) = pre ++ e :: post -> e = ZeroGrad \/ e = Backward ->
    mtrain (mrun (mstart t0 g0 sv) pre) = true /\
    mgrad (mrun (mstart t0 g0 sv) pre) = g0 /\ mdepth (mrun (mstart t0 g0 sv) pre) = 0%nat.
Proof. intros c epochs t0 g0 sv pre e post Hn Hv. apply zero_backward_clause; assumption. Qed.
Goal True. idtac "ASSUMPTIONS zero_grad_and_backward_in_train_mode". Abort.
Print Assumptions zero_grad_and_backward_in_train_mode.

(* ---- forwards: training ones in training mode, validation ones in eval mode under no_grad ---------------- *)
Theorem forward_modes :
  forall c epochs t0 g0 sv pre post, (1 <= nb c)%nat -> val_ok c ->
    fst (fit c epochs) = pre ++ Forward :: post ->
    (mtrain (mrun (mstart t0 g0 sv) pre) = true /\ mdepth (mrun (mstart t0 g0 sv) pre) = 0%nat /\
     mgrad (mrun (mstart t0 g0 sv) pre) = g0) \/
    (mtrain (mrun (mstart t0 g0 sv) pre) = false /\ mdepth (mrun (mstart t0 g0 sv) pre) <> 0%nat /\
     mgrad (mrun (mstart t0 g0 sv) pre) = false).
Proof. intros c epochs t0 g0 sv pre post Hn Hv. apply forward_clause; assumption. Qed.
Goal True. idtac "ASSUMPTIONS forward_modes". Abort.
Print Assumptions forward_modes.

(* between NoGradEnter and NoGradExit: eval mode, gradients off, and nothing but forward / criterion /
   evaluator.step(prefix='val') / evaluator.compute(prefix='val') — no zero_grad, backward or step *)
Theorem validation_in_eval_nograd :
  forall c epochs t0 g0 sv pre e post, (1 <= nb c)%nat -> val_ok c ->
    fst (fit c epochs) = pre ++ e :: post -> mdepth (mrun (mstart t0 g0 sv) pre) <> 0%nat ->
    mtrain (mrun (mstart t0 g0 sv) pre) = false /\ mgrad (mrun (mstart t0 g0 sv) pre) = false /\
    allowed_in_block e = true.
Proof. intros c epochs t0 g0 sv pre e post Hn Hv. apply inside_block_clause; assumption. Qed.
Goal True. idtac "ASSUMPTIONS validation_in_eval_nograd". Abort.
Print Assumptions validation_in_eval_nograd.

(* ... and eval mode is there because of a model.eval() that no model.train() followed (any trace) *)
Theorem eval_mode_comes_from_eval_call :
  forall pre m, mtrain m = true -> mtrain (mrun m pre) = false ->
    exists a b, pre = a ++ EvalMode :: b /\ Forall (fun e => e <> TrainMode) b.
Proof. exact eval_after_evalmode. Qed.
Goal True. idtac "ASSUMPTIONS eval_mode_comes_from_eval_call". Abort.
Print Assumptions eval_mode_comes_from_eval_call.

(* ---- every sub-layer is in the model's mode ------------------------------------------------------------- *)
(* The model is a module TREE (State/ModeTree.v: a `training` flag per module; model.train()/model.eval() set the
   flag of the root and of every descendant).  Whatever the flags were when fit was entered (children switched
   individually, layers attached after model.eval(), ...): at every forward of fit, every module below the model
   has the model-level mode of [forward_modes] — training during training forwards, eval during validation. *)
Theorem every_submodule_follows_the_model_mode :
  forall c epochs t0 g0 sv t lp f pre post, (1 <= nb c)%nat -> val_ok c ->
    fst (fit c epochs) = pre ++ Forward :: post -> flag_at t lp = Some f ->
    flag_at (tree_after t pre) lp = Some (mtrain (mrun (mstart t0 g0 sv) pre)).
Proof. exact fit_submodules. Qed.
Goal True. idtac "ASSUMPTIONS every_submodule_follows_the_model_mode". Abort.
Print Assumptions every_submodule_follows_the_model_mode.

(* ... and at every forward of Trainer.test every module below the model is in eval mode *)
Theorem test_every_submodule_in_eval_mode :
  forall nbt t lp f pre post, test_trace nbt = pre ++ Forward :: post -> flag_at t lp = Some f ->
    flag_at (tree_after t pre) lp = Some false.
Proof. exact test_submodules. Qed.
Goal True. idtac "ASSUMPTIONS test_every_submodule_in_eval_mode". Abort.
Print Assumptions test_every_submodule_in_eval_mode.

(* ---- the gradient mode after fit is the mode before --------------------------------------------------- *)
Theorem grad_mode_restored :
  forall c epochs t0 g0 sv, (1 <= nb c)%nat -> val_ok c ->
    mgrad (mrun (mstart t0 g0 sv) (fst (fit c epochs))) = g0 /\
    msaved (mrun (mstart t0 g0 sv) (fst (fit c epochs))) = sv /\
    mdepth (mrun (mstart t0 g0 sv) (fst (fit c epochs))) = 0%nat.
Proof. intros. apply grad_restored; assumption. Qed.
Goal True. idtac "ASSUMPTIONS grad_mode_restored". Abort.
Print Assumptions grad_mode_restored.

(* composed with C07: the no_grad events of fit, read as events of State/Contexts.v on ANY state [s] of the
   mode flags and context objects, execute without error and restore both global flags *)
Theorem grad_mode_restored_in_contexts_model :
  forall c epochs s, (1 <= nb c)%nat -> val_ok c ->
    exists s', Contexts.run s (to_ctx (llen (objs s)) (fst (fit c epochs))) = Some s' /\
               gmode s' = gmode s /\ rmode s' = rmode s.
Proof. exact fit_ctx_restores. Qed.
Goal True. idtac "ASSUMPTIONS grad_mode_restored_in_contexts_model". Abort.
Print Assumptions grad_mode_restored_in_contexts_model.

(* Trainer.test: every forward in eval mode under no_grad; gradient mode restored *)
Theorem test_in_eval_nograd :
  forall nbt t0 g0 sv,
    (forall pre post, test_trace nbt = pre ++ Forward :: post ->
       mtrain (mrun (mstart t0 g0 sv) pre) = false /\ mgrad (mrun (mstart t0 g0 sv) pre) = false /\
       mdepth (mrun (mstart t0 g0 sv) pre) <> 0%nat) /\
    mgrad (mrun (mstart t0 g0 sv) (test_trace nbt)) = g0 /\ msaved (mrun (mstart t0 g0 sv) (test_trace nbt)) = sv.
Proof.
  intros nbt t0 g0 sv. split; [intros pre post; apply test_clause|apply test_restores].
Qed.
Goal True. idtac "ASSUMPTIONS test_in_eval_nograd". Abort.
Print Assumptions test_in_eval_nograd.

(* ---- exceptions ----------------------------------------------------------------------------------------------- *)
(* ANY event of fit may raise (a bad batch in the forward, the loss, the evaluator, a callback, KeyboardInterrupt):
   [unwind m pre] is the trace of the call that raises at the last event of the prefix [pre] — the prefix followed
   by the __exit__ of the no_grad block that is open at that point (`with` runs it).  Afterwards the gradient mode,
   the saved-mode stack and the depth are those in force when fit was called, so the caller that catches the
   exception finds the global mode untouched (and a following fit trains). *)
Theorem exception_in_fit_restores_grad_mode :
  forall c epochs t0 g0 sv pre post, (1 <= nb c)%nat -> val_ok c ->
    fst (fit c epochs) = pre ++ post ->
    gbase g0 sv (mrun (mstart t0 g0 sv) (unwind (mstart t0 g0 sv) pre)).
Proof. exact fit_exception_restores. Qed.
Goal True. idtac "ASSUMPTIONS exception_in_fit_restores_grad_mode". Abort.
Print Assumptions exception_in_fit_restores_grad_mode.

Theorem exception_in_test_restores_grad_mode :
  forall nbt t0 g0 sv pre post, test_trace nbt = pre ++ post ->
    gbase g0 sv (mrun (mstart t0 g0 sv) (unwind (mstart t0 g0 sv) pre)).
Proof. exact test_exception_restores. Qed.
Goal True. idtac "ASSUMPTIONS exception_in_test_restores_grad_mode". Abort.
Print Assumptions exception_in_test_restores_grad_mode.

(* ---- empty loaders / zero epochs: what the model says --------------------------------------------------- *)
(* nb = 0: the first epoch raises (UnboundLocalError on `i` after the empty loop) right after the second
   model.train(); no step, no history entry.  Excluded from the theorems above by the hypothesis nb >= 1. *)
Theorem empty_train_loader_raises :
  forall c epochs, nb c = 0%nat -> (1 <= epochs)%nat ->
    fit c epochs = ([TrainMode; KbarInit 0] ++ opt_ev (cb_train c) OnTrainEpochCb ++ [TrainMode], false).
Proof. exact fit_empty_loader. Qed.
Goal True. idtac "ASSUMPTIONS empty_train_loader_raises". Abort.
Print Assumptions empty_train_loader_raises.

Theorem zero_epochs_do_nothing : forall c E d n v, fit c 0 = ([], true) /\ fit_history E d n v 0 = [].
Proof. intros. split; reflexivity. Qed.
Goal True. idtac "ASSUMPTIONS zero_epochs_do_nothing". Abort.
Print Assumptions zero_epochs_do_nothing.

(* ---- history ----------------------------------------------------------------------------------------------- *)
(* Domain of the history / metric model: with an evaluator every batch must have at least two samples, because
   Evaluator.step raises on a batch of one (squeeze() drops the batch axis; see [eval_step_defined] and the
   correspondence "evaluator/step on a batch of one raises").  The hypothesis is carried explicitly although the
   proofs about the (total) model functions do not need it: outside it the model does not describe the code. *)
Definition batches_defined (E : option evaluator) (d : run_data) (n : nat) (v : option nat) (epochs : nat) : Prop :=
  E <> None -> forall e i, (e < epochs)%nat ->
    ((i < n)%nat -> eval_step_defined (tbatch d e i) = true) /\
    (forall nv, v = Some nv -> (i < nv)%nat -> eval_step_defined (vbatch d e i) = true).

(* [names] = metric names the epoch_callback returns (the same at every call: [cb_names]); the keys are
   loss, [accuracy], names, and with a validation loader val_loss, [val_accuracy], val_<name>; they must be
   pairwise distinct (a callback metric called "loss" would be appended to the loss list).  Then the returned
   dictionary has exactly these keys in this order, each with one entry per epoch. *)
Theorem history_one_entry_per_epoch :
  forall E d n v names epochs, cb_names E names -> NoDup (all_keys E v names) -> (1 <= epochs)%nat ->
    batches_defined E d n v epochs ->
    map fst (fit_history E d n v epochs) = all_keys E v names /\
    forall k, In k (all_keys E v names) ->
      exists l, lookup k (fit_history E d n v epochs) = Some l /\ llen l = epochs.
Proof. intros E d n v names epochs Hcb Hnd He _. exact (history_shape E d n v names Hcb Hnd epochs He). Qed.
Goal True. idtac "ASSUMPTIONS history_one_entry_per_epoch". Abort.
Print Assumptions history_one_entry_per_epoch.

(* the e-th entry of history['loss'] is (sum of the batch losses of epoch e) / nb; same for val_loss *)
Theorem epoch_loss_is_mean :
  forall E d n v names l e x, cb_names E names -> NoDup (all_keys E v names) -> (1 <= n)%nat ->
    lookup "loss"%string (fit_history E d n v (llen l)) = Some l -> nth_error l e = Some x ->
    (x == fold_right Qplus 0 (map (tloss d e) (seq 0 n)) / qnat n)%Q.
Proof.
  intros E d n v names l e x Hcb Hnd Hn Hl Hx.
  rewrite (history_loss E d n v names Hcb Hnd l e x Hl Hx). apply epoch_loss_mean. exact Hn.
Qed.
Goal True. idtac "ASSUMPTIONS epoch_loss_is_mean". Abort.
Print Assumptions epoch_loss_is_mean.

Theorem epoch_val_loss_is_mean :
  forall E d n nv names l e x, cb_names E names -> NoDup (all_keys E (Some nv) names) -> (1 <= nv)%nat ->
    lookup "val_loss"%string (fit_history E d n (Some nv) (llen l)) = Some l -> nth_error l e = Some x ->
    (x == fold_right Qplus 0 (map (vloss d e) (seq 0 nv)) / qnat nv)%Q.
Proof.
  intros E d n nv names l e x Hcb Hnd Hn Hl Hx.
  rewrite (history_val_loss E d n (Some nv) names Hcb Hnd nv l e x eq_refl Hl Hx). apply epoch_loss_mean. exact Hn.
Qed.
Goal True. idtac "ASSUMPTIONS epoch_val_loss_is_mean". Abort.
Print Assumptions epoch_val_loss_is_mean.

(* the e-th accuracy entry is computed from the decoded predictions / labels of all batches of epoch e *)
Theorem epoch_accuracy_entries :
  forall Ev d n v names l e x, cb_names (Some Ev) names -> NoDup (all_keys (Some Ev) v names) -> acc_on Ev = true ->
    batches_defined (Some Ev) d n v (llen l) ->
    (lookup "accuracy"%string (fit_history (Some Ev) d n v (llen l)) = Some l -> nth_error l e = Some x ->
     x = accuracy (List.concat (map (batch_true (emode_of Ev)) (map (tbatch d e) (seq 0 n))))
                  (List.concat (map (batch_pred (emode_of Ev)) (map (tbatch d e) (seq 0 n))))) /\
    (forall nv, v = Some nv ->
     lookup "val_accuracy"%string (fit_history (Some Ev) d n v (llen l)) = Some l -> nth_error l e = Some x ->
     x = accuracy (List.concat (map (batch_true (emode_of Ev)) (map (vbatch d e) (seq 0 nv))))
                  (List.concat (map (batch_pred (emode_of Ev)) (map (vbatch d e) (seq 0 nv))))).
Proof.
  intros Ev d n v names l e x Hcb Hnd Hacc _. split.
  - intros Hl Hx. exact (history_accuracy (Some Ev) d n v names Hcb Hnd Ev l e x eq_refl Hacc Hl Hx).
  - intros nv Hv Hl Hx. exact (history_val_accuracy (Some Ev) d n v names Hcb Hnd Ev nv l e x eq_refl Hacc Hv Hl Hx).
Qed.
Goal True. idtac "ASSUMPTIONS epoch_accuracy_entries". Abort.
Print Assumptions epoch_accuracy_entries.

(* ---- Evaluator ---------------------------------------------------------------------------------------------- *)
(* accuracy = (number of positions at which prediction and label agree) / (number of samples) *)
Theorem accuracy_is_fraction :
  forall yt yp, accuracy yt yp = (qnat (llen (filter (agree yt yp) (seq 0 (llen yt)))) / qnat (llen yt))%Q.
Proof. exact accuracy_fraction. Qed.
Goal True. idtac "ASSUMPTIONS accuracy_is_fraction". Abort.
Print Assumptions accuracy_is_fraction.

(* MULTI_CLASS / CATEGORICAL decode with argmax = index of the first maximal entry of a non-empty row *)
Theorem argmax_is_first_maximum :
  forall l, l <> [] ->
    (argmax l < llen l)%nat /\
    (forall j, (j < llen l)%nat -> (nth j l 0 <= nth (argmax l) l 0)%Q) /\
    (forall j, (j < argmax l)%nat -> (nth j l 0 < nth (argmax l) l 0)%Q).
Proof. exact argmax_spec. Qed.
Goal True. idtac "ASSUMPTIONS argmax_is_first_maximum". Abort.
Print Assumptions argmax_is_first_maximum.

(* BINARY decodes with the threshold 0.5 (strict) *)
Theorem binary_threshold :
  forall o rest, decode_pred Binary (o :: rest) = 1%Z <-> (1 # 2 < o)%Q.
Proof. exact decode_binary. Qed.
Goal True. idtac "ASSUMPTIONS binary_threshold". Abort.
Print Assumptions binary_threshold.

(* ---- non-vacuity ----------------------------------------------------------------------------------------------- *)
(* 2 epochs, 2 batches, validation with 1 batch, evaluator, both callbacks *)
Example fit_example :
  let c := {| nb := 2; val := Some 1%nat; has_eval := true; cb_train := true; cb_val := true |} in
  val_ok c /\
  fst (fit c 1) =
    [TrainMode; KbarInit 0; OnTrainEpochCb; TrainMode;
     Forward; Criterion; EvalStep false; ZeroGrad; Backward; Step; KbarUpdate 0;
     Forward; Criterion; EvalStep false; ZeroGrad; Backward; Step; KbarUpdate 1;
     EvalCompute false; OnValEpochCb; EvalMode; NoGradNew; NoGradEnter;
     Forward; Criterion; EvalStep true; EvalCompute true; NoGradExit; KbarAdd] /\
  countb is_step (fst (fit c 2)) = 4%nat /\
  to_ctx 0 (fst (fit c 2)) = [New KNoGrad; Enter 0; Exit 0 false; New KNoGrad; Enter 1; Exit 1 false].
Proof. cbn zeta. split; [cbn; auto|]. split; [reflexivity|]. split; reflexivity. Qed.

Example history_example :
  let Ev := {| acc_on := true; emode_of := MultiClass; ecb := None |} in
  let b1 := {| outs := [[1; 0]; [0; 1]]; labz := [0%Z; 0%Z]; labrows := [] |} in
  let b2 := {| outs := [[1; 1]; [0; 1]]; labz := [0%Z; 1%Z]; labrows := [] |} in
  let d := {| tloss := fun e i => inject_Z (Z.of_nat (e + i)); vloss := fun e i => 1;
              tbatch := fun e i => if Nat.eqb i 0 then b1 else b2; vbatch := fun e i => b1 |} in
  cb_names (Some Ev) [] /\ NoDup (all_keys (Some Ev) (Some 1%nat) []) /\ batches_defined (Some Ev) d 2 (Some 1%nat) 2 /\
  forallb (fun kv => forallb (fun p => Qeq_bool (fst p) (snd p)) (combine (snd (fst kv)) (snd kv)))
          (combine (fit_history (Some Ev) d 2 (Some 1%nat) 2)
                   [[1 # 2; 3 # 2]; [3 # 4; 3 # 4]; [1; 1]; [1 # 2; 1 # 2]]) = true /\
  map fst (fit_history (Some Ev) d 2 (Some 1%nat) 2) = ["loss"; "accuracy"; "val_loss"; "val_accuracy"]%string.
Proof.
  cbn zeta. split; [reflexivity|]. split; [|split].
  - cbn. repeat constructor; cbn; intuition discriminate.
  - intros _ e i _. split; [intros _|intros nv _ _]; cbn; destruct (Nat.eqb i 0); reflexivity.
  - split; vm_compute; reflexivity.
Qed.
