From SG Require Import State.Trainer.
