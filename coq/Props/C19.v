(* C19 — results are reproducible under manual_seed and independent of hash order.
   Only statements; the checkers are in IR/Census.v, their soundness in Proofs/CensusProofs.v, the engine result in
   Proofs/DfsProofs.v.  Each theorem is followed by Print Assumptions.

   FINITE DOMAIN of every census theorem below: "the call sites / set constructions / set uses / definitions present in the
   source", i.e. the rows of Gen/GenCensus.v, regenerated on every run by lib/py2coq/gen_census.py from the AST of EVERY .py
   file under synapgrad/ (list [files]).  The facts are decided by vm_compute over those lists and lifted to
   `forall row, In row rows -> ...` with forallb_forall.

   EXPLICIT EXCLUSION (sets and id/hash only): synapgrad/visual/* (visual/graph.py: `trace` returns two sets and `draw`
   iterates them to emit Graphviz nodes; it labels nodes by str(id(n))).  That module only produces a drawing; it is reached
   only from Tensor.draw_graph and the package's re-export (theorem visual_reached_only_from_draw_graph), never from a
   numeric path.  Its census rows are listed in work/census.json / notes/C19.md.  The exclusion does NOT apply to the
   random-source theorem, which covers the whole package.

   TRUSTED (stated, not proved): dict / OrderedDict iterate in insertion order (language definition, Python >= 3.7), so
   no dict iteration depends on hashes; np.random.seed / random.seed determine the subsequent output of the global
   generators; NumPy kernels and BLAS are deterministic functions of their inputs (single thread).                          *)
From Coq Require Import List String Bool Arith.
Import ListNotations.
Open Scope string_scope.
From SG Require Import IR.Census Gen.GenCensus Proofs.CensusProofs.
From SG Require Import Engine.Graph Engine.Dfs Proofs.DfsSet Proofs.DfsProofs.

(* ---- 1. every random draw goes through one of the two global generators -------------------------------------------------- *)
Lemma draws_ok_all : forallb draw_ok draws = true.
Proof. vm_compute. reflexivity. Qed.

(* every reference in the package to numpy.random.*, random.*, os.urandom, secrets.*, uuid.*, time.*, datetime.now (after
   resolving import aliases and lexical shadowing) is a function of NumPy's or Python's GLOBAL generator: no default_rng /
   RandomState / Generator / random.Random / SystemRandom, no OS entropy, no clock, anywhere (visual/ included). *)
Theorem random_sources_are_global_generators :
  forall d, In d draws -> d_class d <> AddressOrHash ->
    d_class d = GlobalNumpy \/ d_class d = GlobalPython.
Proof. exact (draws_global draws draws_ok_all). Qed.
Goal True. idtac "ASSUMPTIONS random_sources_are_global_generators". Abort.
Print Assumptions random_sources_are_global_generators.

(* ---- 2. manual_seed seeds exactly those two generators with its parameter ------------------------------------------------ *)
Lemma seed_body_ok_now : seed_body_ok seed_body = true.
Proof. vm_compute. reflexivity. Qed.
Lemma family_seeded_all : forallb (family_seeded seed_body) draws = true.
Proof. vm_compute. reflexivity. Qed.
Lemma reseed_ok_all : forallb reseed_ok draws = true.
Proof. vm_compute. reflexivity. Qed.

(* the body of utils.manual_seed (docstring aside) is exactly the two statements np.random.seed(<its parameter>) and
   random.seed(<its parameter>) (in either order), the parameter is never rebound, synapgrad.manual_seed is that function,
   and every generator family that appears in [draws] is seeded by it. *)
Theorem manual_seed_seeds_both :
  seed_exported = true /\
  (exists x y, seed_body = [x; y] /\ ss_arg x = ArgParam /\ ss_arg y = ArgParam /\
     ((ss_callee x = SeedNumpy /\ ss_callee y = SeedPython) \/ (ss_callee x = SeedPython /\ ss_callee y = SeedNumpy))) /\
  (forall d, In d draws ->
     (d_class d = GlobalNumpy -> exists s, In s seed_body /\ ss_callee s = SeedNumpy /\ ss_arg s = ArgParam) /\
     (d_class d = GlobalPython -> exists s, In s seed_body /\ ss_callee s = SeedPython /\ ss_arg s = ArgParam)).
Proof.
  split; [vm_compute; reflexivity|]. split.
  - exact (seed_body_ok_sound seed_body seed_body_ok_now).
  - exact (family_seeded_sound seed_body draws family_seeded_all).
Qed.
Goal True. idtac "ASSUMPTIONS manual_seed_seeds_both". Abort.
Print Assumptions manual_seed_seeds_both.

(* nothing else in the package re-seeds or overwrites the state of a global generator (np.random.seed() without argument
   would re-seed from OS entropy): seed / set_state / setstate occur only inside manual_seed. *)
Theorem reseeding_only_in_manual_seed :
  forall d, In d draws -> is_reseed d = true -> d_file d = "utils.py" /\ d_func d = "manual_seed".
Proof.
  intros d Hin. apply reseed_ok_sound. pose proof reseed_ok_all as H. rewrite forallb_forall in H. now apply H.
Qed.
Goal True. idtac "ASSUMPTIONS reseeding_only_in_manual_seed". Abort.
Print Assumptions reseeding_only_in_manual_seed.

(* ---- 3. no set is iterated or escapes on the numeric path --------------------------------------------------------------- *)
Lemma set_uses_ok_all : forallb set_use_ok set_uses = true.
Proof. vm_compute. reflexivity. Qed.

(* every use of every set / frozenset (variables bound to a set display, set(...), frozenset(...), a set comprehension, set
   algebra or the result of a same-file function returning sets; closures included; anonymous set expressions included)
   outside synapgrad/visual/ is a membership test, a mutation (add/update/discard/remove/clear) or a size/truth test.
   Size (len(s), `if s:`) is admitted besides Membership/Add because it cannot depend on element order. *)
Theorem no_set_iteration :
  forall u, In u set_uses -> is_visual (su_file u) = false ->
    su_kind u = Membership \/ su_kind u = Add \/ su_kind u = Size.
Proof. exact (set_uses_sound set_uses set_uses_ok_all). Qed.
Goal True. idtac "ASSUMPTIONS no_set_iteration". Abort.
Print Assumptions no_set_iteration.

Lemma visited_nodes_ok : var_membership_only set_uses "tensor.py" "Tensor.backward" "visited_nodes" = true.
Proof. vm_compute. reflexivity. Qed.

(* the visited set of Tensor.backward exists in the census (non-vacuity) and is used only through `in` / `.add`: this is what
   justifies modelling it by mem/add in Engine/Dfs.v and applying backward_order_independent_of_set below. *)
Theorem visited_nodes_membership_only :
  (exists u, In u set_uses /\ su_file u = "tensor.py" /\ su_owner u = "Tensor.backward" /\ su_var u = "visited_nodes") /\
  (forall u, In u set_uses -> su_file u = "tensor.py" -> su_owner u = "Tensor.backward" -> su_var u = "visited_nodes" ->
     su_kind u = Membership \/ su_kind u = Add \/ su_kind u = Size).
Proof. exact (var_membership_only_sound set_uses _ _ _ visited_nodes_ok). Qed.
Goal True. idtac "ASSUMPTIONS visited_nodes_membership_only". Abort.
Print Assumptions visited_nodes_membership_only.

(* ---- 4. object addresses / hash values never reach data or ordering ---------------------------------------------------- *)
Lemma hash_rows_ok_all : forallb (hash_row_ok set_uses) draws = true.
Proof. vm_compute. reflexivity. Qed.
Lemma sorts_ok_all : forallb sort_ok sorts = true.
Proof. vm_compute. reflexivity. Qed.

(* (i) every id( / hash( / .__hash__( outside visual/ is only the key of a membership test / .add on a local set that is
       itself membership-only (Module.parameters de-duplicates by id(p); the result order is the list order);
   (ii) no class of the package defines __hash__ or __eq__ (nor is a @dataclass): Tensor / Parameter / Module hash and
       compare by identity, and by no_set_iteration identity hashes only ever feed membership tests;
   (iii) every sorted( / .sort( call either has a key or orders NUMBERS (so_elems = ElemsNumeric: the argument is a comprehension /
       display / range whose element expression is int arithmetic or a name forced to be a number by an order comparison, e.g.
       cpu_ops.first_extremum_mask: sorted(ax + a.ndim if ax < 0 else ax for ax in axes)); a keyless sort of numbers is a
       function of the values only.  [Changed from "every sort has a key": that was stronger than needed — the point of the
       clause is that no OBJECTS are ordered — and false of a deterministic sort of ints.]  What ElemsNumeric assumes is written
       at `numeric_expr` in lib/py2coq/gen_census.py: operands are builtin Python values, NumPy scalars/arrays or package objects;
   (iv) no class of the package defines __lt__/__le__/__gt__/__ge__/__cmp__ (nor @total_ordering / dataclass(order=)), so a
       keyless sort over Tensor / Parameter / Module objects raises TypeError (Python 3 has no default order) instead of
       ordering them by anything. *)
Theorem no_address_or_hash_dependence :
  (forall d, In d draws -> d_class d = AddressOrHash -> is_visual (d_file d) = false ->
     d_use d = DedupKey /\
     (exists u, In u set_uses /\ su_file u = d_file d /\ su_owner u = d_owner d /\ su_var u = d_set d) /\
     (forall u, In u set_uses -> su_file u = d_file d -> su_owner u = d_owner d -> su_var u = d_set d ->
        su_kind u = Membership \/ su_kind u = Add \/ su_kind u = Size)) /\
  hash_defs = [] /\
  (forall s, In s sorts -> so_has_key s = true \/ so_elems s = ElemsNumeric) /\
  order_defs = [].
Proof.
  split; [exact (hash_rows_sound set_uses draws hash_rows_ok_all)|].
  split; [vm_compute; reflexivity|].
  split; [exact (sorts_sound sorts sorts_ok_all)|vm_compute; reflexivity].
Qed.
Goal True. idtac "ASSUMPTIONS no_address_or_hash_dependence". Abort.
Print Assumptions no_address_or_hash_dependence.

(* ---- 5. the engine: the backward order does not depend on the set implementation --------------------------------------- *)
(* the graph-ordering loop of Tensor.backward (Engine/Dfs.v), run with ANY implementation (VS, empty, add, memb) of the
   visited set that satisfies the two set equations, yields the same ordered_nodes, the same zero_() calls in the same
   order and the same gradient buffers as the list model — for every graph, root, initial buffers and fuel.  Hash values,
   object addresses and PYTHONHASHSEED can only change the implementation, never the mem/add behaviour. *)
Theorem backward_order_independent_of_set
  (VS : Type) (empty : VS) (add : nat -> VS -> VS) (memb : nat -> VS -> bool) :
  (forall x y s, memb x (add y s) = Nat.eqb x y || memb x s) ->
  (forall x, memb x empty = false) ->
  forall g root present0 fuel,
    gdfs VS empty add memb g root present0 fuel = dfs g root present0 fuel.
Proof. exact (dfs_set_independent VS empty add memb). Qed.
Goal True. idtac "ASSUMPTIONS backward_order_independent_of_set". Abort.
Print Assumptions backward_order_independent_of_set.

(* ---- 6. supporting facts about the exclusion and about uninitialised memory -------------------------------------------- *)
Lemma visual_imports_ok_all : forallb visual_import_ok visual_imports = true.
Proof. vm_compute. reflexivity. Qed.

(* the excluded module is imported only by the package's __init__ (re-export) and inside Tensor.draw_graph *)
Theorem visual_reached_only_from_draw_graph :
  forall s, In s visual_imports ->
    (s_file s = "__init__.py" /\ s_func s = "<module>") \/ (s_file s = "tensor.py" /\ s_func s = "Tensor.draw_graph").
Proof. exact (visual_imports_sound visual_imports visual_imports_ok_all). Qed.
Goal True. idtac "ASSUMPTIONS visual_reached_only_from_draw_graph". Abort.
Print Assumptions visual_reached_only_from_draw_graph.

Lemma uninit_ok_all : forallb uninit_ok uninits = true.
Proof. vm_compute. reflexivity. Qed.

(* uninitialised memory (np.empty / np.empty_like / np.ndarray(shape)) is allocated only by the public constructor
   synapgrad.empty, whose contract is "uninitialised"; that layers overwrite it completely is C15's subject and is
   exercised by the cross-process runs of the check. *)
Theorem uninitialised_memory_only_in_empty :
  forall s, In s uninits -> s_file s = "tensor.py" /\ s_func s = "empty".
Proof. exact (uninit_sound uninits uninit_ok_all). Qed.
Goal True. idtac "ASSUMPTIONS uninitialised_memory_only_in_empty". Abort.
Print Assumptions uninitialised_memory_only_in_empty.

Lemma empty_uses_ok_all : forallb eu_initialised empty_uses = true.
Proof. vm_compute. reflexivity. Qed.

(* every CALL of synapgrad.empty in the package (rows empty_uses; today: weight/bias of Linear, Conv1d, Conv2d, BatchNorm) is in a
   constructor, stores its result in an attribute of self, and that attribute is overwritten — by an nn.init function that
   replaces .data completely (uniform_/normal_/constant_/ones_/zeros_/xavier_*/kaiming_*: checked on nn/init.py's AST) — after
   the allocation, in the constructor or a method it calls, under guards that are all established by the allocation's own guard
   context (flag:P for a never-rebound constructor flag P / self.P, notnone:X for the attribute itself, an enclosing `if` of the
   allocation by identity).  So no uninitialised heap content survives construction, whatever the option combination.
   eu_initialised is computed by the translator and is false for whatever it cannot establish (fail-safe); the rule and its
   assumptions (no subclass outside the file overrides the reset method; attributes are not rebound reflectively) are stated at
   class EmptyAnalysis.  Together with uninitialised_memory_only_in_empty: np.empty is reached only through synapgrad.empty, and
   every internal use of synapgrad.empty is initialised. *)
Theorem empty_results_fully_initialised :
  forall r, In r empty_uses -> eu_initialised r = true.
Proof. exact (empty_uses_sound empty_uses empty_uses_ok_all). Qed.
Goal True. idtac "ASSUMPTIONS empty_results_fully_initialised". Abort.
Print Assumptions empty_results_fully_initialised.

(* ---- non-vacuity ------------------------------------------------------------------------------------------------------------ *)
(* the census is not empty and contains the sites the property names *)
Example census_names_the_sites :
  has_draw draws "tensor.py" "rand" "rand" = true /\
  has_draw draws "tensor.py" "randn" "randn" = true /\
  has_draw draws "tensor.py" "normal" "normal" = true /\
  has_draw draws "tensor.py" "randint" "randint" = true /\
  has_draw draws "nn/init.py" "uniform_" "uniform" = true /\
  has_draw draws "nn/init.py" "normal_" "normal" = true /\
  has_draw draws "nn/layers.py" "Dropout.forward" "rand" = true /\
  has_draw draws "nn/utils/data.py" "split_dataset.get_split_indices" "shuffle" = true /\
  has_draw draws "utils.py" "manual_seed" "seed" = true /\
  has_draw draws "nn/modules.py" "Module.parameters" "id" = true.
Proof. vm_compute. repeat split. Qed.

Example census_covers_all_modules :
  forallb (fun f => existsb (str_eqb f) files)
    ["tensor.py"; "utils.py"; "functional.py"; "cpu_ops.py"; "conv_tools.py"; "device.py"; "nn/init.py"; "nn/layers.py";
     "nn/losses.py"; "nn/activations.py"; "nn/modules.py"; "nn/functional.py"; "nn/utils/data.py"; "nn/utils/train.py";
     "optim/optimizers.py"; "visual/graph.py"] = true.
Proof. vm_compute. reflexivity. Qed.

(* the empty-use rows exist (the allocation of Linear's weight is one of them) *)
Example census_empty_rows :
  existsb (fun r => str_eqb (eu_file r) "nn/layers.py" && str_eqb (eu_func r) "Linear.__init__" && str_eqb (eu_attr r) "weight"
                    && eu_initialised r) empty_uses = true.
Proof. vm_compute. reflexivity. Qed.

(* the set rows exist: the two sets of the numeric path *)
Example census_set_rows :
  existsb (fun n => str_eqb (sn_file n) "tensor.py" && str_eqb (sn_var n) "visited_nodes") set_news = true /\
  existsb (fun n => str_eqb (sn_file n) "nn/modules.py" && str_eqb (sn_var n) "seen") set_news = true /\
  var_membership_only set_uses "nn/modules.py" "Module.parameters" "seen" = true.
Proof. vm_compute. repeat split. Qed.

(* the set specification of theorem 5 is satisfiable by implementations with different internal orders *)
Example set_spec_instances :
  gdfs (nat -> bool) fs_empty fs_add fs_memb g_multi 6 [] (dfs_fuel g_multi) = dfs g_multi 6 [] (dfs_fuel g_multi) /\
  gdfs (list nat) [] sl_add mem g_multi 6 [] (dfs_fuel g_multi) = dfs g_multi 6 [] (dfs_fuel g_multi).
Proof.
  split.
  - exact (backward_order_independent_of_set _ fs_empty fs_add fs_memb fs_memb_add fs_memb_empty _ _ _ _).
  - exact (backward_order_independent_of_set _ [] sl_add mem sl_memb_add (fun _ => eq_refl) _ _ _ _).
Qed.
