(* C06 (vector part) -- FORWARD values of softmax / log_softmax / nll / cross-entropy / batch-norm and of the loss
   reductions, stated on the definitions GENERATED from cpu_ops.py, nn/functional.py and nn/losses.py
   (Gen/GenVecKernels.v), for every length n >= 1 and every real input.  A fibre is a vector x : nat -> R of length n
   (the 1-D section along `dim`; one row of the (N, C) logits with its label; one channel of the batch-norm input).
   These are the defining formulas of the PyTorch operations the library references; "to rounding" and the agreement of
   the shapes are judged on the implementation by the oracle of checks/kernels_vector.py (torch, both dtypes).       *)
From Coq Require Import Reals Arith.
From SG Require Import Analysis.Vector Gen.GenVecKernels Proofs.VecKernelProofs Proofs.VecKernelProofsLossFwd
  Proofs.VecKernelProofsForward Proofs.VecKernelProofsBNFwd Proofs.VecKernelProofsBNStats.
Open Scope R_scope.

Theorem softmax_value : forall n x j, (1 <= n)%nat ->
  softmax_out n x j = exp (x j) / vsum n (fun k => exp (x k)).
Proof. exact softmax_value_proof. Qed.
Goal True. idtac "ASSUMPTIONS softmax_value". Abort.
Print Assumptions softmax_value.

Theorem softmax_sums_to_one : forall n x, (1 <= n)%nat -> vsum n (softmax_out n x) = 1.
Proof. exact softmax_sums_to_one_proof. Qed.
Goal True. idtac "ASSUMPTIONS softmax_sums_to_one". Abort.
Print Assumptions softmax_sums_to_one.

Theorem softmax_unit_interval : forall n x j, (1 <= n)%nat -> (j < n)%nat -> 0 < softmax_out n x j <= 1.
Proof. exact softmax_unit_interval_proof. Qed.
Goal True. idtac "ASSUMPTIONS softmax_unit_interval". Abort.
Print Assumptions softmax_unit_interval.

Theorem log_softmax_value : forall n x j, (1 <= n)%nat ->
  log_softmax_out n x j = x j - ln (vsum n (fun k => exp (x k))).
Proof. exact log_softmax_value_proof. Qed.
Goal True. idtac "ASSUMPTIONS log_softmax_value". Abort.
Print Assumptions log_softmax_value.

Theorem nll_value : forall n x y, nll_loss_out n x y = - x y.
Proof. exact nll_value_proof. Qed.
Goal True. idtac "ASSUMPTIONS nll_value". Abort.
Print Assumptions nll_value.

Theorem cross_entropy_value : forall n x y, (1 <= n)%nat ->
  cross_entropy_out n x y = ln (vsum n (fun k => exp (x k))) - x y.
Proof. exact cross_entropy_value_proof. Qed.
Goal True. idtac "ASSUMPTIONS cross_entropy_value". Abort.
Print Assumptions cross_entropy_value.

(* Loss.__call__ (nn/losses.py): per-row value, then 'sum' | 'mean' | anything else (= none) over the `rows` rows of the batch;
   NLLLoss.forward = F.nll_loss, CrossEntropyLoss.forward = F.cross_entropy (x r = logits of row r, y r = its label) *)
Theorem nll_reductions : forall rows n (x : nat -> vec) (y : nat -> nat),
  loss_reduce_sum rows (NLLLoss_rows n x y) = vsum rows (fun r => - x r (y r)) /\
  loss_reduce_mean rows (NLLLoss_rows n x y) = vsum rows (fun r => - x r (y r)) / INR rows /\
  (forall r, loss_reduce_none rows (NLLLoss_rows n x y) r = - x r (y r)).
Proof. exact nll_reductions_proof. Qed.
Goal True. idtac "ASSUMPTIONS nll_reductions". Abort.
Print Assumptions nll_reductions.

Theorem cross_entropy_reductions : forall rows n (x : nat -> vec) (y : nat -> nat), (1 <= n)%nat ->
  let ce := fun r => ln (vsum n (fun k => exp (x r k))) - x r (y r) in
  loss_reduce_sum rows (CrossEntropyLoss_rows n x y) = vsum rows ce /\
  loss_reduce_mean rows (CrossEntropyLoss_rows n x y) = vsum rows ce / INR rows /\
  (forall r, loss_reduce_none rows (CrossEntropyLoss_rows n x y) r = ce r).
Proof. exact cross_entropy_reductions_proof. Qed.
Goal True. idtac "ASSUMPTIONS cross_entropy_reductions". Abort.
Print Assumptions cross_entropy_reductions.

(* batch-norm on one channel; gam None = 1, obeta None = 0 (not affine).
   batch statistics: training, or no running statistics at all -- mean and BIASED variance of the fibre *)
Theorem bn_train_value : forall n x weight bias rm rv training momentum eps j, batch_mode training rm rv ->
  batch_norm_out n x weight bias rm rv training momentum eps j
  = gam weight * ((x j - vmean n x) / sqrt (vvar n x + eps)) + obeta bias.
Proof. exact bn_train_value_proof. Qed.
Goal True. idtac "ASSUMPTIONS bn_train_value". Abort.
Print Assumptions bn_train_value.

(* eval mode with running statistics (m, v) *)
Theorem bn_eval_value : forall n x weight bias m v momentum eps j,
  batch_norm_out n x weight bias (Some m) (Some v) false momentum eps j
  = gam weight * ((x j - m) / sqrt (v + eps)) + obeta bias.
Proof. exact bn_eval_value_proof. Qed.
Goal True. idtac "ASSUMPTIONS bn_eval_value". Abort.
Print Assumptions bn_eval_value.

(* the normalised training output (before the affine step) has mean 0 and biased variance var/(var+eps) *)
Theorem bn_normalised_mean : forall n x eps, (1 <= n)%nat -> vmean n (xhat n x eps) = 0.
Proof. exact xhat_mean_proof. Qed.
Goal True. idtac "ASSUMPTIONS bn_normalised_mean". Abort.
Print Assumptions bn_normalised_mean.

Theorem bn_normalised_var : forall n x eps, (1 <= n)%nat -> 0 < eps ->
  vvar n (xhat n x eps) = vvar n x / (vvar n x + eps).
Proof. exact xhat_var_proof. Qed.
Goal True. idtac "ASSUMPTIONS bn_normalised_var". Abort.
Print Assumptions bn_normalised_var.

Theorem bn_xhat_is_plain_output : forall n x rm rv training momentum eps j, batch_mode training rm rv ->
  batch_norm_out n x None None rm rv training momentum eps j = xhat n x eps j.
Proof. intros. rewrite bn_out_batch by assumption. reflexivity. Qed.
Goal True. idtac "ASSUMPTIONS bn_xhat_is_plain_output". Abort.
Print Assumptions bn_xhat_is_plain_output.

(* the running update uses the UNBIASED variance var*n/(n-1) (same statement as Props/C13_vector.v) *)
Theorem bn_running_update_unbiased : forall n x weight bias (m v : R) momentum eps,
  (let '(_, rm', rv', mean, var) := batch_norm_forward n x weight bias (Some m) (Some v) true momentum eps in
   rm' = Some (vmean n x * momentum + m * (1 - momentum)) /\
   rv' = Some (vvar n x * (INR n / (INR n - 1)) * momentum + v * (1 - momentum)) /\
   mean = vmean n x /\ var = vvar n x) /\
  (let '(_, rm', rv', mean, var) := batch_norm_forward n x weight bias (Some m) (Some v) false momentum eps in
   rm' = Some m /\ rv' = Some v /\ mean = m /\ var = v).
Proof. exact bn_running_stats_update_proof. Qed.
Goal True. idtac "ASSUMPTIONS bn_running_update_unbiased". Abort.
Print Assumptions bn_running_update_unbiased.

(* non-vacuity *)
Example softmax_two_equal : softmax_out 2 (fun _ => 0) 0%nat = 1 / 2.
Proof. exact softmax_example_proof. Qed.
