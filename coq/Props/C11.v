(* C11 — forward and backward never modify operands, targets or the caller's gradient.
   Only statements; the soundness proof of the analysis lives in Proofs/EffectsProofs.v, the IR of every function
   is GENERATED from the source (Gen/GenEffects.v), so the finite facts below are re-proved whenever the code changes.
   Finite domain of the `forallb`/vm_compute facts = "the functions present in cpu_ops.py, conv_tools.py,
   functional.py, nn/functional.py, the listed methods of tensor.py and Dropout.forward".                        *)
From Coq Require Import List Bool Arith ZArith String.
Import ListNotations.
From SG Require Import IR.Effects Proofs.EffectsProofs Gen.GenEffects Proofs.C11Proofs.
Open Scope string_scope.

(* ---- the general theorem (all programs, all heaps, overlapping arguments, all control-flow paths) ---------- *)
Theorem analysis_sound :
  forall p, ok_prog p = true ->
  forall o fuel fi fd argl h h' ret,
    nth_error p fi = Some fd -> List.length argl <= f_nparams fd ->
    run o p fuel fd argl h = Some (h', ret) ->
    (forall l, l < next h -> (forall pi, In pi (f_writable fd) -> ~ In l (nth pi argl [])) -> cont h' l = cont h l)
    /\ (forall l, In l ret -> next h <= l \/ exists pi, In pi (sget (summaries p) fi) /\ In l (nth pi argl []))
    /\ next h <= next h'.
Proof. exact analysis_sound_pf. Qed.
Goal True. idtac "ASSUMPTIONS analysis_sound". Abort.
Print Assumptions analysis_sound.

(* every kernel of cpu_ops.py / conv_tools.py: for all heaps and (overlapping) arguments, on every control-flow
   path, the bytes of every storage that existed before the call — in particular of every input — are unchanged *)
Theorem kernels_pure :
  forall fi fd, nth_error program fi = Some fd -> named kernel_names fd = true ->
  forall o fuel argl h h' ret, List.length argl <= f_nparams fd ->
    run o program fuel fd argl h = Some (h', ret) ->
    forall l, l < next h -> cont h' l = cont h l.
Proof. exact kernels_pure_pf. Qed.
Goal True. idtac "ASSUMPTIONS kernels_pure". Abort.
Print Assumptions kernels_pure.

(* the same for the forward part of every op wrapper (functional.py, nn/functional.py), the tensor initialisers,
   Dropout.forward, detach, clone and zero_ *)
Theorem forward_wrappers_pure :
  forall fi fd, nth_error program fi = Some fd ->
    named (wrapper_names ++ initialiser_names ++ layer_names ++ ["tensor.Tensor.detach"; "tensor.Tensor.clone"; "tensor.Tensor.zero_"]) fd = true ->
  forall o fuel argl h h' ret, List.length argl <= f_nparams fd ->
    run o program fuel fd argl h = Some (h', ret) ->
    forall l, l < next h -> cont h' l = cont h l.
Proof. exact forward_wrappers_pure_pf. Qed.
Goal True. idtac "ASSUMPTIONS forward_wrappers_pure". Abort.
Print Assumptions forward_wrappers_pure.

(* every backward closure of functional.py / nn/functional.py: the only pre-existing storages whose bytes may change are
   those bound to its writable parameters, and these are `<child>._grad` buffers of the wrapper's children only
   (never a `.data`, never the result's own buffer, never the saved forward data) *)
Theorem closures_write_only_grad_buffers :
  forall fi fd, nth_error program fi = Some fd -> named closure_names fd = true ->
  (exists ws, In (f_name fd, ws) writable_names /\ forall w, In w ws -> ends_with w "._grad" = true) /\
  forall o fuel argl h h' ret, List.length argl <= f_nparams fd ->
    run o program fuel fd argl h = Some (h', ret) ->
    forall l, l < next h -> (forall pi, In pi (f_writable fd) -> ~ In l (nth pi argl [])) -> cont h' l = cont h l.
Proof. exact closures_write_only_grad_buffers_pf. Qed.
Goal True. idtac "ASSUMPTIONS closures_write_only_grad_buffers". Abort.
Print Assumptions closures_write_only_grad_buffers.

(* Tensor.backward: the caller's gradient is never aliased or written.  The only writable parameter of backward is
   `self._grad` (the gradient buffers that already exist in the graph: leaves accumulate across calls); the seed is
   ADDED into the root's own buffer, freshly created by zero_() or already owned by the graph, so every other
   pre-existing storage — the data of every tensor and the caller's gradient array — keeps its bytes. *)
Theorem seed_not_aliased :
  exists fi fd g,
    find_fun program "tensor.Tensor.backward" = Some (fi, fd) /\
    f_writable fd = [g] /\ nth_error backward_layout g = Some "self._grad" /\
    ret_owned program "tensor.Tensor.zero_" = true /\
    forall o fuel argl h h' ret, List.length argl <= f_nparams fd ->
      run o program fuel fd argl h = Some (h', ret) ->
      forall l, l < next h -> ~ In l (nth g argl []) -> cont h' l = cont h l.
Proof. exact seed_not_aliased_pf. Qed.
Goal True. idtac "ASSUMPTIONS seed_not_aliased". Abort.
Print Assumptions seed_not_aliased.

(* clone() and detach() return storage independent of their source: the result is summarised Owned, hence
   (soundness) every storage of the result is allocated by the call itself *)
Theorem clone_detach_fresh :
  forall name, In name ["tensor.Tensor.clone"; "tensor.Tensor.detach"; "functional.clone"; "cpu_ops.clone_forward"] ->
  exists fi fd, find_fun program name = Some (fi, fd) /\
    forall o fuel argl h h' ret, List.length argl <= f_nparams fd ->
      run o program fuel fd argl h = Some (h', ret) ->
      forall l, In l ret -> next h <= l.
Proof. exact clone_detach_fresh_pf. Qed.
Goal True. idtac "ASSUMPTIONS clone_detach_fresh". Abort.
Print Assumptions clone_detach_fresh.

(* the statements of the whole package that assign / update in place tensor data or gradient buffers are exactly the
   documented ones: optimizer steps, nn.init.*_, batch-norm running statistics, zero_/zero_grad, the grad setter,
   gradient accumulation (backward and the closures), and the constructor *)
Theorem documented_mutators :
  (forall r, In r mutator_census -> exists c, row_category r = Some c) /\
  documented_all_present mutator_census = true.
Proof. exact documented_mutators_pf. Qed.
Goal True. idtac "ASSUMPTIONS documented_mutators". Abort.
Print Assumptions documented_mutators.

(* tensors outside the differentiated graph: backward reaches other tensors only through `_children` (the IR of
   Tensor.backward: every node variable flows from `self` through `._children`), and the constructor stores children
   only for results that require grad (generated flag, from the AST of Tensor.__init__).  Hence the walk stops at every
   constant computed under no_grad() or from non-requiring operands: the leaves and retained intermediates behind such
   a constant are never zeroed, never written (their `.grad` stays None / keeps its bytes).  (That wrappers pass
   exactly their operands as children is Props/Wrappers.v.) *)
Theorem backward_confined_to_tracked_graph : untracked_results_keep_no_children = true.
Proof. exact backward_confined_to_tracked_graph_pf. Qed.
Goal True. idtac "ASSUMPTIONS backward_confined_to_tracked_graph". Abort.
Print Assumptions backward_confined_to_tracked_graph.

(* flags changed between forward and backward (freeze(), manual flips): a tensor that does not require grad WHEN BACKWARD RUNS
   is outside the graph being differentiated and is not written: every accumulation of every backward closure is guarded by
   exactly `<its own target>.requires_grad`, evaluated inside the closure (generated from the AST: a flag captured at forward
   time, e.g. `x_req = x.requires_grad` used as the guard, makes the row false); every closure has such a row; and
   Tensor.backward creates / re-zeroes a child's buffer only under `child.requires_grad and ...` and refuses a root that does
   not require grad (generated flags). *)
Theorem frozen_tensors_not_written :
  (forall q b, In (q, b) closure_guards_live -> b = true) /\
  (forall fd, In fd program -> named closure_names fd = true -> In (f_name fd, true) closure_guards_live) /\
  walk_zeroes_only_requiring = true.
Proof. exact frozen_tensors_not_written_pf. Qed.
Goal True. idtac "ASSUMPTIONS frozen_tensors_not_written". Abort.
Print Assumptions frozen_tensors_not_written.

(* ---- non-vacuity ------------------------------------------------------------------------------------------ *)
Example program_covers_named_kernels :
  forallb (fun n => match find_fun program n with Some _ => true | None => false end)
    ["cpu_ops.conv1d_forward"; "cpu_ops.conv2d_forward"; "cpu_ops.batch_norm_forward"; "cpu_ops.cross_entropy_loss_backward";
     "cpu_ops.max_backward"; "cpu_ops.slice_backward"; "conv_tools.place_windows"; "conv_tools.extract_windows";
     "conv_tools.col2im"; "conv_tools.im2col_v2"; "functional.add/backward"; "nn.functional.batch_norm/backward";
     "tensor.Tensor.backward"; "nn.layers.Dropout.forward"] = true.
Proof. vm_compute. reflexivity. Qed.

(* the semantics really runs and really writes: a two-statement function that writes its parameter is rejected by
   the analysis, and there is a run in which the input's contents change *)
Definition bad_prog : prog := [mkFun "bad" 1 [] [Bind 1 (Alias 0); Write 1; Return 1]].
Example bad_rejected : ok_prog bad_prog = false.
Proof. vm_compute. reflexivity. Qed.
Example bad_really_writes :
  let o := mkOracle (fun t => t) (fun _ _ => 7%Z) in
  let h := mkHeap 1 0 (fun _ => 0%Z) in
  match run o bad_prog 5 (mkFun "bad" 1 [] [Bind 1 (Alias 0); Write 1; Return 1]) [[0]] h with
  | Some (h', ret) => cont h' 0 = 7%Z /\ ret = [0]
  | None => False
  end.
Proof. vm_compute. split; reflexivity. Qed.

(* a kernel with an in-place update on a fresh intermediate runs to completion and leaves the input alone *)
Example good_runs :
  let p := [mkFun "good" 1 [] [Bind 1 Fresh; Write 1; Bind 2 (ViewOf 1); Return 2]] in
  let o := mkOracle (fun t => t) (fun _ _ => 7%Z) in
  let h := mkHeap 1 0 (fun _ => 0%Z) in
  ok_prog p = true /\
  match run o p 6 (mkFun "good" 1 [] [Bind 1 Fresh; Write 1; Bind 2 (ViewOf 1); Return 2]) [[0]] h with
  | Some (h', ret) => cont h' 0 = 0%Z /\ cont h' 1 = 7%Z /\ ret = [1]
  | None => False
  end.
Proof. vm_compute. split; [reflexivity|]. split; [reflexivity|split; reflexivity]. Qed.
