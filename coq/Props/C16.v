(* C16 — im2col/col2im variants agree and col2im is the exact adjoint of im2col.
   Only statements; the models are NumPy/Window.v + NumPy/Im2col.v (the index map of every function of
   conv_tools.py as the code computes it), the proofs Proofs/WindowProofs.v + Proofs/Im2colProofs.v.

   [valid g]: N, C, H, W >= 0; kernel, stride, dilation > 0; padding >= 0; at least one window per axis
   (lH g >= 1, lW g >= 1 for the output sizes the code computes).  All theorems are for every such geometry.
   v ranges over the three implementations VIdx (im2col/col2im), VLoop (im2col_v2/col2im_v2),
   VFast (im2col_fast/col2im_fast).  Layouts: "unf" = (N, C*kH*kW, L) indexed (n,r,l); "2d" = (C*kH*kW, N*L)
   indexed (r,q) with q = l*N + n.                                                                       *)
From Coq Require Import List ZArith Bool Lia.
Import ListNotations.
From SG Require Import Base.Sums NumPy.Gather NumPy.Window NumPy.Im2col Proofs.WindowProofs Proofs.Im2colProofs.
Open Scope Z_scope.

(* The output size: the rational-floor formulation (get_conv*_output_size, *_v2), the integer formulation on the
   padded length (extract_windows) and the closed form agree; window l exists iff it fits; every position a window
   reads lies inside the padded axis. *)
Theorem out_size_formula :
  forall L k s p d, 0 < s ->
    out_size_float L k s p d = (L + 2 * p - d * (k - 1) - 1) / s + 1 /\
    out_size_view (L + 2 * p) k s d = out_size_float L k s p d /\
    (forall l, l < out_size_float L k s p d <-> l * s + (k - 1) * d + 1 <= L + 2 * p) /\
    (0 < d -> forall l j, 0 <= l < out_size_float L k s p d -> 0 <= j < k -> 0 <= l * s + j * d < L + 2 * p).
Proof.
  intros L k s p d Hs. rewrite (out_size_float_eq L k s p d Hs). split; [reflexivity|]. split; [apply out_size_view_eq|].
  split. intros l; now apply fits_iff. intros Hd l j Hl Hj. now apply (wpos_range L k s p d l j).
Qed.
Goal True. idtac "ASSUMPTIONS out_size_formula". Abort.
Print Assumptions out_size_formula.

(* The three im2col implementations compute the same index map, pointwise on the whole result, in both layouts:
   entry (n,r,l) reads channel r/(kH*kW), padded row ((r/kW) mod kH)*dH + sH*(l/lW), padded column
   (r mod kW)*dW + sW*(l mod lW)  (phi); column q of the 2-D layout is l*N + n. *)
Theorem im2col_variants_agree :
  forall g, valid g ->
    (forall v n r l, 0 <= n < gN g -> 0 <= r < nR g -> 0 <= l < nL g ->
       im2col_unf v g (n, r, l) = phi g (n, r, l)) /\
    (forall v r q, 0 <= r < nR g -> 0 <= q < gN g * nL g ->
       im2col_2d v g (r, q) = phi g (q mod gN g, r, q / gN g)).
Proof.
  intros g Hv. split.
  - intros; now apply im2col_unf_closed.
  - intros v r q Hr Hq. now rewrite im2col_2d_closed.
Qed.
Goal True. idtac "ASSUMPTIONS im2col_variants_agree". Abort.
Print Assumptions im2col_variants_agree.

(* The three col2im implementations add each entry of their argument into the same pixel: over any commutative
   semiring their result is the scatter of phi (sum over { j | phi j = Some i } of y j), in both layouts ... *)
Theorem col2im_variants_agree :
  forall (A : Type) (SA : Scalar A) (LA : ScalarLaws A) g, valid g ->
    (forall v (y : Z * Z * Z -> A) i,
       col2im_apply (col2im_unf v g) y i = scatter pos (Z * Z * Z) pos_eqb (Junf g) (phi_opt g) y i) /\
    (forall v (y : Z * Z -> A) i,
       col2im_apply (col2im_2d v g) y i = scatter pos (Z * Z) pos_eqb (J2d g) (phi2d_opt g) y i).
Proof.
  intros A SA LA g Hv. split; intros.
  - now apply col2im_unf_scatter.
  - now apply col2im_2d_scatter.
Qed.
Goal True. idtac "ASSUMPTIONS col2im_variants_agree". Abort.
Print Assumptions col2im_variants_agree.

(* ... in particular (over Z, one-hot argument): entry j0 is added exactly once, to pixel phi j0, or dropped when
   phi j0 is a padding position. *)
Theorem col2im_each_entry_once :
  forall g v j0 i, valid g -> In j0 (Junf g) ->
    col2im_apply (col2im_unf v g) (fun j => if j3_eqb j0 j then 1 else 0) i =
    match phi_opt g j0 with Some i' => if pos_eqb i' i then 1 else 0 | None => 0 end.
Proof. intros; now apply col2im_one_hot. Qed.
Goal True. idtac "ASSUMPTIONS col2im_each_entry_once". Abort.
Print Assumptions col2im_each_entry_once.

(* extract_windows is the same gather in window coordinates (shape (lH, lW, N, C, kH, kW), element
   [wi,wj,n,c,a,b] = padded[n, c, wi*sH + a*dH, wj*sW + b*dW] derived from the strides the code computes), and
   place_windows is the same scatter. *)
Theorem windows_agree_with_im2col :
  forall g, valid g ->
    (oH g = lH g /\ oW g = lW g) /\
    (forall v wi wj n c a b,
       0 <= wi < lH g -> 0 <= wj < lW g -> 0 <= n < gN g -> 0 <= c < gC g -> 0 <= a < kH g -> 0 <= b < kW g ->
       ew g wi wj n c a b = pad_lookup g (n, c, wi * sH g + a * dH g, wj * sW g + b * dW g) /\
       ew g wi wj n c a b = im2col_unf v g (n, (c * kH g + a) * kW g + b, wi * lW g + wj)) /\
    (forall (A : Type) (SA : Scalar A) (LA : ScalarLaws A) v (y : Z * Z * Z -> A) i,
       col2im_apply (pw_contribs g) (fun w => y (jwin g w)) i = col2im_apply (col2im_unf v g) y i).
Proof.
  intros g Hv. split; [split; [now apply oH_eq | now apply oW_eq]|]. split.
  - intros v wi wj n c a b Hwi Hwj Hn Hc Ha Hb. rewrite ew_closed by auto. split. reflexivity.
    rewrite im2col_unf_closed; auto.
    + rewrite phi_of_win by (auto; lia). reflexivity.
    + pose proof (mul_lt_bound c (kH g) a (gC g) Hc Ha) as B1.
      pose proof (mul_lt_bound _ (kW g) b _ B1 Hb) as B2. unfold nR. lia.
    + pose proof (mul_lt_bound wi (lW g) wj (lH g) Hwi Hwj). unfold nL. lia.
  - intros A SA LA v y i. rewrite place_windows_scatter by auto. now rewrite col2im_unf_scatter.
Qed.
Goal True. idtac "ASSUMPTIONS windows_agree_with_im2col". Abort.
Print Assumptions windows_agree_with_im2col.

(* col2im is the transpose of im2col: <im2col x, y> = <x, col2im y> for all x and y over any commutative semiring,
   for every pairing of an im2col variant with a col2im variant, in both layouts (pad value 0). *)
Theorem col2im_adjoint_im2col :
  forall (A : Type) (SA : Scalar A) (LA : ScalarLaws A) g, valid g ->
    (forall v v' (x : pos -> A) (y : Z * Z * Z -> A),
       dot (Junf g) y (im2col_apply (im2col_unf v g) s0 x) = dot (Ipos g) (col2im_apply (col2im_unf v' g) y) x) /\
    (forall v v' (x : pos -> A) (y : Z * Z -> A),
       dot (J2d g) y (im2col_apply (im2col_2d v g) s0 x) = dot (Ipos g) (col2im_apply (col2im_2d v' g) y) x).
Proof.
  intros A SA LA g Hv. split; intros.
  - now apply adjoint_unf.
  - now apply adjoint_2d.
Qed.
Goal True. idtac "ASSUMPTIONS col2im_adjoint_im2col". Abort.
Print Assumptions col2im_adjoint_im2col.

(* fold(unfold x) i = x i added up (number of (window, kernel offset) pairs reading pixel i) times *)
Theorem fold_unfold_multiplicity :
  forall (A : Type) (SA : Scalar A) (LA : ScalarLaws A) g, valid g ->
    (forall v v' (x : pos -> A) i,
       col2im_apply (col2im_unf v' g) (im2col_apply (im2col_unf v g) s0 x) i = nsmul (cover g i) (x i)) /\
    (forall v v' (x : pos -> A) i,
       col2im_apply (col2im_2d v' g) (im2col_apply (im2col_2d v g) s0 x) i = nsmul (cover g i) (x i)).
Proof.
  intros A SA LA g Hv. split; intros.
  - now apply fold_unfold_unf.
  - now apply fold_unfold_2d.
Qed.
Goal True. idtac "ASSUMPTIONS fold_unfold_multiplicity". Abort.
Print Assumptions fold_unfold_multiplicity.

(* the pad value appears exactly at the entries whose padded coordinates leave the image rectangle (phi = None);
   everywhere else the entry is the named pixel — never an unwritten zero, never an out-of-bounds read; for any pad
   value pv and data x the result entry is pv resp. x(pixel). *)
Theorem pad_value_exactly_at_none :
  forall g v n r l, valid g -> 0 <= n < gN g -> 0 <= r < nR g -> 0 <= l < nL g ->
    (let '(_, c, hp, wp) := phi_pad g (n, r, l) in
     (im2col_unf v g (n, r, l) = PadV <-> ~ (pH g <= hp < pH g + gH g /\ pW g <= wp < pW g + gW g)) /\
     (im2col_unf v g (n, r, l) <> PadV -> im2col_unf v g (n, r, l) = At (n, c, hp - pH g, wp - pW g))) /\
    (forall (A : Type) (SA : Scalar A) (LA : ScalarLaws A) (pv : A) (x : pos -> A),
       im2col_apply (im2col_unf v g) pv x (n, r, l) = match phi_opt g (n, r, l) with Some q => x q | None => pv end).
Proof.
  intros g v n r l Hv Hn Hr Hl. split. now apply pad_exact. intros. now apply im2col_apply_unf.
Qed.
Goal True. idtac "ASSUMPTIONS pad_value_exactly_at_none". Abort.
Print Assumptions pad_value_exactly_at_none.

(* ---- window-geometry side facts used by C06 (pooling) ------------------------------------------------- *)
(* every pooling window contains a position of the un-padded input when p <= (k-1)*d (implied by PyTorch's
   requirement 2p <= k) and the dilation does not exceed the input length ... *)
Theorem maxpool_padding_never_wins :
  forall L k s p d l, 0 < s -> 0 < d -> 0 < k -> 0 <= p ->
    d <= L -> p <= (k - 1) * d -> 0 <= l < out_size_float L k s p d ->
    exists j, 0 <= j < k /\ is_real L p (l * s + j * d) = true.
Proof.
  intros L k s p d l Hs Hd Hk Hp HdL Hpk Hl. rewrite out_size_float_eq in Hl by auto.
  now apply (window_has_real L k s p d l).
Qed.
Goal True. idtac "ASSUMPTIONS maxpool_padding_never_wins". Abort.
Print Assumptions maxpool_padding_never_wins.

(* ... and both hypotheses are needed: more padding than the dilated span makes window 0 pure padding, and with
   d > L even 2p <= k does not help (L=1, k=2, s=1, p=1, d=2: one window, reading padded positions {0,2}). *)
Theorem maxpool_padding_can_win :
  (forall L k s p d j, 0 < d -> (k - 1) * d < p -> 0 <= j < k -> is_real L p (0 * s + j * d) = false) /\
  (out_size_float 1 2 1 1 2 = 1 /\ 2 * 1 <= 2 /\ forall j, 0 <= j < 2 -> is_real 1 1 (0 * 1 + j * 2) = false).
Proof.
  split. intros; now apply (first_window_all_padding L k s p d j).
  split. reflexivity. split. lia. intros j Hj. assert (j = 0 \/ j = 1) as [-> | ->] by lia; reflexivity.
Qed.
Goal True. idtac "ASSUMPTIONS maxpool_padding_can_win". Abort.
Print Assumptions maxpool_padding_can_win.

(* the fibre an average pool divides by always has kH*kW entries, padded ones included *)
Theorem avgpool_counts_padding :
  forall g wi wj n c, valid g ->
    zlen (fibre2 g wi wj n c) = kH g * kW g /\
    (0 <= wi < lH g -> 0 <= wj < lW g -> 0 <= n < gN g -> 0 <= c < gC g ->
     forall t, 0 <= t < kH g * kW g ->
       znth_error (fibre2 g wi wj n c) t =
       Some (pad_lookup g (n, c, wi * sH g + (t / kW g) * dH g, wj * sW g + (t mod kW g) * dW g))).
Proof.
  intros g wi wj n c Hv. split. now apply fibre2_length. intros. now apply fibre2_nth.
Qed.
Goal True. idtac "ASSUMPTIONS avgpool_counts_padding". Abort.
Print Assumptions avgpool_counts_padding.

(* ---- non-vacuity: a non-square geometry with padding, dilation, stride > kernel on one axis -------------- *)
Definition g_ex : geom :=
  {| gN := 2; gC := 2; gH := 4; gW := 5; kH := 2; kW := 3; sH := 3; sW := 1; pH := 1; pW := 0; dH := 1; dW := 2 |}.
Example g_ex_valid : valid g_ex.
Proof. unfold valid. cbn. repeat split; try lia; vm_compute; discriminate. Qed.
Example g_ex_tables :
  (lH g_ex, lW g_ex) = (2, 1) /\
  table_unf VIdx g_ex = table_unf VLoop g_ex /\ table_unf VIdx g_ex = table_unf VFast g_ex /\
  table_2d VIdx g_ex = table_2d VFast g_ex /\
  firstn 8 (table_unf VIdx g_ex) = [-1; 11; -1; 13; -1; 15; 1; 16] /\
  cover g_ex (0, 0, 0, 0) = 1%nat /\ cover g_ex (0, 0, 1, 2) = 0%nat /\ cover g_ex (0, 0, 3, 2) = 1%nat /\
  cover {| gN := 1; gC := 1; gH := 3; gW := 3; kH := 2; kW := 2; sH := 1; sW := 1; pH := 0; pW := 0; dH := 1; dW := 1 |} (0, 0, 1, 1) = 4%nat.
Proof. vm_compute. repeat split. Qed.
