(* C03 — gradients of arbitrary op compositions obey the chain rule on any DAG.
   Only statements; proofs live in Proofs/{SweepProofs,DfsProofs,EngineCompose}.v.

   Model: Engine/Graph.v (recorded graph), Engine/Dfs.v (ordering loop), Engine/Sweep.v (seed, reverse sweep,
   closures `if x.requires_grad: x._grad += local_derivative * out.grad`, release rule).  Gradient values [V A]
   and local derivatives [W A] are abstract: any commutative monoid of values on which every local derivative
   acts additively ([galg_ok]).  Spec side: [pathval g w r v s] = the sum, over the explicit enumeration
   [all_paths g r v] of all paths from r to v whose edges leave nodes that have a backward function and enter
   tensors that require grad, of the seed pushed through the local derivatives along the path. *)
From Coq Require Import List Bool Arith ZArith Permutation.
Import ListNotations.
From SG Require Import Engine.Graph Engine.Dfs Engine.Sweep Engine.History.
From SG Require Import Proofs.SweepProofs Proofs.HistoryProofs Proofs.EngineCompose.

(* The enumeration on the spec side is exactly the set of paths, each once. *)
Theorem paths_are_all_paths :
  forall g r v, wf g ->
    (forall p, In p (all_paths g r v) <-> is_path g r v p) /\ NoDup (all_paths g r v).
Proof. intros g r v Hwf. split; [intros p; apply paths_spec; exact Hwf|apply paths_nodup]. Qed.
Goal True. idtac "ASSUMPTIONS paths_are_all_paths". Abort.
Print Assumptions paths_are_all_paths.

(* Chain rule on any DAG, for ANY post-order [ord] of the graph below the root (any number of consumers per
   tensor, the same tensor in several slots of one op, diamonds, multi-output ops = several nodes sharing a
   child, any mix of requires_grad flags, any buffers left by earlier calls):
   after the sweep every tensor that requires grad and is reachable from the root holds
   (what it held before if it is a leaf, zero otherwise) + the sum over all paths; unless it is a
   non-retained intermediate, whose buffer is released (None).  Everything else is untouched.
   [z] = the tensors the ordering loop called zero_() on (characterised by Proofs/DfsProofs.v). *)
Theorem sweep_is_pathsum :
  forall (A : galg), galg_ok A ->
  forall g (w : weights A) mode root seed ord z (b : bufs A),
    wf g -> (forall n, node_ok (getn g n)) -> req (getn g root) = true ->
    is_postorder g root ord ->
    (forall c, In c z <-> (c <> root /\ reachable g root c /\ req (getn g c) = true /\
                           (b c = None \/ is_leaf (getn g c) = false))) ->
    exists b', run_sweep A g w mode root seed ord z b
               = Some (b', filter (fun n => has_fn (getn g n)) (rev ord)) /\
      (forall v, reachable g root v -> req (getn g v) = true ->
         b' v = if releases g mode root v then None
                else Some (vadd A (leaf_part A g b v) (pathval A g w root v seed))) /\
      (forall v, ~ reachable g root v \/ req (getn g v) = false -> b' v = b v).
Proof. exact sweep_is_pathsum_any_order. Qed.
Goal True. idtac "ASSUMPTIONS sweep_is_pathsum". Abort.
Print Assumptions sweep_is_pathsum.

(* The same for Tensor.backward itself (ordering loop + sweep): it never fails on a well-formed graph whose
   root requires grad. *)
Theorem backward_is_pathsum :
  forall (A : galg), galg_ok A ->
  forall g (w : weights A) mode root seed (b : bufs A),
    wf g -> (forall n, node_ok (getn g n)) -> root < length g -> req (getn g root) = true ->
    exists b' ord, backward A g w mode root seed b
                   = Some (b', filter (fun n => has_fn (getn g n)) (rev ord)) /\
      is_postorder g root ord /\
      (forall v, reachable g root v -> req (getn g v) = true ->
         b' v = if releases g mode root v then None
                else Some (vadd A (leaf_part A g b v) (pathval A g w root v seed))) /\
      (forall v, ~ reachable g root v \/ req (getn g v) = false -> b' v = b v).
Proof. exact backward_is_pathsum. Qed.
Goal True. idtac "ASSUMPTIONS backward_is_pathsum". Abort.
Print Assumptions backward_is_pathsum.

(* Scalar reading (one-element tensors): leaf.grad = old + seed * Σ_paths Π local derivatives. *)
Theorem backward_is_pathsum_scalar :
  forall g (w : nat -> nat -> Z) mode root (seed : Z) (b : nat -> option Z),
    wf g -> (forall n, node_ok (getn g n)) -> root < length g -> req (getn g root) = true ->
    exists b' log, backward ZAlg g w mode root seed b = Some (b', log) /\
      (forall v, reachable g root v -> req (getn g v) = true ->
         b' v = if releases g mode root v then None
                else Some (leaf_part ZAlg g b v + seed * pathsum g w root v)%Z) /\
      (forall v, ~ reachable g root v \/ req (getn g v) = false -> b' v = b v).
Proof. exact backward_is_pathsum_Z. Qed.
Goal True. idtac "ASSUMPTIONS backward_is_pathsum_scalar". Abort.
Print Assumptions backward_is_pathsum_scalar.

(* Each recorded operation contributes exactly once per backward call: the log of closure invocations is the
   has_fn nodes of reversed(ordered_nodes) - no duplicates, exactly the reachable nodes that have a backward
   function, every node before each of its operands. *)
Theorem each_fn_once :
  forall g root ord, is_postorder g root ord ->
    let log := filter (fun n => has_fn (getn g n)) (rev ord) in
    NoDup log /\
    (forall n, In n log <-> (reachable g root n /\ has_fn (getn g n) = true)) /\
    (forall n c, In n log -> In c log -> In c (children (getn g n)) -> before n c log).
Proof. intros g root ord. apply log_facts. Qed.
Goal True. idtac "ASSUMPTIONS each_fn_once". Abort.
Print Assumptions each_fn_once.

(* The result does not depend on the traversal order: any two post-orders (whatever order the children are
   visited in, whatever order independent branches were appended in) give the same buffers and the same set
   of closure calls. *)
Theorem order_independent :
  forall (A : galg), galg_ok A ->
  forall g (w : weights A) mode root seed ord1 ord2 z1 z2 (b : bufs A),
    wf g -> (forall n, node_ok (getn g n)) -> req (getn g root) = true ->
    is_postorder g root ord1 -> is_postorder g root ord2 ->
    zero_char A g root b z1 -> zero_char A g root b z2 ->
    exists b1 b2 log1 log2,
      run_sweep A g w mode root seed ord1 z1 b = Some (b1, log1) /\
      run_sweep A g w mode root seed ord2 z2 b = Some (b2, log2) /\
      (forall v, b1 v = b2 v) /\ Permutation log1 log2.
Proof. intros A Aok g w mode root seed ord1 ord2 z1 z2 b Hwf Hok Hreq. apply order_independent_gen; assumption. Qed.
Goal True. idtac "ASSUMPTIONS order_independent". Abort.
Print Assumptions order_independent.

(* ... nor on the order in which independent sub-expressions were built: renumbering the tensors of the recorded
   graph by any injective [pi] that preserves operands, flags and local derivatives (both numberings being
   construction orders, i.e. well-formed) gives every tensor the same gradient buffer. *)
Theorem construction_order_independent :
  forall (A : galg), galg_ok A ->
  forall g g' (pi : nat -> nat) (w w' : weights A) mode root seed (b b' b1 b1' : bufs A) l l',
    wf g -> wf g' -> (forall n, node_ok (getn g n)) -> (forall n, node_ok (getn g' n)) ->
    (forall x y, x < length g -> y < length g -> pi x = pi y -> x = y) ->
    (forall n, n < length g ->
       children (getn g' (pi n)) = map pi (children (getn g n)) /\
       req (getn g' (pi n)) = req (getn g n) /\
       has_fn (getn g' (pi n)) = has_fn (getn g n) /\
       retain (getn g' (pi n)) = retain (getn g n)) ->
    (forall n k, n < length g -> w' (pi n) k = w n k) ->
    (forall n, n < length g -> b' (pi n) = b n) ->
    root < length g ->
    backward A g w mode root seed b = Some (b1, l) ->
    backward A g' w' mode (pi root) seed b' = Some (b1', l') ->
    forall v, v < length g -> b1' (pi v) = b1 v.
Proof. exact relabel_invariant. Qed.
Goal True. idtac "ASSUMPTIONS construction_order_independent". Abort.
Print Assumptions construction_order_independent.

(* What the op wrappers build satisfies the per-node hypotheses ([op_node] is compared with the real tensors by
   the correspondence check). *)
Theorem wrapper_nodes_ok :
  forall g gm cs, node_ok (op_node g gm cs) /\ (forall gm r, node_ok (leaf_node gm r)).
Proof.
  intros g gm cs. split.
  - unfold op_node, node_ok. cbn. destruct (existsb (fun c => req (getn g c)) cs && gm); cbn; split; intros; try reflexivity; try discriminate.
  - intros gm' r. unfold leaf_node, node_ok. cbn. split; [discriminate|reflexivity].
Qed.
Goal True. idtac "ASSUMPTIONS wrapper_nodes_ok". Abort.
Print Assumptions wrapper_nodes_ok.

(* ---- instances (hypotheses are satisfiable; the numbers are what the real engine gives) ---------------- *)
Definition leafn : node := mkNode [] true false false.
Definition constn : node := mkNode [] false false false.
Definition opn (cs : list nat) : node := mkNode cs true true false.
Definition wtab (t : list (list Z)) : nat -> nat -> Z := fun n k => nth k (nth n t []) 0%Z.
Definition obs (b : nat -> option Z) (n : nat) : list (option Z) := map b (seq 0 n).
Definition run_obs g w mode root seed b :=
  match backward ZAlg g w mode root seed b with
  | Some (b', log) => Some (obs b' (length g), log)
  | None => None
  end.
Definition nob : nat -> option Z := fun _ => None.

(* diamond: y = (2x) * 5 + (3x) * 7 as a graph x -> a, x -> b, (a,b) -> y *)
Example diamond :
  let g := [leafn; opn [0]; opn [0]; opn [1; 2]] in
  let w := wtab [[]; [2]; [3]; [5; 7]]%Z in
  wfb g = true /\ pathsum g w 3 0 = 31%Z /\
  run_obs g w false 3 1%Z nob = Some ([Some 31; None; None; Some 1]%Z, [3; 2; 1]).
Proof. vm_compute. auto. Qed.

(* y = a*b + c built as (a*b first, then c) and as (c first, then a*b): pi swaps the numbering *)
Example two_construction_orders :
  let g  := [leafn; opn [0]; opn [0]; opn [1; 2]] in
  let g' := [leafn; opn [0]; opn [0]; opn [2; 1]] in
  run_obs g (wtab [[]; [2]; [3]; [5; 7]]%Z) false 3 1%Z nob = Some ([Some 31; None; None; Some 1]%Z, [3; 2; 1]) /\
  run_obs g' (wtab [[]; [3]; [2]; [5; 7]]%Z) false 3 1%Z nob = Some ([Some 31; None; None; Some 1]%Z, [3; 1; 2]).
Proof. vm_compute. auto. Qed.

(* the same operand twice: y = x * x at x = 4 ; then z = y * y *)
Example same_operand_twice :
  let g := [leafn; opn [0; 0]; opn [1; 1]] in
  let w := wtab [[]; [4; 4]; [16; 16]]%Z in
  pathsum g w 2 0 = 256%Z /\ length (all_paths g 2 0) = 4 /\
  run_obs g w false 2 1%Z nob = Some ([Some 256; None; Some 1]%Z, [2; 1]).
Proof. vm_compute. auto. Qed.

(* a multi-output op (two results of unbind share the operand), a constant operand, a retained intermediate,
   paths of different lengths to the same leaf, an existing leaf gradient that is accumulated into *)
Example mixed :
  let g := [leafn; constn; opn [0]; opn [0]; mkNode [2; 1] true true true; opn [4; 3; 0]] in
  let w := wtab [[]; []; [1]; [1]; [3; 9]; [2; 5; 7]]%Z in
  wfb g = true /\
  run_obs g w false 5 10%Z (fun v => if v =? 0 then Some 100%Z else if v =? 4 then Some 77%Z else None)
  = Some ([Some (100 + 10 * (2*3*1 + 5*1 + 7)); None; None; None; Some 20; Some 10]%Z, [5; 3; 4; 2]).
Proof. vm_compute. auto. Qed.
