(* C02, conv / pool / unfold / fold part — backward of every such op is the exact vector-Jacobian product.
   Only statements; model NumPy/ConvPool.v (the backward kernels as cpu_ops.py computes them: tensordot with the axes given,
   moveaxis, place_windows, max_backward's argmax mask, mean_backward), proofs Proofs/ConvPool*.v.

   How a VJP is stated without analysis.  conv, avg-pool, unfold and fold are (affine-)linear in each differentiable argument:
   F(x + h) = F(x) + L(h) exactly, L linear; then dF = L, and the VJP of an upstream gradient g is the unique L^T g with
       <g, L h> = <L^T g, h>   for every direction h.
   Each theorem gives both facts for the code's backward kernel, over any commutative (semi)ring of scalars, hence over R
   (the real-valued reading) and over Z (the executable runs of checks/ops_convpool.py).  Max pooling is piecewise linear:
   on the set of inputs that select the same position in every window it is the gather along [sel2], see maxpool_vjp.
   <u, v>_l is [dotl l u v].  All geometries with at least one window ([valid g]), all N, C_in, C_out, with and without bias. *)
From Coq Require Import List ZArith Bool Lia QArith Qcanon.
Import ListNotations.
From SG Require Import Base.Sums NumPy.Gather NumPy.Window NumPy.Im2col NumPy.ConvPool NumPy.ConvPoolRun
  Proofs.WindowProofs Proofs.Im2colProofs Proofs.ConvPoolAux Proofs.ConvPoolProofs Proofs.ConvPoolPooling Proofs.ConvPoolGeom
  Proofs.ConvPoolFused.
Open Scope Z_scope.

(* conv2d: x-gradient  a_grad = place_windows(moveaxis(tensordot(grad, weight, [[1],[0]]), 0, 2)) *)
Theorem conv_vjp_x :
  forall (A : Type) (SA : Scalar A) (LA : ScalarLaws A) (CA : CommLaws A) g Co (gr w : pos -> A) bias (x h : pos -> A), valid g ->
    (forall q, conv2d_fwd g w bias (fun i => sadd (x i) (h i)) q = sadd (conv2d_fwd g w bias x q) (conv2d_fwd g w None h q)) /\
    dotl (Out2 g Co) gr (conv2d_fwd g w None h) = dotl (Ipos g) (conv2d_bwd_x g Co gr w) h.
Proof. intros. split. intros; apply conv2d_additive_x. now apply conv2d_vjp_x_lemma. Qed.
Goal True. idtac "ASSUMPTIONS conv_vjp_x". Abort.
Print Assumptions conv_vjp_x.

(* conv2d: weight gradient  np.tensordot(grad, windows, axes=[(2,3,0),(0,1,2)]) *)
Theorem conv_vjp_w :
  forall (A : Type) (SA : Scalar A) (LA : ScalarLaws A) (CA : CommLaws A) g Co (gr w v : pos -> A) bias (x : pos -> A), valid g ->
    (forall q, conv2d_fwd g (fun i => sadd (w i) (v i)) bias x q = sadd (conv2d_fwd g w bias x q) (conv2d_fwd g v None x q)) /\
    dotl (Out2 g Co) gr (conv2d_fwd g v None x) = dotl (Wt2 g Co) (conv2d_bwd_w g gr (windows2 g s0 x)) v.
Proof. intros. split. intros; apply conv2d_additive_w. now apply conv2d_vjp_w_lemma. Qed.
Goal True. idtac "ASSUMPTIONS conv_vjp_w". Abort.
Print Assumptions conv_vjp_w.

(* conv2d: bias gradient  grad.sum(axis=(0,2,3)) *)
Theorem conv_vjp_b :
  forall (A : Type) (SA : Scalar A) (LA : ScalarLaws A) (CA : CommLaws A) g Co (gr w : pos -> A) (b : Z -> A) (x : pos -> A),
    (forall q, conv2d_fwd g w (Some b) x q = sadd (conv2d_fwd g w None x q) (let '(_, co, _, _) := q in b co)) /\
    dotl (Out2 g Co) gr (fun q => let '(_, co, _, _) := q in b co) = dotl (zr Co) (conv2d_bwd_b g gr) b.
Proof. intros. split. intros; apply conv2d_bias_additive. apply conv2d_vjp_b_lemma. Qed.
Goal True. idtac "ASSUMPTIONS conv_vjp_b". Abort.
Print Assumptions conv_vjp_b.

(* conv1d: the three gradients *)
Theorem conv_vjp_x_1d :
  forall (A : Type) (SA : Scalar A) (LA : ScalarLaws A) (CA : CommLaws A) g Co (gr w : pos1 -> A) bias (x h : pos1 -> A), valid1 g ->
    (forall q, conv1d_fwd g w bias (fun i => sadd (x i) (h i)) q = sadd (conv1d_fwd g w bias x q) (conv1d_fwd g w None h q)) /\
    dotl (Out1 g Co) gr (conv1d_fwd g w None h) = dotl (Ipos1 g) (conv1d_bwd_x g Co gr w) h.
Proof. intros. split. intros; apply conv1d_additive_x. now apply conv1d_vjp_x_lemma. Qed.
Goal True. idtac "ASSUMPTIONS conv_vjp_x_1d". Abort.
Print Assumptions conv_vjp_x_1d.

Theorem conv_vjp_w_1d :
  forall (A : Type) (SA : Scalar A) (LA : ScalarLaws A) (CA : CommLaws A) g Co (gr w v : pos1 -> A) bias (x : pos1 -> A), valid1 g ->
    (forall q, conv1d_fwd g (fun i => sadd (w i) (v i)) bias x q = sadd (conv1d_fwd g w bias x q) (conv1d_fwd g v None x q)) /\
    dotl (Out1 g Co) gr (conv1d_fwd g v None x) = dotl (Wt1 g Co) (conv1d_bwd_w g gr (windows1 g s0 x)) v.
Proof. intros. split. intros; apply conv1d_additive_w. now apply conv1d_vjp_w_lemma. Qed.
Goal True. idtac "ASSUMPTIONS conv_vjp_w_1d". Abort.
Print Assumptions conv_vjp_w_1d.

Theorem conv_vjp_b_1d :
  forall (A : Type) (SA : Scalar A) (LA : ScalarLaws A) (CA : CommLaws A) g Co (gr w : pos1 -> A) (b : Z -> A) (x : pos1 -> A),
    (forall q, conv1d_fwd g w (Some b) x q = sadd (conv1d_fwd g w None x q) (let '(_, co, _) := q in b co)) /\
    dotl (Out1 g Co) gr (fun q => let '(_, co, _) := q in b co) = dotl (zr Co) (conv1d_bwd_b g gr) b.
Proof. intros. split. intros; apply conv1d_bias_additive. apply conv1d_vjp_b_lemma. Qed.
Goal True. idtac "ASSUMPTIONS conv_vjp_b_1d". Abort.
Print Assumptions conv_vjp_b_1d.

(* average pooling (linear): mean_backward (g / (kH*kW) broadcast over the window) followed by place_windows *)
Theorem avgpool_vjp :
  forall (A : Type) (SA : Scalar A) (LA : ScalarLaws A) (DA : Divider A) (DL : DivLaws A) g (gr x : pos -> A), valid g ->
    dotl (Out2 g (gC g)) gr (avgpool2d_fwd g x) = dotl (Ipos g) (avgpool2d_bwd g gr) x.
Proof. intros. now apply avgpool2d_vjp_lemma. Qed.
Goal True. idtac "ASSUMPTIONS avgpool_vjp". Abort.
Print Assumptions avgpool_vjp.

Theorem avgpool_vjp_1d :
  forall (A : Type) (SA : Scalar A) (LA : ScalarLaws A) (DA : Divider A) (DL : DivLaws A) g (gr x : pos1 -> A), valid1 g ->
    dotl (Out1 g (C1 g)) gr (avgpool1d_fwd g x) = dotl (Ipos1 g) (avgpool1d_bwd g gr) x.
Proof. intros. now apply avgpool1d_vjp_lemma. Qed.
Goal True. idtac "ASSUMPTIONS avgpool_vjp_1d". Abort.
Print Assumptions avgpool_vjp_1d.

(* max pooling.  (1) the code's backward (argmax mask on the flattened window, then place_windows) gives the gradient of every
   window to exactly one position, the one the window selects (first maximum in row-major kernel order; nothing if the window
   is all padding):  bwd(g) i = sum of g q over the windows q with sel2 q = Some i;
   (2) it is the adjoint of the gather along sel2;
   (3) unique maximiser: if in window q every other real cell is below the selected one by more than 2*delta, then every y within
   delta of x selects the same position and pool(y) q = y there — on that neighbourhood the pool is exactly the gather along
   sel2, so (1)-(2) is its VJP. *)
Theorem maxpool_vjp :
  forall (A : Type) (SA : Scalar A) (LA : ScalarLaws A) g (x : pos -> Z), valid g ->
    (forall (gr : pos -> A) i,
       maxpool2d_bwd g x gr i =
       isum (Out2 g (gC g)) (fun q => match sel2 g x q with Some i' => if pos_eqb i' i then gr q else s0 | None => s0 end)) /\
    (forall (gr h : pos -> A),
       dotl (Out2 g (gC g)) gr (fun q => match sel2 g x q with Some i => h i | None => s0 end) = dotl (Ipos g) (maxpool2d_bwd g x gr) h) /\
    (forall (y : pos -> Z) delta n c wi wj im,
       0 <= n < gN g -> 0 <= c < gC g -> 0 <= wi < lH g -> 0 <= wj < lW g ->
       (forall i, Z.abs (y i - x i) <= delta) ->
       sel2 g x (n, c, wi, wj) = Some im ->
       (forall a b i', 0 <= a < kH g -> 0 <= b < kW g -> a * kW g + b <> amax (efibre2 g x wi wj n c) ->
                       phi_win_opt g (wi, wj, n, c, a, b) = Some i' -> x i' + 2 * delta < x im) ->
       sel2 g y (n, c, wi, wj) = Some im /\ maxpool2d_fwd g y (n, c, wi, wj) = Fin (y im)).
Proof.
  intros A SA LA g x Hv. split; [|split].
  - intros. now apply maxpool2d_bwd_scatter.
  - intros. now apply maxpool2d_vjp_lemma.
  - intros. now apply (maxpool2d_locally_linear g x y delta).
Qed.
Goal True. idtac "ASSUMPTIONS maxpool_vjp". Abort.
Print Assumptions maxpool_vjp.

(* at ties (or anywhere): the position that receives the gradient attains the window maximum — a valid subgradient *)
Theorem maxpool_tie_subgradient :
  forall g (x : pos -> Z) n c wi wj, valid g ->
    0 <= n < gN g -> 0 <= c < gC g -> 0 <= wi < lH g -> 0 <= wj < lW g ->
    (exists a b i0, 0 <= a < kH g /\ 0 <= b < kW g /\ phi_win_opt g (wi, wj, n, c, a, b) = Some i0) ->
    exists i, sel2 g x (n, c, wi, wj) = Some i /\ maxpool2d_fwd g x (n, c, wi, wj) = Fin (x i) /\
      forall a b i', 0 <= a < kH g -> 0 <= b < kW g -> phi_win_opt g (wi, wj, n, c, a, b) = Some i' -> x i' <= x i.
Proof. intros g x n c wi wj Hv Hn Hc Hwi Hwj. now apply maxpool2d_selects. Qed.
Goal True. idtac "ASSUMPTIONS maxpool_tie_subgradient". Abort.
Print Assumptions maxpool_tie_subgradient.

Theorem maxpool_vjp_1d :
  forall (A : Type) (SA : Scalar A) (LA : ScalarLaws A) g (x : pos1 -> Z), valid1 g ->
    (forall (gr : pos1 -> A) i,
       maxpool1d_bwd g x gr i =
       isum (Out1 g (C1 g)) (fun q => match sel1 g x q with Some i' => if pos1_eqb i' i then gr q else s0 | None => s0 end)) /\
    (forall (gr h : pos1 -> A),
       dotl (Out1 g (C1 g)) gr (fun q => match sel1 g x q with Some i => h i | None => s0 end) = dotl (Ipos1 g) (maxpool1d_bwd g x gr) h) /\
    (forall (y : pos1 -> Z) delta n c wj im,
       0 <= n < N1 g -> 0 <= c < C1 g -> 0 <= wj < l1 g ->
       (forall i, Z.abs (y i - x i) <= delta) ->
       sel1 g x (n, c, wj) = Some im ->
       (forall b i', 0 <= b < k1 g -> b <> amax (efibre1 g x wj n c) -> phi1_opt g (wj, n, c, b) = Some i' -> x i' + 2 * delta < x im) ->
       sel1 g y (n, c, wj) = Some im /\ maxpool1d_fwd g y (n, c, wj) = Fin (y im)) /\
    (forall n c wj, 0 <= n < N1 g -> 0 <= c < C1 g -> 0 <= wj < l1 g ->
       (exists b i0, 0 <= b < k1 g /\ phi1_opt g (wj, n, c, b) = Some i0) ->
       exists i, sel1 g x (n, c, wj) = Some i /\ maxpool1d_fwd g x (n, c, wj) = Fin (x i) /\
         forall b i', 0 <= b < k1 g -> phi1_opt g (wj, n, c, b) = Some i' -> x i' <= x i).
Proof.
  intros A SA LA g x Hv. split; [|split; [|split]].
  - intros. now apply maxpool1d_bwd_scatter.
  - intros. now apply maxpool1d_vjp_lemma.
  - intros. now apply (maxpool1d_locally_linear g x y delta).
  - intros. now apply maxpool1d_selects.
Qed.
Goal True. idtac "ASSUMPTIONS maxpool_vjp_1d". Abort.
Print Assumptions maxpool_vjp_1d.

(* unfold (affine in x: a non-zero pad value only adds a constant): backward = col2im_fast = fold *)
Theorem unfold_vjp :
  forall (A : Type) (SA : Scalar A) (LA : ScalarLaws A) g (pv : A) (gr : idx3 -> A) (x h : pos -> A), valid g ->
    (forall j, unfold_fwd g pv (fun i => sadd (x i) (h i)) j = sadd (unfold_fwd g pv x j) (unfold_fwd g s0 h j)) /\
    dotl (Junf g) gr (unfold_fwd g s0 h) = dotl (Ipos g) (unfold_bwd g gr) h.
Proof. intros. split. intros; apply unfold_additive. unfold unfold_bwd. now apply unfold_fold_adjoint. Qed.
Goal True. idtac "ASSUMPTIONS unfold_vjp". Abort.
Print Assumptions unfold_vjp.

(* fold (linear): backward = im2col_fast(as_unfold=True) with pad value 0 = unfold; each is the other's transpose *)
Theorem fold_vjp :
  forall (A : Type) (SA : Scalar A) (LA : ScalarLaws A) (CA : CommLaws A) g (gr : pos -> A) (y z : idx3 -> A), valid g ->
    (forall i, fold_fwd g (fun j => sadd (y j) (z j)) i = sadd (fold_fwd g y i) (fold_fwd g z i)) /\
    dotl (Ipos g) gr (fold_fwd g y) = dotl (Junf g) (fold_bwd g gr) y.
Proof. intros. split. intros; apply fold_additive. now apply fold_vjp_lemma. Qed.
Goal True. idtac "ASSUMPTIONS fold_vjp". Abort.
Print Assumptions fold_vjp.

(* ---------------------------------------------------------------- non-vacuity *)
(* the scalar laws are satisfiable: integers (ring) and canonical rationals Qc (field, with division by a count) *)
Example laws_Z : ScalarLaws Z * CommLaws Z.
Proof. exact (ScalarLawsZ, CommLawsZ). Qed.
Example laws_Qc : ScalarLaws Qc * CommLaws Qc * DivLaws Qc.
Proof. exact (ScalarLawsQc, CommLawsQc, DivLawsQc). Qed.
Definition g_ex : geom := {| gN := 1; gC := 1; gH := 3; gW := 4; kH := 2; kW := 2; sH := 1; sW := 2; pH := 1; pW := 0; dH := 1; dW := 2 |}.
Example g_ex_valid : valid g_ex /\ lH g_ex = 4 /\ lW g_ex = 1.
Proof. unfold valid. cbn. repeat split; try lia; vm_compute; congruence. Qed.
Definition x_ex : list Z := [1; 5; 2; 0;  3; 3; 9; 1;  4; 8; 6; 7].
Definition w_ex : list Z := [1; -2; 3; 1].
Definition gr_ex : list Z := [1; 10; 100; 1000].
(* both sides of the x-adjoint identity evaluate to the same number on this instance *)
Example conv_vjp_x_ex :
  let gf := of4 1 4 1 gr_ex in let wf := of4 1 2 2 w_ex in let xf := of4 1 3 4 x_ex in
  dotl (Out2 g_ex 1) gf (conv2d_fwd g_ex wf None xf) = dotl (Ipos g_ex) (conv2d_bwd_x g_ex 1 gf wf) xf /\
  dotl (Out2 g_ex 1) gf (conv2d_fwd g_ex wf None xf) = -7545.
Proof. vm_compute. split; reflexivity. Qed.
Example maxpool_bwd_ex :
  run_maxpool2d_bwd g_ex x_ex gr_ex = [0; 0; 1; 0;  0; 0; 110; 0;  0; 0; 1000; 0].
Proof. vm_compute. reflexivity. Qed.
