(* C04 — leaf gradients accumulate exactly across any history of backward calls.
   Only statements; proofs live in Proofs/{HistoryProofs,SweepProofs,DfsProofs,EngineCompose}.v.

   Model: Engine/History.v.  A history is any finite list of events
     Build (new tensor: leaf or op result) | Backward root seed | ZeroTensor v | ZeroModule ps | ZeroOptim ps |
     RetainGrad v | SetRetainMode m
   run from any valid state (any graph built so far, ANY buffers - in particular stale buffers on non-leaf
   tensors left by earlier calls, retained intermediates, former roots).  Valid = operands are created before
   results and every node satisfies the wrapper contract ([node_ok]).
   Spec side ([leaf_spec], per tensor, no engine): the accumulated gradient [a : option V] starts as what the
   tensor held (None = no buffer), a reset sets it to Some 0, a backward call whose root reaches the tensor
   adds [pathval] (the sum over all paths, C03) of that call, in the graph as it was at that call; nothing else
   changes it. *)
From Coq Require Import List Bool Arith ZArith.
Import ListNotations.
From SG Require Import Engine.Graph Engine.Dfs Engine.Sweep Engine.History.
From SG Require Import Proofs.SweepProofs Proofs.HistoryProofs Proofs.EngineCompose.

(* every leaf that requires grad, after every history *)
Theorem history_accumulates :
  forall (A : galg), galg_ok A ->
  forall h (s s' : hstate A),
    valid_state A s -> builds_ok A (length (h_g A s)) h -> run A s h = Some s' ->
    forall v, req (getn (h_g A s') v) = true -> has_fn (getn (h_g A s') v) = false ->
      h_b A s' v = leaf_spec A (h_g A s) (h_w A s) h v (h_b A s v).
Proof.
  intros A Aok h s s' Hv Hb Hrun v Hr Hf.
  destruct (history_leaf_spec A Aok dfs_spec_holds h s s' Hv Hb Hrun) as [_ H]. apply H. right. auto.
Qed.
Goal True. idtac "ASSUMPTIONS history_accumulates". Abort.
Print Assumptions history_accumulates.

(* the same as an explicit sum: after `h1 ; reset of v ; h2` with no reset of v in h2, v.grad is exactly the sum
   of the contributions of the backward calls of h2 that reach v (Some 0 if none does) *)
Theorem history_sum_since_last_reset :
  forall (A : galg), galg_ok A ->
  forall h1 e h2 (s s' : hstate A) v,
    valid_state A s -> builds_ok A (length (h_g A s)) (h1 ++ e :: h2) ->
    run A s (h1 ++ e :: h2) = Some s' ->
    forall g1 w1, evolve_all A (h_g A s) (h_w A s) h1 = (g1, w1) ->
    resets A g1 e v = true -> no_reset A (evolve_g A g1 e) h2 v = true ->
    req (getn (h_g A s') v) = true -> has_fn (getn (h_g A s') v) = false ->
    h_b A s' v = Some (vsum A (contribs A (evolve_g A g1 e) (evolve_w A g1 w1 e) h2 v)).
Proof.
  intros A Aok h1 e h2 s s' v Hv Hb Hrun g1 w1 E Hres Hno Hr Hf.
  apply (history_sum_since_reset A Aok dfs_spec_holds h1 e h2 s s' v Hv Hb Hrun g1 w1 E Hres Hno). right. auto.
Qed.
Goal True. idtac "ASSUMPTIONS history_sum_since_last_reset". Abort.
Print Assumptions history_sum_since_last_reset.

(* never reset: absent stays absent until a backward call reaches the tensor; then old + Σ contributions *)
Theorem history_sum_never_reset :
  forall (A : galg), galg_ok A ->
  forall h (s s' : hstate A) v,
    valid_state A s -> builds_ok A (length (h_g A s)) h -> run A s h = Some s' ->
    no_reset A (h_g A s) h v = true ->
    req (getn (h_g A s') v) = true -> has_fn (getn (h_g A s') v) = false ->
    h_b A s' v = if reached A (h_g A s) h v
                 then Some (vadd A (oget A (h_b A s v)) (vsum A (contribs A (h_g A s) (h_w A s) h v)))
                 else if touched A (h_g A s) h v then Some (oget A (h_b A s v)) else h_b A s v.
Proof.
  intros A Aok h s s' v Hv Hb Hrun Hno Hr Hf.
  apply (history_sum_never_reset A Aok dfs_spec_holds h s s' v Hv Hb Hrun Hno). right. auto.
Qed.
Goal True. idtac "ASSUMPTIONS history_sum_never_reset". Abort.
Print Assumptions history_sum_never_reset.

(* A backward call that FAILS and is caught by the caller (gradient of the wrong shape: the check comes after the ordering
   loop and its zero_() calls; or a root that does not require grad: refused before anything happens) changes no leaf
   gradient value: the only leaf-level effect is that an absent buffer of a requires-grad leaf strictly below the root
   becomes a zero buffer.  Together with history_accumulates (whose specification treats BackwardFails exactly so) this says
   that every later correct call contributes exactly what it would have contributed had the failed call never happened. *)
Theorem failed_call_changes_no_leaf_value :
  forall (A : galg), galg_ok A ->
  forall (s s' : hstate A) r v,
    valid_state A s -> step A s (BackwardFails r) = Some s' ->
    req (getn (h_g A s) v) = true -> has_fn (getn (h_g A s) v) = false ->
    oget A (h_b A s' v) = oget A (h_b A s v) /\ (forall x, h_b A s v = Some x -> h_b A s' v = Some x) /\
    (h_b A s' v = h_b A s v \/
     (h_b A s v = None /\ h_b A s' v = Some (vzero A) /\ touches (h_g A s) r v = true)).
Proof.
  intros A Aok s s' r v Hv Hstep Hr Hf.
  apply (failed_call_keeps_values A Aok dfs_spec_holds s r s' v Hv Hstep). right. auto.
Qed.
Goal True. idtac "ASSUMPTIONS failed_call_changes_no_leaf_value". Abort.
Print Assumptions failed_call_changes_no_leaf_value.

(* a call does not change any tensor (leaf or not) that its root does not reach *)
Theorem unreachable_unchanged :
  forall (A : galg), galg_ok A ->
  forall (s s' : hstate A) r seed v,
    valid_state A s -> step A s (Backward r seed) = Some s' ->
    ~ reachable (h_g A s) r v -> h_b A s' v = h_b A s v.
Proof. intros A Aok s s' r seed v. apply (backward_unreachable_unchanged A Aok dfs_spec_holds). Qed.
Goal True. idtac "ASSUMPTIONS unreachable_unchanged". Abort.
Print Assumptions unreachable_unchanged.

(* no gradient left on a non-leaf tensor leaks into a later call: two states with the same graph that agree on
   a leaf's buffer give that leaf the same gradient after any history, whatever all other buffers hold *)
Theorem stale_never_leaks :
  forall (A : galg), galg_ok A ->
  forall h (s1 s2 s1' s2' : hstate A),
    valid_state A s1 -> h_g A s1 = h_g A s2 -> h_w A s1 = h_w A s2 ->
    builds_ok A (length (h_g A s1)) h ->
    run A s1 h = Some s1' -> run A s2 h = Some s2' ->
    forall v, req (getn (h_g A s1') v) = true -> has_fn (getn (h_g A s1') v) = false ->
      h_b A s1 v = h_b A s2 v -> h_b A s1' v = h_b A s2' v.
Proof.
  intros A Aok h s1 s2 s1' s2' Hv Hg Hw Hb H1 H2 v Hr Hf Hbv.
  assert (Hv2 : valid_state A s2) by (unfold valid_state; rewrite <- Hg; exact Hv).
  destruct (history_leaf_spec A Aok dfs_spec_holds h s1 s1' Hv Hb H1) as [_ E1].
  pose proof Hb as Hb2. rewrite Hg in Hb2.
  destruct (history_leaf_spec A Aok dfs_spec_holds h s2 s2' Hv2 Hb2 H2) as [_ E2].
  assert (Hg' : forall h (a b a' b' : hstate A), h_g A a = h_g A b -> run A a h = Some a' -> run A b h = Some b' -> h_g A a' = h_g A b').
  { clear. induction h as [|e h IH]; intros a b a' b' Hg Ha Hb; cbn [run] in *.
    - inversion Ha; inversion Hb; subst; exact Hg.
    - destruct (step A a e) as [a1|] eqn:Ea; [|discriminate]. destruct (step A b e) as [b1|] eqn:Eb; [|discriminate].
      destruct (step_gw A a e a1 Ea) as [Ga _]. destruct (step_gw A b e b1 Eb) as [Gb _].
      apply (IH a1 b1 a' b'); [rewrite Ga, Gb, Hg; reflexivity|exact Ha|exact Hb]. }
  rewrite E1 by (right; auto).
  rewrite E2 by (right; rewrite <- (Hg' h s1 s2 s1' s2' Hg H1 H2); auto).
  rewrite Hg, Hw, Hbv. reflexivity.
Qed.
Goal True. idtac "ASSUMPTIONS stale_never_leaks". Abort.
Print Assumptions stale_never_leaks.

(* the hypothesis [run ... = Some _] is not vacuous: backward never fails when the root requires grad *)
Theorem backward_never_fails :
  forall (A : galg), galg_ok A ->
  forall (s : hstate A) r seed,
    valid_state A s -> req (getn (h_g A s) r) = true -> exists s', step A s (Backward r seed) = Some s'.
Proof. intros A Aok s r seed. apply (backward_total A Aok dfs_spec_holds). Qed.
Goal True. idtac "ASSUMPTIONS backward_never_fails". Abort.
Print Assumptions backward_never_fails.

(* ---- the three histories that gave wrong gradients before the fix d4325f2 (scalars) -------------------- *)
Definition leafn : node := mkNode [] true false false.
Definition opn (cs : list nat) : node := mkNode cs true true false.
Definition wl (l : list Z) : nat -> Z := fun k => nth k l 0%Z.
Definition B (nd : node) (l : list Z) : event ZAlg := @Build ZAlg nd (wl l).
Definition Bwd (r : nat) (seed : Z) : event ZAlg := @Backward ZAlg r seed.
Definition final (h : list (event ZAlg)) : option (list (option Z)) :=
  option_map (observe ZAlg) (run ZAlg (empty ZAlg 0%Z) h).

(* x ; l1 = 3x ; l2 = 5x ; s = l1 + l2 ;  l1.backward() ; s.backward()   ->  x.grad = 3 + 8 = 11  (was 14) *)
Example former_root_reused :
  let h := [B leafn []%Z; B (opn [0]) [3]%Z; B (opn [0]) [5]%Z; B (opn [1; 2]) [1; 1]%Z;
            Bwd 1 1%Z; Bwd 3 1%Z] in
  builds_ok ZAlg 0 h /\ final h = Some [Some 11; None; None; Some 1]%Z.
Proof. vm_compute. repeat split; try discriminate; try reflexivity; repeat constructor. Qed.

(* x ; y = 3x ; y.retain_grad() ; z1 = y ; z1.backward() ; z2 = 2y ; z2.backward()  -> x.grad = 3 + 6 = 9 (was 12) *)
Example retained_interior_twice :
  let h := [B leafn []%Z; B (opn [0]) [3]%Z; @RetainGrad ZAlg 1; B (opn [1]) [1]%Z; Bwd 2 1%Z;
            B (opn [1]) [2]%Z; Bwd 3 1%Z] in
  builds_ok ZAlg 0 h /\ final h = Some [Some 9; Some 2; Some 1; Some 1]%Z.
Proof. vm_compute. repeat split; try discriminate; try reflexivity; repeat constructor. Qed.

(* x.backward(g) twice on a leaf -> 2g (was g) ; then zero_ ; then once more -> g *)
Example leaf_root_twice :
  let h := [B leafn []%Z; Bwd 0 1%Z; Bwd 0 1%Z] in
  final h = Some [Some 2]%Z /\ final (h ++ [@ZeroTensor ZAlg 0; Bwd 0 1%Z]) = Some [Some 1]%Z.
Proof. vm_compute. auto. Qed.

(* a failed call between two correct ones: x ; y = 3x ; z = 2y ; z.backward() ; z.backward(wrong shape) [caught] ; z.backward()
   -> x.grad = 6 + 6 ; a leaf p that only the failed call reaches (q = 5p ; q.backward(wrong shape)) gets a zero buffer *)
Example failed_call_in_between :
  let h := [B leafn []%Z; B (opn [0]) [3]%Z; B (opn [1]) [2]%Z; Bwd 2 1%Z; @BackwardFails ZAlg 2; Bwd 2 1%Z;
            B leafn []%Z; B (opn [3]) [5]%Z; @BackwardFails ZAlg 4; @BackwardFails ZAlg 0] in
  builds_ok ZAlg 0 h /\ final h = Some [Some 12; None; Some 1; Some 0; None]%Z.
Proof. vm_compute. repeat split; try discriminate; try reflexivity; repeat constructor. Qed.

(* micro-batch accumulation over two graphs sharing a parameter, module reset in between *)
Example accumulate_then_reset :
  let h := [B leafn []%Z; B (opn [0; 0]) [4; 4]%Z; Bwd 1 1%Z;
            B (opn [0]) [7]%Z; Bwd 2 1%Z; Bwd 2 2%Z;
            @ZeroModule ZAlg [0]; Bwd 1 1%Z] in
  final (firstn 6 h) = Some [Some (8 + 7 + 14); Some 1; Some 2]%Z /\ final h = Some [Some 8; Some 1; Some 2]%Z.
Proof. vm_compute. auto. Qed.
