(* C14 (vector part) — fused operations equal their documented compositions (on the generated terms, over R). *)
From Coq Require Import Reals Arith.
From SG Require Import Analysis.Vector Gen.GenVecKernels Proofs.VecKernelProofs Proofs.VecKernelProofsLossFwd Proofs.VecKernelProofsLossBwd.
Open Scope R_scope.

(* cross-entropy = NLL of log_softmax: values (term equality of the generated forward) ... *)
Theorem cross_entropy_is_nll_log_softmax : forall n x y,
  cross_entropy_out n x y = nll_loss_out n (log_softmax_out n x) y.
Proof. exact cross_entropy_is_nll_log_softmax_proof. Qed.
Goal True. idtac "ASSUMPTIONS cross_entropy_is_nll_log_softmax". Abort.
Print Assumptions cross_entropy_is_nll_log_softmax.

(* ... and gradients: the fused backward = backward of log_softmax applied to the backward of nll *)
Theorem cross_entropy_backward_is_composition : forall n x y g i, (1 <= n)%nat -> (y < n)%nat -> (i < n)%nat ->
  cross_entropy_grad_y_pred n x y g i =
  log_softmax_grad_x n x (nll_loss_grad_y_pred n (log_softmax_out n x) y g) i.
Proof. exact cross_entropy_backward_is_composition_proof. Qed.
Goal True. idtac "ASSUMPTIONS cross_entropy_backward_is_composition". Abort.
Print Assumptions cross_entropy_backward_is_composition.

(* log_softmax = log of softmax, exactly, for the mathematical logarithm *)
Theorem log_softmax_is_log_of_softmax : forall n x j, (1 <= n)%nat ->
  log_softmax_out n x j = ln (softmax_out n x j).
Proof. exact log_softmax_is_log_of_softmax_proof. Qed.
Goal True. idtac "ASSUMPTIONS log_softmax_is_log_of_softmax". Abort.
Print Assumptions log_softmax_is_log_of_softmax.

(* the library's log op computes ln(a + epsilon) (generated log_forward, epsilon = cpu_ops.epsilon) *)
Theorem ln_eps_bound : forall p e, 0 < p -> 0 <= e -> 0 <= ln (p + e) - ln p <= e / p.
Proof. exact ln_eps_bound_proof. Qed.
Goal True. idtac "ASSUMPTIONS ln_eps_bound". Abort.
Print Assumptions ln_eps_bound.

(* hence F.log(softmax x) exceeds log_softmax x by at most epsilon / p_j: equal up to rounding for moderate logits *)
Theorem log_of_softmax_eps_bound : forall n x j, (1 <= n)%nat ->
  0 <= log_forward (softmax_out n x j) - log_softmax_out n x j <= epsilon / softmax_out n x j.
Proof. exact log_of_softmax_eps_bound_proof. Qed.
Goal True. idtac "ASSUMPTIONS log_of_softmax_eps_bound". Abort.
Print Assumptions log_of_softmax_eps_bound.
