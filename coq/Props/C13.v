(* C13 — Dropout and BatchNorm honour train/eval mode over any call history.
   Only statements; proofs live in Proofs/BNDropoutProofs.v.  Model: State/BNDropout.v (exact rationals; the
   square root of the normalisation is not modelled: the output is the exact pair (x - mean, var + eps)). *)
From Coq Require Import List Bool Arith ZArith QArith.
Import ListNotations.
From SG Require Import State.BNDropout State.ModeTree Proofs.BNDropoutProofs Proofs.ModeTreeProofs.
Open Scope Q_scope.

(* ---- eval mode ------------------------------------------------------------------------------------- *)
(* A forward in eval mode leaves running_mean, running_var, num_batches_tracked and the mode exactly as they
   were (the whole state [s] is returned) and its output is [eval_out s eps x]: a function of the input and of
   the current running statistics only.  Every option combination, every state (also the inconsistent ones a
   user could build by hand). *)
Theorem eval_is_pure :
  forall o s x, training s = false -> forward o s x = Done s (eval_out s (eps o) x).
Proof. exact eval_pure. Qed.
Goal True. idtac "ASSUMPTIONS eval_is_pure". Abort.
Print Assumptions eval_is_pure.

(* ... hence repeated eval calls are deterministic: over any history without train() the state never moves and
   the k-th output is the same function of the k-th input. *)
Theorem eval_calls_deterministic :
  forall o s h, training s = false -> Forall no_train_ev h ->
    run o s h = s /\
    trace o s h = map (fun e => match e with Forward x => (s, OOut (eval_out s (eps o) x)) | _ => (s, ONone) end) h.
Proof. exact eval_history. Qed.
Goal True. idtac "ASSUMPTIONS eval_calls_deterministic". Abort.
Print Assumptions eval_calls_deterministic.

(* ---- training mode with tracking --------------------------------------------------------------------- *)
(* One training forward with momentum f on a batch with n >= 2 samples per feature: the counter goes up by
   one, the mode stays, every feature c gets  running_mean[c] = (1-f)*old + f*mean(x_c)  and
   running_var[c] = (1-f)*old + f*var_b(x_c)*n/(n-1)  (the unbiased variance), while the output is normalised
   with the batch mean and the *biased* variance var_b. *)
Theorem train_updates_once :
  forall o s x m v f,
    training s = true -> track o = true -> momentum o = Some f ->
    rmean s = Some m -> rvar s = Some v ->
    length m = length x -> length v = length x -> (2 <= nsamp x)%nat ->
    exists rm' rv',
      forward o s x = Done {| rmean := Some rm'; rvar := Some rv'; nbt := S (nbt s); training := true |}
                           (normalise x (batch_means x) (batch_vars x) (eps o)) /\
      length rm' = length x /\ length rv' = length x /\
      forall c xs, nth_error x c = Some xs ->
        (forall old, nth_error m c = Some old ->
           exists new, nth_error rm' c = Some new /\ new == (1 - f) * old + f * mean xs) /\
        (forall old, nth_error v c = Some old ->
           exists new, nth_error rv' c = Some new /\
                       new == (1 - f) * old + f * (var_b xs * (qnat (nsamp x) / (qnat (nsamp x) - 1)))).
Proof. exact train_updates_once_full. Qed.
Goal True. idtac "ASSUMPTIONS train_updates_once". Abort.
Print Assumptions train_updates_once.

(* boundary momenta: momentum = 0.0 freezes the running statistics (it is NOT the cumulative rule of momentum=None:
   the branch is on `is None`), momentum = 1.0 replaces them by the batch statistics; the counter still advances *)
Theorem momentum_zero_freezes_one_replaces :
  forall o s x m v f,
    training s = true -> track o = true -> momentum o = Some f ->
    rmean s = Some m -> rvar s = Some v ->
    length m = length x -> length v = length x -> (2 <= nsamp x)%nat ->
    exists rm' rv',
      forward o s x = Done {| rmean := Some rm'; rvar := Some rv'; nbt := S (nbt s); training := true |}
                           (normalise x (batch_means x) (batch_vars x) (eps o)) /\
      forall c xs, nth_error x c = Some xs ->
        (forall old, nth_error m c = Some old ->
           exists new, nth_error rm' c = Some new /\ (f == 0 -> new == old) /\ (f == 1 -> new == mean xs)) /\
        (forall old, nth_error v c = Some old ->
           exists new, nth_error rv' c = Some new /\ (f == 0 -> new == old) /\
                       (f == 1 -> new == var_b xs * (qnat (nsamp x) / (qnat (nsamp x) - 1)))).
Proof. exact momentum_boundaries. Qed.
Goal True. idtac "ASSUMPTIONS momentum_zero_freezes_one_replaces". Abort.
Print Assumptions momentum_zero_freezes_one_replaces.

(* var_b * n/(n-1) is Bessel's unbiased estimator  sum (x - mean)^2 / (n - 1) *)
Theorem running_var_is_unbiased :
  forall l, (2 <= length l)%nat ->
    var_b l * (qnat (length l) / (qnat (length l) - 1)) == qsum (sqdev l) / (qnat (length l) - 1).
Proof. exact unbiased_is_bessel. Qed.
Goal True. idtac "ASSUMPTIONS running_var_is_unbiased". Abort.
Print Assumptions running_var_is_unbiased.

(* n = 1 in training mode with tracking: `n / (n - 1)` on Python floats raises ZeroDivisionError; the batch
   counter has already been incremented, the running statistics are not written.  All theorems about
   training forwards therefore carry the hypothesis n >= 2. *)
Theorem train_batch_of_one_raises :
  forall o s x v, training s = true -> track o = true -> rvar s = Some v -> nsamp x = 1%nat ->
    forward o s x = Raised (bump s).
Proof. exact train_n1. Qed.
Goal True. idtac "ASSUMPTIONS train_batch_of_one_raises". Abort.
Print Assumptions train_batch_of_one_raises.

(* ---- momentum = None --------------------------------------------------------------------------------- *)
(* From a fresh layer, after ANY history (mode switches, eval forwards and training forwards interleaved) whose
   training-mode batches have C features and n >= 2 samples: num_batches_tracked = k = number of training
   forwards, running_mean = arithmetic mean of the k batch means, running_var = arithmetic mean of the k
   unbiased batch variances (feature-wise; [vsum C] adds vectors of length C). *)
Theorem cumulative_is_mean :
  forall o C h, momentum o = None -> track o = true ->
    Forall (good_batch C) (train_batches true h) ->
    let tb := train_batches true h in
    let s := run o (fresh o C) h in
    nbt s = length tb /\
    exists rm rv, rmean s = Some rm /\ rvar s = Some rv /\
      ((1 <= length tb)%nat ->
         Forall2 (fun r a => r == a / qnat (length tb)) rm (vsum C (map batch_means tb)) /\
         Forall2 (fun r a => r == a / qnat (length tb)) rv (vsum C (map unbiased_vars tb))).
Proof. exact cumulative_mean. Qed.
Goal True. idtac "ASSUMPTIONS cumulative_is_mean". Abort.
Print Assumptions cumulative_is_mean.

(* ---- track_running_stats = False --------------------------------------------------------------------- *)
(* batch statistics in both modes, nothing stored, never raises (also for n = 1) *)
Theorem no_tracking :
  forall o s x, track o = false -> rmean s = None -> rvar s = None ->
    forward o s x = Done s (normalise x (batch_means x) (batch_vars x) (eps o)).
Proof. exact no_tracking_forward. Qed.
Goal True. idtac "ASSUMPTIONS no_tracking". Abort.
Print Assumptions no_tracking.

(* the hypothesis of [no_tracking] holds after every history of a layer built with track_running_stats=False *)
Theorem no_tracking_any_history :
  forall o C h, track o = false ->
    let s := run o (fresh o C) h in rmean s = None /\ rvar s = None /\ nbt s = 0%nat.
Proof. exact no_tracking_history. Qed.
Goal True. idtac "ASSUMPTIONS no_tracking_any_history". Abort.
Print Assumptions no_tracking_any_history.

(* ---- any interleaving -------------------------------------------------------------------------------- *)
(* The buffers after a history depend only on the subsequence of batches forwarded in training mode (mode
   switches and eval forwards commute with everything); the mode is the last one set. *)
Theorem state_depends_on_training_forwards_only :
  forall o h s,
    stats (run o s h) = stats (fold_left (tstep o) (train_batches (training s) h) s) /\
    training (run o s h) = final_mode (training s) h.
Proof. exact run_factor. Qed.
Goal True. idtac "ASSUMPTIONS state_depends_on_training_forwards_only". Abort.
Print Assumptions state_depends_on_training_forwards_only.

(* ---- the layer inside a module tree -------------------------------------------------------------------- *)
(* State/ModeTree.v: the layer sits at path [lp] below a root; train()/eval() may be called on ANY node (recursive
   propagation: the node's flag and the flags of all its descendants), in any order.  The layer's mode is the one
   requested by the LAST call on the layer itself or on one of its ancestors (the initial one if there is none):
   calls on siblings, cousins or descendants never matter, earlier calls never matter. *)
Theorem layer_mode_is_last_ancestor_switch :
  forall lp sw t f, flag_at t lp = Some f ->
    flag_at (apply_switches t sw) lp = Some (last_switch lp f sw).
Proof. exact flag_apply_switches. Qed.
Goal True. idtac "ASSUMPTIONS layer_mode_is_last_ancestor_switch". Abort.
Print Assumptions layer_mode_is_last_ancestor_switch.

(* in particular: after root.eval() (or eval() on any ancestor, or on the layer) every layer below is in eval mode
   whatever individual switches were applied before, until the next call on an ancestor-or-self *)
Theorem ancestor_switch_overrides_everything_before :
  forall lp f before p b after,
    is_prefix p lp = true -> Forall (fun pb => is_prefix (fst pb) lp = false) after ->
    last_switch lp f (before ++ (p, b) :: after) = b.
Proof. exact ancestor_switch_wins. Qed.
Goal True. idtac "ASSUMPTIONS ancestor_switch_overrides_everything_before". Abort.
Print Assumptions ancestor_switch_overrides_everything_before.

(* BatchNorm under a tree history (switches on any node interleaved with forwards through the root) behaves exactly
   as under the flat history it "sees" ([project]: calls on ancestors-or-self become Train/Eval, the others vanish),
   so every theorem above (eval_is_pure, train_updates_once, cumulative_is_mean, ...) applies; its mode at every point
   is the last ancestor-or-self switch. *)
Theorem tree_history_is_flat_history :
  forall o lp h t s, flag_at t lp = Some (training s) ->
    snd (trun o lp (t, s) h) = run o s (project lp h) /\
    training (snd (trun o lp (t, s) h)) = last_switch lp (training s) (tswitches h).
Proof.
  intros o lp h t s H. split; [apply (trun_projects o lp h t s H)|apply tree_mode; exact H].
Qed.
Goal True. idtac "ASSUMPTIONS tree_history_is_flat_history". Abort.
Print Assumptions tree_history_is_flat_history.

(* Dropout under a tree: identity iff the last ancestor-or-self call was eval() *)
Theorem tree_dropout_follows_last_switch :
  forall p t lp sw r x f, flag_at t lp = Some f ->
    tree_dropout p t lp sw r x = Some (dropout p (last_switch lp f sw) r x).
Proof. exact tree_dropout_mode. Qed.
Goal True. idtac "ASSUMPTIONS tree_dropout_follows_last_switch". Abort.
Print Assumptions tree_dropout_follows_last_switch.

(* the seeded history: model.eval(); child.train(); model.eval()  on  root(holder(layer, side)) *)
Example tree_example :
  let t := Node true [Node true [Node true []; Node true []]] in
  let sw := [([], false); ([0; 0], true); ([0; 1], true); ([], false)]%nat in
  flag_at (apply_switches t sw) [0; 0]%nat = Some false /\
  flag_at (apply_switches t [([], false); ([0; 0], true)]%nat) [0; 0]%nat = Some true /\
  flag_at (apply_switches t [([], false); ([0; 1], true)]%nat) [0; 0]%nat = Some false /\
  tree_dropout (1 # 2) t [0; 0]%nat sw [1 # 8] [3] = Some [3].
Proof. repeat split; reflexivity. Qed.

(* ---- the same Dropout object called several times ------------------------------------------------------ *)
(* Sessions (State/ModeTree.v, [dev]): mode switches on any node, forwards through the root, and backward of any
   earlier call's output, in any order.  Whatever happens between forward k and its backward — further forwards
   of the same layer object (other draws, other shapes), mode switches, other backward calls — x_k.grad is
   g * (mask tensor of call k): the mask recorded in call k's graph is never disturbed. *)
Theorem backward_of_each_call_uses_its_own_mask :
  forall p lp s h1 r x h2 g,
    flag_at (dtree (drun p lp s h1)) lp = Some true ->
    snd (dstep p lp (drun p lp s (h1 ++ DFwd r x :: h2)) (DBwd (length (dnodes (drun p lp s h1))) g))
    = DGrad (dropout_bwd p r g).
Proof. exact backward_uses_own_mask. Qed.
Goal True. idtac "ASSUMPTIONS backward_of_each_call_uses_its_own_mask". Abort.
Print Assumptions backward_of_each_call_uses_its_own_mask.

Theorem forward_of_each_call_uses_its_own_draw :
  forall p lp s r x, flag_at (dtree s) lp = Some true ->
    snd (dstep p lp s (DFwd r x)) = DOut (dropout p true r x).
Proof. exact forward_uses_own_draw. Qed.
Goal True. idtac "ASSUMPTIONS forward_of_each_call_uses_its_own_draw". Abort.
Print Assumptions forward_of_each_call_uses_its_own_draw.

(* two same-shape forwards, then the backward of the FIRST call: its own mask [0; 2], not the second's [2; 0] *)
Example two_forwards_then_first_backward :
  let s := {| dtree := Node true []; dnodes := [] |} in
  dtrace (1 # 2) [] s [DFwd [1 # 4; 3 # 4] [1; 1]; DFwd [3 # 4; 1 # 4] [1; 1]; DBwd 0 [1; 1]; DBwd 1 [1; 1]]
  = [DOut [1 * (0 / (1 - (1 # 2))); 1 * (1 / (1 - (1 # 2)))]; DOut [1 * (1 / (1 - (1 # 2))); 1 * (0 / (1 - (1 # 2)))];
     DGrad [1 * (0 / (1 - (1 # 2))); 1 * (1 / (1 - (1 # 2)))]; DGrad [1 * (1 / (1 - (1 # 2))); 1 * (0 / (1 - (1 # 2)))]].
Proof. reflexivity. Qed.

(* ---- Dropout ------------------------------------------------------------------------------------------- *)
Theorem dropout_eval_identity : forall p r x, dropout p false r x = x.
Proof. exact dropout_eval. Qed.
Goal True. idtac "ASSUMPTIONS dropout_eval_identity". Abort.
Print Assumptions dropout_eval_identity.

(* p < 1: out_i = x_i * m_i / (1 - p) with m_i = 0 iff the drawn number r_i <= p *)
Theorem dropout_train_mask :
  forall p r x i xi ri, lt1 p = true -> nth_error x i = Some xi -> nth_error r i = Some ri ->
    exists oi, nth_error (dropout p true r x) i = Some oi /\
      oi == xi * (if Qle_bool ri p then 0 else 1) / (1 - p).
Proof. exact dropout_train. Qed.
Goal True. idtac "ASSUMPTIONS dropout_train_mask". Abort.
Print Assumptions dropout_train_mask.

(* the backward of x * mask_tensor goes through the very same mask entry m_i: grad_i = g_i * m_i *)
Theorem dropout_backward_same_mask :
  forall p r x g i xi gi ri,
    nth_error x i = Some xi -> nth_error g i = Some gi -> nth_error r i = Some ri ->
    exists mi, nth_error (mask_tensor p r) i = Some mi /\
      nth_error (dropout p true r x) i = Some (xi * mi) /\
      nth_error (dropout_bwd p r g) i = Some (gi * mi) /\
      (lt1 p = true -> mi == (if Qle_bool ri p then 0 else 1) / (1 - p)) /\
      (lt1 p = false -> mi = if Qle_bool ri p then 0 else 1).
Proof. exact dropout_same_mask. Qed.
Goal True. idtac "ASSUMPTIONS dropout_backward_same_mask". Abort.
Print Assumptions dropout_backward_same_mask.

(* p >= 1: every element is zeroed (np.random.rand draws from [0,1)), and the division by 1 - p is only
   performed on the branch p < 1 where the divisor is non-zero *)
Theorem dropout_p1_all_zero :
  forall p r x, 1 <= p -> Forall (fun ri => ri < 1) r -> Forall (fun y => y == 0) (dropout p true r x).
Proof. exact dropout_ge1_zero. Qed.
Goal True. idtac "ASSUMPTIONS dropout_p1_all_zero". Abort.
Print Assumptions dropout_p1_all_zero.

Theorem dropout_divisor_nonzero : forall p, lt1 p = true -> ~ 1 - p == 0.
Proof. exact lt1_nonzero. Qed.
Goal True. idtac "ASSUMPTIONS dropout_divisor_nonzero". Abort.
Print Assumptions dropout_divisor_nonzero.

(* p = 0: the identity wherever the drawn number is not exactly 0 *)
Theorem dropout_p0_identity :
  forall p r x i xi ri, p == 0 -> 0 < ri -> nth_error x i = Some xi -> nth_error r i = Some ri ->
    exists oi, nth_error (dropout p true r x) i = Some oi /\ oi == xi.
Proof. exact dropout_p0. Qed.
Goal True. idtac "ASSUMPTIONS dropout_p0_identity". Abort.
Print Assumptions dropout_p0_identity.

(* ---- non-vacuity --------------------------------------------------------------------------------------- *)
(* momentum=None, 2 features, history train-fwd, eval, eval-fwd, train, train-fwd, train-fwd:
   three training forwards, running_mean = mean of the three batch means *)
Example cumulative_example :
  let o := {| momentum := None; affine := true; track := true; eps := 1 # 1024 |} in
  let b1 := [[1; 3]; [2; 6]] in let b2 := [[2; 6]; [4; 12]] in let b3 := [[3; 9]; [6; 18]] in
  let h := [Forward b1; Eval; Forward b3; Train; Forward b2; Forward b3] in
  Forall (good_batch 2) (train_batches true h) /\
  length (train_batches true h) = 3%nat /\
  nbt (run o (fresh o 2) h) = 3%nat /\
  match rmean (run o (fresh o 2) h), rvar (run o (fresh o 2) h) with
  | Some rm, Some rv => forallb (fun p => Qeq_bool (fst p) (snd p)) (combine rm [4; 8]) = true /\
                        forallb (fun p => Qeq_bool (fst p) (snd p)) (combine rv [28 # 3; 112 # 3]) = true
  | _, _ => False
  end.
Proof.
  cbn zeta. split; [|split; [|split]].
  - cbn. repeat constructor.
  - reflexivity.
  - vm_compute. reflexivity.
  - vm_compute. split; reflexivity.
Qed.

(* a batch of one sample in training mode bumps the counter and raises *)
Example batch_of_one_example :
  let o := {| momentum := Some (1 # 2); affine := false; track := true; eps := 1 # 1024 |} in
  step o (fresh o 2) (Forward [[1]; [2]]) = (bump (fresh o 2), ORaise).
Proof. reflexivity. Qed.

Example dropout_example :
  dropout (1 # 4) true [1 # 8; 1 # 2; 1 # 4] [3; 3; 3] = map2 Qmult [3; 3; 3] [0 / (1 - (1 # 4)); 1 / (1 - (1 # 4)); 0 / (1 - (1 # 4))].
Proof. reflexivity. Qed.
