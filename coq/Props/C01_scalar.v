(* C01, family 3 (elementwise non-linear tensor ops and the operator overloads) -- statements only.
   Proofs: Proofs/KernelProofs.v.  All statements are about the definitions GENERATED from
   synapgrad/cpu_ops.py (Gen/GenKernels.v), from the wrappers of synapgrad/functional.py
   (Gen/GenKernelUse.v: wrap_<op>_out = forward as called, wrap_<op>_grad_<x> g = what the closure adds
   to x.grad, including whether the kernel receives the input or the saved output) and from the
   operator overloads of synapgrad/tensor.py (Gen/GenOverloads.v).
   Over the reals: "up to floating-point rounding" is outside the model. *)
From Coq Require Import Reals ZArith Lia Lra String List.
From Coquelicot Require Import Coquelicot.
From SG Require Import Analysis.RealOps Analysis.Derive Gen.GenKernels Gen.GenKernelUse Gen.GenOverloads Proofs.KernelProofs.
Import ListNotations.
Open Scope R_scope.

(* add: derivative in each operand and linearity in the upstream gradient *)
Theorem add_vjp :
  forall x1 x2 g, is_derive (fun t => wrap_add_out t x2) x1 (wrap_add_grad_x1 1 x1 x2) /\ is_derive (fun t => wrap_add_out x1 t) x2 (wrap_add_grad_x2 1 x1 x2) /\
    wrap_add_grad_x1 g x1 x2 = g * wrap_add_grad_x1 1 x1 x2 /\ wrap_add_grad_x2 g x1 x2 = g * wrap_add_grad_x2 1 x1 x2.
Proof. exact (fun x1 x2 g => conj (add_derive_x1 x1 x2) (conj (add_derive_x2 x1 x2) (add_linear g x1 x2))). Qed.
Goal True. idtac "ASSUMPTIONS add_vjp". Abort.
Print Assumptions add_vjp.

(* mul *)
Theorem mul_vjp :
  forall x1 x2 g, is_derive (fun t => wrap_mul_out t x2) x1 (wrap_mul_grad_x1 1 x1 x2) /\ is_derive (fun t => wrap_mul_out x1 t) x2 (wrap_mul_grad_x2 1 x1 x2) /\
    wrap_mul_grad_x1 g x1 x2 = g * wrap_mul_grad_x1 1 x1 x2 /\ wrap_mul_grad_x2 g x1 x2 = g * wrap_mul_grad_x2 1 x1 x2.
Proof. exact (fun x1 x2 g => conj (mul_derive_x1 x1 x2) (conj (mul_derive_x2 x1 x2) (mul_linear g x1 x2))). Qed.
Goal True. idtac "ASSUMPTIONS mul_vjp". Abort.
Print Assumptions mul_vjp.

(* neg *)
Theorem neg_vjp :
  forall x g, is_derive wrap_neg_out x (wrap_neg_grad_x 1 x) /\ wrap_neg_grad_x g x = g * wrap_neg_grad_x 1 x.
Proof. exact (fun x g => conj (neg_derive x) (neg_linear g x)). Qed.
Goal True. idtac "ASSUMPTIONS neg_vjp". Abort.
Print Assumptions neg_vjp.

(* clone *)
Theorem clone_vjp :
  forall x g, is_derive wrap_clone_out x (wrap_clone_grad_x 1 x) /\ wrap_clone_grad_x g x = g * wrap_clone_grad_x 1 x.
Proof. exact (fun x g => conj (clone_derive x) (clone_linear g x)). Qed.
Goal True. idtac "ASSUMPTIONS clone_vjp". Abort.
Print Assumptions clone_vjp.

(* x ** n with a run-time exponent is RealOps.gpow: powerRZ for integer-valued n, Rpower otherwise.
   pow_domain x n := (exists z, n = IZR z /\ (1 <= z \/ x <> 0)) \/ ((forall z, n <> IZR z) /\ 0 < x) *)
(* pow: integer n >= 1, all x; integer n <= 0, x <> 0; non-integer n, x > 0 *)
Theorem pow_vjp :
  forall x n g, pow_domain x n -> is_derive (fun t => wrap_pow_out t n) x (wrap_pow_grad_x 1 x n) /\ wrap_pow_grad_x g x n = g * wrap_pow_grad_x 1 x n.
Proof. exact (fun x n g D => conj (pow_derive x n D) (pow_linear g x n)). Qed.
Goal True. idtac "ASSUMPTIONS pow_vjp". Abort.
Print Assumptions pow_vjp.

(* readable instances of pow_domain *)
Theorem pow_vjp_int_pos :
  forall (z:Z) x, (1 <= z)%Z -> is_derive (fun t => wrap_pow_out t (IZR z)) x (wrap_pow_grad_x 1 x (IZR z)).
Proof. exact (fun z x H => pow_derive x (IZR z) (or_introl (ex_intro _ z (conj eq_refl (or_introl H))))). Qed.
Goal True. idtac "ASSUMPTIONS pow_vjp_int_pos". Abort.
Print Assumptions pow_vjp_int_pos.

(* any integer exponent (in particular z <= 0) away from 0 *)
Theorem pow_vjp_int_nonzero :
  forall (z:Z) x, x <> 0 -> is_derive (fun t => wrap_pow_out t (IZR z)) x (wrap_pow_grad_x 1 x (IZR z)).
Proof. exact (fun z x H => pow_derive x (IZR z) (or_introl (ex_intro _ z (conj eq_refl (or_intror H))))). Qed.
Goal True. idtac "ASSUMPTIONS pow_vjp_int_nonzero". Abort.
Print Assumptions pow_vjp_int_nonzero.

(* non-integer exponent on the positive axis *)
Theorem pow_vjp_real :
  forall n x, (forall z:Z, n <> IZR z) -> 0 < x -> is_derive (fun t => wrap_pow_out t n) x (wrap_pow_grad_x 1 x n).
Proof. exact (fun n x Hn Hx => pow_derive x n (or_intror (conj Hn Hx))). Qed.
Goal True. idtac "ASSUMPTIONS pow_vjp_real". Abort.
Print Assumptions pow_vjp_real.

(* rpow n ** x, n > 0 (the closure hands the saved output to the kernel) *)
Theorem rpow_vjp :
  forall x n g, 0 < n -> is_derive (fun t => wrap_rpow_out t n) x (wrap_rpow_grad_x 1 x n) /\ wrap_rpow_grad_x g x n = g * wrap_rpow_grad_x 1 x n.
Proof. exact (fun x n g H => conj (rpow_derive x n H) (rpow_linear g x n)). Qed.
Goal True. idtac "ASSUMPTIONS rpow_vjp". Abort.
Print Assumptions rpow_vjp.

(* exp (saved output) *)
Theorem exp_vjp :
  forall x g, is_derive wrap_exp_out x (wrap_exp_grad_x 1 x) /\ wrap_exp_grad_x g x = g * wrap_exp_grad_x 1 x.
Proof. exact (fun x g => conj (exp_derive x) (exp_linear g x)). Qed.
Goal True. idtac "ASSUMPTIONS exp_vjp". Abort.
Print Assumptions exp_vjp.

(* log as computed, ln (x + epsilon): exact derivative of the computed function wherever it is defined *)
Theorem log_vjp :
  forall x g, 0 < x + epsilon -> is_derive wrap_log_out x (wrap_log_grad_x 1 x) /\ wrap_log_grad_x g x = g * wrap_log_grad_x 1 x.
Proof. exact (fun x g H => conj (log_derive x H) (log_linear g x)). Qed.
Goal True. idtac "ASSUMPTIONS log_vjp". Abort.
Print Assumptions log_vjp.

(* sqrt, x > 0 (saved output) *)
Theorem sqrt_vjp :
  forall x g, 0 < x -> is_derive wrap_sqrt_out x (wrap_sqrt_grad_x 1 x) /\ wrap_sqrt_grad_x g x = g * wrap_sqrt_grad_x 1 x.
Proof. exact (fun x g H => conj (sqrt_derive x H) (sqrt_linear g x)). Qed.
Goal True. idtac "ASSUMPTIONS sqrt_vjp". Abort.
Print Assumptions sqrt_vjp.

(* which array each backward kernel receives, as extracted from the wrappers *)
Example saved_value_table :
  map (fun k => (ku_wrapper k, ku_backward_args k)) (filter (fun k => existsb (String.eqb (ku_wrapper k)) ["rpow"; "exp"; "log"; "sqrt"; "pow"]%string) kernel_uses)
  = [("pow", [UGrad; UIn "x"; UParam "n"]); ("rpow", [UGrad; UOut; UParam "n"]); ("exp", [UGrad; UOut]);
     ("log", [UGrad; UIn "x"]); ("sqrt", [UGrad; UOut])]%string.
Proof. reflexivity. Qed.

(* ---- operator overloads: Tensor.__neg__/__sub__/__rsub__/__truediv__/__rtruediv__/__radd__/__rmul__ *)
(* each expansion over the real add/mul/pow computes the mathematical operation (b <> 0 resp. a <> 0 is NumPy's domain; the equation itself holds for the total real division) *)
Theorem overload_expansions :
  forall a b, (ov_neg wrap_add_out wrap_mul_out wrap_pow_out wrap_rpow_out) a = - a /\ (ov_sub wrap_add_out wrap_mul_out wrap_pow_out wrap_rpow_out) a b = a - b /\ (ov_rsub wrap_add_out wrap_mul_out wrap_pow_out wrap_rpow_out) a b = b - a /\
    (ov_truediv wrap_add_out wrap_mul_out wrap_pow_out wrap_rpow_out) a b = a / b /\ (ov_rtruediv wrap_add_out wrap_mul_out wrap_pow_out wrap_rpow_out) a b = b / a /\ (ov_radd wrap_add_out wrap_mul_out wrap_pow_out wrap_rpow_out) a b = b + a /\ (ov_rmul wrap_add_out wrap_mul_out wrap_pow_out wrap_rpow_out) a b = b * a.
Proof. exact (fun a b => conj (ov_neg_eq a) (conj (ov_sub_eq a b) (conj (ov_rsub_eq a b) (conj (ov_truediv_eq a b) (conj (ov_rtruediv_eq a b) (conj (ov_radd_eq a b) (ov_rmul_eq a b))))))). Qed.
Goal True. idtac "ASSUMPTIONS overload_expansions". Abort.
Print Assumptions overload_expansions.

(* the chain rule in the form the engine applies it: backward of (h o f) is bf o bh *)
Theorem vjp_composition :
  forall (f h bf bh : R -> R) x, (forall g, bf g = g * bf 1) -> is_derive f x (bf 1) -> is_derive h (f x) (bh 1) -> is_derive (fun t => h (f t)) x (bf (bh 1)).
Proof. exact vjp_comp. Qed.
Goal True. idtac "ASSUMPTIONS vjp_composition". Abort.
Print Assumptions vjp_composition.

(* gradients of the expansions (chains of the generated backward kernels) are the derivatives *)
Theorem overload_vjps :
  forall a b,
    is_derive (fun t => (ov_neg wrap_add_out wrap_mul_out wrap_pow_out wrap_rpow_out) t) a (neg_grad_self 1 a) /\
    is_derive (fun t => (ov_sub wrap_add_out wrap_mul_out wrap_pow_out wrap_rpow_out) t b) a (sub_grad_self 1 a b) /\
    is_derive (fun t => (ov_sub wrap_add_out wrap_mul_out wrap_pow_out wrap_rpow_out) a t) b (sub_grad_other 1 a b) /\
    is_derive (fun t => (ov_rsub wrap_add_out wrap_mul_out wrap_pow_out wrap_rpow_out) t b) a (rsub_grad_self 1 a b) /\
    is_derive (fun t => (ov_truediv wrap_add_out wrap_mul_out wrap_pow_out wrap_rpow_out) t b) a (div_grad_self 1 a b) /\
    (b <> 0 -> is_derive (fun t => (ov_truediv wrap_add_out wrap_mul_out wrap_pow_out wrap_rpow_out) a t) b (div_grad_other 1 a b)) /\
    (a <> 0 -> is_derive (fun t => (ov_rtruediv wrap_add_out wrap_mul_out wrap_pow_out wrap_rpow_out) t b) a (rdiv_grad_self 1 a b)).
Proof. exact (fun a b => conj (ov_neg_derive a) (conj (ov_sub_derive_self a b) (conj (ov_sub_derive_other a b) (conj (ov_rsub_derive_self a b) (conj (ov_truediv_derive_self a b) (conj (ov_truediv_derive_other a b) (ov_rtruediv_derive_self a b))))))). Qed.
Goal True. idtac "ASSUMPTIONS overload_vjps". Abort.
Print Assumptions overload_vjps.

(* closed forms of what each operand finally receives for the upstream gradient g *)
Theorem overload_grads :
  forall g a b, neg_grad_self g a = - g /\ sub_grad_self g a b = g /\ sub_grad_other g a b = - g /\ rsub_grad_self g a b = - g /\
    div_grad_self g a b = g / b /\ (b <> 0 -> div_grad_other g a b = - g * a / (b * b)) /\ (a <> 0 -> rdiv_grad_self g a b = - g * b / (a * a)).
Proof. exact overload_grads_closed_form. Qed.
Goal True. idtac "ASSUMPTIONS overload_grads". Abort.
Print Assumptions overload_grads.

(* ---- lifting to tensors of any size: vectors are lists, dot g y = sum_i g_i y_i, axpy t v x = x + t v *)
(* an elementwise map has a diagonal Jacobian: <g, d/dt f(x + t v)> = <bwd(g, x), v> *)
Theorem elementwise_tensor_vjp :
  forall (f : R -> R) (b : R -> R -> R) (dom : R -> Prop),
    (forall x, dom x -> is_derive f x (b 1 x)) -> (forall g x, b g x = g * b 1 x) ->
    forall x g v, length g = length x -> length v = length x -> List.Forall dom x ->
      is_derive (fun t => dot g (map f (axpy t v x))) 0 (dot (map2 b g x) v).
Proof. exact lift_kernel. Qed.
Goal True. idtac "ASSUMPTIONS elementwise_tensor_vjp". Abort.
Print Assumptions elementwise_tensor_vjp.

(* instances of the lifting (one per unary kernel; binary ops are lifted operand-wise in the same way) *)
Theorem exp_tensor_vjp :
  forall x g v, length g = length x -> length v = length x ->
    is_derive (fun t => dot g (map wrap_exp_out (axpy t v x))) 0 (dot (map2 wrap_exp_grad_x g x) v).
Proof. exact (fun x g v Lg Lv => lift_kernel wrap_exp_out wrap_exp_grad_x (fun _ => True) (fun x _ => exp_derive x) exp_linear x g v Lg Lv (proj2 (List.Forall_forall _ x) (fun _ _ => I))). Qed.
Goal True. idtac "ASSUMPTIONS exp_tensor_vjp". Abort.
Print Assumptions exp_tensor_vjp.

(* log on tensors whose entries satisfy x_i + epsilon > 0 *)
Theorem log_tensor_vjp :
  forall x g v, length g = length x -> length v = length x -> List.Forall (fun xi => 0 < xi + epsilon) x ->
    is_derive (fun t => dot g (map wrap_log_out (axpy t v x))) 0 (dot (map2 wrap_log_grad_x g x) v).
Proof. exact (lift_kernel wrap_log_out wrap_log_grad_x (fun xi => 0 < xi + epsilon) log_derive log_linear). Qed.
Goal True. idtac "ASSUMPTIONS log_tensor_vjp". Abort.
Print Assumptions log_tensor_vjp.

(* sqrt on positive tensors *)
Theorem sqrt_tensor_vjp :
  forall x g v, length g = length x -> length v = length x -> List.Forall (fun xi => 0 < xi) x ->
    is_derive (fun t => dot g (map wrap_sqrt_out (axpy t v x))) 0 (dot (map2 wrap_sqrt_grad_x g x) v).
Proof. exact (lift_kernel wrap_sqrt_out wrap_sqrt_grad_x (fun xi => 0 < xi) sqrt_derive sqrt_linear). Qed.
Goal True. idtac "ASSUMPTIONS sqrt_tensor_vjp". Abort.
Print Assumptions sqrt_tensor_vjp.

(* pow with a fixed exponent n on tensors inside the domain *)
Theorem pow_tensor_vjp :
  forall n x g v, length g = length x -> length v = length x -> List.Forall (fun xi => pow_domain xi n) x ->
    is_derive (fun t => dot g (map (fun a => wrap_pow_out a n) (axpy t v x))) 0 (dot (map2 (fun g a => wrap_pow_grad_x g a n) g x) v).
Proof. exact (fun n => lift_kernel (fun a => wrap_pow_out a n) (fun g a => wrap_pow_grad_x g a n) (fun xi => pow_domain xi n) (fun x D => pow_derive x n D) (fun g x => pow_linear g x n)). Qed.
Goal True. idtac "ASSUMPTIONS pow_tensor_vjp". Abort.
Print Assumptions pow_tensor_vjp.

(* rpow with a fixed base n > 0 *)
Theorem rpow_tensor_vjp :
  forall n, 0 < n -> forall x g v, length g = length x -> length v = length x ->
    is_derive (fun t => dot g (map (fun a => wrap_rpow_out a n) (axpy t v x))) 0 (dot (map2 (fun g a => wrap_rpow_grad_x g a n) g x) v).
Proof. exact (fun n Hn x g v Lg Lv => lift_kernel (fun a => wrap_rpow_out a n) (fun g a => wrap_rpow_grad_x g a n) (fun _ => True) (fun x _ => rpow_derive x n Hn) (fun g x => rpow_linear g x n) x g v Lg Lv (proj2 (List.Forall_forall _ x) (fun _ _ => I))). Qed.
Goal True. idtac "ASSUMPTIONS rpow_tensor_vjp". Abort.
Print Assumptions rpow_tensor_vjp.

(* non-vacuity: the domains are inhabited and the definitions compute what one expects *)
Example pow_domain_examples : pow_domain (-3) 2 /\ pow_domain 0 1 /\ pow_domain (-2) (-1) /\ pow_domain 2 (1/2).
Proof.
  split; [left; exists 2%Z; split; [reflexivity|left; lia]|].
  split; [left; exists 1%Z; split; [reflexivity|left; lia]|].
  split; [left; exists (-1)%Z; split; [reflexivity|right; lra]|].
  right. split; [|lra]. intros z E.
  assert (H: IZR 1 = IZR (2 * z)) by (rewrite mult_IZR; lra). apply eq_IZR in H. lia.
Qed.
Example pow_grad_example : wrap_pow_grad_x 1 (-3) 2 = -6.
Proof. unfold wrap_pow_grad_x, pow_backward. replace (2 - 1) with (IZR 1) by lra. rewrite gpow_int. simpl. lra. Qed.

