(* C10 — results and gradients keep the operand's floating dtype and exact shape.
   Only statements; proofs live in Proofs/DtypeProofs.v.  Each theorem is followed by Print Assumptions.

   The tables op_rows / layer_rows / wrapper_rows / kernel_table and the flags gen_cfg, zero_is_zeros_like_data,
   seed_added_in_place ... are GENERATED from the source (Gen/GenDtype.v, translator lib/py2coq/gen_dtype.py): the
   statements quantified over them have the finite domain "the ops, layers and losses present in the source, with
   every kind of configuration argument their signatures allow" and are decided by vm_compute, lifted with
   forallb_forall.  The statements about buffers (the grad theorems) are for all shapes, dtypes and sequences (induction).

   The shape half for broadcasting operations (unbroadcast returns exactly the operand's shape) is Props/C10_shapes.v
   (another package); here the shape of a gradient follows from "the buffer is zeros_like(data) and is only ever
   written in place". *)
From Coq Require Import List Bool Arith String.
Import ListNotations.
From SG Require Import Base.Cmp IR.Dtype Gen.GenDtype Proofs.DtypeProofs.

(* ---- NumPy promotion (NEP 50) on {bool, int64, float16, float32, float64} ------------------------------------ *)
Theorem promote_comm : forall a b, join a b = join b a.
Proof. exact join_comm. Qed.
Goal True. idtac "ASSUMPTIONS promote_comm". Abort.
Print Assumptions promote_comm.

Theorem promote_assoc : forall a b c, join a (join b c) = join (join a b) c.
Proof. exact join_assoc. Qed.
Goal True. idtac "ASSUMPTIONS promote_assoc". Abort.
Print Assumptions promote_assoc.

Theorem promote_idem : forall a, join a a = a.
Proof. exact join_idem. Qed.
Goal True. idtac "ASSUMPTIONS promote_idem". Abort.
Print Assumptions promote_idem.

(* a Python int / float / bool operand never changes the dtype of a floating array (+ - * / **, either side) *)
Theorem weak_scalar_never_widens_float_array :
  forall d k w, is_float d = true -> weak w ->
    (exists k', arith (Np d k) w = Np d k') /\ (exists k', arith w (Np d k) = Np d k') /\
    (exists k', divv (Np d k) w = Np d k') /\ (exists k', divv w (Np d k) = Np d k') /\
    (exists k', powv (Np d k) w = Np d k') /\ (exists k', powv w (Np d k) = Np d k').
Proof. exact weak_scalar_keeps_float. Qed.
Goal True. idtac "ASSUMPTIONS weak_scalar_never_widens_float_array". Abort.
Print Assumptions weak_scalar_never_widens_float_array.

(* ---- forward results ------------------------------------------------------------------------------------------------ *)
(* every public op (wrappers of functional.py / nn/functional.py, operator overloads and methods of Tensor with a
   tensor or a Python-scalar second operand), every layer, activation and loss (each reduction), for every kind of
   configuration argument, train and eval: with float32 operands every possible result is float32, with float64
   operands float64 (integer label operands of nll/cross-entropy excepted; an empty set = the call raises). *)
Theorem forward_preserves_float_dtype :
  forall r, In r (op_rows ++ layer_rows) -> forall d, In d [F32; F64] ->
    all_dtype d (op_result gen_cfg d d r) = true.
Proof.
  intros r Hr d Hd.
  pose proof (forallb_In _ _ fwd_ok_all r Hr) as H. unfold fwd_ok in H.
  exact (forallb_In _ _ H d Hd).
Qed.
Goal True. idtac "ASSUMPTIONS forward_preserves_float_dtype". Abort.
Print Assumptions forward_preserves_float_dtype.

(* mixed operands are NOT constrained by the property; what the code does: the result has the first operand's dtype
   or the NumPy promotion of the two (float32 with float64 -> float64).  Layers hold float32 parameters: a float64
   input gives float64 (d = F64), a float32 input through BatchNorm(dtype=float64) gives float64 (the promotion). *)
Theorem mixed_dtype_promotes :
  forall r, In r (op_rows ++ layer_rows) -> forall d d2, In d [F32; F64] -> In d2 [F32; F64] ->
    in_dtypes [d; join d d2] (op_result gen_cfg d d2 r) = true.
Proof.
  intros r Hr d d2 Hd Hd2.
  pose proof (forallb_In _ _ mixed_ok_all r Hr) as H. unfold mixed_ok in H.
  pose proof (forallb_In _ _ H d Hd) as H1. exact (forallb_In _ _ H1 d2 Hd2).
Qed.
Goal True. idtac "ASSUMPTIONS mixed_dtype_promotes". Abort.
Print Assumptions mixed_dtype_promotes.

(* no hidden default-dtype temporaries: op wrappers and parameter-free layers / losses (Flatten, Dropout, pools,
   Unfold/Fold, activations, every loss and reduction) do not route a floating operand through a tensor of the default
   type (float32): probed with float16 operands, which come back float16.  (Before fix c689c99 the Dropout mask was
   `synapgrad.tensor(mask)` = float32: a float64 input was scaled by 1/(1-p) rounded to float32.)  The operator
   overloads with a Python-scalar operand have their own statement below (scalar_operands_take_tensor_dtype). *)
Theorem no_hidden_default_dtype_temporaries :
  forall r, In r (wrapper_rows ++ param_free_layer_rows) -> all_dtype F16 (op_result gen_cfg F16 F16 r) = true.
Proof. intros r Hr. exact (forallb_In _ _ probe_ok_all r Hr). Qed.
Goal True. idtac "ASSUMPTIONS no_hidden_default_dtype_temporaries". Abort.
Print Assumptions no_hidden_default_dtype_temporaries.

Example dropout_probe :
  deval0 gen_cfg [Np F16 KArray; PyBool (Some true); PyFloat] l_Dropout = [Np F16 KArray] /\
  existsb (fun r => str_eqb (op_name r) "Dropout#0") param_free_layer_rows = true.
Proof. vm_compute. split; reflexivity. Qed.

(* Python-scalar operands (since fix 31131bc: Tensor._wrap_scalar, translated from its AST): a Python int / float / bool
   operand of + - * / ** and their reflected forms, and of unary minus (self * -1.0), is wrapped as an array of the
   TENSOR's floating dtype, hence never changes a floating tensor's dtype - for every floating dtype, float16
   included (x64 * 0.1 multiplies by 0.1 in float64, not by float32(0.1)).  Finite domain: the overload rows present
   in the source with a Python-scalar second operand (@ excepted: a scalar is not a valid matmul operand). *)
Theorem scalar_operands_take_tensor_dtype :
  (forall d w, In d [F16; F32; F64] -> In w py_scalars ->
     list_eqb_abs (deval0 gen_cfg [Np d KArray; w] scalar_wrap) [Np d KArray] = true) /\
  (forall r, In r scalar_operand_rows -> forall d, In d [F16; F32; F64] ->
     all_dtype d (op_result gen_cfg d d r) = true).
Proof.
  split.
  - intros d w Hd Hw. pose proof (forallb_In _ _ wrap_ok_all d Hd) as H. exact (forallb_In _ _ H w Hw).
  - intros r Hr d Hd. pose proof (forallb_In _ _ scalar_row_ok_all r Hr) as H. unfold scalar_row_ok in H.
    exact (forallb_In _ _ H d Hd).
Qed.
Goal True. idtac "ASSUMPTIONS scalar_operands_take_tensor_dtype". Abort.
Print Assumptions scalar_operands_take_tensor_dtype.

(* what is still wrapped with the default float32 for floating tensors: non-scalar Python data (lists) and the operand
   of @ / reflected @ (`Tensor(tensor)`; the call raises anyway: matmul needs two dimensions).  Operands of
   NON-floating tensors are float32-wrapped too (int64 tensor * 2 is float64): outside this property, see the notes. *)
Example still_wrapped_in_float32 :
  deval0 gen_cfg [Np F64 KArray; ShapeV] scalar_wrap = [Np F32 KArray] /\
  deval0 gen_cfg [Np F16 KArray; PyFloat] m___matmul__ = [Np F32 KArray] /\
  Nat.leb 30 (List.length scalar_operand_rows) = true /\
  forallb (fun r => forallb (fun d => negb (is_nil (op_result gen_cfg d d r))) [F16; F32; F64]) scalar_operand_rows = true.
Proof. vm_compute. repeat split; reflexivity. Qed.

Example mixed_add_f32_f64 :
  map (fun r => op_result gen_cfg F32 F64 r) (filter (fun r => str_eqb (op_name r) "functional.add#0") op_rows) = [[Np F64 KArray]].
Proof. vm_compute. reflexivity. Qed.

Example linear_layer_f64_input_f32_parameters :
  deval0 gen_cfg [Np F64 KArray; PyBool (Some true); PyInt; PyInt; PyBool (Some true)] l_Linear = [Np F64 KArray].
Proof. vm_compute. reflexivity. Qed.

(* ---- 0-d results -------------------------------------------------------------------------------------------------------- *)
(* full reductions return a NumPy scalar (np.generic), element indexing an array or a scalar; the constructor keeps
   their dtype (generated flag ctor_keeps_generic), so x.sum() / x.mean() / x.max() / x.min() / x[i, j] and the reduced
   losses have exactly the operand's dtype. *)
Definition full_reduction_kernels : list dexpr :=
  [k_cpu_ops_sum_forward; k_cpu_ops_mean_forward; k_cpu_ops_max_forward; k_cpu_ops_min_forward].

Definition zero_d_methods : list dexpr := [m_sum; m_mean; m_max; m_min].

Definition reduced_losses : list dexpr :=
  [l_MSELoss_mean; l_MSELoss_sum; l_BCELoss_mean; l_BCELoss_sum; l_BCEWithLogitsLoss_mean; l_BCEWithLogitsLoss_sum].
Definition reduced_label_losses : list dexpr :=
  [l_NLLLoss_mean; l_NLLLoss_sum; l_CrossEntropyLoss_mean; l_CrossEntropyLoss_sum].

Definition zero_d_ok (d : dtype) : bool :=
  ctor_keeps_generic gen_cfg &&
  forallb (fun k => list_eqb_abs (deval0 gen_cfg [Np d KArray; NoneV; PyBool (Some false)] k) [Np d KScalar]) full_reduction_kernels &&
  all_scalar_kind (deval0 gen_cfg [Np d KArray; OpaqueV] k_cpu_ops_slice_forward) &&
  negb (is_nil (deval0 gen_cfg [Np d KArray; OpaqueV] k_cpu_ops_slice_forward)) &&
  forallb (fun m => list_eqb_abs (deval0 gen_cfg [Np d KArray; NoneV; PyBool (Some false)] m) [Np d KArray]) zero_d_methods &&
  list_eqb_abs (deval0 gen_cfg [Np d KArray; OpaqueV] m___getitem__) [Np d KArray] &&
  forallb (fun l => list_eqb_abs (deval0 gen_cfg [Np d KArray; Np d KArray; PyBool (Some true); OpaqueV] l) [Np d KArray]) reduced_losses &&
  forallb (fun l => list_eqb_abs (deval0 gen_cfg [Np d KArray; Np DInt KArray; PyBool (Some true); OpaqueV] l) [Np d KArray]) reduced_label_losses.

Theorem zero_d_results_keep_dtype : forall d, In d [F32; F64] -> zero_d_ok d = true.
Proof. intros d [<-|[<-|[]]]; vm_compute; reflexivity. Qed.
Goal True. idtac "ASSUMPTIONS zero_d_results_keep_dtype". Abort.
Print Assumptions zero_d_results_keep_dtype.

(* the dependence on the flag: were NumPy scalars converted like other non-array data (code before fix 99967a5),
   a float64 full reduction would come back in the default float32 *)
Example zero_d_needs_the_flag :
  deval0 (mkCfg false F32) [Np F64 KArray; NoneV; PyBool (Some false)] m_sum = [Np F32 KArray].
Proof. vm_compute. reflexivity. Qed.

(* ---- gradients ------------------------------------------------------------------------------------------------------------ *)
(* every accumulation of every op wrapper writes the operand's buffer in place (`x._grad += piece` / `-=`) *)
Theorem all_accumulations_in_place :
  forall r, In r wrapper_rows -> forall a, In a (op_accs r) -> snd a = true.
Proof.
  intros r Hr a Ha. pose proof (forallb_In _ _ accs_in_place_all r Hr) as H. unfold accs_in_place in H.
  exact (forallb_In _ _ H a Ha).
Qed.
Goal True. idtac "ASSUMPTIONS all_accumulations_in_place". Abort.
Print Assumptions all_accumulations_in_place.

(* every value a backward closure accumulates is a floating array whatever the floating dtypes of the operands and of
   the upstream gradient (float32 or float64 each): the same-kind cast of the in-place ufunc cannot fail.
   (Some of these values are float64 for float32 operands - unbroadcast's `np.zeros(shape) + grad`, mean_backward's
   division by np.prod(...), nll_loss/unfold_dim backward's np.zeros(shape), rpow's np.log(n) - harmless in place.) *)
Theorem backward_values_castable :
  forall r, In r wrapper_rows -> forall j, j < List.length (op_accs r) ->
    arg_absent r (fst (nth j (op_accs r) (0, false))) = false ->
    forall d d2 g, In d [F32; F64] -> In d2 [F32; F64] -> In g [F32; F64] ->
      all_float (acc_values gen_cfg d d2 g r j) = true.
Proof.
  intros r Hr j Hj Habs d d2 g Hd Hd2 Hg.
  pose proof (forallb_In _ _ acc_castable_all r Hr) as H. unfold acc_castable in H.
  assert (Hin : In j (seq 0 (List.length (op_accs r)))) by (apply in_seq; split; [apply Nat.le_0_l | exact Hj]).
  pose proof (forallb_In _ _ H j Hin) as H1. cbv beta in H1. rewrite Habs in H1. rewrite orb_false_l in H1.
  pose proof (forallb_In _ _ H1 d Hd) as H2. pose proof (forallb_In _ _ H2 d2 Hd2) as H3.
  exact (forallb_In _ _ H3 g Hg).
Qed.
Goal True. idtac "ASSUMPTIONS backward_values_castable". Abort.
Print Assumptions backward_values_castable.

(* in-place accumulation keeps the buffer's dtype and shape *)
Theorem inplace_keeps_buffer : forall b v b', inplace b v = Some b' -> fst b' = fst b /\ snd b' = snd b.
Proof. exact inplace_keeps_dtype_shape. Qed.
Goal True. idtac "ASSUMPTIONS inplace_keeps_buffer". Abort.
Print Assumptions inplace_keeps_buffer.

(* after backward, for every tensor (root or not), every dtype and shape of the upstream gradient and every sequence of
   accumulated pieces (any dtypes, any shapes): if backward completes, .grad has exactly the tensor's dtype and shape.
   The generated flags say: buffers are zeros_like(data) (zero_), the root is seeded in place (since fix d4325f2). *)
Theorem grad_dtype_shape_invariant :
  zero_is_zeros_like_data = true /\ children_zeroed_before_use = true /\
  forall is_root data upstream vs b',
    final_grad seed_added_in_place is_root data upstream vs = Some b' ->
    fst b' = fst data /\ snd b' = snd data.
Proof.
  split; [reflexivity|]. split; [reflexivity|].
  change seed_added_in_place with true. exact final_grad_invariant.
Qed.
Goal True. idtac "ASSUMPTIONS grad_dtype_shape_invariant". Abort.
Print Assumptions grad_dtype_shape_invariant.

(* ... and it does complete for a floating tensor when the pieces' shapes broadcast into the tensor's shape (that they
   do - in fact that they are equal - is the unbroadcast theorem of Props/C10_shapes.v) *)
Theorem grad_accumulation_never_fails :
  forall is_root data upstream vs,
    is_float (fst data) = true ->
    broadcasts_to (snd upstream) (snd data) = true ->
    Forall (fun v => broadcasts_to (snd v) (snd data) = true) vs ->
    final_grad seed_added_in_place is_root data upstream vs = Some data.
Proof. change seed_added_in_place with true. exact final_grad_total. Qed.
Goal True. idtac "ASSUMPTIONS grad_accumulation_never_fails". Abort.
Print Assumptions grad_accumulation_never_fails.

(* ---- layers with state (BatchNorm1d/2d): histories -------------------------------------------------------------------------- *)
(* stateful_rows: every constructor configuration of the classes whose forward changes attributes of self - BatchNorm,
   BatchNorm1d, BatchNorm2d x momentum in {a float, None (cumulative average)} x affine x track_running_stats x
   dtype in {None (float32), the input's dtype}.  State = all attributes (running_mean / running_var are rebound by the
   batch_norm wrapper to what the kernel returns; num_batches_tracked is incremented; the averaging factor
   `1.0 / float(self.num_batches_tracked)` is a weak Python float).
   For every configuration whose buffers and parameters have dtype d, and EVERY history h of training / eval forwards
   (any number, any interleaving; in particular n >= 0 training forwards followed by an eval forward) on inputs of dtype d:
   every output of every call has dtype d and all floating buffers / parameters still have dtype d afterwards.
   Proof: the set of reachable states is computed and checked closed by vm_compute (one-step lemma, finite), the
   statement for all histories follows by induction on h (Proofs/DtypeProofs.v history_invariant). *)
Theorem batchnorm_history_keeps_dtype :
  forall r, In r stateful_rows -> forall d, In d [F32; F64] ->
    forallb (good_state d) (sl_init_states gen_cfg d d r) = true ->
    forall h : list bool,
      let res := sl_run gen_cfg r (map (fun tr => (tr, Np d KArray)) h) (sl_init_states gen_cfg d d r) in
      forallb (all_dtype d) (fst res) = true /\ forallb (good_state d) (snd res) = true.
Proof.
  intros r Hr d Hd Hg h.
  pose proof (forallb_In _ _ sl_rows_ok_true r Hr) as H. unfold sl_row_ok2 in H. apply andb_true_iff in H. destruct H as [H32 H64].
  destruct Hd as [<-|[<-|[]]]; [exact (sl_row_history r F32 H32 Hg h) | exact (sl_row_history r F64 H64 Hg h)].
Qed.
Goal True. idtac "ASSUMPTIONS batchnorm_history_keeps_dtype". Abort.
Print Assumptions batchnorm_history_keeps_dtype.

Definition sl_find (n : string) : slrow :=
  hd (mkSL "" [] DRaise DRaise) (filter (fun r => str_eqb (sl_name r) n) stateful_rows).

(* non-vacuity: 48 configurations; the hypothesis holds for all of them with d = F32 ... (float32 layers and layers built
   with dtype=float32) and for the float64-built ones with d = F64; initial states exist; a concrete history:
   BatchNorm1d(momentum=None), float32, train, train, eval *)
Example batchnorm_history_nonvacuous :
  List.length stateful_rows = 48 /\
  forallb (fun r => negb (is_nil (sl_init_states gen_cfg F32 F32 r)) && forallb (good_state F32) (sl_init_states gen_cfg F32 F32 r)) stateful_rows = true /\
  List.length (filter (fun r => forallb (good_state F64) (sl_init_states gen_cfg F64 F64 r)) stateful_rows) = 30 /\
  (let r := sl_find "BatchNorm1d#14" in
   sl_ctor r = [AFix PyInt; AFix PyFloat; AFix NoneV; AFix (PyBool (Some true)); AFix (PyBool (Some true)); AFix NoneV] /\
   fst (sl_run gen_cfg r [(true, Np F32 KArray); (true, Np F32 KArray); (false, Np F32 KArray)] (sl_init_states gen_cfg F32 F32 r))
     = [[Np F32 KArray]; [Np F32 KArray]; [Np F32 KArray]]).
Proof. vm_compute. repeat split; reflexivity. Qed.

(* NOT constrained (input dtype differs from the layer's buffers), recorded: the statistics follow the INPUT of a training
   forward, and a later eval forward follows the statistics.
   (1) float32 layer, float64 training batch: output float64, running statistics become float64; a following eval
       forward on float32 input returns float64 (history dependence through the buffers);
   (2) layer built with dtype=float64, float32 input: the training output is float32 or float64 (`x_norm *= gamma` is in
       place for an ndarray: float32 on the real code), the eval output is float64. *)
Example mixed_history_promotes :
  (let r := sl_find "BatchNorm1d#6" in
   sl_run gen_cfg r [(true, Np F64 KArray); (false, Np F32 KArray)] (sl_init_states gen_cfg F32 F32 r) =
   ([[Np F64 KArray]; [Np F64 KArray]],
    [TupV [PyBool (Some true); Np F32 KArray; PyFloat; PyFloat; PyInt; PyInt; Np F64 KEither; Np F64 KEither;
           PyBool (Some true); Np F32 KArray]])) /\
  (let r := sl_find "BatchNorm1d#7" in
   fst (sl_run gen_cfg r [(true, Np F32 KArray); (false, Np F32 KArray)] (sl_init_states gen_cfg F32 F64 r)) =
   [[Np F32 KArray; Np F64 KArray]; [Np F64 KArray]]).
Proof. vm_compute. split; reflexivity. Qed.

(* ---- non-vacuity ------------------------------------------------------------------------------------------------------------ *)
Example tables_nonempty :
  forallb (fun n => existsb (fun r => str_eqb (op_name r) n) (op_rows ++ layer_rows))
    ["functional.add#0"; "functional.mul#0"; "functional.matmul#0"; "functional.sum#0"; "functional.mean#0";
     "functional.max#0"; "functional.slice#0"; "nn.functional.mse_loss#0"; "nn.functional.nll_loss#0";
     "nn.functional.binary_cross_entropy#0"; "nn.functional.binary_cross_entropy_with_logits#0";
     "nn.functional.cross_entropy#0"; "nn.functional.conv2d#0"; "nn.functional.batch_norm#0"; "Tensor.__add__#1";
     "Tensor.__truediv__#1"; "Tensor.__rpow__#1"; "Linear#0"; "Conv2d#0"; "BatchNorm2d#0"; "Dropout#0";
     "MSELoss_mean#0"; "CrossEntropyLoss_sum#0"]%string = true
  /\ Nat.leb 300 (List.length op_rows) = true /\ Nat.leb 300 (List.length layer_rows) = true /\ Nat.leb 80 (List.length kernel_table) = true.
Proof. vm_compute. repeat split; reflexivity. Qed.

(* every row returns something for both dtypes (no statement above is true because a call always raises), except the two
   rows `x ** tensor` / `tensor ** x` with a Tensor exponent, which functional.pow / rpow reject (ValueError) *)
Example rows_return :
  forallb (fun d => list_eqb Dtype.str_eqb
                      (map op_name (filter (fun r => is_nil (op_result gen_cfg d d r)) (op_rows ++ layer_rows)))
                      ["Tensor.__pow__#0"; "Tensor.__rpow__#0"]%string) [F32; F64] = true.
Proof. vm_compute. reflexivity. Qed.

Example sum_forward_value :
  deval0 gen_cfg [Np F32 KArray; NoneV; PyBool (Some false)] k_cpu_ops_sum_forward = [Np F32 KScalar] /\
  deval0 gen_cfg [Np F32 KArray; PyInt; PyBool (Some false)] k_cpu_ops_sum_forward = [Np F32 KEither] /\
  deval0 gen_cfg [Np F32 KArray; Np F64 KArray] k_cpu_ops_add_forward = [Np F64 KEither] /\
  (* x + 2.0 : the Python scalar is wrapped as a 0-d ARRAY (strong) of the tensor's floating dtype *)
  deval0 gen_cfg [Np F32 KArray; PyFloat] m___add__ = [Np F32 KArray] /\
  deval0 gen_cfg [Np F64 KArray; PyFloat] m___add__ = [Np F64 KArray] /\
  deval0 gen_cfg [Np F16 KArray; PyFloat] m___add__ = [Np F16 KArray] /\
  (* x ** 2 : the exponent reaches the kernel as a weak Python number *)
  deval0 gen_cfg [Np F16 KArray; PyInt] m___pow__ = [Np F16 KArray].
Proof. vm_compute. repeat split; reflexivity. Qed.

(* backward kernels that return float64 for float32 operands (accumulated in place, hence harmless) *)
Example float64_backward_values :
  deval0 gen_cfg [Np F32 KArray; ShapeV; NoneV; PyBool (Some false)] k_cpu_ops_mean_backward = [Np F64 KEither] /\
  deval0 gen_cfg [Np F32 KArray; Np F32 KArray; PyFloat] k_cpu_ops_rpow_backward = [Np F64 KEither] /\
  deval0 gen_cfg [Np F32 KArray; Np F32 KArray; Np DInt KArray] k_cpu_ops_nll_loss_backward = [Np F64 KEither] /\
  inplace (F32, [2; 3]) (F64, [2; 3]) = Some (F32, [2; 3]) /\ inplace (F32, [2; 3]) (F64, [3]) = Some (F32, [2; 3]) /\
  inplace (F32, [2; 3]) (F64, [3; 2]) = None.
Proof. vm_compute. repeat split; reflexivity. Qed.
