(* Facts about the generated wrapper summaries (Gen/GenWrappers.v), shared by C03, C07, C17, C01, C02. *)
From Coq Require Import List String Bool.
Import ListNotations.
From SG Require Import Engine.Graph IR.Wrappers Gen.GenWrappers.

(* every op wrapper present in the source: requires_grad = any(children), children = all tensor operands,
   closure attached iff the result requires grad, the closure reads the result's own buffer, and every
   differentiable operand receives exactly one accumulation (+= or -=) guarded by its own flag; nothing
   else is written.  Finite domain = "the wrappers present in functional.py and nn/functional.py". *)
Lemma wrappers_ok_all : forallb wrapper_ok wrappers = true.
Proof. vm_compute. reflexivity. Qed.

Theorem wrappers_wellformed : forall w, In w wrappers -> wrapper_ok w = true.
Proof. apply forallb_forall. exact wrappers_ok_all. Qed.
Goal True. idtac "ASSUMPTIONS wrappers_wellformed". Abort.
Print Assumptions wrappers_wellformed.

(* the op catalogue is not empty and contains the ops the properties name *)
Example wrappers_nonempty :
  forallb (fun n => existsb (fun w => str_eqb (w_name w) n) wrappers)
    ["functional.add"; "functional.mul"; "functional.matmul"; "functional.addmm"; "functional.pow"; "functional.rpow";
     "functional.slice"; "functional.concat"; "functional.stack"; "functional.unbind"; "functional.clone"; "functional.exp";
     "functional.log"; "functional.sqrt"; "functional.sum"; "functional.mean"; "functional.max"; "functional.min";
     "functional.squeeze"; "functional.unsqueeze"; "functional.reshape"; "functional.movedim"; "functional.transpose";
     "functional.flatten"; "functional.unfold_dim";
     "nn.functional.relu"; "nn.functional.leaky_relu"; "nn.functional.selu"; "nn.functional.tanh"; "nn.functional.sigmoid";
     "nn.functional.softmax"; "nn.functional.log_softmax"; "nn.functional.mse_loss"; "nn.functional.nll_loss";
     "nn.functional.binary_cross_entropy"; "nn.functional.binary_cross_entropy_with_logits"; "nn.functional.cross_entropy";
     "nn.functional.linear"; "nn.functional.max_pool1d"; "nn.functional.max_pool2d"; "nn.functional.avg_pool1d";
     "nn.functional.avg_pool2d"; "nn.functional.unfold"; "nn.functional.fold"; "nn.functional.conv1d"; "nn.functional.conv2d";
     "nn.functional.batch_norm"]%string = true.
Proof. vm_compute. reflexivity. Qed.

(* meaning for the engine: the node a well-formed wrapper records *)
Theorem wrapper_node_ok : forall kid_ids kid_reqs mode, node_ok (node_of_call kid_ids kid_reqs mode).
Proof. exact node_of_call_ok. Qed.
Goal True. idtac "ASSUMPTIONS wrapper_node_ok". Abort.
Print Assumptions wrapper_node_ok.

Theorem wrapper_result_requires_iff :
  forall kid_ids kid_reqs mode,
    req (node_of_call kid_ids kid_reqs mode) = true <-> (mode = true /\ exists b, In b kid_reqs /\ b = true).
Proof. exact node_of_call_req. Qed.
Goal True. idtac "ASSUMPTIONS wrapper_result_requires_iff". Abort.
Print Assumptions wrapper_result_requires_iff.

Theorem wrapper_fn_iff_requires :
  forall kid_ids kid_reqs mode,
    has_fn (node_of_call kid_ids kid_reqs mode) = req (node_of_call kid_ids kid_reqs mode).
Proof. exact node_of_call_fn_iff_req. Qed.
Goal True. idtac "ASSUMPTIONS wrapper_fn_iff_requires". Abort.
Print Assumptions wrapper_fn_iff_requires.
