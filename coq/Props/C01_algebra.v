(* C01 (families 1-2) for broadcasting arithmetic, reductions, bilinear ops and the concatenation family:
   the backward kernels of cpu_ops.py, as modelled in NumPy/{Broadcast,Reduce,Matmul,Concat}.v, are the
   vector-Jacobian products of the forward kernels.  All statements: every rank, every shape, every legal
   argument, every upstream gradient, over any commutative semiring A (instantiate A := R for the VJP over
   the reals; the executable instance A := Z is what the correspondence runs).  <u,v>_s is [dot (idxs s) u v].
   Only statements; proofs are in Proofs/.                                                                *)
From Coq Require Import List Arith ZArith Bool.
Import ListNotations.
From SG Require Import Base.Sums Base.ScalarExt NumPy.Index NumPy.Tensor NumPy.Gather NumPy.TensorFn
  NumPy.Broadcast NumPy.Reduce NumPy.Matmul NumPy.Concat NumPy.Overloads
  Proofs.IdxSums Proofs.BcastProofs Proofs.ArithProofs Proofs.ReduceProofs Proofs.MatmulProofs Proofs.ConcatProofs
  Proofs.Matmul1dProofs Proofs.MaxProofs Proofs.AlgebraExtra.

Section C01.
Context {A:Type} `{ScalarLaws A} `{!ScalarMulLaws A}.

(* ---- un-broadcasting (cpu_ops.py:8-17) is the adjoint of broadcasting: 0-d, size-1 and every pattern ---- *)
Theorem unbroadcast_is_scatter : forall s_op s_out (g:tensor A),
  broadcastable s_op s_out = true -> tshape g = s_out ->
  exists r, unbroadcast g s_op = Some r /\ tshape r = s_op /\
    forall i, In i (idxs s_op) -> tat r i = tscatter s_out (bcast_map s_op s_out) (tat g) i.
Proof. exact unbroadcast_is_scatter_proof. Qed.

(* ---- add: <g, a + b> = <ga, a> + <gb, b> for all a, b; ga, gb are the scatters of g ---- *)
Theorem add_vjp : forall sa sb so (g:tensor A),
  broadcast_shapes sa sb = Some so -> tshape g = so ->
  exists ga gb, add_backward g sa sb = Some (ga, gb) /\ tshape ga = sa /\ tshape gb = sb /\
    (forall i, In i (idxs sa) -> tat ga i = tscatter so (bcast_map sa so) (tat g) i) /\
    (forall i, In i (idxs sb) -> tat gb i = tscatter so (bcast_map sb so) (tat g) i) /\
    forall a b, tshape a = sa -> tshape b = sb ->
      exists o, add_forward a b = Some o /\ tshape o = so /\
        dot (idxs so) (tat g) (tat o) = sadd (dot (idxs sa) (tat ga) (tat a)) (dot (idxs sb) (tat gb) (tat b)).
Proof. exact add_vjp_proof. Qed.

(* ---- mul is bilinear: <g, da * b> = <ga, da> and <g, a * db> = <gb, db> (the two partial VJPs at (a, b)) ---- *)
Theorem mul_vjp : forall sa sb so (g a b:tensor A),
  broadcast_shapes sa sb = Some so -> tshape g = so -> tshape a = sa -> tshape b = sb ->
  exists ga gb, mul_backward g a b = Some (ga, gb) /\ tshape ga = sa /\ tshape gb = sb /\
    (forall da, tshape da = sa -> exists o, mul_forward da b = Some o /\ tshape o = so /\
        dot (idxs so) (tat g) (tat o) = dot (idxs sa) (tat ga) (tat da)) /\
    (forall db, tshape db = sb -> exists o, mul_forward a db = Some o /\ tshape o = so /\
        dot (idxs so) (tat g) (tat o) = dot (idxs sb) (tat gb) (tat db)).
Proof. exact mul_vjp_proof. Qed.

(* ---- Python-scalar operand (wrapped as a 0-d tensor): t + c, c + t, t - c  /  t * c, c * t, -t, t / c ---- *)
Theorem add_scalar_vjp : forall (g t:tensor A), tshape g = tshape t ->
  exists ga gc, add_backward g (tshape t) [] = Some (ga, gc) /\ tshape ga = tshape t /\ tshape gc = [] /\
    (forall i, In i (idxs (tshape t)) -> tat ga i = tat g i) /\
    tat gc [] = isum (idxs (tshape t)) (tat g).
Proof. exact add_scalar_grad_proof. Qed.
Theorem mul_scalar_vjp : forall (g t:tensor A) (c:A), tshape g = tshape t ->
  exists ga gc, mul_backward g t (scalar0d c) = Some (ga, gc) /\ tshape ga = tshape t /\
    forall i, In i (idxs (tshape t)) -> tat ga i = smul (tat g i) c.
Proof. exact mul_scalar_grad_proof. Qed.

(* ---- sum: dim None | int | tuple (any sign, any order), keepdims both; [np_reduce_axes true] = every axis argument
        np.sum accepts, including the int axes 0 / -1 on a 0-d operand (nothing reduced). ---- *)
Theorem sum_vjp : forall (a g:tensor A) ax keep ks,
  np_reduce_axes true (rank a) ax = Some ks ->
  tshape g = red_shape (mask_of (rank a) ks) (tshape a) keep ->
  exists o r, sum_forward a ax keep = Some o /\ tshape o = tshape g /\
    sum_backward g (tshape a) ax keep = Some r /\ tshape r = tshape a /\
    dot (idxs (tshape o)) (tat g) (tat o) = dot (idxs (tshape a)) (tat r) (tat a).
Proof. exact sum_vjp_proof. Qed.
(* the backward is the broadcast of g along the reduced axes, i.e. the gather along the projection *)
Theorem sum_backward_is_broadcast : forall (g:tensor A) sa ax keep ks,
  np_reduce_axes true (length sa) ax = Some ks ->
  tshape g = red_shape (mask_of (length sa) ks) sa keep ->
  exists r, sum_backward g sa ax keep = Some r /\ tshape r = sa /\
    forall i, In i (idxs sa) -> tat r i = tat g (proj (mask_of (length sa) ks) keep i).
Proof. exact sum_backward_is_gather. Qed.

(* ---- matmul with batch broadcasting: <g, da @ b> = <ga, da>, <g, a @ db> = <gb, db> ---- *)
Theorem matmul_vjp_a : forall ba bb bo n k m (g a b:tensor A),
  broadcast_shapes ba bb = Some bo -> tshape a = ba ++ [n; k] -> tshape b = bb ++ [k; m] -> tshape g = bo ++ [n; m] ->
  exists ga gb, matmul_backward g a b = Some (ga, gb) /\ tshape ga = tshape a /\
    forall da, tshape da = tshape a -> exists o, F_matmul da b = Some o /\ tshape o = tshape g /\
        dot (idxs (tshape o)) (tat g) (tat o) = dot (idxs (tshape a)) (tat ga) (tat da).
Proof.
  intros ba bb bo n k m g a b E Ha Hb Hg.
  destruct (matmul_vjp_proof ba bb bo n k m g a b E Ha Hb Hg) as (ga & gb & E1 & E2 & _ & V & _). eauto.
Qed.
Theorem matmul_vjp_b : forall ba bb bo n k m (g a b:tensor A),
  broadcast_shapes ba bb = Some bo -> tshape a = ba ++ [n; k] -> tshape b = bb ++ [k; m] -> tshape g = bo ++ [n; m] ->
  exists ga gb, matmul_backward g a b = Some (ga, gb) /\ tshape gb = tshape b /\
    forall db, tshape db = tshape b -> exists o, F_matmul a db = Some o /\ tshape o = tshape g /\
        dot (idxs (tshape o)) (tat g) (tat o) = dot (idxs (tshape b)) (tat gb) (tat db).
Proof.
  intros ba bb bo n k m g a b E Ha Hb Hg.
  destruct (matmul_vjp_proof ba bb bo n k m g a b E Ha Hb Hg) as (ga & gb & E1 & _ & E2 & _ & V). eauto.
Qed.

(* ---- addmm(a, b, c) = a + b @ c: jointly linear in (a, b) at fixed c and in (a, c) at fixed b ---- *)
Theorem addmm_vjp : forall sa bb bc bo n k m so (g a b c:tensor A),
  broadcast_shapes bb bc = Some bo -> broadcast_shapes sa (bo ++ [n; m]) = Some so ->
  tshape a = sa -> tshape b = bb ++ [n; k] -> tshape c = bc ++ [k; m] -> tshape g = so ->
  exists ga gb gc, addmm_backward g a b c = Some (ga, gb, gc) /\
    tshape ga = tshape a /\ tshape gb = tshape b /\ tshape gc = tshape c /\
    (forall a' b', tshape a' = tshape a -> tshape b' = tshape b ->
       exists o, addmm_forward a' b' c = Some o /\ tshape o = so /\
         dot (idxs so) (tat g) (tat o) = sadd (dot (idxs (tshape a)) (tat ga) (tat a')) (dot (idxs (tshape b)) (tat gb) (tat b'))) /\
    (forall a' c', tshape a' = tshape a -> tshape c' = tshape c ->
       exists o, addmm_forward a' b c' = Some o /\ tshape o = so /\
         dot (idxs so) (tat g) (tat o) = sadd (dot (idxs (tshape a)) (tat ga) (tat a')) (dot (idxs (tshape c)) (tat gc) (tat c'))).
Proof. exact addmm_vjp_proof. Qed.

(* ---- F.linear(x, W, bias) = x @ W.T + bias, x of any rank >= 2 (3-D inputs: bx = [B]), W 2-D; the weight
        gradient is transposed back ---- *)
Theorem linear_vjp : forall bx n k m sb so (g x w bias:tensor A),
  broadcast_shapes sb (bx ++ [n; m]) = Some so ->
  tshape x = bx ++ [n; k] -> tshape w = [m; k] -> tshape bias = sb -> bias_truth (Some bias) = Some true -> tshape g = so ->
  exists gx gw gb, linear_backward g x w (Some bias) = Some (gx, gw, Some gb) /\
    tshape gx = tshape x /\ tshape gw = tshape w /\ tshape gb = tshape bias /\
    (forall x' b', tshape x' = tshape x -> tshape b' = tshape bias -> bias_truth (Some b') = Some true ->
       exists o, linear_forward x' w (Some b') = Some o /\ tshape o = so /\
         dot (idxs so) (tat g) (tat o) = sadd (dot (idxs (tshape x)) (tat gx) (tat x')) (dot (idxs (tshape bias)) (tat gb) (tat b'))) /\
    (forall w' b', tshape w' = tshape w -> tshape b' = tshape bias -> bias_truth (Some b') = Some true ->
       exists o, linear_forward x w' (Some b') = Some o /\ tshape o = so /\
         dot (idxs so) (tat g) (tat o) = sadd (dot (idxs (tshape w)) (tat gw) (tat w')) (dot (idxs (tshape bias)) (tat gb) (tat b'))).
Proof. exact linear_vjp_proof. Qed.
Theorem linear_nobias_vjp : forall bx n k m (g x w:tensor A),
  tshape x = bx ++ [n; k] -> tshape w = [m; k] -> tshape g = bx ++ [n; m] ->
  exists gx gw, linear_backward g x w None = Some (gx, gw, None) /\
    tshape gx = tshape x /\ tshape gw = tshape w /\
    (forall x', tshape x' = tshape x -> exists o, linear_forward x' w None = Some o /\ tshape o = tshape g /\
         dot (idxs (tshape g)) (tat g) (tat o) = dot (idxs (tshape x)) (tat gx) (tat x')) /\
    (forall w', tshape w' = tshape w -> exists o, linear_forward x w' None = Some o /\ tshape o = tshape g /\
         dot (idxs (tshape g)) (tat g) (tat o) = dot (idxs (tshape w)) (tat gw) (tat w')).
Proof. exact linear_nobias_vjp_proof. Qed.

(* ---- np.matmul's promotion of a 1-D operand (first: a row, second: a column; the axis is dropped from the result):
        matmul_backward is the VJP of that forward too ---- *)
Theorem matmul_vjp_1d_first : forall bb k m (g a b:tensor A),
  tshape a = [k] -> tshape b = bb ++ [k; m] -> tshape g = bb ++ [m] ->
  exists ga gb, matmul_backward g a b = Some (ga, gb) /\ tshape ga = tshape a /\ tshape gb = tshape b /\
    (forall da, tshape da = tshape a -> exists o, np_matmul da b = Some o /\ tshape o = tshape g /\
        dot (idxs (tshape g)) (tat g) (tat o) = dot (idxs (tshape a)) (tat ga) (tat da)) /\
    (forall db, tshape db = tshape b -> exists o, np_matmul a db = Some o /\ tshape o = tshape g /\
        dot (idxs (tshape g)) (tat g) (tat o) = dot (idxs (tshape b)) (tat gb) (tat db)).
Proof. exact matmul_vjp_row_proof. Qed.
Theorem matmul_vjp_1d_second : forall ba n k (g a b:tensor A),
  tshape a = ba ++ [n; k] -> tshape b = [k] -> tshape g = ba ++ [n] ->
  exists ga gb, matmul_backward g a b = Some (ga, gb) /\ tshape ga = tshape a /\ tshape gb = tshape b /\
    (forall da, tshape da = tshape a -> exists o, np_matmul da b = Some o /\ tshape o = tshape g /\
        dot (idxs (tshape g)) (tat g) (tat o) = dot (idxs (tshape a)) (tat ga) (tat da)) /\
    (forall db, tshape db = tshape b -> exists o, np_matmul a db = Some o /\ tshape o = tshape g /\
        dot (idxs (tshape g)) (tat g) (tat o) = dot (idxs (tshape b)) (tat gb) (tat db)).
Proof. exact matmul_vjp_col_proof. Qed.
(* addmm(a, b, c) with a 1-D c, resp. a 1-D b *)
Theorem addmm_vjp_1d_c : forall sa bb n k so (g a b c:tensor A),
  broadcast_shapes sa (bb ++ [n]) = Some so -> tshape a = sa -> tshape b = bb ++ [n; k] -> tshape c = [k] -> tshape g = so ->
  exists ga gb gc, addmm_backward g a b c = Some (ga, gb, gc) /\
    tshape ga = tshape a /\ tshape gb = tshape b /\ tshape gc = tshape c /\
    (forall a' b', tshape a' = tshape a -> tshape b' = tshape b ->
       exists o, addmm_forward a' b' c = Some o /\ tshape o = so /\
         dot (idxs so) (tat g) (tat o) = sadd (dot (idxs (tshape a)) (tat ga) (tat a')) (dot (idxs (tshape b)) (tat gb) (tat b'))) /\
    (forall a' c', tshape a' = tshape a -> tshape c' = tshape c ->
       exists o, addmm_forward a' b c' = Some o /\ tshape o = so /\
         dot (idxs so) (tat g) (tat o) = sadd (dot (idxs (tshape a)) (tat ga) (tat a')) (dot (idxs (tshape c)) (tat gc) (tat c'))).
Proof. exact addmm_vjp_col_proof. Qed.
Theorem addmm_vjp_1d_b : forall sa bc k m so (g a b c:tensor A),
  broadcast_shapes sa (bc ++ [m]) = Some so -> tshape a = sa -> tshape b = [k] -> tshape c = bc ++ [k; m] -> tshape g = so ->
  exists ga gb gc, addmm_backward g a b c = Some (ga, gb, gc) /\
    tshape ga = tshape a /\ tshape gb = tshape b /\ tshape gc = tshape c /\
    (forall a' b', tshape a' = tshape a -> tshape b' = tshape b ->
       exists o, addmm_forward a' b' c = Some o /\ tshape o = so /\
         dot (idxs so) (tat g) (tat o) = sadd (dot (idxs (tshape a)) (tat ga) (tat a')) (dot (idxs (tshape b)) (tat gb) (tat b'))) /\
    (forall a' c', tshape a' = tshape a -> tshape c' = tshape c ->
       exists o, addmm_forward a' b c' = Some o /\ tshape o = so /\
         dot (idxs so) (tat g) (tat o) = sadd (dot (idxs (tshape a)) (tat ga) (tat a')) (dot (idxs (tshape c)) (tat gc) (tat c'))).
Proof. exact addmm_vjp_row_proof. Qed.
(* F.linear with a 1-D input x (k,), W (m,k), bias broadcastable with (m,) / no bias *)
Theorem linear_1d_vjp : forall k m sb so (g x w bias:tensor A),
  broadcast_shapes sb [m] = Some so ->
  tshape x = [k] -> tshape w = [m; k] -> tshape bias = sb -> bias_truth (Some bias) = Some true -> tshape g = so ->
  exists gx gw gb, linear_backward g x w (Some bias) = Some (gx, gw, Some gb) /\
    tshape gx = tshape x /\ tshape gw = tshape w /\ tshape gb = tshape bias /\
    (forall x' b', tshape x' = tshape x -> tshape b' = tshape bias -> bias_truth (Some b') = Some true ->
       exists o, linear_forward x' w (Some b') = Some o /\ tshape o = so /\
         dot (idxs so) (tat g) (tat o) = sadd (dot (idxs (tshape x)) (tat gx) (tat x')) (dot (idxs (tshape bias)) (tat gb) (tat b'))) /\
    (forall w' b', tshape w' = tshape w -> tshape b' = tshape bias -> bias_truth (Some b') = Some true ->
       exists o, linear_forward x w' (Some b') = Some o /\ tshape o = so /\
         dot (idxs so) (tat g) (tat o) = sadd (dot (idxs (tshape w)) (tat gw) (tat w')) (dot (idxs (tshape bias)) (tat gb) (tat b'))).
Proof. exact linear_1d_vjp_proof. Qed.
Theorem linear_1d_nobias_vjp : forall k m (g x w:tensor A),
  tshape x = [k] -> tshape w = [m; k] -> tshape g = [m] ->
  exists gx gw, linear_backward g x w None = Some (gx, gw, None) /\
    tshape gx = tshape x /\ tshape gw = tshape w /\
    (forall x', tshape x' = tshape x -> exists o, linear_forward x' w None = Some o /\ tshape o = tshape g /\
         dot (idxs (tshape g)) (tat g) (tat o) = dot (idxs (tshape x)) (tat gx) (tat x')) /\
    (forall w', tshape w' = tshape w -> exists o, linear_forward x w' None = Some o /\ tshape o = tshape g /\
         dot (idxs (tshape g)) (tat g) (tat o) = dot (idxs (tshape w)) (tat gw) (tat w')).
Proof. exact linear_1d_nobias_vjp_proof. Qed.

(* ---- concat / stack: <g, op(xs)> = sum_k <g_k, x_k>, g_k the k-th piece handed back by the backward ---- *)
Theorem concat_vjp : forall (xs:list (tensor A)) dim (o g:tensor A),
  concat_forward xs dim = Some o -> tshape g = tshape o ->
  exists gs, concat_backward g xs dim = Some gs /\ Forall2 (fun gk xk => tshape gk = tshape xk) gs xs /\
    dot (idxs (tshape o)) (tat g) (tat o) = dots gs xs.
Proof. exact concat_vjp_proof. Qed.
Theorem stack_vjp : forall (xs:list (tensor A)) dim (o g:tensor A),
  stack_forward xs dim = Some o -> tshape g = tshape o ->
  exists gs, stack_backward g dim = Some gs /\ Forall2 (fun gk xk => tshape gk = tshape xk) gs xs /\
    dot (idxs (tshape o)) (tat g) (tat o) = dots gs xs.
Proof. exact stack_vjp_proof. Qed.
(* ---- unbind (multi-output): each output's backward is the adjoint of that output and scatters into its slice;
        the sum over the outputs is the full scatter (the stack of the upstream gradients) ---- *)
Theorem unbind_vjp : forall (x:tensor A) dim ax,
  norm_axis (rank x) dim = Some ax ->
  exists outs, unbind_forward x dim = Some outs /\ length outs = nth ax (tshape x) 0 /\
    (forall k, k < length outs -> tshape (nth k outs (zeros [])) = remove_at ax (tshape x)) /\
    (forall k (gk:tensor A), k < length outs -> tshape gk = remove_at ax (tshape x) ->
       dot (idxs (remove_at ax (tshape x))) (tat gk) (tat (nth k outs (zeros []))) =
       dot (idxs (tshape x)) (tat (unbind_backward gk (tshape x) dim k)) (tat x)) /\
    (forall (G:nat -> tensor A) i, In i (idxs (tshape x)) ->
       isum (seq 0 (length outs)) (fun k => tat (unbind_backward (G k) (tshape x) dim k) i) = tat (G (nth ax i 0)) (remove_at ax i)).
Proof. exact unbind_vjp_proof. Qed.
End C01.

(* ---- mean = sum / count (A with division by a count) ---- *)
Section C01_mean.
Context {A:Type} `{ScalarLaws A} `{!ScalarDiv A} `{!ScalarDivLaws A}.
Theorem mean_vjp : forall (a g:tensor A) ax keep ks,
  strict_axes (rank a) ax = Some ks ->
  tshape g = red_shape (mask_of (rank a) ks) (tshape a) keep ->
  exists o r, mean_forward a ax keep = Some o /\ tshape o = tshape g /\
    mean_backward g (tshape a) ax keep = Some r /\ tshape r = tshape a /\
    dot (idxs (tshape o)) (tat g) (tat o) = dot (idxs (tshape a)) (tat r) (tat a).
Proof. exact mean_vjp_proof. Qed.
(* the count the code divides by (its own handling of None / int / tuple / negative axes, cpu_ops.py:172-175)
   is the number of reduced elements, for every way of writing the axes *)
Theorem mean_count_is_fibre_size : forall sa ax ks, strict_axes (length sa) ax = Some ks ->
  mean_n_samples sa ax = fibre_size (mask_of (length sa) ks) sa.
Proof. exact mean_n_samples_spec. Qed.
End C01_mean.

(* ---- max / min (A totally ordered), every dim form the forward accepts: None | int | tuple (any sign, any order,
        also ()), and the int axes 0 / -1 on a 0-d operand.  On the set of inputs with the same argmax table the forward
        is a linear gather and the code's backward is its adjoint (hence the derivative wherever the table is locally
        constant: unique extremum in every fibre, see max_unique_maximiser_is_selected); at ties the mask selects exactly one
        element of each fibre, the first extremal one in row-major order of the reduced coordinates. ---- *)
Section C01_max.
Context {A:Type} `{ScalarLaws A} `{!ScalarOrd A} `{!ScalarOrdLaws A}.

Theorem max_vjp : forall (g a:tensor A) ax keep ks,
  np_reduce_axes true (rank a) ax = Some ks ->
  fibre_size (mask_of (rank a) ks) (tshape a) <> 0 ->
  tshape g = red_shape (mask_of (rank a) ks) (tshape a) keep ->
  exists mk r, ext_mask sleb a ax = Some mk /\ max_backward g a ax keep = Some r /\ tshape r = tshape a /\
    (forall i, In i (idxs (tshape a)) -> tat r i = if mk i then tat g (proj (mask_of (rank a) ks) keep i) else s0) /\
    forall a' mk', tshape a' = tshape a -> ext_mask sleb a' ax = Some mk' ->
      (forall i, In i (idxs (tshape a)) -> mk' i = mk i) ->
      exists o, max_forward a' ax keep = Some o /\ tshape o = tshape g /\
        dot (idxs (tshape o)) (tat g) (tat o) = dot (idxs (tshape a)) (tat r) (tat a').
Proof. exact (ext_vjp sleb). Qed.
Theorem min_vjp : forall (g a:tensor A) ax keep ks,
  np_reduce_axes true (rank a) ax = Some ks ->
  fibre_size (mask_of (rank a) ks) (tshape a) <> 0 ->
  tshape g = red_shape (mask_of (rank a) ks) (tshape a) keep ->
  exists mk r, ext_mask sgeb a ax = Some mk /\ min_backward g a ax keep = Some r /\ tshape r = tshape a /\
    (forall i, In i (idxs (tshape a)) -> tat r i = if mk i then tat g (proj (mask_of (rank a) ks) keep i) else s0) /\
    forall a' mk', tshape a' = tshape a -> ext_mask sgeb a' ax = Some mk' ->
      (forall i, In i (idxs (tshape a)) -> mk' i = mk i) ->
      exists o, min_forward a' ax keep = Some o /\ tshape o = tshape g /\
        dot (idxs (tshape o)) (tat g) (tat o) = dot (idxs (tshape a)) (tat r) (tat a').
Proof. exact (ext_vjp sgeb). Qed.
(* the mask: position i is selected iff its rank (row-major over the reduced coordinates) within the group of
   positions sharing its kept coordinates is the arg-best of that group *)
Theorem max_mask_is_first_argmax_of_group : forall (a:tensor A) ax ks,
  np_reduce_axes true (rank a) ax = Some ks -> fibre_size (mask_of (rank a) ks) (tshape a) <> 0 ->
  ext_mask sleb a ax = Some (fun i => fpos (mask_of (rank a) ks) (tshape a) i =?
                                      argbest sleb (map (tat a) (colof (mask_of (rank a) ks) (tshape a) i))).
Proof.
  intros a ax ks Hax Hf. unfold ext_mask. rewrite (ext_code_mask_spec _ _ _ Hax).
  destruct (fibre_size _ _ =? 0) eqn:E. apply Nat.eqb_eq in E. congruence. reflexivity.
Qed.

(* np.argmax's tie rule: in every column the selected element is an upper bound of the column and strictly above
   everything before it; a strict unique maximum is the one selected (so the table is stable around such inputs) *)
Theorem max_mask_selects_first_maximiser : forall (l:list A) d, l <> [] ->
  argbest sleb l < length l /\
  (forall v, In v l -> sleb v (nth (argbest sleb l) l d) = true) /\
  (forall p, p < argbest sleb l -> sleb (nth (argbest sleb l) l d) (nth p l d) = false).
Proof. exact max_selects_first_maximiser. Qed.
Theorem min_mask_selects_first_minimiser : forall (l:list A) d, l <> [] ->
  argbest sgeb l < length l /\
  (forall v, In v l -> sleb (nth (argbest sgeb l) l d) v = true) /\
  (forall p, p < argbest sgeb l -> sleb (nth p l d) (nth (argbest sgeb l) l d) = false).
Proof. exact min_selects_first_minimiser. Qed.
Theorem max_unique_maximiser_is_selected : forall (l:list A) d K, K < length l ->
  (forall p, p < length l -> p <> K -> sleb (nth K l d) (nth p l d) = false) -> argbest sleb l = K.
Proof. exact max_unique_is_selected. Qed.

End C01_max.

(* REPAIRED (fix: max/min tuple dim; 0-d operand with an int dim; 1-D matrix operands): the argument forms whose backward
   used to raise, as computed instances of the theorems above (A := Z) *)
Theorem sum_0d_int_dim_backward :
  let a : tensor Z := scalar0d 5%Z in let g : tensor Z := scalar0d 3%Z in
  sum_forward a (AxInt 0) false <> None /\
  option_map (@to_list Z) (r <- sum_backward g (tshape a) (AxInt 0) false ;; accumulate (zeros (tshape a)) r) = Some [3%Z].
Proof. exact sum_0d_int_dim_backward_ok. Qed.
Theorem max_0d_int_dim_backward :
  let a : tensor Z := scalar0d 5%Z in let g : tensor Z := scalar0d 3%Z in
  max_forward a (AxInt (-1)) false <> None /\
  option_map (@to_list Z) (r <- max_backward g a (AxInt (-1)) false ;; accumulate (zeros (tshape a)) r) = Some [3%Z].
Proof. exact max_0d_int_dim_backward_ok. Qed.
Theorem max_tuple_dim_backward :
  option_map (@to_list Z) (max_backward (of_list [2] [5;7]%Z) (of_list [2;2;2] [1;3;3;0; 4;2;4;1]%Z) (AxTuple [-1;1]%Z) false)
  = Some [0;5;0;0; 7;0;0;0]%Z.
Proof. exact max_tuple_dim_backward_ok. Qed.
Theorem linear_1d_backward :
  let x : tensor Z := of_list [3] [1;2;3]%Z in let w : tensor Z := of_list [2;3] [1;0;2; 0;1;1]%Z in let g : tensor Z := of_list [2] [5;7]%Z in
  option_map (fun r => (to_list (fst (fst r)), to_list (snd (fst r)))) (linear_backward g x w None) = Some ([5;7;17]%Z, [5;10;15; 7;14;21]%Z).
Proof. exact linear_1d_backward_ok. Qed.

Goal True. idtac "ASSUMPTIONS unbroadcast_is_scatter". Abort.
Print Assumptions unbroadcast_is_scatter.
Goal True. idtac "ASSUMPTIONS add_vjp". Abort.
Print Assumptions add_vjp.
Goal True. idtac "ASSUMPTIONS mul_vjp". Abort.
Print Assumptions mul_vjp.
Goal True. idtac "ASSUMPTIONS add_scalar_vjp". Abort.
Print Assumptions add_scalar_vjp.
Goal True. idtac "ASSUMPTIONS mul_scalar_vjp". Abort.
Print Assumptions mul_scalar_vjp.
Goal True. idtac "ASSUMPTIONS sum_vjp". Abort.
Print Assumptions sum_vjp.
Goal True. idtac "ASSUMPTIONS sum_backward_is_broadcast". Abort.
Print Assumptions sum_backward_is_broadcast.
Goal True. idtac "ASSUMPTIONS matmul_vjp_a". Abort.
Print Assumptions matmul_vjp_a.
Goal True. idtac "ASSUMPTIONS matmul_vjp_b". Abort.
Print Assumptions matmul_vjp_b.
Goal True. idtac "ASSUMPTIONS addmm_vjp". Abort.
Print Assumptions addmm_vjp.
Goal True. idtac "ASSUMPTIONS linear_vjp". Abort.
Print Assumptions linear_vjp.
Goal True. idtac "ASSUMPTIONS linear_nobias_vjp". Abort.
Print Assumptions linear_nobias_vjp.
Goal True. idtac "ASSUMPTIONS matmul_vjp_1d_first". Abort.
Print Assumptions matmul_vjp_1d_first.
Goal True. idtac "ASSUMPTIONS matmul_vjp_1d_second". Abort.
Print Assumptions matmul_vjp_1d_second.
Goal True. idtac "ASSUMPTIONS addmm_vjp_1d_c". Abort.
Print Assumptions addmm_vjp_1d_c.
Goal True. idtac "ASSUMPTIONS addmm_vjp_1d_b". Abort.
Print Assumptions addmm_vjp_1d_b.
Goal True. idtac "ASSUMPTIONS linear_1d_vjp". Abort.
Print Assumptions linear_1d_vjp.
Goal True. idtac "ASSUMPTIONS linear_1d_nobias_vjp". Abort.
Print Assumptions linear_1d_nobias_vjp.
Goal True. idtac "ASSUMPTIONS concat_vjp". Abort.
Print Assumptions concat_vjp.
Goal True. idtac "ASSUMPTIONS stack_vjp". Abort.
Print Assumptions stack_vjp.
Goal True. idtac "ASSUMPTIONS unbind_vjp". Abort.
Print Assumptions unbind_vjp.
Goal True. idtac "ASSUMPTIONS mean_vjp". Abort.
Print Assumptions mean_vjp.
Goal True. idtac "ASSUMPTIONS mean_count_is_fibre_size". Abort.
Print Assumptions mean_count_is_fibre_size.
Goal True. idtac "ASSUMPTIONS max_vjp". Abort.
Print Assumptions max_vjp.
Goal True. idtac "ASSUMPTIONS min_vjp". Abort.
Print Assumptions min_vjp.
Goal True. idtac "ASSUMPTIONS max_mask_is_first_argmax_of_group". Abort.
Print Assumptions max_mask_is_first_argmax_of_group.
Goal True. idtac "ASSUMPTIONS max_mask_selects_first_maximiser". Abort.
Print Assumptions max_mask_selects_first_maximiser.
Goal True. idtac "ASSUMPTIONS min_mask_selects_first_minimiser". Abort.
Print Assumptions min_mask_selects_first_minimiser.
Goal True. idtac "ASSUMPTIONS max_unique_maximiser_is_selected". Abort.
Print Assumptions max_unique_maximiser_is_selected.
Goal True. idtac "ASSUMPTIONS sum_0d_int_dim_backward". Abort.
Print Assumptions sum_0d_int_dim_backward.
Goal True. idtac "ASSUMPTIONS max_0d_int_dim_backward". Abort.
Print Assumptions max_0d_int_dim_backward.
Goal True. idtac "ASSUMPTIONS max_tuple_dim_backward". Abort.
Print Assumptions max_tuple_dim_backward.
Goal True. idtac "ASSUMPTIONS linear_1d_backward". Abort.
Print Assumptions linear_1d_backward.

(* ---- the hypotheses are satisfiable on non-trivial instances, and the statements compute (A := Z) ---- *)
Example ex_unbroadcast :
  broadcastable [3;1] [2;3;2] = true /\
  option_map (@to_list Z) (unbroadcast (of_list [2;3;2] [1;2;3;4;5;6;7;8;9;10;11;12]%Z) [3;1]) = Some [18;26;34]%Z.
Proof. split; reflexivity. Qed.
Example ex_sum_axes : strict_axes 3 (AxTuple [-1; 0]%Z) = Some [2; 0] /\ strict_axes 3 (AxInt (-2)) = Some [1] /\
  mean_n_samples [2;3;4] (AxTuple [0; -1]%Z) = 8.
Proof. repeat split; reflexivity. Qed.
Example ex_matmul_batch :
  option_map (fun t => (tshape t, @to_list Z t))
    (F_matmul (of_list [2;1;2] [1;2;3;4]%Z) (of_list [2;1] [1;1]%Z)) = Some ([2;1;1], [3;7]%Z).
Proof. reflexivity. Qed.
Example ex_max_ties :   (* ties: the first maximiser of every row gets the gradient *)
  option_map (@to_list Z) (max_backward (of_list [2] [5;7]%Z) (of_list [2;3] [1;3;3;4;4;2]%Z) (AxInt 1) false) = Some [0;5;0;7;0;0]%Z.
Proof. reflexivity. Qed.
