(* C07 — requires_grad propagation and grad-mode contexts behave like a stack.
   Only statements; proofs live in Proofs/.  Each theorem is followed by Print Assumptions. *)
From Coq Require Import List Bool Arith.
Import ListNotations.
From SG Require Import State.Contexts Proofs.ContextsProofs.

(* no_grad / retain_grads restore the mode in force when they were entered: for every state (any
   earlier history), every object, every well-bracketed body (any nesting depth, the same object
   possibly re-entered, objects created anywhere, exits by exception or not, any other library call -
   tensor creation, operations, backward whether it completes or is refused - anywhere in between). *)
Theorem ctx_block_restores :
  forall s o exc body s', wb body ->
    run s (Enter o :: body ++ [Exit o exc]) = Some s' ->
    gmode s' = gmode s /\ rmode s' = rmode s.
Proof. exact block_restores. Qed.
Goal True. idtac "ASSUMPTIONS ctx_block_restores". Abort.
Print Assumptions ctx_block_restores.

(* ... and nothing else leaks: saved stacks of all existing objects are as before. *)
Theorem ctx_wb_preserves :
  forall t, wb t -> forall s s', run s t = Some s' ->
    (gmode s' = gmode s /\ rmode s' = rmode s) /\
    exists extra, objs s' = objs s ++ extra /\ Forall (fun ob => saved ob = []) extra.
Proof. exact wb_preserves. Qed.
Goal True. idtac "ASSUMPTIONS ctx_wb_preserves". Abort.
Print Assumptions ctx_wb_preserves.

(* the hypothesis [run ... = Some _] is not vacuous: well-bracketed sequences over existing objects never fail *)
Theorem ctx_wb_total :
  forall t, wb t -> forall s, refs_ok (length (objs s)) t = true -> exists s', run s t = Some s'.
Proof. exact wb_total. Qed.
Goal True. idtac "ASSUMPTIONS ctx_wb_total". Abort.
Print Assumptions ctx_wb_total.

Theorem ctx_enter_sets :
  forall s o s1 ob, nth_error (objs s) o = Some ob -> step s (Enter o) = Some s1 ->
    flag (okind ob) s1 = entered_value (okind ob).
Proof. exact enter_sets. Qed.
Goal True. idtac "ASSUMPTIONS ctx_enter_sets". Abort.
Print Assumptions ctx_enter_sets.

(* non-vacuity: o = no_grad(); with no_grad(): (with o: pass)  — the witness that failed before the fix *)
Example ctx_example :
  let t := [New KNoGrad; New KNoGrad; Enter 1; Enter 0; Exit 0 false; Exit 1 true] in
  wb t /\ refs_ok 0 t = true /\
  trace init t = [Some (true,false); Some (true,false); Some (false,false); Some (false,false); Some (false,false); Some (true,false)].
Proof.
  split; [|split; reflexivity].
  apply wb_new, wb_new. apply (wb_block 1 true [Enter 0; Exit 0 false] []); [|constructor].
  apply (wb_block 0 false [] []); constructor.
Qed.

(* non-vacuity with calls in between: with no_grad(): y.backward(); (with retain_grads(): x*2) *)
Example ctx_example_calls :
  let t := [New KNoGrad; Enter 0; Call; New KRetain; Enter 1; Call; Exit 1 false; Call; Exit 0 true; Call] in
  wb t /\ refs_ok 0 t = true /\
  trace init t = [Some (true,false); Some (false,false); Some (false,false); Some (false,false); Some (false,true);
                  Some (false,true); Some (false,false); Some (false,false); Some (true,false); Some (true,false)].
Proof.
  split; [|split; reflexivity].
  apply wb_new. apply (wb_block 0 true [Call; New KRetain; Enter 1; Call; Exit 1 false; Call] [Call]); [|apply wb_call; constructor].
  apply wb_call, wb_new. apply (wb_block 1 false [Call] [Call]); apply wb_call; constructor.
Qed.

(* flag resolution at tensor creation *)
Theorem result_requires_iff :
  forall operands gm r, op_result operands gm true = Ok r ->
    (r = true <-> gm = true /\ exists b, In b operands /\ b = true).
Proof. exact op_result_iff. Qed.
Goal True. idtac "ASSUMPTIONS result_requires_iff". Abort.
Print Assumptions result_requires_iff.

Theorem float_only_create :
  forall requested gm, create requested gm false = Raises <-> (requested && gm = true).
Proof. exact create_float_only. Qed.
Goal True. idtac "ASSUMPTIONS float_only_create". Abort.
Print Assumptions float_only_create.

Theorem float_only_setter :
  forall req has_fn value, set_requires req has_fn false value = Ok true -> False.
Proof. exact set_requires_float_only. Qed.
Goal True. idtac "ASSUMPTIONS float_only_setter". Abort.
Print Assumptions float_only_setter.
