(* C06 — forward results of the nn ops match their documented definitions (conv / pool / unfold / fold part and the layer
   constructors' argument normalisation).  Only statements; model NumPy/ConvPool.v on top of package D's NumPy/Window.v and
   NumPy/Im2col.v (window view and place_windows as the code computes them); proofs Proofs/ConvPool*.v.

   [valid g] / [valid1 g]: N, C, spatial sizes >= 0; kernel, stride, dilation > 0; padding >= 0; at least one window per
   axis for the output size the code computes.  Every theorem is for all such geometries, all tensors (functions on index
   tuples), with and without bias, over every commutative semiring [ScalarLaws A] (so over Z for the executable runs and
   over R for the real-valued reading); average pooling additionally needs division by a count ([DivLaws A], e.g. Qc).
   Activations / losses / linear / batch-norm statistics are covered by the correspondence and oracle runs of
   checks/c06.py only (see notes/C06.md).                                                                              *)
From Coq Require Import List ZArith Bool Lia QArith Qcanon.
Import ListNotations.
From SG Require Import Base.Sums NumPy.Gather NumPy.Window NumPy.Im2col NumPy.ConvPool NumPy.ConvPoolRun
  Proofs.WindowProofs Proofs.Im2colProofs Proofs.ConvPoolAux Proofs.ConvPoolProofs Proofs.ConvPoolPooling Proofs.ConvPoolGeom.
Open Scope Z_scope.

(* Output length floor((L+2p-d(k-1)-1)/s)+1: the rational-floor formulation (get_conv1d/2d_output_size), the integer
   formulation on the padded length (extract_windows) and the closed form agree, and every position l*s + j*d read by a
   window lies inside the padded axis. *)
Theorem out_size_formula :
  forall L k s p d, 0 < s ->
    out_size_float L k s p d = (L + 2 * p - d * (k - 1) - 1) / s + 1 /\
    out_size_view (L + 2 * p) k s d = (L + 2 * p - d * (k - 1) - 1) / s + 1 /\
    (0 < d -> forall l j, 0 <= l < (L + 2 * p - d * (k - 1) - 1) / s + 1 -> 0 <= j < k -> 0 <= l * s + j * d < L + 2 * p).
Proof. exact out_size_formula_lemma. Qed.
Goal True. idtac "ASSUMPTIONS out_size_formula". Abort.
Print Assumptions out_size_formula.

(* conv2d_forward (extract_windows, np.tensordot(weight, windows, axes=[(1,2,3),(3,4,5)]), bias add, np.moveaxis(-1, 0)) is the
   cross-correlation  out[n,co,i,j] = bias[co] + sum_{ci,a,b} w[co,ci,a,b] * xpad[n, ci, i*sH + a*dH, j*sW + b*dW],
   xpad = the input padded with zeros. *)
Theorem conv_is_crosscorr :
  forall (A : Type) (SA : Scalar A) (LA : ScalarLaws A) g (w : pos -> A) (bias : option (Z -> A)) (x : pos -> A) n co wi wj,
    valid g -> 0 <= n < gN g -> 0 <= wi < lH g -> 0 <= wj < lW g ->
    conv2d_fwd g w bias x (n, co, wi, wj) =
    with_bias bias co (isum (K2 g) (fun k => let '(ci, a, b) := k in
       smul (w (co, ci, a, b)) (xpad2 g s0 x (n, ci, wi * sH g + a * dH g, wj * sW g + b * dW g)))).
Proof. intros. now apply conv2d_is_crosscorr. Qed.
Goal True. idtac "ASSUMPTIONS conv_is_crosscorr". Abort.
Print Assumptions conv_is_crosscorr.

(* conv1d_forward:  out[n,co,l] = bias[co] + sum_{ci,j} w[co,ci,j] * xpad[n, ci, l*s + j*d] *)
Theorem conv_is_crosscorr_1d :
  forall (A : Type) (SA : Scalar A) (LA : ScalarLaws A) g (w : pos1 -> A) (bias : option (Z -> A)) (x : pos1 -> A) n co wj,
    valid1 g -> 0 <= n < N1 g -> 0 <= wj < l1 g ->
    conv1d_fwd g w bias x (n, co, wj) =
    with_bias bias co (isum (K1 g) (fun k => let '(ci, b) := k in
       smul (w (co, ci, b)) (xpad1 g s0 x (n, ci, wj * s1 g + b * d1 g)))).
Proof. intros. now apply conv1d_is_crosscorr. Qed.
Goal True. idtac "ASSUMPTIONS conv_is_crosscorr_1d". Abort.
Print Assumptions conv_is_crosscorr_1d.

(* Max pooling pads with -inf.  Whenever the padding does not exceed the dilated kernel span and the dilation does not
   exceed the input (PyTorch's own restriction pad <= kernel/2 implies the first, WindowProofs.torch_pad_condition),
   every window contains a real position, the result is finite, equal to the input at the selected position [sel2], and that
   value dominates every real position of the window: padding never wins. *)
Theorem maxpool_padding_never_wins :
  forall g (x : pos -> Z) n c wi wj, valid g ->
    0 <= n < gN g -> 0 <= c < gC g -> 0 <= wi < lH g -> 0 <= wj < lW g ->
    pH g <= (kH g - 1) * dH g -> dH g <= gH g -> pW g <= (kW g - 1) * dW g -> dW g <= gW g ->
    exists i, In i (Ipos g) /\ sel2 g x (n, c, wi, wj) = Some i /\ maxpool2d_fwd g x (n, c, wi, wj) = Fin (x i) /\
      forall a b i', 0 <= a < kH g -> 0 <= b < kW g -> phi_win_opt g (wi, wj, n, c, a, b) = Some i' -> x i' <= x i.
Proof. exact maxpool2d_padding_never_wins. Qed.
Goal True. idtac "ASSUMPTIONS maxpool_padding_never_wins". Abort.
Print Assumptions maxpool_padding_never_wins.

(* the same without any assumption on the geometry: as soon as one kernel offset of the window reads a real position, the -inf
   padding is not the maximum *)
Theorem maxpool_real_cell_wins :
  forall g (x : pos -> Z) n c wi wj, valid g ->
    0 <= n < gN g -> 0 <= c < gC g -> 0 <= wi < lH g -> 0 <= wj < lW g ->
    (exists a b i0, 0 <= a < kH g /\ 0 <= b < kW g /\ phi_win_opt g (wi, wj, n, c, a, b) = Some i0) ->
    exists i, sel2 g x (n, c, wi, wj) = Some i /\ maxpool2d_fwd g x (n, c, wi, wj) = Fin (x i) /\
      forall a b i', 0 <= a < kH g -> 0 <= b < kW g -> phi_win_opt g (wi, wj, n, c, a, b) = Some i' -> x i' <= x i.
Proof. intros g x n c wi wj Hv Hn Hc Hwi Hwj. now apply maxpool2d_selects. Qed.
Goal True. idtac "ASSUMPTIONS maxpool_real_cell_wins". Abort.
Print Assumptions maxpool_real_cell_wins.

Theorem maxpool_padding_never_wins_1d :
  forall g (x : pos1 -> Z) n c wj, valid1 g ->
    0 <= n < N1 g -> 0 <= c < C1 g -> 0 <= wj < l1 g -> p1 g <= (k1 g - 1) * d1 g -> d1 g <= W1 g ->
    exists i, In i (Ipos1 g) /\ sel1 g x (n, c, wj) = Some i /\ maxpool1d_fwd g x (n, c, wj) = Fin (x i) /\
      forall b i', 0 <= b < k1 g -> phi1_opt g (wj, n, c, b) = Some i' -> x i' <= x i.
Proof. exact maxpool1d_padding_never_wins. Qed.
Goal True. idtac "ASSUMPTIONS maxpool_padding_never_wins_1d". Abort.
Print Assumptions maxpool_padding_never_wins_1d.

(* Exactly when the result is -inf: no kernel offset (a,b) of the window hits a real row and a real column.  The code
   accepts such geometries (PyTorch rejects pad > kernel/2): e.g. with more padding than the dilated kernel span the first
   window row lies in the padding and the output there is -inf for every input. *)
Theorem maxpool_neginf_geometry :
  forall g (x : pos -> Z) n c wi wj, valid g ->
    0 <= n < gN g -> 0 <= c < gC g -> 0 <= wi < lH g -> 0 <= wj < lW g ->
    (maxpool2d_fwd g x (n, c, wi, wj) = NegInf <->
     forall a b, 0 <= a < kH g -> 0 <= b < kW g ->
       is_real (gH g) (pH g) (wi * sH g + a * dH g) && is_real (gW g) (pW g) (wj * sW g + b * dW g) = false).
Proof. exact maxpool2d_neginf_geometry. Qed.
Goal True. idtac "ASSUMPTIONS maxpool_neginf_geometry". Abort.
Print Assumptions maxpool_neginf_geometry.

Theorem maxpool_padding_can_win :
  forall g (x : pos -> Z) n c wj, valid g ->
    0 <= n < gN g -> 0 <= c < gC g -> 0 <= wj < lW g -> (kH g - 1) * dH g < pH g ->
    maxpool2d_fwd g x (n, c, 0, wj) = NegInf.
Proof. exact maxpool2d_padding_can_win_H. Qed.
Goal True. idtac "ASSUMPTIONS maxpool_padding_can_win". Abort.
Print Assumptions maxpool_padding_can_win.

(* Average pooling pads with zeros and always divides by the full kernel size kH*kW (count_include_pad=True):
   out[n,c,i,j] = (sum_{a,b} xpad[n, c, i*sH + a*dH, j*sW + b*dW]) / (kH*kW). *)
Theorem avgpool_counts_padding :
  forall (A : Type) (SA : Scalar A) (LA : ScalarLaws A) (DA : Divider A) g (x : pos -> A) n c wi wj, valid g ->
    0 <= n < gN g -> 0 <= c < gC g -> 0 <= wi < lH g -> 0 <= wj < lW g ->
    zlen (fibre_vals2 g x wi wj n c) = kH g * kW g /\
    avgpool2d_fwd g x (n, c, wi, wj) =
    sdiv (isum (zr (kH g)) (fun a => isum (zr (kW g)) (fun b => xpad2 g s0 x (n, c, wi * sH g + a * dH g, wj * sW g + b * dW g))))
         (kH g * kW g).
Proof.
  intros A SA LA DA g x n c wi wj Hv Hn Hc Hwi Hwj. split.
  - apply fibre_vals2_len. dv Hv. nia.
  - now apply avgpool2d_closed.
Qed.
Goal True. idtac "ASSUMPTIONS avgpool_counts_padding". Abort.
Print Assumptions avgpool_counts_padding.

Theorem avgpool_counts_padding_1d :
  forall (A : Type) (SA : Scalar A) (LA : ScalarLaws A) (DA : Divider A) g (x : pos1 -> A) n c wj, valid1 g ->
    0 <= n < N1 g -> 0 <= c < C1 g -> 0 <= wj < l1 g ->
    avgpool1d_fwd g x (n, c, wj) = sdiv (isum (zr (k1 g)) (fun b => xpad1 g s0 x (n, c, wj * s1 g + b * d1 g))) (k1 g).
Proof. intros. now apply avgpool1d_closed. Qed.
Goal True. idtac "ASSUMPTIONS avgpool_counts_padding_1d". Abort.
Print Assumptions avgpool_counts_padding_1d.

(* F.unfold = im2col_fast(as_unfold=True): result (N, C*kH*kW, L); row index r = c*kH*kW + a*kW + b is channel-major, the
   kernel offset row-major inside a channel; column index l = i*lW + j is the row-major block index; the entry is the
   padded input (pad value pv) at (n, c, i*sH + a*dH, j*sW + b*dW). *)
Theorem unfold_layout :
  forall (A : Type) (SA : Scalar A) (LA : ScalarLaws A) g (pv : A) (x : pos -> A) n c a b wi wj, valid g ->
    0 <= n < gN g -> 0 <= c < gC g -> 0 <= a < kH g -> 0 <= b < kW g -> 0 <= wi < lH g -> 0 <= wj < lW g ->
    unfold_fwd g pv x (n, (c * kH g + a) * kW g + b, wi * lW g + wj) =
    xpad2 g pv x (n, c, wi * sH g + a * dH g, wj * sW g + b * dW g).
Proof. intros. now apply ConvPoolProofs.unfold_layout. Qed.
Goal True. idtac "ASSUMPTIONS unfold_layout". Abort.
Print Assumptions unfold_layout.

(* F.fold = col2im_fast: pixel i of the result is the sum of all entries y[n,r,l] whose (r,l) reads pixel i in unfold
   (overlapping blocks are summed; entries that fall into the padding are dropped). *)
Theorem fold_sums_overlaps :
  forall (A : Type) (SA : Scalar A) (LA : ScalarLaws A) g (y : idx3 -> A) i, valid g ->
    fold_fwd g y i = isum (Junf g) (fun j => match phi_opt g j with Some i' => if pos_eqb i' i then y j else s0 | None => s0 end).
Proof. intros. now apply ConvPoolProofs.fold_sums_overlaps. Qed.
Goal True. idtac "ASSUMPTIONS fold_sums_overlaps". Abort.
Print Assumptions fold_sums_overlaps.

(* F.fold(x, (H, W), kernel, ...) with x of shape (N, R, L) is accepted exactly when the shapes are consistent: R = C*kH*kW for some
   C, the geometry has at least one window per axis and L = lH*lW; then the geometry is valid and fold_sums_overlaps applies.
   (Before the fix "fold / col2im (fold mode) validate the shape of their argument" agreeing element counts were enough.) *)
Theorem fold_accepts_consistent_shapes :
  forall N R L H W q, 0 < fst (g_k q) -> 0 < snd (g_k q) ->
    (fold_accepts N R L H W q = true <->
     exists C, R = C * fst (g_k q) * snd (g_k q) /\
               1 <= lH (mk_geom N C H W q) /\ 1 <= lW (mk_geom N C H W q) /\ L = lH (mk_geom N C H W q) * lW (mk_geom N C H W q)).
Proof. exact fold_accepts_iff. Qed.
Goal True. idtac "ASSUMPTIONS fold_accepts_consistent_shapes". Abort.
Print Assumptions fold_accepts_consistent_shapes.

(* nn.Conv2d(..., padding='same'): when the constructor accepts, the stride is 1, 2*p = d*(k-1) on each axis and the layer
   maps an (N,C,H,W) input to an output of spatial size (H,W), for every H and W; it raises exactly for a stride other than 1
   or an odd total d*(k-1) on some axis (asymmetric padding is not supported). *)
Theorem same_padding_preserves_size :
  forall k s d,
    (forall q, conv2d_ctor k s PSame d = Ok q ->
       g_s q = (1, 1) /\
       2 * fst (g_p q) = fst (g_d q) * (fst (g_k q) - 1) /\ 2 * snd (g_p q) = snd (g_d q) * (snd (g_k q) - 1) /\
       forall N C H W, lH (mk_geom N C H W q) = H /\ lW (mk_geom N C H W q) = W) /\
    (forall ka kb sa sb da db, bcast2 k = Ok (ka, kb) -> bcast2 s = Ok (sa, sb) -> bcast2 d = Ok (da, db) ->
       (conv2d_ctor k s PSame d = Raises <->
        (sa <> 1 \/ sb <> 1) \/ (da * (ka - 1)) mod 2 <> 0 \/ (db * (kb - 1)) mod 2 <> 0)).
Proof. intros k s d. split. apply same_padding_2d. apply same_padding_2d_rejects. Qed.
Goal True. idtac "ASSUMPTIONS same_padding_preserves_size". Abort.
Print Assumptions same_padding_preserves_size.

Theorem same_padding_preserves_size_1d :
  forall k s d,
    (forall q, conv1d_ctor k s P1Same d = Ok q ->
       h_s q = 1 /\ 2 * h_p q = h_d q * (h_k q - 1) /\ forall N C W, l1 (mk_geom1 N C W q) = W) /\
    (conv1d_ctor k s P1Same d = Raises <-> s <> 1 \/ (d * (k - 1)) mod 2 <> 0).
Proof. intros k s d. split. apply same_padding_1d. apply same_padding_1d_rejects. Qed.
Goal True. idtac "ASSUMPTIONS same_padding_preserves_size_1d". Abort.
Print Assumptions same_padding_preserves_size_1d.

(* int | tuple arguments: an int n, the 1-tuple (n,) and the pair (n,n) are interchangeable in every geometry argument of
   Conv2d / MaxPool2d / AvgPool2d / Unfold / Fold (the constructors see them only through np.broadcast_to(., 2), which raises
   exactly for tuples of another length); padding='valid' is padding 0; the pools' default stride is the kernel size. *)
Theorem int_or_tuple_normalisation :
  (forall n, bcast2 (AInt n) = Ok (n, n) /\ bcast2 (ATup [n]) = Ok (n, n) /\ bcast2 (ATup [n; n]) = Ok (n, n)) /\
  (forall a, bcast2 a = Raises <-> exists l, a = ATup l /\ length l <> 1%nat /\ length l <> 2%nat) /\
  (forall k k' s s' p p' d d', bcast2 k = bcast2 k' -> bcast2 s = bcast2 s' -> bcast2 d = bcast2 d' -> pad_equiv p p' ->
     conv2d_ctor k s p d = conv2d_ctor k' s' p' d') /\
  (forall k k' s s' p p' d d', bcast2 k = bcast2 k' ->
     match s, s' with None, None => True | Some a, Some a' => bcast2 a = bcast2 a' | _, _ => False end ->
     bcast2 p = bcast2 p' -> bcast2 d = bcast2 d' -> pool2d_ctor k s p d = pool2d_ctor k' s' p' d') /\
  (forall k k' s s' p p' d d', bcast2 k = bcast2 k' -> bcast2 s = bcast2 s' -> bcast2 p = bcast2 p' -> bcast2 d = bcast2 d' ->
     unfold_ctor k s p d = unfold_ctor k' s' p' d') /\
  (forall k p d, pool2d_ctor k None p d = pool2d_ctor k (Some k) p d) /\
  (forall k p d, pool1d_ctor k None p d = pool1d_ctor k (Some k) p d) /\
  (forall k s d, conv2d_ctor k s PValid d = conv2d_ctor k s (PNum (AInt 0)) d).
Proof.
  repeat split.
  - apply bcast2_accepts.
  - apply bcast2_accepts.
  - apply conv2d_ctor_normalises.
  - apply pool2d_ctor_normalises.
  - apply unfold_ctor_normalises.
  - intros. apply pool2d_default_stride.
Qed.
Goal True. idtac "ASSUMPTIONS int_or_tuple_normalisation". Abort.
Print Assumptions int_or_tuple_normalisation.

(* ---------------------------------------------------------------- non-vacuity: a non-square geometry with padding, stride,
   dilation; the hypotheses hold and the model computes the expected numbers *)
Definition g_ex : geom := {| gN := 1; gC := 1; gH := 4; gW := 5; kH := 2; kW := 3; sH := 2; sW := 1; pH := 1; pW := 2; dH := 2; dW := 1 |}.
Example g_ex_valid : valid g_ex /\ lH g_ex = 2 /\ lW g_ex = 7.
Proof. unfold valid. cbn. repeat split; try lia; vm_compute; congruence. Qed.
Example g_ex_pool_hyps : pH g_ex <= (kH g_ex - 1) * dH g_ex /\ dH g_ex <= gH g_ex /\ pW g_ex <= (kW g_ex - 1) * dW g_ex /\ dW g_ex <= gW g_ex.
Proof. cbn. lia. Qed.
Definition x_ex : pos -> Z := of4 1 4 5 [1; 2; 3; 4; 5;  6; 7; 8; 9; 10;  -1; -2; -3; -4; -5;  -6; -7; -8; -9; -10].
Definition w_ex : pos -> Z := of4 1 2 3 [1; 0; -1;  2; 1; 0].
Example conv_ex :
  map (conv2d_fwd g_ex w_ex (Some (fun _ => 100)) x_ex) (Out2 g_ex 1) =
  [100; 106; 119; 122; 125; 128; 120;   94; 87; 79; 76; 73; 81; 90].
Proof. vm_compute. reflexivity. Qed.
Example maxpool_ex :
  map (maxpool2d_fwd g_ex x_ex) (Out2 g_ex 1) = map Fin [6; 7; 8; 9; 10; 10; 10;  6; 7; 8; 9; 10; 10; 10].
Proof. vm_compute. reflexivity. Qed.
(* a geometry PyTorch rejects (padding 2 > kernel/2) that the code accepts: the first output row is -inf *)
Definition g_bad : geom := {| gN := 1; gC := 1; gH := 3; gW := 3; kH := 2; kW := 1; sH := 1; sW := 1; pH := 2; pW := 0; dH := 1; dW := 1 |}.
Example g_bad_valid : valid g_bad /\ (kH g_bad - 1) * dH g_bad < pH g_bad.
Proof. unfold valid. cbn. repeat split; try lia; vm_compute; congruence. Qed.
Example maxpool_bad_ex :
  map (fun q => ext_code (maxpool2d_fwd g_bad (fun _ => 7) q)) (Out2 g_bad 1) =
  [None; None; None;  Some 7; Some 7; Some 7;  Some 7; Some 7; Some 7;  Some 7; Some 7; Some 7;  Some 7; Some 7; Some 7;  None; None; None].
Proof. vm_compute. reflexivity. Qed.
Example fold_shape_ex :      (* the input of the repaired finding: x(1,5,4), output_size (2,6), kernel (2,2) *)
  let q := {| g_k := (2, 2); g_s := (1, 1); g_p := (0, 0); g_d := (1, 1) |} in
  fold_accepts 1 5 4 2 6 q = false /\ fold_accepts 1 4 5 2 6 q = true /\ fold_accepts 1 4 4 2 6 q = false /\ fold_accepts 1 4 0 1 1 q = false.
Proof. vm_compute. repeat split. Qed.
Example same_ex :
  geo2_code (conv2d_ctor (ATup [3; 5]) (AInt 1) PSame (ATup [2; 1])) = Some [3; 5; 1; 1; 2; 2; 2; 1] /\
  conv2d_ctor (AInt 2) (AInt 1) PSame (AInt 1) = Raises /\
  conv2d_ctor (AInt 3) (AInt 2) PSame (AInt 1) = Raises.
Proof. repeat split. Qed.
