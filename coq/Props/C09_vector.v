(* C09 (vector part) — the stability MECHANISM of softmax / log_softmax / cross-entropy, over the reals.
   Statements about the generated terms (Gen/GenVecKernels.v): the lists <k>_exp_args / <k>_ln_args /
   <k>_intermediates are emitted by the translator from the same source lines as the kernel itself
   (every argument of np.exp / np.log, every named intermediate and the result).
   For ANY real input (no magnitude restriction): every exp argument is <= 0 and one is exactly 0, the normaliser
   (the only ln argument, the only divisor) lies in [1, n]; with |x_k| <= B every intermediate is bounded by 2B + n.
   OUTSIDE the model: float32/float64 rounding and the accuracy of NumPy's exp/log; these are sampled by the
   mpmath oracle of checks/kernels_vector.py, not proved.                                                     *)
From Coq Require Import Reals Arith List.
From SG Require Import Analysis.Vector Gen.GenVecKernels Proofs.VecKernelProofs Proofs.VecKernelProofsLossFwd Proofs.VecKernelProofsStability.
Open Scope R_scope.

Theorem softmax_exp_args_nonpos : forall n x, (1 <= n)%nat ->
  Forall (fun v : vec => (forall j, (j < n)%nat -> v j <= 0) /\ exists j, (j < n)%nat /\ v j = 0)
         (softmax_forward_exp_args n x).
Proof. exact softmax_exp_args_proof. Qed.
Goal True. idtac "ASSUMPTIONS softmax_exp_args_nonpos". Abort.
Print Assumptions softmax_exp_args_nonpos.

Theorem log_softmax_exp_args_nonpos : forall n x, (1 <= n)%nat ->
  Forall (fun v : vec => (forall j, (j < n)%nat -> v j <= 0) /\ exists j, (j < n)%nat /\ v j = 0)
         (log_softmax_forward_exp_args n x).
Proof. exact log_softmax_exp_args_proof. Qed.
Goal True. idtac "ASSUMPTIONS log_softmax_exp_args_nonpos". Abort.
Print Assumptions log_softmax_exp_args_nonpos.

Theorem log_softmax_ln_args_range : forall n x, (1 <= n)%nat ->
  Forall (fun v : vec => forall j, (j < n)%nat -> 1 <= v j <= INR n) (log_softmax_forward_ln_args n x).
Proof. exact log_softmax_ln_args_proof. Qed.
Goal True. idtac "ASSUMPTIONS log_softmax_ln_args_range". Abort.
Print Assumptions log_softmax_ln_args_range.

Theorem softmax_range : forall n x, (1 <= n)%nat -> forall j, (j < n)%nat -> 0 < softmax_forward n x j <= 1.
Proof. exact softmax_range_proof. Qed.
Goal True. idtac "ASSUMPTIONS softmax_range". Abort.
Print Assumptions softmax_range.

Theorem softmax_no_overflow : forall n x, (1 <= n)%nat -> forall B, (forall k, (k < n)%nat -> Rabs (x k) <= B) ->
  Forall (fun v : vec => forall j, (j < n)%nat -> Rabs (v j) <= 2 * B + INR n) (softmax_forward_intermediates n x).
Proof. exact softmax_no_overflow_proof. Qed.
Goal True. idtac "ASSUMPTIONS softmax_no_overflow". Abort.
Print Assumptions softmax_no_overflow.

Theorem log_softmax_range : forall n x, (1 <= n)%nat -> forall B, (forall k, (k < n)%nat -> Rabs (x k) <= B) ->
  forall j, (j < n)%nat -> - (2 * B + ln (INR n)) <= log_softmax_forward n x j <= 0.
Proof. exact log_softmax_range_proof. Qed.
Goal True. idtac "ASSUMPTIONS log_softmax_range". Abort.
Print Assumptions log_softmax_range.

Theorem log_softmax_no_overflow : forall n x, (1 <= n)%nat -> forall B, (forall k, (k < n)%nat -> Rabs (x k) <= B) ->
  Forall (fun v : vec => forall j, (j < n)%nat -> Rabs (v j) <= 2 * B + INR n) (log_softmax_forward_intermediates n x).
Proof. exact log_softmax_no_overflow_proof. Qed.
Goal True. idtac "ASSUMPTIONS log_softmax_no_overflow". Abort.
Print Assumptions log_softmax_no_overflow.

(* cross-entropy is computed through log-sum-exp: it is never clipped, 0 <= ce <= 2 max|x| + ln n *)
Theorem cross_entropy_bounds : forall n x, (1 <= n)%nat -> forall B, (forall k, (k < n)%nat -> Rabs (x k) <= B) ->
  forall y, (y < n)%nat -> 0 <= cross_entropy_loss_forward n x y <= 2 * B + ln (INR n).
Proof. exact cross_entropy_bounds_proof. Qed.
Goal True. idtac "ASSUMPTIONS cross_entropy_bounds". Abort.
Print Assumptions cross_entropy_bounds.

(* ... and it is the exact mathematical value ln(sum exp x) - x_y (so logits [1000, 0, -1000], label 2 give 2000 + ln(1+e^-1000+e^-2000)) *)
Theorem cross_entropy_exact : forall n x y, (1 <= n)%nat ->
  cross_entropy_loss_forward n x y = ln (vsum n (fun k => exp (x k))) - x y.
Proof. exact cross_entropy_math. Qed.
Goal True. idtac "ASSUMPTIONS cross_entropy_exact". Abort.
Print Assumptions cross_entropy_exact.
