(* C17 — backward scales to deep graphs and untracked computations keep no history.
   Only statements; proofs live in Proofs/{SweepProofs,DfsProofs,DfsAux,EngineCompose}.v.

   What the model can say: the ordering is a loop over an explicit stack (Engine/Dfs.v transcribes the `while
   stack:` loop; there is no recursion whose depth could depend on the graph), it always terminates within a
   number of iterations linear in the graph, every closure is invoked exactly once, and a result that does not
   require grad has no children, hence keeps nothing alive and is never traversed into.  Actual time and memory
   are outside the model; the check runs chains of 10^3 .. 5*10^4 operations and weak-reference liveness probes
   on the real engine. *)
From Coq Require Import List Bool Arith ZArith.
Import ListNotations.
From SG Require Import Engine.Graph Engine.Dfs Engine.Sweep Engine.History.
From SG Require Import Proofs.DfsAux Proofs.DfsProofs Proofs.SweepProofs Proofs.HistoryProofs Proofs.EngineCompose.

(* backward succeeds on every well-formed graph, of any depth and size *)
Theorem backward_any_depth :
  forall (A : galg), galg_ok A ->
  forall g (w : weights A) mode root seed (b : bufs A),
    wf g -> (forall n, node_ok (getn g n)) -> root < length g -> req (getn g root) = true ->
    exists b' log, backward A g w mode root seed b = Some (b', log).
Proof.
  intros A Aok g w mode root seed b Hwf Hok Hroot Hreq.
  destruct (backward_is_pathsum A Aok g w mode root seed b Hwf Hok Hroot Hreq) as [b' [ord [H _]]].
  eauto.
Qed.
Goal True. idtac "ASSUMPTIONS backward_any_depth". Abort.
Print Assumptions backward_any_depth.

(* the number of closure invocations is the number of reachable nodes that have a backward function: each
   recorded operation is visited exactly once (the log has no duplicates: C03 each_fn_once) *)
Theorem calls_linear :
  forall (A : galg), galg_ok A ->
  forall g (w : weights A) mode root seed (b : bufs A) b' log,
    wf g -> (forall n, node_ok (getn g n)) -> root < length g ->
    backward A g w mode root seed b = Some (b', log) ->
    length log = length (filter (fun n => reachb g root n && has_fn (getn g n)) (seq 0 (length g))) /\
    length log <= length g.
Proof. intros A Aok g w mode root seed b b' log. apply backward_calls_linear. exact Aok. Qed.
Goal True. idtac "ASSUMPTIONS calls_linear". Abort.
Print Assumptions calls_linear.

(* the ordering loop makes exactly  Σ_{n reached} (1 + number of operands of n)  iterations, fewer than
   1 + nodes + edges of the whole arena (work package A1) *)
Theorem ordering_loop_linear :
  forall g root present0 s k, wf g -> root < length g ->
    drun_count g (dfs_fuel g) (dinit g root present0) 0 = Some (s, k) ->
    k = list_sum (map (fun n => 1 + length (children (getn g n))) (rev (rord s))) /\ k < dfs_fuel g.
Proof. exact dfs_visits_linear. Qed.
Goal True. idtac "ASSUMPTIONS ordering_loop_linear". Abort.
Print Assumptions ordering_loop_linear.

(* ... and calls zero_() at most that many times (the buffers of the reached tensors are reset inside the same loop,
   once per operand slot at most - never once per path) *)
Theorem zero_calls_linear :
  forall g root present0 ord z p, wf g -> root < length g ->
    dfs g root present0 (dfs_fuel g) = Some (ord, z, p) ->
    length z <= list_sum (map (fun n => 1 + length (children (getn g n))) ord).
Proof. exact zero_calls_linear. Qed.
Goal True. idtac "ASSUMPTIONS zero_calls_linear". Abort.
Print Assumptions zero_calls_linear.

(* results computed without tracking keep nothing: what the wrappers build when no operand requires grad or
   gradient mode is off has no children ... *)
Theorem untracked_keep_nothing :
  forall g gm cs,
    (gm = false \/ forallb (fun c => negb (req (getn g c))) cs = true) ->
    children (op_node g gm cs) = [] /\ req (op_node g gm cs) = false /\ has_fn (op_node g gm cs) = false.
Proof.
  intros g gm cs H. unfold op_node.
  assert (E : existsb (fun c => req (getn g c)) cs && gm = false).
  { destruct H as [->|H]; [apply andb_false_r|].
    replace (existsb (fun c => req (getn g c)) cs) with false; [reflexivity|].
    symmetry. induction cs as [|c cs IH]; [reflexivity|]. cbn [forallb existsb] in *.
    apply andb_true_iff in H. destruct H as [H1 H2]. apply negb_true_iff in H1. rewrite H1, (IH H2). reflexivity. }
  rewrite E. cbn. auto.
Qed.
Goal True. idtac "ASSUMPTIONS untracked_keep_nothing". Abort.
Print Assumptions untracked_keep_nothing.

(* ... so the set of tensors such a result keeps alive is itself only, and a later backward through a graph
   that uses it never goes below it *)
Theorem untracked_retains_only_itself :
  forall g n, node_ok (getn g n) -> req (getn g n) = false ->
    retained g n = [n] /\ (forall m, reachable g n m -> m = n).
Proof. intros g n Hok Hr. split; [apply retained_untracked; assumption|intros m; apply untracked_not_traversed; assumption]. Qed.
Goal True. idtac "ASSUMPTIONS untracked_retains_only_itself". Abort.
Print Assumptions untracked_retains_only_itself.

(* ---- instances --------------------------------------------------------------------------------------- *)
Definition leafn : node := mkNode [] true false false.
Definition opn (cs : list nat) : node := mkNode cs true true false.
(* x -> op -> op -> ... (n sequential operations, each multiplying by 1) *)
Definition chain (n : nat) : arena := leafn :: map (fun i => opn [i]) (seq 0 n).

Example deep_chain :
  let n := 400 in
  match backward ZAlg (chain n) (fun _ _ => 1%Z) false n 1%Z (fun _ => None) with
  | Some (b, log) => length log = n /\ b 0 = Some 1%Z /\ b 1 = None /\ b n = Some 1%Z
  | None => False
  end.
Proof. vm_compute. auto. Qed.

(* 12 stacked diamonds h <- h + h*w: 2^12 paths, 24 closure calls, the seed is multiplied by 2^12 *)
Definition diamonds (n : nat) : arena :=
  leafn :: flat_map (fun i => [opn [2 * i]; opn [2 * i; 2 * i + 1]]) (seq 0 n).
Example stacked_diamonds :
  let n := 12 in
  match backward ZAlg (diamonds n) (fun _ _ => 1%Z) false (2 * n) 1%Z (fun _ => None) with
  | Some (b, log) => length log = 2 * n /\ b 0 = Some 4096%Z /\ length (all_paths (diamonds n) (2 * n) 0) = 4096
  | None => False
  end.
Proof. vm_compute. auto. Qed.

(* an untracked update loop: p_{k+1} = p_k - lr * g under no_grad: every result has no children *)
Example untracked_loop :
  let g := [leafn; op_node [leafn] false [0]; op_node [leafn; op_node [leafn] false [0]] false [1]] in
  map children g = [[]; []; []] /\ retained g 2 = [2].
Proof. vm_compute. auto. Qed.
