(* C13 (batch-norm statistics part) -- statements about the generated batch_norm_forward on one channel:
   training mode with running statistics (m, v): normalises with the batch mean / biased batch variance and returns
   rm' = mean*momentum + m*(1-momentum), rv' = var*(n/(n-1))*momentum + v*(1-momentum) (unbiased variance in the update);
   eval mode: normalises with (m, v) and returns them unchanged.  (n = 1 makes n/(n-1) = 1/0: NumPy yields inf/nan there;
   over R the term is Coq's total division -- the statement is about n as given, callers should assume 2 <= n.) *)
From Coq Require Import Reals.
From SG Require Import Analysis.Vector Gen.GenVecKernels Proofs.VecKernelProofsBNStats.
Open Scope R_scope.

Theorem bn_running_stats_update : forall n x weight bias (m v : R) momentum eps,
  (let '(_, rm', rv', mean, var) := batch_norm_forward n x weight bias (Some m) (Some v) true momentum eps in
   rm' = Some (vmean n x * momentum + m * (1 - momentum)) /\
   rv' = Some (vvar n x * (INR n / (INR n - 1)) * momentum + v * (1 - momentum)) /\
   mean = vmean n x /\ var = vvar n x) /\
  (let '(_, rm', rv', mean, var) := batch_norm_forward n x weight bias (Some m) (Some v) false momentum eps in
   rm' = Some m /\ rv' = Some v /\ mean = m /\ var = v).
Proof. exact bn_running_stats_update_proof. Qed.
Goal True. idtac "ASSUMPTIONS bn_running_stats_update". Abort.
Print Assumptions bn_running_stats_update.

