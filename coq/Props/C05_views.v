(* C05 (views part, work package E1) - forward results of the shape-changing / view / indexing ops match the
   NumPy / PyTorch / Python semantics they mirror; the legal argument combinations are exactly the accepted ones.
   Only statements; proofs live in Proofs/ViewsSpecProofs.v and Proofs/ViewsIndexSpecProofs.v.
   Models: NumPy/Views.v, NumPy/Indexing.v (what the code does).  Spec: NumPy/Spec.v (what the mirrored semantics says;
   written independently: dims wrapped with `mod`, results characterised by properties).

   Every `<op>_accepts_iff_legal` / `<op>_matches_spec` below is the full-strength statement: all ranks (0-d included),
   all shapes (zero-size dims included), all argument values.  Which reference each op follows for 0-d operands:
   flatten and squeeze wrap dims like PyTorch (a 0-d tensor has the dims 0/-1; the code says so itself), movedim /
   transpose / unfold follow NumPy's axis rule (a 0-d array has no axis); reshape follows ndarray.reshape (at most
   one negative entry = the unknown dimension).  See notes/E1_views.md for the reclassified items.                 *)
From Coq Require Import List Bool Arith ZArith.
Import ListNotations.
From SG Require Import Base.Sums Base.Cmp NumPy.Gather NumPy.Index NumPy.Tensor NumPy.ViewsAux NumPy.Views NumPy.Indexing NumPy.Spec.
From SG Require Import Proofs.ViewsAuxProofs Proofs.ViewsReshapeProofs Proofs.ViewsPermProofs Proofs.ViewsUnfoldProofs
                       Proofs.ViewsIndexProofs Proofs.ViewsSpecProofs Proofs.ViewsIndexSpecProofs.


(* ---- reshape *)
(* accepted iff at most one negative entry and the known entries multiply to the size (none) or divide it with a positive product (one) *)
Theorem reshape_accepts_iff_legal :
  forall (sh : shape) (t : list Z), fwd_reshape sh t <> None <-> legal_reshape sh t.
Proof. exact reshape_accepts_iff_legal. Qed.
Goal True. idtac "ASSUMPTIONS reshape_accepts_iff_legal". Abort.
Print Assumptions reshape_accepts_iff_legal.

(* accepted => the explicit entries are kept, the size is kept, the elements keep their row-major order *)
Theorem reshape_matches_spec :
  forall (sh : shape) (t : list Z) (op : gather_op),
         fwd_reshape sh t = Some op -> spec_reshape sh t op.
Proof. exact reshape_matches_spec. Qed.
Goal True. idtac "ASSUMPTIONS reshape_matches_spec". Abort.
Print Assumptions reshape_matches_spec.


(* ---- flatten: every start/end incl. negatives, every shape incl. 0-d and zero-size dims *)
(* accepted iff both dims are in [-max(n,1), max(n,1)) and start <= end after wrapping *)
Theorem flatten_accepts_iff_legal :
  forall (sh : shape) (s e : Z), fwd_flatten sh s e <> None <-> legal_flatten sh s e.
Proof. exact flatten_accepts_iff_legal. Qed.
Goal True. idtac "ASSUMPTIONS flatten_accepts_iff_legal". Abort.
Print Assumptions flatten_accepts_iff_legal.

(* result shape = prefix ++ [product of dims start..end] ++ suffix (0-d: (1,)), element order unchanged *)
Theorem flatten_matches_spec :
  forall (sh : shape) (s e : Z) (op : gather_op),
         fwd_flatten sh s e = Some op -> spec_flatten sh s e op.
Proof. exact flatten_matches_spec. Qed.
Goal True. idtac "ASSUMPTIONS flatten_matches_spec". Abort.
Print Assumptions flatten_matches_spec.


(* ---- squeeze: dim None | int | tuple, dims that are not 1 silently skipped *)
(* accepted iff every dim is in [-max(n,1), max(n,1)) and no dim is repeated after wrapping *)
Theorem squeeze_accepts_iff_legal :
  forall (sh : shape) (arg : sqarg), fwd_squeeze sh arg <> None <-> legal_squeeze sh arg.
Proof. exact squeeze_accepts_iff_legal. Qed.
Goal True. idtac "ASSUMPTIONS squeeze_accepts_iff_legal". Abort.
Print Assumptions squeeze_accepts_iff_legal.

(* exactly the named axes of size 1 disappear, element order unchanged *)
Theorem squeeze_matches_spec :
  forall (sh : shape) (arg : sqarg) (op : gather_op),
         fwd_squeeze sh arg = Some op -> spec_squeeze sh arg op.
Proof. exact squeeze_matches_spec. Qed.
Goal True. idtac "ASSUMPTIONS squeeze_matches_spec". Abort.
Print Assumptions squeeze_matches_spec.


(* ---- unsqueeze: int | tuple (positions in the result) *)
(* accepted iff every dim is in [-(n+k), n+k) and they are distinct after wrapping *)
Theorem unsqueeze_accepts_iff_legal :
  forall (sh : shape) (arg : unsqarg), fwd_unsqueeze sh arg <> None <-> legal_unsqueeze sh arg.
Proof. exact unsqueeze_accepts_iff_legal. Qed.
Goal True. idtac "ASSUMPTIONS unsqueeze_accepts_iff_legal". Abort.
Print Assumptions unsqueeze_accepts_iff_legal.

(* the result has 1 at the named positions, the other positions are the operand's dims in order; element order unchanged *)
Theorem unsqueeze_matches_spec :
  forall (sh : shape) (arg : unsqarg) (op : gather_op),
         fwd_unsqueeze sh arg = Some op -> spec_unsqueeze sh arg op.
Proof. exact unsqueeze_matches_spec. Qed.
Goal True. idtac "ASSUMPTIONS unsqueeze_matches_spec". Abort.
Print Assumptions unsqueeze_matches_spec.


(* ---- movedim: every (source, destination) *)
(* accepted iff both dims are in [-n, n) *)
Theorem movedim_accepts_iff_legal :
  forall (sh : shape) (s d : Z), fwd_movedim sh s d <> None <-> legal_movedim sh s d.
Proof. exact movedim_accepts_iff_legal. Qed.
Goal True. idtac "ASSUMPTIONS movedim_accepts_iff_legal". Abort.
Print Assumptions movedim_accepts_iff_legal.

(* output axis `destination` is input axis `source`, the other axes keep their relative order; out[j] = in[i] with i[sigma k] = j[k] *)
Theorem movedim_matches_spec :
  forall (sh : shape) (s d : Z) (op : gather_op),
         fwd_movedim sh s d = Some op -> spec_movedim sh s d op.
Proof. exact movedim_matches_spec. Qed.
Goal True. idtac "ASSUMPTIONS movedim_matches_spec". Abort.
Print Assumptions movedim_matches_spec.


(* ---- transpose: every (dim0, dim1) *)
(* accepted iff both dims are in [-n, n) *)
Theorem transpose_accepts_iff_legal :
  forall (sh : shape) (a b : Z), fwd_transpose sh a b <> None <-> legal_transpose sh a b.
Proof. exact transpose_accepts_iff_legal. Qed.
Goal True. idtac "ASSUMPTIONS transpose_accepts_iff_legal". Abort.
Print Assumptions transpose_accepts_iff_legal.

(* the two axes are swapped, the others stay *)
Theorem transpose_matches_spec :
  forall (sh : shape) (a b : Z) (op : gather_op),
         fwd_transpose sh a b = Some op -> spec_transpose sh a b op.
Proof. exact transpose_matches_spec. Qed.
Goal True. idtac "ASSUMPTIONS transpose_matches_spec". Abort.
Print Assumptions transpose_matches_spec.


(* ---- unfold: every (dimension, size, step) *)
(* accepted iff dimension in [-n,n), size >= 1, step >= 1, size <= shape[dimension] *)
Theorem unfold_accepts_iff_legal :
  forall (sh : shape) (dimension size step : Z),
         fwd_unfold_dim sh dimension size step <> None <-> legal_unfold sh dimension size step.
Proof. exact unfold_accepts_iff_legal. Qed.
Goal True. idtac "ASSUMPTIONS unfold_accepts_iff_legal". Abort.
Print Assumptions unfold_accepts_iff_legal.

(* shape: (L-size)/step+1 windows at `dimension`, window axis appended last; out[..., w, ..., k] = in[..., w*step+k, ...] *)
Theorem unfold_matches_spec :
  forall (sh : shape) (dimension size step : Z) (op : gather_op),
         fwd_unfold_dim sh dimension size step = Some op -> spec_unfold sh dimension size step op.
Proof. exact unfold_matches_spec. Qed.
Goal True. idtac "ASSUMPTIONS unfold_matches_spec". Abort.
Print Assumptions unfold_matches_spec.


(* ---- indexing: slices per the Python language reference, x[k], x[[k1..km]] *)
(* x[a:b:c] is accepted iff c != 0 *)
Theorem slice0_accepts_iff_legal :
  forall (d : nat) (rest : list nat) (a b c : option Z),
         fwd_index (d :: rest) [ISlice a b c] <> None <-> spec_slice_positions d a b c <> None.
Proof. exact slice0_accepts_iff_legal. Qed.
Goal True. idtac "ASSUMPTIONS slice0_accepts_iff_legal". Abort.
Print Assumptions slice0_accepts_iff_legal.

(* x[a:b:c] selects, in order, exactly the rows i, i+k, i+2k, ... of the language reference (negative / omitted / out-of-range bounds, negative steps) *)
Theorem slice0_matches_spec :
  forall (d : nat) (rest : list nat) (a b c : option Z) (op : gather_op),
         fwd_index (d :: rest) [ISlice a b c] = Some op -> spec_slice0 (d :: rest) a b c op.
Proof. exact slice0_matches_spec. Qed.
Goal True. idtac "ASSUMPTIONS slice0_matches_spec". Abort.
Print Assumptions slice0_matches_spec.

(* x[k] accepted iff -d <= k < d *)
Theorem row_accepts_iff_legal :
  forall (d : nat) (rest : list nat) (k : Z),
         fwd_index (d :: rest) [IInt k] <> None <-> (- Z.of_nat d <= k < Z.of_nat d)%Z.
Proof. exact row_accepts_iff_legal. Qed.
Goal True. idtac "ASSUMPTIONS row_accepts_iff_legal". Abort.
Print Assumptions row_accepts_iff_legal.

(* x[k] is row k mod d *)
Theorem row_matches_spec :
  forall (d : nat) (rest : list nat) (k : Z) (op : gather_op),
         fwd_index (d :: rest) [IInt k] = Some op -> spec_row (d :: rest) k op.
Proof. exact row_matches_spec. Qed.
Goal True. idtac "ASSUMPTIONS row_matches_spec". Abort.
Print Assumptions row_matches_spec.

(* x[[k1..km]]: row t of the result is row k_t (repeats allowed) *)
Theorem take0_matches_spec :
  forall (d : nat) (rest : list nat) (ks : list Z) (op : gather_op),
         fwd_index (d :: rest) [IArr ks] = Some op -> spec_take0 (d :: rest) ks op.
Proof. exact take0_matches_spec. Qed.
Goal True. idtac "ASSUMPTIONS take0_matches_spec". Abort.
Print Assumptions take0_matches_spec.

(* every accepted index expression of the modelled fragment (ints, slices, None, Ellipsis, integer arrays) reads within bounds *)
Theorem index_maps_into :
  forall (sh : shape) (items : list item) (op : gather_op),
         fwd_index sh items = Some op -> g_in op = sh /\ maps_into op.
Proof. exact index_maps_into. Qed.
Goal True. idtac "ASSUMPTIONS index_maps_into". Abort.
Print Assumptions index_maps_into.


(* ---- iteration over the first dimension: __iter__ returns a fresh generator *)
(* whatever else happens (other iterators created or advanced, in any interleaving), the rows iterator k yields are c, c+1, ... in order, one per next(), until its bound *)
Theorem iter_independent :
  forall (sh : shape) (evs : list iev) (st : list (nat * nat)) (k c b : nat),
         nth_error st k = Some (c, b) ->
         c <= b -> yields k evs (irun sh st evs) = seq c (Init.Nat.min (count_next k evs) (b - c)).
Proof. exact iter_independent. Qed.
Goal True. idtac "ASSUMPTIONS iter_independent". Abort.
Print Assumptions iter_independent.

(* len = shape[0]; a fresh iterator yields rows 0,1,...,shape[0]-1 whatever nested / simultaneous iterations do (row r is x[r]: row_matches_spec) *)
Theorem iter_yields_rows :
  forall (d : nat) (rest : list nat) (st : list (nat * nat)) (evs : list iev),
         let sh := d :: rest in
         let k := length st in
         tlen sh = Some d /\
         fst (istep sh st NewIter) = st ++ [(0, d)] /\
         yields k evs (irun sh (st ++ [(0, d)]) evs) = seq 0 (Init.Nat.min (count_next k evs) d).
Proof. exact iter_yields_rows. Qed.
Goal True. idtac "ASSUMPTIONS iter_yields_rows". Abort.
Print Assumptions iter_yields_rows.


(* ---- non-vacuity ---------------------------------------------------------------------------------------- *)
Example flatten_example :
  option_map g_out (fwd_flatten [2;3;4;5] 1 (-2)) = Some [2;12;5] /\ legal_flatten [2;3;4;5] 1 (-2).
Proof. split. vm_compute. reflexivity. exists 1, 2. repeat split; auto. Qed.

(* the inputs of the repaired defects *)
Example flatten_0d_example : option_map g_out (fwd_flatten [] 0 (-1)) = Some [1].
Proof. vm_compute. reflexivity. Qed.
Example flatten_zero_size_example : option_map g_out (fwd_flatten [0;3;2] 1 2) = Some [0;6].
Proof. vm_compute. reflexivity. Qed.
Example squeeze_repaired_examples :
  fwd_squeeze [] (SqInt 5) = None /\ fwd_squeeze [2] (SqTuple [0;0]%Z) = None /\
  option_map g_out (fwd_squeeze [] (SqTuple [0%Z])) = Some [] /\ option_map g_out (fwd_squeeze [] (SqInt (-1))) = Some [].
Proof. vm_compute. repeat split; reflexivity. Qed.

Example squeeze_example :
  option_map g_out (fwd_squeeze [1;3;1;2] (SqTuple [0; 1; -2]%Z)) = Some [3;2] /\ legal_squeeze [1;3;1;2] (SqTuple [0; 1; -2]%Z).
Proof.
  split. vm_compute. reflexivity. split. intros z [<-|[<-|[<-|[]]]]; discriminate.
  cbn. repeat constructor; simpl; intuition discriminate.
Qed.

Example slice_example :
  spec_slice_positions 7 (Some (-2)%Z) None (Some (-3)%Z) = Some [5; 2] /\
  option_map (fun op => (g_out op, probe op)) (fwd_index [7] [ISlice (Some (-2)%Z) None (Some (-3)%Z)]) = Some ([2], [Some 5; Some 2]).
Proof. split; vm_compute; reflexivity. Qed.

(* nested iteration: for a in x: for b in x  on a tensor with 3 rows; outer iterator 0, inner iterators 1,2,3 *)
Example nested_iteration_example :
  let inner k := [NewIter; Next k; Next k; Next k; Next k] in
  let evs := [NewIter; Next 0] ++ inner 1 ++ [Next 0] ++ inner 2 ++ [Next 0] ++ inner 3 ++ [Next 0] in
  yields 0 evs (irun [3;2] [] evs) = [0;1;2] /\ yields 1 evs (irun [3;2] [] evs) = [0;1;2] /\
  yields 3 evs (irun [3;2] [] evs) = [0;1;2] /\ length (filter (fun o => match o with ORow _ => true | _ => false end) (irun [3;2] [] evs)) = 12.
Proof. vm_compute. repeat split; reflexivity. Qed.
