(* C02, elementwise part (relu / leaky_relu / selu / tanh / sigmoid, mse / bce / bce-with-logits) --
   statements only.  Proofs: Proofs/KernelProofs2.v.  Statements are about the GENERATED definitions
   (Gen/GenKernels.v from synapgrad/cpu_ops.py, Gen/GenKernelUse.v from synapgrad/nn/functional.py;
   wrap_<op>_out = forward as called by the wrapper, wrap_<op>_grad_<x> g = what the closure adds to
   x.grad, including the choice input / saved output and the sign of the accumulation).
   Over the reals: "up to rounding" is outside the model. *)
From Coq Require Import Reals ZArith Lia Lra String List.
From Coquelicot Require Import Coquelicot.
From SG Require Import Analysis.RealOps Analysis.Derive Gen.GenKernels Gen.GenKernelUse Proofs.KernelProofs Proofs.KernelProofs2.
Import ListNotations.
Open Scope R_scope.

(* one_sided_at_0 f dl dr: f coincides on (-inf,0] with a function of derivative dl at 0 and on [0,inf) with one
   of derivative dr at 0;  between a b v: min a b <= v <= max a b  (v is a valid subgradient choice) *)

(* relu away from the kink *)
Theorem relu_vjp :
  forall x g, x <> 0 -> is_derive wrap_relu_out x (wrap_relu_grad_x 1 x) /\ wrap_relu_grad_x g x = g * wrap_relu_grad_x 1 x.
Proof. exact (fun x g H => conj (relu_derive x H) (relu_linear g x)). Qed.
Goal True. idtac "ASSUMPTIONS relu_vjp". Abort.
Print Assumptions relu_vjp.

(* at 0 the kernel returns 0, between the one-sided derivatives 0 and 1 *)
Theorem relu_kink :
  one_sided_at_0 wrap_relu_out 0 1 /\ between 0 1 (wrap_relu_grad_x 1 0).
Proof. exact relu_subgradient_at_0. Qed.
Goal True. idtac "ASSUMPTIONS relu_kink". Abort.
Print Assumptions relu_kink.

(* leaky_relu, any slope s (forward where(x > 0, x, s*x)) *)
Theorem leaky_relu_vjp :
  forall x s g, x <> 0 -> is_derive (fun t => wrap_leaky_relu_out t s) x (wrap_leaky_relu_grad_x 1 x s) /\ wrap_leaky_relu_grad_x g x s = g * wrap_leaky_relu_grad_x 1 x s.
Proof. exact (fun x s g Hx => conj (leaky_relu_derive x s Hx) (leaky_relu_linear g x s)). Qed.
Goal True. idtac "ASSUMPTIONS leaky_relu_vjp". Abort.
Print Assumptions leaky_relu_vjp.

(* at 0 the kernel returns s, one of the one-sided derivatives s and 1 *)
Theorem leaky_relu_kink :
  forall s, one_sided_at_0 (fun t => wrap_leaky_relu_out t s) s 1 /\ between s 1 (wrap_leaky_relu_grad_x 1 0 s).
Proof. exact leaky_relu_subgradient_at_0. Qed.
Goal True. idtac "ASSUMPTIONS leaky_relu_kink". Abort.
Print Assumptions leaky_relu_kink.

(* selu with the constants F.selu passes (wrap_selu_alpha, wrap_selu_scale) *)
Theorem selu_vjp :
  forall x g, x <> 0 -> is_derive wrap_selu_out x (wrap_selu_grad_x 1 x) /\ wrap_selu_grad_x g x = g * wrap_selu_grad_x 1 x.
Proof. exact (fun x g H => conj (selu_derive x H) (selu_linear g x)). Qed.
Goal True. idtac "ASSUMPTIONS selu_vjp". Abort.
Print Assumptions selu_vjp.

(* the selu kernels for any alpha > 0 and any scale *)
Theorem selu_kernel_vjp :
  forall x alpha scale, 0 < alpha -> x <> 0 -> is_derive (fun t => selu_forward t alpha scale) x (selu_backward 1 x alpha scale).
Proof. exact selu_kernel_derive. Qed.
Goal True. idtac "ASSUMPTIONS selu_kernel_vjp". Abort.
Print Assumptions selu_kernel_vjp.

(* at 0 the kernel returns scale*alpha, the left derivative *)
Theorem selu_kink :
  one_sided_at_0 wrap_selu_out (wrap_selu_scale * wrap_selu_alpha) wrap_selu_scale /\ between (wrap_selu_scale * wrap_selu_alpha) wrap_selu_scale (wrap_selu_grad_x 1 0).
Proof. exact selu_subgradient_at_0. Qed.
Goal True. idtac "ASSUMPTIONS selu_kink". Abort.
Print Assumptions selu_kink.

(* the constants handed over by F.selu, exactly as written in the source *)
Theorem selu_constants :
  wrap_selu_alpha = 16732632423543772848170429916717 / 10000000000000000000000000000000 /\ wrap_selu_scale = 10507009873554804934193349852946 / 10000000000000000000000000000000.
Proof. exact (conj eq_refl selu_scale_value). Qed.
Goal True. idtac "ASSUMPTIONS selu_constants". Abort.
Print Assumptions selu_constants.

(* tanh (saved output) *)
Theorem tanh_vjp :
  forall x g, is_derive wrap_tanh_out x (wrap_tanh_grad_x 1 x) /\ wrap_tanh_grad_x g x = g * wrap_tanh_grad_x 1 x.
Proof. exact (fun x g => conj (tanh_derive x) (tanh_linear g x)). Qed.
Goal True. idtac "ASSUMPTIONS tanh_vjp". Abort.
Print Assumptions tanh_vjp.

(* sigmoid (saved output) *)
Theorem sigmoid_vjp :
  forall x g, is_derive wrap_sigmoid_out x (wrap_sigmoid_grad_x 1 x) /\ wrap_sigmoid_grad_x g x = g * wrap_sigmoid_grad_x 1 x.
Proof. exact (fun x g => conj (sigmoid_derive x) (sigmoid_linear g x)). Qed.
Goal True. idtac "ASSUMPTIONS sigmoid_vjp". Abort.
Print Assumptions sigmoid_vjp.

(* mse: the prediction receives bwd, the target receives -bwd (the wrapper does y_true._grad -= ...) *)
Theorem mse_vjp_both_arguments :
  forall p y g, is_derive (fun t => wrap_mse_loss_out t y) p (wrap_mse_loss_grad_y_pred 1 p y) /\ is_derive (fun t => wrap_mse_loss_out p t) y (wrap_mse_loss_grad_y_true 1 p y) /\
    wrap_mse_loss_grad_y_pred g p y = g * wrap_mse_loss_grad_y_pred 1 p y /\ wrap_mse_loss_grad_y_true g p y = g * wrap_mse_loss_grad_y_true 1 p y.
Proof. exact (fun p y g => conj (mse_derive_pred p y) (conj (mse_derive_true p y) (mse_linear g p y))). Qed.
Goal True. idtac "ASSUMPTIONS mse_vjp_both_arguments". Abort.
Print Assumptions mse_vjp_both_arguments.

(* ---- bce.  bce_core_eps eps p y = -(y ln(p+eps) + (1-y) ln(1-p+eps)) is the loss before the clamp,
   bce_dcore_eps its derivative in p, bce_bwd_eps the backward formula with the guard constant abstracted. *)
(* the generated kernels are these formulas at eps = epsilon (the forward with the clamp to 100 where the loss equals -ln epsilon) *)
Theorem bce_shapes :
  forall g p y, wrap_binary_cross_entropy_out p y = where_ (ind_eq (bce_core_eps epsilon p y) (- ln epsilon)) 100 (bce_core_eps epsilon p y) /\ wrap_binary_cross_entropy_grad_y_pred g p y = bce_bwd_eps epsilon g p y.
Proof. exact (fun g p y => conj (bce_forward_shape p y) (bce_backward_shape g p y)). Qed.
Goal True. idtac "ASSUMPTIONS bce_shapes". Abort.
Print Assumptions bce_shapes.

(* on the unit square the clamp is active exactly at the two corners (p,y) = (0,1), (1,0) *)
Theorem bce_clamp_active :
  forall eps p y, 0 < eps -> 0 <= p <= 1 -> 0 <= y <= 1 -> (bce_core_eps eps p y = - ln eps <-> (p = 0 /\ y = 1) \/ (p = 1 /\ y = 0)).
Proof. exact bce_clamp_active_iff. Qed.
Goal True. idtac "ASSUMPTIONS bce_clamp_active". Abort.
Print Assumptions bce_clamp_active.

(* the computed forward (clamp included) is differentiable in p on the open interval, with derivative bce_dcore_eps *)
Theorem bce_forward_derivative :
  forall p y, 0 < p < 1 -> 0 <= y <= 1 -> is_derive (fun t => wrap_binary_cross_entropy_out t y) p (bce_dcore_eps epsilon p y).
Proof. exact bce_forward_derive. Qed.
Goal True. idtac "ASSUMPTIONS bce_forward_derivative". Abort.
Print Assumptions bce_forward_derivative.

(* the backward kernel is NOT that derivative (epsilon is added in other places); explicit bound on the discrepancy *)
Theorem bce_backward_error :
  forall p y, 0 <= p <= 1 -> 0 <= y <= 1 ->
    Rabs (wrap_binary_cross_entropy_grad_y_pred 1 p y - bce_dcore_eps epsilon p y) <= epsilon * (1 / (p + epsilon) + 1 / (1 - p + epsilon)).
Proof. exact bce_backward_error_bound. Qed.
Goal True. idtac "ASSUMPTIONS bce_backward_error". Abort.
Print Assumptions bce_backward_error.

(* hence at most epsilon (1/p + 1/(1-p)) inside (0,1) *)
Theorem bce_backward_error_interior :
  forall p y, 0 < p < 1 -> 0 <= y <= 1 -> Rabs (wrap_binary_cross_entropy_grad_y_pred 1 p y - bce_dcore_eps epsilon p y) <= epsilon * (1 / p + 1 / (1 - p)).
Proof. exact bce_backward_error_bound_interior. Qed.
Goal True. idtac "ASSUMPTIONS bce_backward_error_interior". Abort.
Print Assumptions bce_backward_error_interior.

(* with the guard constant set to 0 the backward formula is the exact derivative of the loss *)
Theorem bce_exact_for_vanishing_guard :
  forall p y, 0 < p < 1 -> is_derive (fun t => bce_core_eps 0 t y) p (bce_bwd_eps 0 1 p y).
Proof. exact bce_exact_without_guard. Qed.
Goal True. idtac "ASSUMPTIONS bce_exact_for_vanishing_guard". Abort.
Print Assumptions bce_exact_for_vanishing_guard.

(* linearity in the upstream gradient *)
Theorem bce_linear_in_g :
  forall g p y, wrap_binary_cross_entropy_grad_y_pred g p y = g * wrap_binary_cross_entropy_grad_y_pred 1 p y.
Proof. exact bce_linear. Qed.
Goal True. idtac "ASSUMPTIONS bce_linear_in_g". Abort.
Print Assumptions bce_linear_in_g.

(* ---- bce with logits.  softplus_loss x y = ln (1 + exp x) - x y;  sigmoid x = exp x / (1 + exp x) *)
(* the stable forward relu(x) - x y + ln(1 + exp(-|x|)) equals ln(1+exp x) - x y for every real x (both branches) *)
Theorem bce_logits_forward_is_softplus :
  forall x y, wrap_binary_cross_entropy_with_logits_out x y = softplus_loss x y.
Proof. exact bce_logits_forward_eq. Qed.
Goal True. idtac "ASSUMPTIONS bce_logits_forward_is_softplus". Abort.
Print Assumptions bce_logits_forward_is_softplus.

(* the backward kernel (both branches of the where) equals g (sigmoid x - y) *)
Theorem bce_logits_backward_is_sigmoid_minus_y :
  forall g x y, wrap_binary_cross_entropy_with_logits_grad_y_pred g x y = g * (sigmoid x - y).
Proof. exact bce_logits_backward_eq. Qed.
Goal True. idtac "ASSUMPTIONS bce_logits_backward_is_sigmoid_minus_y". Abort.
Print Assumptions bce_logits_backward_is_sigmoid_minus_y.

(* hence it is the derivative in the logit, and it is linear in g *)
Theorem bce_logits_vjp :
  forall x y g, is_derive (fun t => wrap_binary_cross_entropy_with_logits_out t y) x (wrap_binary_cross_entropy_with_logits_grad_y_pred 1 x y) /\ wrap_binary_cross_entropy_with_logits_grad_y_pred g x y = g * wrap_binary_cross_entropy_with_logits_grad_y_pred 1 x y.
Proof. exact (fun x y g => conj (bce_logits_derive_pred x y) (bce_logits_linear g x y)). Qed.
Goal True. idtac "ASSUMPTIONS bce_logits_vjp". Abort.
Print Assumptions bce_logits_vjp.

(* the derivative in the target is -x; the wrapper gives the target NO gradient (see the table below) -- BCE is not a symmetric loss, recorded as an observation *)
Theorem bce_logits_target_derivative :
  forall x y, is_derive (fun t => wrap_binary_cross_entropy_with_logits_out x t) y (- x).
Proof. exact bce_logits_derive_true. Qed.
Goal True. idtac "ASSUMPTIONS bce_logits_target_derivative". Abort.
Print Assumptions bce_logits_target_derivative.

(* which array each backward kernel receives and which inputs get an accumulation, as extracted from the wrappers *)
Example saved_value_table_nn :
  map (fun k => (ku_wrapper k, ku_backward_args k, map (fun a => (fst (fst a), snd (fst a))) (ku_accum k)))
      (filter (fun k => existsb (String.eqb (ku_wrapper k)) ["relu"; "tanh"; "sigmoid"; "mse_loss"; "binary_cross_entropy_with_logits"]%string) kernel_uses)
  = [("relu", [UGrad; UIn "x"], [("x", true)]); ("tanh", [UGrad; UOut], [("x", true)]); ("sigmoid", [UGrad; UOut], [("x", true)]);
     ("mse_loss", [UGrad; UIn "y_pred"; UIn "y_true"], [("y_pred", true); ("y_true", false)]);
     ("binary_cross_entropy_with_logits", [UGrad; UIn "y_pred"; UIn "y_true"], [("y_pred", true)])]%string.
Proof. reflexivity. Qed.

(* ---- lifting to tensors (Analysis/Derive.v: dot, axpy; KernelProofs.v: map2, lift_kernel) *)
(* relu on tensors without zero entries *)
Theorem relu_tensor_vjp :
  forall x g v, length g = length x -> length v = length x -> List.Forall (fun xi => xi <> 0) x ->
    is_derive (fun t => dot g (map wrap_relu_out (axpy t v x))) 0 (dot (map2 wrap_relu_grad_x g x) v).
Proof. exact (lift_kernel wrap_relu_out wrap_relu_grad_x (fun xi => xi <> 0) relu_derive relu_linear). Qed.
Goal True. idtac "ASSUMPTIONS relu_tensor_vjp". Abort.
Print Assumptions relu_tensor_vjp.

(* selu *)
Theorem selu_tensor_vjp :
  forall x g v, length g = length x -> length v = length x -> List.Forall (fun xi => xi <> 0) x ->
    is_derive (fun t => dot g (map wrap_selu_out (axpy t v x))) 0 (dot (map2 wrap_selu_grad_x g x) v).
Proof. exact (lift_kernel wrap_selu_out wrap_selu_grad_x (fun xi => xi <> 0) selu_derive selu_linear). Qed.
Goal True. idtac "ASSUMPTIONS selu_tensor_vjp". Abort.
Print Assumptions selu_tensor_vjp.

(* tanh *)
Theorem tanh_tensor_vjp :
  forall x g v, length g = length x -> length v = length x ->
    is_derive (fun t => dot g (map wrap_tanh_out (axpy t v x))) 0 (dot (map2 wrap_tanh_grad_x g x) v).
Proof. exact (fun x g v Lg Lv => lift_kernel wrap_tanh_out wrap_tanh_grad_x (fun _ => True) (fun x _ => tanh_derive x) tanh_linear x g v Lg Lv (proj2 (List.Forall_forall _ x) (fun _ _ => I))). Qed.
Goal True. idtac "ASSUMPTIONS tanh_tensor_vjp". Abort.
Print Assumptions tanh_tensor_vjp.

(* sigmoid *)
Theorem sigmoid_tensor_vjp :
  forall x g v, length g = length x -> length v = length x ->
    is_derive (fun t => dot g (map wrap_sigmoid_out (axpy t v x))) 0 (dot (map2 wrap_sigmoid_grad_x g x) v).
Proof. exact (fun x g v Lg Lv => lift_kernel wrap_sigmoid_out wrap_sigmoid_grad_x (fun _ => True) (fun x _ => sigmoid_derive x) sigmoid_linear x g v Lg Lv (proj2 (List.Forall_forall _ x) (fun _ _ => I))). Qed.
Goal True. idtac "ASSUMPTIONS sigmoid_tensor_vjp". Abort.
Print Assumptions sigmoid_tensor_vjp.

(* leaky_relu with a fixed slope s *)
Theorem leaky_relu_tensor_vjp :
  forall s x g v, length g = length x -> length v = length x -> List.Forall (fun xi => xi <> 0) x ->
    is_derive (fun t => dot g (map (fun a => wrap_leaky_relu_out a s) (axpy t v x))) 0 (dot (map2 (fun g a => wrap_leaky_relu_grad_x g a s) g x) v).
Proof. exact (fun s => lift_kernel (fun a => wrap_leaky_relu_out a s) (fun g a => wrap_leaky_relu_grad_x g a s) (fun xi => xi <> 0) (fun x Hx => leaky_relu_derive x s Hx) (fun g x => leaky_relu_linear g x s)). Qed.
Goal True. idtac "ASSUMPTIONS leaky_relu_tensor_vjp". Abort.
Print Assumptions leaky_relu_tensor_vjp.

(* mse against a fixed target vector: the per-entry target is a parameter of the map, so the lifting is applied entry by entry through elementwise pairs; stated here for a constant target y *)
Theorem mse_tensor_vjp_pred :
  forall y x g v, length g = length x -> length v = length x ->
    is_derive (fun t => dot g (map (fun p => wrap_mse_loss_out p y) (axpy t v x))) 0 (dot (map2 (fun g p => wrap_mse_loss_grad_y_pred g p y) g x) v).
Proof. exact (fun y x g v Lg Lv => lift_kernel (fun p => wrap_mse_loss_out p y) (fun g p => wrap_mse_loss_grad_y_pred g p y) (fun _ => True) (fun p _ => mse_derive_pred p y) (fun g p => proj1 (mse_linear g p y)) x g v Lg Lv (proj2 (List.Forall_forall _ x) (fun _ _ => I))). Qed.
Goal True. idtac "ASSUMPTIONS mse_tensor_vjp_pred". Abort.
Print Assumptions mse_tensor_vjp_pred.

(* non-vacuity *)
Example relu_example : wrap_relu_grad_x 3 2 = 3 /\ wrap_relu_grad_x 3 (-2) = 0.
Proof. unfold wrap_relu_grad_x, relu_backward. split; ind_simpl; ring. Qed.
Example bce_clamp_example : wrap_binary_cross_entropy_out 0 1 = 100.
Proof.
  rewrite bce_forward_shape. rewrite ind_eq_true, where_1. reflexivity.
  apply bce_clamp_active_iff. apply epsilon_pos. lra. lra. now left.
Qed.

