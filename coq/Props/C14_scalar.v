(* C14, scalar part: the fused loss BCE-with-logits against its documented composition BCE o sigmoid.
   Statements only; proofs in Proofs/KernelProofsC06.v.  About the GENERATED definitions:
     fused_value x y      := wrap_binary_cross_entropy_with_logits_out x y
     composed_value x y   := wrap_binary_cross_entropy_out (wrap_sigmoid_out x) y
     fused_grad g x y     := what F.binary_cross_entropy_with_logits adds to x.grad for the upstream gradient g
     composed_grad g x y  := wrap_sigmoid_grad_x (wrap_binary_cross_entropy_grad_y_pred g (wrap_sigmoid_out x) y) x
                             (the bce closure followed by the sigmoid closure, as the engine chains them)
   The fused form has no guard constant, the composition has epsilon = 1e-12 in the logs and in the backward quotient:
   they differ by at most epsilon times a factor that grows like exp |x|.  Over the reals; the float evaluation of the
   composed side additionally loses digits in 1 - sigmoid(x) (outside the model; the oracle allows for it). *)
From Coq Require Import Reals ZArith Lia Lra String List.
From Coquelicot Require Import Coquelicot.
From SG Require Import Analysis.RealOps Gen.GenKernels Gen.GenKernelUse Proofs.KernelProofs Proofs.KernelProofs2 Proofs.KernelProofsC06.
Import ListNotations.
Open Scope R_scope.

(* the guard constant of cpu_ops.py the bounds below are stated in *)
Theorem guard_constant_value :
  epsilon = 1 / 1000000000000.
Proof. exact (eq_refl : epsilon = 1 / 1000000000000). Qed.
Goal True. idtac "ASSUMPTIONS guard_constant_value". Abort.
Print Assumptions guard_constant_value.

(* values: for every real logit and every target in [0,1] (sigmoid never reaches the clamp points) *)
Theorem bce_logits_is_bce_of_sigmoid_value :
  forall x y, 0 <= y <= 1 -> Rabs (fused_value x y - composed_value x y) <= epsilon * (2 + exp x + exp (- x)).
Proof. exact fused_vs_composed_value. Qed.
Goal True. idtac "ASSUMPTIONS bce_logits_is_bce_of_sigmoid_value". Abort.
Print Assumptions bce_logits_is_bce_of_sigmoid_value.

(* in terms of |x| *)
Theorem bce_logits_is_bce_of_sigmoid_value_abs :
  forall x y, 0 <= y <= 1 -> Rabs (fused_value x y - composed_value x y) <= 2 * epsilon * (1 + exp (Rabs x)).
Proof. exact fused_vs_composed_value_abs. Qed.
Goal True. idtac "ASSUMPTIONS bce_logits_is_bce_of_sigmoid_value_abs". Abort.
Print Assumptions bce_logits_is_bce_of_sigmoid_value_abs.

(* gradients in x, any upstream gradient g *)
Theorem bce_logits_is_bce_of_sigmoid_grad :
  forall g x y, 0 <= y <= 1 -> Rabs (composed_grad g x y - fused_grad g x y) <= Rabs g * epsilon * (exp x + exp (- x)).
Proof. exact fused_vs_composed_grad. Qed.
Goal True. idtac "ASSUMPTIONS bce_logits_is_bce_of_sigmoid_grad". Abort.
Print Assumptions bce_logits_is_bce_of_sigmoid_grad.

(* in terms of |x| *)
Theorem bce_logits_is_bce_of_sigmoid_grad_abs :
  forall g x y, 0 <= y <= 1 -> Rabs (composed_grad g x y - fused_grad g x y) <= 2 * Rabs g * epsilon * exp (Rabs x).
Proof. exact fused_vs_composed_grad_abs. Qed.
Goal True. idtac "ASSUMPTIONS bce_logits_is_bce_of_sigmoid_grad_abs". Abort.
Print Assumptions bce_logits_is_bce_of_sigmoid_grad_abs.

(* with the guard constant set to 0 the two sides coincide exactly (value and gradient) *)
Theorem bce_logits_is_bce_of_sigmoid_exact_without_guard :
  forall x y, fused_value x y = bce_core_eps 0 (sigmoid x) y /\ (forall g, bce_bwd_eps 0 g (sigmoid x) y * sigmoid x * (1 - sigmoid x) = g * (sigmoid x - y)).
Proof. exact fused_equals_composed_without_guard. Qed.
Goal True. idtac "ASSUMPTIONS bce_logits_is_bce_of_sigmoid_exact_without_guard". Abort.
Print Assumptions bce_logits_is_bce_of_sigmoid_exact_without_guard.

(* what the two sides are, in closed form *)
Theorem composition_reads :
  forall g x y, fused_grad g x y = g * (sigmoid x - y) /\ composed_grad g x y = bce_bwd_eps epsilon g (sigmoid x) y * sigmoid x * (1 - sigmoid x) /\ fused_value x y = ln (1 + exp x) - x * y.
Proof. exact composition_closed_forms. Qed.
Goal True. idtac "ASSUMPTIONS composition_reads". Abort.
Print Assumptions composition_reads.

