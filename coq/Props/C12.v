(* C12 — placeholder, statements follow *)
From SG Require Import State.Modules.
