(* C12 — module trees report each parameter once and propagate mode to all descendants.
   Only statements; the model is State/Modules.v (tied to synapgrad/nn/modules.py by the correspondence of
   checks/c12.py), proofs are in Proofs/ModulesProofs.v.  Every theorem is followed by Print Assumptions.

   Vocabulary (Proofs/ModulesProofs.v):
     child h m c      c is registered in m._submodules          owns h m p   p is registered in m._parameters
     reach h m m'     m' is m or a descendant of m through _submodules (sharing allowed)
     no_cycle h       no module is its own descendant (a cycle makes the real code recurse forever)
     wf h             ids exist and registry keys are unique — holds for every heap built by events
     before p q l     the first occurrence of p in l precedes every occurrence of q *)
From Coq Require Import String List Bool Arith Lia.
Import ListNotations.
From SG Require Import State.Modules Proofs.ModulesProofs Gen.GenModuleSigs.
Local Open Scope nat_scope.

(* ---- the hypotheses are what they should be -------------------------------------------------------- *)
Theorem heaps_built_by_events_are_wf :
  forall t h, run init t = Some h -> wf h.
Proof. intros t h H. exact (wf_run t init h wf_init H). Qed.
Goal True. idtac "ASSUMPTIONS heaps_built_by_events_are_wf". Abort.
Print Assumptions heaps_built_by_events_are_wf.

(* acyclicity as used in the proofs (a bounded rank decreasing along _submodules) is exactly "no cycle" *)
Theorem acyclicity_is_no_cycle :
  forall h, wf h -> (no_cycle h <-> acyclic h).
Proof. intros h Hwf. split; [apply no_cycle_acyclic; exact Hwf|apply acyclic_no_cycle]. Qed.
Goal True. idtac "ASSUMPTIONS acyclicity_is_no_cycle". Abort.
Print Assumptions acyclicity_is_no_cycle.

(* ---- parameters(): every reachable parameter exactly once, in registration (pre-order, first occurrence) order *)
Theorem params_once_in_order :
  forall h m, wf h -> no_cycle h -> m < length (mods h) ->
  exists raw ps,
    preorder h m = Some raw /\ parameters h m = Some ps /\ ps = dedupe raw /\
    NoDup ps /\
    (forall p, In p ps <-> exists m', reach h m m' /\ owns h m' p) /\
    (forall p, In p raw <-> In p ps) /\
    (forall p q, p <> q -> (before p q ps <-> before p q raw)).
Proof. intros h m Hwf Hnc Hv. apply parameters_spec; [exact Hwf|apply no_cycle_acyclic; assumption|exact Hv]. Qed.
Goal True. idtac "ASSUMPTIONS params_once_in_order". Abort.
Print Assumptions params_once_in_order.

(* ... where the raw listing is the pre-order traversal: own parameters in registration order, then the listing of
   each submodule in registration order *)
Theorem preorder_is_registration_order :
  forall h m M, wf h -> no_cycle h -> nth_error (mods h) m = Some M ->
  exists ls, Forall2 (fun c l => preorder h c = Some l) (map snd (m_subs M)) ls /\
             preorder h m = Some (map snd (m_params M) ++ concat ls).
Proof. intros h m M Hwf Hnc HM. apply preorder_is_preorder; [exact Hwf|apply no_cycle_acyclic; assumption|exact HM]. Qed.
Goal True. idtac "ASSUMPTIONS preorder_is_registration_order". Abort.
Print Assumptions preorder_is_registration_order.

(* ---- num_params: each listed parameter counted once; all = trainable + non_trainable *)
Theorem num_params_split :
  forall h m ps, parameters h m = Some ps ->
  num_params h m All = Some (sum_sizes h ps) /\
  num_params h m Trainable = Some (sum_sizes h (filter (trainable h) ps)) /\
  num_params h m NonTrainable = Some (sum_sizes h (filter (fun p => negb (trainable h p)) ps)) /\
  sum_sizes h ps = sum_sizes h (filter (trainable h) ps) + sum_sizes h (filter (fun p => negb (trainable h p)) ps).
Proof. exact num_params_spec. Qed.
Goal True. idtac "ASSUMPTIONS num_params_split". Abort.
Print Assumptions num_params_split.

(* ---- train()/eval(): `training` of exactly the reachable modules (shared ones too), nothing else changes *)
Theorem mode_reaches_all :
  forall h m (b : bool), wf h -> no_cycle h -> m < length (mods h) ->
  exists h', step h (if b then Train m else Eval m) = Some h' /\
    map shape (mods h') = map shape (mods h) /\ pars h' = pars h /\
    (forall i, reach h m i -> training h' i = Some b) /\
    (forall i, ~ reach h m i -> training h' i = training h i).
Proof. intros h m b Hwf Hnc Hv. apply set_mode_spec; [exact Hwf|apply no_cycle_acyclic; assumption|exact Hv]. Qed.
Goal True. idtac "ASSUMPTIONS mode_reaches_all". Abort.
Print Assumptions mode_reaches_all.

(* ---- zero_grad / freeze / unfreeze: exactly the parameters of parameters() (zero_grad: those requiring grad) *)
Theorem zero_freeze_act_on_params :
  forall h m o, wf h -> no_cycle h -> m < length (mods h) ->
  exists ps h',
    parameters h m = Some ps /\ step h (pop_ev o m) = Some h' /\
    mods h' = mods h /\ length (pars h') = length (pars h) /\
    forall p, (In p ps -> nth_error (pars h') p = option_map (pop_fun o) (nth_error (pars h) p)) /\
              (~ In p ps -> nth_error (pars h') p = nth_error (pars h) p).
Proof. intros h m o Hwf Hnc Hv. apply param_ops_spec; [exact Hwf|apply no_cycle_acyclic; assumption|exact Hv]. Qed.
Goal True. idtac "ASSUMPTIONS zero_freeze_act_on_params". Abort.
Print Assumptions zero_freeze_act_on_params.

(* ... and the effect is absolute, not relative to earlier calls: after m.unfreeze() (b = true) EVERY parameter reachable
   from m requires grad, after m.freeze() (b = false) none does, for the heap reached by ANY event history (earlier
   freezes / unfreezes of any node, requires_grad flipped by hand, modules attached or replaced in between); num_params
   then reports everything as trainable resp. non-trainable *)
Theorem freeze_unfreeze_whatever_happened_before :
  forall t h m (b : bool), run init t = Some h -> no_cycle h -> m < length (mods h) ->
  exists h' ps,
    step h (if b then Unfreeze m else Freeze m) = Some h' /\ mods h' = mods h /\
    parameters h' m = Some ps /\
    (forall m' p, reach h m m' -> owns h m' p -> option_map p_req (nth_error (pars h') p) = Some b) /\
    num_params h' m All = Some (sum_sizes h ps) /\
    num_params h' m Trainable = Some (if b then sum_sizes h ps else 0) /\
    num_params h' m NonTrainable = Some (if b then 0 else sum_sizes h ps).
Proof.
  intros t h m b Hrun Hnc Hv. pose proof (wf_run t init h wf_init Hrun) as Hwf.
  apply freeze_unfreeze_absolute; [exact Hwf|apply no_cycle_acyclic; assumption|exact Hv].
Qed.
Goal True. idtac "ASSUMPTIONS freeze_unfreeze_whatever_happened_before". Abort.
Print Assumptions freeze_unfreeze_whatever_happened_before.

Example ex_freeze_history :
  option_map (fun h => map p_req (pars h))
    (run init [NewModule; NewModule; NewParam 3 true; NewParam 2 true;
               SetAttr 0 "w" (VParam 1); SetAttr 0 "a" (VModule 1); SetAttr 1 "w" (VParam 0);
               Freeze 1; Freeze 0; Unfreeze 0]%string) = Some [true; true].
Proof. vm_compute. reflexivity. Qed.

(* what the three functions do to one parameter *)
Example pop_fun_table :
  forall s r g,
    pop_fun PZero {| p_size := s; p_req := r; p_grad := g |} = {| p_size := s; p_req := r; p_grad := if r then GZero else g |} /\
    pop_fun PFreeze {| p_size := s; p_req := r; p_grad := g |} = {| p_size := s; p_req := false; p_grad := g |} /\
    pop_fun PUnfreeze {| p_size := s; p_req := r; p_grad := g |} = {| p_size := s; p_req := true; p_grad := g |}.
Proof. intros s [] g; repeat split. Qed.

(* ---- replacing an attribute replaces its registration *)
Theorem setattr_replaces_registration :
  forall h m k v M, wf h -> nth_error (mods h) m = Some M -> valid_value h v = true ->
  exists h' M',
    step h (SetAttr m k v) = Some h' /\ nth_error (mods h') m = Some M' /\
    assoc_get k (m_params M') = (match v with VParam p => Some p | _ => None end) /\
    assoc_get k (m_subs M') = (match v with VModule c => Some c | _ => None end) /\
    (forall k', k' <> k -> assoc_get k' (m_params M') = assoc_get k' (m_params M) /\
                           assoc_get k' (m_subs M') = assoc_get k' (m_subs M)) /\
    others k (m_params M') = others k (m_params M) /\
    others k (m_subs M') = others k (m_subs M) /\
    (match v with
     | VParam _ => In k (map fst (m_params M)) -> map fst (m_params M') = map fst (m_params M)
     | VModule _ => In k (map fst (m_subs M)) -> map fst (m_subs M') = map fst (m_subs M)
     | VOther => True end) /\
    (match v with
     | VParam p => ~ In k (map fst (m_params M)) -> m_params M' = m_params M ++ [(k, p)]
     | VModule c => ~ In k (map fst (m_subs M)) -> m_subs M' = m_subs M ++ [(k, c)]
     | VOther => True end) /\
    m_training M' = m_training M /\
    (forall i, i <> m -> nth_error (mods h') i = nth_error (mods h) i) /\
    length (mods h') = length (mods h) /\ pars h' = pars h.
Proof. exact setattr_spec. Qed.
Goal True. idtac "ASSUMPTIONS setattr_replaces_registration". Abort.
Print Assumptions setattr_replaces_registration.

Theorem explicit_registration_like_assignment :
  forall h m k v,
  step h (RegisterModule m k v) = (match v with VModule _ => step h (SetAttr m k v) | _ => None end) /\
  step h (RegisterParameter m k v) = (match v with VParam _ => step h (SetAttr m k v) | _ => None end).
Proof. exact register_spec. Qed.
Goal True. idtac "ASSUMPTIONS explicit_registration_like_assignment". Abort.
Print Assumptions explicit_registration_like_assignment.

(* ---- Sequential: positional names "0".."k-1" / the dict's names, submodules applied in registration order *)
Theorem sequential_positional_order :
  forall h ms, forallb (valid_mod h) ms = true ->
  exists h', step h (NewSequential ms) = Some h' /\
    mods h' = mods h ++ [{| m_params := []; m_subs := positional ms; m_training := true |}] /\
    pars h' = pars h /\
    submodules h' (length (mods h)) = Some ms /\
    map fst (positional ms) = map str_of_nat (seq 0 (length ms)) /\
    forall X (call : nat -> X -> X) x,
      seq_forward call h' (length (mods h)) x =
      match ms with [] => None | _ => Some (fold_left (fun acc c => call c acc) ms x) end.
Proof. exact sequential_positional. Qed.
Goal True. idtac "ASSUMPTIONS sequential_positional_order". Abort.
Print Assumptions sequential_positional_order.

Theorem sequential_dict_order :
  forall h items, NoDup (map fst items) -> forallb (valid_mod h) (map snd items) = true ->
  exists h', step h (NewSequentialDict items) = Some h' /\
    mods h' = mods h ++ [{| m_params := []; m_subs := items; m_training := true |}] /\
    pars h' = pars h /\
    submodules h' (length (mods h)) = Some (map snd items) /\
    forall X (call : nat -> X -> X) x,
      seq_forward call h' (length (mods h)) x =
      match items with [] => None | _ => Some (fold_left (fun acc c => call c acc) (map snd items) x) end.
Proof. exact sequential_dict. Qed.
Goal True. idtac "ASSUMPTIONS sequential_dict_order". Abort.
Print Assumptions sequential_dict_order.

Theorem sequential_forward_is_fold :
  forall (X : Type) (call : nat -> X -> X) h m x y,
  seq_forward call h m x = Some y ->
  exists cs, submodules h m = Some cs /\ cs <> [] /\ y = fold_left (fun acc c => call c acc) cs x.
Proof. intros X. exact (@seq_forward_spec X). Qed.
Goal True. idtac "ASSUMPTIONS sequential_forward_is_fold". Abort.
Print Assumptions sequential_forward_is_fold.

(* str(idx) is the decimal numeral *)
Example positional_names : map str_of_nat [0; 1; 9; 10; 11] = ["0"; "1"; "9"; "10"; "11"]%string.
Proof. reflexivity. Qed.

(* ---- non-vacuity: a heap with a shared submodule and a shared parameter ------------------------------
   m0.a = m1; m0.b = m2; m1.a = m2; m2.w = p0; m1.w = p0; m0.w = p1; m0.v = p0 *)
Definition ex_events : list ev :=
  [NewModule; NewModule; NewModule; NewParam 3 true; NewParam 2 false;
   SetAttr 0 "a" (VModule 1); SetAttr 0 "b" (VModule 2); SetAttr 1 "a" (VModule 2);
   SetAttr 2 "w" (VParam 0); SetAttr 1 "w" (VParam 0); SetAttr 0 "w" (VParam 1); SetAttr 0 "v" (VParam 0)]%string.

Example ex_heap_observed :
  exists h, run init ex_events = Some h /\
    preorder h 0 = Some [1; 0; 0; 0; 0] /\ parameters h 0 = Some [1; 0] /\
    parameters h 1 = Some [0] /\ num_params h 0 All = Some 5 /\ num_params h 0 Trainable = Some 3 /\
    option_map (fun h' => map m_training (mods h')) (step h (Eval 1)) = Some [true; false; false].
Proof. eexists. split; [vm_compute; reflexivity|]. vm_compute. repeat split. Qed.

Example ex_heap_hypotheses :
  forall h, run init ex_events = Some h -> wf h /\ no_cycle h /\ length (mods h) = 3.
Proof.
  intros h H. split; [exact (heaps_built_by_events_are_wf _ _ H)|].
  vm_compute in H. injection H as <-. split; [|reflexivity].
  apply acyclic_no_cycle. exists (fun m => match m with 0 => 2 | 1 => 1 | _ => 0 end). split.
  - intros m c (M & HM & Hc). destruct m as [|[|[|m]]]; simpl in HM; try (destruct m; discriminate);
      injection HM as <-; simpl in Hc; intuition (subst; lia).
  - intros [|[|m]]; simpl; lia.
Qed.

(* ---- the public entry points and the state of a Module are the documented ones --------------------------
   Generated from modules.py on every run (lib/py2coq/gen_sigs.py -> Gen/GenModuleSigs.v).  The model's module state is
   {_submodules, _parameters, training} (+ the constant _initialized and the user attributes written by the registration
   mechanism); a further attribute written by the class (e.g. a cache of frozen parameters) would be state the model does
   not have and breaks this obligation. *)
Theorem modules_signatures_documented :
  modules_signatures =
 [
  ("Parameter.__repr__", [("self", "pos", "")]);
  ("Module.__init__", [("self", "pos", "")]);
  ("Module.train", [("self", "pos", "")]);
  ("Module.eval", [("self", "pos", "")]);
  ("Module.__call__", [("self", "pos", ""); ("inputs", "varargs", ""); ("kwargs", "varkw", "")]);
  ("Module.zero_grad", [("self", "pos", "")]);
  ("Module.freeze", [("self", "pos", "")]);
  ("Module.unfreeze", [("self", "pos", "")]);
  ("Module.check_is_initialized", [("self", "pos", "")]);
  ("Module.register_module", [("self", "pos", ""); ("name", "pos", ""); ("module", "pos", "")]);
  ("Module.register_parameter", [("self", "pos", ""); ("name", "pos", ""); ("parameter", "pos", "")]);
  ("Module.apply", [("self", "pos", ""); ("fn", "pos", "")]);
  ("Module.__setattr__", [("self", "pos", ""); ("_Module__name", "pos", ""); ("_Module__value", "pos", "")]);
  ("Module.parameters", [("self", "pos", "")]);
  ("Module.submodules", [("self", "pos", "")]);
  ("Module.num_params", [("self", "pos", ""); ("trainable", "pos", "False"); ("non_trainable", "pos", "False")]);
  ("Module.forward", [("self", "pos", ""); ("args", "varargs", ""); ("kwargs", "varkw", "")]);
  ("Module.cpu", [("self", "pos", "")]);
  ("Module.__repr__", [("self", "pos", "")]);
  ("Sequential.__init__", [("self", "pos", ""); ("modules", "varargs", "")]);
  ("Sequential.forward", [("self", "pos", ""); ("x", "pos", "")])
 ]%string
  /\ modules_state =
 [
  ("Parameter", []);
  ("Module", ["_submodules"; "_parameters"; "_initialized"; "training"; "<attribute named by parameter name>"; "<attribute named by parameter __name>"]);
  ("Sequential", [])
 ]%string.
Proof. split; reflexivity. Qed.
Goal True. idtac "ASSUMPTIONS modules_signatures_documented". Abort.
Print Assumptions modules_signatures_documented.
