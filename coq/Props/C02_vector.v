(* C02 (vector part) — backward of softmax / log_softmax / nll / cross-entropy / batch-norm is the exact VJP.
   Statements only; proofs in Proofs/VecKernelProofs.v and Proofs/VecKernelProofsBN.v.

   Every definition named below is GENERATED from the current source (Gen/GenVecKernels.v):
     <op>_out        the forward kernel of cpu_ops.py on one fibre, as called by the wrapper in nn/functional.py
     <op>_grad_<inp> the backward kernel applied to the arrays the wrapper hands it (input or OUTPUT of the forward,
                     saved statistics), component accumulated into <inp>
   A fibre is a vector x : nat -> R of length n (Analysis/Vector.v): the 1-D section along `dim` (softmax family,
   any rank / any dim: the other axes are batch indices, the kernels act on each fibre independently -- validated by
   the translator self-check), one row with its label (losses), one channel (batch-norm).
   vpert x i t = x + t*e_i, so each statement says: the partial derivative w.r.t. x_i of  <g, forward(x)>  exists and
   equals component i of the code's backward -- for every length, every real input, every upstream gradient g.   *)
From Coq Require Import Reals Arith.
From Coquelicot Require Import Coquelicot.
From SG Require Import Analysis.Vector Gen.GenVecKernels Proofs.VecKernelProofs Proofs.VecKernelProofsLossFwd Proofs.VecKernelProofsLossBwd Proofs.VecKernelProofsBNFwd Proofs.VecKernelProofsBN.
Open Scope R_scope.

(* the max-shift does not change the value: the generated forward equals the formula shifted by ANY constant *)
Theorem softmax_shift_invariant : forall n x c j, (1 <= n)%nat ->
  softmax_forward n x j = exp (x j - c) / vsum n (fun k => exp (x k - c)).
Proof. exact softmax_shift_any. Qed.
Goal True. idtac "ASSUMPTIONS softmax_shift_invariant". Abort.
Print Assumptions softmax_shift_invariant.

Theorem log_softmax_shift_invariant : forall n x c j, (1 <= n)%nat ->
  log_softmax_forward n x j = x j - (c + ln (vsum n (fun k => exp (x k - c)))).
Proof. exact log_softmax_shift_any. Qed.
Goal True. idtac "ASSUMPTIONS log_softmax_shift_invariant". Abort.
Print Assumptions log_softmax_shift_invariant.

Theorem softmax_vjp : forall n x g i, (1 <= n)%nat -> (i < n)%nat ->
  is_derive (fun t => vsum n (fun j => g j * softmax_out n (vpert x i t) j)) 0 (softmax_grad_x n x g i).
Proof. exact softmax_vjp_proof. Qed.
Goal True. idtac "ASSUMPTIONS softmax_vjp". Abort.
Print Assumptions softmax_vjp.

Theorem log_softmax_vjp : forall n x g i, (1 <= n)%nat -> (i < n)%nat ->
  is_derive (fun t => vsum n (fun j => g j * log_softmax_out n (vpert x i t) j)) 0 (log_softmax_grad_x n x g i).
Proof. exact log_softmax_vjp_proof. Qed.
Goal True. idtac "ASSUMPTIONS log_softmax_vjp". Abort.
Print Assumptions log_softmax_vjp.

(* losses: one row x with label y < n; the output of the row is one number, so the upstream gradient is a scalar g
   (the reductions mean|sum|none of Loss.__call__ are tensor ops (C01) that decide which g each row receives) *)
Theorem nll_vjp : forall n x (y : nat) (g : R) i, (i < n)%nat -> (y < n)%nat ->
  is_derive (fun t => g * nll_loss_out n (vpert x i t) y) 0 (nll_loss_grad_y_pred n x y g i).
Proof. exact nll_vjp_proof. Qed.
Goal True. idtac "ASSUMPTIONS nll_vjp". Abort.
Print Assumptions nll_vjp.

Theorem cross_entropy_vjp : forall n x (y : nat) (g : R) i, (1 <= n)%nat -> (i < n)%nat -> (y < n)%nat ->
  is_derive (fun t => g * cross_entropy_out n (vpert x i t) y) 0 (cross_entropy_grad_y_pred n x y g i).
Proof. exact cross_entropy_vjp_proof. Qed.
Goal True. idtac "ASSUMPTIONS cross_entropy_vjp". Abort.
Print Assumptions cross_entropy_vjp.

(* batch-norm, input gradient, batch statistics (training, or eval without running statistics): the three-term formula.
   affine or not (weight, bias : option R), running statistics tracked or not, arbitrary running values. *)
Theorem bn_train_vjp_x : forall n x i eps, (1 <= n)%nat -> (i < n)%nat -> 0 < eps ->
  forall g weight bias rm rv training momentum, batch_mode training rm rv ->
  is_derive (fun t => vsum n (fun j => g j * batch_norm_out n (vpert x i t) weight bias rm rv training momentum eps j)) 0
            (batch_norm_grad_x n x weight bias rm rv training momentum eps g i).
Proof. exact bn_train_vjp_x_proof. Qed.
Goal True. idtac "ASSUMPTIONS bn_train_vjp_x". Abort.
Print Assumptions bn_train_vjp_x.

(* eval mode with running statistics m, v (any values, any eps): g * gamma / sqrt(v + eps) *)
Theorem bn_eval_vjp_x : forall n x g weight bias m v momentum eps i, (i < n)%nat ->
  is_derive (fun t => vsum n (fun j => g j * batch_norm_out n (vpert x i t) weight bias (Some m) (Some v) false momentum eps j)) 0
            (batch_norm_grad_x n x weight bias (Some m) (Some v) false momentum eps g i).
Proof. exact bn_eval_vjp_x_proof. Qed.
Goal True. idtac "ASSUMPTIONS bn_eval_vjp_x". Abort.
Print Assumptions bn_eval_vjp_x.

Theorem bn_eval_grad_value : forall n x weight bias m v momentum eps g i,
  batch_norm_grad_x n x weight bias (Some m) (Some v) false momentum eps g i = g i * gam weight / sqrt (v + eps).
Proof. exact bn_grad_x_eval. Qed.
Goal True. idtac "ASSUMPTIONS bn_eval_grad_value". Abort.
Print Assumptions bn_eval_grad_value.

(* gamma and beta (per channel scalars), EVERY mode (training or not, running statistics given or not, even mixed) *)
Theorem bn_vjp_gamma : forall n x g gamma bias rm rv training momentum eps,
  exists d, batch_norm_grad_weight n x (Some gamma) bias rm rv training momentum eps g = Some d /\
    is_derive (fun t => vsum n (fun j => g j * batch_norm_out n x (Some (gamma + t)) bias rm rv training momentum eps j)) 0 d.
Proof. exact bn_vjp_gamma_proof. Qed.
Goal True. idtac "ASSUMPTIONS bn_vjp_gamma". Abort.
Print Assumptions bn_vjp_gamma.

Theorem bn_vjp_beta : forall n x g weight beta rm rv training momentum eps,
  exists d, batch_norm_grad_bias n x weight (Some beta) rm rv training momentum eps g = Some d /\
    is_derive (fun t => vsum n (fun j => g j * batch_norm_out n x weight (Some (beta + t)) rm rv training momentum eps j)) 0 d.
Proof. exact bn_vjp_beta_proof. Qed.
Goal True. idtac "ASSUMPTIONS bn_vjp_beta". Abort.
Print Assumptions bn_vjp_beta.

(* non-vacuity: concrete instances *)
Example softmax_example : softmax_out 2 (fun _ => 0) 0%nat = 1 / 2.
Proof. exact softmax_example_proof. Qed.
Example batch_mode_examples : batch_mode true (Some 0) (Some 1) /\ batch_mode false None None /\ ~ batch_mode false (Some 0) (Some 1).
Proof. exact batch_mode_examples_proof. Qed.
