(* C09, scalar part (sigmoid, tanh, selu, bce-with-logits) -- statements only.
   Proofs: Proofs/ExprProofs.v (soundness of the analyses), Proofs/KernelProofsC09.v.
   Objects: the GENERATED kernels, shallow (Gen/GenKernels.v) and deep (Gen/GenExprs.v, tied by
   <kernel>_eval_correct : eval env <kernel>_expr = <kernel> args, proved by reflexivity in the generated file).
     exp_args env e              the list of values handed to np.exp while evaluating e (np.where evaluates both branches)
     exp_args_bounded e benv     static upper bound of all of them for variables ranging in the intervals benv
     xeval T env e               evaluation in the saturating model of Analysis/RealOps.v: exp x = +inf for x > T,
                                 IEEE rules on infinities (inf - c = inf, 0 * inf = NaN, c / inf = 0, min/max), everything
                                 else exact.
   OUTSIDE the model, not claimed: float32/float64 rounding of any operation, overflow of + - * on finite
   operands, accuracy of NumPy's exp/log/tanh.  "agree to single-precision accuracy" is only sampled by the
   oracle of checks/kernels_scalar.py against a 60-digit reference. *)
From Coq Require Import Reals ZArith QArith Qreals Lia Lra List.
From SG Require Import Analysis.RealOps Analysis.Expr Gen.GenKernels Gen.GenExprs Proofs.ExprProofs Proofs.KernelProofsC09.
Import ListNotations.
Open Scope R_scope.

(* ---- soundness of the analyses (generic in the expression) *)
(* the interval computed for an expression contains its value *)
Theorem interval_sound :
  forall e env benv, Forall2 in_itv env benv -> in_itv (eval env e) (ival benv e).
Proof. exact ival_sound. Qed.
Goal True. idtac "ASSUMPTIONS interval_sound". Abort.
Print Assumptions interval_sound.

(* if the analysis returns Some m, every value handed to exp is <= m *)
Theorem exp_args_bounded_is_sound :
  forall e benv m, exp_args_bounded e benv = Some m -> forall env, Forall2 in_itv env benv -> Forall (fun a => a <= Q2R m) (exp_args env e).
Proof. exact exp_args_bounded_sound. Qed.
Goal True. idtac "ASSUMPTIONS exp_args_bounded_is_sound". Abort.
Print Assumptions exp_args_bounded_is_sound.

(* if no exp argument exceeds the threshold, the saturating evaluation is finite and equals the real evaluation *)
Theorem no_overflow_means_exact :
  forall T e env, Forall (fun a => a <= T) (exp_args env e) -> xeval T (map Fin env) e = Fin (eval env e).
Proof. exact xeval_no_overflow. Qed.
Goal True. idtac "ASSUMPTIONS no_overflow_means_exact". Abort.
Print Assumptions no_overflow_means_exact.

(* ---- constants: any threshold T in [88, 89) is a sound coarse model of float32 exp overflow *)
(* exp 88 < FLT_MAX < exp 89 (FLT_MAX = (2 - 2^-23) 2^127), by interval arithmetic *)
Theorem exp_88_representable :
  FLT_MAX = 340282346638528859811704183484516925440 /\ exp 88 < FLT_MAX /\ FLT_MAX < exp 89 /\ exp (- 88) < 1 / 10 ^ 38.
Proof. exact (conj eq_refl (conj exp_88_lt_FLT_MAX (conj FLT_MAX_lt_exp_89 exp_m88_tiny))). Qed.
Goal True. idtac "ASSUMPTIONS exp_88_representable". Abort.
Print Assumptions exp_88_representable.

(* ---- selu backward *)
(* for ALL real inputs and parameters, selu_backward evaluates exp (once) and only at arguments <= 0 *)
Theorem selu_backward_exp_args_nonpos :
  exp_args_bounded selu_backward_expr [itop; itop; itop; itop] = Some 0%Q /\
    forall grad a alpha scale, exp_args [scale; alpha; a; grad] selu_backward_expr <> [] /\ Forall (fun v => v <= 0) (exp_args [scale; alpha; a; grad] selu_backward_expr).
Proof. exact (conj selu_backward_analysis selu_backward_exp_args_nonpos_lemma). Qed.
Goal True. idtac "ASSUMPTIONS selu_backward_exp_args_nonpos". Abort.
Print Assumptions selu_backward_exp_args_nonpos.

(* so in the saturating model it never produces inf or NaN: it returns the real-number value *)
Theorem selu_backward_never_overflows :
  forall T grad a alpha scale, 0 <= T -> xeval T [Fin scale; Fin alpha; Fin a; Fin grad] selu_backward_expr = Fin (selu_backward grad a alpha scale).
Proof. exact selu_backward_saturating. Qed.
Goal True. idtac "ASSUMPTIONS selu_backward_never_overflows". Abort.
Print Assumptions selu_backward_never_overflows.

(* ---- bce with logits *)
(* both kernels evaluate exp only at -|x| <= 0, for all real logits and targets *)
Theorem bce_logits_exp_args_nonpos :
  exp_args_bounded bce_with_logits_loss_forward_expr [itop; itop] = Some 0%Q /\ exp_args_bounded bce_with_logits_loss_backward_expr [itop; itop; itop] = Some 0%Q /\
    forall grad x y, Forall (fun v => v <= 0) (exp_args [y; x] bce_with_logits_loss_forward_expr) /\ Forall (fun v => v <= 0) (exp_args [y; x; grad] bce_with_logits_loss_backward_expr) /\
      exp_args [y; x] bce_with_logits_loss_forward_expr <> [] /\ exp_args [y; x; grad] bce_with_logits_loss_backward_expr <> [].
Proof. exact (conj bce_logits_forward_analysis (conj bce_logits_backward_analysis bce_logits_exp_args_nonpos_lemma)). Qed.
Goal True. idtac "ASSUMPTIONS bce_logits_exp_args_nonpos". Abort.
Print Assumptions bce_logits_exp_args_nonpos.

(* saturating evaluation = real evaluation for every input *)
Theorem bce_logits_never_overflows :
  forall T grad x y, 0 <= T ->
    xeval T [Fin y; Fin x] bce_with_logits_loss_forward_expr = Fin (bce_with_logits_loss_forward x y) /\
    xeval T [Fin y; Fin x; Fin grad] bce_with_logits_loss_backward_expr = Fin (bce_with_logits_loss_backward grad x y).
Proof. exact bce_logits_saturating. Qed.
Goal True. idtac "ASSUMPTIONS bce_logits_never_overflows". Abort.
Print Assumptions bce_logits_never_overflows.

(* real ranges of the intermediates: e = exp(-|x|) in (0,1], log argument in (1,2], both sigmoid branches in (0,1) *)
Theorem bce_logits_intermediate_ranges :
  forall x, let e := exp (- Rabs x) in 0 < e <= 1 /\ 1 < 1 + e <= 2 /\ 0 < 1 / (1 + e) < 1 /\ 0 < e / (1 + e) < 1.
Proof. exact bce_logits_ranges. Qed.
Goal True. idtac "ASSUMPTIONS bce_logits_intermediate_ranges". Abort.
Print Assumptions bce_logits_intermediate_ranges.

(* ---- sigmoid: exp(-a) IS exposed to overflow (a < -T), benignly *)
(* the only exp argument is -a: bounded by B on |a| <= B and the bound is attained (so for B = 1e4 > 88 the overflow is reachable) *)
Theorem sigmoid_exp_arg_le :
  exp_args_bounded sigmoid_forward_expr [mag 10000] = Some 10000%Q /\
    forall B a, - B <= a <= B -> Forall (fun v => v <= B) (exp_args [a] sigmoid_forward_expr) /\ (a = - B -> exp_args [a] sigmoid_forward_expr = [B]).
Proof. exact (conj sigmoid_analysis_1e4 sigmoid_exp_arg_le_lemma). Qed.
Goal True. idtac "ASSUMPTIONS sigmoid_exp_arg_le". Abort.
Print Assumptions sigmoid_exp_arg_le.

(* over the reals the result lies strictly between 0 and 1 *)
Theorem sigmoid_value_range :
  forall a, 0 < sigmoid_forward a < 1.
Proof. exact sigmoid_range. Qed.
Goal True. idtac "ASSUMPTIONS sigmoid_value_range". Abort.
Print Assumptions sigmoid_value_range.

(* saturating model: when exp(-a) overflows the result is 1/(1+inf) = 0, within exp(-T) of the real value; otherwise it is the real value *)
Theorem sigmoid_overflow_is_benign :
  forall T a, (T < - a -> xeval T [Fin a] sigmoid_forward_expr = Fin 0 /\ Rabs (0 - sigmoid_forward a) <= exp (- T)) /\
    (- a <= T -> xeval T [Fin a] sigmoid_forward_expr = Fin (sigmoid_forward a)).
Proof. exact (fun T a => conj (sigmoid_saturating_overflow T a) (sigmoid_saturating_regular T a)). Qed.
Goal True. idtac "ASSUMPTIONS sigmoid_overflow_is_benign". Abort.
Print Assumptions sigmoid_overflow_is_benign.

(* the backward kernel works on the saved output: no exp *)
Theorem sigmoid_backward_has_no_exp :
  forall grad s, exp_args [s; grad] sigmoid_backward_expr = [].
Proof. exact sigmoid_backward_no_exp. Qed.
Goal True. idtac "ASSUMPTIONS sigmoid_backward_has_no_exp". Abort.
Print Assumptions sigmoid_backward_has_no_exp.

(* ---- tanh *)
(* tanh in (-1,1), its gradient factor 1 - tanh^2 in (0,1]; neither kernel calls exp (np.tanh itself is outside the model) *)
Theorem tanh_bounded :
  forall a, -1 < tanh_forward a < 1 /\ 0 < tanh_backward 1 (tanh_forward a) <= 1 /\ exp_args [a] tanh_forward_expr = [] /\ (forall g t, exp_args [t; g] tanh_backward_expr = []).
Proof. exact tanh_bounded_lemma. Qed.
Goal True. idtac "ASSUMPTIONS tanh_bounded". Abort.
Print Assumptions tanh_bounded.

(* ---- selu forward: exp a is exposed for a > T, and harmless *)
(* the only exp argument is a itself (bound 1e4 on |a| <= 1e4) *)
Theorem selu_forward_exposure :
  exp_args_bounded selu_forward_expr [itop; itop; mag 10000] = Some 10000%Q /\ forall a alpha scale, exp_args [scale; alpha; a] selu_forward_expr = [a].
Proof. exact (conj selu_forward_analysis_1e4 selu_forward_exp_args). Qed.
Goal True. idtac "ASSUMPTIONS selu_forward_exposure". Abort.
Print Assumptions selu_forward_exposure.

(* saturating model, alpha > 0: for a > T, min(0, alpha (inf - 1)) = 0 and the result is the exact real value scale*a; for a <= T nothing overflows *)
Theorem selu_forward_overflow_is_benign :
  forall T a alpha scale, 0 <= T -> 0 < alpha ->
    xeval T [Fin scale; Fin alpha; Fin a] selu_forward_expr = Fin (selu_forward a alpha scale).
Proof. exact (fun T a alpha scale HT Hal => match Rle_dec a T with left H => selu_forward_saturating_regular T a alpha scale H | right H => selu_forward_saturating_overflow T a alpha scale HT (Rnot_le_lt _ _ H) Hal end). Qed.
Goal True. idtac "ASSUMPTIONS selu_forward_overflow_is_benign". Abort.
Print Assumptions selu_forward_overflow_is_benign.

(* non-vacuity / what a violation looks like: the pre-fix selu backward  scale*grad*((a>0) + alpha*exp(a)*(a<=0))
   hands a itself to exp and yields NaN (inf * 0) in the saturating model *)
Example old_selu_backward_is_nan :
  let old := EBin BMul (EBin BMul (EVar 0) (EVar 3))
                 (EBin BAdd (ECmp CGt (EVar 2) (EInt 0)) (EBin BMul (EBin BMul (EVar 1) (EFn FExp (EVar 2))) (ECmp CLe (EVar 2) (EInt 0)))) in
  exp_args_bounded old [itop; itop; mag 10000; itop] = Some 10000%Q /\
  xeval 88 [Fin 1; Fin 1; Fin 100; Fin 1] old = XNaN.
Proof.
  split. vm_compute. reflexivity.
  simpl. destruct (Rle_dec 100 88); [lra|]. simpl. unfold xsign_mul.
  destruct (Req_EM_T 1 0); [lra|]. destruct (Rlt_dec 0 1); [|lra]. simpl.
  unfold ind_le, ind_gt. destruct (Rle_dec 100 0); [lra|]. destruct (Rlt_dec 0 100); [|lra]. simpl.
  unfold xsign_mul. destruct (Req_EM_T 0 0); [reflexivity|lra].
Qed.

