(* C14 for the fused forms of work package E2: values of the fused op and of the documented composition coincide.
   Gradients: the VJP theorems of Props/C01_algebra.v state, for the fused op and for each member of the
   composition, that the code's backward is the adjoint (VJP) of the function its forward computes; both sides of
   an identity compute the same function (theorems below), a function has one VJP, so the gradients coincide too
   (for addmm this is also shown directly: addmm_backward_is_composition).  Only statements.                      *)
From Coq Require Import List Arith ZArith Bool.
Import ListNotations.
From SG Require Import Base.Sums Base.ScalarExt NumPy.Index NumPy.Tensor NumPy.TensorFn
  NumPy.Broadcast NumPy.Reduce NumPy.Matmul NumPy.Concat NumPy.Overloads
  Proofs.ReduceProofs Proofs.ConcatProofs Proofs.SpecProofs Proofs.AlgebraExtra.

Section C14.
Context {A:Type} `{ScalarLaws A} `{!ScalarMulLaws A}.

Theorem addmm_is_add_matmul : forall (a b c:tensor A),
  addmm_forward a b c = (m <- matmul_forward b c ;; add_forward a m).
Proof. exact addmm_is_add_matmul_proof. Qed.
Theorem addmm_backward_is_composition : forall (g a b c m:tensor A) bb bc n k k' p,
  tshape b = bb ++ [n; k] -> tshape c = bc ++ [k'; p] -> matmul_forward b c = Some m ->
  addmm_backward g a b c =
    (ab <- add_backward g (tshape a) (tshape m) ;; bc' <- matmul_backward (snd ab) b c ;; Some (fst ab, fst bc', snd bc')).
Proof. exact addmm_backward_is_composition_proof. Qed.

Theorem linear_is_matmul_T_plus_b : forall (x w bias:tensor A), bias_truth (Some bias) = Some true ->
  linear_forward x w (Some bias) = (m <- matmul_forward x (np_T w) ;; add_forward bias m) /\
  linear_forward x w None = matmul_forward x (np_T w).
Proof. exact linear_is_matmul_T_plus_b_proof. Qed.

Theorem stack_is_concat_of_unsqueezed : forall (xs:list (tensor A)) dim (o:tensor A),
  stack_forward xs dim = Some o ->
  exists x0 ax c, hd_error xs = Some x0 /\ norm_axis (S (rank x0)) dim = Some ax /\
    concat_forward (map (unsqueeze1 ax) xs) dim = Some c /\ teq o c.
Proof. exact stack_is_concat_proof. Qed.

Theorem unbind_inverts_stack : forall (xs:list (tensor A)) dim (o:tensor A),
  stack_forward xs dim = Some o ->
  exists outs, unbind_forward o dim = Some outs /\ Forall2 teq outs xs.
Proof. exact unbind_inverts_stack_proof. Qed.
End C14.

Section C14_mean.
Context {A:Type} `{ScalarLaws A} `{!ScalarDiv A} `{!ScalarDivLaws A}.
(* count = the product of the sizes of the reduced dims *)
Theorem mean_is_sum_div_count : forall (a:tensor A) ax keep ks,
  strict_axes (rank a) ax = Some ks ->
  exists o s, mean_forward a ax keep = Some o /\ sum_forward a ax keep = Some s /\ tshape o = tshape s /\
    forall j, tat o j = sdivn (tat s j)
      (fold_right Nat.mul 1 (map (fun k => nth k (tshape a) 0) (filter (fun i => existsb (Nat.eqb i) ks) (seq 0 (rank a))))).
Proof. exact mean_is_sum_div_count_proof. Qed.
End C14_mean.

Section C14_ops.
Context {A:Type} `{ScalarLaws A} `{!ScalarMulLaws A} `{!ScalarRing A} `{!ScalarRingLaws A}.
(* a - b is computed as a + (b * (-1)); its value is a + (-b) with broadcasting *)
Theorem sub_is_add_neg : forall (a b:tensor A) so, broadcast_shapes (tshape a) (tshape b) = Some so ->
  exists nb o, ov_neg b = Some nb /\ ov_sub_tt a b = badd a nb /\ badd a nb = Some o /\ tshape o = so /\
    forall j, In j (idxs so) -> tat o j = sadd (tat a (bcast_idx (tshape a) so j)) (sopp (tat b (bcast_idx (tshape b) so j))).
Proof. exact sub_is_add_neg_proof. Qed.
(* a / b is computed as a * b**-1 *)
Theorem div_is_mul_pow_minus1 : forall (a b:tensor A), ov_div_tt a b = bmul a (tmap sinv b).
Proof. exact div_is_mul_pow_minus1_proof. Qed.
End C14_ops.

Goal True. idtac "ASSUMPTIONS addmm_is_add_matmul". Abort.
Print Assumptions addmm_is_add_matmul.
Goal True. idtac "ASSUMPTIONS addmm_backward_is_composition". Abort.
Print Assumptions addmm_backward_is_composition.
Goal True. idtac "ASSUMPTIONS linear_is_matmul_T_plus_b". Abort.
Print Assumptions linear_is_matmul_T_plus_b.
Goal True. idtac "ASSUMPTIONS stack_is_concat_of_unsqueezed". Abort.
Print Assumptions stack_is_concat_of_unsqueezed.
Goal True. idtac "ASSUMPTIONS unbind_inverts_stack". Abort.
Print Assumptions unbind_inverts_stack.
Goal True. idtac "ASSUMPTIONS mean_is_sum_div_count". Abort.
Print Assumptions mean_is_sum_div_count.
Goal True. idtac "ASSUMPTIONS sub_is_add_neg". Abort.
Print Assumptions sub_is_add_neg.
Goal True. idtac "ASSUMPTIONS div_is_mul_pow_minus1". Abort.
Print Assumptions div_is_mul_pow_minus1.

Example ex_stack_unbind :
  option_map (fun t => (tshape t, @to_list Z t)) (stack_forward [of_list [2] [1;2]%Z; of_list [2] [3;4]%Z] (-1)) = Some ([2;2], [1;3;2;4]%Z).
Proof. reflexivity. Qed.
