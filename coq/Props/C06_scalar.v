(* C06, scalar part: the GENERATED forward kernels (as the wrappers of nn/functional.py call them: wrap_<op>_out,
   Gen/GenKernelUse.v) equal the documented definitions, for all real inputs.  Statements only; proofs in
   Proofs/KernelProofsC06.v and Proofs/KernelProofs2.v.  Over the reals: rounding is outside the model (the oracle
   of checks/kernels_scalar.py compares values with torch.nn.functional at dtype-appropriate tolerance).
   sigmoid x := exp x / (1 + exp x);  bce_core_eps eps p y := -(y ln(p+eps) + (1-y) ln(1-p+eps)). *)
From Coq Require Import Reals ZArith Lia Lra String List.
From Coquelicot Require Import Coquelicot.
From SG Require Import Analysis.RealOps Gen.GenKernels Gen.GenKernelUse Proofs.KernelProofs Proofs.KernelProofs2 Proofs.KernelProofsC06.
Import ListNotations.
Open Scope R_scope.

(* relu(x) = max(0, x) *)
Theorem relu_forward_is_max :
  forall x, wrap_relu_out x = Rmax 0 x.
Proof. exact relu_forward_def. Qed.
Goal True. idtac "ASSUMPTIONS relu_forward_is_max". Abort.
Print Assumptions relu_forward_is_max.

(* leaky_relu(x, s) = x for x > 0 and s x otherwise, any slope s *)
Theorem leaky_relu_forward_piecewise :
  forall x s, (0 < x -> wrap_leaky_relu_out x s = x) /\ (x <= 0 -> wrap_leaky_relu_out x s = s * x).
Proof. exact leaky_relu_forward_def. Qed.
Goal True. idtac "ASSUMPTIONS leaky_relu_forward_piecewise". Abort.
Print Assumptions leaky_relu_forward_piecewise.

(* = max(0,x) + s min(0,x), the formula in the LeakyReLU docstring *)
Theorem leaky_relu_forward_documented :
  forall x s, wrap_leaky_relu_out x s = Rmax 0 x + s * Rmin 0 x.
Proof. exact leaky_relu_forward_max_min. Qed.
Goal True. idtac "ASSUMPTIONS leaky_relu_forward_documented". Abort.
Print Assumptions leaky_relu_forward_documented.

(* selu(x) = scale (max(0,x) + min(0, alpha (exp x - 1))) with the constants F.selu passes *)
Theorem selu_forward_formula :
  forall x, wrap_selu_out x = wrap_selu_scale * (Rmax 0 x + Rmin 0 (wrap_selu_alpha * (exp x - 1))).
Proof. exact selu_forward_def. Qed.
Goal True. idtac "ASSUMPTIONS selu_forward_formula". Abort.
Print Assumptions selu_forward_formula.

(* = scale x for x >= 0 and scale alpha (exp x - 1) for x <= 0 *)
Theorem selu_forward_piecewise :
  forall x, (0 <= x -> wrap_selu_out x = wrap_selu_scale * x) /\ (x <= 0 -> wrap_selu_out x = wrap_selu_scale * wrap_selu_alpha * (exp x - 1)).
Proof. exact selu_forward_piecewise. Qed.
Goal True. idtac "ASSUMPTIONS selu_forward_piecewise". Abort.
Print Assumptions selu_forward_piecewise.

(* the constants equal the published ones to the 32 printed digits (alpha = 1.6732632423543772848170429916717, scale = 1.0507009873554804934193349852946) *)
Theorem selu_published_constants :
  wrap_selu_alpha = 16732632423543772848170429916717 / 10000000000000000000000000000000 /\ wrap_selu_scale = 10507009873554804934193349852946 / 10000000000000000000000000000000.
Proof. exact (conj eq_refl selu_scale_value). Qed.
Goal True. idtac "ASSUMPTIONS selu_published_constants". Abort.
Print Assumptions selu_published_constants.

(* tanh *)
Theorem tanh_forward_is_tanh :
  forall x, wrap_tanh_out x = tanh x /\ wrap_tanh_out x = (exp x - exp (- x)) / (exp x + exp (- x)).
Proof. exact tanh_forward_def. Qed.
Goal True. idtac "ASSUMPTIONS tanh_forward_is_tanh". Abort.
Print Assumptions tanh_forward_is_tanh.

(* sigmoid(x) = 1/(1+exp(-x)) = exp x/(1+exp x), in (0,1) *)
Theorem sigmoid_forward_is_logistic :
  forall x, wrap_sigmoid_out x = 1 / (1 + exp (- x)) /\ wrap_sigmoid_out x = exp x / (1 + exp x) /\ 0 < wrap_sigmoid_out x < 1.
Proof. exact (fun x => conj (proj1 (sigmoid_forward_def x)) (conj (proj2 (sigmoid_forward_def x)) (eq_ind_r (fun v => 0 < v < 1) (sigmoid_open_unit x) (proj2 (sigmoid_forward_def x))))). Qed.
Goal True. idtac "ASSUMPTIONS sigmoid_forward_is_logistic". Abort.
Print Assumptions sigmoid_forward_is_logistic.

(* mse(p, y) = (p - y)^2 (elementwise; reductions are tensor ops) *)
Theorem mse_forward_is_square :
  forall p y, wrap_mse_loss_out p y = (p - y) * (p - y).
Proof. exact mse_forward_def. Qed.
Goal True. idtac "ASSUMPTIONS mse_forward_is_square". Abort.
Print Assumptions mse_forward_is_square.

(* bce(p, y) = -(y ln(p+eps) + (1-y) ln(1-p+eps)) for p in (0,1), y in [0,1] *)
Theorem bce_forward_formula :
  forall p y, 0 < p < 1 -> 0 <= y <= 1 -> wrap_binary_cross_entropy_out p y = - (y * ln (p + epsilon) + (1 - y) * ln (1 - p + epsilon)).
Proof. exact bce_forward_def. Qed.
Goal True. idtac "ASSUMPTIONS bce_forward_formula". Abort.
Print Assumptions bce_forward_formula.

(* on the closed unit square the value is 100 exactly at (p,y) = (0,1), (1,0) and the guarded formula elsewhere *)
Theorem bce_forward_clamp :
  forall p y, 0 <= p <= 1 -> 0 <= y <= 1 ->
    ((p = 0 /\ y = 1) \/ (p = 1 /\ y = 0) -> wrap_binary_cross_entropy_out p y = 100) /\
    (~ ((p = 0 /\ y = 1) \/ (p = 1 /\ y = 0)) -> wrap_binary_cross_entropy_out p y = bce_core_eps epsilon p y).
Proof. exact bce_forward_clamped. Qed.
Goal True. idtac "ASSUMPTIONS bce_forward_clamp". Abort.
Print Assumptions bce_forward_clamp.

(* distance to the unguarded -(y ln p + (1-y) ln(1-p)): at most eps (1/p + 1/(1-p)) *)
Theorem bce_forward_guard_error :
  forall p y, 0 < p < 1 -> 0 <= y <= 1 ->
    Rabs (wrap_binary_cross_entropy_out p y - - (y * ln p + (1 - y) * ln (1 - p))) <= epsilon * (1 / p + 1 / (1 - p)).
Proof. exact bce_forward_guard_distance. Qed.
Goal True. idtac "ASSUMPTIONS bce_forward_guard_error". Abort.
Print Assumptions bce_forward_guard_error.

(* bce_with_logits(x, y) = softplus(x) - x y = -(y ln sigmoid(x) + (1-y) ln(1 - sigmoid(x))), exactly, for every real x and y (no epsilon) *)
Theorem bce_logits_forward_formula :
  forall x y, wrap_binary_cross_entropy_with_logits_out x y = ln (1 + exp x) - x * y /\ wrap_binary_cross_entropy_with_logits_out x y = - (y * ln (sigmoid x) + (1 - y) * ln (1 - sigmoid x)).
Proof. exact bce_logits_forward_def. Qed.
Goal True. idtac "ASSUMPTIONS bce_logits_forward_formula". Abort.
Print Assumptions bce_logits_forward_formula.

Example c06_examples : wrap_relu_out (-2) = 0 /\ wrap_leaky_relu_out (-2) (3/2) = -3 /\ wrap_mse_loss_out 3 1 = 4 /\ wrap_binary_cross_entropy_out 1 0 = 100.
Proof.
  split. rewrite relu_forward_def. apply Rmax_left; lra.
  split. destruct (leaky_relu_forward_def (-2) (3/2)) as [_ H]. rewrite H; lra.
  split. rewrite mse_forward_def. lra.
  apply (proj1 (bce_forward_clamped 1 0 ltac:(lra) ltac:(lra))). right. split; reflexivity.
Qed.

