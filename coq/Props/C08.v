(* C08 — optimizers follow the published SGD/Adam/AdamW update rules on any history.
   Only statements; proofs live in Proofs/OptimProofs.v.  Each theorem is followed by Print Assumptions.

   [sgd_step], [adam_step], [adamw_step] are GENERATED from synapgrad/optim/optimizers.py (Gen/GenOptim.v);
   [sgd_model] etc. drive them over a history with the hand model State/Optim.v (array identity of gradient
   buffers and optimizer slots); [sgd_update] etc. are the algorithms of the PyTorch documentation
   (State/OptimSpec.v).  Parameters are functions from the element index to R (any shape, any size); any number of
   parameters; hyper-parameters are arbitrary rationals; histories are arbitrary lists of events
   Backward / ZeroGrad / Step / Freeze i / Unfreeze i.  Since the history is arbitrary the equations hold after
   every prefix, i.e. for the whole trajectory. *)
From Coq Require Import List Bool Arith QArith Reals String Lra.
Import ListNotations.
From SG Require Import State.ArrOps State.ArrOpsR Gen.GenOptim State.Optim State.OptimSpec Proofs.OptimProofs Proofs.OptimConsequences.

Theorem sgd_refines_spec : forall (h : sgd_hyper) (params : list (vec * bool * bool)) (hist : list (ev vec)),
  map data (ps (sgd_model fun_ops h params hist)) =
  map sdata (s_run _ (sgd_update (sgd_conf_of h)) (s_init _ None params) hist).
Proof. exact sgd_refines. Qed.
Goal True. idtac "ASSUMPTIONS sgd_refines_spec". Abort.
Print Assumptions sgd_refines_spec.

Theorem adam_refines_spec : forall (h : adam_hyper) (params : list (vec * bool * bool)) (hist : list (ev vec)),
  map data (ps (adam_model fun_ops h params hist)) =
  map sdata (s_run _ (adam_update (adam_conf_of h)) (s_init _ adam_state0 params) hist).
Proof. exact adam_refines. Qed.
Goal True. idtac "ASSUMPTIONS adam_refines_spec". Abort.
Print Assumptions adam_refines_spec.

Theorem adamw_refines_spec : forall (h : adamw_hyper) (params : list (vec * bool * bool)) (hist : list (ev vec)),
  map data (ps (adamw_model fun_ops h params hist)) =
  map sdata (s_run _ (adamw_update (adamw_conf_of h)) (s_init _ adam_state0 params) hist).
Proof. exact adamw_refines. Qed.
Goal True. idtac "ASSUMPTIONS adamw_refines_spec". Abort.
Print Assumptions adamw_refines_spec.

(* Optimizer state is never corrupted by later gradient accumulation: after any history, an event other than Step
   (backward accumulating into the gradient buffers, zero_grad, freezing) leaves the VALUES of all optimizer slots
   (momentum buffer / moments / per-parameter step count, read through the heap) and the step counter unchanged.
   Any array back-end.  This rests on the translator's flags: every array stored by the generated steps is fresh. *)
Theorem state_not_corrupted : forall (O : arr_ops),
  (forall h params hist e, e <> Step ->
     let s := sgd_model O h params hist in let s' := do_ev O _ (sgd_pstep O h) s e in
     map (pobs O _ _ (sgd_obs O)) (ps s') = map (pobs O _ _ (sgd_obs O)) (ps s) /\ tcount s' = tcount s) /\
  (forall h params hist e, e <> Step ->
     let s := adam_model O h params hist in let s' := do_ev O _ (adam_pstep O h) s e in
     map (pobs O _ _ (adam_obs O)) (ps s') = map (pobs O _ _ (adam_obs O)) (ps s) /\ tcount s' = tcount s) /\
  (forall h params hist e, e <> Step ->
     let s := adamw_model O h params hist in let s' := do_ev O _ (adamw_pstep O h) s e in
     map (pobs O _ _ (adam_obs O)) (ps s') = map (pobs O _ _ (adam_obs O)) (ps s) /\ tcount s' = tcount s).
Proof.
  intros O. split; [|split]; intros h params hist e He.
  - exact (sgd_not_corrupted O h params hist e He).
  - exact (adam_not_corrupted O h params hist e He).
  - exact (adamw_not_corrupted O h params hist e He).
Qed.
Goal True. idtac "ASSUMPTIONS state_not_corrupted". Abort.
Print Assumptions state_not_corrupted.

(* the flag itself, on the generated definitions *)
Theorem stored_arrays_are_fresh : forall (O : arr_ops),
  (forall h t r g b d d' u, sgd_step O h t r g b d = Some (d', u) -> upd_fresh O u) /\
  (forall h t r g m1 m2 n d d' u1 u2 n', adam_step O h t r g m1 m2 n d = Some (d', u1, u2, n') -> upd_fresh O u1 /\ upd_fresh O u2) /\
  (forall h t r g m1 m2 n d d' u1 u2 n', adamw_step O h t r g m1 m2 n d = Some (d', u1, u2, n') -> upd_fresh O u1 /\ upd_fresh O u2).
Proof.
  intros O. split; [|split].
  - exact (sgd_stores_fresh O).
  - exact (adam_stores_fresh O).
  - exact (adamw_stores_fresh O).
Qed.
Goal True. idtac "ASSUMPTIONS stored_arrays_are_fresh". Abort.
Print Assumptions stored_arrays_are_fresh.

(* A parameter that does not require grad at a Step is left exactly as it is — data, gradient, slots, step
   count — in ANY state (any history before, with or without weight decay), for the three optimizers. *)
Theorem frozen_fixed : forall (O : arr_ops),
  (forall h (s : ost O _) i p, nth_error (ps s) i = Some p -> req p = false ->
      nth_error (ps (do_ev O _ (sgd_pstep O h) s Step)) i = Some p) /\
  (forall h (s : ost O _) i p, nth_error (ps s) i = Some p -> req p = false ->
      nth_error (ps (do_ev O _ (adam_pstep O h) s Step)) i = Some p) /\
  (forall h (s : ost O _) i p, nth_error (ps s) i = Some p -> req p = false ->
      nth_error (ps (do_ev O _ (adamw_pstep O h) s Step)) i = Some p).
Proof. exact frozen_fixed_all. Qed.
Goal True. idtac "ASSUMPTIONS frozen_fixed". Abort.
Print Assumptions frozen_fixed.

(* Tensors that were not given to the optimizer are untouched by step() and zero_grad(), whatever the update is. *)
Theorem only_given_params_touched : forall (O : arr_ops) St pstep (s : ost O St) i p,
  nth_error (ps s) i = Some p -> given p = false ->
  nth_error (ps (do_ev O St pstep s Step)) i = Some p /\
  nth_error (ps (do_ev O St pstep s ZeroGrad)) i = Some p.
Proof. exact not_given_untouched. Qed.
Goal True. idtac "ASSUMPTIONS only_given_params_touched". Abort.
Print Assumptions only_given_params_touched.

(* The optimizer owns exactly the tensors it was given, in their order, after any history, whatever their requires_grad
   flag or gradient at construction time (a parameter handed over while frozen is updated once it is unfrozen — this is
   what the refinement theorems use).  On the code side: Optimizer.__init__ stores the list it receives
   (`self.parameters = parameters`, generated constant) and step()/zero_grad() iterate `self.parameters`. *)
Theorem optimizer_owns_given : forall (O : arr_ops) St pstep sinit (params : list (V O * bool * bool)) hist,
  map given (ps (run O St pstep (init O St sinit params) hist)) = map (fun x => snd x) params.
Proof. exact owns_given. Qed.
Goal True. idtac "ASSUMPTIONS optimizer_owns_given". Abort.
Print Assumptions optimizer_owns_given.

Theorem optimizer_stores_the_given_list :
  optimizer_parameters_source = "parameters"%string /\ optimizer_zero_grad_iterates = "self.parameters"%string.
Proof. split; reflexivity. Qed.
Goal True. idtac "ASSUMPTIONS optimizer_stores_the_given_list". Abort.
Print Assumptions optimizer_stores_the_given_list.

(* Updates are in place: in the three loop bodies the only writes to the parameter are `p.data -= e` / `p.data += e`
   (NumPy in-place operators keep the array object, its shape and its dtype); no other attribute of p is assigned.
   (Finite fact about the generated write summaries, by computation.) *)
Theorem inplace_same_shape_dtype : forall w, In w all_writes ->
  match fst w with
  | TPData => snd w = WAugAdd \/ snd w = WAugSub
  | TPOther _ => False
  | _ => True
  end.
Proof. exact writes_inplace. Qed.
Goal True. idtac "ASSUMPTIONS inplace_same_shape_dtype". Abort.
Print Assumptions inplace_same_shape_dtype.

(* ---- consequences of the refinement on concrete histories (Proofs/OptimConsequences.v) ----
   The generated steps, driven through the hand model, produce the textbook trajectories: they show that the specification the
   refinement theorems speak of is the published rule (not a restatement of the code) and they are what a user computes by hand. *)

(* plain SGD (no momentum, no weight decay): one backward with gradient g and n steps WITHOUT zero_grad consume the same
   accumulated gradient n times: theta - n * lr * g, for every n, every lr, every parameter size. *)
Theorem sgd_plain_is_gradient_descent : forall (h : sgd_hyper) (theta g : vec) (n : nat),
  Qeq_bool (sgd_momentum h) 0 = true -> Qeq_bool (sgd_weight_decay h) 0 = true -> sgd_maximize h = false ->
  map data (ps (sgd_model fun_ops h [(theta, true, true)] (Backward [Some g] :: repeat Step n))) =
  [fun k => (theta k - INR n * (Q2R (sgd_lr h) * g k))%R].
Proof. exact sgd_model_plain_steps. Qed.
Goal True. idtac "ASSUMPTIONS sgd_plain_is_gradient_descent". Abort.
Print Assumptions sgd_plain_is_gradient_descent.

(* Adam's first update (bias correction at t = 1, eps = 0, no weight decay): every element moves by exactly lr against the sign
   of its gradient, whatever the gradient's magnitude — this fails if the step count used for the bias correction is off by one,
   if the moments are not initialised to zero, or if vhat is not square-rooted. *)
Theorem adam_first_step_has_magnitude_lr : forall (h : adam_hyper) (theta g : vec),
  Qeq_bool (adam_weight_decay h) 0 = true -> adam_maximize h = false -> Q2R (adam_epsilon h) = 0%R ->
  Q2R (adam_beta1 h) <> 1%R -> (Q2R (adam_beta2 h) < 1)%R -> (forall k, g k <> 0%R) ->
  map data (ps (adam_model fun_ops h [(theta, true, true)] [Backward [Some g]; Step])) =
  [fun k => (theta k - Q2R (adam_lr h) * (g k / Rabs (g k)))%R].
Proof. exact adam_model_first_step. Qed.
Goal True. idtac "ASSUMPTIONS adam_first_step_has_magnitude_lr". Abort.
Print Assumptions adam_first_step_has_magnitude_lr.

(* AdamW's first update: the decoupled decay theta - lr*lambda*theta is applied to the parameter (not added to the gradient, so it
   does not enter the moments), then every element moves by exactly lr against the sign of its gradient. *)
Theorem adamw_first_step_decays_then_moves_lr : forall (h : adamw_hyper) (theta g : vec),
  adamw_maximize h = false -> Q2R (adamw_epsilon h) = 0%R ->
  Q2R (adamw_beta1 h) <> 1%R -> (Q2R (adamw_beta2 h) < 1)%R -> (forall k, g k <> 0%R) ->
  map data (ps (adamw_model fun_ops h [(theta, true, true)] [Backward [Some g]; Step])) =
  [fun k => ((theta k - Q2R (adamw_lr h) * Q2R (adamw_weight_decay h) * theta k) - Q2R (adamw_lr h) * (g k / Rabs (g k)))%R].
Proof. exact adamw_model_first_step. Qed.
Goal True. idtac "ASSUMPTIONS adamw_first_step_decays_then_moves_lr". Abort.
Print Assumptions adamw_first_step_decays_then_moves_lr.

(* a step before any backward changes nothing (no parameter has ever received a gradient) — for any update rule *)
Theorem step_without_gradient_is_identity : forall SS (update : SS -> vec -> vec -> SS * vec) (l : list (vec * bool * bool)) s0,
  s_run SS update (s_init SS s0 l) [Step] = s_init SS s0 l.
Proof. exact @spec_step_without_gradient. Qed.
Goal True. idtac "ASSUMPTIONS step_without_gradient_is_identity". Abort.
Print Assumptions step_without_gradient_is_identity.

(* the hypotheses of the two theorems above are met by the default hyper-parameters with eps = 0 *)
Example adam_first_step_hypotheses_satisfiable :
  let h := {| adam_lr := 1#1000; adam_beta1 := 9#10; adam_beta2 := 999#1000; adam_epsilon := 0; adam_weight_decay := 0; adam_maximize := false |} in
  Qeq_bool (adam_weight_decay h) 0 = true /\ adam_maximize h = false /\ Q2R (adam_epsilon h) = 0%R /\
  Q2R (adam_beta1 h) <> 1%R /\ (Q2R (adam_beta2 h) < 1)%R.
Proof.
  cbn. repeat split; unfold Q2R; cbn; try lra.
Qed.

(* ---- examples: the statements are about something ---- *)
Local Open Scope Q_scope.
Definition h_ex : sgd_hyper :=
  {| sgd_lr := 1#2; sgd_momentum := 1#2; sgd_nesterov := false; sgd_dampening := 0; sgd_maximize := false; sgd_weight_decay := 0 |}.
Definition hist_ex : list (ev qval) :=
  [Backward [Some (QA [2])]; Step; Backward [Some (QA [2])]; Step].

(* [backward 2; step; backward 2; step] on theta = 0: second step sees the accumulated gradient 4, b = 1/2*2 + 4 = 5 *)
Example sgd_run_example :
  map data (ps (sgd_model q_ops h_ex [(QA [0], true, true)] hist_ex)) = [QA [-7#2]].
Proof. vm_compute. reflexivity. Qed.

(* The model can express the regression "momentum buffer is the gradient buffer itself": force the alias flag.
   Then the second backward also changes the buffer (b = 1/2*4 + 4 = 6) and the trajectory differs. *)
Definition sgd_pstep_aliased (h : sgd_hyper) t r gcur hp (s : sgd_slots q_ops) d :=
  match sgd_step q_ops h t r (grad_of q_ops gcur hp) (option_map (deref q_ops hp) s) d with
  | None => None
  | Some (d', u) => Some (apply_upd_opt q_ops gcur s (match u with Keep => Keep | Store v _ => Store v true end), d')
  end.
Example aliasing_would_show :
  map data (ps (run q_ops _ (sgd_pstep_aliased h_ex) (init q_ops _ (sgd_sinit q_ops) [(QA [0], true, true)]) hist_ex)) = [QA [-4]].
Proof. vm_compute. reflexivity. Qed.

(* a frozen parameter under weight decay *)
Example frozen_example :
  let h := {| sgd_lr := 1#2; sgd_momentum := 0; sgd_nesterov := false; sgd_dampening := 0; sgd_maximize := false; sgd_weight_decay := 1#4 |} in
  map data (ps (sgd_model q_ops h [(QA [4], true, true); (QA [4], true, true)] [Backward [Some (QA [1]); Some (QA [1])]; Freeze 1; ZeroGrad; Step]))
  = [QA [7#2]; QA [4]].
Proof. vm_compute. reflexivity. Qed.
