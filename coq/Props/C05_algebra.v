(* C05 for broadcasting arithmetic, reductions, matmul and the concatenation family: the wrappers accept
   exactly the argument combinations the mirrored NumPy / PyTorch semantics allows, and return the shape and
   values an independent naive specification (NumPy/SpecAlgebra.v) prescribes.  All ranks, shapes, arguments;
   any commutative semiring.  Only statements.                                                              *)
From Coq Require Import List Arith ZArith Bool.
Import ListNotations.
From SG Require Import Base.Sums Base.ScalarExt NumPy.Index NumPy.Tensor NumPy.TensorFn
  NumPy.Broadcast NumPy.Reduce NumPy.Matmul NumPy.Concat NumPy.Overloads NumPy.SpecAlgebra
  Proofs.IdxSums Proofs.ReduceProofs Proofs.ConcatProofs Proofs.SpecProofs Proofs.MaxProofs Proofs.AlgebraExtra.

Section C05.
Context {A:Type} `{ScalarLaws A}.

(* ---- add / mul: NumPy's broadcasting rule; the operand is read periodically (index mod size) ---- *)
Theorem add_accepts_iff_legal : forall (a b:tensor A),
  add_forward a b <> None <-> spec_bshape (tshape a) (tshape b) <> None.
Proof. exact (bop_accepts_iff sadd). Qed.
Theorem add_matches_spec : forall (a b:tensor A) so, spec_bshape (tshape a) (tshape b) = Some so ->
  exists o, add_forward a b = Some o /\ tshape o = so /\
    forall j, In j (idxs so) -> tat o j = sadd (tat a (spec_bindex (tshape a) j)) (tat b (spec_bindex (tshape b) j)).
Proof. exact (bop_matches_spec sadd). Qed.
Theorem mul_accepts_iff_legal : forall (a b:tensor A),
  mul_forward a b <> None <-> spec_bshape (tshape a) (tshape b) <> None.
Proof. exact (bop_accepts_iff smul). Qed.
Theorem mul_matches_spec : forall (a b:tensor A) so, spec_bshape (tshape a) (tshape b) = Some so ->
  exists o, mul_forward a b = Some o /\ tshape o = so /\
    forall j, In j (idxs so) -> tat o j = smul (tat a (spec_bindex (tshape a) j)) (tat b (spec_bindex (tshape b) j)).
Proof. exact (bop_matches_spec smul). Qed.

(* ---- sum: accepted iff every named dim is in [-n, n) and no dim is named twice (plus NumPy's 0-d legacy for an
        int dim); the value adds up every element whose kept coordinates agree with the output position ---- *)
Theorem sum_accepts_iff_legal : forall (a:tensor A) ax keep,
  sum_forward a ax keep <> None <-> spec_reduce_axes true (rank a) ax <> None.
Proof. exact sum_accepts_iff_proof. Qed.
Theorem sum_matches_spec : forall (a:tensor A) ax keep ks, spec_reduce_axes false (rank a) ax = Some ks ->
  exists o, sum_forward a ax keep = Some o /\ tshape o = spec_red_shape ks keep (tshape a) /\
    forall j, In j (idxs (tshape o)) -> tat o j = spec_sum_at a ks keep j.
Proof. intros a ax keep ks E. rewrite spec_reduce_axes_eq in E. now apply sum_matches_spec_proof. Qed.

(* ---- matmul (F.matmul: both operands of rank >= 2) ---- *)
Theorem matmul_accepts_iff_legal : forall (a b:tensor A),
  F_matmul a b <> None <->
  exists ba bb n k m, tshape a = ba ++ [n; k] /\ tshape b = bb ++ [k; m] /\ spec_bshape ba bb <> None.
Proof. exact matmul_accepts_iff_proof. Qed.
Theorem matmul_matches_spec : forall (a b:tensor A) ba bb bo n k m,
  tshape a = ba ++ [n; k] -> tshape b = bb ++ [k; m] -> spec_bshape ba bb = Some bo ->
  exists o, F_matmul a b = Some o /\ tshape o = bo ++ [n; m] /\
    forall j, In j (idxs (tshape o)) -> tat o j = spec_mm_at a b k j.
Proof. exact matmul_matches_spec_proof. Qed.

(* ---- concat / stack / unbind ---- *)
Theorem concat_accepts_iff_legal : forall (xs:list (tensor A)) dim,
  concat_forward xs dim <> None <-> spec_concat_legal xs dim.
Proof. exact concat_accepts_iff_proof. Qed.
Theorem concat_matches_spec : forall (xs:list (tensor A)) dim (o:tensor A), concat_forward xs dim = Some o ->
  exists x0 ax, hd_error xs = Some x0 /\ spec_axis (rank x0) dim = Some ax /\
    tshape o = set_at ax (sumd ax xs) (tshape x0) /\
    forall j, In j (idxs (tshape o)) -> tat o j = spec_concat_at ax xs j.
Proof. exact concat_matches_spec_proof. Qed.
Theorem stack_accepts_iff_legal : forall (xs:list (tensor A)) dim,
  stack_forward xs dim <> None <-> spec_stack_legal xs dim.
Proof. exact stack_accepts_iff_proof. Qed.
(* the k-th operand sits at position k of the new axis *)
Theorem stack_matches_spec : forall (xs:list (tensor A)) dim (o:tensor A), stack_forward xs dim = Some o ->
  exists x0 r ax, xs = x0 :: r /\ spec_axis (S (rank x0)) dim = Some ax /\
    tshape o = insert_at ax (length xs) (tshape x0) /\
    forall j, tat o j = tat (nth (nth ax j 0) xs (zeros [])) (remove_at ax j).
Proof.
  intros xs dim o E. destruct (stack_forward_spec xs dim o E) as (x0 & r & ax & E1 & E2 & _ & ->).
  exists x0, r, ax. rewrite spec_axis_norm. repeat split; auto.
Qed.
Theorem unbind_accepts_iff_legal : forall (x:tensor A) dim,
  unbind_forward x dim <> None <-> spec_axis (rank x) dim <> None.
Proof. exact unbind_accepts_iff_proof. Qed.
Theorem unbind_matches_spec : forall (x:tensor A) dim ax, spec_axis (rank x) dim = Some ax ->
  exists outs, unbind_forward x dim = Some outs /\ length outs = nth ax (tshape x) 0 /\
    forall k, k < length outs -> tshape (nth k outs (zeros [])) = remove_at ax (tshape x) /\
      forall i, tat (nth k outs (zeros [])) i = tat x (insert_at ax k i).
Proof.
  intros x dim ax E. rewrite spec_axis_norm in E. unfold unbind_forward. rewrite E. cbn [obind].
  eexists. split. reflexivity. rewrite map_length, seq_length. split. reflexivity.
  intros k Hk. rewrite nth_map_seq by exact Hk. split; reflexivity.
Qed.
End C05.

Section C05_mean.
Context {A:Type} `{ScalarLaws A} `{!ScalarDiv A}.
Theorem mean_accepts_iff_legal : forall (a:tensor A) ax keep,
  mean_forward a ax keep <> None <-> spec_reduce_axes false (rank a) ax <> None.
Proof. exact mean_accepts_iff_proof. Qed.
(* the count is the product of the sizes of the dims as written (any order, any sign) *)
Theorem mean_matches_spec : forall (a:tensor A) ax keep ks, spec_reduce_axes false (rank a) ax = Some ks ->
  exists o, mean_forward a ax keep = Some o /\ tshape o = spec_red_shape ks keep (tshape a) /\
    forall j, In j (idxs (tshape o)) -> tat o j = sdivn (spec_sum_at a ks keep j) (spec_count ks (tshape a)).
Proof. intros a ax keep ks E. rewrite spec_reduce_axes_eq in E. now apply mean_matches_spec_proof. Qed.
End C05_mean.

(* ---- max / min along one dim: the value is an element of the column that bounds the whole column ---- *)
Section C05_max.
Context {A:Type} `{ScalarLaws A} `{!ScalarOrd A} `{!ScalarOrdLaws A}.
Theorem max_matches_spec : forall (a:tensor A) z x keep,
  spec_axis (rank a) z = Some x -> nth x (tshape a) 0 <> 0 ->
  exists o, max_forward a (AxInt z) keep = Some o /\ tshape o = spec_red_shape [x] keep (tshape a) /\
    forall j, In j (idxs (tshape o)) ->
      let jj := if keep then remove_at x j else j in
      (exists k, k < nth x (tshape a) 0 /\ tat o j = tat a (insert_at x k jj)) /\
      forall k, k < nth x (tshape a) 0 -> sleb (tat a (insert_at x k jj)) (tat o j) = true.
Proof.
  intros a z x keep E Hd. rewrite spec_axis_norm in E.
  destruct (ext_forward_int sleb a z x keep E Hd) as (o & Eo & Ho & Vo).
  exists o. split. exact Eo. split. { rewrite Ho. symmetry. apply spec_red_shape_eq. }
  intros j Hj jj. rewrite (Vo j Hj). fold jj.
  set (col := column a x (nth x (tshape a) 0) jj).
  assert (Hn: col <> []) by (apply column_nonempty; exact Hd).
  destruct (max_selects_first_maximiser col s0 Hn) as (Hlt & Hub & _). unfold col in Hlt at 2. rewrite column_length in Hlt.
  assert (Ev: nth (argbest sleb col) col s0 = tat a (insert_at x (argbest sleb col) jj)).
  { unfold col at 2. unfold column. now rewrite nth_map_seq0 by exact Hlt. }
  split. { exists (argbest sleb col). split; auto. }
  intros k Hk. rewrite <- Ev. apply Hub. unfold col, column. apply in_map_iff. exists k. split; auto. apply in_seq. split; [apply Nat.le_0_l|exact Hk].
Qed.
End C05_max.

(* ---- operators and reflected operators with Python scalars, as computed: c - t = (-t) + c with -t = t * (-1),
        c / t = t**-1 * c ---- *)
Section C05_ops.
Context {A:Type} `{ScalarLaws A} `{!ScalarMulLaws A} `{!ScalarRing A} `{!ScalarRingLaws A}.
Theorem rsub_matches_spec : forall (c:A) (t:tensor A),
  exists o, ov_rsub_ts c t = Some o /\ tshape o = tshape t /\
    forall j, In j (idxs (tshape t)) -> tat o j = sadd c (sopp (tat t j)).
Proof. exact rsub_matches_spec_proof. Qed.
Theorem sub_scalar_matches_spec : forall (t:tensor A) (c:A),
  exists o, ov_sub_ts t c = Some o /\ tshape o = tshape t /\
    forall j, In j (idxs (tshape t)) -> tat o j = sadd (tat t j) (sopp c).
Proof. exact sub_scalar_matches_spec_proof. Qed.
Theorem rdiv_matches_spec : forall (c:A) (t:tensor A),
  exists o, ov_rdiv_ts c t = Some o /\ tshape o = tshape t /\
    forall j, In j (idxs (tshape t)) -> tat o j = smul c (sinv (tat t j)).
Proof. exact rdiv_matches_spec_proof. Qed.
Theorem radd_rmul_are_add_mul : forall (c:A) (t:tensor A),
  ov_radd_ts c t = ov_add_ts t c /\ ov_rmul_ts c t = ov_mul_ts t c.
Proof. exact radd_rmul_commute. Qed.
End C05_ops.

Goal True. idtac "ASSUMPTIONS add_accepts_iff_legal". Abort.
Print Assumptions add_accepts_iff_legal.
Goal True. idtac "ASSUMPTIONS add_matches_spec". Abort.
Print Assumptions add_matches_spec.
Goal True. idtac "ASSUMPTIONS mul_accepts_iff_legal". Abort.
Print Assumptions mul_accepts_iff_legal.
Goal True. idtac "ASSUMPTIONS mul_matches_spec". Abort.
Print Assumptions mul_matches_spec.
Goal True. idtac "ASSUMPTIONS sum_accepts_iff_legal". Abort.
Print Assumptions sum_accepts_iff_legal.
Goal True. idtac "ASSUMPTIONS sum_matches_spec". Abort.
Print Assumptions sum_matches_spec.
Goal True. idtac "ASSUMPTIONS matmul_accepts_iff_legal". Abort.
Print Assumptions matmul_accepts_iff_legal.
Goal True. idtac "ASSUMPTIONS matmul_matches_spec". Abort.
Print Assumptions matmul_matches_spec.
Goal True. idtac "ASSUMPTIONS concat_accepts_iff_legal". Abort.
Print Assumptions concat_accepts_iff_legal.
Goal True. idtac "ASSUMPTIONS concat_matches_spec". Abort.
Print Assumptions concat_matches_spec.
Goal True. idtac "ASSUMPTIONS stack_accepts_iff_legal". Abort.
Print Assumptions stack_accepts_iff_legal.
Goal True. idtac "ASSUMPTIONS stack_matches_spec". Abort.
Print Assumptions stack_matches_spec.
Goal True. idtac "ASSUMPTIONS unbind_accepts_iff_legal". Abort.
Print Assumptions unbind_accepts_iff_legal.
Goal True. idtac "ASSUMPTIONS unbind_matches_spec". Abort.
Print Assumptions unbind_matches_spec.
Goal True. idtac "ASSUMPTIONS mean_accepts_iff_legal". Abort.
Print Assumptions mean_accepts_iff_legal.
Goal True. idtac "ASSUMPTIONS mean_matches_spec". Abort.
Print Assumptions mean_matches_spec.
Goal True. idtac "ASSUMPTIONS max_matches_spec". Abort.
Print Assumptions max_matches_spec.
Goal True. idtac "ASSUMPTIONS rsub_matches_spec". Abort.
Print Assumptions rsub_matches_spec.
Goal True. idtac "ASSUMPTIONS sub_scalar_matches_spec". Abort.
Print Assumptions sub_scalar_matches_spec.
Goal True. idtac "ASSUMPTIONS rdiv_matches_spec". Abort.
Print Assumptions rdiv_matches_spec.
Goal True. idtac "ASSUMPTIONS radd_rmul_are_add_mul". Abort.
Print Assumptions radd_rmul_are_add_mul.

Example ex_spec_bshape : spec_bshape [2;1;3] [4;1] = Some [2;4;3] /\ spec_bshape [2;3] [2] = None /\ spec_bshape [] [3] = Some [3].
Proof. repeat split; reflexivity. Qed.
Example ex_spec_axes : spec_reduce_axes false 3 (AxTuple [-1;0]%Z) = Some [2;0] /\ spec_reduce_axes false 3 (AxTuple [0;-3]%Z) = None /\
  spec_reduce_axes false 3 (AxInt 3) = None /\ spec_count [2;0] [2;3;4] = 8.
Proof. repeat split; reflexivity. Qed.
