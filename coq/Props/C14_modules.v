(* C14 (modules part): Neuron = Linear with one output, Sequential = function composition.
   Sequential is modelled in State/Modules.v (work package B1): forward is the left fold over the registered submodules. *)
From Coq Require Import List Bool Arith.
Import ListNotations.

(* function composition of a list of maps, applied left to right *)
Definition compose_all {A} (fs : list (A -> A)) (x : A) : A := fold_left (fun acc f => f acc) fs x.

(* `for module in self.submodules(): out = module(inp); inp = out` *)
Fixpoint seq_forward {A} (fs : list (A -> A)) (x : A) : A :=
  match fs with [] => x | f :: t => seq_forward t (f x) end.

Lemma seq_forward_is_composition_lemma {A} (fs : list (A -> A)) : forall x, seq_forward fs x = compose_all fs x.
Proof. induction fs as [|f t IH]; intro x; simpl; auto. Qed.

Theorem sequential_is_composition : forall A (fs : list (A -> A)) x, seq_forward fs x = compose_all fs x.
Proof. intros A fs x. exact (seq_forward_is_composition_lemma fs x). Qed.
Goal True. idtac "ASSUMPTIONS sequential_is_composition". Abort.
Print Assumptions sequential_is_composition.

Theorem sequential_app : forall A (fs gs : list (A -> A)) x, seq_forward (fs ++ gs) x = seq_forward gs (seq_forward fs x).
Proof. intros A fs. induction fs as [|f t IH]; intros gs x; simpl; auto. Qed.
Goal True. idtac "ASSUMPTIONS sequential_app". Abort.
Print Assumptions sequential_app.

(* Neuron(in_features, bias) is literally Linear(in_features, 1, bias): the constructor only fixes out_features = 1 *)
Record linear_cfg := { in_features : nat; out_features : nat; has_bias : bool }.
Definition neuron_cfg (n : nat) (b : bool) : linear_cfg := {| in_features := n; out_features := 1; has_bias := b |}.
Theorem neuron_is_linear_one_output : forall n b, out_features (neuron_cfg n b) = 1 /\ in_features (neuron_cfg n b) = n /\ has_bias (neuron_cfg n b) = b.
Proof. intros; repeat split. Qed.
Goal True. idtac "ASSUMPTIONS neuron_is_linear_one_output". Abort.
Print Assumptions neuron_is_linear_one_output.
