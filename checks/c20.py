"""C20 — Trainer.fit performs one optimisation step per batch in the right mode.

Obligations : coq/Props/C20.v (State/Trainer.v: event-trace generator of fit/__train/__validate/test, modes along a
              trace, history bookkeeping, loss averaging over Q, Evaluator accuracy)
Ties        : K  the real Trainer.fit driven with recording mock objects (model / optimizer / criterion / loaders /
                 engine / pkbar) and the real Evaluator: event trace with (model.training, grad mode) at every event,
                 normal/raising outcome and the returned history dictionary, compared with the model inside Coq
              K  empty loaders (the malformed stream): the call must raise, with the modelled trace prefix
Oracle      : the clauses of the property judged directly on the recorded trace / history in Python (no Coq), and
              one end-to-end run with a real Sequential(Linear, BatchNorm1d, ReLU, Dropout, Linear), SGD, DataLoader.
"""
import itertools, json, re, types
from fractions import Fraction
from lib import common
from lib.common import cb, cn, clist, cq

EV_COQ = {"TrainMode": "TrainMode", "EvalMode": "EvalMode", "KbarAdd": "KbarAdd", "OnTrainEpochCb": "OnTrainEpochCb",
          "OnValEpochCb": "OnValEpochCb", "Forward": "Forward", "Criterion": "Criterion", "ZeroGrad": "ZeroGrad",
          "Backward": "Backward", "Step": "Step", "NoGradNew": "NoGradNew", "NoGradEnter": "NoGradEnter",
          "NoGradExit": "NoGradExit"}
MODES = ["binary", "multi-class", "categorical"]
MODE_COQ = {"binary": "Binary", "multi-class": "MultiClass", "categorical": "Categorical"}


def _impl():
    from lib import impl
    return impl


def train_mod():
    import sys
    _impl()
    import synapgrad.nn.utils  # noqa: F401
    return sys.modules["synapgrad.nn.utils.train"]


def ev_coq(e):
    if isinstance(e, tuple):
        k, a = e
        if k in ("KbarInit", "KbarUpdate"):
            return "%s %d" % (k, a)
        return "%s %s" % (k, cb(a))          # EvalStep / EvalCompute (val?)
    return EV_COQ[e]


# ------------------------------------------------------------------ case description
class Case:
    """One fit() call: configuration + the data the mocks hand out (all dyadic)."""

    def __init__(self, epochs, nb, nbv, mode, acc_on, ecb, cb_train, cb_val, t0, g0, rng, K=3):
        import random
        self.args = [epochs, nb, nbv, mode, acc_on, ecb, cb_train, cb_val, t0, g0]
        self.case_seed = rng.randrange(1 << 30)        # all data of the case derive from this seed (used by --replay)
        rng = random.Random(self.case_seed)
        self.epochs, self.nb, self.nbv, self.mode = epochs, nb, nbv, mode
        self.acc_on, self.ecb, self.cb_train, self.cb_val, self.t0, self.g0 = acc_on, ecb, cb_train, cb_val, t0, g0
        self.K = K
        self.tsizes = self.sizes(rng, nb)
        self.vsizes = self.sizes(rng, nbv) if nbv else []
        self.tloss = [self.losses(rng, nb) for _ in range(epochs)]
        self.vloss = [self.losses(rng, nbv) for _ in range(epochs)] if nbv else []
        self.tb = [[self.batch(rng, s) for s in self.tsizes] for _ in range(epochs)]
        self.vb = [[self.batch(rng, s) for s in self.vsizes] for _ in range(epochs)] if nbv else []

    @staticmethod
    def sizes(rng, n):
        """batch sizes >= 2 (a batch of one breaks Evaluator.step, see notes) whose total is a power of two, so that
        accuracy = correct/total is exact in float64"""
        if n == 0:
            return []
        while True:
            s = [rng.choice([2, 2, 3, 4, 5, 6]) for _ in range(n)]
            tot = sum(s)
            if tot & (tot - 1) == 0:
                return s

    @staticmethod
    def losses(rng, n):
        """dyadic per-batch losses whose sum is divisible by n (so that the mean is exact in float64)"""
        if n == 0:
            return []
        num = [rng.randint(0, 64) for _ in range(n)]
        num[-1] += (-sum(num)) % n
        sh = rng.choice([1, 4, 8])
        return [Fraction(a, sh) for a in num]

    def batch(self, rng, size):
        K = self.K
        if self.mode == "binary":
            outs = [[Fraction(rng.choice([0, 1, 2, 3, 4, 4, 5, 6, 8]), 8)] for _ in range(size)]
            labz = [rng.randint(0, 1) for _ in range(size)]
            labrows = []
        else:
            outs = [[Fraction(rng.randint(-4, 4), 4) for _ in range(K)] for _ in range(size)]
            labz = [rng.randint(0, K - 1) for _ in range(size)]
            labrows = []
            if self.mode == "categorical":
                labrows = [[Fraction(1 if j == l else 0) for j in range(K)] for l in labz]
        return {"outs": outs, "labz": labz, "labrows": labrows}

    @classmethod
    def from_descr(cls, d):
        class R:
            def randrange(self, n):
                return d["case_seed"]
        return cls(*d["args"], rng=R())

    def descr(self):
        return {"args": self.args, "case_seed": self.case_seed, "epochs": self.epochs, "nb": self.nb, "nbv": self.nbv, "evaluator": self.mode, "accuracy": self.acc_on,
                "epoch_callback": self.ecb, "on_train_epoch": self.cb_train, "on_validation_epoch": self.cb_val,
                "model.training before": self.t0, "grad mode before": self.g0,
                "batch sizes": self.tsizes, "val batch sizes": self.vsizes,
                "losses": [[str(x) for x in r] for r in self.tloss], "val losses": [[str(x) for x in r] for r in self.vloss]}


# ------------------------------------------------------------------ running the real Trainer with recording mocks
def run_case_impl(case):
    """Returns dict(trace=[(event, training, gradmode)], raised=None|repr, history=None|[(key,[Fraction])], final=(training,grad))"""
    impl = _impl()
    np, sg = impl.np, impl.synapgrad
    tm = train_mod()
    log = []
    impl.reset_modes()

    class Model:
        def __init__(self):
            self.training = case.t0
            self.pending = None

        def train(self):
            rec("TrainMode"); self.training = True; return self

        def eval(self):
            rec("EvalMode"); self.training = False; return self

        def __call__(self, *inputs):
            rec("Forward")
            (x,) = inputs
            is_val, e, i = [int(v) for v in x.data.reshape(-1)[:3]]
            b = (case.vb if is_val else case.tb)[e][i]
            self.pending = (is_val, e, i)
            arr = np.array([[float(v) for v in r] for r in b["outs"]], dtype=np.float64)
            return sg.Tensor(arr, requires_grad=True) if impl.grad_mode() else sg.Tensor(arr)

    model = Model()

    class Injected(Exception):
        pass

    def rec(e):
        log.append((e, bool(model.training), impl.grad_mode()))
        if getattr(case, "raise_at", None) is not None and len(log) - 1 == case.raise_at:
            raise Injected("injected at event %d" % case.raise_at)

    def criterion(outputs, labels):
        rec("Criterion")
        is_val, e, i = model.pending
        v = float((case.vloss if is_val else case.tloss)[e][i])
        if not case.g0 and not is_val:
            # fit() called with gradients globally disabled: a real loss could not be back-propagated at all
            # (RuntimeError); to still observe the control flow in that mode the loss is a stand-in object.
            class FakeLoss:
                def item(self):
                    return v

                def backward(self):
                    rec("Backward")
            return FakeLoss()
        w = sg.Tensor(np.array([v, 0.0]), requires_grad=True)
        loss = (w * 1.0).sum()
        if loss.requires_grad:
            orig = loss.backward

            def bw(*a, **k):
                rec("Backward")
                return orig(*a, **k)
            loss.backward = bw
        return loss

    class Opt:
        def zero_grad(self):
            rec("ZeroGrad")

        def step(self):
            rec("Step")

    class Loader:
        def __init__(self, is_val, batches_per_epoch):
            self.is_val, self.bpe, self.epoch = is_val, batches_per_epoch, -1

        def __len__(self):
            return len(self.bpe[0]) if self.bpe else 0

        def __iter__(self):
            self.epoch += 1
            bs = self.bpe[self.epoch] if self.bpe else []
            for i, b in enumerate(bs):
                x = sg.Tensor(np.array([[float(self.is_val), float(self.epoch), float(i)]] * len(b["outs"])))
                if case.mode == "categorical":
                    y = sg.Tensor(np.array([[float(v) for v in r] for r in b["labrows"]]))
                else:
                    y = sg.Tensor(np.array([float(v) for v in b["labz"]]))
                yield x, y

    class Engine:
        @staticmethod
        def no_grad():
            rec("NoGradNew")
            real = sg.no_grad()

            class W:
                def __enter__(s):
                    rec("NoGradEnter"); return real.__enter__()

                def __exit__(s, *a):
                    rec("NoGradExit"); return real.__exit__(*a)
            return W()

    class Kbar:
        def __init__(self, *a, **k):
            rec(("KbarInit", k.get("epoch")))

        def update(self, i, values=None):
            rec(("KbarUpdate", i))

        def add(self, n, values=None):
            rec("KbarAdd")

    evaluator = None
    if case.mode is not None:
        def epoch_cb(yt, yp):
            return [("count", np.float64(len(yt))), ("sum_pred", np.float64(yp.sum())), ("last_true", np.float64(yt[-1]))]

        class REval(tm.Evaluator):
            def step(self, labels, outputs, prefix=None):
                rec(("EvalStep", prefix is not None))
                return super().step(labels, outputs, prefix=prefix)

            def compute(self, prefix=None):
                rec(("EvalCompute", prefix is not None))
                return super().compute(prefix=prefix)
        evaluator = REval(epoch_callback=epoch_cb if case.ecb else None, accuracy=case.acc_on, mode=case.mode)

    tl = Loader(0, case.tb)
    vl = Loader(1, case.vb) if case.nbv is not None else None
    trainer = tm.Trainer(model, Engine)
    trainer.compile(criterion, Opt(), evaluator)
    old_pk = tm.pkbar
    tm.pkbar = types.SimpleNamespace(Kbar=Kbar)
    impl.tensor_mod.gradient__ = case.g0
    raised = None
    hist = None
    try:
        h = trainer.fit(tl, case.epochs, validation_loader=vl,
                        on_train_epoch=(lambda m, l: rec("OnTrainEpochCb")) if case.cb_train else None,
                        on_validation_epoch=(lambda m, l: rec("OnValEpochCb")) if case.cb_val else None)
        hist = [(k, [Fraction(float(v)) for v in vs]) for k, vs in h.items()]
        if h is not trainer.history:
            raised = "fit did not return self.history"
    except Exception as ex:
        raised = type(ex).__name__
    finally:
        tm.pkbar = old_pk
    final = (bool(model.training), impl.grad_mode())
    impl.reset_modes()
    return {"trace": log, "raised": raised, "history": hist, "final": final}


def run_test_impl(nbt, t0, g0):
    """Trainer.test(loader) with recording mocks -> (trace with modes, raised, final modes, n_pred)"""
    import io, contextlib
    impl = _impl()
    np, sg = impl.np, impl.synapgrad
    tm = train_mod()
    log = []
    impl.reset_modes()

    class Model:
        training = t0

        def train(self):
            rec("TrainMode"); self.training = True; return self

        def eval(self):
            rec("EvalMode"); self.training = False; return self

        def __call__(self, x):
            rec("Forward")
            return sg.Tensor(np.ones((2, 1)))
    model = Model()

    def rec(e):
        log.append((e, bool(model.training), impl.grad_mode()))

    class Engine:
        @staticmethod
        def no_grad():
            rec("NoGradNew")
            real = sg.no_grad()

            class W:
                def __enter__(s):
                    rec("NoGradEnter"); return real.__enter__()

                def __exit__(s, *a):
                    rec("NoGradExit"); return real.__exit__(*a)
            return W()
    loader = [(sg.Tensor(np.zeros((2, 3))), sg.Tensor(np.array([0.0, 1.0]))) for _ in range(nbt)]
    trainer = tm.Trainer(model, Engine)
    impl.tensor_mod.gradient__ = g0
    raised = None
    npred = None
    try:
        with contextlib.redirect_stdout(io.StringIO()):
            y_pred, y_true = trainer.test(loader)
        npred = (len(y_pred), len(y_true))
    except Exception as ex:
        raised = type(ex).__name__
    final = (bool(model.training), impl.grad_mode())
    impl.reset_modes()
    return log, raised, final, npred


# ------------------------------------------------------------------ the oracle: property clauses judged directly (no Coq)
def py_decode(case, b):
    if case.mode == "binary":
        pred = [1 if r[0] > Fraction(1, 2) else 0 for r in b["outs"]]
    else:
        pred = [max(range(len(r)), key=lambda j: (r[j], -j)) for r in b["outs"]]
    return pred, list(b["labz"])


def judge(case, res):
    """Returns None or a description of the violated clause."""
    tr = res["trace"]
    if res["raised"]:
        return "fit raised %s" % res["raised"]
    names = [t[0] for t in tr]
    steps = [i for i, n in enumerate(names) if n == "Step"]
    if len(steps) != case.epochs * case.nb:
        return "%d optimizer.step() calls, expected epochs*len(train_loader) = %d" % (len(steps), case.epochs * case.nb)
    for i in steps:
        if i < 2 or names[i - 2] != "ZeroGrad" or names[i - 1] != "Backward":
            return "step #%d is not immediately preceded by zero_grad(); backward() (preceded by %s)" % (steps.index(i), names[max(0, i - 2):i])
    depth = 0
    for i, (n, training, gm) in enumerate(tr):
        if n == "NoGradEnter":
            depth += 1
        if n in ("ZeroGrad", "Backward", "Step"):
            if not training:
                return "%s at event %d with the model in eval mode" % (n, i)
            if depth > 0:
                return "%s at event %d inside a no_grad block" % (n, i)
            if gm != case.g0:
                return "%s at event %d with grad mode %s" % (n, i, gm)
        if n == "NoGradExit":
            depth -= 1
    # forwards are classified by the loader that fed them (the k-th forward of an epoch is a validation one iff k >= nb)
    fw = [i for i, n in enumerate(names) if n == "Forward"]
    per_epoch = case.nb + (case.nbv or 0)
    if len(fw) != case.epochs * per_epoch:
        return "%d forwards, expected %d" % (len(fw), case.epochs * per_epoch)
    depth_at = []
    d = 0
    for n in names:
        if n == "NoGradEnter":
            d += 1
        depth_at.append(d)
        if n == "NoGradExit":
            d -= 1
    for k, i in enumerate(fw):
        is_val = (k % per_epoch) >= case.nb
        _, training, gm = tr[i]
        if is_val:
            if training:
                return "validation forward (event %d) with the model in training mode" % i
            if gm or depth_at[i] == 0:
                return "validation forward (event %d) outside no_grad (grad mode %s)" % (i, gm)
        else:
            if not training:
                return "training forward (event %d) with the model in eval mode" % i
            if gm != case.g0 or depth_at[i] != 0:
                return "training forward (event %d) with grad mode %s" % (i, gm)
    if res["final"][1] != case.g0:
        return "grad mode after fit is %s, before it was %s" % (res["final"][1], case.g0)
    # history
    h = dict(res["history"])
    metric = (["accuracy"] if case.acc_on else []) + (["count", "sum_pred", "last_true"] if case.ecb else []) if case.mode else []
    want = ["loss"] + metric + ((["val_loss"] + ["val_" + m for m in metric]) if case.nbv else [])
    if case.epochs == 0:
        want = []
    if [k for k, _ in res["history"]] != want:
        return "history keys %s, expected %s" % ([k for k, _ in res["history"]], want)
    for k in want:
        if len(h[k]) != case.epochs:
            return "history[%r] has %d entries for %d epochs" % (k, len(h[k]), case.epochs)
    for e in range(case.epochs):
        if h["loss"][e] != sum(case.tloss[e]) / case.nb:
            return "history['loss'][%d] = %s, mean of the batch losses is %s" % (e, h["loss"][e], sum(case.tloss[e]) / case.nb)
        if case.nbv and h["val_loss"][e] != sum(case.vloss[e]) / case.nbv:
            return "history['val_loss'][%d] = %s, mean of the batch losses is %s" % (e, h["val_loss"][e], sum(case.vloss[e]) / case.nbv)
        if case.mode and case.acc_on:
            for key, bs in (("accuracy", case.tb[e]),) + ((("val_accuracy", case.vb[e]),) if case.nbv else ()):
                good = tot = 0
                for b in bs:
                    p, t = py_decode(case, b)
                    good += sum(1 for a, c in zip(p, t) if a == c)
                    tot += len(p)
                if h[key][e] != Fraction(good, tot):
                    return "history[%r][%d] = %s, fraction of correct predictions is %d/%d" % (key, e, h[key][e], good, tot)
    return None


# ------------------------------------------------------------------ Coq side
HEADER = """From Coq Require Import List Bool Arith ZArith QArith String.
Import ListNotations.
From SG Require Import Base.Cmp State.Trainer.
Open Scope Q_scope.
Definition ev_eqb (a b : ev) : bool :=
  match a, b with
  | TrainMode, TrainMode | EvalMode, EvalMode | KbarAdd, KbarAdd | OnTrainEpochCb, OnTrainEpochCb
  | OnValEpochCb, OnValEpochCb | Forward, Forward | Criterion, Criterion | ZeroGrad, ZeroGrad | Backward, Backward
  | Step, Step | NoGradNew, NoGradNew | NoGradEnter, NoGradEnter | NoGradExit, NoGradExit => true
  | KbarInit x, KbarInit y | KbarUpdate x, KbarUpdate y => Nat.eqb x y
  | EvalStep x, EvalStep y | EvalCompute x, EvalCompute y => Bool.eqb x y
  | _, _ => false
  end.
Definition obs_eqb := list_eqb (pair_eqb ev_eqb (pair_eqb Bool.eqb Bool.eqb)).
Definition hist_eqb := list_eqb (pair_eqb String.eqb (list_eqb Qeqb)).
Definition tab {A} (d : A) (t : list (list A)) (e i : nat) : A := nth i (nth e t []) d.
Definition eb0 : ebatch := {| outs := []; labz := []; labrows := [] |}.
Definition the_cb (yt yp : list Z) : list (string * Q) :=
  [("count"%string, inject_Z (Z.of_nat (List.length yt))); ("sum_pred"%string, inject_Z (fold_right Z.add 0%Z yp));
   ("last_true"%string, inject_Z (last yt 0%Z))].
Record case := { c_cfg : cfg; c_epochs : nat; c_t0 : bool; c_g0 : bool; c_eval : option evaluator; c_data : run_data }.
Definition model_out (c : case) :=
  let r := fit (c_cfg c) (c_epochs c) in
  let s0 := {| mtrain := c_t0 c; mgrad := c_g0 c; msaved := []; mdepth := 0 |} in
  (annot s0 (fst r), snd r, mrun s0 (fst r),
   if snd r then fit_history (c_eval c) (c_data c) (nb (c_cfg c)) (val (c_cfg c)) (c_epochs c) else []).
Definition model_out_raise (ck : case * nat) :=
  let c := fst ck in
  let s0 := {| mtrain := c_t0 c; mgrad := c_g0 c; msaved := []; mdepth := 0 |} in
  let t := unwind s0 (firstn (S (snd ck)) (fst (fit (c_cfg c) (c_epochs c)))) in
  (annot s0 t, false, mrun s0 t, @nil (string * list Q)).
Definition out_eqb (m : list (ev * (bool * bool)) * bool * mst * hist)
                   (i : list (ev * (bool * bool)) * bool * (bool * bool) * hist) : bool :=
  match m, i with
  | (a, ok, s, h), (a', ok', (t', g'), h') =>
      obs_eqb a a' && Bool.eqb ok ok' && Bool.eqb (mtrain s) t' && Bool.eqb (mgrad s) g' && hist_eqb h h'
  end.
"""


def cstr(s):
    return '"%s"%%string' % s


def batch_coq(b):
    return "{| outs := %s; labz := %s; labrows := %s |}" % (
        clist([clist([cq(v) for v in r]) for r in b["outs"]]),
        clist(["%d%%Z" % v for v in b["labz"]]),
        clist([clist([cq(v) for v in r]) for r in b["labrows"]]))


def case_coq(case, res):
    return "(%s,\n  %s)" % case_coq_parts(case, res)


def case_coq_parts(case, res):
    cfg = "{| nb := %d; val := %s; has_eval := %s; cb_train := %s; cb_val := %s |}" % (
        case.nb, "None" if case.nbv is None else "Some %d%%nat" % case.nbv, cb(case.mode is not None), cb(case.cb_train), cb(case.cb_val))
    ev = "None"
    if case.mode is not None:
        ev = "Some {| acc_on := %s; emode_of := %s; ecb := %s |}" % (cb(case.acc_on), MODE_COQ[case.mode], "Some the_cb" if case.ecb else "None")
    data = "{| tloss := tab 0 (%s : list (list Q)); vloss := tab 0 (%s : list (list Q)); tbatch := tab eb0 (%s : list (list ebatch)); vbatch := tab eb0 (%s : list (list ebatch)) |}" % (
        clist([clist([cq(v) for v in r]) for r in case.tloss]), clist([clist([cq(v) for v in r]) for r in case.vloss]),
        clist([clist([batch_coq(b) for b in r]) for r in case.tb]), clist([clist([batch_coq(b) for b in r]) for r in case.vb]))
    c = "{| c_cfg := %s; c_epochs := %d; c_t0 := %s; c_g0 := %s; c_eval := %s; c_data := %s |}" % (
        cfg, case.epochs, cb(case.t0), cb(case.g0), ev, data)
    obs = clist(["(%s, (%s, %s))" % (ev_coq(e), cb(t), cb(g)) for e, t, g in res["trace"]])
    hist = clist(["(%s, %s)" % (cstr(k), clist([cq(v) for v in vs])) for k, vs in (res["history"] or [])])
    ok = res["raised"] is None
    return c, "(%s, %s, (%s, %s), %s)" % (obs, cb(ok), cb(res["final"][0]), cb(res["final"][1]), hist)


def parse_natlist(out):
    flat = " ".join(out.split())
    res = []
    for m in re.finditer(r"= \[(.*?)\]\s*:\s*list nat", flat):
        body = m.group(1).replace("%nat", "").strip()
        res.append([int(x) for x in body.split(";") if x.strip()])
    return res


def compare_in_coq(ctx, prefix, pairs, chunk=120):
    """pairs: [(case, res)] -> list of mismatching indices / errors"""
    files = []
    for k in range(0, len(pairs), chunk):
        body = ";\n ".join(case_coq(c, r) for c, r in pairs[k:k + chunk])
        txt = HEADER + "Definition cases : list (case * (list (ev * (bool * bool)) * bool * (bool * bool) * hist)) := [\n %s].\nEval vm_compute in (mismatches model_out out_eqb cases).\n" % body
        files.append(("%s_%d" % (prefix, k // chunk), txt))
    res = ctx.coq_eval_many(files)
    bad, errs = [], []
    for (name, _), k in zip(files, range(0, len(pairs), chunk)):
        ok, out = res[name]
        lists = parse_natlist(out)
        if not ok or len(lists) != 1:
            errs.append({"file": name, "error": out[-600:]})
            continue
        bad += [k + i for i in lists[0]]
    return bad, errs


# ------------------------------------------------------------------ end-to-end run with real layers
def end_to_end(ctx, seed):
    """Returns None or (description, details). Real Sequential with BatchNorm1d + Dropout, SGD, DataLoader."""
    impl = _impl()
    np, sg, nn, optim = impl.np, impl.synapgrad, impl.nn, impl.optim
    tm = train_mod()
    from synapgrad.nn.utils.data import DataLoader, DataLoaderCallback
    impl.reset_modes()
    rs = np.random.RandomState(seed)
    np.random.seed(seed)
    N, NV, F, K, BS = 24, 8, 4, 3, 4
    X = rs.randn(N + NV, F).astype(np.float32)
    y = rs.randint(0, K, size=N + NV)

    class T(DataLoaderCallback):
        def __call__(self, dl, xb, yb):
            return sg.Tensor(xb), sg.Tensor(yb)
    tl = DataLoader(X[:N], y[:N], BS, transform=T())
    vl = DataLoader(X[N:], y[N:], BS, transform=T())
    bn = nn.BatchNorm1d(8)
    model = nn.Sequential(nn.Linear(F, 8), bn, nn.ReLU(), nn.Dropout(0.25), nn.Linear(8, K))
    opt = optim.SGD(model.parameters(), lr=0.05)
    epochs = 3
    problems = []
    counts = {"step": 0, "step_changed": 0}

    def snap():
        ps = [p.data.tobytes() for p in model.parameters()]
        st = [bn.running_mean.data.tobytes(), bn.running_var.data.tobytes(), bn.num_batches_tracked]
        return ps, st
    real_step = opt.step

    def step():
        if not model.training or not all(m.training for m in model.submodules()):
            problems.append("optimizer.step() with the model (or a submodule) in eval mode")
        if not impl.grad_mode():
            problems.append("optimizer.step() with gradients disabled")
        before = snap()[0]
        real_step()
        counts["step"] += 1
        if snap()[0] != before:
            counts["step_changed"] += 1
    opt.step = step
    marks = {}

    class Kbar:
        def __init__(self, *a, **k):
            pass

        def update(self, i, values=None):
            pass

        def add(self, n, values=None):       # called right after validation
            if "before_val" in marks:
                if snap() != marks.pop("before_val"):
                    problems.append("validation changed a parameter or a BatchNorm running statistic")
                if model.training or bn.training:
                    problems.append("model left validation in training mode")
    old_pk = tm.pkbar
    tm.pkbar = types.SimpleNamespace(Kbar=Kbar)
    g_before = impl.grad_mode()
    try:
        trainer = tm.Trainer(model, sg)
        trainer.compile(nn.CrossEntropyLoss(), opt, tm.Evaluator(mode=tm.Evaluator.MULTI_CLASS))
        hist = trainer.fit(tl, epochs, validation_loader=vl,
                           on_validation_epoch=lambda m, l: marks.__setitem__("before_val", snap()))
        if impl.grad_mode() != g_before:
            problems.append("grad mode after fit differs from the mode before")
        if counts["step"] != epochs * len(tl):
            problems.append("%d parameter updates, expected epochs*len(train_loader) = %d" % (counts["step"], epochs * len(tl)))
        if counts["step_changed"] != counts["step"]:
            problems.append("only %d of %d optimizer steps changed a parameter" % (counts["step_changed"], counts["step"]))
        if bn.num_batches_tracked != epochs * len(tl):
            problems.append("BatchNorm saw %d training forwards, expected %d" % (bn.num_batches_tracked, epochs * len(tl)))
        for k in ("loss", "accuracy", "val_loss", "val_accuracy"):
            if len(hist.get(k, [])) != epochs:
                problems.append("history[%r] has %d entries" % (k, len(hist.get(k, []))))
        if list(hist.keys()) != ["loss", "accuracy", "val_loss", "val_accuracy"]:
            problems.append("history keys %s" % list(hist.keys()))
        # test(): eval mode, no_grad, nothing changes, mode restored
        model.train()
        before = snap()
        import io, contextlib
        with contextlib.redirect_stdout(io.StringIO()):
            y_pred, y_true = trainer.test(vl)
        if snap() != before:
            problems.append("test() changed a parameter or a running statistic")
        if impl.grad_mode() != g_before:
            problems.append("grad mode after test() differs from the mode before")
        if y_pred.shape != (len(vl) * BS, K) or list(y_true) != list(y[N:N + len(vl) * BS]):
            problems.append("test() returned predictions of shape %s" % (y_pred.shape,))
    except Exception as ex:
        problems.append("end-to-end run raised %r" % ex)
    finally:
        tm.pkbar = old_pk
        impl.reset_modes()
    info = {"parameter_updates": counts["step"], "epochs": epochs, "batches": len(tl), "val_batches": len(vl)}
    return problems, info


# ------------------------------------------------------------------ real-model scenarios: inconsistent module trees, re-entrant test()
def all_modules(m):
    out = [m]
    for c in m.submodules():
        out += all_modules(c)
    return out


def scenario_specs():
    specs = []
    for entry in ("fit", "test"):
        for root in ("train", "eval"):
            for child in (None, "train", "eval"):
                for attach in (False, True):
                    specs.append({"entry": entry, "root": root, "child": child, "attach_after_root_call": attach, "reentrant": None})
    for where in ("epoch_callback", "step_callback", "on_validation_epoch", "on_train_epoch"):
        specs.append({"entry": "fit", "root": "train", "child": None, "attach_after_root_call": False, "reentrant": where})
    return specs


def run_scenario(spec, seed):
    """Real Sequential(Linear, BatchNorm1d, ReLU, Dropout, Linear), SGD, DataLoader, CrossEntropyLoss, Evaluator.
    spec: module flags when fit()/test() is entered (root.train()/eval(), then an individual switch of the BatchNorm and
    Dropout children, then optionally a fresh Dropout attached: new modules start in training mode) and/or a callback that
    calls trainer.test() re-entrantly.  Returns (problems, info): every clause judged directly on the real objects."""
    import io, contextlib
    impl = _impl()
    np, sg, nn, optim = impl.np, impl.synapgrad, impl.nn, impl.optim
    tm = train_mod()
    from synapgrad.nn.utils.data import DataLoader, DataLoaderCallback
    impl.reset_modes()
    rs = np.random.RandomState(seed)
    np.random.seed(seed)
    N, NV, F, K, BS = 24, 8, 4, 3, 4
    X = rs.randn(N + NV + 8, F).astype(np.float32)
    y = rs.randint(0, K, size=N + NV + 8)

    class T(DataLoaderCallback):
        def __call__(self, dl, xb, yb):
            return sg.Tensor(xb), sg.Tensor(yb)
    tl = DataLoader(X[:N], y[:N], BS, transform=T())
    vl = DataLoader(X[N:N + NV], y[N:N + NV], BS, transform=T())
    hl = DataLoader(X[N + NV:], y[N + NV:], BS, transform=T())          # hold-out loader for test()
    bn, drop = nn.BatchNorm1d(8), nn.Dropout(0.25)
    model = nn.Sequential(nn.Linear(F, 8), bn, nn.ReLU(), drop, nn.Linear(8, K))
    # ---- module flags at entry
    model.train() if spec["root"] == "train" else model.eval()
    if spec["child"] is not None:
        for m in (bn, drop):
            m.train() if spec["child"] == "train" else m.eval()
    if spec["attach_after_root_call"]:
        model.register_module("5", nn.Dropout(0.25))                      # a fresh module starts in training mode
    opt = optim.SGD(model.parameters(), lr=0.05)
    epochs = 2
    problems = []
    state = {"phase": "entry", "steps": 0, "changed": 0, "forwards": 0, "reentrant_calls": 0}
    marks = {}

    def note(msg):
        if msg not in problems:
            problems.append(msg)

    def snap():
        ps = [p.data.tobytes() for p in model.parameters()]
        st = [bn.running_mean.data.tobytes(), bn.running_var.data.tobytes(), bn.num_batches_tracked]
        return ps, st
    first = model.submodules()[0]
    orig_forward = first.forward

    def hooked(x):                     # runs at every forward of the model: flags of EVERY module, gradient mode
        out = orig_forward(x)
        flags = [bool(m.training) for m in all_modules(model)]
        ph = state["phase"]
        state["forwards"] += 1
        if ph == "train":
            if not all(flags):
                note("training forward with %d of %d modules in eval mode" % (flags.count(False), len(flags)))
            if not impl.grad_mode() or not out.requires_grad:
                note("training forward with gradient tracking disabled (grad mode %s, output requires_grad %s)" % (impl.grad_mode(), out.requires_grad))
        elif ph in ("val", "test"):
            if any(flags):
                note("%s forward with %d of %d modules in training mode" % ({"val": "validation", "test": "test"}[ph], flags.count(True), len(flags)))
            if impl.grad_mode() or out.requires_grad:
                note("%s forward with gradient tracking enabled" % {"val": "validation", "test": "test"}[ph])
        return out
    first.forward = hooked
    real_step = opt.step

    def step():
        before = snap()[0]
        real_step()
        state["steps"] += 1
        if snap()[0] != before:
            state["changed"] += 1
    opt.step = step

    def call_test(loader):
        prev = state["phase"]
        state["phase"] = "test"
        before = snap()
        g = impl.grad_mode()
        try:
            with contextlib.redirect_stdout(io.StringIO()):
                r = trainer.test(loader)
        finally:
            state["phase"] = prev
        if snap() != before:
            note("test() changed a parameter or a BatchNorm running statistic")
        if impl.grad_mode() != g:
            note("gradient mode after test() is %s, before it was %s" % (impl.grad_mode(), g))
        return r

    def reentrant(where):
        if spec["reentrant"] == where:
            state["reentrant_calls"] += 1
            scores, labels = call_test(hl)
            return np.float64((np.argmax(scores, axis=1) == labels).mean())
        return None

    class Kbar:
        def __init__(self, *a, **k):
            state["phase"] = "train"

        def update(self, i, values=None):
            pass

        def add(self, n, values=None):        # right after the validation of the epoch
            if "before_val" in marks and snap() != marks.pop("before_val"):
                note("validation changed a parameter or a BatchNorm running statistic")

    def epoch_cb(yt, yp):
        v = reentrant("epoch_callback")
        return [("holdout", v)] if v is not None else []

    def step_cb(yt, yp):
        if not model.training:                # only from the validation phase: test() leaves the model in eval mode
            reentrant("step_callback")
        return []

    def on_val(m, l):
        reentrant("on_validation_epoch")
        state["phase"] = "val"
        marks["before_val"] = snap()

    def on_train(m, l):
        reentrant("on_train_epoch")
    old_pk = tm.pkbar
    tm.pkbar = types.SimpleNamespace(Kbar=Kbar)
    g_before = impl.grad_mode()
    try:
        trainer = tm.Trainer(model, sg)
        trainer.compile(nn.CrossEntropyLoss(), opt, tm.Evaluator(epoch_callback=epoch_cb, step_callback=step_cb, mode=tm.Evaluator.MULTI_CLASS))
        if spec["entry"] == "test":
            p1, t1 = call_test(hl)
            p2, t2 = call_test(hl)
            if not np.array_equal(p1, p2):
                note("two consecutive test() calls give different predictions (max difference %g)" % float(np.abs(p1 - p2).max()))
            if p1.shape != (len(hl) * BS, K) or list(t1) != list(y[N + NV:N + NV + len(hl) * BS]):
                note("test() returned predictions of shape %s" % (p1.shape,))
        else:
            hist = trainer.fit(tl, epochs, validation_loader=vl, on_train_epoch=on_train, on_validation_epoch=on_val)
            if impl.grad_mode() != g_before:
                note("gradient mode after fit is %s, before it was %s" % (impl.grad_mode(), g_before))
            if state["steps"] != epochs * len(tl):
                note("%d parameter updates, expected epochs*len(train_loader) = %d" % (state["steps"], epochs * len(tl)))
            if state["changed"] != state["steps"]:
                note("only %d of %d optimizer steps changed a parameter" % (state["changed"], state["steps"]))
            if bn.num_batches_tracked != epochs * len(tl):
                note("BatchNorm saw %d training-mode forwards, expected %d" % (bn.num_batches_tracked, epochs * len(tl)))
            want = ["loss", "accuracy"] + (["holdout"] if spec["reentrant"] == "epoch_callback" else [])
            want = want + ["val_loss"] + ["val_" + k for k in want[1:]]
            if list(hist.keys()) != want:
                note("history keys %s, expected %s" % (list(hist.keys()), want))
            for k in hist:
                if len(hist[k]) != epochs:
                    note("history[%r] has %d entries for %d epochs" % (k, len(hist[k]), epochs))
            if spec["reentrant"] and state["reentrant_calls"] == 0:
                note("the re-entrant callback never ran")
            # and afterwards test() still behaves
            p1, _ = call_test(hl)
            p2, _ = call_test(hl)
            if not np.array_equal(p1, p2):
                note("two consecutive test() calls after fit give different predictions")
    except Exception as ex:
        note("run raised %s: %s" % (type(ex).__name__, str(ex)[:120]))
        if impl.grad_mode() != g_before:
            note("gradient mode left at %s (before: %s)" % (impl.grad_mode(), g_before))
    finally:
        tm.pkbar = old_pk
        impl.reset_modes()
    info = {"parameter_updates": state["steps"], "forwards": state["forwards"], "epochs": epochs, "batches": len(tl),
            "val_batches": len(vl), "modules": len(all_modules(model)), "reentrant_test_calls": state["reentrant_calls"]}
    return problems, info


# ------------------------------------------------------------------ real-model scenarios, part 2: used loaders, interrupted runs, exceptions
def scenario2_specs():
    specs = []
    for which in ("train", "val", "test", "train+val+test"):
        for how in ("peek", "break"):
            specs.append({"kind": "loader-partially-iterated-before", "which": which, "how": how})
    specs.append({"kind": "fit-after-interrupted-fit", "where": "train_forward"})
    specs.append({"kind": "fit-after-interrupted-fit", "where": "val_forward"})
    for where in ("val_forward", "val_loss", "val_evaluator", "val_epoch_callback", "test_forward"):
        for retain in (False, True):
            specs.append({"kind": "exception-caught-by-caller", "where": where, "retain_grads_active": retain,
                          "exception": "KeyboardInterrupt" if (where == "val_evaluator" and retain) else "RuntimeError"})
    return specs


def run_scenario2(spec, seed):
    """Real Sequential(Linear, BatchNorm1d, ReLU, Dropout, Linear) / SGD / DataLoader / CrossEntropyLoss / Evaluator.
    First the disturbance described by spec (loader objects partially iterated, a fit interrupted by an exception, an
    exception inside validation / test caught by the caller), then a complete fit(2 epochs, validation) and a test(),
    judged directly: every epoch sees exactly the batches 0..len-1 of its loader in order, epochs*len updates, training
    forwards with gradients on, global grad / retain modes as before."""
    import io, contextlib
    impl = _impl()
    np, sg, nn, optim = impl.np, impl.synapgrad, impl.nn, impl.optim
    tm = train_mod()
    from synapgrad.nn.utils.data import DataLoader, DataLoaderCallback
    impl.reset_modes()
    rs = np.random.RandomState(seed)
    np.random.seed(seed)
    N, NV, NH, F, K, BS = 24, 12, 12, 4, 3, 4
    X = rs.randn(N + NV + NH, F).astype(np.float32)
    y = rs.randint(0, K, size=N + NV + NH)

    class T(DataLoaderCallback):
        def __call__(self, dl, xb, yb):
            return sg.Tensor(xb), sg.Tensor(yb)
    loaders = {"train": DataLoader(X[:N], y[:N], BS, transform=T()),
               "val": DataLoader(X[N:N + NV], y[N:N + NV], BS, transform=T()),
               "test": DataLoader(X[N + NV:], y[N + NV:], BS, transform=T())}
    offs = {"train": 0, "val": N, "test": N + NV}
    nbs = {k: len(l) for k, l in loaders.items()}
    expect = {k: [X[offs[k] + i * BS: offs[k] + (i + 1) * BS].tobytes() for i in range(nbs[k])] for k in loaders}
    bn = nn.BatchNorm1d(8)
    model = nn.Sequential(nn.Linear(F, 8), bn, nn.ReLU(), nn.Dropout(0.25), nn.Linear(8, K))
    opt = optim.SGD(model.parameters(), lr=0.05)
    problems = []
    st = {"phase": "entry", "steps": 0, "seen": [], "armed": None, "count": {}}

    class Boom(RuntimeError):
        pass
    exc_type = KeyboardInterrupt if spec.get("exception") == "KeyboardInterrupt" else Boom

    def note(msg):
        if msg not in problems:
            problems.append(msg)

    def maybe_raise(point):
        if st["armed"] and st["armed"][0] == point:
            st["count"][point] = st["count"].get(point, 0) + 1
            if st["count"][point] == st["armed"][1]:
                st["armed"] = None
                raise exc_type("injected at %s" % point)
    first = model.submodules()[0]
    orig_forward = first.forward

    def hooked(x):
        ph = st["phase"]
        st["seen"].append((ph, np.asarray(x.data).tobytes()))
        maybe_raise({"train": "train_forward", "val": "val_forward", "test": "test_forward"}.get(ph, ph))
        out = orig_forward(x)
        if ph == "train" and (not impl.grad_mode() or not out.requires_grad):
            note("training forward with gradient tracking disabled (grad mode %s, output requires_grad %s)" % (impl.grad_mode(), out.requires_grad))
        if ph in ("val", "test") and (impl.grad_mode() or model.training):
            note("%s forward with grad mode %s, model.training %s" % (ph, impl.grad_mode(), model.training))
        return out
    first.forward = hooked
    real_step = opt.step

    def step():
        real_step(); st["steps"] += 1
    opt.step = step
    ce = nn.CrossEntropyLoss()

    def loss_fn(o, l):
        if st["phase"] == "val":
            maybe_raise("val_loss")
        return ce(o, l)

    def step_cb(yt, yp):
        if st["phase"] == "val":
            maybe_raise("val_evaluator")
        return []

    def epoch_cb(yt, yp):
        if st["phase"] == "val":
            maybe_raise("val_epoch_callback")
        return []

    class Kbar:
        def __init__(self, *a, **k):
            st["phase"] = "train"

        def update(self, i, values=None):
            pass

        def add(self, n, values=None):
            pass

    def on_val(m, l):
        st["phase"] = "val"

    def do_test():
        st["phase"] = "test"
        with contextlib.redirect_stdout(io.StringIO()):
            return trainer.test(loaders["test"])

    def do_fit(epochs):
        return trainer.fit(loaders["train"], epochs, validation_loader=loaders["val"], on_validation_epoch=on_val)
    old_pk = tm.pkbar
    tm.pkbar = types.SimpleNamespace(Kbar=Kbar)
    outer = contextlib.ExitStack()
    try:
        if spec.get("retain_grads_active"):
            outer.enter_context(sg.retain_grads())
        modes_before = (impl.grad_mode(), impl.retain_mode())
        trainer = tm.Trainer(model, sg)
        trainer.compile(loss_fn, opt, tm.Evaluator(epoch_callback=epoch_cb, step_callback=step_cb, mode=tm.Evaluator.MULTI_CLASS))
        # ---- the disturbance
        if spec["kind"] == "loader-partially-iterated-before":
            for name in spec["which"].split("+"):
                if spec["how"] == "peek":
                    next(iter(loaders[name]))
                else:
                    for i, _ in enumerate(loaders[name]):
                        if i == 1:
                            break
        else:
            where = spec["where"]
            st["armed"] = (where, 2 if where.endswith("forward") or where in ("val_loss", "val_evaluator") else 1)
            try:
                if where == "test_forward":
                    do_test()
                else:
                    do_fit(1)
                note("the injected exception did not propagate to the caller")
            except (Boom, KeyboardInterrupt):
                pass
            if (impl.grad_mode(), impl.retain_mode()) != modes_before:
                note("after the exception raised at %s was caught by the caller the global (grad, retain) modes are %s, before they were %s" % (
                    where, (impl.grad_mode(), impl.retain_mode()), modes_before))
        # ---- then a complete run
        st["seen"], st["steps"], st["armed"] = [], 0, None
        epochs = 2
        hist = do_fit(epochs)
        pred, true = do_test()
        seq = st["seen"]
        want = []
        for e in range(epochs):
            want += [("train", b) for b in expect["train"]] + [("val", b) for b in expect["val"]]
        want += [("test", b) for b in expect["test"]]
        if seq != want:
            got = [p for p, _ in seq]
            per = {ph: sum(1 for p in got if p == ph) for ph in ("train", "val", "test")}
            if len(seq) != len(want):
                note("the run after the disturbance made %d training / %d validation / %d test forwards, expected %d / %d / %d" % (
                    per["train"], per["val"], per["test"], epochs * nbs["train"], epochs * nbs["val"], nbs["test"]))
            else:
                i = next(i for i, (a, b) in enumerate(zip(seq, want)) if a != b)
                note("forward #%d of the run (phase %s) did not receive batch #%d of its loader" % (i, seq[i][0], i % (nbs["train"] + nbs["val"])))
        if st["steps"] != epochs * nbs["train"]:
            note("%d parameter updates, expected epochs*len(train_loader) = %d" % (st["steps"], epochs * nbs["train"]))
        for k in ("loss", "accuracy", "val_loss", "val_accuracy"):
            if len(hist.get(k, [])) != epochs:
                note("history[%r] has %d entries for %d epochs" % (k, len(hist.get(k, [])), epochs))
        if pred.shape != (nbs["test"] * BS, K) or list(true) != list(y[N + NV:N + NV + nbs["test"] * BS]):
            note("test() returned %d predictions / wrong labels for a loader of %d samples" % (len(pred), nbs["test"] * BS))
        if (impl.grad_mode(), impl.retain_mode()) != modes_before:
            note("global (grad, retain) modes after the run are %s, before %s" % ((impl.grad_mode(), impl.retain_mode()), modes_before))
    except BaseException as ex:
        note("run raised %s: %s" % (type(ex).__name__, str(ex)[:120]))
    finally:
        outer.close()
        tm.pkbar = old_pk
        impl.reset_modes()
    return problems, {"batches": nbs, "forwards": len(st["seen"]), "parameter_updates": st["steps"]}


# ------------------------------------------------------------------ the check
def gen_cases(ctx):
    rng = ctx.rng
    cases = []
    evs = [None] + MODES
    vals = [None, 1, 2, 3]
    cbs = [(False, False), (True, True), (True, False), (False, True)]
    for epochs, nb, nbv, mode in itertools.product(range(4), range(1, 5), vals, evs):
        combos = cbs if not ctx.quick else [cbs[rng.randrange(4)]]
        for (ct, cv) in combos:
            acc_on = rng.random() < 0.8
            ecb = rng.random() < 0.5
            if mode is not None and not acc_on and not ecb:
                acc_on = True
            t0 = rng.random() < 0.5
            g0 = rng.random() < 0.85
            cases.append(Case(epochs, nb, nbv, mode, acc_on, ecb, ct, cv, t0, g0, rng))
    return cases


def gen_malformed(ctx):
    rng = ctx.rng
    out = []
    for epochs in (1, 2):
        for mode in (None, "multi-class"):
            for ct in (False, True):
                out.append(Case(epochs, 0, None, mode, True, False, ct, False, True, True, rng))       # empty train loader
                out.append(Case(epochs, 0, 2, mode, True, False, ct, True, False, True, rng))
                out.append(Case(epochs, 2, 0, mode, True, False, ct, ct, True, True, rng))             # empty validation loader
    out.append(Case(0, 0, 0, None, True, False, False, False, True, True, rng))                        # epochs = 0: nothing runs
    return out


def run(ctx):
    ok_build, fails = ctx.build_props(extra_targets=["State/Trainer.vo"])

    cases = gen_cases(ctx)
    results = [run_case_impl(c) for c in cases]
    ctx.sample({"case": cases[len(cases) // 2].descr(),
                "trace": [ev_coq(e) for e, _, _ in results[len(cases) // 2]["trace"]],
                "history": [(k, [str(v) for v in vs]) for k, vs in (results[len(cases) // 2]["history"] or [])]})
    bad, errs = compare_in_coq(ctx, "fit", list(zip(cases, results)))
    mism = list(errs)
    for i in bad:
        mism.append({"case": cases[i].descr(), "implementation_trace": [ev_coq(e) for e, _, _ in results[i]["trace"]],
                     "implementation_modes": [(t, g) for _, t, g in results[i]["trace"]],
                     "raised": results[i]["raised"], "history": [(k, [str(v) for v in vs]) for k, vs in (results[i]["history"] or [])]})
    nontrivial = sum(1 for c in cases if c.epochs >= 1)
    ctx.tie("trainer/fit trace+modes+history", "correspondence", len(cases), nontrivial, mism, exhaustive=not ctx.quick,
            note="epochs 0..3 x nb 1..4 x validation {none,1,2,3} x evaluator {none, binary, multi-class, categorical}"
                 + (" x 4 callback combinations" if not ctx.quick else " (callback combination, accuracy flag, epoch_callback, initial modes pseudo-random)")
                 + "; recorded: every event with (model.training, grad mode), outcome, final modes, history keys/values exactly"
                   " (dyadic losses with sum divisible by nb; batch sizes >= 2 with a power-of-two total so accuracies are exact)")

    mal = gen_malformed(ctx)
    mres = [run_case_impl(c) for c in mal]
    bad2, errs2 = compare_in_coq(ctx, "malformed", list(zip(mal, mres)))
    mism2 = list(errs2)
    for i in bad2:
        mism2.append({"case": mal[i].descr(), "implementation_trace": [ev_coq(e) for e, _, _ in mres[i]["trace"]], "raised": mres[i]["raised"]})
    # the expected outcome of the malformed stream is "raises UnboundLocalError" whenever an epoch runs
    for c, r in zip(mal, mres):
        if c.epochs >= 1 and r["raised"] != "UnboundLocalError":
            mism2.append({"case": c.descr(), "expected": "UnboundLocalError", "raised": r["raised"]})
    ctx.tie("trainer/empty loaders raise", "correspondence", len(mal), sum(1 for c in mal if c.epochs >= 1), mism2, exhaustive=True,
            note="empty train / validation loaders: fit raises UnboundLocalError on `i`; trace prefix and modes left behind compared with the model")

    # ---- exceptions: an event of the run raises, the caller catches ---------------------------------
    RAISABLE = {"Forward", "Criterion", "ZeroGrad", "Backward", "Step", "OnTrainEpochCb", "OnValEpochCb", "EvalStep", "EvalCompute", "KbarUpdate", "KbarAdd"}
    rpairs = []
    cand = [i for i, c in enumerate(cases) if c.epochs >= 1 and results[i]["raised"] is None]
    for i in ctx.rng.sample(cand, min(len(cand), 80 if ctx.quick else 400)):
        tr = results[i]["trace"]
        idx = [k for k, (e, _, _) in enumerate(tr) if (e[0] if isinstance(e, tuple) else e) in RAISABLE]
        inside = [k for k in idx if not tr[k][2] and cases[i].g0]          # events inside the no_grad block
        k = ctx.rng.choice(inside) if (inside and ctx.rng.random() < 0.6) else ctx.rng.choice(idx)
        c2 = Case.from_descr(cases[i].descr())
        c2.raise_at = k
        rpairs.append((c2, run_case_impl(c2), k))
    files = []
    CH = 100
    for j in range(0, len(rpairs), CH):
        rows = []
        for c2, r2, k in rpairs[j:j + CH]:
            cc, oo = case_coq_parts(c2, r2)
            rows.append("((%s, %d%%nat),\n  %s)" % (cc, k, oo))
        files.append(("raise_%d" % (j // CH), HEADER + "Definition cases : list ((case * nat) * (list (ev * (bool * bool)) * bool * (bool * bool) * hist)) := [\n %s].\nEval vm_compute in (mismatches model_out_raise out_eqb cases).\n" % ";\n ".join(rows)))
    rres = ctx.coq_eval_many(files)
    mism5 = []
    for (name, _), j in zip(files, range(0, len(rpairs), CH)):
        ok, out = rres[name]
        lists = parse_natlist(out)
        if not ok or len(lists) != 1:
            mism5.append({"file": name, "error": out[-600:]}); continue
        for i in lists[0]:
            c2, r2, k = rpairs[j + i]
            mism5.append({"case": c2.descr(), "raise_at_event": k, "implementation_trace": [ev_coq(e) for e, _, _ in r2["trace"]],
                          "modes": [(t, g) for _, t, g in r2["trace"]], "final": r2["final"], "raised": r2["raised"]})
    ctx.tie("trainer/an event raises, caller catches", "correspondence", len(rpairs), sum(1 for c2, r2, k in rpairs if any(e == "NoGradExit" for e, _, _ in r2["trace"][k:])), mism5,
            note="the mock that logs event k raises (forward, criterion, evaluator, optimizer, callbacks, progress bar); trace, modes and the modes left "
                 "behind compared with `unwind` (prefix + __exit__ of the open no_grad block); non-trivial = raised inside the validation block")
    for c2, r2, k in rpairs:          # direct judgement: the global gradient mode after the caught exception is the mode before
        if r2["final"][1] != c2.g0 and not any(w["class"] == "exception-in-run" for w in ctx.witnesses):
            ctx.witness("nn.utils.train.Trainer.fit", "exception-in-run", {"case": c2.descr(), "raise_at_event": k},
                        "an exception raised inside fit and caught by the caller leaves the global gradient mode as it was",
                        {"verdict": "grad mode after the caught exception is %s, before it was %s" % (r2["final"][1], c2.g0),
                         "trace": [ev_coq(e) for e, _, _ in r2["trace"]]})

    # ---- Trainer.test --------------------------------------------------------------------------
    tcases = [(nbt, t0, g0) for nbt in range(0, 4) for t0 in (False, True) for g0 in (False, True)]
    tres = [run_test_impl(*tc) for tc in tcases]
    rows = []
    for (nbt, t0, g0), (log, raised, final, npred) in zip(tcases, tres):
        obs = clist(["(%s, (%s, %s))" % (ev_coq(e), cb(t), cb(g)) for e, t, g in log])
        rows.append("((%d%%nat, %s, %s), (%s, (%s, %s)))" % (nbt, cb(t0), cb(g0), obs, cb(final[0]), cb(final[1])))
    txt = HEADER + """
Definition tcases : list ((nat * bool * bool) * (list (ev * (bool * bool)) * (bool * bool))) := [%s].
Definition tmodel (x : nat * bool * bool) :=
  match x with (nbt, t0, g0) =>
    let s0 := {| mtrain := t0; mgrad := g0; msaved := []; mdepth := 0 |} in
    (annot s0 (test_trace nbt), (mtrain (mrun s0 (test_trace nbt)), mgrad (mrun s0 (test_trace nbt)))) end.
Eval vm_compute in (mismatches tmodel (pair_eqb obs_eqb (pair_eqb Bool.eqb Bool.eqb)) tcases).
""" % ";\n ".join(rows)
    ok, out = ctx.coq_eval("test", txt)
    lists = parse_natlist(out)
    mism3 = []
    if not ok or len(lists) != 1:
        mism3.append({"error": out[-600:]})
    else:
        for i in lists[0]:
            mism3.append({"test": tcases[i], "implementation_trace": [ev_coq(e) for e, _, _ in tres[i][0]], "modes": [(t, g) for _, t, g in tres[i][0]]})
    for tc, (log, raised, final, npred) in zip(tcases, tres):
        if raised or npred != (2 * tc[0], 2 * tc[0]):
            mism3.append({"test": tc, "raised": raised, "n_pred": npred})
        # direct judgement: every forward in eval mode with gradients off, grad mode restored
        if (any(e == "Forward" and (t or g) for e, t, g in log) or final[1] != tc[2]) and not any(w["class"] == "test-run" for w in ctx.witnesses):
            ctx.witness("nn.utils.train.Trainer.test", "test-run", {"batches": tc[0], "model.training before": tc[1], "grad mode before": tc[2]},
                        "every forward in eval mode under no_grad; gradient mode restored",
                        {"trace": [ev_coq(e) for e, _, _ in log], "modes": [(t, g) for _, t, g in log], "final": final})
    ctx.tie("trainer/test trace+modes", "correspondence", len(tcases), sum(1 for tc in tcases if tc[0] >= 1), mism3, exhaustive=True,
            note="Trainer.test over loaders of 0..3 batches x model.training before x gradient mode before")

    # ---- Evaluator.step on a batch of one sample (malformed stream: expected outcome "raises") ----
    impl = _impl()
    np_, sg_ = impl.np, impl.synapgrad
    tm_ = train_mod()
    prows, pobs = [], []
    for mode in MODES:
        for size in (1, 2, 3):
            c = Case(1, 1, None, mode, True, False, False, False, True, True, ctx.rng)
            b = c.batch(ctx.rng, size)
            ev_ = tm_.Evaluator(mode=mode)
            outs = sg_.Tensor(np_.array([[float(v) for v in r] for r in b["outs"]]))
            if mode == "binary":
                outs = outs.squeeze(dim=1)
            labs = sg_.Tensor(np_.array([[float(v) for v in r] for r in b["labrows"]]) if mode == "categorical" else np_.array([float(v) for v in b["labz"]]))
            try:
                ev_.step(labs, outs)
                raised = None
            except Exception as ex:
                raised = type(ex).__name__
            pobs.append({"mode": mode, "batch_size": size, "raised": raised})
            prows.append("(%s, %s)" % (batch_coq(b), cb(raised is None)))
    txt = HEADER + "Definition pcases : list (ebatch * bool) := [%s].\nEval vm_compute in (mismatches eval_step_defined Bool.eqb pcases).\n" % "; ".join(prows)
    ok, out = ctx.coq_eval("batch_of_one", txt)
    lists = parse_natlist(out)
    mism4 = [{"error": out[-400:]}] if (not ok or len(lists) != 1) else [pobs[i] for i in lists[0]]
    ctx.tie("evaluator/step on a batch of one raises", "correspondence", len(pobs), 3, mism4, exhaustive=True,
            note="Evaluator.step raises exactly for batches of one sample (squeeze() drops the batch axis): " + json.dumps([o for o in pobs if o["raised"]]))
    ctx.notes.append("Evaluator.step raises for a batch of ONE sample in every mode (%s); all theorems about metrics assume batches of >= 2 samples "
                     "when an evaluator is used (State/Trainer.v: eval_step_defined)" % ", ".join(sorted({o["raised"] for o in pobs if o["raised"]})))

    # ---- oracle (independent of Coq) ------------------------------------------------------
    verdicts = [(c, r, judge(c, r)) for c, r in zip(cases, results)]
    failing = [(c, r, v) for c, r, v in verdicts if v]
    ctx.extra["oracle_runs_judged"] = len(verdicts)
    if failing:
        c, r, v = min(failing, key=lambda t: (t[0].epochs, t[0].nb, t[0].nbv or 0, len(t[1]["trace"])))
        ctx.witness("nn.utils.train.Trainer.fit", "fit-run", {"case": c.descr()},
                    "one optimizer step per batch after zero_grad/backward in training mode; validation in eval mode under "
                    "no_grad; grad mode restored; one history entry per epoch and metric; loss = mean of batch losses; "
                    "accuracy = fraction of correct predictions",
                    {"verdict": v, "trace": [ev_coq(e) for e, _, _ in r["trace"]], "modes": [(t, g) for _, t, g in r["trace"]],
                     "history": [(k, [str(x) for x in vs]) for k, vs in (r["history"] or [])]},
                    note="%d of %d runs fail the direct judgement" % (len(failing), len(verdicts)))

    problems, info = end_to_end(ctx, ctx.seed % 100000)
    ctx.extra["end_to_end"] = dict(info, problems=problems)
    ctx.sample({"end_to_end": info})

    # real-model scenarios: module flags inconsistent with the root at entry; callbacks calling trainer.test() re-entrantly
    sres = [(sp, ) + run_scenario(sp, ctx.seed % 100000) for sp in scenario_specs()]
    sres += [(sp, ) + run_scenario2(sp, ctx.seed % 100000) for sp in scenario2_specs()]
    ctx.extra["real_model_scenarios"] = {"run": len(sres), "failing": [dict(sp, problems=pr) for sp, pr, _ in sres if pr]}
    ctx.sample({"scenario": sres[-4][0], "info": sres[-4][2]})
    sfail = [(sp, pr, inf) for sp, pr, inf in sres if pr]
    if sfail:
        sp, pr, inf = min(sfail, key=lambda t: ("kind" not in t[0] and t[0].get("reentrant") is None and t[0].get("entry") == "fit", len(t[1])))
        ctx.witness("nn.utils.train.Trainer.fit/test", "real-model-scenario", {"scenario": sp, "seed": ctx.seed % 100000},
                    "every module below the model is in training mode during training forwards and in eval mode (gradients off) during "
                    "validation/test forwards, whatever the flags were at entry; validation/test change no parameter or running statistic; "
                    "repeated test() agree; gradient mode restored and later epochs still train, also when test() is called re-entrantly from a callback",
                    {"problems": pr, "info": inf}, note="%d of %d scenarios fail: %s" % (len(sfail), len(sres), [t[0] for t in sfail][:6]))
    if problems:
        ctx.witness("nn.utils.train.Trainer.fit", "end-to-end", {"run": "Sequential(Linear(4,8), BatchNorm1d(8), ReLU, Dropout(0.25), Linear(8,3)), SGD(lr=0.05), DataLoader(batch 4), 3 epochs, seed %d" % (ctx.seed % 100000)},
                    "epochs*len(loader) parameter updates in training mode; validation/test change nothing; grad mode restored",
                    {"problems": problems, "info": info})


FINISH = dict(rule="the configuration grid is enumerated completely (thorough: including the four callback combinations); non-trivial = at least one epoch runs")


def replay(ctx, data):
    if data.get("kind") != "failing-input":
        print(json.dumps(data.get("broken"), indent=1)); return 1
    if data["class"] == "real-model-scenario":
        sp = data["input"]["scenario"]
        problems, info = (run_scenario2 if "kind" in sp else run_scenario)(sp, data["input"]["seed"])
        print("problems:", problems)
        return 1 if problems else 0
    if data["class"] == "end-to-end":
        problems, info = end_to_end(ctx, ctx.seed % 100000)
        print("problems:", problems)
        return 1 if problems else 0
    if data["class"] == "exception-in-run":
        c = Case.from_descr(data["input"]["case"])
        c.raise_at = data["input"]["raise_at_event"]
        r = run_case_impl(c)
        print("final modes:", r["final"], "grad mode before:", c.g0)
        return 1 if r["final"][1] != c.g0 else 0
    if data["class"] == "test-run":
        i = data["input"]
        log, raised, final, npred = run_test_impl(i["batches"], i["model.training before"], i["grad mode before"])
        bad = raised or any(e == "Forward" and (t or g) for e, t, g in log) or final[1] != i["grad mode before"]
        print("trace:", log, "final:", final); return 1 if bad else 0
    c = Case.from_descr(data["input"]["case"])
    r = run_case_impl(c)
    v = judge(c, r)
    print("verdict:", v)
    return 1 if v else 0
