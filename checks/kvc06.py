"""Driver used by work package F2 to exercise checks/kernels_vector.py on its own (./check KVC06);
the property checks c02/c09/c14 call kernels_vector.run_part themselves."""
from checks import kernels_vector


def run(ctx):
    kernels_vector.run_part(ctx, "Props/C06_vector.v")


def replay(ctx, data):
    return kernels_vector.replay_part(ctx, data)
