"""C04 — leaf gradients accumulate exactly across any history of backward calls.

Obligations : coq/Props/C04.v (every history: leaf buffer = per-tensor spec; explicit sum since the last reset; absent vs zero;
              unreachable unchanged; stale non-leaf buffers never leak; backward never fails)
Ties        : K  random histories (builds over shared Parameters, backward from any node, repeated backward, retain_grad,
                 `with retain_grads()`, Tensor.zero_ / Module.zero_grad / Optimizer.zero_grad - half of them through real module TREES whose
                 registrations change during the history, inspected at random points, optimizers built early or late) vs
                 Engine/History.v: every tensor's `_grad` after every event and every closure-call sequence - exactly
              K  the recorded arena vs the wrapper contract
Oracle      : for every leaf after every event: sum over the backward calls since its last reset of the exact forward-mode
              (Fraction) gradient of that call's root; None while untouched.
"""
import json
from lib import engine_k as K

SITE = "tensor.Tensor.backward/history"


def hand_histories():
    L = lambda i, d, req=True, shape=(), param=True: {"k": "leaf", "id": i, "data": d, "shape": list(shape), "req": req, "param": param}
    O = lambda op, args, out, **kw: dict({"k": "op", "op": op, "args": args, "out": out}, **kw)
    B = lambda r, s, **kw: dict({"k": "backward", "root": r, "seed": s}, **kw)
    H = []
    # the three histories that were wrong before fix d4325f2
    H.append([L(0, [2]), O("mulc", [0], [1], p={"c": 3}), O("mulc", [0], [2], p={"c": 5}), B(1, [1]), O("add", [1, 2], [3]), B(3, [1])])
    H.append([L(0, [2]), O("mulc", [0], [1], p={"c": 3}), {"k": "retain", "t": 1}, O("clone", [1], [2]), B(2, [1]),
              O("mulc", [1], [3], p={"c": 2}), B(3, [1])])
    H.append([L(0, [2, 5], shape=(2,)), B(0, [1, 3]), B(0, [1, 3])])
    # micro-batch accumulation, the three reset paths
    H.append([L(0, [2]), L(1, [3], req=False), O("mul", [0, 0], [2]), B(2, [1]), O("mul", [0, 1], [3]), B(3, [1]), B(3, [2]),
              {"k": "zero_mod", "ps": [0, 1]}, B(2, [1]), {"k": "zero_opt", "ps": [0, 1]}, B(3, [1]), {"k": "zero_t", "t": 0}, B(2, [3])])
    # retain_grads context, interior root, then the whole graph
    H.append([L(0, [2]), L(1, [-1]), O("mul", [0, 1], [2]), O("add", [2, 0], [3]), O("mul", [3, 2], [4]),
              B(3, [1], retain_ctx=True), B(4, [1]), B(2, [2]), B(4, [1], retain_ctx=True), B(4, [1])])
    # frozen parameter is skipped by Module.zero_grad but zeroed by Optimizer.zero_grad; retain_grad on it raises
    H.append([L(0, [2]), L(1, [3], req=False), O("mul", [0, 1], [2]), B(2, [1]), {"k": "zero_t", "t": 1}, {"k": "zero_mod", "ps": [0, 1]},
              {"k": "zero_opt", "ps": [1]}, B(2, [1]), {"k": "retain", "t": 1}])
    # calls that fail and are caught (seeded C04-r3m2 / C17-r3m1: marks left on the tensors by an aborted walk):
    # the same graph afterwards, and a new graph reusing its interior nodes; a refused root that does not require grad
    F = lambda r: {"k": "backward_fail", "root": r}
    H.append([L(0, [2]), L(1, [3], req=False), O("mul", [0, 0], [2]), O("mul", [2, 1], [3]), F(3), B(3, [1]), F(3), F(1), B(3, [2]),
              O("add", [2, 0], [4]), F(4), B(4, [1]), {"k": "zero_mod", "ps": [0]}, F(2), B(3, [1])])
    H.append([L(0, [1, 2], shape=(2,)), L(1, [5]), O("sum", [0], [2]), O("mul", [2, 1], [3]), {"k": "retain", "t": 2}, F(3), F(3), B(3, [1]),
              O("mul", [2, 2], [4]), B(4, [1]), F(2), B(2, [3])])
    # module trees whose registrations change after the tree has been looked at (seeded change C04-m2): a Parameter registered
    # late on a nested child must be reset by root.zero_grad() and seen by an optimizer built afterwards from root.parameters()
    M = lambda m: {"k": "mod_new", "m": m}
    H.append([M(0), M(1), {"k": "mod_set", "m": 0, "name": "block", "child": 1}, L(0, [2]), {"k": "mod_setp", "m": 1, "name": "w", "t": 0},
              {"k": "mod_inspect", "m": 0, "how": "num_params"}, L(1, [3]), {"k": "mod_setp", "m": 1, "name": "shift", "t": 1},
              O("mul", [0, 1], [2]), B(2, [1]), {"k": "zero_tree", "m": 0}, B(2, [1])])
    H.append([M(0), M(1), M(2), {"k": "mod_set", "m": 0, "name": "a", "child": 1}, L(0, [2]), {"k": "mod_setp", "m": 0, "name": "w", "t": 0},
              {"k": "mod_inspect", "m": 0}, {"k": "mod_inspect", "m": 1}, L(1, [5]), {"k": "mod_setp", "m": 2, "name": "v", "t": 1},
              {"k": "mod_set", "m": 1, "name": "deep", "child": 2}, {"k": "opt_new", "o": 0, "m": 0},
              O("mul", [0, 1], [2]), B(2, [1]), B(2, [2]), {"k": "zero_optim", "o": 0}, B(2, [1]), {"k": "zero_tree", "m": 0}, B(2, [1]),
              {"k": "mod_unset", "m": 2, "name": "v"}, {"k": "zero_tree", "m": 0}, B(2, [1])])
    return H


def sig(E):
    return repr([(e[0], e[1] if e[0] != "Build" else None) for e in E.events])


def nontrivial(E):
    nb = sum(1 for e, o in zip(E.events, E.obs) if e[0] == "Backward" and isinstance(o, dict))
    return nb >= 2


def run(ctx):
    # wrapper summaries regenerated from the source (accumulate-with-+= contract of every op) and the multi-pass scenarios
    # over every catalogued op (retained / former-root buffers, reused upstream gradients): checks/wrappers.py
    from checks import wrappers as _wrappers
    _wrappers.run_part(ctx)
    rng = ctx.rng
    ctx.build_props(extra_targets=["Engine/History.vo"])
    n = 470 if ctx.quick else 6000
    hs = hand_histories()
    while len(hs) < n:
        hs.append(K.gen_history(rng) if len(hs) % 2 else K.gen_tree_history(rng))
    execs, kept, skipped = [], [], 0
    oracle_fail = []
    for steps in hs:
        E = K.execute(steps)
        if not K.usable(E):
            skipped += 1
            continue
        execs.append(E); kept.append(steps)
        v = K.oracle_judge(E) or K.oracle_call_counts(E)
        if v:
            oracle_fail.append((steps, v))
    ctx.sample({"history": K.describe(kept[0]), "observed": [o for o in execs[0].obs if o is not None]})
    ctx.sample({"history": K.describe(kept[len(kept) // 2]), "observed_last": [o for o in execs[len(kept) // 2].obs if o is not None][-1:]})
    tm, cm, errs = K.run_corr(ctx, execs, "hist", chunk=240)
    distinct = len({sig(E) for E in execs if nontrivial(E)})
    mism = list(errs)
    for i in tm:
        mism.append({"history": K.describe(kept[i]), "steps": kept[i], "implementation": [o for o in execs[i].obs if o is not None]})
    nb = sum(1 for E in execs for e in E.events if e[0] == "Backward")
    ctx.tie("engine/histories: buffers after every event + closure logs", "correspondence", len(execs), distinct, mism,
            note="<=12 user events over <=3 graphs sharing <=3 Parameters; %d backward calls in total; backward from interior nodes and "
                 "former roots, repeated backward, retain_grad, `with retain_grads()`, Tensor.zero_, Module.zero_grad, Optimizer.zero_grad; "
                 "%d discarded by the exactness guard" % (nb, skipped))
    mism = [{"history": K.describe(kept[i]), "steps": kept[i]} for i in cm]
    ctx.tie("engine/arena vs wrapper contract (histories)", "correspondence", len(execs), distinct, mism + list(errs))
    ctx.extra["oracle_histories_judged"] = len(execs)
    if oracle_fail:
        steps, v = min(oracle_fail, key=lambda t: len(t[0]))
        ctx.witness(SITE, "accumulation", {"steps": steps, "history": K.describe(steps)},
                    "each leaf's .grad = sum of the true gradients of the backward calls since its last reset (None while untouched)", v)


FINISH = dict(rule="random histories from a seeded generator (half of them over real module trees whose registrations change) plus 8 hand-written ones (the three that failed before fix d4325f2); "
                   "non-trivial = distinct event sequences with at least two successful backward calls")


def replay(ctx, data):
    if data.get("kind") != "failing-input":
        print(json.dumps(data.get("broken"), indent=1)); return 1
    steps = data["input"]["steps"]
    E = K.execute(steps)
    v = K.oracle_judge(E) or K.oracle_call_counts(E)
    print("\n".join(K.describe(steps)))
    print("oracle verdict:", v)
    return 1 if v else 0
