"""Shared part: wrapper summaries (translator T) — regenerate, prove well-formedness, validate against observed behaviour.

run_part(ctx) is called by the C03, C07 and C17 checks:
  * regenerates coq/Gen/GenWrappers.v from /repo (fail-closed translator lib/py2coq/gen_wrappers.py),
  * builds coq/Props/Wrappers.v (wrappers_wellformed & the node-level consequences),
  * translator self-check = *observed* summaries: runs every catalogued op on instrumented operands for every
    subset of requires_grad flags x gradient mode and compares requires_grad / children / grad_fn / which operands'
    buffers are written and whether they are accumulated (+=) with what the generated summary predicts,
  * every disagreement is judged by the property oracle (the statement of C07/C03 about flags and accumulation)
    and becomes a witness.
"""
import itertools, json, os
from lib import common
from lib.py2coq import main as py2coq


def observe(impl, op, flags, gm, dtype, rng):
    """Run one catalogued op. Returns dict of observations."""
    from lib import opcatalog
    np, sg = impl.np, impl.synapgrad
    impl.reset_modes()
    datas = [opcatalog.make_operand(impl, rng, s, dtype) for s in op.operands]
    ts = []
    k = 0
    for s, d in zip(op.operands, datas):
        f = False
        if s[2]:
            f = flags[k]; k += 1
        ts.append(sg.Tensor(d.copy(), requires_grad=f))
    impl.tensor_mod.gradient__ = gm
    try:
        out = op.call(ts)
    finally:
        impl.reset_modes()
    outs = list(out) if op.multi else [out]
    o0 = outs[0]
    obs = {"req": bool(o0.requires_grad), "has_fn": o0.grad_fn is not None,
           "n_children": len(o0._children),
           "children_are_operands": all(any(c is t for c in o0._children) for t in ts) if len(o0._children) else None,
           "all_outs_same_req": all(bool(o.requires_grad) == bool(o0.requires_grad) for o in outs)}
    if not o0.requires_grad:
        # must refuse backward and never acquire a grad
        try:
            o0.backward(sg.Tensor(np.ones(o0.shape, dtype=dtype)))
            obs["backward_refused"] = False
        except RuntimeError:
            obs["backward_refused"] = True
        obs["grad_none"] = o0._grad is None
        return obs, ts, outs
    # backward once from zero buffers, then a second time on a fresh identical graph with pre-seeded buffers
    g = [sg.Tensor((1 + np.arange(o.data.size, dtype=dtype)).reshape(o.shape)) for o in outs]
    for o, gg in zip(outs, g):
        o.backward(gg)
    first = [None if t._grad is None else t._grad.copy() for t in ts]
    obs["written"] = [fg is not None for fg in first]
    # accumulation: pre-seed the leaf buffers with 7s and run again on a new graph over the same leaves
    for t in ts:
        if t._grad is not None:
            t._grad = np.full_like(t._grad, 7.0)
    out2 = op.call(ts)
    outs2 = list(out2) if op.multi else [out2]
    for o, gg in zip(outs2, g):
        o.backward(gg)
    acc = []
    for t, fg in zip(ts, first):
        if fg is None:
            acc.append(None)
        else:
            acc.append(bool(np.allclose(t._grad, 7.0 + fg, rtol=1e-5, atol=1e-6)))
    obs["accumulates"] = acc
    obs["first_nonzero"] = [None if fg is None else bool(np.any(fg != 0)) for fg in first]
    return obs, ts, outs


def two_pass(impl, op, rng, variant):
    """Two backward passes over graphs sharing the op's result h (variant: plain | retain_grad | retain_grads context |
    same upstream gradient object reused).  Expected leaf gradients = sum of the two single-pass gradients computed on
    fresh graphs.  Returns None or a description of the disagreement."""
    from lib import opcatalog
    import random
    np, sg = impl.np, impl.synapgrad
    impl.reset_modes()
    datas = [opcatalog.make_operand(impl, rng, s, np.float64) for s in op.operands]

    def leaves():
        return [sg.Tensor(d.copy(), requires_grad=bool(s[2])) for s, d in zip(op.operands, datas)]

    def head(ts):
        out = op.call(ts)
        return (list(out) if op.multi else [out])[0]
    ts = leaves()
    h = head(ts)
    if not h.requires_grad:
        return None
    r2 = random.Random(7)
    a = np.array([r2.uniform(0.5, 2.0) for _ in range(h.data.size)]).reshape(h.shape)
    b = np.array([r2.uniform(-2.0, -0.5) for _ in range(h.data.size)]).reshape(h.shape)

    def single(coef):
        t2 = leaves()
        (head(t2) * sg.Tensor(coef.copy())).sum().backward()
        return [None if t._grad is None else t._grad.copy() for t in t2]
    g1, g2 = single(a), single(b)
    if variant == "retain_grad":
        h.retain_grad()
    if variant == "retain_ctx":
        with sg.retain_grads():
            (h * sg.Tensor(a.copy())).sum().backward()
    elif variant == "direct_same_seed":
        seed = sg.Tensor(a.copy())
        h.backward(seed)
        k = h * sg.Tensor(np.ones_like(a))
        k.backward(seed)                     # the caller reuses its gradient tensor
        if not np.array_equal(seed.data, a):
            return "the caller's upstream gradient tensor was modified (%s -> %s)" % (a.ravel()[:3].tolist(), seed.data.ravel()[:3].tolist())
        g2 = g1
    else:
        (h * sg.Tensor(a.copy())).sum().backward()
    if variant != "direct_same_seed":
        (h * sg.Tensor(b.copy())).sum().backward()
    for i, (t, x1, x2) in enumerate(zip(ts, g1, g2)):
        if x1 is None:
            continue
        want = x1 + x2
        if t._grad is None or not np.allclose(t._grad, want, rtol=1e-9, atol=1e-10):
            return "operand %d after two backward passes through a shared %s result: .grad %s, expected the sum of the two passes %s" % (
                i, variant, None if t._grad is None else t._grad.ravel()[:4].tolist(), want.ravel()[:4].tolist())
    impl.reset_modes()
    return None


LAYOUTS = ("fortran", "strided", "negstride", "tview", "offset")


def _relayout(np, d, layout):
    """The same logical array in another memory layout (None: not applicable to this shape)."""
    if d.ndim == 0:
        return None
    if layout == "fortran":
        return np.asfortranarray(d) if d.ndim >= 2 else None
    if layout == "strided":          # every second element of a wider buffer along the last axis
        big = np.full(d.shape[:-1] + (2 * d.shape[-1] + 1,), 7.5, dtype=d.dtype)
        big[..., 1::2] = d
        return big[..., 1::2]
    if layout == "negstride":        # reversed storage along the first axis
        return d[::-1].copy()[::-1]
    if layout == "offset":           # interior crop of a larger buffer: dense last axis, gaps between rows
        big = np.full(tuple(n + 2 for n in d.shape), -3.25, dtype=d.dtype)
        sl = tuple(slice(1, n + 1) for n in d.shape)
        big[sl] = d
        return big[sl]
    return None


def layout_pass(impl, op, rng, layout, dtype=None):
    """The result and every leaf gradient of an operation do not depend on the memory layout of its operands (Fortran order,
    strided / negative-stride / cropped views, a transposed tensor view of a transposed leaf).  Baseline: C-contiguous
    operands.  Returns None or a description of the disagreement."""
    from lib import opcatalog
    import random
    np, sg = impl.np, impl.synapgrad
    dtype = dtype or np.float64
    impl.reset_modes()
    datas = [opcatalog.make_operand(impl, rng, s, dtype) for s in op.operands]

    def head(ts):
        out = op.call(ts)
        return (list(out) if op.multi else [out])

    def run(make):
        leaves, operands = [], []
        for s, d in zip(op.operands, datas):
            lf, opd = make(s, d)
            leaves.append(lf); operands.append(opd)
        outs = head(operands)
        r2 = random.Random(11)
        tot = None
        for o in outs:
            if not o.requires_grad:
                continue
            c = np.array([r2.uniform(0.5, 2.0) for _ in range(o.data.size)], dtype=o.data.dtype).reshape(o.shape)
            t = (o * sg.Tensor(c)).sum()
            tot = t if tot is None else tot + t
        if tot is not None:
            tot.backward()
        return [np.array(o.data) for o in outs], [None if l._grad is None else np.array(l._grad) for l in leaves]

    def contiguous(s, d):
        t = sg.Tensor(d.copy(), requires_grad=bool(s[2]))
        return t, t
    used = [False]

    def changed(s, d):
        if layout == "tview":
            if d.ndim < 2 or not s[2]:
                return contiguous(s, d)
            used[0] = True
            leaf = sg.Tensor(np.ascontiguousarray(np.swapaxes(d, 0, d.ndim - 1)), requires_grad=True)
            return leaf, leaf.transpose(0, d.ndim - 1)
        v = _relayout(np, d.copy(), layout)
        if v is None:
            return contiguous(s, d)
        used[0] = True
        t = sg.Tensor(v, requires_grad=bool(s[2]))
        return t, t
    o0, g0 = run(contiguous)
    o1, g1 = run(changed)
    if not used[0]:
        return None
    tol = dict(rtol=1e-9, atol=1e-11) if np.dtype(dtype) == np.float64 else dict(rtol=2e-4, atol=1e-5)
    for k, (x0, x1) in enumerate(zip(o0, o1)):
        if x0.shape != x1.shape or not np.allclose(x0, x1, equal_nan=True, **tol):
            return "output %d with %s operands: %s, with C-contiguous operands: %s" % (k, layout, x1.ravel()[:4].tolist(), x0.ravel()[:4].tolist())
    for i, (s, x0, x1) in enumerate(zip(op.operands, g0, g1)):
        if x0 is None and x1 is None:
            continue
        if layout == "tview" and s[2] and datas[i].ndim >= 2 and x1 is not None:
            x1 = np.swapaxes(x1, 0, datas[i].ndim - 1)
        if x0 is None or x1 is None or x0.shape != x1.shape or not np.allclose(x0, x1, equal_nan=True, **tol):
            return "gradient of operand %d with %s operands: %s, with C-contiguous operands: %s" % (
                i, layout, None if x1 is None else x1.ravel()[:4].tolist(), None if x0 is None else x0.ravel()[:4].tolist())
    impl.reset_modes()
    return None


def _layout_cases(ctx, impl, ops):
    """Memory-layout independence for every catalogued op (operands Fortran-ordered / strided / cropped / transposed views)."""
    import random as _random
    np = impl.np
    cases, distinct, mism = 0, set(), []
    for op in ops:
        for layout in LAYOUTS:
            for dtype in ((np.float64,) if ctx.quick else (np.float64, np.float32)):
                cases += 1
                distinct.add((op.name, layout))
                try:
                    v = layout_pass(impl, op, _random.Random(ctx.seed), layout, dtype)
                except Exception as ex:
                    v = "raised %r" % (ex,)
                if v:
                    mism.append({"op": op.name, "layout": layout, "problem": v})
                    ctx.witness(op.wrapper, "layout/" + layout, {"op": op.name, "layout": layout, "dtype": str(np.dtype(dtype))},
                                "values and leaf gradients are those obtained with C-contiguous operands holding the same numbers",
                                {"problem": v})
    return cases, distinct, mism


def run_layout_part(ctx):
    """Stand-alone part (C05): the value of every catalogued op does not depend on the memory layout of its operands."""
    from lib import impl, opcatalog
    ops = opcatalog.catalog(impl)
    cases, distinct, mism = _layout_cases(ctx, impl, ops)
    ctx.tie("memory-layout independence of every catalogued op", "metamorphic", cases, len(distinct), mism, exhaustive=True,
            note="operands as Fortran-ordered / strided / negative-stride / cropped arrays and as transposed tensor views; "
                 "result values and leaf gradients compared with the C-contiguous run")


def run_part(ctx):
    from lib import impl, opcatalog
    np = impl.np
    # 1. regenerate
    res = py2coq.run(["wrappers"])
    if res["wrappers"] is not None:
        ctx.broken.append({"kind": "translator", "what": "gen_wrappers fail-closed: %r" % (res["wrappers"],),
                           "detail": "a wrapper of functional.py / nn/functional.py no longer has the shape the translator understands"})
        summaries = []
    else:
        summaries = json.load(open(os.path.join(common.ROOT, "work", "wrappers.json")))
    # 2. obligations
    ctx.build_props("Props/Wrappers.v", extra_targets=["IR/Wrappers.vo"])
    by_name = {s["module"] + "." + s["name"]: s for s in summaries}
    # 3. observed behaviour vs summary
    ops = opcatalog.catalog(impl)
    mism = []
    cases = 0
    distinct = set()
    for op in ops:
        s = by_name.get(op.wrapper)
        ndiff = sum(1 for o in op.operands if o[2])
        flagsets = list(itertools.product([False, True], repeat=ndiff))
        for flags in flagsets:
            for gm in (True, False):
                for dtype in ((np.float64,) if ctx.quick else (np.float64, np.float32)):
                    cases += 1
                    distinct.add((op.name, flags, gm))
                    try:
                        obs, ts, outs = observe(impl, op, flags, gm, dtype, ctx.rng)
                    except Exception as ex:
                        mism.append({"op": op.name, "flags": flags, "grad_mode": gm, "error": repr(ex)[:300]})
                        ctx.witness(op.wrapper, "wrapper-contract", {"op": op.name, "flags": list(flags), "grad_mode": gm},
                                    "forward accepted => backward completes", {"raised": repr(ex)[:300]})
                        continue
                    want_req = gm and any(flags)
                    problems = []
                    if obs["req"] != want_req:
                        problems.append("requires_grad is %s, expected %s" % (obs["req"], want_req))
                    if obs["has_fn"] != obs["req"]:
                        problems.append("grad_fn present=%s but requires_grad=%s" % (obs["has_fn"], obs["req"]))
                    if not obs["req"]:
                        if obs["n_children"] != 0:
                            problems.append("untracked result keeps %d children" % obs["n_children"])
                        if not obs.get("backward_refused", True):
                            problems.append("backward accepted on a result that does not require grad")
                        if not obs.get("grad_none", True):
                            problems.append("non-requiring result acquired a grad")
                    else:
                        if obs["children_are_operands"] is False and op.note != "composite":
                            problems.append("children are not the operands")
                        k = 0
                        for i, spec in enumerate(op.operands):
                            f = flags[k] if spec[2] else False
                            if spec[2]:
                                k += 1
                            if obs["written"][i] != f:
                                problems.append("operand %d: buffer written=%s but requires_grad=%s" % (i, obs["written"][i], f))
                            if f and obs["accumulates"][i] is False:
                                problems.append("operand %d: gradient not accumulated (+=) into an existing leaf buffer" % i)
                            if f and obs["first_nonzero"][i] is False and not op.name.startswith("batch_norm") and op.name not in ("softmax", "softmax_dim0"):
                                problems.append("operand %d: received an all-zero gradient" % i)
                    # what the generated summary predicts
                    if s is not None:
                        nk = len(s["kids_required"]) + len(s["kids_optional"]) + len(s["kids_list"])
                        if not s["req_any_children"] or not s["attach_ok"]:
                            problems.append("summary says wrapper is not well-formed")
                    if problems:
                        mism.append({"op": op.name, "flags": list(flags), "grad_mode": gm, "problems": problems})
                        ctx.witness(op.wrapper, "wrapper-contract", {"op": op.name, "requires_grad_flags": list(flags), "grad_mode": gm, "dtype": str(np.dtype(dtype))},
                                    "result requires grad iff mode and any operand; grad_fn iff requires; children iff requires; every flagged operand accumulates its gradient",
                                    {"problems": problems})
    # multi-pass scenarios (state kept between backward calls: retained / former-root buffers, reused upstream gradients)
    import random as _random
    for op in ops:
        if op.name.startswith("batch_norm") or op.note == "composite":
            continue
        for variant in ("plain", "retain_grad", "retain_ctx", "direct_same_seed"):
            cases += 1
            distinct.add((op.name, variant))
            try:
                v = two_pass(impl, op, _random.Random(ctx.seed), variant)
            except Exception as ex:
                v = "raised %r" % (ex,)
            if v:
                mism.append({"op": op.name, "two_pass": variant, "problem": v})
                ctx.witness(op.wrapper, "two-pass/" + variant, {"op": op.name, "variant": variant},
                            "leaf gradients after two backward passes through a shared result = sum of the two single-pass gradients; the caller's gradient tensor is not modified",
                            {"problem": v})
    c2, d2, m2 = _layout_cases(ctx, impl, ops)
    cases += c2; distinct |= d2; mism += m2
    missing = [op.wrapper for op in ops if op.wrapper not in by_name] if summaries else []
    uncovered = [n for n in by_name if n not in set(op.wrapper for op in ops)]
    if missing:
        mism.append({"wrappers_without_summary": sorted(set(missing))})
    if uncovered:
        mism.append({"wrappers_without_catalogue_entry": uncovered})
    ctx.tie("wrapper summaries vs observed behaviour", "translator-selfcheck", cases, len(distinct), mism, exhaustive=True,
            note="every catalogued op x every subset of requires_grad flags x grad mode on/off; %d wrappers summarised" % len(summaries))
    ctx.sample({"wrapper_summary": {k: summaries[0][k] for k in ("module", "name", "kids_required", "accs", "req_any_children", "attach_ok")}} if summaries else {})
    return summaries


def replay(ctx, data):
    """Re-run a stored wrapper-contract witness on the implementation: 1 = the contract is still violated, 0 = holds."""
    import random
    from lib import impl, opcatalog
    np = impl.np
    inp = data.get("input", {})
    if "op" not in inp:
        return None
    ops = {o.name: o for o in opcatalog.catalog(impl)}
    op = ops.get(inp["op"])
    if op is None:
        print("unknown catalogue op", inp["op"]); return 1
    if "variant" in inp or "layout" in inp:
        try:
            v = two_pass(impl, op, random.Random(ctx.seed), inp["variant"]) if "variant" in inp else \
                layout_pass(impl, op, random.Random(ctx.seed), inp["layout"], getattr(np, str(inp.get("dtype", "float64"))))
        except Exception as ex:
            v = "raised %r" % (ex,)
        print("observed", v)
        return 1 if v else 0
    flags = tuple(inp.get("requires_grad_flags", inp.get("flags", [])))
    gm = bool(inp.get("grad_mode", True))
    dtype = getattr(np, str(inp.get("dtype", "float64")))
    try:
        obs, ts, outs = observe(impl, op, flags, gm, dtype, random.Random(ctx.seed))
    except Exception as ex:
        print("raised", repr(ex)); return 1
    want_req = gm and any(flags)
    bad = obs["req"] != want_req or obs["has_fn"] != obs["req"] or (not obs["req"] and obs["n_children"] != 0)
    if obs["req"]:
        k = 0
        for i, spec in enumerate(op.operands):
            f = flags[k] if spec[2] else False
            if spec[2]:
                k += 1
            if obs["written"][i] != f or (f and obs["accumulates"][i] is False):
                bad = True
    print("observed", obs)
    return 1 if bad else 0
