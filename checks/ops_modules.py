"""C14 part: Neuron = Linear with one output, Sequential = function composition (values and gradients), on the real library.

Tie: source facts read from the AST of nn/layers.py and nn/modules.py (Neuron.__init__ only calls super().__init__(in_features, 1, bias=bias);
Sequential.forward is the loop over self.submodules()), plus two-sided runs on integer-valued float64 data compared exactly."""
import ast, os
from lib import common


def source_facts():
    probs = []
    layers = ast.parse(open(os.path.join(common.REPO, "synapgrad/nn/layers.py")).read())
    mods = ast.parse(open(os.path.join(common.REPO, "synapgrad/nn/modules.py")).read())
    neuron = [n for n in layers.body if isinstance(n, ast.ClassDef) and n.name == "Neuron"]
    if len(neuron) != 1 or [ast.unparse(b) for b in neuron[0].bases] != ["Linear"]:
        probs.append("Neuron is not a subclass of Linear")
    else:
        body = [st for st in neuron[0].body if not (isinstance(st, ast.Expr) and isinstance(st.value, ast.Constant))]
        if len(body) != 1 or not isinstance(body[0], ast.FunctionDef) or body[0].name != "__init__":
            probs.append("Neuron defines more than __init__")
        else:
            stmts = [st for st in body[0].body if not (isinstance(st, ast.Expr) and isinstance(st.value, ast.Constant))]
            if [ast.unparse(st) for st in stmts] != ["super().__init__(in_features, 1, bias=bias)"]:
                probs.append("Neuron.__init__ is not `super().__init__(in_features, 1, bias=bias)`: %s" % [ast.unparse(st) for st in stmts])
    seq = [n for n in mods.body if isinstance(n, ast.ClassDef) and n.name == "Sequential"]
    fwd = [f for f in seq[0].body if isinstance(f, ast.FunctionDef) and f.name == "forward"] if seq else []
    if not fwd:
        probs.append("Sequential.forward not found")
    else:
        txt = [ast.unparse(st) for st in fwd[0].body]
        want = ["inp = x", "for module in self.submodules():\n    out = module(inp)\n    inp = out", "return out"]
        if txt != want:
            probs.append("Sequential.forward is not the loop over self.submodules(): %s" % txt)
    return probs


def run_part(ctx):
    from lib import impl
    np, sg, nn = impl.np, impl.synapgrad, impl.nn
    ctx.build_props("Props/C14_modules.v")
    probs = source_facts()
    ctx.tie("modules/source facts (Neuron, Sequential.forward)", "translator-selfcheck", 2, 2, [{"problem": p} for p in probs], exhaustive=True)
    mism = []
    cases = 0
    rng = ctx.rng
    for trial in range(30 if ctx.quick else 200):
        nin = rng.randint(1, 4); batch = rng.randint(1, 3); bias = rng.random() < 0.7
        impl.reset_modes()
        neu = nn.Neuron(nin, bias=bias)
        lin = nn.Linear(nin, 1, bias=bias)
        w = np.array([[float(rng.randint(-3, 3)) for _ in range(nin)]])
        neu.weight.data = w.copy().astype(np.float32); lin.weight.data = w.copy().astype(np.float32)
        if bias:
            b = np.array([float(rng.randint(-3, 3))], dtype=np.float32)
            neu.bias.data = b.copy(); lin.bias.data = b.copy()
        xd = np.array([[float(rng.randint(-3, 3)) for _ in range(nin)] for _ in range(batch)], dtype=np.float32)
        x1 = sg.Tensor(xd.copy(), requires_grad=True); x2 = sg.Tensor(xd.copy(), requires_grad=True)
        g = sg.Tensor(np.array([[float(rng.randint(-2, 3))] for _ in range(batch)], dtype=np.float32))
        o1 = neu(x1); o2 = lin(x2)
        o1.backward(g); o2.backward(g)
        cases += 1
        same = (o1.shape == o2.shape == (batch, 1) and np.array_equal(o1.data, o2.data) and np.array_equal(x1._grad, x2._grad)
                and np.array_equal(neu.weight._grad, lin.weight._grad) and (not bias or np.array_equal(neu.bias._grad, lin.bias._grad))
                and type(neu).__mro__[1] is nn.Linear and neu.out_features == 1)
        if not same:
            mism.append({"neuron": {"in": nin, "bias": bias, "x": xd.tolist()}})
        # Sequential = composition (also with one module instance used at two positions)
        k = rng.randint(1, 4)
        pool = [nn.Linear(nin, nin, bias=True) for _ in range(2)] + [nn.Tanh(), nn.ReLU(), nn.Sigmoid()]
        for m in pool[:2]:
            m.weight.data = np.array([[float(rng.randint(-1, 1)) for _ in range(nin)] for _ in range(nin)], dtype=np.float32)
            m.bias.data = np.array([float(rng.randint(-1, 1)) for _ in range(nin)], dtype=np.float32)
        chosen = [rng.choice(pool) for _ in range(k)]
        from collections import OrderedDict
        seq = nn.Sequential(*chosen) if rng.random() < 0.5 else nn.Sequential(OrderedDict(("m%d" % i, m) for i, m in enumerate(chosen)))
        xa = sg.Tensor(xd.copy(), requires_grad=True); xb = sg.Tensor(xd.copy(), requires_grad=True)
        for m in pool[:2]:
            m.zero_grad()
        ya = seq(xa)
        gg = sg.Tensor(np.arange(1, 1 + ya.data.size, dtype=np.float32).reshape(ya.shape))
        ya.backward(gg)
        wa = [None if m.weight._grad is None else m.weight._grad.copy() for m in pool[:2]]
        for m in pool[:2]:
            m.zero_grad()
        yb = xb
        for m in chosen:
            yb = m(yb)
        yb.backward(gg)
        wb = [None if m.weight._grad is None else m.weight._grad.copy() for m in pool[:2]]
        cases += 1
        distinct = len({id(m) for m in chosen})
        ok = np.array_equal(ya.data, yb.data) and np.array_equal(xa._grad, xb._grad) and all((a is None and b is None) or np.array_equal(a, b) for a, b in zip(wa, wb))
        if not ok:
            mism.append({"sequential": [type(m).__name__ for m in chosen], "distinct_instances": distinct, "x": xd.tolist()})
            ctx.witness("nn.Sequential", "composition", {"modules": [type(m).__name__ + "#%d" % pool.index(m) for m in chosen], "x": xd.tolist()},
                        "Sequential(m1..mk)(x) equals mk(...m1(x)) in value and gradients, also when one module instance occurs twice",
                        {"sequential": ya.data.tolist(), "composition": yb.data.tolist()})
    for m_ in mism:
        if "neuron" in m_:
            ctx.witness("nn.Neuron", "linear-one-output", m_["neuron"], "Neuron(n) behaves as Linear(n, 1) in value and gradients", "differs")
            break
    ctx.tie("modules/Neuron vs Linear(.,1), Sequential vs composition", "correspondence", cases, cases, mism,
            note="integer-valued float32 data, values and all gradients compared exactly; Sequential built positionally or from an OrderedDict, module instances may repeat")
    ctx.sample({"sequential_modules": [type(m).__name__ for m in chosen], "equal": not mism})
