"""C06 — forward results of nn ops / layers / losses match their documented definitions.

Obligations : coq/Props/C06.v  (output size, conv = cross-correlation, max pool: padding never wins / exactly when -inf,
              avg pool counts the padding, unfold layout, fold sums overlaps, 'same' padding, int-or-tuple normalisation)
Ties (K)    : forward values + shapes of conv1d/conv2d/max_pool*/avg_pool*/unfold/fold on the geometry grid (integer data, compared
              inside Coq with NumPy/ConvPool.v); acceptance / rejection (empty outputs, wrong ranks, mismatching shapes);
              layer classes (constructor normalisation tables, 'same'/'valid', int vs tuple, default stride, layer forward);
              activations / losses + reductions / linear / batch-norm statistics against NumPy/NNForward.v on integer / dyadic data
Oracle      : independent of Coq, on the implementation: the defining formulas as Python loops + torch.nn.functional / torch.nn
              (values, shapes, acceptance; tolerance 1e-9 on float64 integer data), documented-acceptance spec.
"""
import itertools, json, os
from fractions import Fraction
from lib import common
from lib.common import cz, cb, clist, copt
from checks import convpool_common as cc

OPS2 = ["conv2d", "max_pool2d", "avg_pool2d", "unfold", "fold"]
OPS1 = ["conv1d", "max_pool1d", "avg_pool1d"]


def _impl():
    from lib import impl
    return impl


def _observe(P):
    r = cc.call(cc.run_impl, P)
    return ("ok", r[1]["out"]) if r[0] == "ok" else r


class Bag:
    """cases of one tie: Coq terms, payloads, oracle verdicts"""

    def __init__(self):
        self.terms, self.payloads, self.descr, self.nontrivial, self.verdicts = [], [], set(), set(), []

    def add(self, P, term, descr, nontrivial, verdict):
        self.terms.append(term)
        self.payloads.append(P)
        self.descr.add(descr)
        if nontrivial:
            self.nontrivial.add(descr)
        if verdict is not None:
            self.verdicts.append((len(self.terms) - 1, verdict))


def _finish_tie(ctx, bag, name, prefix, site, klass, exhaustive=False, note=""):
    bad, errors = cc.run_bool_cases(ctx, prefix, bag.terms)
    mism = list(errors)
    for i in bad[:50]:
        mism.append({"case": i, "input": bag.payloads[i]})
    mism += [{"case": i} for i in bad[50:]]
    ctx.tie(name, "correspondence", len(bag.terms), len(bag.nontrivial), mism, exhaustive=exhaustive, note=note)
    # violation search: oracle verdicts first (smallest input first), then disagreeing cases judged by the oracle already
    judged = sorted(bag.verdicts, key=lambda iv: len(json.dumps(bag.payloads[iv[0]])))
    for i, v in judged[:3]:
        ctx.witness(site(bag.payloads[i]), klass(bag.payloads[i]), bag.payloads[i], v["expected"], v["observed"], v.get("note", ""))
    return bad


# ---------------------------------------------------------------------------------------------- tie 1: forward on the grid
def tie_forward(ctx):
    rng = ctx.rng
    bag = Bag()
    g2 = cc.geometry_2d(rng, ctx.quick)
    g1 = cc.geometry_1d(rng, ctx.quick)
    k = 0
    for g in g2:
        for op in OPS2:
            k += 1
            square = (g["kH"], g["sH"], g["pH"], g["dH"]) == (g["kW"], g["sW"], g["pW"], g["dW"])
            P = cc.make_payload(rng, op, g, bias=(k % 2 == 0), form="int" if (square or k % 3 == 0) else "tuple",
                                data=("distinct" if k % 2 else "ints") if not (op.startswith("max") and (k // 5) % 3 == 0) else cc.TIE_KINDS[(k // 15) % 5],
                                layout=cc.LAYOUTS[(k // 5) % 8], dtypes=cc.DTYPES[(k // 40) % 4], zero_bias=(k % 35 == 1))
            obs = _observe(P)
            bag.add(P, cc.term_forward(P, obs), (op,) + cc.descr2(g), cc.nontrivial2(g), cc.oracle_forward(P, obs))
    for g in g1:
        for op in OPS1:
            k += 1
            P = cc.make_payload(rng, op, g, bias=(k % 2 == 0), data="distinct" if k % 2 else "ints", layout=cc.LAYOUTS[(k // 3) % 8],
                                dtypes=cc.DTYPES[(k // 24) % 4], zero_bias=(k % 21 == 1))
            obs = _observe(P)
            bag.add(P, cc.term_forward(P, obs), (op, g["k"], g["s"], g["p"], g["d"], g["W"]), cc.nontrivial1(g), cc.oracle_forward(P, obs))
    # state kept between calls: geometries seen much earlier in this process are visited again, now with the other dtype
    n_first = len(bag.payloads)
    for i in range(0, n_first, 23 if ctx.quick else 11):
        P = dict(bag.payloads[i])
        P["dtype"] = "f32" if P.get("dtype", "f64") == "f64" else "f64"
        P.pop("pre_dtype", None)
        obs = _observe(P)
        bag.add(P, cc.term_forward(P, obs), ("revisit", i), True, cc.oracle_forward(P, obs))
    ctx.sample({"forward_case": bag.payloads[7], "implementation_output": cc.tolist(_observe(bag.payloads[7])[1])})
    ctx.extra["forward_geometries"] = {"2d": len(g2), "1d": len(g1)}
    _finish_tie(ctx, bag, "convpool/forward values+shapes", "fwd", lambda P: "nn.functional." + P["op"], lambda P: "forward-value",
                exhaustive=True,
                note="every per-axis (L,k,s,p,d) of the grid with >= 1 window: 1-D ops on all of them, 2-D ops on each of them paired with a random "
                     "second axis (non-square), N,C in {1,2}, bias on/off, int and tuple arguments; integer data; values and shapes compared in Coq")


# ---------------------------------------------------------------------------------------------- tie 2: acceptance / rejection
def tie_acceptance(ctx):
    rng = ctx.rng
    np = _impl().np
    bag = Bag()
    # empty / negative output sizes
    empties2 = []
    for (H, W, kH, kW, s, p, d) in [(2, 5, 3, 2, 1, 0, 1), (5, 2, 2, 3, 1, 0, 1), (1, 1, 2, 2, 1, 0, 1), (3, 3, 2, 2, 1, 0, 3), (2, 2, 3, 3, 2, 0, 2),
                                    (4, 1, 2, 3, 1, 0, 1), (1, 4, 3, 1, 1, 0, 2), (3, 3, 3, 3, 1, 0, 2), (2, 2, 2, 2, 1, 0, 3), (5, 5, 3, 3, 1, 1, 4)]:
        empties2.append(dict(N=1, C=1, H=H, W=W, kH=kH, kW=kW, sH=s, sW=s, pH=p, pW=p, dH=d, dW=d))
    for g in empties2:
        for op in OPS2:
            P = cc.make_payload(rng, op, g)
            if op == "fold":
                P["y"] = cc.ints(rng, (1, g["kH"] * g["kW"], 1)).tolist()
            obs = _observe(P)
            bag.add(P, cc.term_forward(P, obs), ("empty", op) + cc.descr2(g), True, cc.oracle_forward(P, obs))
    for (W, k, s, p, d) in [(2, 3, 1, 0, 1), (1, 2, 1, 0, 1), (3, 2, 1, 0, 3), (4, 3, 2, 0, 2), (2, 2, 1, 0, 2), (5, 3, 1, 1, 4)]:
        g = dict(N=1, C=2, W=W, k=k, s=s, p=p, d=d)
        for op in OPS1:
            P = cc.make_payload(rng, op, g)
            obs = _observe(P)
            bag.add(P, cc.term_forward(P, obs), ("empty", op, W, k, s, p, d), True, cc.oracle_forward(P, obs))
    # wrong ranks / mismatching shapes
    g = dict(N=1, C=2, H=4, W=4, kH=2, kW=2, sH=1, sW=1, pH=0, pW=0, dH=1, dW=1)
    g1 = dict(N=1, C=2, W=5, k=2, s=1, p=0, d=1)
    for op in OPS2:
        if op == "fold":
            continue
        for shape in [(2, 4, 4), (1, 1, 2, 4, 4), (4, 4)]:
            P = cc.make_payload(rng, op, g)
            P["x"] = cc.ints(rng, shape).tolist()
            obs = _observe(P)
            bag.add(P, cc.term_forward(P, obs), ("rank", op, shape), True, cc.oracle_forward(P, obs))
    for op in OPS1:
        for shape in [(1, 2, 3, 5), (2, 5)]:
            P = cc.make_payload(rng, op, g1)
            P["x"] = cc.ints(rng, shape).tolist()
            obs = _observe(P)
            bag.add(P, cc.term_forward(P, obs), ("rank", op, shape), True, cc.oracle_forward(P, obs))
    for wshape in [(2, 3, 2, 2), (2, 2, 2), (2, 1, 2, 2)]:
        P = cc.make_payload(rng, "conv2d", g)
        P["w"] = cc.ints(rng, wshape).tolist()
        P["b"] = None
        obs = _observe(P)
        bag.add(P, cc.term_forward(P, obs), ("wshape", wshape), True, cc.oracle_forward(P, obs))
    for wshape in [(2, 3, 2), (2, 2, 2, 2), (2, 1, 2)]:
        P = cc.make_payload(rng, "conv1d", g1)
        P["w"] = cc.ints(rng, wshape).tolist()
        P["b"] = None
        obs = _observe(P)
        bag.add(P, cc.term_forward(P, obs), ("wshape1", wshape), True, cc.oracle_forward(P, obs))
    # fold with inconsistent argument shapes
    gf = dict(N=1, C=1, H=2, W=6, kH=2, kW=2, sH=1, sW=1, pH=0, pW=0, dH=1, dW=1)      # lH*lW = 5, C*kH*kW = 4
    for yshape in [(1, 4, 5), (1, 4, 6), (1, 4, 4), (1, 8, 5), (1, 3, 5), (1, 5, 4), (2, 4, 5), (1, 10, 2), (2, 5, 2), (1, 4, 0)]:
        P = {"op": "fold", "g": dict(gf, N=yshape[0], C=yshape[1] // 4), "form": "tuple", "y": cc.ints(rng, yshape).tolist()}
        obs = _observe(P)
        v = cc.oracle_forward(P, obs)
        if obs[0] == "ok" and yshape[1] % 4 != 0:
            v = {"expected": "raises (dimension 1 = %d is not C*kH*kW for kernel (2,2))" % yshape[1],
                 "observed": {"shape": list(obs[1].shape), "values": cc.tolist(obs[1])}, "note": "F.fold accepts an argument whose shape is inconsistent with the kernel"}
        bag.add(P, cc.term_forward(P, obs), ("foldshape", yshape), True, v)
    # an empty geometry (kernel larger than the output) with an argument that has no columns: element counts agree (0 = 0)
    ge = dict(N=1, C=1, H=1, W=1, kH=2, kW=2, sH=1, sW=1, pH=0, pW=0, dH=1, dW=1)
    for yshape in [(1, 4, 0), (2, 4, 0)]:
        P = {"op": "fold", "g": dict(ge, N=yshape[0]), "form": "tuple", "y": cc.ints(rng, yshape).tolist()}
        obs = _observe(P)
        bag.add(P, cc.term_forward(P, obs), ("foldempty", yshape), True, cc.oracle_forward(P, obs))
    ctx.extra["acceptance_cases"] = len(bag.terms)
    _finish_tie(ctx, bag, "convpool/acceptance+rejection", "acc", lambda P: "nn.functional." + P["op"],
                lambda P: "fold-inconsistent-shape" if P["op"] == "fold" else "acceptance",
                note="malformed stream: empty / negative output sizes, wrong input ranks, weight shapes that do not match, fold arguments of inconsistent shape; "
                     "the model's acceptance predicate must say 'raises' exactly when the implementation raises")


# ---------------------------------------------------------------------------------------------- tie 3: layer classes
def arg_coq(a):
    if isinstance(a, (list, tuple)):
        return "(ATup %s)" % clist([cz(v) for v in a])
    return "(AInt %s)" % cz(a)


def pad_coq(p):
    if p == "same":
        return "PSame"
    if p == "valid":
        return "PValid"
    return "(PNum %s)" % arg_coq(p)


def pad1_coq(p):
    return {"same": "P1Same", "valid": "P1Valid"}.get(p) if isinstance(p, str) else "(P1Num %s)" % cz(p)


def attrs8(layer):
    np = _impl().np
    vals = []
    for nm in ("kernel_size", "stride", "padding", "dilation"):
        v = np.broadcast_to(getattr(layer, nm), 2)
        vals += [int(v[0]), int(v[1])]
    return vals


def torch_arg(a):
    return tuple(a) if isinstance(a, (list, tuple)) else a


def tie_layers(ctx):
    rng = ctx.rng
    impl = _impl()
    np, nn = impl.np, impl.nn
    import torch
    terms, payloads, verdicts, descr = [], [], [], set()

    def judge(P, obs_out, build_torch):
        """oracle on a layer: documented forms must be accepted and then agree with torch.nn (values + shape)"""
        try:
            tl, tx = build_torch()
            with torch.no_grad():
                tout = tl(tx).numpy()
        except Exception as ex:      # noqa: BLE001
            tout = None
        if obs_out is None:
            if tout is not None and P.get("documented", True):
                return {"expected": {"shape": list(tout.shape)}, "observed": "raises", "note": "documented configuration rejected"}
            return None
        if tout is None:
            return None if not P.get("torch_must_accept", False) else {"expected": "raises", "observed": {"shape": list(obs_out.shape)}, "note": "torch rejects"}
        if not cc.close(obs_out, tout):
            return {"expected": {"shape": list(tout.shape), "values": cc.tolist(tout)},
                    "observed": {"shape": list(obs_out.shape), "values": cc.tolist(obs_out)}, "note": "layer output differs from torch.nn"}
        return None

    # ---- Conv2d: constructor table + forward
    k_forms = [3, 2, (3, 5), (2, 3), (3,), (1, 1), (2, 4), (3, 3, 3)]
    s_forms = [1, (1, 1), 2, (1, 2), (1,)]
    p_forms = ["same", "valid", 0, 1, (1, 2), (2,), (0, 1, 2)]
    d_forms = [1, 2, (1, 2), (2, 1)]
    combos = list(itertools.product(k_forms, s_forms, p_forms, d_forms))
    rng.shuffle(combos)
    combos = combos[:140 if ctx.quick else 600]
    # make sure the interesting 'same' cases are present
    combos = [((3, 5), 1, "same", 1), (3, 1, "same", 2), ((3, 5), 1, "same", (2, 1)), (2, 1, "same", 1), ((2, 3), 1, "same", 1), (2, 1, "same", 2),
              (3, 2, "same", 1), ((5, 3), (1, 1), "same", (1, 2)), (1, 1, "same", 1)] + combos
    N, C, Co = 2, 2, 2
    for (k, s, p, d) in combos:
        H, W = rng.randint(4, 7), rng.randint(4, 7)
        x = cc.ints(rng, (N, C, H, W))
        P = {"layer": "Conv2d", "k": k, "s": s, "p": p, "d": d, "x": x.tolist(), "Cin": C, "Co": Co}
        try:
            layer = nn.Conv2d(C, Co, k, s, p, d)
            a8 = attrs8(layer)
            kk = a8[0:2]
            w = cc.ints(rng, (Co, C, kk[0], kk[1]), -3, 3)
            b = cc.ints(rng, (Co,), -9, 9)
            layer.weight.data = w.astype(np.float32)
            layer.bias.data = b.astype(np.float32)
            P["w"], P["b"] = w.tolist(), b.tolist()
            ctor = ("ok", a8)
        except Exception as ex:     # noqa: BLE001
            ctor = ("raises", type(ex).__name__)
            w = b = None
        terms.append("olz_eqb (geo2_code (conv2d_ctor %s %s %s %s)) %s" % (arg_coq(k), arg_coq(s), pad_coq(p), arg_coq(d),
                                                                        "None" if ctor[0] == "raises" else "(Some %s)" % clist([cz(v) for v in ctor[1]])))
        payloads.append(dict(P, what="ctor")); descr.add(("Conv2d-ctor", str(k), str(s), str(p), str(d)))
        out = None
        if ctor[0] == "ok":
            r = cc.call(lambda: np.array(layer(cc.T(x)).data, dtype=np.float64))
            out = r[1] if r[0] == "ok" else None
            exp = "None" if out is None else ("(Some %s)" % cc.zl(out) if cc.is_integral(out) else "(Some [])")
            terms.append("ozl_eqb (layer_conv2d %d %d %d %d %d %s %s %s %s %s %s (Some %s)) %s && shape4_eqb (layer_conv2d_shape %d %d %d %d %d %s %s %s %s) %s" % (
                N, C, H, W, Co, arg_coq(k), arg_coq(s), pad_coq(p), arg_coq(d), cc.zl(x), cc.zl(w), cc.zl(b), exp,
                N, C, H, W, Co, arg_coq(k), arg_coq(s), pad_coq(p), arg_coq(d),
                "None" if out is None else "(Some (%s))" % ", ".join(str(v) for v in out.shape)))
            payloads.append(dict(P, what="forward")); descr.add(("Conv2d-fwd", str(k), str(s), str(p), str(d), H, W))
        # oracle
        lens_ok = all((not isinstance(a, (list, tuple))) or len(a) in (1, 2) for a in (k, s, d)) and (isinstance(p, str) or not isinstance(p, (list, tuple)) or len(p) in (1, 2))
        b2 = lambda a: tuple(np.broadcast_to(a, 2)) if lens_ok else None
        documented = lens_ok
        if lens_ok and p == "same":
            kk2, ss2, dd2 = b2(k), b2(s), b2(d)
            documented = all(v == 1 for v in ss2) and all((dd * (kk - 1)) % 2 == 0 for kk, dd in zip(kk2, dd2))
        P["documented"] = documented

        def build_torch(k=k, s=s, p=p, d=d, w=w, b=b, x=x):
            f = lambda a: tuple(int(v) for v in np.broadcast_to(a, 2))
            tl = torch.nn.Conv2d(C, Co, f(k), f(s), p if isinstance(p, str) else f(p), f(d), dtype=torch.float64)
            with torch.no_grad():
                tl.weight.copy_(torch.tensor(w)); tl.bias.copy_(torch.tensor(b))
            return tl, torch.tensor(x)
        if ctor[0] == "ok" or documented:
            v = judge(P, out, build_torch) if (w is not None or documented) else None
            if ctor[0] == "raises" and documented:
                v = {"expected": "constructor accepts", "observed": "raises " + ctor[1], "note": "documented configuration rejected"}
            if v is not None:
                verdicts.append((len(payloads) - 1, v))
    # ---- Conv1d
    for (k, s, p, d) in [(3, 1, "same", 1), (3, 1, "same", 2), (2, 1, "same", 1), (2, 1, "same", 2), (3, 2, "same", 1), (5, 1, "same", 1), (3, 1, "valid", 1),
                         (2, 2, 1, 1), (3, 1, 2, 2), (1, 1, "same", 3), (4, 1, "same", 2), (3, 3, 0, 1)]:
        Wd = rng.randint(5, 8)
        x = cc.ints(rng, (N, C, Wd))
        w = cc.ints(rng, (Co, C, k), -3, 3); b = cc.ints(rng, (Co,), -9, 9)
        P = {"layer": "Conv1d", "k": k, "s": s, "p": p, "d": d, "x": x.tolist(), "w": w.tolist(), "b": b.tolist(), "Cin": C, "Co": Co}
        out = None
        try:
            layer = nn.Conv1d(C, Co, k, s, p, d)
            layer.weight.data = w.astype(np.float32); layer.bias.data = b.astype(np.float32)
            got = [int(layer.kernel_size), int(layer.stride), int(layer.padding), int(layer.dilation)]
            ctor = "(Some %s)" % clist([cz(v) for v in got])
            r = cc.call(lambda: np.array(layer(cc.T(x)).data, dtype=np.float64))
            out = r[1] if r[0] == "ok" else None
        except Exception as ex:     # noqa: BLE001
            ctor = "None"
        exp = "None" if out is None else ("(Some %s)" % cc.zl(out) if cc.is_integral(out) else "(Some [])")
        terms.append("olz_eqb (geo1_code (conv1d_ctor %d %d %s %d)) %s && ozl_eqb (layer_conv1d %d %d %d %d %d %d %s %d %s %s (Some %s)) %s" % (
            k, s, pad1_coq(p), d, ctor, N, C, Wd, Co, k, s, pad1_coq(p), d, cc.zl(x), cc.zl(w), cc.zl(b), exp))
        payloads.append(P); descr.add(("Conv1d", k, s, str(p), d, Wd))
        documented = not (p == "same" and (s != 1 or (d * (k - 1)) % 2))
        P["documented"] = documented

        def build_torch1(k=k, s=s, p=p, d=d, w=w, b=b, x=x):
            tl = torch.nn.Conv1d(C, Co, k, s, p, d, dtype=torch.float64)
            with torch.no_grad():
                tl.weight.copy_(torch.tensor(w)); tl.bias.copy_(torch.tensor(b))
            return tl, torch.tensor(x)
        v = judge(P, out, build_torch1)
        if v is not None:
            verdicts.append((len(payloads) - 1, v))
    # ---- pools (default stride, int vs tuple), Unfold / Fold
    pk = [2, 3, (2, 3), (3, 2), (2,), (1, 2)]
    ps = [None, 1, 2, (2, 1), (1, 3)]
    pp = [0, 1, (1, 0), (0, 1)]
    pd = [1, 2, (1, 2)]
    pcombos = list(itertools.product(pk, ps, pp, pd))
    rng.shuffle(pcombos)
    pcombos = pcombos[:60 if ctx.quick else 300]
    for (k, s, p, d) in pcombos:
        H, W = rng.randint(4, 7), rng.randint(4, 7)
        for cls, runner, eq in (("MaxPool2d", "layer_maxpool2d", "ool_eqb"), ("AvgPool2d", "layer_avgpool2d", "oql_eqb")):
            K = int(np.prod(np.broadcast_to(k, 2)))
            x = cc.distinct_ints(rng, (N, C, H, W), K if cls == "AvgPool2d" else 1)
            P = {"layer": cls, "k": k, "s": s, "p": p, "d": d, "x": x.tolist()}
            out = None
            try:
                layer = getattr(nn, cls)(k, s, p, d)
                a8 = attrs8(layer)
                ctor = "(Some %s)" % clist([cz(v) for v in a8])
                r = cc.call(lambda: np.array(layer(cc.T(x)).data, dtype=np.float64))
                out = r[1] if r[0] == "ok" else None
            except Exception as ex:     # noqa: BLE001
                ctor = "None"
            if out is None:
                exp = "None"
            elif cls == "MaxPool2d":
                exp = "(Some %s)" % cc.ozl(out)
            else:
                exp = "(Some %s)" % cc.zl(out) if cc.is_integral(out) else "(Some [])"
            sarg = "None" if s is None else "(Some %s)" % arg_coq(s)
            terms.append("olz_eqb (geo2_code (pool2d_ctor %s %s %s %s)) %s && %s (%s %d %d %d %d %s %s %s %s %s) %s" % (
                arg_coq(k), sarg, arg_coq(p), arg_coq(d), ctor, eq, runner, N, C, H, W, arg_coq(k), sarg, arg_coq(p), arg_coq(d), cc.zl(x), exp))
            payloads.append(P); descr.add((cls, str(k), str(s), str(p), str(d), H, W))
            kk2, pp2, dd2 = np.broadcast_to(k, 2), np.broadcast_to(p, 2), np.broadcast_to(d, 2)
            torch_ok = all(2 * a <= b for a, b in zip(pp2, kk2)) and (cls == "MaxPool2d" or all(v == 1 for v in dd2))
            if torch_ok:
                def build_torchp(cls=cls, k=k, s=s, p=p, d=d, x=x):
                    f = lambda a: tuple(int(v) for v in np.broadcast_to(a, 2))
                    if cls == "MaxPool2d":
                        tl = torch.nn.MaxPool2d(f(k), None if s is None else f(s), f(p), f(d))
                    else:
                        tl = torch.nn.AvgPool2d(f(k), None if s is None else f(s), f(p), count_include_pad=True)
                    return tl, torch.tensor(x)
                v = judge(P, out, build_torchp)
                if v is not None:
                    verdicts.append((len(payloads) - 1, v))
    for (k, s, p, d) in [(2, None, 0, 1), (3, None, 1, 1), (2, 1, 1, 2), (3, 2, 0, 1), (2, None, 1, 1), (4, None, 2, 1), (3, None, 0, 2)]:
        Wd = rng.randint(5, 9)
        for cls, runner, eq in (("MaxPool1d", "layer_maxpool1d", "ool_eqb"), ("AvgPool1d", "layer_avgpool1d", "oql_eqb")):
            x = cc.distinct_ints(rng, (N, C, Wd), k if cls == "AvgPool1d" else 1)
            P = {"layer": cls, "k": k, "s": s, "p": p, "d": d, "x": x.tolist()}
            layer = getattr(nn, cls)(k, s, p, d)
            r = cc.call(lambda: np.array(layer(cc.T(x)).data, dtype=np.float64))
            out = r[1] if r[0] == "ok" else None
            if out is None:
                exp = "None"
            elif cls == "MaxPool1d":
                exp = "(Some %s)" % cc.ozl(out)
            else:
                exp = "(Some %s)" % cc.zl(out) if cc.is_integral(out) else "(Some [])"
            sarg = "None" if s is None else "(Some %d)" % s
            terms.append("(%d =? %d) && %s (%s %d %d %d %d %s %d %d %s) %s" % (int(layer.stride), k if s is None else s, eq, runner, N, C, Wd, k, sarg, p, d, cc.zl(x), exp))
            payloads.append(P); descr.add((cls, k, str(s), p, d, Wd))
            if 2 * p <= k and (cls == "MaxPool1d" or d == 1):
                def build_torchp1(cls=cls, k=k, s=s, p=p, d=d, x=x):
                    tl = torch.nn.MaxPool1d(k, s, p, d) if cls == "MaxPool1d" else torch.nn.AvgPool1d(k, s, p, count_include_pad=True)
                    return tl, torch.tensor(x)
                v = judge(P, out, build_torchp1)
                if v is not None:
                    verdicts.append((len(payloads) - 1, v))
    # Unfold layer and F.unfold with int / tuple kernel sizes (documented: int or tuple)
    for (k, s, p, d) in [(2, 1, 0, 1), (3, 1, 1, 1), ((2, 3), 1, 0, 1), (2, (2, 1), (1, 0), 1), (3, 2, 1, 2), ((3, 2), (1, 2), (1, 1), (1, 2)), ((2,), 1, 0, 1), (2, 1, 0, (2, 1))]:
        H, W = rng.randint(4, 7), rng.randint(4, 7)
        x = cc.ints(rng, (N, C, H, W))
        for how in ("layer", "functional"):
            P = {"layer": "Unfold" if how == "layer" else "F.unfold", "k": k, "s": s, "p": p, "d": d, "x": x.tolist()}
            if how == "layer":
                r = cc.call(lambda: np.array(nn.Unfold(k, s, p, d)(cc.T(x)).data, dtype=np.float64))
            else:
                r = cc.call(lambda: np.array(impl.NF.unfold(cc.T(x), k, d, s, p).data, dtype=np.float64))
            out = r[1] if r[0] == "ok" else None
            exp = "None" if out is None else ("(Some %s)" % cc.zl(out) if cc.is_integral(out) else "(Some [])")
            terms.append("ozl_eqb (layer_unfold %d %d %d %d %s %s %s %s %s) %s" % (N, C, H, W, arg_coq(k), arg_coq(s), arg_coq(p), arg_coq(d), cc.zl(x), exp))
            payloads.append(P); descr.add((P["layer"], str(k), str(s), str(p), str(d), H, W))

            def build_torchu(k=k, s=s, p=p, d=d, x=x):
                f = lambda a: tuple(int(v) for v in np.broadcast_to(a, 2))
                return torch.nn.Unfold(f(k), f(d), f(p), f(s)), torch.tensor(x)
            v = judge(P, out, build_torchu)
            if v is not None:
                verdicts.append((len(payloads) - 1, v))
    ctx.sample({"layer_case": {k: v for k, v in payloads[0].items() if k != "x"}, "coq_term": terms[0][:300]})
    bad, errors = cc.run_bool_cases(ctx, "layers", terms)
    mism = list(errors) + [{"case": i, "input": payloads[i]} for i in bad[:50]] + [{"case": i} for i in bad[50:]]
    ctx.tie("convpool/layer classes (constructor normalisation + forward)", "correspondence", len(terms), len(descr), mism,
            note="nn.Conv2d/Conv1d (padding 'same'|'valid'|int|tuple, int vs tuple vs 1-tuple vs bad tuples), MaxPool/AvgPool 1d/2d (default stride), "
                 "nn.Unfold and F.unfold with int and tuple kernel sizes: normalised attributes and layer outputs vs conv2d_ctor/pool2d_ctor/unfold_ctor + the op model")
    for i, v in sorted(verdicts, key=lambda iv: len(json.dumps(payloads[iv[0]])))[:3]:
        P = payloads[i]
        ctx.witness("nn." + P["layer"], "layer-forward", P, v["expected"], v["observed"], v.get("note", ""))


# ---------------------------------------------------------------------------------------------- tie 4: activations, losses, linear, batch norm
NN_HEADER = ("From Coq Require Import List ZArith Bool QArith.\nImport ListNotations.\n"
             "From SG Require Import Base.Cmp NumPy.NNForward.\nOpen Scope Q_scope.\n")


def qlit(v):
    fr = Fraction(float(v))
    return "(%s # %d)" % ("(%d)" % fr.numerator if fr.numerator < 0 else str(fr.numerator), fr.denominator)


def qlist(a):
    np = _impl().np
    return clist([qlit(v) for v in np.asarray(a, dtype=np.float64).ravel()])


def qll(a):
    return clist([qlist(r) for r in a])


def dyadic(rng, shape, den=8, lo=-40, hi=40):
    np = _impl().np
    n = int(np.prod(shape))
    return (np.array([rng.randint(lo, hi) for _ in range(n)], dtype=np.float64) / den).reshape(shape)


def tie_misc(ctx):
    rng = ctx.rng
    impl = _impl()
    np, NF, nn, sg = impl.np, impl.NF, impl.nn, impl.synapgrad
    import torch
    terms, payloads, verdicts = [], [], []

    def rec(P, term, torch_value, observed):
        terms.append(term); payloads.append(P)
        if torch_value is not None and not cc.close(observed, torch_value):
            verdicts.append((len(payloads) - 1, {"expected": cc.tolist(torch_value), "observed": cc.tolist(observed), "note": "differs from torch"}))

    n_each = 12 if ctx.quick else 60
    for i in range(n_each):
        shape = rng.choice([(5,), (2, 3), (2, 2, 3), (1, 4)])
        x = dyadic(rng, shape)
        # relu / leaky_relu (dyadic slope)
        out = np.array(NF.relu(cc.T(x)).data, dtype=np.float64)
        rec({"op": "relu", "x": x.tolist()}, "qlist_eqb (map relu %s) %s" % (qlist(x), qlist(out)),
            torch.relu(torch.tensor(x)).numpy(), out)
        slope = rng.choice((0.25, 0.5, 0.125, 2.0, -0.5, 1.5))
        out = np.array(NF.leaky_relu(cc.T(x), slope).data, dtype=np.float64)
        tv = torch.nn.functional.leaky_relu(torch.tensor(x), slope).numpy()
        rec({"op": "leaky_relu", "x": x.tolist(), "slope": slope}, "qlist_eqb (map (leaky_relu %s) %s) %s" % (qlit(slope), qlist(x), qlist(out)), tv, out)
        # MSELoss with every reduction
        y = dyadic(rng, shape)
        for red, cred in (("mean", "RMean"), ("sum", "RSum"), ("none", "RNone")):
            cnt = int(np.prod(shape))
            if red == "mean" and cnt & (cnt - 1):
                yy = y[..., :1] if False else y       # keep the data; the mean of a non power-of-two count is not dyadic:
                xs, ys = (x.ravel()[:4].reshape(2, 2), y.ravel()[:4].reshape(2, 2)) if cnt >= 4 else (x.ravel()[:1], y.ravel()[:1])
            else:
                xs, ys = x, y
            out = np.array(nn.MSELoss(reduction=red)(cc.T(xs), cc.T(ys)).data, dtype=np.float64)
            tv = torch.nn.MSELoss(reduction=red)(torch.tensor(xs), torch.tensor(ys)).numpy()
            rec({"op": "MSELoss", "reduction": red, "x": xs.tolist(), "y": ys.tolist()},
                "qlist_eqb (reduce %s (map (fun p => mse (fst p) (snd p)) (combine %s %s))) %s" % (cred, qlist(xs), qlist(ys), qlist(out)), tv, out)
        # NLLLoss with every reduction (batch a power of two so that the mean is dyadic)
        B, K = rng.choice((2, 4, 8)), rng.randint(2, 5)
        lp = dyadic(rng, (B, K))
        tgt = np.array([rng.randrange(K) for _ in range(B)], dtype=np.int64)
        for red, cred in (("mean", "RMean"), ("sum", "RSum"), ("none", "RNone")):
            out = np.array(nn.NLLLoss(reduction=red)(cc.T(lp), sg.Tensor(tgt)).data, dtype=np.float64)
            tv = torch.nn.NLLLoss(reduction=red)(torch.tensor(lp), torch.tensor(tgt)).numpy()
            rec({"op": "NLLLoss", "reduction": red, "log_probs": lp.tolist(), "target": tgt.tolist()},
                "qlist_eqb (reduce %s (nll %s %s)) %s" % (cred, qll(lp), clist(["%d%%nat" % t for t in tgt]), qlist(out)),
                tv.reshape(out.shape) if tv.size == out.size else tv, out)
        # linear with / without bias (2-D and 3-D inputs)
        I, O = rng.randint(1, 4), rng.randint(1, 3)
        xb = dyadic(rng, (rng.randint(1, 3), I)); Wm = dyadic(rng, (O, I), 4); bv = dyadic(rng, (O,), 4)
        for with_b in (True, False):
            out = np.array(NF.linear(cc.T(xb), cc.T(Wm), cc.T(bv) if with_b else None).data, dtype=np.float64)
            tv = torch.nn.functional.linear(torch.tensor(xb), torch.tensor(Wm), torch.tensor(bv) if with_b else None).numpy()
            rec({"op": "linear", "x": xb.tolist(), "w": Wm.tolist(), "b": bv.tolist() if with_b else None},
                "qll_eqb (linear %s %s %s) %s" % (qll(xb), qll(Wm), "(Some %s)" % qlist(bv) if with_b else "None", qll(out)), tv, out)
        # batch norm statistics: biased variance of the batch in training, the running statistics in eval
        Nb, Cb = rng.choice((2, 4)), rng.randint(1, 3)
        tail = rng.choice([(), (2,), (2, 2)])
        xbn = dyadic(rng, (Nb, Cb) + tail, 4, -16, 16)
        rm = dyadic(rng, (Cb,), 4); rv = np.abs(dyadic(rng, (Cb,), 4)) + 0.5
        for training in (True, False):
            for track in (True, False):
                res = impl.cpu_ops.batch_norm_forward(xbn.copy(), None, None, rm.copy() if track else None, rv.copy() if track else None, training, 0.25, 1e-5)
                mean, var = np.array(res[3], dtype=np.float64), np.array(res[4], dtype=np.float64)
                chans = [np.moveaxis(xbn, 1, 0)[c].ravel() for c in range(Cb)]
                t = " && ".join("qpair_eqb (bn_stats %s %s %s) (%s, %s)" % (cb(training), "(Some (%s, %s))" % (qlit(rm[c]), qlit(rv[c])) if track else "None",
                                                                         qlist(chans[c]), qlit(mean[c]), qlit(var[c])) for c in range(Cb))
                tx = torch.tensor(xbn)
                tout = torch.nn.functional.batch_norm(tx, torch.tensor(rm.copy()) if track else None, torch.tensor(rv.copy()) if track else None,
                                                      None, None, training or not track, 0.25, 1e-5).numpy()
                rec({"op": "batch_norm", "training": training, "track_running_stats": track, "x": xbn.tolist(), "running_mean": rm.tolist(), "running_var": rv.tolist()},
                    t, tout, np.array(res[0], dtype=np.float64))
                if training and track:     # running statistics after one step vs torch (momentum 1/4; n/(n-1) is not dyadic: tolerance 1e-9, stated)
                    trm, trv = torch.tensor(rm.copy()), torch.tensor(rv.copy())
                    torch.nn.functional.batch_norm(tx, trm, trv, None, None, True, 0.25, 1e-5)
                    if not (cc.close(res[1], trm.numpy()) and cc.close(res[2], trv.numpy())):
                        verdicts.append((len(payloads) - 1, {"expected": {"running_mean": trm.numpy().tolist(), "running_var": trv.numpy().tolist()},
                                                              "observed": {"running_mean": np.array(res[1]).tolist(), "running_var": np.array(res[2]).tolist()},
                                                              "note": "running statistics after one training step differ from torch"}))
    # batch statistics in float32 on data whose mean is large relative to its spread (x = 4096 + small dyadic offsets, batch a power of two):
    # mean, deviations and their squares are exact in float32, so x.mean / x.var must give the exact biased variance; torch float32 as oracle
    for i in range(6 if ctx.quick else 30):
        Nb, Cb = rng.choice((4, 8)), rng.randint(1, 3)
        base = rng.choice((4096.0, 2048.0, -4096.0))
        xbn = (base + dyadic(rng, (Nb, Cb), 2, -3, 3)).astype(np.float32)
        res = impl.cpu_ops.batch_norm_forward(xbn.copy(), None, None, None, None, True, 0.25, 1e-5)
        mean, var = np.array(res[3], dtype=np.float64), np.array(res[4], dtype=np.float64)
        chans = [xbn[:, c].astype(np.float64) for c in range(Cb)]
        t = " && ".join("qpair_eqb (bn_stats true None %s) (%s, %s)" % (qlist(chans[c]), qlit(mean[c]), qlit(var[c])) for c in range(Cb))
        # reference: the two-pass normalisation of the same float32 numbers carried out in float64 (exact mean and variance here).
        # torch's own float32 result is NOT used: on a constant channel its rounded mean, divided by sqrt(eps), is off by 1e-2
        # while the library returns the exact 0 (a false alarm of this oracle in the thorough tier, corrected)
        x64 = xbn.astype(np.float64)
        tout = (x64 - x64.mean(axis=0)) / np.sqrt(x64.var(axis=0) + 1e-5)
        out = np.array(res[0], dtype=np.float64)
        terms.append(t); payloads.append({"op": "batch_norm", "dtype": "float32", "training": True, "x": xbn.tolist()})
        if not cc.close(out, tout, 1e-3):
            verdicts.append((len(payloads) - 1, {"expected": cc.tolist(tout), "observed": cc.tolist(out),
                                                  "note": "float32 batch statistics on data with |mean| >> spread differ from the float64 two-pass normalisation of the same numbers (tolerance 1e-3)"}))
    # BatchNorm layers over a history that interleaves training and eval forwards (validation passes between training steps):
    # num_batches_tracked and the running statistics after every forward, for a float momentum and momentum=None (cumulative average);
    # exact (Coq) for the counter and for the running mean while the factor is dyadic, torch.nn for outputs and all statistics
    seq = "TETETTE" if ctx.quick else "TETETTEETTTE"
    for cls, shape in (("BatchNorm1d", (4, 2)), ("BatchNorm1d", (2, 2, 2)), ("BatchNorm2d", (2, 2, 2, 2)), ("BatchNorm1d", (8, 3))):
        for momentum in (0.1, None, 0.25, 0.5):
            Cb = shape[1]
            layer = getattr(nn, cls)(Cb, momentum=momentum, dtype=np.float64)
            tl = getattr(torch.nn, cls)(Cb, momentum=momentum, dtype=torch.float64)
            for t, mode in enumerate(seq, 1):
                training = mode == "T"
                (layer.train if training else layer.eval)(); (tl.train if training else tl.eval)()
                xb = dyadic(rng, shape, 4, -16, 16)
                n0 = int(layer.num_batches_tracked)
                rm0 = np.array(layer.running_mean.data, dtype=np.float64).copy()
                rv0 = np.array(layer.running_var.data, dtype=np.float64).copy()
                out = np.array(layer(cc.T(xb)).data, dtype=np.float64)
                tout = tl(torch.tensor(xb)).detach().numpy()
                n1 = int(layer.num_batches_tracked)
                rm1 = np.array(layer.running_mean.data, dtype=np.float64); rv1 = np.array(layer.running_var.data, dtype=np.float64)
                P = {"op": cls, "momentum": momentum, "history": seq[:t], "x": xb.tolist(), "num_batches_tracked_before": n0,
                     "running_mean_before": rm0.tolist(), "running_var_before": rv0.tolist()}
                term = "(bn_tracked %s %d =? %d)%%Z" % (cb(training), n0, n1)
                factor = momentum if momentum is not None else (1.0 / n1 if n1 else 1.0)
                exact = (not training) or factor in (1.0, 0.5, 0.25, 0.125)
                if exact and all(Fraction(float(v)).denominator <= 2 ** 40 for v in rm0):
                    chans = [np.moveaxis(xb, 1, 0)[c].ravel() for c in range(Cb)]
                    mom = "None" if momentum is None else "(Some %s)" % qlit(momentum)
                    term += " && " + " && ".join("Qeq_bool (bn_layer_mean %s %s %d %s %s %s) %s" % (
                        mom, cb(training), n0, qlit(rm0[c]), qlit(rv0[c]), qlist(chans[c]), qlit(rm1[c])) for c in range(Cb))
                terms.append(term); payloads.append(P)
                ok = cc.close(out, tout) and cc.close(rm1, tl.running_mean.numpy()) and cc.close(rv1, tl.running_var.numpy()) and n1 == int(tl.num_batches_tracked)
                if not ok:
                    verdicts.append((len(payloads) - 1, {"expected": {"running_mean": tl.running_mean.numpy().tolist(), "running_var": tl.running_var.numpy().tolist(),
                                                                       "num_batches_tracked": int(tl.num_batches_tracked), "output": cc.tolist(tout)},
                                                          "observed": {"running_mean": rm1.tolist(), "running_var": rv1.tolist(), "num_batches_tracked": n1, "output": cc.tolist(out)},
                                                          "note": "%s(momentum=%s) after the forwards %s (T = training, E = eval): output / running statistics / num_batches_tracked differ from torch.nn"
                                                                  % (cls, momentum, seq[:t])}))
    files = []
    CH = 250
    for k in range(0, len(terms), CH):
        body = ";\n ".join(terms[k:k + CH])
        files.append(("misc_%d" % (k // CH), NN_HEADER + "Definition cases : list bool :=\n [%s].\nEval vm_compute in (mismatches (fun b : bool => b) Bool.eqb (map (fun b => (b, true)) cases)).\n" % body))
    res = ctx.coq_eval_many(files)
    mism = []
    for (name, _), k in zip(files, range(0, len(terms), CH)):
        ok, out = res[name]
        lists = cc.parse_natlists(out)
        if not ok or len(lists) != 1:
            mism.append({"file": name, "error": out[-400:]})
        else:
            mism += [{"case": k + i, "input": payloads[k + i]} for i in lists[0]]
    ctx.tie("nn/activations+losses+linear+batchnorm statistics", "correspondence", len(terms), len(terms), mism,
            note="relu, leaky_relu (dyadic slopes), MSELoss/NLLLoss x {mean,sum,none}, linear with/without bias, batch_norm_forward mean/var in "
                 "training/eval x running statistics given/absent, BatchNorm1d/2d layers over a history interleaving training and eval forwards (momentum 0.1, 1/4, 1/2, None); dyadic data, exact rationals compared in Coq; normalised output and running statistics "
                 "additionally against torch (tolerance 1e-9: sqrt and n/(n-1) are not exact)")
    for i, v in verdicts[:3]:
        ctx.witness("nn." + payloads[i]["op"], "forward-value", payloads[i], v["expected"], v["observed"], v.get("note", ""))


# ---------------------------------------------------------------------------------------------- the check
def run(ctx):
    ok_build, fails = ctx.build_props(extra_targets=cc.EXTRA_TARGETS + ["NumPy/NNForward.vo"])
    ctx.log("proofs built:", ok_build)
    tie_forward(ctx); ctx.log("forward tie done")
    tie_acceptance(ctx); ctx.log("acceptance tie done")
    tie_layers(ctx); ctx.log("layer tie done")
    tie_misc(ctx); ctx.log("misc tie done")
    # forward definitions of the kernels regenerated from the source (translator ties): vector kernels (softmax, log_softmax,
    # nll, cross-entropy, batch-norm, loss reductions) and scalar kernels (activations, mse, bce, bce-with-logits)
    from lib.parts import run_parts
    run_parts(ctx, [("checks.kernels_vector", "run_part", {"props_file": "Props/C06_vector.v"}),
                    ("checks.kernels_scalar", "run_part", {"props_file": "Props/C06_scalar.v"})])
    ctx.trusted.append("PyTorch (torch.nn.functional / torch.nn) and a loop transcription of the documented formulas as value oracles; used for witnesses only")
    ctx.notes.append("Theorems cover conv / pool / unfold / fold / layer constructors (ConvPool model), the forward definitions of the vector kernels "
                     "(Props/C06_vector.v) and of the scalar kernels (Props/C06_scalar.v); relu/leaky/mse/nll/linear/batch-norm statistics are additionally "
                     "tied by correspondence with a short Q model; all values are judged against torch.")


FINISH = dict(rule="non-trivial = distinct (op, per-axis geometry, input size) descriptors whose window map is not the identity "
                   "(kernel > 1, padding > 0 or stride > 1); acceptance cases all count; misc cases: each generated case")


def replay(ctx, data):
    """Re-run a stored witness on the implementation and judge it again with the oracle."""
    if data.get("kind") != "failing-input":
        print(json.dumps(data.get("broken"), indent=1)); return 1
    if (data.get("input") or {}).get("oracle") == "c06":
        from checks import kernels_vector
        return kernels_vector.replay_part(ctx, data)
    if str(data.get("site", "")).endswith("/forward") and "op" not in (data.get("input") or {}):
        try:
            from checks import kernels_scalar
            return kernels_scalar.replay_witness(ctx, data)
        except Exception:
            pass
    P = data["input"]
    if "op" in P and P["op"] in OPS1 + OPS2:
        obs = _observe(P)
        v = cc.oracle_forward(P, obs)
        if v is None and P["op"] == "fold" and obs[0] == "ok":
            import numpy as np
            y = np.array(P["y"])
            if y.shape[1] % (P["g"]["kH"] * P["g"]["kW"]):
                v = {"expected": "raises", "observed": list(obs[1].shape)}
        print("observed:", obs[0], (cc.tolist(obs[1]) if obs[0] == "ok" else obs[1]))
        print("verdict:", json.dumps(v)[:600] if v else "property holds on this input now")
        return 1 if v else 0
    print("stored input:", json.dumps(P)[:800])
    print("re-run with ./check C06 (layer / misc witnesses are regenerated by the run)")
    return 1
